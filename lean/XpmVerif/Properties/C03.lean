import XpmVerif.Proofs.InjectIdeal
/-! C03 — configurations with different signatures never share an identifier.

    All statements are about the specification `encVal`/`nodeStream`/`rawAt`/`rawId`/`fullId` of
    Model/Ident.lean.  The *signature* of a value is `canon cfg mt v : SVal` (members flagged `meta = True`
    dropped, dict items sorted by key, bool/int packed, references replaced by what the stream holds for
    them); the signature of a node is (producing-task part, type identifier, `sigArgs` = sorted
    (name, signature value) of the *included* arguments).

    Domain (hypotheses): text (strings, enum names, dict keys, argument names, type identifiers) contains no
    byte `< 13` (`noTag`); list lengths `< 2^53`; floats are 64-bit patterns; argument types satisfy the
    decidable predicate `ok` (`Ty.Unamb`, DESIGN §4); *ideal hash*: `H` injective and a digest embedded in a
    stream is one token `256 + d` (`hinj`, `hemb`; satisfiable: `idealHC`).

    Outside the domain the statements are false for the model *and* the real code (witnesses below):
    a type that is not `ok` (known finding F2) and text with control characters. -/
namespace XpmVerif.C03
open XpmVerif.Ident XpmVerif.Ident.Wit List

/-! ## values -/

/-- the bytes hashed for a value are the encoding of its signature value `canon … v`: values with the same
    signature are hashed identically (the converse direction of the property, here as the definition of
    "signature" used below). -/
theorem stream_is_encoding_of_signature (cfg : Nat → List Nat) (mt : Nat → Option Bool) (v : Val) :
    encVal cfg mt v = encS (canon cfg mt v) :=
  encVal_eq_encS_canon cfg mt v

/-- the list-length prefix (`struct.pack("!d", len)`, an IEEE double) determines the length below `2^53`. -/
theorem list_length_prefix_injective {n m : Nat} (hn : n < 2^53) (hm : m < 2^53)
    (h : f64OfNat n = f64OfNat m) : n = m :=
  f64OfNat_inj hn hm h

/-- **stream injectivity on signature values** (the core, type-directed): for an unambiguous type `t`, two
    well-typed signature values followed by continuations that are `safe` (empty or starting with a tag) and
    `Avoid (need t)` (not of the shape `03 key tag …` with `tag ∈ need t`): equal streams ⇒ equal values and
    equal continuations.  Strings, enum names and dicts carry no length and no terminator. -/
theorem signature_value_stream_injective (t : STy) (hok : ok t) (v1 v2 : SVal) (r1 r2 : List Nat)
    (h1 : wt t v1) (h2 : wt t v2) (hr1 : safe r1) (hr2 : safe r2)
    (ha1 : Avoid (need t) r1) (ha2 : Avoid (need t) r2)
    (h : encS v1 ++ r1 = encS v2 ++ r2) : v1 = v2 ∧ r1 = r2 :=
  encS_inj t hok v1 v2 r1 r2 h1 h2 hr1 hr2 ha1 ha2 h

/-- **stream injectivity on model values**: two values of the declared unambiguous type `t` (possibly in
    different graphs: different `cfg`, `mt`) with equal hashed bytes have the same signature. -/
theorem value_stream_injective (cfg1 cfg2 : Nat → List Nat) (mt1 mt2 : Nat → Option Bool)
    (hc1 : ∀ m, wtObj (cfg1 m)) (hc2 : ∀ m, wtObj (cfg2 m)) (t : STy) (hok : ok t) (v1 v2 : Val)
    (r1 r2 : List Nat) (h1 : VT mt1 t v1) (h2 : VT mt2 t v2) (hr1 : safe r1) (hr2 : safe r2)
    (ha1 : Avoid (need t) r1) (ha2 : Avoid (need t) r2)
    (h : encVal cfg1 mt1 v1 ++ r1 = encVal cfg2 mt2 v2 ++ r2) :
    canon cfg1 mt1 v1 = canon cfg2 mt2 v2 ∧ r1 = r2 :=
  encVal_inj cfg1 cfg2 mt1 mt2 hc1 hc2 t hok v1 v2 r1 r2 h1 h2 hr1 hr2 ha1 ha2 h

/-- what follows an argument value in a node stream — the end of the stream or `03 name 05 …` — satisfies
    the side conditions for every type (`05` is never a value tag, so never in `need t`). -/
theorem argument_boundary_admissible (t : STy) (name rest : List Nat) (hn : noTag name) :
    (safe [] ∧ Avoid (need t) []) ∧
    (safe (3 :: name ++ 5 :: rest) ∧ Avoid (need t) (3 :: name ++ 5 :: rest)) := by
  refine ⟨⟨trivial, avoid_nil _⟩, by simp [safe], ?_⟩
  intro k t' rest' hk ht' heq
  simp only [cons_append, cons.injEq, true_and] at heq
  have := str_split hn hk (r1 := 5 :: rest) (r2 := t' :: rest') (by simp [safe]) (need_lt t ht') heq
  have e : 5 = t' := by have := this.2; simp only [cons.injEq] at this; exact this.1
  exact name_tag_not_needed t (e ▸ ht')

/-- the signature value of an int64 determines the integer (no wrap-around inside the range). -/
theorem int_signature_injective (cfg1 cfg2 : Nat → List Nat) (mt1 mt2 : Nat → Option Bool) (i j : Int)
    (hi : -2^63 ≤ i ∧ i < 2^63) (hj : -2^63 ≤ j ∧ j < 2^63)
    (h : canon cfg1 mt1 (.int i) = canon cfg2 mt2 (.int j)) : i = j :=
  canon_int_inj cfg1 cfg2 mt1 mt2 i j hi hj h

/-- equal dict signatures ⇒ the kept items agree up to order (with `C01`'s `encVal_dict_perm` the signature
    of a dict is exactly its set of kept items). -/
theorem dict_signature_items (cfg1 cfg2 : Nat → List Nat) (mt1 mt2 : Nat → Option Bool)
    (ks1 ks2 : List (List Nat)) (vs1 vs2 : List Val)
    (h : canon cfg1 mt1 (.dict ks1 vs1) = canon cfg2 mt2 (.dict ks2 vs2)) :
    canonPairs cfg1 mt1 ks1 vs1 ~ canonPairs cfg2 mt2 ks2 vs2 :=
  canon_dict_items_perm cfg1 cfg2 mt1 mt2 ks1 ks2 vs1 vs2 h

/-! ## nodes -/

/-- the stream hashed for a node is a function of its signature parts. -/
theorem node_stream_of_signature (cfg : Nat → List Nat) (ceq : Nat → Nat → Bool) (mt : Nat → Option Bool) (self : Nat)
    (nd : Node) :
    nodeStream cfg ceq mt self nd
      = 0 :: (taskPart cfg self nd ++ (nd.typeId ++ encArgs (sigArgs cfg ceq mt nd))) :=
  nodeStream_eq cfg ceq mt self nd

/-- **node stream injectivity**: two nodes (possibly of different graphs) whose classes declare the same
    argument types whenever their type identifiers agree (`hτ`; in particular two nodes of one class
    library), with control-free type identifiers and well-typed included arguments of unambiguous types:
    equal streams ⇒ same producing-task part, same type identifier, same sorted list of
    (name, signature value) of the included arguments. -/
theorem node_stream_injective (τ1 τ2 : List Nat → STy) (cfg1 cfg2 : Nat → List Nat) (ceq1 ceq2 : Nat → Nat → Bool)
    (mt1 mt2 : Nat → Option Bool) (self1 self2 : Nat) (nd1 nd2 : Node)
    (hc1 : ∀ m, wtObj (cfg1 m)) (hc2 : ∀ m, wtObj (cfg2 m))
    (ht1 : noTag nd1.typeId) (ht2 : noTag nd2.typeId)
    (hτ : nd1.typeId = nd2.typeId → τ1 = τ2)
    (hw1 : ArgsTyped τ1 mt1 nd1) (hw2 : ArgsTyped τ2 mt2 nd2)
    (h : nodeStream cfg1 ceq1 mt1 self1 nd1 = nodeStream cfg2 ceq2 mt2 self2 nd2) :
    taskPart cfg1 self1 nd1 = taskPart cfg2 self2 nd2 ∧ nd1.typeId = nd2.typeId ∧
      sigArgs cfg1 ceq1 mt1 nd1 = sigArgs cfg2 ceq2 mt2 nd2 :=
  nodeStream_inj τ1 τ2 cfg1 cfg2 ceq1 ceq2 mt1 mt2 self1 self2 nd1 nd2 hc1 hc2 ht1 ht2 hτ
    (wtArgs_of_typed τ1 cfg1 ceq1 mt1 hc1 nd1 hw1) (wtArgs_of_typed τ2 cfg2 ceq2 mt2 hc2 nd2 hw2) h

/-! ## identifiers (ideal hash) -/

/-- **one step**: equal raw identifiers ⇒ equal hashed node streams (`cfgAt` is how `rawId` encodes the
    references below the node: cycle reference or digest token). -/
theorem raw_identifier_stream (hc : HC Nat) (hinj : ∀ a b, hc.H a = hc.H b → a = b) (g1 g2 : Graph) (n1 n2 : Nat)
    (h : rawId hc g1 n1 = rawId hc g2 n2) :
    nodeStream (cfgAt hc g1 g1.size [n1]) (ceqAt hc g1 g1.size [n1]) g1.mt n1 (g1.node n1)
      = nodeStream (cfgAt hc g2 g2.size [n2]) (ceqAt hc g2 g2.size [n2]) g2.mt n2 (g2.node n2) :=
  rawAt_stream hc hinj g1 g2 g1.size g2.size [] [] n1 n2 h

/-- **raw identifier ⇒ signature of the node, one level**, at any point of the computation (`rawId` is the
    case `f = size`, `s = []`): equal raw identifiers ⇒ same producing-task part, same type identifier, same
    (name, signature value) list; nested configurations appear in the signature values as their digest
    tokens `256 + rawAt …`, to which the statement applies again. -/
theorem raw_identifier_signature_step (hc : HC Nat) (hinj : ∀ a b, hc.H a = hc.H b → a = b)
    (hemb : ∀ d, hc.emb d = [256 + d]) (τ1 τ2 : List Nat → STy) (g1 g2 : Graph) (f1 f2 : Nat)
    (s1 s2 : List Nat) (n1 n2 : Nat) (hs1 : s1.length + 1 < 2^64) (hs2 : s2.length + 1 < 2^64)
    (ht1 : noTag (g1.node n1).typeId) (ht2 : noTag (g2.node n2).typeId)
    (hτ : (g1.node n1).typeId = (g2.node n2).typeId → τ1 = τ2)
    (hw1 : ArgsTyped τ1 g1.mt (g1.node n1)) (hw2 : ArgsTyped τ2 g2.mt (g2.node n2))
    (h : rawAt hc g1 (f1 + 1) s1 n1 = rawAt hc g2 (f2 + 1) s2 n2) :
    taskPart (cfgAt hc g1 f1 (n1 :: s1)) n1 (g1.node n1) = taskPart (cfgAt hc g2 f2 (n2 :: s2)) n2 (g2.node n2) ∧
    (g1.node n1).typeId = (g2.node n2).typeId ∧
    sigArgs (cfgAt hc g1 f1 (n1 :: s1)) (ceqAt hc g1 f1 (n1 :: s1)) g1.mt (g1.node n1)
      = sigArgs (cfgAt hc g2 f2 (n2 :: s2)) (ceqAt hc g2 f2 (n2 :: s2)) g2.mt (g2.node n2) :=
  rawAt_inj_step hc hinj hemb τ1 τ2 g1 g2 f1 f2 s1 s2 n1 n2 hs1 hs2 ht1 ht2 hτ hw1 hw2 h

/-- **different signatures never share a raw identifier** (contrapositive of the step, for `rawId`): if the
    type identifiers, the producing-task parts or the (name, signature value) lists of the included
    arguments differ, the raw identifiers differ. -/
theorem different_signature_different_raw_identifier (hc : HC Nat) (hinj : ∀ a b, hc.H a = hc.H b → a = b)
    (hemb : ∀ d, hc.emb d = [256 + d]) (τ1 τ2 : List Nat → STy) (g1 g2 : Graph) (n1 n2 : Nat)
    (ht1 : noTag (g1.node n1).typeId) (ht2 : noTag (g2.node n2).typeId)
    (hτ : (g1.node n1).typeId = (g2.node n2).typeId → τ1 = τ2)
    (hw1 : ArgsTyped τ1 g1.mt (g1.node n1)) (hw2 : ArgsTyped τ2 g2.mt (g2.node n2))
    (hd : (g1.node n1).typeId ≠ (g2.node n2).typeId ∨
      taskPart (cfgAt hc g1 g1.size [n1]) n1 (g1.node n1) ≠ taskPart (cfgAt hc g2 g2.size [n2]) n2 (g2.node n2) ∨
      sigArgs (cfgAt hc g1 g1.size [n1]) (ceqAt hc g1 g1.size [n1]) g1.mt (g1.node n1)
        ≠ sigArgs (cfgAt hc g2 g2.size [n2]) (ceqAt hc g2 g2.size [n2]) g2.mt (g2.node n2)) :
    rawId hc g1 n1 ≠ rawId hc g2 n2 := by
  intro h
  have := rawAt_inj_step hc hinj hemb τ1 τ2 g1 g2 g1.size g2.size [] [] n1 n2 (by decide) (by decide)
    ht1 ht2 hτ hw1 hw2 h
  rcases hd with hd | hd | hd
  · exact hd this.2.1
  · exact hd this.1
  · exact hd this.2.2

/-- **the signature at every depth**: for graphs over one class library `lib` (type identifier ↦ argument
    name ↦ unambiguous type), equal raw identifiers under the ideal hash ⇒ equal raw identifiers under *every*
    hash structure `hc'` (arbitrary digest type) that takes the same default decisions: the two configurations
    agree on everything any identifier of this family can depend on — type identifiers, producing tasks, included
    argument names and values, recursively through all nested configurations and cycle references.
    `DefaultsSeparated hc hc' g` (Proofs/InjectDeep.lean): whenever `_is_default` run with `hc'` finds that a value
    has the identifier of a configuration of a declared default, it does so with `hc` too (the converse is part
    of the conclusion).  It is the only assumption on `hc'`; it is needed because which parameters are *in* the
    signature is now decided by comparing identifiers (a colliding `hc'` may skip a parameter that the ideal
    hash keeps), and it is vacuous when no declared default contains a configuration object
    (`raw_identifier_signature_every_depth_noCfgDefaults`: the former statement). -/
theorem raw_identifier_signature_every_depth {D' : Type} (hc : HC Nat) (hinj : ∀ a b, hc.H a = hc.H b → a = b)
    (hemb : ∀ d, hc.emb d = [256 + d]) (hc' : HC D') (lib : List Nat → List Nat → STy) (g1 g2 : Graph)
    (hg1 : LibTyped lib g1) (hg2 : LibTyped lib g2)
    (hd1 : DefaultsSeparated hc hc' g1) (hd2 : DefaultsSeparated hc hc' g2)
    (hz1 : g1.size + 1 < 2^64) (hz2 : g2.size + 1 < 2^64)
    (n1 n2 : Nat) (h : rawId hc g1 n1 = rawId hc g2 n2) : rawId hc' g1 n1 = rawId hc' g2 n2 :=
  rawAt_hash_independent hc hinj hemb hc' lib (g1.size + 1) (g2.size + 1) g1 g2 [] [] n1 n2 hg1 hg2 hd1 hd2
    (by simpa using hz1) (by simpa using hz2) h

/-- the statement as it was before defaults could be configuration objects: for graphs in which no declared
    default contains a configuration object, `hc'` is arbitrary (no assumption). -/
theorem raw_identifier_signature_every_depth_noCfgDefaults {D' : Type} (hc : HC Nat)
    (hinj : ∀ a b, hc.H a = hc.H b → a = b)
    (hemb : ∀ d, hc.emb d = [256 + d]) (hc' : HC D') (lib : List Nat → List Nat → STy) (g1 g2 : Graph)
    (hg1 : LibTyped lib g1) (hg2 : LibTyped lib g2) (hn1 : NoCfgDefault g1) (hn2 : NoCfgDefault g2)
    (hz1 : g1.size + 1 < 2^64) (hz2 : g2.size + 1 < 2^64)
    (n1 n2 : Nat) (h : rawId hc g1 n1 = rawId hc g2 n2) : rawId hc' g1 n1 = rawId hc' g2 n2 :=
  raw_identifier_signature_every_depth hc hinj hemb hc' lib g1 g2 hg1 hg2
    (.of_noCfgDefaults hc hc' hn1) (.of_noCfgDefaults hc hc' hn2) hz1 hz2 n1 n2 h

/-- in particular: equal raw identifiers ⇒ equal *fully expanded* streams (`expandHC`: nothing digested,
    every nested configuration inlined between brackets). -/
theorem raw_identifier_determines_expanded_stream (hc : HC Nat) (hinj : ∀ a b, hc.H a = hc.H b → a = b)
    (hemb : ∀ d, hc.emb d = [256 + d]) (lib : List Nat → List Nat → STy) (g1 g2 : Graph)
    (hg1 : LibTyped lib g1) (hg2 : LibTyped lib g2)
    (hd1 : DefaultsSeparated hc expandHC g1) (hd2 : DefaultsSeparated hc expandHC g2)
    (hz1 : g1.size + 1 < 2^64) (hz2 : g2.size + 1 < 2^64)
    (n1 n2 : Nat) (h : rawId hc g1 n1 = rawId hc g2 n2) : rawId expandHC g1 n1 = rawId expandHC g2 n2 :=
  raw_identifier_signature_every_depth hc hinj hemb expandHC lib g1 g2 hg1 hg2 hd1 hd2 hz1 hz2 n1 n2 h

/-- **full identifier**: equal full identifiers ⇒ equal raw identifier, equal sorted pre-task identifiers,
    equal sequence of init-task identifiers (the `0c` marker separates; digests are tokens `≥ 256`). -/
theorem full_identifier_injective (hc : HC Nat) (hinj : ∀ a b, hc.H a = hc.H b → a = b)
    (hemb : ∀ d, hc.emb d = [256 + d]) (g1 g2 : Graph) (n1 n2 : Nat) (h : fullId hc g1 n1 = fullId hc g2 n2) :
    rawId hc g1 n1 = rawId hc g2 n2 ∧
    sortBy hc.le ((collectPreTasks g1 n1).map (rawId hc g1)) = sortBy hc.le ((collectPreTasks g2 n2).map (rawId hc g2)) ∧
    (g1.node n1).initTasks.map (rawId hc g1) = (g2.node n2).initTasks.map (rawId hc g2) :=
  fullId_inj hc hinj hemb g1 g2 n1 n2 h

/-- … hence the same *multiset* of pre-task identifiers (whatever the order `hc.le`). -/
theorem full_identifier_pretask_multiset (hc : HC Nat) (hinj : ∀ a b, hc.H a = hc.H b → a = b)
    (hemb : ∀ d, hc.emb d = [256 + d]) (g1 g2 : Graph) (n1 n2 : Nat) (h : fullId hc g1 n1 = fullId hc g2 n2) :
    (collectPreTasks g1 n1).map (rawId hc g1) ~ (collectPreTasks g2 n2).map (rawId hc g2) := by
  have e := (fullId_inj hc hinj hemb g1 g2 n1 n2 h).2.1
  exact (sortBy_perm hc.le _).symm.trans (by rw [e]; exact sortBy_perm hc.le _)

/-- **the full signature at every depth**: for graphs over one class library, equal full identifiers under the
    ideal hash ⇒ equal full identifiers under every hash structure whose digest order is a total order: same
    signature of the configuration, same multiset of pre-task signatures, same sequence of init-task
    signatures, each at every depth. -/
theorem full_identifier_signature_every_depth {D' : Type} (hc : HC Nat) (hinj : ∀ a b, hc.H a = hc.H b → a = b)
    (hemb : ∀ d, hc.emb d = [256 + d]) (hc' : HC D')
    (total : ∀ a b, hc'.le a b = true ∨ hc'.le b a = true)
    (trans : ∀ a b c, hc'.le a b = true → hc'.le b c = true → hc'.le a c = true)
    (antisymm : ∀ a b, hc'.le a b = true → hc'.le b a = true → a = b)
    (lib : List Nat → List Nat → STy) (g1 g2 : Graph)
    (hg1 : LibTyped lib g1) (hg2 : LibTyped lib g2)
    (hd1 : DefaultsSeparated hc hc' g1) (hd2 : DefaultsSeparated hc hc' g2)
    (hz1 : g1.size + 1 < 2^64) (hz2 : g2.size + 1 < 2^64)
    (n1 n2 : Nat) (h : fullId hc g1 n1 = fullId hc g2 n2) : fullId hc' g1 n1 = fullId hc' g2 n2 :=
  fullId_hash_independent hc hinj hemb hc' total trans antisymm lib g1 g2 hg1 hg2 hd1 hd2 hz1 hz2 n1 n2 h

/-- the former statement: no assumption on `hc'` besides the order, for graphs in which no declared default
    contains a configuration object. -/
theorem full_identifier_signature_every_depth_noCfgDefaults {D' : Type} (hc : HC Nat)
    (hinj : ∀ a b, hc.H a = hc.H b → a = b)
    (hemb : ∀ d, hc.emb d = [256 + d]) (hc' : HC D')
    (total : ∀ a b, hc'.le a b = true ∨ hc'.le b a = true)
    (trans : ∀ a b c, hc'.le a b = true → hc'.le b c = true → hc'.le a c = true)
    (antisymm : ∀ a b, hc'.le a b = true → hc'.le b a = true → a = b)
    (lib : List Nat → List Nat → STy) (g1 g2 : Graph)
    (hg1 : LibTyped lib g1) (hg2 : LibTyped lib g2) (hn1 : NoCfgDefault g1) (hn2 : NoCfgDefault g2)
    (hz1 : g1.size + 1 < 2^64) (hz2 : g2.size + 1 < 2^64)
    (n1 n2 : Nat) (h : fullId hc g1 n1 = fullId hc g2 n2) : fullId hc' g1 n1 = fullId hc' g2 n2 :=
  full_identifier_signature_every_depth hc hinj hemb hc' total trans antisymm lib g1 g2 hg1 hg2
    (.of_noCfgDefaults hc hc' hn1) (.of_noCfgDefaults hc hc' hn2) hz1 hz2 n1 n2 h

/-- the ideal-hash hypotheses are consistent: `idealHC` satisfies them. -/
theorem ideal_hash_exists : ∃ hc : HC Nat, (∀ a b, hc.H a = hc.H b → a = b) ∧ ∀ d, hc.emb d = [256 + d] :=
  ⟨idealHC, idealHC_inj, idealHC_emb⟩

/-! ## configuration-valued defaults -/

/-- **a parameter with a configuration default is in the signature iff its value does not have the identifier of
    the default** (ideal hash: digests are atomic tokens, so equal embedded digests are equal digests).
    `a` reaches the default rule (not ignored, not generated, not constant), its value is a configuration `v`
    that is not flagged `meta = True` and is not being hashed; the default object `d` is not being hashed either
    (it never is in the real code).  Both identifiers are those computed in the context `n :: stack` in which
    the node is hashed. -/
theorem config_default_iff (hc : HC Nat) (hemb : ∀ d, hc.emb d = [256 + d]) (g : Graph) (fuel : Nat)
    (stack : List Nat) (n : Nat) (a : Arg) (d v : Nat)
    (hi : ignoredOut g.mt a = false) (hg : a.generator = false) (hcst : a.constant = false)
    (hm : metaOut g.mt a = false)
    (hd : a.default = some (.ref d)) (hv : a.value = .ref v)
    (hds : relIndex (n :: stack) d = none) (hvs : relIndex (n :: stack) v = none) :
    included (ceqAt hc g fuel (n :: stack)) g.mt a = true ↔
      rawAt hc g fuel (n :: stack) d ≠ rawAt hc g fuel (n :: stack) v := by
  have hdo : defaultOut (ceqAt hc g fuel (n :: stack)) g.mt a
      = decide (rawAt hc g fuel (n :: stack) d = rawAt hc g fuel (n :: stack) v) := by
    simp only [defaultOut, hcst, hd, hv, removeMeta, isDefault, ceqAt_off_stack hc g fuel _ d v hds hvs, hemb]
    simp only [Bool.not_false, Option.isNone_some, Bool.and_false, Bool.false_or, Bool.true_and]
    rw [Bool.eq_iff_iff]
    simp only [beq_iff_eq, cons.injEq, and_true, decide_eq_true_eq]
    omega
  simp only [included, hi, hg, hm, hdo]
  simp

/-- the same in terms of signatures (ideal hash, `H` injective): the parameter is in the signature iff the
    streams hashed for the value and for the default object differ — e.g. because their types, one of their
    included parameters, or *the tasks that produced them* differ. -/
theorem config_default_iff_stream (hc : HC Nat) (hinj : ∀ a b, hc.H a = hc.H b → a = b)
    (hemb : ∀ d, hc.emb d = [256 + d]) (g : Graph) (fuel : Nat)
    (stack : List Nat) (n : Nat) (a : Arg) (d v : Nat)
    (hi : ignoredOut g.mt a = false) (hg : a.generator = false) (hcst : a.constant = false)
    (hm : metaOut g.mt a = false)
    (hd : a.default = some (.ref d)) (hv : a.value = .ref v)
    (hds : relIndex (n :: stack) d = none) (hvs : relIndex (n :: stack) v = none) :
    included (ceqAt hc g (fuel + 1) (n :: stack)) g.mt a = true ↔
      nodeStream (cfgAt hc g fuel (d :: n :: stack)) (ceqAt hc g fuel (d :: n :: stack)) g.mt d (g.node d)
        ≠ nodeStream (cfgAt hc g fuel (v :: n :: stack)) (ceqAt hc g fuel (v :: n :: stack)) g.mt v (g.node v) := by
  rw [config_default_iff hc hemb g (fuel + 1) stack n a d v hi hg hcst hm hd hv hds hvs, rawAt_succ, rawAt_succ]
  constructor
  · intro h e; exact h (by rw [e])
  · intro h e; exact h (hinj _ _ e)

/-! **finding F34** (kernel-checked witness): `class Model(Config): k: Param[int]`,
    `class Evaluate(Task): model: Param[Model] = Model(k=1)`, `class Learn(Task)` whose output is a `Model`.
    Node 2 is the default object of `Evaluate.model`; node 0 is `Evaluate()` (its value is node 3, the clone made
    by `__init__`); node 1 is `Evaluate(model = Learn().submit())` (node 4: a `Model(k=1)` *produced by task* 5).
    With the rule of the current source (`_is_default`: identifiers) the two evaluations are hashed differently;
    with the former rule (`default == value`, i.e. `TypeConfig.__eq__`: same class, same parameter values, the
    producing task is not compared) the parameter is skipped in both and they collide — same identifier, same
    job directory, for every hash. -/
def argModel (v : Nat) : Arg := { name := [109], required := false, default := some (.ref 2), value := .ref v }
def nodeModel (t : Option Nat) : Node := { typeId := [77], args := [{ name := [107], value := .int 1 }], task := t }
def gEval : Graph := { nodes := [
  { typeId := [69], args := [argModel 3] }, { typeId := [69], args := [argModel 4] },
  nodeModel none, nodeModel none, nodeModel (some 5),
  { typeId := [76], args := [{ name := [115], value := .int 1 }] }] }

/-- `TypeConfig.__eq__`-like comparison of two configurations: same class and pairwise equal parameter
    values (Python `==`); the producing task is ignored. -/
def oldCeq (g : Graph) (d v : Nat) : Bool :=
  (g.node d).typeId == (g.node v).typeId &&
    pyEqL ((g.node d).args.map (·.value)) ((g.node v).args.map (·.value))

/-- `Evaluate(model = <clone of the default, produced by task T>)` is hashed differently from `Evaluate()`:
    their fully expanded streams differ (`expandHC`: injective, nothing digested), … -/
theorem config_default_producer_included :
    rawId expandHC gEval 0 ≠ rawId expandHC gEval 1 ∧ fullId expandHC gEval 0 ≠ fullId expandHC gEval 1
    ∧ argStream (cfgAt expandHC gEval 6 [0]) (ceqAt expandHC gEval 6 [0]) gEval.mt (argModel 3) = []
    ∧ argStream (cfgAt expandHC gEval 6 [1]) (ceqAt expandHC gEval 6 [1]) gEval.mt (argModel 4) ≠ [] := by decide

/-- … whereas with the former rule both parameters are skipped and the two streams are equal, whatever the
    encoding of references: the two evaluations collided under every hash. -/
theorem config_default_producer_old_rule_collision (cfg : Nat → List Nat) :
    nodeStream cfg (oldCeq gEval) gEval.mt 0 (gEval.node 0) = nodeStream cfg (oldCeq gEval) gEval.mt 1 (gEval.node 1)
    ∧ argStream cfg (oldCeq gEval) gEval.mt (argModel 4) = [] := by
  constructor <;> rfl

/-- the hypotheses of `config_default_iff` are satisfiable (node 1 of `gEval`, toy ideal-like hash with atomic
    digests), and the equivalence is not trivial: included for the produced model, skipped for the clone. -/
example : (included (ceqAt expandHC gEval 6 [1]) gEval.mt (argModel 4) = true) ∧
    (included (ceqAt expandHC gEval 6 [0]) gEval.mt (argModel 3) = false) ∧
    ignoredOut gEval.mt (argModel 4) = false ∧ metaOut gEval.mt (argModel 4) = false ∧
    relIndex [1] 2 = none ∧ relIndex [1] 4 = none := by decide

/-! **why `DefaultsSeparated` is needed** in `raw_identifier_signature_every_depth` (kernel-checked): two graphs over
    one class library — `A(x = B(k=1))` where the default object of `A.x` is `B(k=5)` in the first graph and `B(k=7)` in
    the second — have the same raw identifier under *every* ideal hash (the parameter is included in both), but
    different raw identifiers under the hash structure `collHC` in which the streams of `B(k=5)` and `B(k=1)` collide
    (the parameter is then skipped in the first graph only).  All the hypotheses of the former statement hold. -/
def gSep (k : Int) : Graph := { nodes := [
  { typeId := [65], args := [{ name := [120], required := false, default := some (.ref 1), value := .ref 2 }] },
  { typeId := [66], args := [{ name := [107], value := .int k }] },
  { typeId := [66], args := [{ name := [107], value := .int 1 }] }] }

/-- the stream hashed for `B(k)`. -/
def sB (k : Int) : List Nat := 0 :: 66 :: 3 :: 107 :: 5 :: 1 :: packq k

def aX : Arg := { name := [120], required := false, default := some (.ref 1), value := .ref 2 }

def toyH (l : List Nat) : Nat := l.foldl (fun a b => (a * 31 + b + 1) % 1000003) 7

/-- a hash structure with one collision: the stream of `B(k=5)` is hashed as the stream of `B(k=1)`. -/
def collHC : HC Nat :=
  { H := fun l => toyH (if l = sB 5 then sB 1 else l), emb := fun d => [256 + d], le := fun a b => a ≤ b }

def libSep : List Nat → List Nat → STy := fun ty _ => if ty = [65] then .obj else .int

theorem rawAt_sep_B (hc : HC Nat) (k : Int) (f : Nat) (s : List Nat) (n : Nat) (hn : n = 1 ∨ n = 2) :
    rawAt hc (gSep k) (f + 1) s n = hc.H (sB (if n = 1 then k else 1)) := by
  rcases hn with rfl | rfl <;> rfl

theorem rawId_sep (hc : HC Nat) (hinj : ∀ a b, hc.H a = hc.H b → a = b) (hemb : ∀ d, hc.emb d = [256 + d]) (k : Int)
    (hk : sB k ≠ sB 1) :
    rawId hc (gSep k) 0 = hc.H (0 :: 65 :: 3 :: 120 :: 5 :: 0 :: [256 + hc.H (sB 1)]) := by
  have hinc : included (ceqAt hc (gSep k) 3 [0]) (gSep k).mt aX = true := by
    refine (config_default_iff hc hemb (gSep k) 3 [] 0 aX 1 2 rfl rfl rfl rfl rfl rfl (by decide) (by decide)).2 ?_
    rw [rawAt_sep_B hc k 2 [0] 1 (.inl rfl), rawAt_sep_B hc k 2 [0] 2 (.inr rfl)]
    intro h
    exact hk (hinj _ _ h)
  have hcfg : cfgAt hc (gSep k) 3 [0] 2 = [256 + hc.H (sB 1)] := by
    simp only [cfgAt, relIndex]
    rw [rawAt_sep_B hc k 2 [0] 2 (.inr rfl), hemb]
    simp
  show rawAt hc (gSep k) (3 + 1) [] 0 = _
  rw [rawAt_succ]
  congr 1
  show nodeStream _ _ _ 0 { typeId := [65], args := [aX] } = _
  simp only [nodeStream, sortBy, foldr, insertBy, map, argStream, hinc, if_true]
  simp only [aX, encVal, hcfg]
  rfl

theorem libTyped_sep (k : Int) : LibTyped libSep (gSep k) := by
  intro n
  match n with
  | 0 => exact ⟨by simp [gSep, Graph.node, noTag], by simp [ArgsTyped, gSep, Graph.node, libSep, noTag, VT, ok]⟩
  | 1 => exact ⟨by simp [gSep, Graph.node, noTag], by simp [ArgsTyped, gSep, Graph.node, libSep, noTag, VT, ok]⟩
  | 2 => exact ⟨by simp [gSep, Graph.node, noTag], by simp [ArgsTyped, gSep, Graph.node, libSep, noTag, VT, ok]⟩
  | n + 3 => exact ⟨by simp [gSep, Graph.node, noTag], by simp [ArgsTyped, gSep, Graph.node]⟩

/-- the former statement of `raw_identifier_signature_every_depth` (arbitrary `hc'`) is false once defaults may be
    configuration objects. -/
theorem every_depth_needs_defaults_separated (hc : HC Nat) (hinj : ∀ a b, hc.H a = hc.H b → a = b)
    (hemb : ∀ d, hc.emb d = [256 + d]) :
    LibTyped libSep (gSep 5) ∧ LibTyped libSep (gSep 7) ∧ (gSep 5).size + 1 < 2^64 ∧ (gSep 7).size + 1 < 2^64 ∧
    rawId hc (gSep 5) 0 = rawId hc (gSep 7) 0 ∧ rawId collHC (gSep 5) 0 ≠ rawId collHC (gSep 7) 0 := by
  refine ⟨libTyped_sep 5, libTyped_sep 7, by decide, by decide, ?_, by decide⟩
  rw [rawId_sep hc hinj hemb 5 (by decide), rawId_sep hc hinj hemb 7 (by decide)]

/-- … and `collHC` indeed violates `DefaultsSeparated` on the first graph. -/
example : ¬ DefaultsSeparated idealHC collHC (gSep 5) := by
  intro h
  have h1 := h 3 [] 0 aX (List.Mem.head _) 1 (by simp [dfltAll, aX, refsAll, refsVal]) 2 (by decide)
  rw [ceqAt_off_stack idealHC (gSep 5) 3 [0] 1 2 (by decide) (by decide),
    rawAt_sep_B idealHC 5 2 [0] 1 (.inl rfl), rawAt_sep_B idealHC 5 2 [0] 2 (.inr rfl)] at h1
  simp only [idealHC_emb, beq_iff_eq, cons.injEq, and_true] at h1
  have : sB 5 = sB 1 := idealHC_inj _ _ (by simpa using h1)
  exact absurd this (by decide)

/-! ## boundary of the domain -/

/-- **every type of dict depth ≤ 1 is unambiguous.** -/
theorem dict_depth_one_unamb (t : STy) (h : dictFree t = true) : ok (.dict t) := by
  have := dict_free_need t h
  simp [ok, this.1, this.2]

/-- `Dict[str, Dict[str, int]]` is unambiguous. -/
theorem dict_dict_int_unamb : ok (.dict (.dict .int)) := by decide

/-- `Dict[str, List[Dict[str, List[int]]]]` is **not** unambiguous (`07 ∈ fts ∩ need`). -/
theorem dict_list_dict_list_not_unamb : ¬ ok (.dict (.list (.dict (.list .int)))) := by decide

/-- **known finding F2** (inside the documented domain, outside `ok`): two different values of type
    `Dict[str, List[Dict[str, List[int]]]]` with the same hashed bytes. -/
theorem collision_dict2_via_list :
    encVal cfg0 mt0 f2a = encVal cfg0 mt0 f2b ∧ canon cfg0 mt0 f2a ≠ canon cfg0 mt0 f2b := by
  refine ⟨by decide, ?_⟩
  simp [f2a, f2b, canon, canonPairs, canonItems, dropped, sortBy, insertBy, bytesLe]

/-- both F2 values are well-typed: only `ok` fails. -/
theorem collision_dict2_via_list_typed :
    VT mt0 (.dict (.list (.dict (.list .int)))) f2a ∧ VT mt0 (.dict (.list (.dict (.list .int)))) f2b := by
  exact ⟨vtb_sound _ _ _ (by decide), vtb_sound _ _ _ (by decide)⟩

/-- **control characters** (outside the domain): the string `"x\x03b\x03y"` under key `a` collides with the
    two-item dict `{"a":"x","b":"y"}` although `Dict[str, str]` is unambiguous. -/
theorem collision_ctrl_string :
    encVal cfg0 mt0 (.dict [[97]] [.str [120, 3, 98, 3, 121]])
      = encVal cfg0 mt0 (.dict [[97], [98]] [.str [120], .str [121]]) ∧ ok (.dict .str) := by
  refine ⟨by decide, by decide⟩

/-- F2 at identifier level: the two single-node graphs holding the F2 values share raw and full identifier
    under *every* hash structure. -/
theorem collision_dict2_via_list_identifier {D : Type} (hc : HC D) :
    rawId hc gF2a 0 = rawId hc gF2b 0 ∧ fullId hc gF2a 0 = fullId hc gF2b 0 := by
  have h : rawId hc gF2a 0 = rawId hc gF2b 0 := by
    simp only [rawId, Graph.size, gF2a, gF2b, List.length, rawAt]
    congr 1
  refine ⟨h, ?_⟩
  unfold fullId
  rw [h]
  rfl

/-! ## non-vacuity -/

/-- (the graph `gEx`: a configuration with an int, a list of optional strings and a nested configuration, typed by
    `libEx`) a well-typed nested value of the unambiguous type `Dict[str, Dict[str, int]]`, and an admissible continuation. -/
example : VT mt0 (.dict (.dict .int)) (.dict [[97], [98]] [.dict [[107]] [.int 1], .dict [] []]) ∧
    ok (.dict (.dict .int)) ∧ safe [3, 110, 5, 6] ∧ Avoid (need (.dict (.dict .int))) [3, 110, 5, 6] := by
  refine ⟨vtb_sound _ _ _ (by decide), by decide, by simp [safe], ?_⟩
  exact (argument_boundary_admissible _ [110] [6] (by simp [noTag])).2.2

example : LibTyped libEx gEx ∧ gEx.size + 1 < 2^64 := by
  refine ⟨?_, by decide⟩
  intro n
  match n with
  | 0 => exact ⟨by simp [gEx, Graph.node, noTag], by simp [ArgsTyped, gEx, Graph.node, libEx, noTag, VT, ok, dropped]⟩
  | 1 => exact ⟨by simp [gEx, Graph.node, noTag], by simp [ArgsTyped, gEx, Graph.node, libEx, noTag, VT, ok]⟩
  | n + 2 => exact ⟨by simp [gEx, Graph.node, noTag], by simp [ArgsTyped, gEx, Graph.node]⟩

/-- the order hypotheses of `full_identifier_signature_every_depth` hold for the expanding structure
    (`bytesLe` is a total order), so it applies with `hc' := expandHC`. -/
example (hc : HC Nat) (hinj : ∀ a b, hc.H a = hc.H b → a = b) (hemb : ∀ d, hc.emb d = [256 + d])
    (lib : List Nat → List Nat → STy) (g1 g2 : Graph) (hg1 : LibTyped lib g1) (hg2 : LibTyped lib g2)
    (hd1 : DefaultsSeparated hc expandHC g1) (hd2 : DefaultsSeparated hc expandHC g2)
    (hz1 : g1.size + 1 < 2^64) (hz2 : g2.size + 1 < 2^64) (n1 n2 : Nat)
    (h : fullId hc g1 n1 = fullId hc g2 n2) : fullId expandHC g1 n1 = fullId expandHC g2 n2 :=
  full_identifier_signature_every_depth hc hinj hemb expandHC bytesLe_total bytesLe_trans bytesLe_antisymm
    lib g1 g2 hg1 hg2 hd1 hd2 hz1 hz2 n1 n2 h

/-! Not formalised as such: the `SigTree` data type of DESIGN §4 (`ident_injective : full g₁ n₁ = full g₂ n₂ →
    fullSig g₁ n₁ = fullSig g₂ n₂`).  It is replaced by the equivalent hash-independent statements
    `raw_identifier_signature_every_depth` / `full_identifier_signature_every_depth` (take for `hc'` the free
    structure, e.g. `expandHC`), plus the one-level decomposition `raw_identifier_signature_step`.
    Union types and `Any` are not representable in `STy` (they are not `Unamb`); `Path` values are encoded as the
    unsupported token and belong to no type. -/

/-! ### `NoCfgDefault` is satisfiable on a non-trivial graph (audit round 8, item 6)
    two configurations, node 0 refers to node 1 and declares a list default and a scalar default (no configuration object in
    any declared default), node 1 declares a dict default. -/

def noCfgG : Graph :=
  { nodes := [{ typeId := [97], args := [{ name := [120], value := .ref 1 },
                                          { name := [121], required := false, default := some (.list [.int 1, .int 2]), value := .list [.int 3] },
                                          { name := [122], required := false, default := some (.int 5), value := .int 5 }] },
              { typeId := [98], args := [{ name := [123], required := false, default := some (.dict [[107]] [.int 0]), value := .dict [[107]] [.int 9] }] }] }

example : NoCfgDefault noCfgG := by
  intro n a ha
  match n with
  | 0 => simp [noCfgG, Graph.node] at ha; rcases ha with rfl | rfl | rfl <;> decide
  | 1 => simp [noCfgG, Graph.node] at ha; subst ha; decide
  | n + 2 => simp [noCfgG, Graph.node] at ha

end XpmVerif.C03
