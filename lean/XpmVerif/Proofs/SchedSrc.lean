import XpmVerif.Model.Sched
/-! Helpers of the source obligations of `Properties/SchedSrc.lean`: the flag set of the repaired source and the tactic that
    compares a hand-written transition of `Model/Sched.lean` with the definition regenerated from the Python source
    (`Generated/SchedSrc.lean`).  The tactic knows nothing about the shape of the generated term: it splits every `if`/`match`
    of both sides and closes each leaf by simplification, so a behaviour-preserving rewrite of the source (other nesting of the
    tests, early returns, renamed locals) is accepted and a changed guard / assignment / arithmetic is not. -/
namespace XpmVerif.SchedSrc
open XpmVerif.Sched

/-- the source with the four scheduler repairs (F3, F4, F5, F32). -/
def repaired : Flags := { readyGuarded := true, resubmitRegisters := true, abortRechecks := true, abortReleases := true }

/-- split every remaining `if` / `match`, close each leaf by `rfl`, `simp_all` or linear arithmetic. -/
macro "src_auto" : tactic =>
  `(tactic| (repeat' (first | rfl | (simp_all; done) | omega | (simp_all; omega) | split)))

end XpmVerif.SchedSrc
