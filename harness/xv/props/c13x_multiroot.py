"""C13, second way of "loading a parameter file": several configuration graphs written together by the public
`state_dict` / `save` and turned into runtime objects by `from_state_dict(..., as_instance=True)` / `load(dir, as_instance=True)`.

A case (`kind: "c13m"`) = class library + a forest of 1-3 generated graphs (components; a later component may share a
configuration with an earlier one) + a *value*: a list / dictionary / nesting of both whose leaves are component roots
(every component root occurs, in any order), sometimes inner nodes, sometimes the same configuration twice + the route
(`state`: state_dict -> JSON -> from_state_dict, `save`: save -> definition.json -> load).  The worker
(xv.impl.c13x_multiroot_worker) states the property on the value that the loader returns."""
import copy

from .. import seriallib
from ..gen import cfggen


def _shift(v, off):
    if isinstance(v, dict):
        if "r" in v:
            return {"r": v["r"] + off}
        if "l" in v:
            return {"l": [_shift(x, off) for x in v["l"]]}
        if "d" in v:
            return {"d": [[k, _shift(x, off)] for k, x in v["d"]]}
    return v


def _redirect(v, old, new):
    if isinstance(v, dict):
        if "r" in v:
            return {"r": new} if v["r"] == old else v
        if "l" in v:
            return {"l": [_redirect(x, old, new) for x in v["l"]]}
        if "d" in v:
            return {"d": [[k, _redirect(x, old, new)] for k, x in v["d"]]}
    return v


def merge(graphs):
    """one node list for several graphs; returns (graph, index of each component's root)"""
    nodes, roots = [], []
    for g in graphs:
        off = len(nodes)
        roots.append(off)
        for nd in copy.deepcopy(g["nodes"]):
            nd["values"] = [[k, _shift(v, off)] for k, v in nd["values"]]
            nd["pre"] = [p + off for p in nd["pre"]]
            nd["init"] = [p + off for p in nd["init"]]
            nd["task"] = None if nd["task"] is None else nd["task"] + off
            nodes.append(nd)
    return {"nodes": nodes}, roots


def share_across(rng, g, roots):
    """a later component refers to a configuration of an earlier one (same class) instead of its own"""
    nodes = g["nodes"]
    comp_of = lambda i: max(k for k, r in enumerate(roots) if r <= i)
    cands = []
    for i, nd in enumerate(nodes):
        ci = comp_of(i)
        if ci == 0:
            continue
        for _, v in nd["values"]:
            for r in cfggen_refs(v):
                if comp_of(r) != ci or r == roots[ci]:
                    continue
                for j in range(roots[ci]):      # nodes of the earlier components
                    if nodes[j]["cls"] == nodes[r]["cls"] and j not in roots:
                        cands.append((i, r, j))
    if not cands:
        return False
    i, r, j = rng.choice(cands)
    nodes[i]["values"] = [[k, _redirect(v, r, j)] for k, v in nodes[i]["values"]]
    return True


def cfggen_refs(v):
    if isinstance(v, dict):
        if "r" in v:
            return [v["r"]]
        if "l" in v:
            return [r for x in v["l"] for r in cfggen_refs(x)]
        if "d" in v:
            return [r for _, x in v["d"] for r in cfggen_refs(x)]
    return []


def gen_value(rng, g, roots):
    """the structure handed to state_dict / save"""
    n = len(g["nodes"])
    leaves = [{"r": r} for r in roots]
    rng.shuffle(leaves)
    if rng.random() < 0.3 and n > len(roots):     # an inner node listed next to the roots
        leaves.insert(rng.randrange(len(leaves) + 1), {"r": rng.choice([i for i in range(n) if i not in roots])})
    if rng.random() < 0.2:                         # the same configuration twice
        leaves.insert(rng.randrange(len(leaves) + 1), dict(rng.choice(leaves)))
    if len(leaves) == 1 and rng.random() < 0.5:
        return leaves[0], "single"
    r = rng.random()
    if r < 0.4:
        return {"l": leaves}, "list"
    keys = rng.sample(cfggen.KEYS, len(leaves))
    if r < 0.75:
        return {"d": [[k, v] for k, v in zip(keys, leaves)]}, "dict"
    if r < 0.88 or len(leaves) < 2:                # a dictionary of lists
        cut = rng.randrange(1, len(leaves)) if len(leaves) > 1 else 1
        return {"d": [[keys[0], {"l": leaves[:cut]}]] + ([[keys[1], {"l": leaves[cut:]}]] if leaves[cut:] else [])}, "nested"
    return {"l": [leaves[0], {"d": [[k, v] for k, v in zip(keys[1:], leaves[1:])]}]}, "nested"


def make_cases(ctx, rng, nlibs, per, tag):
    """(libs, cases) — libraries without DataPath arguments (copying data files is C12's business)"""
    libs, cases = [], []
    for li in range(nlibs):
        lib = seriallib.gen_lib(rng, f"{tag}_{ctx.seed}_{li}", data=False)
        libs.append(lib)
        for _ in range(per):
            k = rng.choice([1, 2, 2, 2, 3])
            graphs = [seriallib.gen_graph(rng, lib, max_nodes=rng.choice([1, 2, 3, 5, 7]), task_links=rng.random() < 0.6) for _ in range(k)]
            g, roots = merge(graphs)
            shared = k > 1 and rng.random() < 0.6 and share_across(rng, g, roots)
            value, shape = gen_value(rng, g, roots)
            cases.append({"lib": li, "kind": "c13m", "graph": g, "roots": roots, "value": value, "shape": shape,
                          "route": rng.choice(["state", "save"]), "cross_shared": bool(shared), "seal": rng.random() < 0.5})
    return libs, cases
