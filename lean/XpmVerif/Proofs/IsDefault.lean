import XpmVerif.Model.IdentImpl
/-! Lemmas about `isDefault` (`HashComputer._is_default`) and the configurations it computes (`defRefs`):
    * `refsAll v` — every configuration that is an item of `v` (nothing filtered) — and `mem_refsVals`;
    * `isDefault_removeMeta` — filtering the top level first changes nothing;
    * `isDefault_congr_ceq`, `isDefault_congr_mt` — what the decision reads;
    * `defRefs_sub` — `defRefs` only contains configurations of the default or kept ones of the value;
    * `defRefs_complete` — when the value *is* the default every kept configuration of the value was computed. -/
namespace XpmVerif.Ident
open List

/-- no meta flag: nothing is filtered. -/
abbrev noMeta : Nat → Option Bool := fun _ => none
/-- every configuration that is an item of a value, at any depth (nothing filtered). -/
def refsAll (v : Val) : List Nat := refsVal noMeta v
def refsAllL (l : List Val) : List Nat := refsVals noMeta l

theorem dropped_noMeta (v : Val) : dropped noMeta v = false := by
  cases v <;> simp [dropped, noMeta]

theorem refsPairs_eq (mt : Nat → Option Bool) : ∀ (ks : List (List Nat)) (vs : List Val),
    refsPairs mt ks vs = refsVals mt ((ks.zip vs).map (·.2))
  | [], _ => by simp [refsPairs, refsVals]
  | _ :: _, [] => by simp [refsPairs, refsVals]
  | k :: ks, v :: vs => by
    simp only [refsPairs, zip_cons_cons, map_cons, refsVals, refsPairs_eq mt ks vs]

theorem refsAllL_cons (v : Val) (vs : List Val) : refsAllL (v :: vs) = refsAll v ++ refsAllL vs := by
  simp [refsAllL, refsAll, refsVals, dropped_noMeta]

theorem mem_refsAllL {m : Nat} : ∀ {l : List Val}, m ∈ refsAllL l ↔ ∃ x ∈ l, m ∈ refsAll x
  | [] => by simp [refsAllL, refsVals]
  | v :: vs => by simp [refsAllL_cons, mem_refsAllL (l := vs)]

theorem refsAll_list (l : List Val) : refsAll (.list l) = refsAllL l := by simp [refsAll, refsAllL, refsVal]
theorem refsAll_dict (ks : List (List Nat)) (vs : List Val) :
    refsAll (.dict ks vs) = refsAllL ((ks.zip vs).map (·.2)) := by
  simp [refsAll, refsAllL, refsVal, refsPairs_eq]
theorem refsAll_ref (n : Nat) : refsAll (.ref n) = [n] := by simp [refsAll, refsVal]

/-- the kept configurations of a list of values. -/
theorem mem_refsVals {mt : Nat → Option Bool} {m : Nat} :
    ∀ {l : List Val}, m ∈ refsVals mt l ↔ ∃ x ∈ l, dropped mt x = false ∧ m ∈ refsVal mt x
  | [] => by simp [refsVals]
  | v :: vs => by
    have ih := mem_refsVals (mt := mt) (m := m) (l := vs)
    simp only [refsVals]
    by_cases hd : dropped mt v = true
    · simp [hd, ih]
    · simp [hd, ih]

theorem refsVals_filter (mt : Nat → Option Bool) : ∀ l : List Val,
    refsVals mt (l.filter (fun x => !dropped mt x)) = refsVals mt l
  | [] => rfl
  | v :: vs => by
    by_cases hd : dropped mt v = true
    · simp [hd, refsVals, refsVals_filter mt vs]
    · simp [hd, refsVals, refsVals_filter mt vs]

theorem map_snd_filter_zip (mt : Nat → Option Bool) (kb : List (List Nat)) (vb : List Val) :
    ((kb.zip vb).filter (fun kv => !dropped mt kv.2)).map (·.2)
      = ((kb.zip vb).map (·.2)).filter (fun x => !dropped mt x) := by
  induction kb.zip vb with
  | nil => rfl
  | cons x xs ih =>
    simp only [filter_cons, map_cons]
    split <;> simp_all

mutual
theorem refsVal_sub_refsAll (mt : Nat → Option Bool) (m : Nat) : ∀ v : Val, m ∈ refsVal mt v → m ∈ refsAll v
  | .list l, h => by
    rw [refsAll_list]; simp only [refsVal] at h; exact refsVals_sub_refsAllL mt m l h
  | .dict ks vs, h => by
    simp only [refsVal] at h
    simp only [refsAll, refsVal]
    exact refsPairs_sub_refsAllL mt m ks vs h
  | .ref n, h => by simpa [refsAll, refsVal] using h
  | .none, h => by simp [refsVal] at h
  | .bool _, h => by simp [refsVal] at h
  | .int _, h => by simp [refsVal] at h
  | .float _, h => by simp [refsVal] at h
  | .str _, h => by simp [refsVal] at h
  | .enum _, h => by simp [refsVal] at h
  | .path _, h => by simp [refsVal] at h
theorem refsVals_sub_refsAllL (mt : Nat → Option Bool) (m : Nat) : ∀ l : List Val, m ∈ refsVals mt l → m ∈ refsAllL l
  | [], h => by simp [refsVals] at h
  | v :: vs, h => by
    rw [refsAllL_cons, mem_append]
    simp only [refsVals] at h
    split at h
    · exact .inr (refsVals_sub_refsAllL mt m vs h)
    · rcases mem_append.1 h with h | h
      · exact .inl (refsVal_sub_refsAll mt m v h)
      · exact .inr (refsVals_sub_refsAllL mt m vs h)
theorem refsPairs_sub_refsAllL (mt : Nat → Option Bool) (m : Nat) :
    ∀ (ks : List (List Nat)) (vs : List Val), m ∈ refsPairs mt ks vs → m ∈ refsPairs noMeta ks vs
  | [], _, h => by simp [refsPairs] at h
  | _ :: _, [], h => by simp [refsPairs] at h
  | k :: ks, v :: vs, h => by
    simp only [refsPairs, dropped_noMeta, Bool.false_eq_true, if_false, mem_append] at h ⊢
    split at h
    · exact .inr (refsPairs_sub_refsAllL mt m ks vs h)
    · rcases mem_append.1 h with h | h
      · exact .inl (refsVal_sub_refsAll mt m v h)
      · exact .inr (refsPairs_sub_refsAllL mt m ks vs h)
end

theorem dropped_congr_refsAll {mt mt' : Nat → Option Bool} {v : Val} (h : ∀ m ∈ refsAll v, mt m = mt' m) :
    dropped mt v = dropped mt' v := by
  cases v <;> simp only [dropped]
  rename_i n
  rw [h n (by simp [refsAll_ref])]

/-! ### `remove_meta` then `_is_default` -/

theorem zip_map_fst_snd' {α β : Type} : ∀ l : List (α × β), (l.map (·.1)).zip (l.map (·.2)) = l
  | [] => rfl
  | x :: xs => by simp [zip_map_fst_snd' xs]

/-- the kept items of a dict, as two lists, filtered again. -/
theorem kept_twice (mt : Nat → Option Bool) (kb : List (List Nat)) (vb : List Val) :
    ((((kb.zip vb).filter (fun kv => !dropped mt kv.2)).map (·.1)).zip
      (((kb.zip vb).filter (fun kv => !dropped mt kv.2)).map (·.2))).filter (fun kv => !dropped mt kv.2)
      = (kb.zip vb).filter (fun kv => !dropped mt kv.2) := by
  rw [zip_map_fst_snd', filter_filter]
  simp

theorem isDefault_removeMeta (ceq : Nat → Nat → Bool) (mt : Nat → Option Bool) (d v : Val) :
    isDefault ceq mt d (removeMeta mt v) = isDefault ceq mt d v := by
  cases v with
  | list b =>
    cases d <;> simp [removeMeta, isDefault, pyEq, filter_filter]
  | dict kb vb =>
    cases d <;> simp only [removeMeta, isDefault, pyEq]
    rw [kept_twice]
  | _ => rfl

theorem refsVal_removeMeta (mt : Nat → Option Bool) (v : Val) : refsVal mt (removeMeta mt v) = refsVal mt v := by
  cases v with
  | list b => simp only [removeMeta, refsVal, refsVals_filter]
  | dict kb vb =>
    simp only [removeMeta, refsVal, refsPairs_eq]
    rw [zip_map_fst_snd', map_snd_filter_zip, refsVals_filter]
  | _ => rfl

/-! ### what the decision reads -/

theorem pyEq_no_refs {mt : Nat → Option Bool} {d w : Val} (hl : ∀ l, d ≠ .list l) (hd : ∀ ks vs, d ≠ .dict ks vs)
    (h : pyEq d w = true) : refsVal mt w = [] := by
  cases d <;> cases w <;> simp_all [pyEq, refsVal]

theorem lookupKV_mem {k : List Nat} {w : Val} : ∀ {ks : List (List Nat)} {vs : List Val},
    lookupKV k ks vs = some w → w ∈ vs
  | [], _, h => by simp [lookupKV] at h
  | _ :: _, [], h => by simp [lookupKV] at h
  | k' :: ks, v :: vs, h => by
    simp only [lookupKV] at h
    split at h
    · cases h; exact mem_cons_self
    · exact mem_cons_of_mem _ (lookupKV_mem h)

mutual
/-- the decision only calls `ceq` on (a configuration of the default, a kept configuration of the value). -/
theorem isDefault_congr_ceq (ceq ceq' : Nat → Nat → Bool) (mt : Nat → Option Bool) :
    ∀ (d w : Val), (∀ x ∈ refsAll d, ∀ y ∈ refsVal mt w, ceq x y = ceq' x y) →
      isDefault ceq mt d w = isDefault ceq' mt d w
  | .ref d, w, h => by
    cases w <;> simp only [isDefault]
    rename_i v
    exact h d (by simp [refsAll_ref]) v (by simp [refsVal])
  | .list a, w, h => by
    cases w <;> simp only [isDefault]
    rename_i b
    apply isDefaultL_congr_ceq ceq ceq' mt a
    intro x hx y w hw hy
    rw [refsAll_list] at h
    refine h x hx y ?_
    simp only [refsVal]
    have hw' := mem_filter.1 hw
    exact mem_refsVals.2 ⟨w, hw'.1, by simpa using hw'.2, hy⟩
  | .dict ka va, w, h => by
    cases w <;> simp only [isDefault]
    rename_i kb vb
    congr 1
    apply isDefaultKV_congr_ceq ceq ceq' mt ka va
    intro x hx y w hw hy
    refine h x ?_ y ?_
    · simp only [refsAll, refsVal]; exact hx
    · simp only [refsVal, refsPairs_eq]
      rw [map_snd_filter_zip] at hw
      have hw' := mem_filter.1 hw
      exact mem_refsVals.2 ⟨w, hw'.1, by simpa using hw'.2, hy⟩
  | .none, _, _ => by simp only [isDefault]
  | .bool _, _, _ => by simp only [isDefault]
  | .int _, _, _ => by simp only [isDefault]
  | .float _, _, _ => by simp only [isDefault]
  | .str _, _, _ => by simp only [isDefault]
  | .enum _, _, _ => by simp only [isDefault]
  | .path _, _, _ => by simp only [isDefault]
theorem isDefaultL_congr_ceq (ceq ceq' : Nat → Nat → Bool) (mt : Nat → Option Bool) :
    ∀ (a b : List Val), (∀ x ∈ refsAllL a, ∀ y, ∀ w ∈ b, y ∈ refsVal mt w → ceq x y = ceq' x y) →
      isDefaultL ceq mt a b = isDefaultL ceq' mt a b
  | [], b, _ => by cases b <;> simp only [isDefaultL]
  | a :: as, [], _ => by simp only [isDefaultL]
  | a :: as, b :: bs, h => by
    simp only [isDefaultL]
    rw [isDefault_congr_ceq ceq ceq' mt a b (fun x hx y hy =>
          h x (by rw [refsAllL_cons]; exact mem_append_left _ hx) y b mem_cons_self hy),
      isDefaultL_congr_ceq ceq ceq' mt as bs (fun x hx y w hw hy =>
          h x (by rw [refsAllL_cons]; exact mem_append_right _ hx) y w (mem_cons_of_mem _ hw) hy)]
theorem isDefaultKV_congr_ceq (ceq ceq' : Nat → Nat → Bool) (mt : Nat → Option Bool) :
    ∀ (ka : List (List Nat)) (va : List Val) (kb : List (List Nat)) (vb : List Val),
      (∀ x ∈ refsPairs noMeta ka va, ∀ y, ∀ w ∈ vb, y ∈ refsVal mt w → ceq x y = ceq' x y) →
      isDefaultKV ceq mt ka va kb vb = isDefaultKV ceq' mt ka va kb vb
  | [], [], _, _, _ => by simp only [isDefaultKV]
  | [], _ :: _, _, _, _ => by simp only [isDefaultKV]
  | _ :: _, [], _, _, _ => by simp only [isDefaultKV]
  | k :: ks, v :: vs, kb, vb, h => by
    simp only [isDefaultKV]
    have h1 : ∀ x ∈ refsAll v, ∀ y, ∀ w ∈ vb, y ∈ refsVal mt w → ceq x y = ceq' x y := fun x hx =>
      h x (by simp only [refsPairs, dropped_noMeta, Bool.false_eq_true, if_false]; exact mem_append_left _ hx)
    have h2 : ∀ x ∈ refsPairs noMeta ks vs, ∀ y, ∀ w ∈ vb, y ∈ refsVal mt w → ceq x y = ceq' x y := fun x hx =>
      h x (by simp only [refsPairs, dropped_noMeta, Bool.false_eq_true, if_false]; exact mem_append_right _ hx)
    rw [isDefaultKV_congr_ceq ceq ceq' mt ks vs kb vb h2]
    congr 1
    cases hl : lookupKV k kb vb with
    | none => rfl
    | some w =>
      simp only
      exact isDefault_congr_ceq ceq ceq' mt v w (fun x hx y hy => h1 x hx y w (lookupKV_mem hl) hy)
end

mutual
/-- the decision only reads the meta flag of the configurations of the value. -/
theorem isDefault_congr_mt (ceq : Nat → Nat → Bool) (mt mt' : Nat → Option Bool) :
    ∀ (d w : Val), (∀ m ∈ refsAll w, mt m = mt' m) → isDefault ceq mt d w = isDefault ceq mt' d w
  | .ref d, w, _ => by cases w <;> simp only [isDefault]
  | .list a, w, h => by
    cases w <;> simp only [isDefault]
    rename_i b
    rw [refsAll_list] at h
    have hf : b.filter (fun x => !dropped mt x) = b.filter (fun x => !dropped mt' x) := by
      apply filter_congr
      intro x hx
      rw [dropped_congr_refsAll (fun m hm => h m (mem_refsAllL.2 ⟨x, hx, hm⟩))]
    rw [hf]
    exact isDefaultL_congr_mt ceq mt mt' a _ (fun x hx m hm => h m (mem_refsAllL.2 ⟨x, (mem_filter.1 hx).1, hm⟩))
  | .dict ka va, w, h => by
    cases w <;> simp only [isDefault]
    rename_i kb vb
    rw [refsAll_dict] at h
    have hf : (kb.zip vb).filter (fun kv => !dropped mt kv.2) = (kb.zip vb).filter (fun kv => !dropped mt' kv.2) := by
      apply filter_congr
      intro x hx
      rw [dropped_congr_refsAll (fun m hm => h m (mem_refsAllL.2 ⟨x.2, mem_map.2 ⟨x, hx, rfl⟩, hm⟩))]
    rw [hf]
    congr 1
    apply isDefaultKV_congr_mt ceq mt mt' ka va
    intro x hx m hm
    obtain ⟨kv, hkv, rfl⟩ := mem_map.1 hx
    exact h m (mem_refsAllL.2 ⟨kv.2, mem_map.2 ⟨kv, (mem_filter.1 hkv).1, rfl⟩, hm⟩)
  | .none, _, _ => by simp only [isDefault]
  | .bool _, _, _ => by simp only [isDefault]
  | .int _, _, _ => by simp only [isDefault]
  | .float _, _, _ => by simp only [isDefault]
  | .str _, _, _ => by simp only [isDefault]
  | .enum _, _, _ => by simp only [isDefault]
  | .path _, _, _ => by simp only [isDefault]
theorem isDefaultL_congr_mt (ceq : Nat → Nat → Bool) (mt mt' : Nat → Option Bool) :
    ∀ (a b : List Val), (∀ x ∈ b, ∀ m ∈ refsAll x, mt m = mt' m) → isDefaultL ceq mt a b = isDefaultL ceq mt' a b
  | [], b, _ => by cases b <;> simp only [isDefaultL]
  | a :: as, [], _ => by simp only [isDefaultL]
  | a :: as, b :: bs, h => by
    simp only [isDefaultL]
    rw [isDefault_congr_mt ceq mt mt' a b (h b mem_cons_self),
      isDefaultL_congr_mt ceq mt mt' as bs (fun x hx => h x (mem_cons_of_mem _ hx))]
theorem isDefaultKV_congr_mt (ceq : Nat → Nat → Bool) (mt mt' : Nat → Option Bool) :
    ∀ (ka : List (List Nat)) (va : List Val) (kb : List (List Nat)) (vb : List Val),
      (∀ x ∈ vb, ∀ m ∈ refsAll x, mt m = mt' m) → isDefaultKV ceq mt ka va kb vb = isDefaultKV ceq mt' ka va kb vb
  | [], [], _, _, _ => by simp only [isDefaultKV]
  | [], _ :: _, _, _, _ => by simp only [isDefaultKV]
  | _ :: _, [], _, _, _ => by simp only [isDefaultKV]
  | k :: ks, v :: vs, kb, vb, h => by
    simp only [isDefaultKV]
    rw [isDefaultKV_congr_mt ceq mt mt' ks vs kb vb h]
    congr 1
    cases hl : lookupKV k kb vb with
    | none => rfl
    | some w =>
      simp only
      exact isDefault_congr_mt ceq mt mt' v w (h w (lookupKV_mem hl))
end

/-- a default without configuration object never calls the callback. -/
theorem isDefault_noRef (ceq ceq' : Nat → Nat → Bool) (mt : Nat → Option Bool) (d w : Val) (h : refsAll d = []) :
    isDefault ceq mt d w = isDefault ceq' mt d w :=
  isDefault_congr_ceq ceq ceq' mt d w (fun x hx => by rw [h] at hx; cases hx)

/-- for a default that is neither a configuration, a list nor a dict, `_is_default` is Python `==`. -/
theorem isDefault_scalar (ceq : Nat → Nat → Bool) (mt : Nat → Option Bool) (d w : Val)
    (hr : ∀ n, d ≠ .ref n) (hl : ∀ l, d ≠ .list l) (hd : ∀ ks vs, d ≠ .dict ks vs) :
    isDefault ceq mt d w = pyEq d w := by
  cases d <;> simp_all [isDefault]

/-! ### the configurations computed by `_is_default` -/

theorem isDefaultL_length {ceq mt} : ∀ {a b : List Val}, isDefaultL ceq mt a b = true → a.length = b.length
  | [], [], _ => rfl
  | [], _ :: _, h => by simp [isDefaultL] at h
  | _ :: _, [], h => by simp [isDefaultL] at h
  | _ :: as, _ :: bs, h => by
    simp only [isDefaultL, Bool.and_eq_true] at h
    simp [isDefaultL_length h.2]

mutual
/-- `_is_default` only computes configurations of the default and kept configurations of the value. -/
theorem defRefs_sub (onst : Nat → Bool) (ceq : Nat → Nat → Bool) (mt : Nat → Option Bool) (m : Nat) :
    ∀ (d w : Val), m ∈ defRefs onst ceq mt d w → m ∈ refsAll d ∨ m ∈ refsVal mt w
  | .ref d, w, h => by
    cases w <;> simp only [defRefs, not_mem_nil] at h
    rename_i v
    split at h
    · simp at h
    · simp only [mem_cons, not_mem_nil, or_false] at h
      rcases h with rfl | rfl
      · exact .inl (by simp [refsAll_ref])
      · exact .inr (by simp [refsVal])
  | .list a, w, h => by
    cases w <;> simp only [defRefs, not_mem_nil] at h
    rename_i b
    split at h
    · rcases defRefsL_sub onst ceq mt m a _ h with h | ⟨x, hx, hm⟩
      · exact .inl (by rw [refsAll_list]; exact h)
      · have hx' := mem_filter.1 hx
        exact .inr (by simp only [refsVal]; exact mem_refsVals.2 ⟨x, hx'.1, by simpa using hx'.2, hm⟩)
    · simp at h
  | .dict ka va, w, h => by
    cases w <;> simp only [defRefs, not_mem_nil] at h
    rename_i kb vb
    split at h
    · rcases defRefsKV_sub onst ceq mt m ka va _ _ h with h | ⟨x, hx, hm⟩
      · exact .inl (by simp only [refsAll, refsVal]; exact h)
      · rw [map_snd_filter_zip] at hx
        have hx' := mem_filter.1 hx
        exact .inr (by simp only [refsVal, refsPairs_eq]; exact mem_refsVals.2 ⟨x, hx'.1, by simpa using hx'.2, hm⟩)
    · simp at h
  | .none, _, h => by simp [defRefs] at h
  | .bool _, _, h => by simp [defRefs] at h
  | .int _, _, h => by simp [defRefs] at h
  | .float _, _, h => by simp [defRefs] at h
  | .str _, _, h => by simp [defRefs] at h
  | .enum _, _, h => by simp [defRefs] at h
  | .path _, _, h => by simp [defRefs] at h
theorem defRefsL_sub (onst : Nat → Bool) (ceq : Nat → Nat → Bool) (mt : Nat → Option Bool) (m : Nat) :
    ∀ (a b : List Val), m ∈ defRefsL onst ceq mt a b → m ∈ refsAllL a ∨ ∃ x ∈ b, m ∈ refsVal mt x
  | [], _, h => by simp [defRefsL] at h
  | _ :: _, [], h => by simp [defRefsL] at h
  | a :: as, b :: bs, h => by
    simp only [defRefsL, mem_append] at h
    rw [refsAllL_cons, mem_append]
    rcases h with h | h
    · rcases defRefs_sub onst ceq mt m a b h with h | h
      · exact .inl (.inl h)
      · exact .inr ⟨b, mem_cons_self, h⟩
    · split at h
      · rcases defRefsL_sub onst ceq mt m as bs h with h | ⟨x, hx, hm⟩
        · exact .inl (.inr h)
        · exact .inr ⟨x, mem_cons_of_mem _ hx, hm⟩
      · simp at h
theorem defRefsKV_sub (onst : Nat → Bool) (ceq : Nat → Nat → Bool) (mt : Nat → Option Bool) (m : Nat) :
    ∀ (ka : List (List Nat)) (va : List Val) (kb : List (List Nat)) (vb : List Val),
      m ∈ defRefsKV onst ceq mt ka va kb vb → m ∈ refsPairs noMeta ka va ∨ ∃ x ∈ vb, m ∈ refsVal mt x
  | [], _, _, _, h => by simp [defRefsKV] at h
  | _ :: _, [], _, _, h => by simp [defRefsKV] at h
  | k :: ks, v :: vs, kb, vb, h => by
    simp only [defRefsKV] at h
    simp only [refsPairs, dropped_noMeta, Bool.false_eq_true, if_false, mem_append]
    cases hl : lookupKV k kb vb with
    | none => simp [hl] at h
    | some w =>
      simp only [hl, mem_append] at h
      rcases h with h | h
      · rcases defRefs_sub onst ceq mt m v w h with h | h
        · exact .inl (.inl h)
        · exact .inr ⟨w, lookupKV_mem hl, h⟩
      · split at h
        · rcases defRefsKV_sub onst ceq mt m ks vs kb vb h with h | h
          · exact .inl (.inr h)
          · exact .inr h
        · simp at h
end

theorem lookupKV_of_mem_zip' {k : List Nat} {v : Val} : ∀ {ks : List (List Nat)} {vs : List Val}, ks.Nodup →
    (k, v) ∈ ks.zip vs → lookupKV k ks vs = some v
  | [], _, _, h => by simp at h
  | _ :: _, [], _, h => by simp at h
  | k' :: ks, w :: vs, hn, h => by
    obtain ⟨hk, hn'⟩ := nodup_cons.1 hn
    simp only [zip_cons_cons, mem_cons, Prod.mk.injEq] at h
    simp only [lookupKV]
    rcases h with ⟨rfl, rfl⟩ | h
    · simp
    · have : k ≠ k' := fun e => hk (e ▸ (of_mem_zip h).1)
      simp only [this, if_false]
      exact lookupKV_of_mem_zip' hn' h

mutual
/-- **when the value is the default, every kept configuration of the value has been computed** (`hco`: a
    configuration that is being hashed never has the identifier of the default). -/
theorem defRefs_complete (onst : Nat → Bool) (ceq : Nat → Nat → Bool) (mt : Nat → Option Bool)
    (hco : ∀ d v, ceq d v = true → onst v = false) (m : Nat) :
    ∀ (d w : Val), isDefault ceq mt d w = true → m ∈ refsVal mt w → m ∈ defRefs onst ceq mt d w
  | .ref d, w, h, hm => by
    cases w <;> simp only [isDefault, Bool.false_eq_true] at h
    rename_i v
    simp only [refsVal, mem_cons, not_mem_nil, or_false] at hm
    subst hm
    simp [defRefs, hco d m h]
  | .list a, w, h, hm => by
    cases w <;> simp only [isDefault, Bool.false_eq_true] at h
    rename_i b
    simp only [defRefs, isDefaultL_length h, if_true]
    simp only [refsVal] at hm
    rw [← refsVals_filter] at hm
    obtain ⟨x, hx, _, hmx⟩ := mem_refsVals.1 hm
    exact defRefsL_complete onst ceq mt hco m a _ h x hx hmx
  | .dict ka va, w, h, hm => by
    cases w <;> simp only [isDefault, Bool.false_eq_true] at h
    rename_i kb vb
    simp only [Bool.and_eq_true] at h
    simp only [defRefs, h.1, if_true]
    simp only [refsVal, refsPairs_eq] at hm
    rw [← refsVals_filter, ← map_snd_filter_zip] at hm
    obtain ⟨x, hx, _, hmx⟩ := mem_refsVals.1 hm
    obtain ⟨kv, hkv, rfl⟩ := mem_map.1 hx
    -- the key of the item is a key of the default, and the look-up finds the item
    have hsk := h.1
    simp only [sameKeys, Bool.and_eq_true, decide_eq_true_eq, all_eq_true, contains_iff_mem] at hsk
    have hk1 : kv.1 ∈ ((kb.zip vb).filter (fun kv => !dropped mt kv.2)).map (·.1) := mem_map.2 ⟨kv, hkv, rfl⟩
    have hka : kv.1 ∈ ka := by simpa using hsk.1.2 kv.1 hk1
    have hlk : lookupKV kv.1 (((kb.zip vb).filter (fun kv => !dropped mt kv.2)).map (·.1))
        (((kb.zip vb).filter (fun kv => !dropped mt kv.2)).map (·.2)) = some kv.2 :=
      lookupKV_of_mem_zip' hsk.2 (by rw [zip_map_fst_snd']; exact hkv)
    exact defRefsKV_complete onst ceq mt hco m ka va _ _ h.2 kv.1 kv.2 hka hlk hmx
  | .none, w, h, hm => by
    simp only [isDefault] at h
    rw [pyEq_no_refs (by simp) (by simp) h] at hm; simp at hm
  | .bool _, w, h, hm => by
    simp only [isDefault] at h
    rw [pyEq_no_refs (by simp) (by simp) h] at hm; simp at hm
  | .int _, w, h, hm => by
    simp only [isDefault] at h
    rw [pyEq_no_refs (by simp) (by simp) h] at hm; simp at hm
  | .float _, w, h, hm => by
    simp only [isDefault] at h
    rw [pyEq_no_refs (by simp) (by simp) h] at hm; simp at hm
  | .str _, w, h, hm => by
    simp only [isDefault] at h
    rw [pyEq_no_refs (by simp) (by simp) h] at hm; simp at hm
  | .enum _, w, h, hm => by
    simp only [isDefault] at h
    rw [pyEq_no_refs (by simp) (by simp) h] at hm; simp at hm
  | .path _, w, h, hm => by
    simp only [isDefault] at h
    rw [pyEq_no_refs (by simp) (by simp) h] at hm; simp at hm
theorem defRefsL_complete (onst : Nat → Bool) (ceq : Nat → Nat → Bool) (mt : Nat → Option Bool)
    (hco : ∀ d v, ceq d v = true → onst v = false) (m : Nat) :
    ∀ (a b : List Val), isDefaultL ceq mt a b = true → ∀ x ∈ b, m ∈ refsVal mt x → m ∈ defRefsL onst ceq mt a b
  | [], [], _, x, hx, _ => by simp at hx
  | [], _ :: _, h, _, _, _ => by simp [isDefaultL] at h
  | _ :: _, [], h, _, _, _ => by simp [isDefaultL] at h
  | a :: as, b :: bs, h, x, hx, hm => by
    simp only [isDefaultL, Bool.and_eq_true] at h
    simp only [defRefsL, h.1, if_true, mem_append]
    rcases mem_cons.1 hx with rfl | hx
    · exact .inl (defRefs_complete onst ceq mt hco m a x h.1 hm)
    · exact .inr (defRefsL_complete onst ceq mt hco m as bs h.2 x hx hm)
theorem defRefsKV_complete (onst : Nat → Bool) (ceq : Nat → Nat → Bool) (mt : Nat → Option Bool)
    (hco : ∀ d v, ceq d v = true → onst v = false) (m : Nat) :
    ∀ (ka : List (List Nat)) (va : List Val) (kb : List (List Nat)) (vb : List Val),
      isDefaultKV ceq mt ka va kb vb = true → ∀ k w, k ∈ ka → lookupKV k kb vb = some w → m ∈ refsVal mt w →
      m ∈ defRefsKV onst ceq mt ka va kb vb
  | [], [], _, _, _, _, _, hk, _, _ => by simp at hk
  | [], _ :: _, _, _, h, _, _, _, _, _ => by simp [isDefaultKV] at h
  | _ :: _, [], _, _, h, _, _, _, _, _ => by simp [isDefaultKV] at h
  | k :: ks, v :: vs, kb, vb, h, k', w, hk, hl, hm => by
    simp only [isDefaultKV, Bool.and_eq_true] at h
    simp only [defRefsKV]
    cases hl0 : lookupKV k kb vb with
    | none => simp [hl0] at h
    | some w0 =>
      simp only [hl0] at h
      simp only [h.1, if_true, mem_append]
      by_cases e : k' = k
      · subst e
        rw [hl0] at hl; cases hl
        exact .inl (defRefs_complete onst ceq mt hco m v w h.1 hm)
      · have hk' : k' ∈ ks := by
          rcases mem_cons.1 hk with h | h
          · exact absurd h e
          · exact h
        exact .inr (defRefsKV_complete onst ceq mt hco m ks vs kb vb h.2 k' w hk' hl hm)
end

/-! ### the context in which `rawAt` hashes a node -/

/-- how `rawAt` encodes a reference below node `n` on `stack`. -/
def cfgAt {D : Type} (hc : HC D) (g : Graph) (fuel : Nat) (stack : List Nat) : Nat → List Nat :=
  fun m => match relIndex stack m with
    | some k => 11 :: pack8 k
    | none => hc.emb (rawAt hc g fuel stack m)

/-- how `rawAt` compares a value with a default object below node `n` on `stack` (`_is_default`). -/
def ceqAt {D : Type} (hc : HC D) (g : Graph) (fuel : Nat) (stack : List Nat) : Nat → Nat → Bool :=
  ctxEq stack (cfgAt hc g fuel stack)

theorem rawAt_succ {D : Type} (hc : HC D) (g : Graph) (fuel : Nat) (stack : List Nat) (n : Nat) :
    rawAt hc g (fuel + 1) stack n
      = hc.H (nodeStream (cfgAt hc g fuel (n :: stack)) (ceqAt hc g fuel (n :: stack)) g.mt n (g.node n)) := rfl

/-- for two configurations that are not being hashed, the comparison is the equality of the embedded digests. -/
theorem ceqAt_off_stack {D : Type} (hc : HC D) (g : Graph) (fuel : Nat) (stack : List Nat) (d v : Nat)
    (hd : relIndex stack d = none) (hv : relIndex stack v = none) :
    ceqAt hc g fuel stack d v = (hc.emb (rawAt hc g fuel stack d) == hc.emb (rawAt hc g fuel stack v)) := by
  simp [ceqAt, ctxEq, cfgAt, hd, hv]

/-- a configuration that is being hashed is never the default. -/
theorem ceqAt_on_stack {D : Type} (hc : HC D) (g : Graph) (fuel : Nat) (stack : List Nat) (d v k : Nat)
    (hv : relIndex stack v = some k) : ceqAt hc g fuel stack d v = false := by
  simp [ceqAt, ctxEq, hv]

end XpmVerif.Ident
