import XpmVerif.Proofs.SerialState
/-! C13 — runtime objects mirror the configuration graph and are initialised once.

    Model: Model/Serial.lean (M5).  `instanceWalk g constructed root` is the `FromPython` walk of
    `config.instance(context, objects=store)` (`ConfigWalk.__call__` with its `visited` map, stubs
    kept in the `ObjectStore`, `constructed` = configurations the store already holds an initialised
    object for); `instanceLog` the events it causes (`new`/`init` when a stub is created, `set … ;
    postInit` in `postprocess`, then `exec` of every gathered pre-task in `fromConfig`).
    `runLog (serialize … [root])` is what `run.py::run` causes when it rebuilds a task from its
    parameter file (`fromParameters(as_instance=True)`, then the task body).
    `loadStateLog defs data` is what `from_state_dict(state, as_instance=True)` / `load(path, as_instance=True)`
    cause when a saved VALUE (a list / dictionary / nesting of configurations: several roots, possibly sharing
    sub-configurations) is loaded as runtime objects; `stateDict fl lib sg v = (serialize … (cfgRefs v), encJ v)`
    is what `state_dict` / `save` wrote; `fromStateDictInst` is the returned value and the attributes.
    A runtime object is identified with the configuration it stands for: "exactly one object per
    distinct configuration" is "exactly one `new n` event"; an attribute that refers to configuration
    `m` holds *the* object of `m`, which exists (`… ∈ store`). -/
namespace XpmVerif.C13
open XpmVerif.Ident XpmVerif.Serial

/-- **Exactly one object per distinct configuration, wired like the graph** (direct `instance()`).
    For every graph (arbitrary sharing and cycles) and every store content: each configuration gets at
    most one new object; a new object is created exactly for the configurations the walk enters, none
    of which had one; afterwards the root and every configuration referenced by a new object (through
    parameter values at any depth, pre-tasks, init tasks) has its object in the store, so every
    attribute can be — and in the model is — the one object of the referenced configuration
    (shared and cyclic references included); every new object stands for a configuration reachable
    from the root. -/
theorem instances_one_per_node (g : Graph) (cons : List Nat) (root : Nat) (hwf : WFInst g) (hr : root < g.size) :
    let r := instanceWalk g cons root
    (∀ n, (instanceLog g cons root).count (Ev.new n) = (if n ∈ entersOf r.trace then 1 else 0)) ∧
    (∀ n, n ∈ r.store ↔ n ∈ cons ∨ n ∈ entersOf r.trace) ∧
    (∀ n ∈ entersOf r.trace, n ∉ cons) ∧
    root ∈ r.store ∧
    (∀ n ∈ entersOf r.trace, ∀ m ∈ succInst g n, m ∈ r.store) ∧
    (∀ n ∈ entersOf r.trace, Reach (succInst g) root n) := by
  intro r
  obtain ⟨h1, _, h3, _, h5, h6, h7⟩ := instanceWalk_spec g cons root hwf hr
  exact ⟨fun n => (instanceLog_count_new g cons root hwf hr n).1, h1, h3, h5, h6, h7⟩

/-- … and with a fresh store the new objects are *exactly* the configurations reachable from the root. -/
theorem instances_exactly_reachable (g : Graph) (root : Nat) (hwf : WFInst g) (hr : root < g.size) (n : Nat) :
    (Reach (succInst g) root n → (instanceLog g [] root).count (Ev.new n) = 1) ∧
    (¬ Reach (succInst g) root n → (instanceLog g [] root).count (Ev.new n) = 0) := by
  have h := (instanceLog_count_new g [] root hwf hr n).1
  have h2 := instanceWalk_fresh g root hwf hr n
  exact ⟨fun c => by rw [h, if_pos (h2.2 c)], fun c => by rw [h, if_neg (fun hn => c (h2.1 hn))]⟩

/-- **Post-initialisation once, after the parameters are set** (direct `instance()`): for every new
    object the log contains its `__init__`, then — contiguously — the assignment of every present
    parameter followed by `__post_init__`; `__post_init__` occurs nowhere else and nothing is
    assigned to the object before or after; objects that are not new see no assignment and no
    `__post_init__` at all. -/
theorem post_init_once_after_set (g : Graph) (cons : List Nat) (root : Nat) (hwf : WFInst g) (hr : root < g.size) (n : Nat) :
    (n ∈ entersOf (instanceWalk g cons root).trace →
      ∃ l1 l2, instanceLog g cons root = l1 ++ ((presentNames (g.node n)).map (Ev.set n) ++ [Ev.postInit n]) ++ l2 ∧
        Ev.postInit n ∉ l1 ∧ Ev.postInit n ∉ l2 ∧ (∀ a, Ev.set n a ∉ l1) ∧ (∀ a, Ev.set n a ∉ l2) ∧ Ev.init n ∈ l1) ∧
    (n ∉ entersOf (instanceWalk g cons root).trace →
      Ev.postInit n ∉ instanceLog g cons root ∧ ∀ a, Ev.set n a ∉ instanceLog g cons root) :=
  ⟨instanceLog_postInit g cons root hwf hr n, instanceLog_postInit_none g cons root n⟩

/-- **Every pre-task runs exactly once** (direct `instance()`): a lightweight task is executed once if
    it is a pre-task of some newly built configuration (however many list it), never otherwise; all
    executions happen after the whole graph was built and post-initialised; no task body runs. -/
theorem pretasks_once (g : Graph) (cons : List Nat) (root : Nat) :
    (∀ p, (instanceLog g cons root).count (Ev.exec p) =
      (if ∃ n ∈ exitsOf (instanceWalk g cons root).trace, p ∈ (g.node n).preTasks then 1 else 0)) ∧
    (∃ walk, instanceLog g cons root = walk ++ (instanceWalk g cons root).preTasks.map Ev.exec ∧
      (∀ p, Ev.exec p ∉ walk) ∧ (∀ n, Ev.body n ∉ instanceLog g cons root)) :=
  ⟨instanceLog_exec g cons root, instanceLog_exec_last g cons root⟩

/-- **Loaded from a parameter file: one object per configuration, post-initialised once after its
    fields** — for every configuration `n` written to the file (`serialOrder`, i.e. reachable from the
    task through values, task links, pre-tasks, init tasks: see C12) exactly one object is created,
    `__init__`-ed once and `__post_init__`-ed once, its `__init__`, the assignment of each present
    parameter and `__post_init__` being contiguous in this order; nothing for other ids. -/
theorem loaded_objects_once (fl : Flags) (lib : List Cls) (sg : SGraph) (root : Nat)
    (hwf : ∀ n, n < sg.g.size → ∀ m ∈ succAll sg.g n, m < sg.g.size) (hr : root < sg.g.size) (n : Nat) :
    let order := serialOrder sg.g [root]
    let log := runLog (serialize fl lib sg [root])
    log.count (Ev.new n) = (if n ∈ order then 1 else 0) ∧
    log.count (Ev.init n) = (if n ∈ order then 1 else 0) ∧
    log.count (Ev.postInit n) = (if n ∈ order then 1 else 0) ∧
    (n ∈ order → ∃ l1 l2, log = l1 ++ (Ev.init n :: ((presentNames (sg.g.node n)).map (Ev.set n) ++ [Ev.postInit n])) ++ l2 ∧
        (∀ a, Ev.set n a ∉ l1) ∧ (∀ a, Ev.set n a ∉ l2)) :=
  runLog_objects fl lib sg root hwf hr n

/-- **Loaded from a parameter file: pre-tasks once, then the init tasks once, then the body.**
    The log is: construction of all objects (no execution), then the pre-tasks of all loaded
    configurations — each exactly once whatever the number of configurations listing it —, then the init
    tasks of the task in the order given, then the body of the task, last. -/
theorem init_after_pre_before_body (fl : Flags) (lib : List Cls) (sg : SGraph) (root : Nat)
    (hwf : ∀ n, n < sg.g.size → ∀ m ∈ succAll sg.g n, m < sg.g.size) (hr : root < sg.g.size) :
    let order := serialOrder sg.g [root]
    let defs := serialize fl lib sg [root]
    ∃ build,
      runLog defs = build ++ (preList defs).map Ev.exec ++ ((sg.g.node root).initTasks).map Ev.exec ++ [Ev.body root] ∧
      (∀ p, Ev.exec p ∉ build) ∧ (∀ n, Ev.body n ∉ build) ∧
      (preList defs).Nodup ∧
      (∀ p, p ∈ preList defs ↔ ∃ n ∈ order, p ∈ (sg.g.node n).preTasks) := by
  intro order defs
  obtain ⟨b, h1, _, h3, h4, h5, h6⟩ := runLog_shape fl lib sg root hwf hr
  exact ⟨b, h1, h3, h4, h5, h6⟩

/-- … hence **every init task runs exactly once**, provided the init tasks of the task are listed once
    each and none of them is also a pre-task of a loaded configuration; and every pre-task exactly once
    (if it is not also an init task). -/
theorem init_tasks_once (fl : Flags) (lib : List Cls) (sg : SGraph) (root : Nat)
    (hwf : ∀ n, n < sg.g.size → ∀ m ∈ succAll sg.g n, m < sg.g.size) (hr : root < sg.g.size)
    (hnd : ((sg.g.node root).initTasks).Nodup)
    (hdis : ∀ i ∈ (sg.g.node root).initTasks, ¬ ∃ n ∈ serialOrder sg.g [root], i ∈ (sg.g.node n).preTasks) :
    (∀ i ∈ (sg.g.node root).initTasks, (runLog (serialize fl lib sg [root])).count (Ev.exec i) = 1) ∧
    (∀ p, (∃ n ∈ serialOrder sg.g [root], p ∈ (sg.g.node n).preTasks) → p ∉ (sg.g.node root).initTasks →
        (runLog (serialize fl lib sg [root])).count (Ev.exec p) = 1) := by
  refine ⟨fun i hi => ?_, fun p hp hni => ?_⟩
  · have h := runLog_exec_count fl lib sg root hwf hr i
    simp only [] at h
    rw [h, if_neg (hdis i hi), count_of_nodup _ _ hnd, if_pos hi]
  · have h := runLog_exec_count fl lib sg root hwf hr p
    simp only [] at h
    rw [h, if_pos hp, List.count_eq_zero_of_not_mem hni]

/-! ### a saved value with several roots loaded as runtime objects (`from_state_dict` / `load`, `as_instance=True`) -/

/-- **Loaded from a saved value: one object per configuration, post-initialised once, after its own
    parameters and after every object it refers to exists.**  For every graph (sharing between roots, cycles),
    every list of roots (`roots` = the configurations listed in the saved value, in any order, with
    repetitions, inner nodes included) and whatever the `data` member is: the configurations written
    (`order`) are exactly those reachable from a root through parameter values, task links, pre-tasks and
    init tasks — in particular every node reachable from the roots through parameter values at any depth;
    for each of them the log holds exactly one `new`, one `__init__` and one `__post_init__`; its
    `__init__`, the assignment of each present parameter and its `__post_init__` are contiguous in this
    order, nothing is assigned to it and no `__post_init__` of it occurs before or after; and before that
    block the object of EVERY written configuration has been created (`new`) — hence that of every
    configuration it references (what it references was written); moreover (last line) every object it references
    — through a parameter value, its task link, a pre-task or an init task — has already been fully initialised
    (`__post_init__` included) when its own `__init__` starts, unless that object leads back to it (a cycle: then
    the referenced object exists but may still be unfilled).  Nothing at all for other ids.
    The property fixes no order between the blocks of DIFFERENT objects (the model emits them in definition
    order, children first except on a cycle). -/
theorem state_loaded_objects_once (fl : Flags) (lib : List Cls) (sg : SGraph) (roots : List Nat) (data : JVal)
    (hwf : WF sg.g) (hr : ∀ r ∈ roots, r < sg.g.size) (n : Nat) :
    let order := serialOrder sg.g roots
    let log := loadStateLog (serialize fl lib sg roots) data
    ((∃ r ∈ roots, Reach (fun k => argRefs (sg.g.node k)) r n) → n ∈ order) ∧
    (n ∈ order ↔ ∃ r ∈ roots, Reach (succAll sg.g) r n) ∧
    log.count (Ev.new n) = (if n ∈ order then 1 else 0) ∧
    log.count (Ev.init n) = (if n ∈ order then 1 else 0) ∧
    log.count (Ev.postInit n) = (if n ∈ order then 1 else 0) ∧
    (n ∈ order → ∃ l1 l2, log = l1 ++ (Ev.init n :: ((presentNames (sg.g.node n)).map (Ev.set n) ++ [Ev.postInit n])) ++ l2 ∧
        (∀ a, Ev.set n a ∉ l1) ∧ (∀ a, Ev.set n a ∉ l2) ∧ Ev.postInit n ∉ l1 ∧ Ev.postInit n ∉ l2 ∧
        (∀ m ∈ order, Ev.new m ∈ l1) ∧ (∀ m ∈ succAll sg.g n, m ∈ order) ∧
        (∀ m ∈ succAll sg.g n, Reach (succAll sg.g) m n ∨ Ev.postInit m ∈ l1)) := by
  intro order log
  obtain ⟨_, hiff, _, hcl⟩ := serialOrder_spec sg.g roots hwf hr
  obtain ⟨h1, h2, h3, h4⟩ := loadStateLog_objects fl lib sg roots data hwf hr n
  refine ⟨?_, hiff n, h1, h2, h3, fun hn => ?_⟩
  · rintro ⟨r, hrr, hreach⟩
    exact (hiff n).2 ⟨r, hrr, reach_mono (argRefs_sub_succAll sg.g) hreach⟩
  · obtain ⟨l1, l2, e, a1, a2, a3, a4, a5, a6⟩ := h4 hn
    exact ⟨l1, l2, e, a1, a2, a3, a4, a5, hcl n hn, a6⟩

/-- … the same for what `state_dict(v)` / `save(v)` wrote for a value `v` (any nesting of lists and
    dictionaries; its roots are the configurations occurring in it, `cfgRefs v`). -/
theorem state_loaded_objects_once_value (fl : Flags) (lib : List Cls) (sg : SGraph) (v : Val)
    (hwf : WF sg.g) (hr : ∀ r ∈ cfgRefs v, r < sg.g.size) (n : Nat) :
    let order := serialOrder sg.g (cfgRefs v)
    let log := loadStateLog (stateDict fl lib sg v).1 (stateDict fl lib sg v).2
    ((∃ r ∈ cfgRefs v, Reach (fun k => argRefs (sg.g.node k)) r n) → log.count (Ev.new n) = 1 ∧ log.count (Ev.postInit n) = 1) ∧
    (n ∉ order → log.count (Ev.new n) = 0 ∧ log.count (Ev.postInit n) = 0) := by
  intro order log
  obtain ⟨h0, _, h1, _, h3, _⟩ := state_loaded_objects_once fl lib sg (cfgRefs v) (encJ v) hwf hr n
  refine ⟨fun h => ?_, fun h => ?_⟩
  · have hn := h0 h
    exact ⟨h1.trans (if_pos hn), h3.trans (if_pos hn)⟩
  · exact ⟨h1.trans (if_neg h), h3.trans (if_neg h)⟩

/-- **The returned value mirrors the written one, with one runtime object per configuration.**
    `from_state_dict(state_dict(v), as_instance=True)` succeeds and returns `v` itself (same nesting, same keys,
    same plain values), a reference `.ref m` now denoting THE runtime object created for configuration `m`
    — there is exactly one (`state_loaded_objects_once`), so the same object stands wherever the written value
    or any parameter mentions `m`, across roots too; the objects are those of `order`, without repetition, each
    holding, for every present parameter, the configured value (references again being the objects of the
    referenced configurations); every configuration mentioned by the value or by a parameter of a written
    configuration has its object.  Hypothesis: references stay inside the graph.  (A dictionary with a key `"type"`,
    in the value or in a parameter, is written wrapped as `{"type": "dict", "value": …}` and comes back as itself:
    `C12.dict_type_key_round_trip`; before fix 738540e it did not — `C12.dict_type_key_witness`.) -/
theorem state_loaded_mirror (fl : Flags) (lib : List Cls) (sg : SGraph) (v : Val)
    (hwf : WF sg.g) (hr : ∀ r ∈ cfgRefs v, r < sg.g.size) :
    let order := serialOrder sg.g (cfgRefs v)
    fromStateDictInst (stateDict fl lib sg v)
      = .ok (order.map (fun n => (n, ((sg.g.node n).args.filter present).map (fun a => (a.name, a.value)))), v) ∧
    order.Nodup ∧
    (∀ m ∈ cfgRefs v, m ∈ order) ∧
    (∀ n ∈ order, ∀ m ∈ argRefs (sg.g.node n), m ∈ order) ∧
    (∀ m ∈ order, (loadStateLog (stateDict fl lib sg v).1 (stateDict fl lib sg v).2).count (Ev.new m) = 1) := by
  intro order
  obtain ⟨hnd, hiff, _, hcl⟩ := serialOrder_spec sg.g (cfgRefs v) hwf hr
  refine ⟨fromStateDictInst_stateDict fl lib sg v hwf hr, hnd,
    fun m hm => (hiff m).2 ⟨m, hm, Reach.refl m⟩,
    fun n hn m hm => hcl n hn m (argRefs_sub_succAll sg.g n m hm), fun m hm => ?_⟩
  have h := (loadStateLog_objects fl lib sg (cfgRefs v) (encJ v) hwf hr m).1
  show (loadStateLog (serialize fl lib sg (cfgRefs v)) (encJ v)).count (Ev.new m) = 1
  rw [h, if_pos hm]

/-- … and this route builds an object for every configuration `instance()` would build one for: whatever the
    `FromPython` walk of a listed configuration `r` enters with a fresh store (values, pre-tasks, init tasks) gets
    exactly one object here as well (this route additionally builds the upstream tasks behind `task` links). -/
theorem state_loaded_covers_instance (fl : Flags) (lib : List Cls) (sg : SGraph) (roots : List Nat) (data : JVal)
    (hwf : WF sg.g) (hr : ∀ r ∈ roots, r < sg.g.size) (r : Nat) (hrr : r ∈ roots) (n : Nat)
    (hn : n ∈ entersOf (instanceWalk sg.g [] r).trace) :
    (loadStateLog (serialize fl lib sg roots) data).count (Ev.new n) = 1 ∧
    (loadStateLog (serialize fl lib sg roots) data).count (Ev.postInit n) = 1 := by
  have hwfi : WFInst sg.g := fun k hk m hm => hwf k hk m (succInst_sub_succAll sg.g k m hm)
  have hreach := (instanceWalk_fresh sg.g r hwfi (hr r hrr) n).1 hn
  obtain ⟨_, hiff, h1, _, h3, _⟩ := state_loaded_objects_once fl lib sg roots data hwf hr n
  have hin := hiff.2 ⟨r, hrr, reach_mono (succInst_sub_succAll sg.g) hreach⟩
  exact ⟨by rw [h1, if_pos hin], by rw [h3, if_pos hin]⟩

/-- **On this route nothing is executed** (what the model says about the observation recorded by the
    correspondence, `CHECK_PRETASKS_ON_STATE_LOAD = False`): whatever the definitions and the data,
    `from_state_dict(…, as_instance=True)` / `load(…, as_instance=True)` run no `execute()` — no pre-task of any
    loaded configuration, no init task — and no task body; `fromParameters(as_instance=True)` on the SAME
    definitions is this log followed by the executions of the de-duplicated pre-tasks and of the init tasks of
    the last definition.  So "every pre-task runs exactly once" (`pretasks_once`, `init_after_pre_before_body`)
    holds for `instance()` and for a parameter file, not for a saved value loaded as instances: its pre-tasks
    are built and post-initialised (`state_load_pretask_built_not_run`) but never run. -/
theorem state_load_runs_no_pretask (defs : List Def) (data : JVal) :
    (∀ p, Ev.exec p ∉ loadStateLog defs data) ∧ (∀ n, Ev.body n ∉ loadStateLog defs data) ∧
    loadInstanceLog defs = loadStateLog defs data ++ (preList defs).map Ev.exec ++ (initList defs).map Ev.exec :=
  ⟨(loadStateLog_no_exec defs data).1, (loadStateLog_no_exec defs data).2, loadInstanceLog_eq defs data⟩

/-- … on the graph: a pre-task (or init task) `p` of a written configuration gets its object, `__post_init__`-ed
    once, and is executed zero times. -/
theorem state_load_pretask_built_not_run (fl : Flags) (lib : List Cls) (sg : SGraph) (roots : List Nat) (data : JVal)
    (hwf : WF sg.g) (hr : ∀ r ∈ roots, r < sg.g.size) (n p : Nat) (hn : n ∈ serialOrder sg.g roots)
    (hp : p ∈ (sg.g.node n).preTasks ∨ p ∈ (sg.g.node n).initTasks) :
    let log := loadStateLog (serialize fl lib sg roots) data
    log.count (Ev.new p) = 1 ∧ log.count (Ev.postInit p) = 1 ∧ log.count (Ev.exec p) = 0 := by
  intro log
  obtain ⟨_, _, _, hcl⟩ := serialOrder_spec sg.g roots hwf hr
  have hps : p ∈ succAll sg.g n := by
    simp only [succAll, List.mem_append]
    rcases hp with h | h
    · exact Or.inl (Or.inr h)
    · exact Or.inr h
  have hin := hcl n hn p hps
  obtain ⟨h1, _, h3, _⟩ := loadStateLog_objects fl lib sg roots data hwf hr p
  exact ⟨by show (loadStateLog _ _).count _ = 1; rw [h1, if_pos hin],
         by show (loadStateLog _ _).count _ = 1; rw [h3, if_pos hin],
         List.count_eq_zero.2 ((loadStateLog_no_exec _ _).1 p)⟩

/-! ### non-vacuity: a diamond with a cycle, a pre-task shared by two nodes, one init task -/

/-- 0 → {1, 2}, 1 → 3, 2 → 3, 3 → 0 (cycle); pre-task 4 on nodes 1 and 2; init task 5 on node 0. -/
def demo : Graph :=
  { nodes := [ { typeId := [116], args := [{ name := [97], value := .ref 1 }, { name := [98], value := .list [.ref 2] }], initTasks := [5] },
               { typeId := [99], args := [{ name := [120], value := .ref 3 }], preTasks := [4] },
               { typeId := [99], args := [{ name := [120], value := .ref 3 }], preTasks := [4] },
               { typeId := [100], args := [{ name := [121], required := false, value := .ref 0 }] },
               { typeId := [108], args := [{ name := [118], value := .int 1 }] },
               { typeId := [108], args := [{ name := [118], value := .int 2 }] } ] }

example : WFInst demo := by
  intro n hn m hm
  have : n = 0 ∨ n = 1 ∨ n = 2 ∨ n = 3 ∨ n = 4 ∨ n = 5 := by simp [Graph.size, demo] at hn; omega
  rcases this with h | h | h | h | h | h <;> subst h <;>
    simp [succInst, demo, Graph.node, argRefs, cfgRefsL, cfgRefs] at hm <;> simp [Graph.size, demo] <;> omega

example : entersOf (instanceWalk demo [] 0).trace = [0, 1, 3, 4, 2, 5] ∧ (instanceWalk demo [] 0).preTasks = [4] := by decide
example : (instanceLog demo [] 0).count (Ev.exec 4) = 1 ∧ (instanceLog demo [] 0).count (Ev.postInit 3) = 1 := by decide
/-- a second call sharing the store builds nothing again and runs no pre-task again -/
example : instanceLog demo (instanceWalk demo [] 0).store 1 = [] := by decide
example : runLog (serialize ⟨false, false, false⟩ [] { g := demo, cname := [] } [0]) =
    [.new 3, .new 4, .new 1, .new 2, .new 5, .new 0,
     .init 3, .set 3 [121], .postInit 3, .init 4, .set 4 [118], .postInit 4, .init 1, .set 1 [120], .postInit 1,
     .init 2, .set 2 [120], .postInit 2, .init 5, .set 5 [118], .postInit 5, .init 0, .set 0 [97], .set 0 [98], .postInit 0,
     .exec 4, .exec 5, .body 0] := by decide

/-! non-vacuity of the saved-value route: two roots 0 and 1 sharing the leaf 2, a pre-task 3 on root 1, an
    upstream task 4 behind a `task` link of the leaf, an unrelated node 5; the value is
    `{"a": cfg0, "b": [cfg1, cfg0]}` -/
def demo2 : SGraph :=
  { g := { nodes := [ { typeId := [97], args := [{ name := [120], value := .ref 2 }] },
                      { typeId := [98], args := [{ name := [121], value := .list [.ref 2] }, { name := [122], required := false, value := .none }], preTasks := [3] },
                      { typeId := [99], args := [{ name := [118], value := .int 7 }], task := some 4 },
                      { typeId := [108], args := [{ name := [118], value := .int 1 }] },
                      { typeId := [116], args := [{ name := [119], value := .dict [[107]] [.int 2] }] },
                      { typeId := [99], args := [{ name := [118], value := .int 9 }] } ] },
    cname := [[65], [66], [67], [76], [84], [67]] }
def demo2v : Val := .dict [[97], [98]] [.ref 0, .list [.ref 1, .ref 0]]
def demo2fl : Flags := ⟨true, true, true⟩

example : WF demo2.g := by
  intro n hn m hm
  have : n = 0 ∨ n = 1 ∨ n = 2 ∨ n = 3 ∨ n = 4 ∨ n = 5 := by simp [Graph.size, demo2] at hn; omega
  rcases this with h | h | h | h | h | h <;> subst h <;>
    simp [succAll, demo2, Graph.node, argRefs, cfgRefsL, cfgRefs, optL] at hm <;> simp [Graph.size, demo2] <;> omega
example : cfgRefs demo2v = [0, 1, 0] ∧ serialOrder demo2.g (cfgRefs demo2v) = [4, 2, 0, 3, 1] := by decide
example : loadStateLog (stateDict demo2fl [] demo2 demo2v).1 (stateDict demo2fl [] demo2 demo2v).2 =
    [.new 4, .new 2, .new 0, .new 3, .new 1,
     .init 4, .set 4 [119], .postInit 4, .init 2, .set 2 [118], .postInit 2, .init 0, .set 0 [120], .postInit 0,
     .init 3, .set 3 [118], .postInit 3, .init 1, .set 1 [121], .set 1 [122], .postInit 1] := by decide
/-- the same definitions through `fromParameters(as_instance=True)` do run the pre-task -/
example : loadInstanceLog (stateDict demo2fl [] demo2 demo2v).1 =
    loadStateLog (stateDict demo2fl [] demo2 demo2v).1 .null ++ [.exec 3] := by decide
example : (match fromStateDictInst (stateDict demo2fl [] demo2 demo2v) with
    | .ok ([(4, _), (2, _), (0, [(_, .ref 2)]), (3, _), (1, [(_, .list [.ref 2]), (_, .none)])],
           .dict _ [.ref 0, .list [.ref 1, .ref 0]]) => true
    | _ => false) = true := by decide
/-- hypotheses of `state_loaded_covers_instance` / `state_load_pretask_built_not_run`: `instance()` on root 1 builds
    1, 2 and the pre-task 3 (not the upstream task 4); 3 is a pre-task of the written configuration 1 -/
example : entersOf (instanceWalk demo2.g [] 1).trace = [1, 2, 3] ∧ 1 ∈ serialOrder demo2.g [0, 1, 0] ∧
    3 ∈ (demo2.g.node 1).preTasks := by decide
example : ∃ r ∈ cfgRefs demo2v, Reach (fun k => argRefs (demo2.g.node k)) r 2 :=
  ⟨0, by decide, .step (b := 2) (by decide) (.refl 2)⟩
/-- a cycle (1 → 3 → 0 → {1, 2}, 2 → 3) below two roots: node 2 is post-initialised while the object of node 3 it
    holds is still unfilled — it exists (`new 3` is in the prefix) and is filled later -/
example : loadStateLog (serialize demo2fl [] { g := demo, cname := [] } [1, 2]) .null =
    [.new 4, .new 2, .new 5, .new 0, .new 3, .new 1,
     .init 4, .set 4 [118], .postInit 4, .init 2, .set 2 [120], .postInit 2, .init 5, .set 5 [118], .postInit 5,
     .init 0, .set 0 [97], .set 0 [98], .postInit 0, .init 3, .set 3 [121], .postInit 3, .init 1, .set 1 [120], .postInit 1] := by decide

end XpmVerif.C13
