import XpmVerif.Model.IdentEnv
/-! C02, last sentence: "tags, explicit or token dependencies, launcher, workspace and run mode never enter the identifier".
    These are fields of the extended model (`Model/IdentEnv.lean`: `XNode.tags`, `XNode.extraDeps`, `XGraph.env`), sent by the
    correspondence for every generated case; the theorems are frame statements over them: for graphs (any two extended graphs
    with the same erasure; each edit operation) and for histories (identifier requests interleaved with tagging, adding
    dependencies and changing the environment, also after sealing, answer as if those operations had not happened). -/
namespace XpmVerif.C02
open XpmVerif.Ident List

/-- two submissions whose configurations differ only in tags, added dependencies, launcher, workspace and run mode have
    the same identifiers at every node, for every hash function. -/
theorem identifier_ignores_non_signature_inputs {D : Type} (hc : HC D) (x x' : XGraph)
    (h : x.nodes.map (·.toNode) = x'.nodes.map (·.toNode)) (n : Nat) :
    xRawId hc x n = xRawId hc x' n ∧ xFullId hc x n = xFullId hc x' n := by
  simp only [xRawId, xFullId, XGraph.core, h, and_self]

/-- the erasure does not see an update of the non-signature fields of one node (used by the three statements below). -/
theorem core_updNode (x : XGraph) (n : Nat) (f : XNode → XNode) (hf : ∀ nd, (f nd).toNode = nd.toNode) :
    (x.updNode n f).core = x.core := by
  simp only [XGraph.core, XGraph.updNode, map_map]
  congr 1
  have : ∀ (l : List XNode) (k : Nat), (l.zipIdx k).map ((fun nd => nd.toNode) ∘ fun p => if p.2 = n then f p.1 else p.1) = l.map (·.toNode) := by
    intro l
    induction l with
    | nil => intro k; rfl
    | cons a l ih =>
      intro k
      simp only [zipIdx_cons, map_cons, Function.comp, ih]
      split <;> simp [hf]
  exact this _ 0

/-- **tags**: `cfg.tag(k, v)` on any configuration of the graph changes no identifier. -/
theorem identifier_ignores_tags {D : Type} (hc : HC D) (x : XGraph) (n : Nat) (k : List Nat) (v : Val) (m : Nat) :
    xRawId hc (x.tag n k v) m = xRawId hc x m ∧ xFullId hc (x.tag n k v) m = xFullId hc x m := by
  have hcore : (x.tag n k v).core = x.core := core_updNode x n _ (fun _ => rfl)
  simp only [xRawId, xFullId, hcore, and_self]

/-- **explicit dependencies** (`add_dependencies(job.dependency())`) change no identifier. -/
theorem identifier_ignores_extra_dependencies {D : Type} (hc : HC D) (x : XGraph) (n j : Nat) (m : Nat) :
    xRawId hc (x.addDep n (.job j)) m = xRawId hc x m ∧ xFullId hc (x.addDep n (.job j)) m = xFullId hc x m := by
  have hcore : (x.addDep n (.job j)).core = x.core := core_updNode x n _ (fun _ => rfl)
  simp only [xRawId, xFullId, hcore, and_self]

/-- **token dependencies** (`add_dependencies(token.dependency(count))`) change no identifier. -/
theorem identifier_ignores_token_dependencies {D : Type} (hc : HC D) (x : XGraph) (n tok count : Nat) (m : Nat) :
    xRawId hc (x.addDep n (.token tok count)) m = xRawId hc x m ∧ xFullId hc (x.addDep n (.token tok count)) m = xFullId hc x m := by
  have hcore : (x.addDep n (.token tok count)).core = x.core := core_updNode x n _ (fun _ => rfl)
  simp only [xRawId, xFullId, hcore, and_self]

/-- **launcher, workspace, run mode**: the same graph submitted in any two environments has the same identifiers. -/
theorem identifier_ignores_environment {D : Type} (hc : HC D) (x : XGraph) (e : SubmitEnv) (m : Nat) :
    xRawId hc (x.setEnv e) m = xRawId hc x m ∧ xFullId hc (x.setEnv e) m = xFullId hc x m := ⟨rfl, rfl⟩

/-- in particular each of the three, one at a time. -/
theorem identifier_ignores_launcher {D : Type} (hc : HC D) (x : XGraph) (l : Option Nat) (m : Nat) :
    xFullId hc (x.setEnv { x.env with launcher := l }) m = xFullId hc x m := rfl
theorem identifier_ignores_workspace {D : Type} (hc : HC D) (x : XGraph) (w : Nat) (m : Nat) :
    xFullId hc (x.setEnv { x.env with workspace := w }) m = xFullId hc x m := rfl
theorem identifier_ignores_run_mode {D : Type} (hc : HC D) (x : XGraph) (r : RunMode) (m : Nat) :
    xFullId hc (x.setEnv { x.env with runMode := r }) m = xFullId hc x m := rfl

/-- **histories** (the implementation-side machine with caches and sealing): in any history of identifier requests, seals
    and guarded mutators interleaved with tagging, adding job/token dependencies and changing launcher / workspace / run
    mode — before or after sealing — every request is answered exactly as in the history without those operations, and the
    configurations end in the same state. -/
theorem history_ignores_non_signature_operations {D : Type} (hc : HC D) (flagStored : Bool) (ops : List XOp) (s : XSt D) :
    ((xrun hc flagStored s ops).1.st, (xrun hc flagStored s ops).2) = run hc flagStored s.st (coreOps ops) := by
  induction ops generalizing s with
  | nil => rfl
  | cons op ops ih =>
    cases op with
    | core op =>
      simp only [xrun, xstep, coreOps, run]
      have := ih { s with st := (step hc flagStored s.st op).1 }
      simp only [Prod.ext_iff] at this ⊢
      exact ⟨this.1, by rw [this.2]⟩
    | tag n k v => simpa only [xrun, xstep, coreOps] using ih { s with tags := s.tags ++ [(n, k, v)] }
    | addDep n d => simpa only [xrun, xstep, coreOps] using ih { s with deps := s.deps ++ [(n, d)] }
    | setEnv e => simpa only [xrun, xstep, coreOps] using ih { s with env := e }

/-! non-vacuity: a task with a tagged, token-dependent parameter submitted with an explicit launcher in generate-only mode —
    the extended graph differs from the plain one in every non-signature field, the identifiers do not. -/
def xPlain : XGraph := { nodes := [{ typeId := [84], args := [{ name := [120], value := .int 1 }] }] }
def xRich : XGraph := ((xPlain.tag 0 [116] (.int 5)).addDep 0 (.token 0 1)).setEnv { launcher := some 1, workspace := 2, runMode := .generateOnly }
def toyHCe : HC Nat :=
  { H := fun l => l.foldl (fun a b => (a * 31 + b + 1) % 1000003) 7, emb := fun d => [256 + d], le := fun a b => a ≤ b }
example : (xRich.nodes.map (·.tags.length), xRich.nodes.map (·.extraDeps.length), xRich.env.workspace) = ([1], [1], 2)
    ∧ xFullId toyHCe xRich 0 = xFullId toyHCe xPlain 0 := by decide

end XpmVerif.C02
