import XpmVerif.Model.Clean
import XpmVerif.Proofs.Filter
/-! Helper lemmas for C19, cleaning part: the decisions of the repaired `process()` loop and of
    `orphans` coincide with the specification predicates `toRemove` / `referenced`. -/
namespace XpmVerif.Filter

theorem stateImpl_none (j : Job) : stateImpl Quirks.none j = stateSpec j := by
  simp [stateImpl, stateSpec, Quirks.none]

theorem infoOf_stateImpl_none (j : Job) : infoOf (stateImpl Quirks.none) j = infoOf stateSpec j := by
  simp [infoOf, stateImpl_none]

/-- names of the experiments whose index satisfies `p`, tested for `X`. -/
theorem names_contains (xs : List Xp) (p : Xp → Bool) (X : String) :
    ((xs.filter p).map (·.name)).contains X = xs.any (fun x => x.name == X && p x) := by
  rw [Bool.eq_iff_iff]
  simp only [List.contains_iff_mem, List.mem_map, List.mem_filter, List.any_eq_true, Bool.and_eq_true,
    beq_iff_eq]
  constructor
  · rintro ⟨x, ⟨hx, hp⟩, hn⟩; exact ⟨x, hx, hn, hp⟩
  · rintro ⟨x, hx, hn, hp⟩; exact ⟨x, ⟨hx, hp⟩, hn⟩

theorem xpsOf_none (sc : String → String) (L : Layout) (j : Job) (X : String) :
    (xpsOf Quirks.none sc L j).contains X = inXp L X j := by
  simp only [xpsOf, Quirks.none, inXp]
  exact names_contains _ _ _

theorem removesImpl_none (rx : Rx) (sc : String → String) (L : Layout) (o : CleanOpts) (j : Job) :
    removesImpl Quirks.none rx sc L o (o.filter.map summary) j = toRemove rx L o j := by
  unfold removesImpl toRemove inScope selected cleanEnabled
  rw [stateImpl_none, infoOf_stateImpl_none]
  cases hp : o.perform
  · cases o.experiment <;> cases o.filter <;> simp
  · cases hx : o.experiment with
    | none =>
      cases hf : o.filter with
      | none => simp
      | some e => simp only [Option.map_some, summary_filter_none]; cases evalSpec rx e (infoOf stateSpec j) <;> simp
    | some X =>
      cases hf : o.filter with
      | none => simp only [xpsOf_none]; cases inXp L X j <;> simp
      | some e =>
        simp only [xpsOf_none, Option.map_some, summary_filter_none]
        cases inXp L X j <;> cases evalSpec rx e (infoOf stateSpec j) <;> simp

theorem cleanImpl_none (rx : Rx) (sc : String → String) (L : Layout) (o : CleanOpts) :
    cleanImpl Quirks.none rx sc L o = some (clean rx L o) := by
  unfold cleanImpl clean
  have key := fun j => removesImpl_none rx sc L o j
  cases hf : o.filter with
  | none =>
    simp only [hf, Option.map_none] at key
    simp only [key]
  | some e =>
    simp only [hf, Option.map_some] at key
    simp only [compile_none, key]

theorem mem_clean (rx : Rx) (L : Layout) (o : CleanOpts) (j : Job) :
    j ∈ (clean rx L o).jobs ↔ j ∈ L.jobs ∧ toRemove rx L o j = false := by
  simp [clean, List.mem_filter]

theorem running_not_finished (j : Job) (h : j.running = true) : isFinished (stateSpec j) = false := by
  simp [Job.running] at h
  simp [stateSpec, h, isFinished, JState.finished]

theorem toRemove_false_of_not_perform (rx : Rx) (L : Layout) (o : CleanOpts) (j : Job) (h : o.perform = false) :
    toRemove rx L o j = false := by
  simp [toRemove, h]

theorem clean_of_not_perform (rx : Rx) (L : Layout) (o : CleanOpts) (h : o.perform = false) :
    clean rx L o = L := by
  cases L
  simp [clean, toRemove, h]

/-! orphans -/

theorem xpjobs_contains (L : Layout) (o : OrphOpts) (j : Job) :
    (xpjobs L o).contains j.key = referenced L o j := by
  rw [Bool.eq_iff_iff]
  unfold xpjobs referenced
  cases h : o.ignoreOld <;>
    simp only [List.contains_iff_mem, List.mem_append, List.mem_flatMap, List.any_eq_true, Bool.or_eq_true,
      Bool.and_eq_true, Bool.not_false, Bool.not_true, true_and, Bool.false_eq_true, false_and, or_false,
      if_true, if_false, List.not_mem_nil]
  · constructor
    · rintro (⟨x, hx, hk⟩ | ⟨x, hx, hk⟩)
      · exact ⟨x, hx, Or.inl hk⟩
      · exact ⟨x, hx, Or.inr hk⟩
    · rintro ⟨x, hx, hk | hk⟩
      · exact Or.inl ⟨x, hx, hk⟩
      · exact Or.inr ⟨x, hx, hk⟩

theorem mem_orphans (L : Layout) (o : OrphOpts) (j : Job) :
    j ∈ (orphansImpl L o).jobs ↔ j ∈ L.jobs ∧ (o.clean = false ∨ referenced L o j = true) := by
  simp only [orphansImpl, List.mem_filter, xpjobs_contains]
  cases o.clean <;> cases referenced L o j <;> simp

theorem runCmd_xps (rx : Rx) (sc : String → String) (L : Layout) (c : Cmd) : (runCmd Quirks.none rx sc L c).xps = L.xps := by
  cases c with
  | clean o => simp [runCmd, cleanImpl_none, clean]
  | orphans o => rfl

end XpmVerif.Filter
