import XpmVerif.Model.SerialData
namespace XpmVerif.Serial

theorem dec_no_slash (n : Nat) : slash ∉ dec n := by
  intro h
  simp only [dec, List.mem_map] at h
  obtain ⟨c, hc, hs⟩ := h
  have hd := Nat.isDigit_of_mem_toDigits (b := 10) (by decide) (by decide) hc
  simp only [Char.isDigit, Bool.and_eq_true, decide_eq_true_eq] at hd
  have : c.toNat = 47 := hs
  have h1 : c.val.toNat = 47 := this
  have h2 : (48 : UInt32) ≤ c.val := hd.1
  rw [UInt32.le_iff_toNat_le] at h2
  simp at h2
  omega

theorem dec_inj {n m : Nat} (h : dec n = dec m) : n = m := by
  have hinj : Function.Injective Char.toNat := by
    intro a b hab
    exact Char.ext (UInt32.toNat_inj.1 hab)
  have mapinj : ∀ (l1 l2 : List Char), l1.map Char.toNat = l2.map Char.toNat → l1 = l2 := by
    intro l1
    induction l1 with
    | nil => intro l2 h; cases l2 <;> simp_all
    | cons a r ih =>
      intro l2 h
      cases l2 with
      | nil => simp at h
      | cons b r2 =>
        simp only [List.map_cons, List.cons.injEq] at h
        rw [hinj h.1, ih r2 h.2]
  have h' : Nat.toDigits 10 n = Nat.toDigits 10 m := mapinj _ _ h
  have := congrArg (fun l => Nat.ofDigitChars 10 l 0) h'
  simpa [Nat.ofDigitChars_ten_toDigits] using this
end XpmVerif.Serial
