import XpmVerif.Proofs.Specs
/-! C18 — a launcher request only matches hosts that satisfy it.
    Property theorems only.  `reqMatch`, `cudaMatch`, `cpuLt`, `andCopy`, `mulCopy` are
    regenerated from `launcherfinder/specs.py` on every run (`Generated/Specs.lean`), so these
    theorems are re-checked against what the code says now. -/
namespace XpmVerif.C18
open XpmVerif.Specs

/-- **C18, first sentence.** A match implies: enough GPUs, the i-th requested GPU (requests are kept
    sorted) is covered by the i-th host GPU — an injective assignment of host GPUs to requests —, CPU
    memory and cores suffice, and the duration is allowed (`max_duration = 0` means unlimited). -/
theorem match_sound (r : Req) (h : Host) (s : Int) (hm : reqMatch r h = some s) :
    r.gpus.length ≤ h.cuda.length ∧
    (∀ i (hi : i < r.gpus.length) (hj : i < h.cuda.length), (r.gpus[i]).memory ≤ (h.cuda[i]).memory) ∧
    r.cpu.memory ≤ h.cpu.memory ∧ r.cpu.cores ≤ h.cpu.cores ∧
    (0 < h.maxDuration → r.duration ≤ h.maxDuration) := by
  obtain ⟨k1, k2, k3, k4, _⟩ := match_key r h s hm
  refine ⟨k2, ?_, ?_, ?_, k4⟩
  · intro i hi hj
    have := zip_any_false _ h.cuda r.gpus k1 i hj hi
    simp [cudaMatch] at this
    omega
  · simp [cpuLt] at k3; omega
  · simp [cpuLt] at k3; omega

/-- **a conjunction requests what each of its terms requests**: if `a & b` (value `a.add b`, the shape of
    `_add` is checked against the source by the translator) matches a host, the host offers at least the
    GPUs of both together, the CPU memory and cores of each, and allows the duration of each. -/
theorem conjunction_requires_both (a b : Req) (h : Host) (s : Int) (hm : reqMatch (a.add b) h = some s) :
    a.gpus.length + b.gpus.length ≤ h.cuda.length ∧
    a.cpu.memory ≤ h.cpu.memory ∧ b.cpu.memory ≤ h.cpu.memory ∧
    a.cpu.cores ≤ h.cpu.cores ∧ b.cpu.cores ≤ h.cpu.cores ∧
    (0 < h.maxDuration → a.duration ≤ h.maxDuration ∧ b.duration ≤ h.maxDuration) := by
  obtain ⟨h1, _, h3, h4, h5⟩ := match_sound (a.add b) h s hm
  simp only [Req.add, sortGpus_length, List.length_append] at h1 h3 h4 h5
  refine ⟨h1, by omega, by omega, by omega, by omega, fun hp => ?_⟩
  have := h5 hp
  omega

/-- non-vacuity: a concrete request matches a concrete host. -/
example : reqMatch { gpus := [{ memory := 4 }, { memory := 8 }], cpu := { memory := 10, cores := 2 }, duration := 5 }
    { cuda := [{ memory := 8 }, { memory := 8 }, { memory := 2 }], cpu := { memory := 16, cores := 4 },
      priority := 3, maxDuration := 10 } = some 3 := by decide

/-- **alternatives are tried in the order given**: `RequirementUnion.match` returns the first
    alternative that matches, with the host priority as score. -/
theorem union_first_match (reqs : List Req) (host : Host) :
    unionMatch reqs host = (firstMatch host reqs 0).map (fun k => (host.priority, k)) :=
  union_first_match_aux host reqs 0

/-- **combining never alters the operands** (`a & b`), for every heap, also when `a` and `b` are the
    same object, provided `__and__` duplicates `self` with `deepcopy`. -/
theorem and_deep_pure (h : Heap) (a b : Nat) (hwf : h.WF) (ha : a < h.next) (hb : b < h.next) :
    let (h', n) := h.andOp .deep a b
    h'.val a = h.val a ∧ h'.val b = h.val b ∧ h'.val n = (h.val a).add (h.val b) := by
  have wa := hwf a ha
  have wb := hwf b hb
  simp only [Heap.andOp, Heap.copyObj, Heap.addInto, Heap.val, upd, Req.add]
  refine ⟨?_, ?_, ?_⟩ <;> grind

/-- **multiplying never alters the operand** (`a * c`), provided `__mul__` uses `deepcopy`. -/
theorem mul_deep_pure (h : Heap) (a c : Nat) (hwf : h.WF) (ha : a < h.next) :
    let (h', n) := h.mulOp .deep a c
    h'.val a = h.val a ∧ h'.val n = (h.val a).mul c := by
  have wa := hwf a ha
  by_cases hc : c = 1
  · simp [Heap.mulOp, hc, Req.mul]
  · simp only [Heap.mulOp, hc, if_false, Heap.copyObj]
    rw [extendLoop_spec _ _ _ _ (by simp [upd]; grind)]
    simp only [Heap.val, upd, Req.mul, hc, if_false]
    refine ⟨?_, ?_⟩ <;> grind

/-- obligations on the *current source*: the copy functions really are `deepcopy`. -/
theorem and_uses_deepcopy : andCopy = CopyKind.deep := by decide
theorem mul_uses_deepcopy : mulCopy = CopyKind.deep := by decide

/-- a well-formed concrete heap (non-vacuity of `and_deep_pure` / `mul_deep_pure`), and the negative
    witness: with a *shallow* copy, `a & b` changes `a`. -/
def h0 : Heap :=
  { cpus := fun i => if i = 1 then { memory := 5, cores := 1 } else { memory := 9, cores := 4 }
    gpus := fun i => if i = 2 then [{ memory := 3 }] else [{ memory := 1 }]
    reqs := fun i => if i = 0 then { cpuRef := 1, gpusRef := 2, duration := 7 } else { cpuRef := 4, gpusRef := 5, duration := 1 }
    next := 6 }

example : (h0.reqs 0).cpuRef < h0.next ∧ (h0.reqs 3).gpusRef < h0.next := by decide

theorem and_shallow_mutates : ((h0.andOp .shallow 0 3).1.val 0) ≠ h0.val 0 := by decide

/-! ### non-vacuity of the named hypothesis `Heap.WF` (audit round 8, item 6) -/

/-- `h0` — object 0: a request with a GPU list `[3]`, a CPU spec (memory 5, 1 core), duration 7; object 3: GPU `[1]`, CPU (9, 4) —
    is a well-formed heap. -/
theorem h0_WF : h0.WF := by
  intro r _
  by_cases h : r = 0 <;> simp [h0, h]

/-- … its first request (GPU list and CPU spec) is matched by a concrete host … -/
example : reqMatch (h0.val 0) { cuda := [{ memory := 4 }, { memory := 8 }], cpu := { memory := 16, cores := 2 }, priority := 2, maxDuration := 10 } = some 2 := by
  decide

/-- … and `and_deep_pure` / `mul_deep_pure` say something non-trivial on it: `a & b` has two GPUs (sorted) and the maxima, `a * 3` three GPUs, while
    `a` and `b` keep their values (with the shallow copy `a` changes: `and_shallow_mutates`). -/
example : (h0.andOp .deep 0 3).1.val 0 = h0.val 0 ∧ (h0.andOp .deep 0 3).1.val 3 = h0.val 3 ∧
    (h0.andOp .deep 0 3).1.val (h0.andOp .deep 0 3).2 = (h0.val 0).add (h0.val 3) :=
  and_deep_pure h0 0 3 h0_WF (by decide) (by decide)
example : ((h0.val 0).add (h0.val 3)).gpus = [{ memory := 1 }, { memory := 3 }] ∧ ((h0.val 0).add (h0.val 3)).cpu = { memory := 9, cores := 4 } := by decide
example : (h0.mulOp .deep 0 3).1.val 0 = h0.val 0 ∧ (h0.mulOp .deep 0 3).1.val (h0.mulOp .deep 0 3).2 = (h0.val 0).mul 3 :=
  mul_deep_pure h0 0 3 h0_WF (by decide)
example : ((h0.val 0).mul 3).gpus.length = 3 := by decide

end XpmVerif.C18
