import XpmVerif.Generated.DepsSrc
import XpmVerif.Properties.C04Deps
/-! C04, second sentence, tied to the source by translation: `depsNode_follows_plan` (hand-written link: the model's collector IS the
    interpreter of the plan `DepsPlan.expected`), `deps_plan_is_source` (the plan read off `core/objects.py` on every run IS
    `expected`), and `collectDeps_complete` / `collectDeps_sound` restated for the source's plan.  A change of what is walked, in
    which order, or where the walk stops (seeded C04-pretaskelse: pre/init loops under the `else:`; C07e-dictkeysdeps: the dict
    branch visits only keys) makes `deps_plan_is_source` fail. -/
namespace XpmVerif.C04DepsSrc
open XpmVerif XpmVerif.Ident XpmVerif.DepsPlan

mutual
theorem walkValP_expected (cfg : Nat → List Nat → List Nat) : ∀ (v : Val) (acc : List Nat),
    walkValP expected.value cfg v acc = walkVal cfg v acc
  | .list l, acc => by simpa [walkValP, walkVal, expected] using walkValsP_expected cfg l acc
  | .dict _ vs, acc => by simpa [walkValP, walkVal, expected] using walkValsP_expected cfg vs acc
  | .ref n, acc => by simp [walkValP, walkVal, expected]
  | .none, _ | .bool _, _ | .int _, _ | .float _, _ | .str _, _ | .enum _, _ | .path _, _ => by simp [walkValP, walkVal]
theorem walkValsP_expected (cfg : Nat → List Nat → List Nat) : ∀ (vs : List Val) (acc : List Nat),
    walkValsP expected.value cfg vs acc = walkVals cfg vs acc
  | [], _ => by simp [walkValsP, walkVals]
  | v :: vs, acc => by
    simp only [walkValsP, walkVals]
    rw [walkValP_expected cfg v acc]
    exact walkValsP_expected cfg vs _
end

/-- **the model's collector is the interpreter of the expected plan** (pre-tasks, then init tasks, then either the producing task
    — when there is one and the configuration is not loaded: added once, the walk stops — or the argument values). -/
theorem depsNode_follows_plan (g : Graph) (ld : Nat → Bool) (fuel n : Nat) (acc : List Nat) :
    Ident.depsNode g ld fuel n acc = depsNodePlan expected g ld fuel n acc := by
  induction fuel generalizing n acc with
  | zero => rfl
  | succ fuel ih =>
    have hrec : Ident.depsNode g ld fuel = depsNodePlan expected g ld fuel := by
      funext m a; exact ih m a
    unfold Ident.depsNode depsNodePlan
    have e1 : expected.node.before = [.tasks .pre, .tasks .init] := rfl
    have e2 : expected.node.condTask = true := rfl
    have e3 : expected.node.condNotLoaded = true := rfl
    have e4 : expected.node.thenB = [.addTask true] := rfl
    have e5 : expected.node.elseB = [.args true] := rfl
    simp only [hrec, e1, e2, e3, e4, e5, List.foldl, runSimple, Bool.not_true, Bool.false_or, Bool.true_and, effTask]
    cases hl : ld n with
    | true => simp [walkValsP_expected]
    | false =>
      cases ht : (g.node n).task with
      | none => simp [walkValsP_expected]
      | some t => simp

/-- **the plan read off the source is the plan the model follows.** -/
theorem deps_plan_is_source : Gen.depsPlanSrc = expected := by decide

/-- with the plan of the source, the collector IS `Ident.depsNode`. -/
theorem depsNode_is_source (g : Graph) (ld : Nat → Bool) (fuel n : Nat) (acc : List Nat) :
    Ident.depsNode g ld fuel n acc = depsNodePlan Gen.depsPlanSrc g ld fuel n acc := by
  rw [deps_plan_is_source]; exact depsNode_follows_plan g ld fuel n acc

theorem collectDeps_is_source (g : Graph) (ld : Nat → Bool) (root : Nat) :
    collectDepsPlan Gen.depsPlanSrc g ld root = collectDeps g ld root := by
  rw [deps_plan_is_source]
  simp only [collectDepsPlan, collectDeps, expected, if_true, depsNode_follows_plan]

/-- **completeness, for the source's plan**: every task embedded in the parameters (at any depth, through lists, dicts, nested and
    loaded configurations, task outputs, pre-tasks and init tasks) is collected by what `submit()` does. -/
theorem collectDeps_complete_source (g : Graph) (ld : Nat → Bool) (rank : Nat → Nat) (hr : ∀ n m, Child g ld n m → rank m < rank n)
    (hb : ∀ n, rank n ≤ g.size) (root t : Nat) (he : Emb g ld root t) (hne : t ≠ root) :
    t ∈ collectDepsPlan Gen.depsPlanSrc g ld root := by
  rw [collectDeps_is_source]; exact C04Deps.collectDeps_complete g ld rank hr hb root t he hne

/-- **soundness, for the source's plan**: only embedded tasks are collected. -/
theorem collectDeps_sound_source (g : Graph) (ld : Nat → Bool) (root t : Nat)
    (h : t ∈ collectDepsPlan Gen.depsPlanSrc g ld root) : Emb g ld root t := by
  rw [collectDeps_is_source] at h; exact C04Deps.collectDeps_sound g ld root t h

/-- the plan matters: with the pre/init loops under the `else:` (seeded C04-pretaskelse) the pre-task 2 of a task output 1 is lost;
    with a dict branch that only visits keys (seeded C07e) a task inside a dict is lost. -/
example :
    let g : Graph := { nodes := [{ typeId := [1], args := [{ name := [97], value := .ref 1 }] },
                                 { typeId := [2], args := [], task := some 3, preTasks := [2] },
                                 { typeId := [3], args := [], task := some 2 }, { typeId := [4], args := [], task := some 3 }] }
    collectDepsPlan expected g (fun _ => false) 0 = [2, 3] ∧
    collectDepsPlan { expected with node := { expected.node with before := [], elseB := [.tasks .pre, .tasks .init, .args true] } } g (fun _ => false) 0 = [3] := by
  decide
example :
    let g : Graph := { nodes := [{ typeId := [1], args := [{ name := [97], value := .dict [[107]] [.ref 1] }] },
                                 { typeId := [2], args := [], task := some 1 }] }
    collectDepsPlan expected g (fun _ => false) 0 = [1] ∧
    collectDepsPlan { expected with value := { expected.value with dictValues := false } } g (fun _ => false) 0 = [] := by
  decide

end XpmVerif.C04DepsSrc
