import XpmVerif.Proofs.FilterPartial
/-! C19 — `jobs clean` on workspaces where the filter cannot be evaluated on some job (missing / truncated
    `params.json`, non-string tag value under `~`).  Model: `Model/CleanPartial.lean`.  Oracle stated by the property:
    whatever the command does on such a workspace (abort included), no job directory outside the selection is removed,
    where a job on which the filter cannot be evaluated is *not* selected. -/
namespace XpmVerif.C19Partial
open XpmVerif.Filter

/-- **safety half of `clean_exact` with partial filters** (`removed ⊆ finished ∧ filter = true`): for the two
    policies that do not keep an unevaluable job in the selection (`abort`: the pinned source, the command stops at
    that job; `skips`), for every workspace, enumeration order, hazard assignment and option set: nothing appears,
    experiments are untouched, and a job directory that is gone had `--perform`, was in the scope of `--experiment`,
    was finished, and the filter (if any) has the three-valued documented meaning *true* on it — in particular the
    filter could be evaluated. -/
theorem clean_removes_only_selected (pol : RaisePolicy) (hp : pol ≠ .selects) (rx : Rx) (L : HLayout) (o : CleanOpts) :
    (cleanP pol rx L o).2.xps = L.xps ∧
    (∀ hj, hj ∈ (cleanP pol rx L o).2.jobs → hj ∈ L.jobs) ∧
    (∀ hj, hj ∈ L.jobs → hj ∉ (cleanP pol rx L o).2.jobs →
      o.perform = true ∧ inScope L.base o hj.job = true ∧ isFinished (stateSpec hj.job) = true ∧
        (∀ e, o.filter = some e → evalK rx e (infoOf stateSpec hj.job) hj.hz = .t)) := by
  refine ⟨rfl, fun hj h => ?_, fun hj hin hout => ?_⟩
  · rcases foldl_sub pol rx L o _ L.jobs (false, []) hj h with h | h
    · cases h
    · exact h
  · rcases foldl_safe pol hp rx L o L.jobs (false, []) hj hin with h | h
    · exact absurd h hout
    · exact h

/-- the object chain evaluated in the implementation's order (right operand first, short-circuit) returns *true*
    only when the order-independent three-valued meaning is *true*: a comparison that raises is never skipped in a
    way that changes the verdict. -/
theorem filter_true_is_selected (rx : Rx) (i : Info) (h : Hz) (e : Expr)
    (ht : (summary e).filterP rx i h = some true) : evalK rx e i h = .t :=
  filterP_true_selected rx i h e ht

/-- conservative extension: without hazards every comparison evaluates, to its documented meaning. -/
theorem partial_conservative (rx : Rx) (i : Info) (a : Atom) : a.evalP rx i {} = some (a.spec rx i) :=
  Atom.evalP_noHazard rx i a

/-! non-vacuity and the seeded change C19g as a negative theorem -/

def jBad : HJob :=
  { job := { ty := "a.t", id := "bad", done := false, failed := true, pid := false, alive := false, tags := [] },
    hz := { noTags := true } }
def jGood : HJob :=
  { job := { ty := "a.t", id := "good", done := true, failed := false, pid := false, alive := false, tags := [("model", "bm25")] } }
def jNum : HJob :=
  { job := { ty := "a.t", id := "num", done := true, failed := false, pid := false, alive := false, tags := [("lr", "12")] },
    hz := { nonStr := ["lr"] } }
def LH : HLayout := { jobs := [jGood, jBad, jNum], xps := [] }
def fModel : Expr := ⟨.eqConst (.tag "model") "bm25", []⟩
def fRegex : Expr := ⟨.regex (.tag "lr") "1.*", []⟩

/-- pinned source (`abort`): `jobs clean --filter 'model = "bm25"' --perform` removes the selected job enumerated
    first, raises on the job without tag table, touches nothing after it. -/
example : (cleanP .abort (fun _ _ => true) LH { filter := some fModel, perform := true }) = (true, { LH with jobs := [jBad, jNum] }) := by decide
/-- `skips`: the unevaluable job is kept, the command goes on. -/
example : (cleanP .skips (fun _ _ => true) LH { filter := some fRegex, perform := true }) = (false, { LH with jobs := [jGood, jBad, jNum] }) := by decide
/-- C19g (`selects`): the job on which the filter raised is removed although the filter never selected it — for the
    tag table that cannot be read and for the numeric tag under `~`. -/
theorem selects_removes_unselected :
    (cleanP .selects (fun _ _ => false) LH { filter := some fModel, perform := true }).2.jobs = [jNum] ∧
    evalK (fun _ _ => false) fModel (infoOf stateSpec jBad.job) jBad.hz = .e ∧
    (cleanP .selects (fun _ _ => false) LH { filter := some fRegex, perform := true }).2.jobs = [jGood] ∧
    evalK (fun _ _ => false) fRegex (infoOf stateSpec jNum.job) jNum.hz = .e := by decide

end XpmVerif.C19Partial
