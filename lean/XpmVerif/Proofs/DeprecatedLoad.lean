import XpmVerif.Model.DeprecatedLoad
import XpmVerif.Proofs.Deprecated
import XpmVerif.Proofs.SerialLoad
/-! Lemmas for the composed model (Model/DeprecatedLoad.lean): the `params.json` a run writes does not depend on
    the class table; the location recomputed from it is the identifier of the graph under the current table; the
    tree component of the file-level repair is `fixTree`; `alias_job_files` never hides a marker file and makes the
    `.done` marker visible under the new name. -/
namespace XpmVerif.Deprecated
open XpmVerif.Ident XpmVerif.Serial

/-- the nodes of a configuration graph under two class tables differ by the type identifier only -/
theorem toGraph_node_tables (cs0 cs1 : List ClassDecl) (nodes : List CNode) (n : Nat) :
    (CGraph.toGraph ⟨cs0, nodes⟩).node n = { (CGraph.toGraph ⟨cs1, nodes⟩).node n with
      typeId := ((CGraph.toGraph ⟨cs0, nodes⟩).node n).typeId } := by
  simp only [CGraph.toGraph, Graph.node, List.getD_eq_getElem?_getD, List.getElem?_map]
  cases nodes[n]? <;> simp [CNode.toNode]

theorem succAll_tables (cs0 cs1 : List ClassDecl) (nodes : List CNode) :
    succAll (CGraph.toGraph ⟨cs0, nodes⟩) = succAll (CGraph.toGraph ⟨cs1, nodes⟩) := by
  funext n
  simp only [succAll, argRefs]
  rw [toGraph_node_tables cs0 cs1 nodes n]

theorem size_tables (cs0 cs1 : List ClassDecl) (nodes : List CNode) :
    (CGraph.toGraph ⟨cs0, nodes⟩).size = (CGraph.toGraph ⟨cs1, nodes⟩).size := by
  simp [CGraph.toGraph, Graph.size]

theorem findCls_libOf_data (cs0 cs1 : List ClassDecl) (infos : List ClassInfo) (nm : List Nat) :
    (findCls (libOf cs0 infos) nm).map (·.data) = (findCls (libOf cs1 infos) nm).map (·.data) := by
  simp only [findCls, libOf]
  generalize List.range infos.length = l
  induction l with
  | nil => rfl
  | cons c l ih =>
    simp only [List.map_cons, List.find?_cons]
    by_cases h : (cinfo infos c).name == nm
    · simp [clsOf, h]
    · simp only [clsOf, h] at ih ⊢
      exact ih

theorem paramsOf_tables (fl : Flags) (infos : List ClassInfo) (cs0 cs1 : List ClassDecl) (nodes : List CNode) (root : Nat) :
    paramsOf fl infos ⟨cs0, nodes⟩ root = paramsOf fl infos ⟨cs1, nodes⟩ root := by
  simp only [paramsOf, serialize, serialOrder, sgraphOf, succAll_tables cs0 cs1 nodes, size_tables cs0 cs1 nodes]
  apply List.map_congr_left
  intro n _
  have hd := findCls_libOf_data cs0 cs1 infos ((List.map (fun n => (cinfo infos n.cls).name) nodes).getD n [])
  have hn := toGraph_node_tables cs0 cs1 nodes n
  simp only [mkDef, SGraph.cls]
  rw [hn]
  cases h0 : findCls (libOf cs0 infos) ((List.map (fun n => (cinfo infos n.cls).name) nodes).getD n []) <;>
    cases h1 : findCls (libOf cs1 infos) ((List.map (fun n => (cinfo infos n.cls).name) nodes).getD n []) <;>
    simp_all

theorem toGraph_size_nodes (cs : List ClassDecl) (nodes : List CNode) : (CGraph.toGraph ⟨cs, nodes⟩).size = nodes.length := by
  simp [CGraph.toGraph, Graph.size]

theorem toGraph_typeId (cs : List ClassDecl) (nodes : List CNode) (n : Nat) (h : n < nodes.length) :
    ((CGraph.toGraph ⟨cs, nodes⟩).node n).typeId = eff cs ((nodes.getD n default).cls) := by
  simp [CGraph.toGraph, Graph.node, List.getD_eq_getElem?_getD, h, CNode.toNode]

/-- **the recomputed location, derived**: loading (under the class table `cs1` of the repair) the `params.json`
    a run wrote (under any class table `cs0`) and computing the identifier gives the type identifier and the full
    identifier of the same graph under `cs1`. -/
theorem recompute_paramsOf {D : Type} (hc : HC D) (fl : Flags) (infos : List ClassInfo) (cs0 cs1 : List ClassDecl)
    (nodes : List CNode) (root : Nat)
    (hwf : WF (CGraph.toGraph ⟨cs1, nodes⟩)) (hr : root < nodes.length)
    (hok : ∀ n, Needed (CGraph.toGraph ⟨cs1, nodes⟩) [root] n → NodeOk (libOf cs1 infos) (sgraphOf infos ⟨cs1, nodes⟩) n)
    (hm : (fl.metaWriteAll = true ∧ fl.metaReadAll = true) ∨
      ∀ n, Needed (CGraph.toGraph ⟨cs1, nodes⟩) [root] n → ((CGraph.toGraph ⟨cs1, nodes⟩).node n).mflag ≠ some false)
    (hi : fl.initRestored = true ∨
      ∀ n, Needed (CGraph.toGraph ⟨cs1, nodes⟩) [root] n → ((CGraph.toGraph ⟨cs1, nodes⟩).node n).initTasks = [])
    (hdn : DefaultsNeeded (CGraph.toGraph ⟨cs1, nodes⟩) [root]) :
    recompute hc fl cs1 infos nodes.length (paramsOf fl infos ⟨cs0, nodes⟩ root)
      = some (eff cs1 ((nodes.getD root default).cls), cFullId hc ⟨cs1, nodes⟩ root) := by
  rw [paramsOf_tables fl infos cs0 cs1 nodes root]
  have hsz := toGraph_size_nodes cs1 nodes
  have hr' : root < (sgraphOf infos ⟨cs1, nodes⟩).g.size := by simpa [sgraphOf, hsz] using hr
  have he := fromParameters_serialize_eq fl (libOf cs1 infos) (sgraphOf infos ⟨cs1, nodes⟩) root hwf hr' hok
  obtain ⟨L, hL, hfull⟩ := reload_fullId hc fl (libOf cs1 infos) (sgraphOf infos ⟨cs1, nodes⟩) root hwf hr' hok hm hi hdn
  have hLe : L = loadedOf fl (sgraphOf infos ⟨cs1, nodes⟩) (serialOrder (sgraphOf infos ⟨cs1, nodes⟩).g [root]) := by
    rw [he] at hL
    simp only [Except.ok.injEq, Prod.mk.injEq] at hL
    exact hL.1.symm
  obtain ⟨_, hiff, _, _⟩ := serialOrder_spec (sgraphOf infos ⟨cs1, nodes⟩).g [root] hwf (by simpa using hr')
  have hmem : root ∈ serialOrder (sgraphOf infos ⟨cs1, nodes⟩).g [root] :=
    (hiff root).2 ⟨root, List.mem_singleton.2 rfl, Reach.refl root⟩
  have hlook := lookupObj_loadedOf fl (sgraphOf infos ⟨cs1, nodes⟩) root _ hmem
  have hsz' : (sgraphOf infos ⟨cs1, nodes⟩).g.size = nodes.length := by simp [sgraphOf, hsz]
  simp only [recompute, paramsOf, hL]
  rw [← hsz', hfull, toGraph_node L _ root hr', hLe, hlook]
  simp only [reloadNode, sgraphOf, cFullId]
  rw [toGraph_typeId cs1 nodes root hr]
theorem resolve_rmDangling_self (t : Tree) (x : Key) :
    (resolve (rmDangling t x) depth x).isSome = (resolve t depth x).isSome := by
  cases h : resolve t depth x with
  | some r =>
    have : rmDangling t x = t := by simp [rmDangling, h]
    rw [this, h]
  | none =>
    by_cases hl : isLink t x = true
    · have : rmDangling t x = upd t x none := by simp [rmDangling, h, hl]
      rw [this, resolve_at_none (upd_same t x none)]
    · have : rmDangling t x = t := by simp [rmDangling, hl]
      rw [this, h]

/-- the tree component of the file-level step is the step of Model/Deprecated: every theorem about `fixTree`
    applies to `fixTreeF`. -/
theorem step2F_fst (fx cl : Bool) (nm : Nat → Nat) (s : Tree × FS) (k : Key) :
    (step2F fx cl nm s k).1 = step2 fx cl s.1 k := by
  obtain ⟨t, fs⟩ := s
  cases hk : t k with
  | none => simp [step2F, step2, hk]
  | some e =>
    cases e with
    | link g => simp [step2F, step2, hk]
    | dir d p =>
      cases p with
      | absent => simp [step2F, step2, hk]
      | broken => simp [step2F, step2, hk]
      | ok nk =>
        simp only [step2F, step2, hk]
        by_cases hc : nk.2 = k.2
        · simp [action, observe, hc]
        · cases fx
          · simp [action, observe, hc]
          · have hiso := resolve_rmDangling_self t nk
            cases hr : resolve t depth nk with
            | some r =>
              have hrm : rmDangling t nk = t := by simp [rmDangling, hr]
              by_cases hsame : r = k <;>
                simp [action, observe, hc, hr, hrm, applyEff, hsame]
            | none =>
              rw [hr] at hiso
              have hr1 : resolve (rmDangling t nk) depth nk = none := by
                cases h : resolve (rmDangling t nk) depth nk with
                | none => rfl
                | some _ => rw [h] at hiso; simp at hiso
              have hr2 : resolve (upd t nk none) depth nk = none := resolve_at_none (upd_same t nk none) depth
              by_cases hl : isLink t nk = true <;> cases cl <;>
                simp [action, observe, hc, hr, hr2, hl, applyEff, rmDangling]
/-! ### marker files -/

theorem fexists_succ (fs : FS) (d : Nat) : ∀ f n s, fexists fs d f n s = true → fexists fs d (f + 1) n s = true := by
  intro f
  induction f with
  | zero => intro n s h; simp [fexists] at h
  | succ f ih =>
    intro n s h
    unfold fexists at h ⊢
    cases hf : fs d n s with
    | none => simp [hf] at h
    | some m =>
      cases m with
      | real => rfl
      | alias m => simp only [hf] at h ⊢; exact ih m s h

theorem fexists_mono (fs : FS) (d : Nat) {f f' : Nat} (hf : f ≤ f') {n s : Nat} (h : fexists fs d f n s = true) :
    fexists fs d f' n s = true := by
  induction hf with
  | refl => exact h
  | step _ ih => exact fexists_succ fs d _ n s ih

/-- writing into an empty slot keeps every file that exists. -/
theorem fexists_updF_none (fs : FS) (d n s : Nat) (v : Option MFile) (hempty : fs d n s = none) (d' : Nat) :
    ∀ f m s', fexists fs d' f m s' = true → fexists (updF fs d n s v) d' f m s' = true := by
  intro f
  induction f with
  | zero => intro m s' h; simp [fexists] at h
  | succ f ih =>
    intro m s' h
    unfold fexists at h ⊢
    have hslot : updF fs d n s v d' m s' = fs d' m s' := by
      unfold updF
      split
      · rename_i hc
        obtain ⟨h1, h2, h3⟩ := hc
        subst h1; subst h2; subst h3
        rw [hempty] at h; simp at h
      · rfl
    rw [hslot]
    cases hf : fs d' m s' with
    | none => simp [hf] at h
    | some x =>
      cases x with
      | real => rfl
      | alias m2 => simp only [hf] at h ⊢; exact ih m2 s' h

theorem aliasOne_empty {old new d s : Nat} {fs : FS}
    (hc : aliasCond (old != new) (fexists fs d depth old s) (fexists fs d depth new s) (fIsLink fs d new s) = true) :
    fs d new s = none := by
  simp only [aliasCond, Bool.and_eq_true, Bool.not_eq_true'] at hc
  obtain ⟨⟨⟨_, _⟩, hne⟩, hnl⟩ := hc
  cases hf : fs d new s with
  | none => rfl
  | some x =>
    cases x with
    | real => simp [fexists, depth, hf] at hne
    | alias m => simp [fIsLink, hf] at hnl

/-- `alias_job_files` never hides a file: what exists (through aliases) before exists afterwards. -/
theorem aliasOne_mono (old new d : Nat) (fs : FS) (s : Nat) (d' f m s' : Nat) (h : fexists fs d' f m s' = true) :
    fexists (aliasOne old new d fs s) d' f m s' = true := by
  unfold aliasOne
  split
  · rename_i hc
    exact fexists_updF_none fs d new s _ (aliasOne_empty hc) d' f m s' h
  · exact h

theorem aliasFiles_mono (old new d : Nat) (fs : FS) (d' f m s' : Nat) (h : fexists fs d' f m s' = true) :
    fexists (aliasFiles old new d fs) d' f m s' = true := by
  simp only [aliasFiles, List.foldl_cons, List.foldl_nil]
  exact aliasOne_mono _ _ _ _ _ _ _ _ _ (aliasOne_mono _ _ _ _ _ _ _ _ _ (aliasOne_mono _ _ _ _ _ _ _ _ _ h))

/-- after `alias_job_files` the `.done` marker is visible under the new name — when it exists under the old name
    through fewer than 40 aliases and no dangling alias squats the new name. -/
theorem aliasFiles_done (old new d : Nat) (fs : FS) (hold : fexists fs d (depth - 1) old 0 = true)
    (hnd : fIsLink fs d new 0 = true → fexists fs d depth new 0 = true) :
    fexists (aliasFiles old new d fs) d depth new 0 = true := by
  simp only [aliasFiles, List.foldl_cons, List.foldl_nil]
  apply aliasOne_mono
  apply aliasOne_mono
  unfold aliasOne
  split
  · rename_i hc
    have hempty := aliasOne_empty hc
    have h1 := fexists_updF_none fs d new 0 (some (.alias old)) hempty d (depth - 1) old 0 hold
    show fexists (updF fs d new 0 (some (.alias old))) d (40 + 1) new 0 = true
    unfold fexists
    simp only [updF, and_self, if_true]
    exact h1
  · rename_i hc
    simp only [aliasCond, Bool.and_eq_true, Bool.not_eq_true', not_and, Bool.not_eq_false] at hc
    by_cases hon : old = new
    · subst hon; exact fexists_mono fs d (by decide) hold
    · have hsrc : fexists fs d depth old 0 = true := fexists_mono fs d (by decide) hold
      by_cases hex : fexists fs d depth new 0 = true
      · exact hex
      · have := hc ⟨⟨by simpa using hon, hsrc⟩, by simpa using hex⟩
        exact hnd this

/-! ### whole runs with marker files -/

theorem foldl_step2F_fst (fx cl : Bool) (nm : Nat → Nat) (ks : List Key) : ∀ s : Tree × FS,
    (ks.foldl (step2F fx cl nm) s).1 = ks.foldl (step2 fx cl) s.1 := by
  induction ks with
  | nil => intro s; rfl
  | cons a ks ih => intro s; simp only [List.foldl_cons]; rw [ih, step2F_fst]

theorem fixTreeF_fst (fx cl : Bool) (nm : Nat → Nat) (ks1 ks2 : List Key) (s : Tree × FS) :
    (fixTreeF fx cl nm ks1 ks2 s).1 = fixTree fx cl ks1 ks2 s.1 := by
  simp only [fixTreeF, fixTree, foldl_step2F_fst]

theorem applyEff_mono (nm : Nat → Nat) (k nk : Key) (d : Nat) (s : Tree × FS) (e : Eff) (d' f m s' : Nat)
    (h : fexists s.2 d' f m s' = true) : fexists (applyEff nm k nk d s e).2 d' f m s' = true := by
  cases e <;> simp only [applyEff]
  all_goals try exact h
  · split
    · exact aliasFiles_mono _ _ _ _ _ _ _ _ h
    · exact h
  · exact aliasFiles_mono _ _ _ _ _ _ _ _ h

theorem foldl_applyEff_mono (nm : Nat → Nat) (k nk : Key) (d : Nat) (d' f m s' : Nat) : ∀ (es : List Eff) (s : Tree × FS),
    fexists s.2 d' f m s' = true → fexists (es.foldl (applyEff nm k nk d) s).2 d' f m s' = true := by
  intro es
  induction es with
  | nil => intro s h; exact h
  | cons e es ih => intro s h; exact ih _ (applyEff_mono nm k nk d s e d' f m s' h)

/-- the repair never hides a marker file. -/
theorem step2F_mono (fx cl : Bool) (nm : Nat → Nat) (s : Tree × FS) (k : Key) (d' f m s' : Nat)
    (h : fexists s.2 d' f m s' = true) : fexists (step2F fx cl nm s k).2 d' f m s' = true := by
  unfold step2F
  split
  · exact foldl_applyEff_mono nm k _ _ d' f m s' _ s h
  · exact h

theorem foldl_step2F_mono (fx cl : Bool) (nm : Nat → Nat) (d' f m s' : Nat) : ∀ (ks : List Key) (s : Tree × FS),
    fexists s.2 d' f m s' = true → fexists (ks.foldl (step2F fx cl nm) s).2 d' f m s' = true := by
  intro ks
  induction ks with
  | nil => intro s h; exact h
  | cons a ks ih => intro s h; exact ih _ (step2F_mono fx cl nm s a d' f m s' h)

/-- the step on the directory itself, when nothing else claims its new location: its marker files are aliased. -/
theorem step2F_snd_at (cl : Bool) (nm : Nat → Nat) (t : Tree) (fs : FS) (k : Key) (d : Nat) (nk : Key)
    (hk : t k = some (.dir d (.ok nk))) (hne : nk.2 ≠ k.2) (hu : Unclaimed k nk t) :
    (step2F true cl nm (t, fs) k).2 = aliasFiles (nm k.1) (nm nk.1) d fs := by
  simp only [step2F, hk]
  rcases hu.1 with h0 | h0
  · have hr : resolve t depth nk = none := resolve_at_none h0 depth
    have hl : isLink t nk = false := by simp [isLink, h0]
    cases cl <;> simp [action, observe, hne, hr, hl, applyEff]
  · have hr : resolve t depth nk = some k := by
      rw [show depth = 40 + 1 from rfl, resolve_at_link h0, show 40 = 39 + 1 from rfl, resolve_at_dir hk]
    have hl : isLink t nk = true := by simp [isLink, h0]
    simp [action, observe, hne, hr, hl, applyEff, dataAt, hk]
end XpmVerif.Deprecated
