import XpmVerif.Model.Sched
/-! Proofs for C08 (token capacity) over the scheduler model `Model/Sched.lean`.

    Invariant `InvA ar s N` (= `GInv ar s N none`; `Inv s N := InvA false s N`), preserved by every event for ANY
    flags (`ar = true` is allowed when `fl.abortReleases = true` and adds: `pc = lockExitAbort → held = []`):
    * per job `j` (`KJ`): the number of `start j` / `wake j` / `resume j`+helper-thread continuations pending
      is exactly the one its `pc` calls for (one coroutine, one continuation); `held ≠ [] → pc ∈
      {lockExitAbort, lockExitRun, codeWait}`; `pc ∈ {lockExitRun, codeWait} → held = range deps.length`;
      `state = running → pc ∈ {lockExitRun, codeWait}`;
    * indices `≥ N` (`N ≤ s.n`) are untouched (`pc = none`);
    * `CapC`: `avail t + Σ_{j<n} heldTok (jobs j) t = total t` and `0 ≤ avail t` for every `t`.
    While a callback of job `j` runs, `GInv s N (some (j, e1, e2))` holds: `j` has no registered continuation
    (`KF`), every other job satisfies `KJ`. -/
namespace XpmVerif.Sched

def tokCount (o : Origin) (t : Nat) : Nat :=
  match o with
  | .tok t' c => if t' = t then c else 0
  | .job _ => 0

def sumTok (deps : List Dep) (ds : List Nat) (t : Nat) : Nat :=
  (ds.map (fun d => tokCount (deps.getD d default).origin t)).sum

def heldTok (jb : Job) (t : Nat) : Nat := sumTok jb.deps jb.held t

def request (jb : Job) (t : Nat) : Nat := (jb.deps.map (fun d => tokCount d.origin t)).sum

def sumTo : Nat → (Nat → Nat) → Nat
  | 0, _ => 0
  | n + 1, f => sumTo n f + f n

theorem sumTo_congr {n : Nat} {f g : Nat → Nat} (h : ∀ i, i < n → f i = g i) : sumTo n f = sumTo n g := by
  induction n with
  | zero => rfl
  | succ n ih =>
    simp only [sumTo]
    rw [ih (fun i hi => h i (by omega)), h n (by omega)]

theorem sumTo_upd {n : Nat} {f : Nat → Nat} {j : Nat} {v : Nat} (hj : j < n) :
    sumTo n (upd f j v) + f j = sumTo n f + v := by
  induction n with
  | zero => omega
  | succ n ih =>
    simp only [sumTo]
    by_cases h : j = n
    · subst h
      have : sumTo j (upd f j v) = sumTo j f := sumTo_congr (fun i hi => by simp [upd]; omega)
      simp [this, upd]; omega
    · have := ih (by omega)
      have h2 : upd f j v n = f n := by simp [upd]; omega
      omega

theorem sumTo_le {n : Nat} {f g : Nat → Nat} (h : ∀ i, i < n → f i ≤ g i) : sumTo n f ≤ sumTo n g := by
  induction n with
  | zero => simp [sumTo]
  | succ n ih =>
    simp only [sumTo]
    have := ih (fun i hi => h i (by omega))
    have := h n (by omega)
    omega

theorem sumTok_range (deps : List Dep) (t : Nat) :
    sumTok deps (List.range deps.length) t = (deps.map (fun d => tokCount d.origin t)).sum := by
  unfold sumTok
  congr 1
  apply List.ext_getElem
  · simp
  · intro i h1 h2
    simp at h1
    simp [List.getD, h1]

theorem sumTok_append (deps : List Dep) (a b : List Nat) (t : Nat) :
    sumTok deps (a ++ b) t = sumTok deps a t + sumTok deps b t := by
  simp [sumTok]

theorem sumTok_congr {deps deps' : List Dep} (h : deps'.map (·.origin) = deps.map (·.origin)) (ds : List Nat) (t : Nat) :
    sumTok deps' ds t = sumTok deps ds t := by
  unfold sumTok
  congr 1
  apply List.map_congr_left
  intro d _
  have : (deps'.getD d default).origin = (deps.getD d default).origin := by
    have h1 : (deps'.map (·.origin)).getD d default = (deps.map (·.origin)).getD d default := by rw [h]
    simp only [List.getD, List.getElem?_map] at h1 ⊢
    have hd : (default : Dep).origin = (default : Origin) := rfl
    cases h2 : deps'[d]? <;> cases h3 : deps[d]? <;> simp_all
  rw [this]

/-! ### counting pending continuations -/
def nS (l : List Cb) (j : Nat) : Nat := l.countP (fun cb => decide (cb = .start j))
def nW (l : List Cb) (j : Nat) : Nat := l.countP (fun cb => decide (cb = .wake j))
def nR (l : List Cb) (j : Nat) : Nat := l.countP (fun cb => decide (cb = .resume j))
def nT (l : List (TK × Nat)) (j : Nat) : Nat := l.countP (fun p => decide (p.2 = j))

@[simp] theorem nS_nil (j) : nS [] j = 0 := rfl
@[simp] theorem nW_nil (j) : nW [] j = 0 := rfl
@[simp] theorem nR_nil (j) : nR [] j = 0 := rfl
@[simp] theorem nT_nil (j) : nT [] j = 0 := rfl
@[simp] theorem nS_cons (c l j) : nS (c :: l) j = nS l j + if c = .start j then 1 else 0 := by
  simp [nS, List.countP_cons]
@[simp] theorem nW_cons (c l j) : nW (c :: l) j = nW l j + if c = .wake j then 1 else 0 := by
  simp [nW, List.countP_cons]
@[simp] theorem nR_cons (c l j) : nR (c :: l) j = nR l j + if c = .resume j then 1 else 0 := by
  simp [nR, List.countP_cons]
@[simp] theorem nT_cons (c l j) : nT (c :: l) j = nT l j + if c.2 = j then 1 else 0 := by
  simp [nT, List.countP_cons]
@[simp] theorem nS_append (a b j) : nS (a ++ b) j = nS a j + nS b j := by simp [nS]
@[simp] theorem nW_append (a b j) : nW (a ++ b) j = nW a j + nW b j := by simp [nW]
@[simp] theorem nR_append (a b j) : nR (a ++ b) j = nR a j + nR b j := by simp [nR]
@[simp] theorem nT_append (a b j) : nT (a ++ b) j = nT a j + nT b j := by simp [nT]

/-- callbacks that are not a continuation of a job coroutine. -/
def Cb.inert : Cb → Bool
  | .start _ | .wake _ | .resume _ => false
  | _ => true

theorem nS_inert {l : List Cb} (h : ∀ cb ∈ l, cb.inert = true) (j : Nat) : nS l j = 0 := by
  induction l with
  | nil => rfl
  | cons c l ih =>
    have := h c (by simp)
    simp [ih (fun cb hcb => h cb (by simp [hcb]))]
    intro hc; subst hc; simp [Cb.inert] at this
theorem nW_inert {l : List Cb} (h : ∀ cb ∈ l, cb.inert = true) (j : Nat) : nW l j = 0 := by
  induction l with
  | nil => rfl
  | cons c l ih =>
    have := h c (by simp)
    simp [ih (fun cb hcb => h cb (by simp [hcb]))]
    intro hc; subst hc; simp [Cb.inert] at this
theorem nR_inert {l : List Cb} (h : ∀ cb ∈ l, cb.inert = true) (j : Nat) : nR l j = 0 := by
  induction l with
  | nil => rfl
  | cons c l ih =>
    have := h c (by simp)
    simp [ih (fun cb hcb => h cb (by simp [hcb]))]
    intro hc; subst hc; simp [Cb.inert] at this

theorem nT_eraseIdx (l : List (TK × Nat)) (k : Nat) (a : TK) (i j : Nat) (h : l[k]? = some (a, i)) :
    nT (l.eraseIdx k) j + (if i = j then 1 else 0) = nT l j := by
  induction l generalizing k with
  | nil => simp at h
  | cons c l ih =>
    cases k with
    | zero => simp at h; subst h; simp
    | succ k =>
      simp at h
      have := ih k h
      simp [List.eraseIdx]; omega

/-! ### per-job control-flow facts -/
def PC.res : PC → Bool
  | .lockEnter | .lockExitAbort | .lockExitRun | .codeWait | .doneHandler => true
  | _ => false
def PC.holds : PC → Bool
  | .lockExitAbort | .lockExitRun | .codeWait => true
  | _ => false
def PC.run : PC → Bool
  | .lockExitRun | .codeWait => true
  | _ => false

/-- job record `jb` is consistent with `cs`/`cw`/`cr` pending start/wake/resume continuations. -/
def KJ (ar : Bool) (jb : Job) (cs cw cr : Nat) : Prop :=
  cs = (if jb.pc = .created then 1 else 0) ∧
  cw = (if jb.pc = .evtWait ∧ jb.sleeping = false then 1 else 0) ∧
  cr = (if jb.pc.res then 1 else 0) ∧
  (jb.sleeping = true → jb.pc = .evtWait) ∧
  (jb.held ≠ [] → jb.pc.holds = true) ∧
  (jb.pc.run = true → jb.held = List.range jb.deps.length) ∧
  (jb.state = .running → jb.pc.run = true) ∧
  (ar = true → jb.pc = .lockExitAbort → jb.held = [])

/-- job whose continuation is being executed (its `pc` is stale). -/
def KF (e1 e2 : Bool) (jb : Job) (cs cw cr : Nat) : Prop :=
  cs = 0 ∧ cw = 0 ∧ cr = 0 ∧ jb.sleeping = false ∧ jb.pc ≠ .none ∧
  (e1 = true → jb.state ≠ .running) ∧ (e2 = true → jb.held = [])

variable {ar : Bool}

theorem depChanged_held (fl jb d st) : (depChanged fl jb d st).1.held = jb.held := by
  unfold depChanged eventSet; simp only []; repeat' split
  all_goals rfl
theorem depChanged_pc (fl jb d st) : (depChanged fl jb d st).1.pc = jb.pc := by
  unfold depChanged eventSet; simp only []; repeat' split
  all_goals rfl

theorem set_cur_origins (l : List Dep) (d : Nat) (st : DS) :
    (l.set d { (l.getD d default) with cur := st }).map (·.origin) = l.map (·.origin) := by
  apply List.ext_getElem
  · simp
  · intro i h1 h2
    simp at h1
    simp [List.getElem_set]
    intro h; subst h; simp [h1]

theorem depChanged_origins (fl jb d st) :
    (depChanged fl jb d st).1.deps.map (·.origin) = jb.deps.map (·.origin) := by
  unfold depChanged eventSet; simp only []; repeat' split
  all_goals first | rfl | exact set_cur_origins _ _ _

theorem depChanged_len (fl jb d st) : (depChanged fl jb d st).1.deps.length = jb.deps.length := by
  have := congrArg List.length (depChanged_origins fl jb d st)
  simpa using this

theorem depChanged_state (fl jb d st) :
    (depChanged fl jb d st).1.state = jb.state ∨ (depChanged fl jb d st).1.state ≠ .running := by
  unfold depChanged eventSet; simp only []; repeat' split
  all_goals simp_all

theorem depChanged_sl (fl jb d st) :
    ((depChanged fl jb d st).2 = true → jb.sleeping = true ∧ (depChanged fl jb d st).1.sleeping = false) ∧
    ((depChanged fl jb d st).2 = false → (depChanged fl jb d st).1.sleeping = jb.sleeping) := by
  unfold depChanged eventSet; simp only []; repeat' split
  all_goals simp_all

theorem depChanged_KJ (fl jb d st cs cw cr) (h : KJ ar jb cs cw cr) :
    KJ ar (depChanged fl jb d st).1 cs (cw + if (depChanged fl jb d st).2 = true then 1 else 0) cr := by
  have hl := depChanged_len fl jb d st
  have hh := depChanged_held fl jb d st
  have hp := depChanged_pc fl jb d st
  have hs := depChanged_state fl jb d st
  have hz := depChanged_sl fl jb d st
  unfold KJ at *
  rw [hl, hh, hp]
  generalize (depChanged fl jb d st) = r at *
  obtain ⟨h1, h2, h3, h4, h5, h6, h7, h8⟩ := h
  refine ⟨h1, ?_, h3, ?_, h5, h6, ?_, h8⟩
  · cases hw : r.2 <;> simp_all
  · cases hw : r.2 <;> simp_all
  · rcases hs with hs | hs
    · rw [hs]; exact h7
    · intro h; exact absurd h hs

theorem depChanged_KF (fl jb d st e2 cs cw cr) (h : KF true e2 jb cs cw cr) :
    KF true e2 (depChanged fl jb d st).1 cs cw cr ∧ (depChanged fl jb d st).2 = false := by
  have hh := depChanged_held fl jb d st
  have hp := depChanged_pc fl jb d st
  have hs := depChanged_state fl jb d st
  have hz := depChanged_sl fl jb d st
  unfold KF at *
  rw [hh, hp]
  generalize (depChanged fl jb d st) = r at *
  obtain ⟨h1, h2, h3, h4, h5, h6, h7⟩ := h
  have hw : r.2 = false := by
    cases hw : r.2
    · rfl
    · simp_all
  refine ⟨⟨h1, h2, h3, ?_, h5, ?_, h7⟩, hw⟩
  · simp_all
  · intro _
    rcases hs with hs | hs
    · rw [hs]; exact h6 rfl
    · exact hs

/-! ### the recursive lock helpers in closed form -/
@[simp] theorem upd_same {α} (f : Nat → α) (j : Nat) (v : α) : upd f j v j = v := by simp [upd]
theorem upd_other {α} (f : Nat → α) (j : Nat) (v : α) (i : Nat) (h : i ≠ j) : upd f j v i = f i := by simp [upd, h]
@[simp] theorem upd_upd {α} (f : Nat → α) (j : Nat) (v w : α) : upd (upd f j v) j w = upd f j w := by
  funext i; by_cases h : i = j <;> simp [upd, h]
@[simp] theorem upd_self {α} (f : Nat → α) (j : Nat) : upd f j (f j) = f := by
  funext i; by_cases h : i = j <;> simp [upd, h]

theorem sumTok_cons (deps : List Dep) (d : Nat) (ds : List Nat) (t : Nat) :
    sumTok deps (d :: ds) t = tokCount (deps.getD d default).origin t + sumTok deps ds t := by
  simp [sumTok]
@[simp] theorem sumTok_nil (deps : List Dep) (t : Nat) : sumTok deps [] t = 0 := rfl
@[simp] theorem tokCount_job (o t : Nat) : tokCount (.job o) t = 0 := rfl

theorem releaseAll_eq (s : St) (j : Nat) (ds : List Nat) :
    ∃ notes : List Cb, (∀ cb ∈ notes, cb.inert = true) ∧
      s.releaseAll j ds =
        ({ s with avail := fun t => s.avail t + (sumTok (s.jobs j).deps ds t : Nat),
                  ready := s.ready ++ notes }).put j { (s.jobs j) with held := [] } := by
  induction ds generalizing s with
  | nil => exact ⟨[], by simp, by simp [St.releaseAll, St.put]⟩
  | cons d ds ih =>
    unfold St.releaseAll
    split
    · next o ho =>
      obtain ⟨notes, hn, he⟩ := ih s
      refine ⟨notes, hn, ?_⟩
      rw [he]
      have : (fun t => s.avail t + (sumTok (s.jobs j).deps (d :: ds) t : Nat)) =
             (fun t => s.avail t + (sumTok (s.jobs j).deps ds t : Nat)) := by
        funext t; rw [sumTok_cons, ho]; simp
      rw [this]
    · next t c ho =>
      let nt : List Cb := (s.tokDeps t).map (fun (p : Nat × Nat) => Cb.notifyCheck p.1 p.2)
      let s1 : St := { s with avail := upd s.avail t (s.avail t + c), ready := s.ready ++ nt }
      obtain ⟨notes, hn, he⟩ := ih s1
      refine ⟨nt ++ notes, ?_, ?_⟩
      · intro cb hcb
        simp [nt] at hcb
        rcases hcb with ⟨a, b, _, rfl⟩ | hcb
        · rfl
        · exact hn cb hcb
      · show s1.releaseAll j ds = _
        rw [he]
        have : (fun t' => s1.avail t' + (sumTok (s1.jobs j).deps ds t' : Nat)) =
             (fun t' => s.avail t' + (sumTok (s.jobs j).deps (d :: ds) t' : Nat)) := by
          funext t'
          show upd s.avail t (s.avail t + c) t' + (sumTok (s.jobs j).deps ds t' : Nat) = _
          rw [sumTok_cons, ho]
          simp only [tokCount, upd]
          by_cases h : t' = t
          · subst h; simp; omega
          · have h' : ¬ t = t' := fun e => h e.symm
            simp [h, h']
        rw [this]
        simp [s1, St.put]

theorem acquireAll_eq (s : St) (j k d : Nat) :
    ∃ (acq : List Nat) (av' : Nat → Int),
      (s.acquireAll j k d).1 =
        ({ s with avail := av' }).put j { (s.jobs j) with held := (s.jobs j).held ++ acq } ∧
      (∀ t, av' t + (sumTok (s.jobs j).deps acq t : Nat) = s.avail t) ∧
      ((∀ t, 0 ≤ s.avail t) → ∀ t, 0 ≤ av' t) ∧
      ((s.acquireAll j k d).2 = none → acq = List.range' d k) := by
  induction k generalizing s d with
  | zero => exact ⟨[], s.avail, by simp [St.acquireAll, St.put], by simp, fun h => h, by simp⟩
  | succ k ih =>
    unfold St.acquireAll
    simp only []
    split
    · next o ho =>
      let s1 : St := s.put j { (s.jobs j) with held := (s.jobs j).held ++ [d] }
      obtain ⟨acq, av', he, h1, h2, h3⟩ := ih s1 (d + 1)
      refine ⟨d :: acq, av', ?_, ?_, h2, ?_⟩
      · show (s1.acquireAll j k (d + 1)).1 = _
        rw [he]; simp [s1, St.put]
      · intro t
        have := h1 t
        simp only [s1, St.put, upd_same] at this
        rw [sumTok_cons, ho]; simp; exact this
      · intro hn
        show d :: acq = List.range' d (k + 1)
        rw [h3 hn]; rfl
    · next t c ho =>
      split
      · exact ⟨[], s.avail, by simp [St.put], by simp, fun h => h, by simp⟩
      · next hlt =>
        let s1 : St := ({ s with avail := upd s.avail t (s.avail t - c) }).put j { (s.jobs j) with held := (s.jobs j).held ++ [d] }
        obtain ⟨acq, av', he, h1, h2, h3⟩ := ih s1 (d + 1)
        refine ⟨d :: acq, av', ?_, ?_, ?_, ?_⟩
        · show (s1.acquireAll j k (d + 1)).1 = _
          rw [he]; simp [s1, St.put]
        · intro t'
          have := h1 t'
          simp only [s1, St.put, upd_same] at this
          rw [sumTok_cons, ho]
          simp only [tokCount, upd] at this ⊢
          by_cases h : t' = t
          · subst h; simp at this ⊢; omega
          · have h' : ¬ t = t' := fun e => h e.symm
            simp [h, h'] at this ⊢; exact this
        · intro hp
          apply h2
          intro t'
          simp only [s1, St.put, upd]
          split
          · omega
          · exact hp t'
        · intro hn
          show d :: acq = List.range' d (k + 1)
          rw [h3 hn]; rfl

/-! ### the state invariant -/
/-- per-job predicate: the job named by the mode `m` is in flight, every other job is at rest. -/
def PJ (ar : Bool) (m : Option (Nat × Bool × Bool)) (j : Nat) (jb : Job) (cs cw cr : Nat) : Prop :=
  match m with
  | some (j0, e1, e2) => if j = j0 then KF e1 e2 jb cs cw cr else KJ ar jb cs cw cr
  | none => KJ ar jb cs cw cr

def CapC (n : Nat) (jobs : Nat → Job) (avail : Nat → Int) (total : Nat → Nat) : Prop :=
  ∀ t, avail t + (sumTo n (fun j => heldTok (jobs j) t) : Nat) = (total t : Int) ∧ 0 ≤ avail t

def GI (ar : Bool) (n : Nat) (jobs : Nat → Job) (ready : List Cb) (threads : List (TK × Nat)) (avail : Nat → Int)
    (total : Nat → Nat) (N : Nat) (m : Option (Nat × Bool × Bool)) : Prop :=
  (∀ j, PJ ar m j (jobs j) (nS ready j) (nW ready j) (nR ready j + nT threads j)) ∧
  (∀ j, N ≤ j → (jobs j).pc = .none) ∧ N ≤ n ∧ CapC n jobs avail total

def GInv (ar : Bool) (s : St) (N : Nat) (m : Option (Nat × Bool × Bool)) : Prop :=
  GI ar s.n s.jobs s.ready s.threads s.avail s.total N m

theorem CapC_same {n jobs avail total} (j : Nat) (jb' : Job)
    (hh : ∀ t, heldTok jb' t = heldTok (jobs j) t) (h : CapC n jobs avail total) :
    CapC n (upd jobs j jb') avail total := by
  intro t
  have : sumTo n (fun i => heldTok (upd jobs j jb' i) t) = sumTo n (fun i => heldTok (jobs i) t) := by
    apply sumTo_congr; intro i _
    by_cases hi : i = j
    · subst hi; simp [hh]
    · simp [upd, hi]
  rw [this]; exact h t

theorem CapC_move {n jobs avail total} (j : Nat) (jb' : Job) (avail' : Nat → Int) (hj : j < n)
    (hh : ∀ t, avail' t + (heldTok jb' t : Nat) = avail t + (heldTok (jobs j) t : Nat))
    (hp : ∀ t, 0 ≤ avail' t) (h : CapC n jobs avail total) :
    CapC n (upd jobs j jb') avail' total := by
  intro t
  have h1 := sumTo_upd (f := fun i => heldTok (jobs i) t) (j := j) (v := heldTok jb' t) hj
  have h2 : sumTo n (fun i => heldTok (upd jobs j jb' i) t) = sumTo n (upd (fun i => heldTok (jobs i) t) j (heldTok jb' t)) := by
    apply sumTo_congr; intro i _
    by_cases hi : i = j
    · subst hi; simp
    · simp [upd, hi]
  rw [h2]
  have := h t; have := hh t; have := hp t
  omega

theorem heldTok_eq {jb jb' : Job} (hh : jb'.held = jb.held) (ho : jb'.deps.map (·.origin) = jb.deps.map (·.origin)) (t : Nat) :
    heldTok jb' t = heldTok jb t := by
  unfold heldTok; rw [hh]; exact sumTok_congr ho _ _

theorem GI_upd {n jobs ready threads avail total N m} (h : GI ar n jobs ready threads avail total N m)
    (m' : Option (Nat × Bool × Bool)) (j : Nat) (jb' : Job) (cbs : List Cb) (ths : List (TK × Nat)) (avail' : Nat → Int)
    (hpc : N ≤ j → jb'.pc = .none)
    (hother : ∀ i, i ≠ j → nS cbs i = 0 ∧ nW cbs i = 0 ∧ nR cbs i = 0 ∧ nT ths i = 0)
    (hm : ∀ i, i ≠ j → ∀ jb a b c, PJ ar m i jb a b c → PJ ar m' i jb a b c)
    (hj : PJ ar m' j jb' (nS ready j + nS cbs j) (nW ready j + nW cbs j) (nR ready j + nR cbs j + (nT threads j + nT ths j)))
    (hcap : CapC n (upd jobs j jb') avail' total) :
    GI ar n (upd jobs j jb') (ready ++ cbs) (threads ++ ths) avail' total N m' := by
  obtain ⟨h1, h2, h3, _⟩ := h
  refine ⟨?_, ?_, h3, hcap⟩
  · intro i
    by_cases hi : i = j
    · subst hi; simpa using hj
    · obtain ⟨a, b, c, d⟩ := hother i hi
      simp [upd, hi, a, b, c, d]
      exact hm i hi _ _ _ _ (h1 i)
  · intro i hN
    by_cases hi : i = j
    · subst hi; simpa using hpc hN
    · simp [upd, hi]; exact h2 i hN

theorem PJ_cases {m j jb a b c} (h : PJ ar m j jb a b c) :
    (KJ ar jb a b c ∧ ∀ jb' a' b' c', KJ ar jb' a' b' c' → PJ ar m j jb' a' b' c') ∨
    (∃ e1 e2, KF e1 e2 jb a b c ∧ m = some (j, e1, e2) ∧ ∀ jb' a' b' c', KF e1 e2 jb' a' b' c' → PJ ar m j jb' a' b' c') := by
  unfold PJ at h
  split at h
  · next j0 e1 e2 =>
    split at h
    · next hj => subst hj; right; exact ⟨e1, e2, h, rfl, fun _ _ _ _ h' => by simp [PJ, h']⟩
    · next hj => left; exact ⟨h, fun _ _ _ _ h' => by simp [PJ, hj, h']⟩
  · left; exact ⟨h, fun _ _ _ _ h' => by simp [PJ, h']⟩

theorem check_eq (fl : Flags) (s : St) (j d : Nat) :
    s.check fl j d = s.put j (depChanged fl (s.jobs j) d (s.status ((s.jobs j).deps.getD d default).origin)).1
      (if (depChanged fl (s.jobs j) d (s.status ((s.jobs j).deps.getD d default).origin)).2 = true then [.wake j] else []) := rfl

theorem check_GInv {fl s N m} (j d : Nat) (h : GInv ar s N m) (hm : ∀ j0 e1 e2, m = some (j0, e1, e2) → e1 = true) :
    GInv ar (s.check fl j d) N m := by
  rw [check_eq]
  generalize (s.status ((s.jobs j).deps.getD d default).origin) = st
  have hpc := depChanged_pc fl (s.jobs j) d st
  have hheld := depChanged_held fl (s.jobs j) d st
  have hor := depChanged_origins fl (s.jobs j) d st
  refine GI_upd h m j _ _ [] s.avail ?_ ?_ (fun _ _ _ _ _ _ h => h) ?_ ?_
  · intro hN; rw [hpc]; exact h.2.1 j hN
  · intro i hi
    have : ¬ (j = i) := fun e => hi e.symm
    split <;> simp [this]
  · rcases PJ_cases (h.1 j) with ⟨hk, hb⟩ | ⟨e1, e2, hk, hme, hb⟩
    · apply hb
      have := depChanged_KJ fl _ d st _ _ _ hk
      split <;> simp_all
    · have he1 := hm _ _ _ hme; subst he1
      apply hb
      have := depChanged_KF fl _ d st _ _ _ _ hk
      simp [this.2]; exact this.1
  · exact CapC_same j _ (heldTok_eq hheld hor) h.2.2.2

theorem PJ_fly_other {j e1 e2 i jb a b c} (m' : Option (Nat × Bool × Bool)) (hm' : m' = none ∨ ∃ e1' e2', m' = some (j, e1', e2'))
    (hi : i ≠ j) (h : PJ ar (some (j, e1, e2)) i jb a b c) : PJ ar m' i jb a b c := by
  rcases hm' with rfl | ⟨e1', e2', rfl⟩ <;> simpa [PJ, hi] using h

theorem fly_fresh {s N j e1 e2} (h : GInv ar s N (some (j, e1, e2))) : ¬ N ≤ j := by
  intro hN
  have h1 := h.1 j
  have h2 := h.2.1 j hN
  simp [PJ, KF] at h1
  exact h1.2.2.2.2.1 h2

theorem fly_KF {s N j e1 e2} (h : GInv ar s N (some (j, e1, e2))) :
    KF e1 e2 (s.jobs j) 0 0 0 ∧ nS s.ready j = 0 ∧ nW s.ready j = 0 ∧ nR s.ready j = 0 ∧ nT s.threads j = 0 := by
  have h1 := h.1 j
  simp [PJ, KF] at h1 ⊢
  obtain ⟨a, b, c, d⟩ := h1
  exact ⟨d, a, b, c⟩

/-- the flying job lands: its record gets a fresh `pc` together with the matching continuation. -/
theorem land {s N j e1 e2} (h : GInv ar s N (some (j, e1, e2))) (jb' : Job) (cbs : List Cb) (ths : List (TK × Nat))
    (hheld : jb'.held = (s.jobs j).held) (hor : jb'.deps.map (·.origin) = (s.jobs j).deps.map (·.origin))
    (hother : ∀ i, i ≠ j → nS cbs i = 0 ∧ nW cbs i = 0 ∧ nR cbs i = 0 ∧ nT ths i = 0)
    (hK : KJ ar jb' (nS cbs j) (nW cbs j) (nR cbs j + nT ths j)) :
    GInv ar (s.put j jb' cbs ths) N none := by
  obtain ⟨_, a, b, c, d⟩ := fly_KF h
  refine GI_upd h none j jb' cbs ths s.avail (fun hN => absurd hN (fly_fresh h)) hother
    (fun i hi _ _ _ _ h' => PJ_fly_other none (Or.inl rfl) hi h') ?_ (CapC_same j _ (heldTok_eq hheld hor) h.2.2.2)
  simp [PJ, a, b, c, d]; exact hK

/-- the flying job stays in flight (no continuation registered). -/
theorem stay {s N j e1 e2} (h : GInv ar s N (some (j, e1, e2))) (e1' e2' : Bool) (jb' : Job) (cbs : List Cb)
    (hcbs : ∀ cb ∈ cbs, cb.inert = true)
    (hheld : jb'.held = (s.jobs j).held) (hor : jb'.deps.map (·.origin) = (s.jobs j).deps.map (·.origin))
    (hK : KF e1' e2' jb' 0 0 0) :
    GInv ar (s.put j jb' cbs) N (some (j, e1', e2')) := by
  obtain ⟨_, a, b, c, d⟩ := fly_KF h
  have i1 := nS_inert hcbs; have i2 := nW_inert hcbs; have i3 := nR_inert hcbs
  refine GI_upd h (some (j, e1', e2')) j jb' cbs [] s.avail (fun hN => absurd hN (fly_fresh h))
    (fun i _ => ⟨i1 i, i2 i, i3 i, rfl⟩)
    (fun i hi _ _ _ _ h' => PJ_fly_other _ (Or.inr ⟨_, _, rfl⟩) hi h') ?_ (CapC_same j _ (heldTok_eq hheld hor) h.2.2.2)
  simp [PJ, a, b, c, d, i1, i2, i3]; exact hK

theorem finish_GInv {s N j} (h : GInv ar s N (some (j, true, true))) : GInv ar (s.finish j) N none := by
  obtain ⟨hk, _⟩ := fly_KF h
  unfold St.finish
  simp only []
  have key : ∀ s' : St, GInv ar s' N (some (j, true, true)) → s'.jobs j = s.jobs j →
      GInv ar (s'.put j { (s.jobs j) with pc := .doneHandler } [] [(.doneH, j)]) N none := by
    intro s' h' hj
    refine land h' _ _ _ (by rw [hj]) (by rw [hj]) ?_ ?_
    · intro i hi; have : ¬ j = i := fun e => hi e.symm; simp [this]
    · simp [KF] at hk
      simp [KJ, PC.res, PC.holds, PC.run, hk]
  split
  · exact key _ h rfl
  · exact key _ h rfl

theorem loopHead_GInv {s N j} (h : GInv ar s N (some (j, true, true))) : GInv ar (s.loopHead j) N none := by
  obtain ⟨hk, _⟩ := fly_KF h
  simp [KF] at hk
  have hne : ∀ i, i ≠ j → ¬ j = i := fun i hi e => hi e.symm
  unfold St.loopHead
  simp only []
  split
  · exact finish_GInv h
  · split
    · split
      · refine land h _ _ _ rfl rfl ?_ ?_
        · intro i hi; simp [hne i hi]
        · simp [KJ, PC.res, PC.holds, PC.run, hk]
      · refine land h _ _ _ rfl rfl ?_ ?_
        · intro i hi; simp
        · simp [KJ, PC.res, PC.holds, PC.run, hk]
    · refine land h _ _ _ rfl rfl ?_ ?_
      · intro i hi; simp
      · simp [KJ, PC.res, PC.holds, PC.run, hk]

/-! ### taking a callback off the ready queue -/
theorem pop_inert {n jobs cb rest threads avail total N} (h : GI ar n jobs (cb :: rest) threads avail total N none)
    (hcb : cb.inert = true) : GI ar n jobs rest threads avail total N none := by
  refine ⟨fun i => ?_, h.2⟩
  have := h.1 i
  have a : nS [cb] i = 0 := nS_inert (by simpa using hcb) i
  have b : nW [cb] i = 0 := nW_inert (by simpa using hcb) i
  have c : nR [cb] i = 0 := nR_inert (by simpa using hcb) i
  simp at a b c
  simpa [PJ, a, b, c] using this

theorem pop_start {n jobs j rest threads avail total N} (h : GI ar n jobs (.start j :: rest) threads avail total N none) :
    GI ar n jobs rest threads avail total N (some (j, true, true)) ∧ (jobs j).pc = .created := by
  have hj := h.1 j
  simp [PJ, KJ] at hj
  obtain ⟨h1, h2, h3, h4, h5, h6, h7⟩ := hj
  have hpc : (jobs j).pc = .created := by
    by_cases hp : (jobs j).pc = .created
    · exact hp
    · simp [hp] at h1
  refine ⟨⟨fun i => ?_, h.2⟩, hpc⟩
  by_cases hi : i = j
  · subst hi
    simp [hpc, PC.res, PC.holds, PC.run] at h1 h2 h3 h4 h5 h6 h7
    simp [PJ, KF, hpc, h1, h2, h3, h4, h5, h7]
  · have := h.1 i
    have hne : ¬ j = i := fun e => hi e.symm
    simpa [PJ, hi, hne] using this

theorem pop_wake {n jobs j rest threads avail total N} (h : GI ar n jobs (.wake j :: rest) threads avail total N none) :
    GI ar n jobs rest threads avail total N (some (j, true, true)) ∧ (jobs j).pc = .evtWait := by
  have hj := h.1 j
  simp [PJ, KJ] at hj
  obtain ⟨h1, h2, h3, h4, h5, h6, h7⟩ := hj
  have hpc : (jobs j).pc = .evtWait ∧ (jobs j).sleeping = false := by
    by_cases hp : (jobs j).pc = .evtWait ∧ (jobs j).sleeping = false
    · exact hp
    · rw [if_neg hp] at h2; omega
  refine ⟨⟨fun i => ?_, h.2⟩, hpc.1⟩
  by_cases hi : i = j
  · subst hi
    simp [hpc, PC.res, PC.holds, PC.run] at h1 h2 h3 h4 h5 h6 h7
    simp [PJ, KF, hpc, h1, h2, h3, h5, h7]
  · have := h.1 i
    have hne : ¬ j = i := fun e => hi e.symm
    simpa [PJ, hi, hne] using this

theorem pop_resume {n jobs j rest threads avail total N} (h : GI ar n jobs (.resume j :: rest) threads avail total N none) :
    GI ar n jobs rest threads avail total N (some (j, false, false)) ∧ (jobs j).pc.res = true ∧
      ((jobs j).held ≠ [] → (jobs j).pc.holds = true) ∧
      ((jobs j).pc.run = true → (jobs j).held = List.range (jobs j).deps.length) ∧
      ((jobs j).state = .running → (jobs j).pc.run = true) := by
  have hj := h.1 j
  simp [PJ, KJ] at hj
  obtain ⟨h1, h2, h3, h4, h5, h6, h7, _⟩ := hj
  have hpc : (jobs j).pc.res = true := by
    by_cases hp : (jobs j).pc.res = true
    · exact hp
    · rw [if_neg hp] at h3; omega
  refine ⟨⟨fun i => ?_, h.2⟩, hpc, by simpa using h5, by simpa using h6, by simpa using h7⟩
  by_cases hi : i = j
  · subst hi
    have hs : (jobs i).sleeping = false := by
      cases hsl : (jobs i).sleeping
      · rfl
      · have := h4 hsl; rw [this] at hpc; simp [PC.res] at hpc
    have hc : (jobs i).pc ≠ .created := by intro e; rw [e] at hpc; simp [PC.res] at hpc
    have he : (jobs i).pc ≠ .evtWait := by intro e; rw [e] at hpc; simp [PC.res] at hpc
    have hn : (jobs i).pc ≠ .none := by intro e; rw [e] at hpc; simp [PC.res] at hpc
    simp [hpc, hc, he] at h1 h2 h3
    simp [PJ, KF, h1, h2, hs, hn]
    omega
  · have := h.1 i
    have hne : ¬ j = i := fun e => hi e.symm
    simpa [PJ, hi, hne] using this

/-! ### callbacks -/
theorem registerDeps_GInv {fl s N m} (j k d : Nat) (h : GInv ar s N m) (hm : ∀ j0 e1 e2, m = some (j0, e1, e2) → e1 = true) :
    GInv ar (St.registerDeps fl s j k d) N m := by
  induction k generalizing s d with
  | zero => exact h
  | succ k ih =>
    unfold St.registerDeps
    simp only []
    apply ih
    apply check_GInv _ _ _ hm
    split <;> exact h

theorem startJob_GInv {fl s N j} (h : GInv ar s N (some (j, true, true))) : GInv ar (s.startJob fl j) N none := by
  obtain ⟨hk, _⟩ := fly_KF h
  simp [KF] at hk
  unfold St.startJob
  simp only []
  apply loopHead_GInv
  have hm : ∀ j0 e1 e2, some (j, true, true) = some (j0, e1, e2) → e1 = true := by
    intro j0 e1 e2 e; simp at e; exact e.2.1
  have h1 : GInv ar (s.put j { (s.jobs j) with state := .waiting, event := false, sleeping := false }) N (some (j, true, true)) :=
    stay h true true _ [] (by simp) rfl rfl (by simp [KF, hk])
  have key : ∀ s2 : St, GInv ar s2 N (some (j, true, true)) →
      GInv ar (if (s2.jobs j).marker = true then s2.put j { (s2.jobs j) with state := .done } else s2) N (some (j, true, true)) := by
    intro s2 h2
    split
    · obtain ⟨hk2, _⟩ := fly_KF h2
      simp [KF] at hk2
      exact stay h2 true true _ [] (by simp) rfl rfl (by simp [KF, hk2])
    · exact h2
  apply key
  split
  · exact stay h1 true true _ [] (by simp) (by simp [St.put]) (by simp [St.put]) (by simp [KF, hk])
  · apply registerDeps_GInv _ _ _ _ hm
    exact stay h1 true true _ [] (by simp) (by simp [St.put]) (by simp [St.put]) (by simp [KF, hk])

theorem wake_GInv {fl s N j} (h : GInv ar s N (some (j, true, true))) : GInv ar (s.runCb fl (.wake j)) N none := by
  obtain ⟨hk, _⟩ := fly_KF h
  simp [KF] at hk
  have hne : ∀ i, i ≠ j → ¬ j = i := fun i hi e => hi e.symm
  unfold St.runCb
  simp only []
  split
  · refine land h _ _ _ rfl rfl ?_ ?_
    · intro i hi; simp [hne i hi]
    · simp [KJ, PC.res, PC.holds, PC.run, hk]
  · apply loopHead_GInv
    exact stay h true true _ [] (by simp) rfl rfl (by simp [KF, hk])

theorem eventSet_nosleep (jb : Job) (h : jb.sleeping = false) :
    (eventSet jb).2 = false ∧ (eventSet jb).1.sleeping = false ∧ (eventSet jb).1.held = jb.held ∧
    (eventSet jb).1.pc = jb.pc ∧ (eventSet jb).1.state = jb.state ∧ (eventSet jb).1.deps = jb.deps := by
  unfold eventSet; split
  · simp [h]
  · simp [h]

theorem GI_ready_inert {n jobs ready threads avail total N m} (h : GI ar n jobs ready threads avail total N m)
    (l : List Cb) (hl : ∀ cb ∈ l, cb.inert = true) : GI ar n jobs (ready ++ l) threads avail total N m := by
  refine ⟨fun i => ?_, h.2⟩
  simpa [nS_inert hl, nW_inert hl, nR_inert hl] using h.1 i

/-- releasing everything held by the flying job. -/
theorem releaseAll_GInv {s N j e1} (h : GInv ar s N (some (j, e1, false))) :
    GInv ar (s.releaseAll j (s.jobs j).held) N (some (j, e1, true)) ∧
    ((s.releaseAll j (s.jobs j).held).jobs j) = { (s.jobs j) with held := [] } := by
  obtain ⟨notes, hn, he⟩ := releaseAll_eq s j (s.jobs j).held
  rw [he]
  obtain ⟨hk, a, b, c, d⟩ := fly_KF h
  have i1 := nS_inert hn; have i2 := nW_inert hn; have i3 := nR_inert hn
  have hjn : j < s.n := by have := fly_fresh h; have := h.2.2.1; omega
  refine ⟨?_, by simp [St.put]⟩
  have g := GI_upd h (some (j, e1, true)) j { (s.jobs j) with held := [] } notes []
    (fun t => s.avail t + (sumTok (s.jobs j).deps (s.jobs j).held t : Nat)) (fun hN => absurd hN (fly_fresh h))
    (fun i _ => ⟨i1 i, i2 i, i3 i, rfl⟩)
    (fun i hi _ _ _ _ h' => PJ_fly_other _ (Or.inr ⟨_, _, rfl⟩) hi h')
  simp only [List.append_nil] at g
  unfold GInv St.put; simp only [List.append_nil]
  apply g
  · simp [KF] at hk
    simp [PJ, KF, a, b, c, d, i1, i2, i3, hk.1, hk.2.1]
    exact hk.2.2
  · apply CapC_move j _ _ hjn _ _ h.2.2.2
    · intro t; simp [heldTok]
    · intro t; have := (h.2.2.2 t).2; omega

theorem resume_abort_GInv {fl s N j} (h : GInv ar s N (some (j, false, false))) (hpc : (s.jobs j).pc = .lockExitAbort)
    (hst : (s.jobs j).state = .running → (s.jobs j).pc.run = true) : GInv ar (s.resume fl j) N none := by
  have hnr : (s.jobs j).state ≠ .running := by
    intro e; have := hst e; rw [hpc] at this; simp [PC.run] at this
  have h1 : GInv ar s N (some (j, true, false)) := by
    refine ⟨fun i => ?_, h.2⟩
    have := h.1 i
    by_cases hi : i = j
    · subst hi; simp [PJ, KF] at this ⊢; simp [this, hnr]
    · simpa [PJ, hi] using this
  obtain ⟨h2, hj⟩ := releaseAll_GInv h1
  unfold St.resume
  simp only [hpc]
  apply loopHead_GInv
  generalize s.releaseAll j (s.jobs j).held = s1 at h2 hj ⊢
  obtain ⟨hk, _⟩ := fly_KF h2
  simp [KF] at hk
  split
  · have := eventSet_nosleep { (s1.jobs j) with state := .ready } hk.1
    simp only [] at this
    obtain ⟨e1, e2, e3, e4, e5, e6⟩ := this
    rw [e1]
    refine stay h2 true true _ _ (by simp) (by rw [e3]) (by rw [e6]) ?_
    exact ⟨rfl, rfl, rfl, e2, by rw [e4]; exact hk.2.1, fun _ => by rw [e5]; simp, fun _ => by rw [e3]; exact hk.2.2.2⟩
  · exact stay h2 true true _ _ (by simp) rfl rfl (by simp [KF, hk])

theorem resume_code_GInv {fl s N j} (h : GInv ar s N (some (j, false, false))) (hpc : (s.jobs j).pc = .codeWait) :
    GInv ar (s.resume fl j) N none := by
  obtain ⟨h2, hj⟩ := releaseAll_GInv h
  unfold St.resume
  simp only [hpc]
  apply finish_GInv
  generalize s.releaseAll j (s.jobs j).held = s1 at h2 hj ⊢
  obtain ⟨hk, _⟩ := fly_KF h2
  simp [KF] at hk
  refine stay h2 true true _ _ (by simp) rfl rfl ?_
  simp [KF, hk]
  split <;> simp

theorem resume_run_GInv {fl s N j} (h : GInv ar s N (some (j, false, false))) (hpc : (s.jobs j).pc = .lockExitRun)
    (hrun : (s.jobs j).pc.run = true → (s.jobs j).held = List.range (s.jobs j).deps.length) :
    GInv ar (s.resume fl j) N none := by
  obtain ⟨hk, _⟩ := fly_KF h
  simp [KF] at hk
  have hne : ∀ i, i ≠ j → ¬ j = i := fun i hi e => hi e.symm
  have hr := hrun (by rw [hpc]; rfl)
  unfold St.resume
  simp only [hpc]
  refine land h _ _ _ rfl rfl ?_ ?_
  · intro i hi; simp [hne i hi]
  · simp [KJ, PC.res, PC.holds, PC.run, hk, hr]

theorem resume_done_GInv {fl s N j} (h : GInv ar s N (some (j, false, false))) (hpc : (s.jobs j).pc = .doneHandler)
    (hh : (s.jobs j).held ≠ [] → (s.jobs j).pc.holds = true)
    (hst : (s.jobs j).state = .running → (s.jobs j).pc.run = true) : GInv ar (s.resume fl j) N none := by
  obtain ⟨hk, _⟩ := fly_KF h
  simp [KF] at hk
  have hheld : (s.jobs j).held = [] := by
    by_cases e : (s.jobs j).held = []
    · exact e
    · have := hh e; rw [hpc] at this; simp [PC.holds] at this
  have hnr : (s.jobs j).state ≠ .running := by
    intro e; have := hst e; rw [hpc] at this; simp [PC.run] at this
  unfold St.resume
  simp only [hpc]
  have key : ∀ s3 : St, GInv ar s3 N (some (j, false, false)) → s3.jobs j = s.jobs j →
      GInv ar (s3.put j { (s3.jobs j) with pc := .finished (s3.jobs j).state }) N none := by
    intro s3 h3 hj
    refine land h3 _ _ _ rfl rfl (by intro i hi; simp) ?_
    rw [hj]
    simp [KJ, PC.res, PC.holds, PC.run, hk, hheld, hnr]
  apply key
  · apply GI_ready_inert
    · split
      · exact GI_ready_inert h [.waiterRun] (by simp [Cb.inert])
      · exact h
    · intro cb hcb; simp at hcb; obtain ⟨a, b, _, rfl⟩ := hcb; rfl
  · split <;> rfl

theorem resume_enter_GInv {fl s N j} (har : ar = true → fl.abortReleases = true)
    (h : GInv ar s N (some (j, false, false))) (hpc : (s.jobs j).pc = .lockEnter)
    (hh : (s.jobs j).held ≠ [] → (s.jobs j).pc.holds = true)
    (hst : (s.jobs j).state = .running → (s.jobs j).pc.run = true) : GInv ar (s.resume fl j) N none := by
  obtain ⟨hk, a, b, c, d⟩ := fly_KF h
  simp [KF] at hk
  have hheld : (s.jobs j).held = [] := by
    by_cases e : (s.jobs j).held = []
    · exact e
    · have := hh e; rw [hpc] at this; simp [PC.holds] at this
  have hnr : (s.jobs j).state ≠ .running := by
    intro e; have := hst e; rw [hpc] at this; simp [PC.run] at this
  have hjn : j < s.n := by have := fly_fresh h; have := h.2.2.1; omega
  have hne : ∀ i, i ≠ j → ¬ j = i := fun i hi e => hi e.symm
  obtain ⟨acq, av', he, h1, h2, h3⟩ := acquireAll_eq s j (s.jobs j).deps.length 0
  have hcap : ∀ jb' : Job, jb'.held = acq → jb'.deps = (s.jobs j).deps → CapC s.n (upd s.jobs j jb') av' s.total := by
    intro jb' e1 e2
    apply CapC_move j _ _ hjn _ _ h.2.2.2
    · intro t; have := h1 t; simp [heldTok, e1, e2, hheld]; omega
    · exact h2 (fun t => (h.2.2.2 t).2)
  unfold St.resume
  simp only [hpc]
  generalize hq : s.acquireAll j (s.jobs j).deps.length 0 = q at he h3
  obtain ⟨sa, r⟩ := q
  simp only [] at he h3 ⊢
  subst he
  cases r with
  | none =>
    have hacq : acq = List.range (s.jobs j).deps.length := by rw [h3 rfl]; simp [List.range_eq_range']
    simp only [hheld, List.nil_append]
    have g := GI_upd h none j
      { (s.jobs j) with held := acq, launches := (s.jobs j).launches + 1, state := .running, pc := .lockExitRun }
      [] [(.lockExit, j)] av' (fun hN => absurd hN (fly_fresh h))
      (by intro i hi; simp [hne i hi]) (fun i hi _ _ _ _ h' => PJ_fly_other none (Or.inl rfl) hi h')
      (by simp [PJ, KJ, a, b, c, d, PC.res, PC.holds, PC.run, hk, hacq]) (hcap _ rfl rfl)
    unfold GInv St.put
    simp only [List.append_nil, upd_upd, upd_same] at g ⊢
    exact g
  | some d' =>
    simp only [hheld, List.nil_append]
    have g := GI_upd h (some (j, true, false)) j { (s.jobs j) with held := acq } [] [] av'
      (fun hN => absurd hN (fly_fresh h))
      (by intro i hi; simp) (fun i hi _ _ _ _ h' => PJ_fly_other _ (Or.inr ⟨_, _, rfl⟩) hi h')
      (by simp [PJ, KF, a, b, c, d, hk, hnr]) (hcap _ rfl rfl)
    have hm : ∀ j0 e1 e2, some (j, true, false) = some (j0, e1, e2) → e1 = true := by
      intro j0 e1 e2 e; simp at e; exact e.2.1
    have g' : GInv ar (({ s with avail := av' }).put j { (s.jobs j) with held := acq }) N (some (j, true, false)) := g
    have hrel : ∀ sa' : St, GInv ar sa' N (some (j, true, false)) →
        ∃ e2, GInv ar (if fl.abortReleases = true then sa'.releaseAll j (sa'.jobs j).held else sa') N (some (j, true, e2)) ∧
          (ar = true → e2 = true) := by
      intro sa' gs
      by_cases hf : fl.abortReleases = true
      · rw [if_pos hf]; exact ⟨true, (releaseAll_GInv gs).1, fun _ => rfl⟩
      · rw [if_neg hf]; exact ⟨false, gs, fun e => absurd (har e) hf⟩
    obtain ⟨e2, g1, he2⟩ := hrel _ g'
    have hm' : ∀ j0 e1 e2', some (j, true, e2) = some (j0, e1, e2') → e1 = true := by
      intro j0 e1 e2' e; simp at e; exact e.2.1
    have g2 := check_GInv (fl := fl) j d' g1 hm'
    obtain ⟨hk2, _⟩ := fly_KF g2
    simp [KF] at hk2
    refine land g2 _ _ _ rfl rfl (by intro i hi; simp [hne i hi]) ?_
    simp [KJ, PC.res, PC.holds, PC.run, hk2]
    intro e; exact hk2.2.2.2 (he2 e)

theorem resume_GInv {fl s N j} (har : ar = true → fl.abortReleases = true) (h : GInv ar s N (some (j, false, false))) (hres : (s.jobs j).pc.res = true)
    (hh : (s.jobs j).held ≠ [] → (s.jobs j).pc.holds = true)
    (hrun : (s.jobs j).pc.run = true → (s.jobs j).held = List.range (s.jobs j).deps.length)
    (hst : (s.jobs j).state = .running → (s.jobs j).pc.run = true) : GInv ar (s.resume fl j) N none := by
  cases hpc : (s.jobs j).pc with
  | lockEnter => exact resume_enter_GInv har h hpc hh hst
  | lockExitAbort => exact resume_abort_GInv h hpc hst
  | lockExitRun => exact resume_run_GInv h hpc hrun
  | codeWait => exact resume_code_GInv h hpc
  | doneHandler => exact resume_done_GInv h hpc hh hst
  | none => rw [hpc] at hres; simp [PC.res] at hres
  | created => rw [hpc] at hres; simp [PC.res] at hres
  | evtWait => rw [hpc] at hres; simp [PC.res] at hres
  | finished r => rw [hpc] at hres; simp [PC.res] at hres

/-- the invariant at rest (between two steps); `ar = true` adds: a job at `lockExitAbort` holds nothing. -/
def InvA (ar : Bool) (s : St) (N : Nat) : Prop := GInv ar s N none
/-- the flag-independent part (`ar = false`). -/
def Inv (s : St) (N : Nat) : Prop := InvA false s N

theorem hm_none : ∀ (j0 : Nat) (e1 e2 : Bool), (none : Option (Nat × Bool × Bool)) = some (j0, e1, e2) → e1 = true := by
  intro _ _ _ e; simp at e

theorem step_Inv {fl s N} (har : ar = true → fl.abortReleases = true) (h : InvA ar s N) : InvA ar (s.step fl) N := by
  unfold St.step
  split
  · exact h
  · next cb rest hr =>
    have h' : GI ar s.n s.jobs (cb :: rest) s.threads s.avail s.total N none := by
      have := h; unfold InvA GInv at this; rw [hr] at this; exact this
    cases cb with
    | register j =>
      have h0 : GInv ar { s with ready := rest } N none := pop_inert h' rfl
      show GInv ar (St.register fl { s with ready := rest } j) N none
      unfold St.register
      simp only []
      repeat' split
      all_goals exact h0
    | start j =>
      obtain ⟨h0, _⟩ := pop_start h'
      exact startJob_GInv (s := { s with ready := rest }) h0
    | wake j =>
      obtain ⟨h0, _⟩ := pop_wake h'
      exact wake_GInv (s := { s with ready := rest }) h0
    | resume j =>
      obtain ⟨h0, a, b, c, d⟩ := pop_resume h'
      exact resume_GInv (s := { s with ready := rest }) har h0 a b c d
    | check j d =>
      have h0 : GInv ar { s with ready := rest } N none := pop_inert h' rfl
      exact check_GInv j d h0 hm_none
    | notifyCheck j d =>
      have h0 : GInv ar { s with ready := rest } N none := pop_inert h' rfl
      show GInv ar (St.runCb fl { s with ready := rest } (.notifyCheck j d)) N none
      unfold St.runCb
      simp only []
      split
      · split
        · exact check_GInv j d h0 hm_none
        · exact h0
      · exact check_GInv j d h0 hm_none
    | waiterRun =>
      have h0 : GInv ar { s with ready := rest } N none := pop_inert h' rfl
      show GInv ar (St.waiterRun { s with ready := rest }) N none
      unfold St.waiterRun
      split <;> exact h0

theorem steps_Inv {fl s N} (har : ar = true → fl.abortReleases = true) (k : Nat) (h : InvA ar s N) : InvA ar (St.steps fl s k) N := by
  induction k generalizing s with
  | zero => exact h
  | succ k ih => exact ih (step_Inv har h)

/-! ### `n` is changed by `submit` only -/
@[simp] theorem put_n (s : St) (j jb cbs ths) : (s.put j jb cbs ths).n = s.n := rfl
@[simp] theorem check_n (fl s j d) : (St.check fl s j d).n = s.n := rfl
@[simp] theorem finish_n (s : St) (j) : (s.finish j).n = s.n := by
  unfold St.finish; simp only []; split <;> rfl
@[simp] theorem loopHead_n (s : St) (j) : (s.loopHead j).n = s.n := by
  unfold St.loopHead; simp only []; repeat' split
  all_goals simp
@[simp] theorem registerDeps_n (fl s j k d) : (St.registerDeps fl s j k d).n = s.n := by
  induction k generalizing s d with
  | zero => rfl
  | succ k ih => unfold St.registerDeps; simp only []; rw [ih]; simp; split <;> rfl
@[simp] theorem releaseAll_n (s : St) (j ds) : (s.releaseAll j ds).n = s.n := by
  obtain ⟨_, _, he⟩ := releaseAll_eq s j ds; rw [he]; rfl
@[simp] theorem acquireAll_n (s : St) (j k d) : (s.acquireAll j k d).1.n = s.n := by
  obtain ⟨_, _, he, _⟩ := acquireAll_eq s j k d; rw [he]; rfl
@[simp] theorem startJob_n (fl s j) : (St.startJob fl s j).n = s.n := by
  unfold St.startJob; simp only []; simp
  split <;> split <;> simp
@[simp] theorem resume_n (fl s j) : (St.resume fl s j).n = s.n := by
  unfold St.resume; simp only []
  split
  · split
    · simp; split <;> simp
    · simp
  all_goals first | rfl | (simp; done) | (simp; split <;> rfl)
@[simp] theorem runCb_n (fl s cb) : (St.runCb fl s cb).n = s.n := by
  cases cb <;> simp [St.runCb]
  · unfold St.register; simp only []; repeat' split
    all_goals rfl
  · split <;> simp
  · split
    · split <;> rfl
    · rfl
  · unfold St.waiterRun; split <;> rfl
@[simp] theorem step_n (fl s) : (St.step fl s).n = s.n := by
  unfold St.step; split
  · rfl
  · simp
@[simp] theorem steps_n (fl s k) : (St.steps fl s k).n = s.n := by
  induction k generalizing s with
  | zero => rfl
  | succ k ih => unfold St.steps; rw [ih]; simp

/-! ### events -/
theorem GI_N_mono {n jobs ready threads avail total N m} (h : GI ar n jobs ready threads avail total N m)
    (N' : Nat) (h1 : N ≤ N') (h2 : N' ≤ n) : GI ar n jobs ready threads avail total N' m :=
  ⟨h.1, fun j hj => h.2.1 j (by omega), h2, h.2.2.2⟩

theorem KJ_none {jb : Job} {a b c : Nat} (h : KJ ar jb a b c) (hpc : jb.pc = .none) :
    a = 0 ∧ b = 0 ∧ c = 0 ∧ jb.sleeping = false ∧ jb.held = [] ∧ jb.state ≠ .running := by
  simp [KJ, hpc, PC.res, PC.holds, PC.run] at h
  obtain ⟨h1, h2, h3, h4, h5, h6⟩ := h
  exact ⟨h1, h2, h3, h4, h5, h6⟩

theorem submit_pre {s N} (h : InvA ar s N) (jb : Job) (hjb : KJ ar jb 0 0 0) (hpc : jb.pc = .none) (hheld : jb.held = []) :
    GI ar (s.n + 1) (upd s.jobs s.n jb) (s.ready ++ [.register s.n]) s.threads s.avail s.total N none := by
  obtain ⟨h1, h2, h3, h4⟩ := h
  refine ⟨fun i => ?_, fun i hi => ?_, by omega, fun t => ?_⟩
  · by_cases hi : i = s.n
    · subst hi
      obtain ⟨a, b, c, _⟩ := KJ_none (h1 s.n) (h2 s.n h3)
      simp only [PJ] at a b c ⊢
      have c' : nR s.ready s.n = 0 ∧ nT s.threads s.n = 0 := by omega
      simp [a, b, c'.1, c'.2]; exact hjb
    · have := h1 i
      simpa [PJ, upd, hi] using this
  · by_cases hi' : i = s.n
    · subst hi'; simp [hpc]
    · simp [upd, hi']; exact h2 i hi
  · have : sumTo (s.n + 1) (fun j => heldTok (upd s.jobs s.n jb j) t) = sumTo s.n (fun j => heldTok (s.jobs j) t) := by
      simp only [sumTo, upd_same]
      have e : sumTo s.n (fun j => heldTok (upd s.jobs s.n jb j) t) = sumTo s.n (fun j => heldTok (s.jobs j) t) := by
        apply sumTo_congr; intro i hi; have : i ≠ s.n := by omega
        simp [upd, this]
      rw [e]; simp [heldTok, hheld]
    rw [this]; exact h4 t

/-- the three phases of `submit`. -/
def mkJob (s : St) (ident : Nat) (deps : List Origin) (code : Nat) (marker : Bool) : Job :=
  { ident := ident, deps := deps.map (fun o => match o with
      | .job d => { origin := .job (s.eff d) : Dep }
      | o => { origin := o }), code := code, marker := marker }
def submitPre (s : St) (jb : Job) : St :=
  { s with n := s.n + 1, jobs := upd s.jobs s.n jb, regResult := none, ready := s.ready ++ [.register s.n] }
def submitPost (j : Nat) (s2 : St) : St :=
  match s2.regResult with
  | some (some o) => { s2 with eff := upd s2.eff j o }
  | _ => ({ s2 with eff := upd s2.eff j j }).put j { (s2.jobs j) with pc := .created } [.start j]

theorem apply_submit_eq (fl : Flags) (s : St) (ident deps code marker) :
    s.apply fl (.submit ident deps code marker) =
      submitPost s.n (St.steps fl (submitPre s (mkJob s ident deps code marker)) (s.ready.length + 1)) := rfl

theorem submitPost_Inv {s2 N j} (h2 : InvA ar s2 N) (hN : N ≤ j) (hn : s2.n = j + 1) : InvA ar (submitPost j s2) (j + 1) := by
  have h3 : GInv ar s2 (j + 1) none := GI_N_mono h2 (j + 1) (by omega) (by omega)
  unfold submitPost
  split
  · exact h3
  · have hp := h2.2.1 j hN
    obtain ⟨a, b, c, d, e, f⟩ := KJ_none (h2.1 j) hp
    have c' : nR s2.ready j = 0 ∧ nT s2.threads j = 0 := by omega
    refine GI_upd h3 none j _ [.start j] [] s2.avail (by omega) ?_ (fun _ _ _ _ _ _ h' => h') ?_
      (CapC_same _ _ (heldTok_eq rfl rfl) h3.2.2.2)
    · intro i hi; have : ¬ j = i := fun e => hi e.symm
      simp [this]
    · simp [PJ, KJ, a, b, c'.1, c'.2, d, e, f, PC.res, PC.holds, PC.run]

theorem apply_Inv {fl s N} (har : ar = true → fl.abortReleases = true) (ev : Ev) (h : InvA ar s N) : ∃ N', InvA ar (s.apply fl ev) N' := by
  cases ev with
  | step => exact ⟨N, step_Inv har h⟩
  | wait => exact ⟨N, GI_ready_inert h [.waiterRun] (by simp [Cb.inert])⟩
  | deliver k =>
    refine ⟨N, ?_⟩
    unfold St.apply
    simp only []
    split
    · next a j hk =>
      refine ⟨fun i => ?_, h.2⟩
      have := h.1 i
      have e := nT_eraseIdx s.threads k a j i hk
      simp only [PJ, nS_append, nW_append, nR_append, nS_cons, nW_cons, nR_cons, nS_nil, nW_nil, nR_nil] at this ⊢
      have r1 : (if Cb.resume j = Cb.start i then 1 else 0) = 0 := by simp
      have r2 : (if Cb.resume j = Cb.wake i then 1 else 0) = 0 := by simp
      have r3 : (if Cb.resume j = Cb.resume i then 1 else 0) = (if j = i then 1 else 0) := by simp
      rw [r1, r2, r3]
      have : nR s.ready i + (0 + if j = i then 1 else 0) + nT (s.threads.eraseIdx k) i = nR s.ready i + nT s.threads i := by omega
      rw [this]; simpa using ‹KJ ar _ _ _ _›
    · exact h
  | submit ident deps code marker =>
    refine ⟨s.n + 1, ?_⟩
    have hN : N ≤ s.n := h.2.2.1
    rw [apply_submit_eq]
    have h1 : InvA ar (submitPre s (mkJob s ident deps code marker)) N :=
      submit_pre h _ (by simp [mkJob, KJ, PC.res, PC.holds, PC.run]) rfl rfl
    have h2 := steps_Inv (fl := fl) har (s.ready.length + 1) h1
    exact submitPost_Inv h2 hN (by simp [submitPre])

theorem init_Inv (totals : List Nat) : InvA ar (St.init totals) 0 := by
  refine ⟨fun i => ?_, fun _ _ => rfl, Nat.le_refl _, fun t => ?_⟩
  · simp [PJ, KJ, St.init, PC.res, PC.holds, PC.run]
  · simp [St.init, sumTo]

/-- the states the scheduler can be in: any list of events applied to the initial state (any workload, any
    schedule of callbacks and helper-thread completions, any token table). -/
def Reachable (fl : Flags) (totals : List Nat) (s : St) : Prop :=
  ∃ evs : List Ev, s = evs.foldl (St.apply fl) (St.init totals)

theorem foldl_Inv {fl} (har : ar = true → fl.abortReleases = true) (evs : List Ev) {s N} (h : InvA ar s N) : ∃ N', InvA ar (evs.foldl (St.apply fl) s) N' := by
  induction evs generalizing s N with
  | nil => exact ⟨N, h⟩
  | cons ev evs ih =>
    obtain ⟨N', h'⟩ := apply_Inv (fl := fl) har ev h
    exact ih h'

/-- every reachable state satisfies the invariant, with the `lockExitAbort`-holds-nothing part exactly when
    the source has the `abortReleases` repair. -/
theorem Reachable.invA {fl totals s} (h : Reachable fl totals s) : ∃ N, InvA fl.abortReleases s N := by
  obtain ⟨evs, rfl⟩ := h
  exact foldl_Inv (fun e => e) evs (init_Inv totals)

theorem Reachable.inv {fl totals s} (h : Reachable fl totals s) : ∃ N, Inv s N := by
  obtain ⟨evs, rfl⟩ := h
  exact foldl_Inv (ar := false) (fun e => by cases e) evs (init_Inv totals)

/-! ### `total` never changes -/
@[simp] theorem put_total (s : St) (j jb cbs ths) : (s.put j jb cbs ths).total = s.total := rfl
@[simp] theorem check_total (fl s j d) : (St.check fl s j d).total = s.total := rfl
@[simp] theorem finish_total (s : St) (j) : (s.finish j).total = s.total := by
  unfold St.finish; simp only []; split <;> rfl
@[simp] theorem loopHead_total (s : St) (j) : (s.loopHead j).total = s.total := by
  unfold St.loopHead; simp only []; repeat' split
  all_goals simp
@[simp] theorem registerDeps_total (fl s j k d) : (St.registerDeps fl s j k d).total = s.total := by
  induction k generalizing s d with
  | zero => rfl
  | succ k ih => unfold St.registerDeps; simp only []; rw [ih]; simp; split <;> rfl
@[simp] theorem releaseAll_total (s : St) (j ds) : (s.releaseAll j ds).total = s.total := by
  obtain ⟨_, _, he⟩ := releaseAll_eq s j ds; rw [he]; rfl
@[simp] theorem acquireAll_total (s : St) (j k d) : (s.acquireAll j k d).1.total = s.total := by
  obtain ⟨_, _, he, _⟩ := acquireAll_eq s j k d; rw [he]; rfl
@[simp] theorem startJob_total (fl s j) : (St.startJob fl s j).total = s.total := by
  unfold St.startJob; simp only []; simp
  split <;> split <;> simp
@[simp] theorem resume_total (fl s j) : (St.resume fl s j).total = s.total := by
  unfold St.resume; simp only []
  split
  · split
    · simp; split <;> simp
    · simp
  all_goals first | rfl | (simp; done) | (simp; split <;> rfl)
@[simp] theorem runCb_total (fl s cb) : (St.runCb fl s cb).total = s.total := by
  cases cb <;> simp [St.runCb]
  · unfold St.register; simp only []; repeat' split
    all_goals rfl
  · split <;> simp
  · split
    · split <;> rfl
    · rfl
  · unfold St.waiterRun; split <;> rfl
@[simp] theorem step_total (fl s) : (St.step fl s).total = s.total := by
  unfold St.step; split
  · rfl
  · simp
@[simp] theorem steps_total (fl s k) : (St.steps fl s k).total = s.total := by
  induction k generalizing s with
  | zero => rfl
  | succ k ih => unfold St.steps; rw [ih]; simp
theorem apply_total (fl s ev) : (St.apply fl s ev).total = s.total := by
  cases ev with
  | step => simp [St.apply]
  | wait => rfl
  | deliver k => unfold St.apply; simp only []; split <;> rfl
  | submit ident deps code marker =>
    rw [apply_submit_eq]; unfold submitPost; split <;> simp [submitPre]

theorem Reachable.total {fl totals s} (h : Reachable fl totals s) : s.total = fun t => totals.getD t 0 := by
  obtain ⟨evs, rfl⟩ := h
  suffices ∀ s0 : St, (evs.foldl (St.apply fl) s0).total = s0.total from this _
  induction evs with
  | nil => intro _; rfl
  | cons ev evs ih => intro s0; simp only [List.foldl]; rw [ih, apply_total]

/-! ### consequences of the invariant -/
theorem sumTo_zero {n : Nat} {f : Nat → Nat} (h : ∀ i, i < n → f i = 0) : sumTo n f = 0 := by
  induction n with
  | zero => rfl
  | succ n ih => simp [sumTo, ih (fun i hi => h i (by omega)), h n (by omega)]

theorem Inv.cap {s N} (h : Inv s N) (t : Nat) :
    s.avail t + (sumTo s.n (fun j => heldTok (s.jobs j) t) : Nat) = (s.total t : Int) ∧ 0 ≤ s.avail t := h.2.2.2 t

theorem Inv.job {s N} (h : Inv s N) (j : Nat) :
    ((s.jobs j).held ≠ [] → (s.jobs j).pc.holds = true) ∧
    ((s.jobs j).pc.run = true → (s.jobs j).held = List.range (s.jobs j).deps.length) ∧
    ((s.jobs j).state = .running → (s.jobs j).pc.run = true) := by
  have := h.1 j
  simp only [PJ, KJ] at this
  exact ⟨this.2.2.2.2.1, this.2.2.2.2.2.1, this.2.2.2.2.2.2.1⟩

/-- with the `abortReleases` repair: whoever holds something between two steps has been launched. -/
theorem InvA.hold_run {s N} (h : InvA true s N) (j : Nat) (hh : (s.jobs j).held ≠ []) : (s.jobs j).pc.run = true := by
  have := h.1 j
  simp only [PJ, KJ] at this
  have h1 := this.2.2.2.2.1 hh
  have h2 := this.2.2.2.2.2.2.2 trivial
  revert h1 h2 hh
  cases (s.jobs j).pc <;> simp [PC.holds, PC.run]

theorem heldTok_all {jb : Job} (h : jb.held = List.range jb.deps.length) (t : Nat) : heldTok jb t = request jb t := by
  unfold heldTok request; rw [h]; exact sumTok_range _ _

theorem Inv.launched_le {s N} (h : Inv s N) (t : Nat) :
    sumTo s.n (fun j => if (s.jobs j).pc.run = true then request (s.jobs j) t else 0) ≤ s.total t := by
  have h1 : sumTo s.n (fun j => if (s.jobs j).pc.run = true then request (s.jobs j) t else 0)
      ≤ sumTo s.n (fun j => heldTok (s.jobs j) t) := by
    apply sumTo_le; intro i _
    show (if (s.jobs i).pc.run = true then request (s.jobs i) t else 0) ≤ heldTok (s.jobs i) t
    split
    · next hr => rw [heldTok_all ((h.job i).2.1 hr)]; exact Nat.le_refl _
    · exact Nat.zero_le _
  have := h.cap t
  omega

theorem Inv.running_le {s N} (h : Inv s N) (t : Nat) :
    sumTo s.n (fun j => if (s.jobs j).state = .running then request (s.jobs j) t else 0) ≤ s.total t := by
  refine Nat.le_trans ?_ (h.launched_le t)
  apply sumTo_le; intro i _
  show (if (s.jobs i).state = .running then request (s.jobs i) t else 0) ≤
    (if (s.jobs i).pc.run = true then request (s.jobs i) t else 0)
  split
  · next hr => simp [(h.job i).2.2 hr]
  · exact Nat.zero_le _

theorem Inv.idle_full {s N} (h : Inv s N) (hr : s.ready = []) (ht : s.threads = []) (t : Nat) :
    s.avail t = s.total t ∧ ∀ j, (s.jobs j).held = [] := by
  have hh : ∀ j, (s.jobs j).held = [] := by
    intro j
    have := h.1 j
    simp only [PJ, KJ, hr, ht, nR_nil, nT_nil] at this
    by_cases e : (s.jobs j).held = []
    · exact e
    · have h1 := this.2.2.2.2.1 e
      have h2 := this.2.2.1
      have : (s.jobs j).pc.res = true := by
        revert h1; cases (s.jobs j).pc <;> simp [PC.holds, PC.res]
      simp [this] at h2
  refine ⟨?_, hh⟩
  have := h.cap t
  rw [sumTo_zero (fun i _ => by simp [heldTok, hh i])] at this
  omega

/-! ### release on every exit path (no reachability needed) -/
@[simp] theorem finish_avail (s : St) (j) : (s.finish j).avail = s.avail := by
  unfold St.finish; simp only []; split <;> rfl
@[simp] theorem loopHead_avail (s : St) (j) : (s.loopHead j).avail = s.avail := by
  unfold St.loopHead; simp only []; repeat' split
  all_goals simp [St.put]
theorem finish_held (s : St) (j i) : ((s.finish j).jobs i).held = (s.jobs i).held := by
  unfold St.finish; simp only []
  by_cases h : i = j
  · subst h; split <;> simp [St.put]
  · split <;> simp [St.put, upd, h]
theorem loopHead_held (s : St) (j i) : ((s.loopHead j).jobs i).held = (s.jobs i).held := by
  unfold St.loopHead; simp only []
  by_cases h : i = j
  · subst h; repeat' split
    all_goals simp [St.put, finish_held]
  · repeat' split
    all_goals simp [St.put, upd, h, finish_held]
theorem eventSet_held (jb : Job) : (eventSet jb).1.held = jb.held := by
  unfold eventSet; repeat' split
  all_goals rfl

theorem resume_releases (fl : Flags) (s : St) (j : Nat)
    (hpc : (s.jobs j).pc = .lockExitAbort ∨ (s.jobs j).pc = .codeWait) :
    ((s.resume fl j).jobs j).held = [] ∧
    (∀ t, (s.resume fl j).avail t = s.avail t + (heldTok (s.jobs j) t : Nat)) ∧
    (∀ i, i ≠ j → ((s.resume fl j).jobs i).held = (s.jobs i).held) := by
  obtain ⟨notes, _, he⟩ := releaseAll_eq s j (s.jobs j).held
  unfold St.resume
  rcases hpc with hpc | hpc
  · simp only [hpc]
    rw [he]
    refine ⟨?_, ?_, ?_⟩
    · rw [loopHead_held]; simp only [St.put, upd_same]
      split
      · rw [eventSet_held]
      · rfl
    · intro t; rw [loopHead_avail]; rfl
    · intro i hi; rw [loopHead_held]; simp [St.put, upd, hi]
  · simp only [hpc]
    rw [he]
    refine ⟨?_, ?_, ?_⟩
    · rw [finish_held]; simp [St.put]
    · intro t; rw [finish_avail]; rfl
    · intro i hi; rw [finish_held]; simp [St.put, upd, hi]

/-! ### a concrete run used by the `example`s of `Properties/C08.lean` -/
/-- all three repairs present. -/
def flOK : Flags := { readyGuarded := true, resubmitRegisters := true, abortRechecks := true }
/-- token 0 of capacity 2; job 0 asks 1 (exit code 0), job 1 asks 2 (exit code 1). -/
def demoEvs : List Ev :=
  [.submit 1 [.tok 0 1] 0 false, .submit 2 [.tok 0 2] 1 false, .step, .step, .deliver 0, .step, .deliver 0, .step]
def drain (k : Nat) : List Ev := (List.replicate k [Ev.deliver 0, .step, .step, .step]).flatten
def demoRun (k : Nat) : St := (demoEvs ++ drain k).foldl (St.apply flOK) (St.init [2])
end XpmVerif.Sched
