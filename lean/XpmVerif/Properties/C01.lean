import XpmVerif.Proofs.IdentPerm
import XpmVerif.Proofs.IdentDeep
import XpmVerif.Model.IdentImpl
import XpmVerif.Generated.HashFlags
/-! C01 — a configuration's identifier is a pure function of its content.
    `rawAt`/`rawId`/`fullId` (Model/Ident.lean) are the cache-free specification;
    `reqRaw`/`reqFull` (Model/IdentImpl.lean) the implementation with caches. -/
namespace XpmVerif.C01
open XpmVerif.Ident List

/-- **keyword / declaration order.** The stream hashed for a node does not depend on the order in
    which its arguments are stored or declared (argument names are distinct). -/
theorem node_stream_argument_order (cfg : Nat → List Nat) (ceq : Nat → Nat → Bool) (mt : Nat → Option Bool) (self : Nat)
    (nd nd' : Node)
    (ht : nd.typeId = nd'.typeId) (hk : nd.task = nd'.task) (hp : nd.args ~ nd'.args)
    (hn : ∀ a b, a ∈ nd.args → b ∈ nd.args → a.name = b.name → a = b) :
    nodeStream cfg ceq mt self nd = nodeStream cfg ceq mt self nd' :=
  nodeStream_args_perm cfg ceq mt self nd nd' ht hk hp hn

/-- **dict insertion order.** Two dict values with the same items in another insertion order
    (keys distinct) are encoded identically. -/
theorem dict_insertion_order (cfg : Nat → List Nat) (mt : Nat → Option Bool)
    (ks ks' : List (List Nat)) (vs vs' : List Val)
    (hp : (ks.zip vs) ~ (ks'.zip vs'))
    (hk : ∀ a b, a ∈ ks.zip vs → b ∈ ks.zip vs → a.1 = b.1 → a = b) :
    encVal cfg mt (.dict ks vs) = encVal cfg mt (.dict ks' vs') :=
  encVal_dict_perm cfg mt ks ks' vs vs' hp hk

/-- **any depth.** If every node of two graphs has the same stream (e.g. because they differ only by
    the two reorderings above), all raw identifiers agree, for every hash function, under any stack. -/
theorem raw_identifier_congruence {D : Type} (hc : HC D) (g g' : Graph)
    (h : ∀ n cfg ceq, nodeStream cfg ceq g.mt n (g.node n) = nodeStream cfg ceq g'.mt n (g'.node n)) (n : Nat)
    (hs : g.size = g'.size) :
    rawId hc g n = rawId hc g' n := by
  unfold rawId; rw [hs]; exact rawAt_congr hc g g' h _ _ _

/-- non-vacuity: a node with its two arguments swapped. -/
example : nodeStream (fun _ => []) (fun _ _ => false) (fun _ => none) 0
      { typeId := [97], args := [{ name := [120], value := .int 1 }, { name := [98], value := .str [65] }] }
    = nodeStream (fun _ => []) (fun _ _ => false) (fun _ => none) 0
      { typeId := [97], args := [{ name := [98], value := .str [65] }, { name := [120], value := .int 1 }] } := by decide

/-- obligation on the *current source*: `HashComputer.compute` stores the loop flag in the attribute
    that the cache lookup reads (false on the pinned tree: `has_loop` vs `has_loops`, finding F1). -/
theorem loop_flag_is_stored : Gen.loopFlagStored = true := by decide

/-- obligation on the current source: the tag bytes are the ones of the model. -/
theorem tags_match_model :
    [Gen.object_id, Gen.int_id, Gen.float_id, Gen.str_id, Gen.path_id, Gen.name_id, Gen.none_id, Gen.list_id,
     Gen.task_id, Gen.dict_id, Gen.enum_id, Gen.cycle_reference, Gen.init_tasks]
      = [0, 1, 2, 3, 4, 5, 6, 7, 8, 9, 10, 11, 12] := by decide

/-! Request-order independence.  Negative witness (the defect F1): if the loop flag is *not* stored,
    a sealed cycle 0 → 1 → 2 → 0 gives node 1 different identifiers depending on whether node 0's
    identifier was requested first.  With the flag stored the same history agrees with the
    specification.  (A toy hash keeps the witness kernel-checkable; it is replayed on the real code.) -/
def toyHC : HC Nat :=
  { H := fun l => l.foldl (fun a b => (a * 31 + b + 1) % 1000003) 7, emb := fun d => [256 + d], le := fun a b => a ≤ b }
def cyc : Graph :=
  { nodes := [0, 1, 2].map fun i => { typeId := [99], args := [{ name := [120], value := .ref ((i + 1) % 3) }], sealed := true } }
def idAfter (flag : Bool) (order : List Nat) (n : Nat) : Nat :=
  (reqRaw toyHC flag (order.foldl (fun s k => (reqRaw toyHC flag s k).1) { g := cyc, c := Caches.empty }) n).2

theorem request_order_matters_without_flag : idAfter false [0] 1 ≠ idAfter false [] 1 := by decide
theorem request_order_irrelevant_with_flag_witness :
    idAfter true [0] 1 = rawId toyHC cyc 1 ∧ idAfter true [2, 0] 1 = rawId toyHC cyc 1 ∧ idAfter true [] 1 = rawId toyHC cyc 1 := by decide

/-! ### Any depth, simultaneously (helpers in `Proofs/IdentDeep.lean`)

    `Reord v v'`: `v'` is `v` with the items of its dicts — at any depth, also directly inside a list or
    another dict — inserted in another order.  `DistinctKeys v`: the keys of every dict at every depth
    are pairwise distinct (a Python dict).  `NodeReord nd nd'`: arguments stored in another order *and*
    their values `Reord`-related, everything else equal.  `GraphReord g g'`: `NodeReord` at every node. -/

/-- **dicts at any depth of a value.** Reordering every dict of a value, at every depth, leaves its
    encoding unchanged (no node boundary is needed between the nested containers). -/
theorem value_encoding_any_depth_order (cfg : Nat → List Nat) (mt : Nat → Option Bool) {v v' : Val}
    (h : Reord v v') (hd : DistinctKeys v) : encVal cfg mt v = encVal cfg mt v' :=
  encVal_reord cfg mt h hd

/-- the comparison with the default (`_is_default(default, remove_meta(value))`) does not see the reordering
    either, whatever the default (dicts nested in dicts, configuration objects included) and whatever the
    outcome `ceq` of the comparisons of configuration identifiers. -/
theorem default_comparison_any_depth_order (ceq : Nat → Nat → Bool) (mt : Nat → Option Bool) (d : Val) {v v' : Val}
    (h : Reord v v') (hd : DistinctKeys v) :
    isDefault ceq mt d (removeMeta mt v) = isDefault ceq mt d (removeMeta mt v') :=
  isDefault_reord ceq mt d (removeMeta_reord mt h) (removeMeta_distinctKeys mt hd)

/-- the same for Python `==` between values that are not configuration objects (the former rule). -/
theorem equality_any_depth_order (mt : Nat → Option Bool) (d : Val) {v v' : Val}
    (h : Reord v v') (hd : DistinctKeys v) : pyEq d (removeMeta mt v) = pyEq d (removeMeta mt v') :=
  pyEq_reord d (removeMeta_reord mt h) (removeMeta_distinctKeys mt hd)

/-- hence the four skip rules take the same decision for the reordered argument. -/
theorem argument_inclusion_any_depth_order (ceq : Nat → Nat → Bool) (mt : Nat → Option Bool) {a a' : Arg}
    (h : ArgReord a a') (hd : DistinctKeys a.value) : included ceq mt a = included ceq mt a' :=
  included_reord ceq mt h hd

/-- **node level, both reorderings at once.** -/
theorem node_stream_any_depth_order (cfg : Nat → List Nat) (ceq : Nat → Nat → Bool) (mt : Nat → Option Bool) (self : Nat)
    {nd nd' : Node} (h : NodeReord nd nd') (hd : NodeDistinctKeys nd) :
    nodeStream cfg ceq mt self nd = nodeStream cfg ceq mt self nd' :=
  nodeStream_reord cfg ceq mt self h hd

/-- **raw identifier.** Arguments permuted and dicts reordered at every depth in every node:
    all raw identifiers agree, for every hash function. -/
theorem raw_identifier_any_depth_order {D : Type} (hc : HC D) {g g' : Graph} (h : GraphReord g g')
    (hd : GraphDistinctKeys g) (n : Nat) : rawId hc g n = rawId hc g' n :=
  h.rawId_eq hc hd n

/-- the configuration walk visits the same *set* of nodes (in another order), so the collected
    pre-tasks are a permutation of each other. -/
theorem collected_pre_tasks_any_depth_order {g g' : Graph} (h : GraphReord g g') (n : Nat) :
    collectPreTasks g n ~ collectPreTasks g' n :=
  h.collectPreTasks_perm n

/-- **full identifier.** Same hypotheses, and the order used by `sorted(pre_tasks_ids)` is a total order
    on digests: the full identifiers agree although the pre-tasks are collected in another order. -/
theorem full_identifier_any_depth_order {D : Type} (hc : HC D) {g g' : Graph} (h : GraphReord g g')
    (hd : GraphDistinctKeys g)
    (total : ∀ a b, hc.le a b = true ∨ hc.le b a = true)
    (trans : ∀ a b c, hc.le a b = true → hc.le b c = true → hc.le a c = true)
    (antisymm : ∀ a b, hc.le a b = true → hc.le b a = true → a = b) (n : Nat) :
    fullId hc g n = fullId hc g' n :=
  h.fullId_eq hc hd total trans antisymm n

/-! non-vacuity: `{"a": [{"x": 1, "y": 2}], "b": 3}` against `{"b": 3, "a": [{"y": 2, "x": 1}]}` — a dict
    inside a list inside a dict, reordered at both levels. -/
def deepV : Val := .dict [[97], [98]] [.list [.dict [[120], [121]] [.int 1, .int 2]], .int 3]
def deepV' : Val := .dict [[98], [97]] [.int 3, .list [.dict [[121], [120]] [.int 2, .int 1]]]

theorem deepV_reord : Reord deepV deepV' :=
  .dict (mid := [.list [.dict [[121], [120]] [.int 2, .int 1]], .int 3])
    (.cons (.list (.cons
        (.dict (mid := [.int 1, .int 2]) (.cons (.int 1) (.cons (.int 2) .nil)) (Perm.swap _ _ []) rfl rfl)
        .nil))
      (.cons (.int 3) .nil))
    (Perm.swap _ _ []) rfl rfl

theorem deepV_distinctKeys : DistinctKeys deepV := by
  simp [deepV, DistinctKeys, DistinctKeysL]

example : encVal (fun _ => []) (fun _ => none) deepV = encVal (fun _ => []) (fun _ => none) deepV' := by decide

/-- two nodes; node 0 holds the nested value, a reference and a pre-task; in `deepG'` its arguments are
    swapped and the dicts reordered. -/
def deepG : Graph := { nodes := [
  { typeId := [97], args := [{ name := [100], value := deepV }, { name := [120], value := .list [.ref 1] }], preTasks := [1] },
  { typeId := [98], args := [{ name := [122], value := .int 7 }] }] }
def deepG' : Graph := { nodes := [
  { typeId := [97], args := [{ name := [120], value := .list [.ref 1] }, { name := [100], value := deepV' }], preTasks := [1] },
  { typeId := [98], args := [{ name := [122], value := .int 7 }] }] }

theorem deepG_reord : GraphReord deepG deepG' where
  size := rfl
  node := fun n hn => match n, hn with
    | 0, _ =>
      { typeId := rfl, task := rfl, mflag := rfl, preTasks := rfl, initTasks := rfl
        args := ⟨[{ name := [100], value := deepV' }, { name := [120], value := .list [.ref 1] }],
          .cons ⟨rfl, rfl, rfl, rfl, rfl, rfl, deepV_reord⟩
            (.cons ⟨rfl, rfl, rfl, rfl, rfl, rfl, .list (.cons (.ref 1) .nil)⟩ .nil),
          Perm.swap _ _ []⟩
        names := by decide }
    | 1, _ =>
      { typeId := rfl, task := rfl, mflag := rfl, preTasks := rfl, initTasks := rfl
        args := ⟨_, .cons ⟨rfl, rfl, rfl, rfl, rfl, rfl, .int 7⟩ .nil, Perm.refl _⟩
        names := by decide }
    | n + 2, h => absurd h (by simp [deepG, Graph.size])

theorem deepG_distinctKeys : GraphDistinctKeys deepG := fun n hn => match n, hn with
  | 0, _ => by
    intro a ha
    simp [deepG, Graph.node] at ha
    rcases ha with rfl | rfl
    · exact deepV_distinctKeys
    · simp [DistinctKeys, DistinctKeysL]
  | 1, _ => by
    intro a ha
    simp [deepG, Graph.node] at ha
    subst ha; trivial
  | n + 2, h => absurd h (by simp [deepG, Graph.size])

example : fullId toyHC deepG 0 = fullId toyHC deepG' 0 :=
  full_identifier_any_depth_order toyHC deepG_reord deepG_distinctKeys
    (fun a b => by simp only [toyHC, decide_eq_true_eq]; omega)
    (fun a b c => by simp only [toyHC, decide_eq_true_eq]; omega)
    (fun a b => by simp only [toyHC, decide_eq_true_eq]; omega) 0

/-- the relation is not trivial: it never changes a value stored under a key. -/
example : ¬ Reord (.dict [[97]] [.int 1]) (.dict [[97]] [.int 2]) := by
  intro h
  cases h with
  | dict hl hp _ _ =>
    cases hl with
    | cons hv hl' =>
      cases hv; cases hl'
      have := hp.mem_iff (a := ([97], Val.int 1))
      simp at this

/-- `DistinctKeys` is needed in the model: with a repeated key the (stable) sort keeps the insertion order. -/
example : encVal (fun _ => []) (fun _ => none) (.dict [[97], [97]] [.int 1, .int 2])
    ≠ encVal (fun _ => []) (fun _ => none) (.dict [[97], [97]] [.int 2, .int 1]) := by decide

/-! ### the named hypotheses are satisfiable on non-trivial values (audit round 8, item 6)
    `deepG` / `deepG'`: two nodes, node 0 with two arguments stored in the other order, one of them a nested dict whose
    keys come in another order. -/

/-- `GraphReord` on two genuinely different orders of one graph. -/
example : GraphReord deepG deepG' ∧ (deepG.node 0).args.map (·.name) ≠ (deepG'.node 0).args.map (·.name)
    ∧ (deepG.node 0).args.length = 2 :=
  ⟨deepG_reord, by decide, by decide⟩
/-- `NodeReord` at the node whose arguments are swapped and whose dict is reordered. -/
example : NodeReord (deepG.node 0) (deepG'.node 0) := deepG_reord.node 0 (by decide)
/-- `NodeDistinctKeys` of that node (it holds the nested dict `deepV`). -/
example : NodeDistinctKeys (deepG.node 0) := deepG_distinctKeys 0 (by decide)
/-- `ArgReord` between the argument holding `deepV` and the one holding the reordered `deepV'` (hypothesis of
    `included_any_depth_order`, together with `DistinctKeys`). -/
example : ArgReord { name := [100], value := deepV } { name := [100], value := deepV' } ∧ DistinctKeys deepV :=
  ⟨⟨rfl, rfl, rfl, rfl, rfl, rfl, deepV_reord⟩, deepV_distinctKeys⟩

end XpmVerif.C01
