import XpmVerif.Proofs.RestartLive3
/-! C11, liveness with adoption: runs of the second scheduler (`soundA_run`), deadlock freedom (`stuck_quiescentA`),
    what a maximal run ends in (`maximal_final`, `maximal_disk_idleA`), existence of maximal runs
    (`maximal_run_existsA`). -/
set_option linter.unusedSimpArgs false
set_option linter.unusedVariables false
namespace XpmVerif.RestartLive
open XpmVerif.Sched hiding Reachable flOK submitPre submitPost sumTo
open XpmVerif.SchedFinal XpmVerif.Restart XpmVerif.RestartTerm XpmVerif.RestartAbs

section runs
variable {fl : Flags} {totals : List Nat} {done0 : Nat → Bool} {d0 : Disk}

theorem soundA_run (hg : fl.readyGuarded = true) (hf : fl.resubmitRegisters = true) (ha : fl.abortRechecks = true)
    (hrel : fl.abortReleases = true) (evs : List WEv) : ∀ w, SoundA fl totals done0 d0 w → RunE fl w evs →
      SoundA fl totals done0 d0 (W.run fl w evs) ∧ evs.length + wmuA (W.run fl w evs) ≤ wmuA w ∧
      (TokFit (abs w.a.adopted w.a.s) → TokFit (abs (W.run fl w evs).a.adopted (W.run fl w evs).a.s)) := by
  induction evs with
  | nil => intro w h _; exact ⟨h, by simp [W.run], fun hT => hT⟩
  | cons e es ih =>
    intro w h hrun
    obtain ⟨hen, hrest⟩ := hrun
    obtain ⟨h', hlt, hT⟩ := soundA_step hg hf ha hrel h e hen
    obtain ⟨r1, r2, r3⟩ := ih _ h' hrest
    refine ⟨r1, ?_, fun hT0 => r3 (hT hT0)⟩
    simp only [W.run, List.length_cons]
    omega

/-- deadlock freedom of the world, adoption included: if no event is enabled, the scheduler has nothing queued and no
    helper thread is pending. -/
theorem stuck_quiescentA {w : W} (h : SoundA fl totals done0 d0 w) (hmax : ∀ e, ¬ WEnabled w e) :
    w.a.s.ready = [] ∧ w.a.s.threads = [] := by
  have hP := h.invP
  have hD := (wreach_inv h.reach).disk
  have hL := (wreach_link h.reach).2
  have hr : w.a.s.ready = [] := by
    apply Classical.byContradiction; intro h'; exact hmax (.sched .step) h'
  refine ⟨hr, ?_⟩
  cases ht : w.a.s.threads with
  | nil => rfl
  | cons t ts =>
    exfalso
    obtain ⟨kind, j⟩ := t
    have hk : w.a.s.threads[0]? = some (kind, j) := by rw [ht]; rfl
    have hkm : (kind, j) ∈ w.a.s.threads := by rw [ht]; exact List.mem_cons_self ..
    have hkind := hP.kind _ hkm
    have hgn : world.gate w.a.d kind j (w.a.s.jobs j) (w.a.adopted j) = none := by
      cases hg : world.gate w.a.d kind j (w.a.s.jobs j) (w.a.adopted j) with
      | none => rfl
      | some r => exact absurd ⟨kind, j, r.1, r.2, hk, hg⟩ (hmax (.sched (.deliver 0)))
    have hjn : j < w.a.s.n := by
      apply Classical.byContradiction; intro hn
      have := (hP.fresh j (by omega)).1
      rw [this] at hkind
      cases kind <;> simp [kindOk] at hkind
    -- a busy run lock of the directory of `j` is impossible unless `j` waits for its `lockExit` thread
    have busy : (w.a.d.dir (w.a.s.jobs j).ident).lock ≠ .free → kind ≠ .lockExit → False := by
      intro hbusy hkne
      cases hlk : (w.a.d.dir (w.a.s.jobs j).ident).lock with
      | free => exact hbusy hlk
      | proc q =>
        obtain ⟨hq, _, hph⟩ := hD.holder _ q hlk
        refine hmax (.proc q false) ⟨hq, ?_⟩
        rcases hph with h' | h'
        · exact Or.inl h'
        · exact Or.inr (Or.inl h')
      | sched =>
        obtain ⟨j', h1, h2, h3⟩ := h.lock _ hlk
        have := h.uniq j' j h1 hjn h2
        subst this
        exact hkne (holds_thread_kind hkm hkind h3)
    cases kind with
    | lockEnter =>
      simp only [world] at hgn
      split at hgn
      · cases hgn
      · rename_i hne; exact busy hne (by simp)
    | lockExit => simp [world] at hgn
    | doneH => simp [world] at hgn
    | code =>
      have hpc : (w.a.s.jobs j).pc = .codeWait := by
        revert hkind; cases (w.a.s.jobs j).pc <;> simp [kindOk]
      have hproc : w.a.d.procOf j < w.a.d.np ∧ (w.a.d.procs (w.a.d.procOf j)).ident = (w.a.s.jobs j).ident := by
        rcases hL.cw j hpc with h' | h'
        · exact h.ai.proc j h'
        · exact hL.proc j h'
      obtain ⟨hplt, hpid⟩ := hproc
      have hal : w.a.d.alive (w.a.d.procOf j) = true := by
        simp only [world] at hgn
        split at hgn
        · assumption
        · split at hgn <;> cases hgn
      have hph : (w.a.d.procs (w.a.d.procOf j)).ph ≠ .gone := by
        simp only [Disk.alive, Bool.and_eq_true, decide_eq_true_eq] at hal
        exact hal.2
      have hne := hmax (.proc (w.a.d.procOf j) false)
      have hwait : (w.a.d.procs (w.a.d.procOf j)).ph = .waitLock ∧
          (w.a.d.dir (w.a.d.procs (w.a.d.procOf j)).ident).lock ≠ .free := by
        cases hp : (w.a.d.procs (w.a.d.procOf j)).ph with
        | gone => exact absurd hp hph
        | body => exact absurd ⟨hplt, Or.inl hp⟩ hne
        | exiting => exact absurd ⟨hplt, Or.inr (Or.inl hp)⟩ hne
        | waitLock =>
          refine ⟨rfl, fun hfree => ?_⟩
          exact hne ⟨hplt, Or.inr (Or.inr ⟨hp, hfree⟩)⟩
      rw [hpid] at hwait
      exact busy hwait.2 (by simp)

/-- **what a maximal run ends in**: every job final, every token full, nothing held. -/
theorem maximal_final {w : W} (h : SoundA fl totals done0 d0 w) (hfit : TokFit (abs w.a.adopted w.a.s))
    (hmax : ∀ e, ¬ WEnabled w e) :
    w.a.s.ready = [] ∧ w.a.s.threads = [] ∧ AllFinal w.a.s ∧ (∀ t, w.a.s.avail t = w.a.s.total t) ∧
    ∀ j, (w.a.s.jobs j).held = [] := by
  obtain ⟨hr, ht⟩ := stuck_quiescentA h hmax
  have hr' : (abs w.a.adopted w.a.s).ready = [] := by rw [abs_ready, hr]; rfl
  obtain ⟨q1, q2, q3⟩ := quiescent_final' h.good hfit hr' ht
  refine ⟨hr, ht, ?_, q2, ?_⟩
  · intro j hj
    have := q1 j hj
    rw [abs_pc] at this
    exact this
  · intro j
    cases hj : w.a.adopted j with
    | true => exact h.ai.held j hj
    | false => have := q3 j; rw [abs_jobs_na hj] at this; exact this

/-- at the end of a maximal run no run lock is held and every job process has exited. -/
theorem maximal_disk_idleA {w : W} (h : SoundA fl totals done0 d0 w) (hfin : AllFinal w.a.s) (hmax : ∀ e, ¬ WEnabled w e) :
    (∀ i, (w.a.d.dir i).lock = .free) ∧ (∀ p, (w.a.d.procs p).ph = .gone) ∧ ∀ i, w.a.d.running i = 0 := by
  have hD := (wreach_inv h.reach).disk
  have hfree : ∀ i, (w.a.d.dir i).lock = .free := by
    intro i
    cases hlk : (w.a.d.dir i).lock with
    | free => rfl
    | proc q =>
      exfalso
      obtain ⟨hq, _, hph⟩ := hD.holder _ q hlk
      refine hmax (.proc q false) ⟨hq, ?_⟩
      rcases hph with h' | h'
      · exact Or.inl h'
      · exact Or.inr (Or.inl h')
    | sched =>
      exfalso
      obtain ⟨j, h1, _, h3⟩ := h.lock i hlk
      rcases hfin j h1 with hn | ⟨r, hr⟩
      · rcases h3 with ⟨q, _⟩ | ⟨q | q, _⟩ <;> rw [hn] at q <;> cases q
      · rcases h3 with ⟨q, _⟩ | ⟨q | q, _⟩ <;> rw [hr] at q <;> cases q
  refine ⟨hfree, ?_, fun i => by unfold Disk.running; rw [hfree i]⟩
  intro p
  by_cases hp : p < w.a.d.np
  · have hne := hmax (.proc p false)
    cases hph : (w.a.d.procs p).ph with
    | gone => rfl
    | body => exact absurd ⟨hp, Or.inl hph⟩ hne
    | exiting => exact absurd ⟨hp, Or.inr (Or.inl hph)⟩ hne
    | waitLock => exact absurd ⟨hp, Or.inr (Or.inr ⟨hph, hfree _⟩)⟩ hne
  · exact hD.fresh p (by omega)

/-- maximal runs exist (the measure is finite). -/
theorem maximal_run_existsA (hg : fl.readyGuarded = true) (hf : fl.resubmitRegisters = true) (ha : fl.abortRechecks = true)
    (hrel : fl.abortReleases = true) :
    ∀ (m : Nat) (w : W), SoundA fl totals done0 d0 w → wmuA w ≤ m →
      ∃ evs, RunE fl w evs ∧ ∀ e, ¬ WEnabled (W.run fl w evs) e := by
  intro m
  induction m with
  | zero =>
    intro w h hm
    refine ⟨[], trivial, fun e hen => ?_⟩
    have := (soundA_step hg hf ha hrel h e hen).2.1
    omega
  | succ m ih =>
    intro w h hm
    by_cases hex : ∃ e, WEnabled w e
    · obtain ⟨e, hen⟩ := hex
      obtain ⟨h', hlt, _⟩ := soundA_step hg hf ha hrel h e hen
      obtain ⟨evs, r1, r2⟩ := ih (w.apply fl e) h' (by omega)
      exact ⟨e :: evs, ⟨hen, r1⟩, r2⟩
    · exact ⟨[], trivial, fun e hen => hex ⟨e, hen⟩⟩

end runs

end XpmVerif.RestartLive
