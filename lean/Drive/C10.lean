import XpmVerif.Basic.JsonUtil
import XpmVerif.Model.Runner
/-! Line-protocol driver for M3 (C10).  `lake env lean --run Drive/C10.lean < ops.jsonl`

    op "crash": launcher 0 takes the lock, spawns runner 0, writes the pid file, releases; runner 0
    advances to the program location `at`; the signal `sig` is delivered there; optionally it advances to
    the position `at2` (`hnd:<stage>` inside the running handler, or a location) where `sig2` is delivered;
    runner 0 runs until it is dead; the directory is reported; launcher 1 relaunches the script (body outcome ok) and the
    result is reported again.
    op "path": the list of locations visited by an undisturbed run (diagnostics / coverage). -/
open Lean XpmVerif XpmVerif.J XpmVerif.Runner

def csName : CS → String | .test => "test" | .rmPid => "rmPid" | .relLock => "relLock"
def hsName : HS → String | .write => "write" | .test => "test" | .rmPid => "rmPid" | .relLock => "relLock" | .exit => "exit"
def locName : Loc → String
  | .init => "init" | .reg => "reg" | .term => "term" | .pre => "pre" | .tryLock => "tryLock"
  | .locked => "locked" | .rmFailed => "rmFailed" | .setStarted => "setStarted" | .callBody => "callBody" | .body k => s!"body:{k}"
  | .raised1 => "raised1" | .raised0 => "raised0" | .bodyDone => "bodyDone" | .restTerm => "restTerm" | .restInt => "restInt" | .sysExit => "sysExit"
  | .touch => "touch" | .reraise => "reraise" | .skipped => "skipped"
  | .herr h _ => s!"herr:{hsName h}"
  | .fin (some c) _ => s!"fin:{csName c}"
  | .fin none _ => "fin:none"

def sigOf : String → Option Sig | "kill" => some .kill | "term" => some .term | "int" => some .int | _ => none
def outcomeOf (j : Json) : Outcome :=
  match strF j "outcome" with
  | "ok" => .ok | "exc" => .exc | _ => .exit (natF j "n")

def exitJ : Exit → Json
  | .code n => (Int.ofNat n : Int)
  | .signal .kill => (-9 : Int) | .signal .term => (-15 : Int) | .signal .int => (-2 : Int)

def optNatJ : Option Nat → Json | none => Json.null | some n => (n : Nat)

def dirJ (s : St) : Json :=
  Json.mkObj [("done", s.sh.done), ("failed", optNatJ s.sh.failed), ("pid", s.sh.pid.isSome),
              ("lockfree", s.sh.lock.isNone)]

/-- where the process is: the stage of a running signal handler (`hnd:<stage>`), else the main location -/
def posName (p : Proc) : String :=
  match p.hnd with
  | some (h, _) => s!"hnd:{hsName h}"
  | none => locName p.loc

/-- advance process `i` until it is at the position named `t` -/
def advance (cfg : Cfg) (i : Nat) (t : String) : Nat → St → Option St
  | 0, _ => none
  | fuel + 1, s =>
    let p := s.procs i
    if p.dead.isSome then none
    else if posName p == t then some s
    else advance cfg i t fuel (act cfg s (.step i))

def toDeath (cfg : Cfg) (i : Nat) : Nat → St → St
  | 0, s => s
  | fuel + 1, s => if (s.procs i).dead.isSome then s else toDeath cfg i fuel (act cfg s (.step i))

def pathOf (cfg : Cfg) (i : Nat) : Nat → St → List String
  | 0, _ => []
  | fuel + 1, s =>
    if (s.procs i).dead.isSome then [] else locName (s.procs i).loc :: pathOf cfg i fuel (act cfg s (.step i))

def launch (cfg : Cfg) (s : St) (l : Nat) (o : Outcome) (b : Nat) : St :=
  run cfg s [.lLock l, .lSpawn l o b, .lWrite l, .lRelease l]

def step (_ : Unit) (j : Json) : Unit × Json :=
  let cfg : Cfg := { unregOnSuccess := boolF j "unreg",
                     markerFirst := if isNull (fld j "markerfirst") then true else boolF j "markerfirst" }
  let init := fld j "init"
  let s0 := St.init (boolF init "done") (optNat (fld init "failed"))
  let s1 := launch cfg s0 0 (outcomeOf j) (natF j "blen")
  let out :=
    match strF j "op" with
    | "path" => Json.mkObj [("path", Json.arr ((pathOf cfg 0 300 s1).map Json.str).toArray)]
    | "crash" =>
      let target := strF j "at"
      let sg := sigOf (strF j "sig")
      let s2? := if sg.isNone then some s1 else advance cfg 0 target 300 s1
      (match s2? with
       | none => Json.mkObj [("error", Json.str s!"location {target} not reached")]
       | some s2 =>
         let s3 := match sg with | some g => act cfg s2 (.signal 0 g) | none => s2
         -- optional second fault: advance to position `at2`, deliver `sig2`
         let s3b? := match sigOf (strF j "sig2") with
           | some g2 => (advance cfg 0 (strF j "at2") 300 s3).map (fun s => act cfg s (.signal 0 g2))
           | none => some s3
         match s3b? with
         | none => Json.mkObj [("error", Json.str s!"second position {strF j "at2"} not reached")]
         | some s3b =>
         let s4 := toDeath cfg 0 300 s3b
         let p := s4.procs 0
         let s5 := launch cfg s4 1 .ok (natF j "blen")
         let s6 := toDeath cfg 1 300 s5
         let q := s6.procs 1
         Json.mkObj [
           ("dead", p.dead.isSome),
           ("rc", match p.dead with | some e => exitJ e | none => Json.null),
           ("dir", dirJ s4),
           ("starts", s4.sh.starts), ("completed", p.completed),
           ("relaunch", Json.mkObj [
              ("dead", q.dead.isSome),
              ("rc", match q.dead with | some e => exitJ e | none => Json.null),
              ("ran", s6.sh.starts - s4.sh.starts),
              ("dir", dirJ s6)])])
    | op => Json.mkObj [("error", Json.str s!"bad-op {op}")]
  ((), out)

def main : IO Unit := J.loop step ()
