"""Worker: dependency collection at submission (C04, second sentence).

usage: python -m xv.impl.deps_worker <in.json> <out.json>
in:  {"cases": [{"tasks": [{"cls": "G"|"GO", "k": int, "embeds": [[position, upstream index]]}]}]}
out: [{"lines": [driver lines], "impl": [...], "expected": [[task indices]], "error": None|str}]

Every case runs inside a real `experiment(..., run_mode=DRY_RUN)`: upstream tasks are really submitted,
their outputs embedded at the requested positions of the next task's parameters, and the
dependencies the real `submit` attaches to the job are read back."""
import importlib
import json
import shutil
import sys
import tempfile
import traceback
from pathlib import Path

SRC = '''
from typing import List, Dict, Optional
from experimaestro import Config, Task, Param, Meta, LightweightTask

class Out(Config):
    __xpmid__ = "xvdeps.out"
    v: Param[int]

class Holder(Config):
    __xpmid__ = "xvdeps.holder"
    inner: Param[Optional["G"]]
    sub: Param[Optional["Holder"]]
    items: Param[List["G"]] = []
    out: Param[Optional[Out]]

class LWD(LightweightTask):
    __xpmid__ = "xvdeps.lwd"
    t: Param[Optional["G"]]
    o: Param[Optional[Out]]
    hs: Param[List[Holder]] = []
    def execute(self):
        pass

class G(Task):
    __xpmid__ = "xvdeps.g"
    k: Param[int]
    a: Param[Optional["G"]]
    items: Param[List["G"]] = []
    m: Param[Dict[str, "G"]] = {}
    h: Param[Optional[Holder]]
    hs: Param[List[Holder]] = []
    o: Param[Optional[Out]]
    os: Param[List[Out]] = []
    mo: Param[Dict[str, Out]] = {}
    ma: Meta[Optional["G"]]
    def execute(self):
        pass

class GO(G):
    __xpmid__ = "xvdeps.go"
    def task_outputs(self, dep):
        return dep(Out(v=self.k))

class GPT(G):
    """pass-through: marks the value of its parameter `o` (possibly already the output of an upstream task) as its own output"""
    __xpmid__ = "xvdeps.gpt"
    def task_outputs(self, dep):
        return dep(self.o) if self.o is not None else dep(Out(v=self.k))
'''


def build_task(mod, ts, tasks, outs, created, extra):
    """returns (task object, init task list); `extra[j]` = upstream tasks that reach the output object of
    task j through pre-tasks added to that output after j was submitted"""
    def holder(**k):
        o = mod.Holder(**k)
        created.append(o)
        return o

    def lwd(**k):
        o = mod.LWD(**k)
        created.append(o)
        return o

    kw = {"k": ts["k"]}
    items, m, hs, os_, mo = [], {}, [], [], {}
    pre, init, explicit = [], [], []
    hh = []  # holders for the single-valued parameter `h` (the first one) — the others go to `hs`

    for emb in ts["embeds"]:
        pos, j = emb[0], emb[1]
        T, O = tasks[j], outs[j]  # the task object and what its submit returned
        is_task_value = O is T
        if pos == "o.pre":
            # a pre-task carrying another upstream task, added to the (unsealed) output object of task j
            k = emb[2]
            if not is_task_value and tasks[k] is outs[k]:
                O.add_pretasks(lwd(t=tasks[k]))
                extra.setdefault(j, set()).add(k)
            pos = "o"
        if pos in ("a", "ma", "o") and pos in kw:
            pos = "items" if is_task_value else "os"   # single-valued position already used
        if pos == "a" and is_task_value:
            kw["a"] = T
        elif pos == "items" and is_task_value:
            items.append(T)
        elif pos == "m" and is_task_value:
            m[f"k{len(m)}"] = T
        elif pos == "ma" and is_task_value:
            kw["ma"] = T
        elif pos == "h.inner" and is_task_value:
            hh.append(holder(inner=T))
        elif pos == "h.sub.inner" and is_task_value:
            hh.append(holder(sub=holder(inner=T)))
        elif pos == "h.sub.sub.items" and is_task_value:
            hh.append(holder(sub=holder(sub=holder(items=[T]))))
        elif pos == "h.loaded" and is_task_value:
            # a *loaded* configuration (what deserialisation — load / from_task_dir — returns: the `task` field is kept, `loaded` is
            # set): its arguments are walked (dependency on T), the task that once produced it (tasks[emb[2]]) is not a dependency
            L = holder(inner=T)
            L.__xpm__.task = tasks[emb[2]]
            L.__xpm__.loaded = True
            hh.append(L)
        elif pos == "hs.inner" and is_task_value:
            hs.append(holder(inner=T))
        elif pos == "hs.items" and is_task_value:
            hs.append(holder(items=[T]))
        elif pos == "o" and not is_task_value:
            kw["o"] = O
        elif pos == "os" and not is_task_value:
            os_.append(O)
        elif pos == "mo" and not is_task_value:
            mo[f"k{len(mo)}"] = O
        elif pos == "h.out" and not is_task_value:
            hh.append(holder(out=O))
        elif pos == "pre":
            pre.append(lwd(t=T) if is_task_value else lwd(o=O))
        elif pos == "pre.hs" and is_task_value:
            pre.append(lwd(hs=[holder(inner=T)]))
        elif pos == "init":
            init.append(lwd(t=T) if is_task_value else lwd(o=O))
        elif pos == "explicit":
            explicit.append(T)
        else:
            # position not applicable to this kind of upstream value: fall back to a generic one
            if is_task_value:
                items.append(T)
            else:
                os_.append(O)
    if items:
        kw["items"] = items
    if m:
        kw["m"] = m
    if os_:
        kw["os"] = os_
    if mo:
        kw["mo"] = mo
    if hh:
        kw["h"] = hh[0]
        hs += hh[1:]
    if hs:
        kw["hs"] = hs
    t = getattr(mod, ts["cls"])(**kw)
    if ts.get("copy") and not pre and not explicit:
        # another public way to obtain the task object: copyconfig(base, k=…) — the copy must embed the same upstream values
        from experimaestro import copyconfig
        created.append(t)      # the base object stays in the graph (never submitted)
        t = copyconfig(t, k=ts["k"])
    created.append(t)
    if pre:
        t.add_pretasks(*pre)
    launcher = None
    if explicit and ts.get("via") == "listener":
        from experimaestro.connectors.local import LocalConnector
        from experimaestro.launchers.direct import DirectLauncher
        launcher = DirectLauncher(LocalConnector.instance())
        deps = [e.__xpm__.dependency() for e in explicit]
        launcher.addListener(lambda job, deps=deps: [job.dependencies.add(d) for d in deps])
    else:
        for e in explicit:
            t.add_dependencies(e.__xpm__.dependency())
    return t, init, launcher


def main():
    from experimaestro import experiment, RunMode
    from . import cfgbuild
    data = json.loads(Path(sys.argv[1]).read_text())
    root = Path(tempfile.mkdtemp(prefix="xvdeps-"))
    out = []
    try:
        (root / "xvdeps").mkdir()
        (root / "xvdeps" / "__init__.py").write_text(SRC)
        sys.path.insert(0, str(root))
        mod = importlib.import_module("xvdeps")
        for ci, case in enumerate(data["cases"]):
            rec = {"lines": [], "impl": [], "expected": [], "error": None}
            try:
                ws = root / f"ws{ci}"
                with experiment(ws, "deps", port=-1, run_mode=RunMode.DRY_RUN):
                    tasks, outs, created, extra = [], [], [], {}
                    actual = []
                    snapshots = []
                    producer = {}   # id(output object) -> index of the task whose submit returned it last
                    for ts in case["tasks"]:
                        t, init, launcher = build_task(mod, ts, tasks, outs, created, extra)
                        producer_before = dict(producer)
                        # the graph as `submit` sees it (a pass-through task re-marks an embedded output afterwards)
                        snap_index = {id(o): i for i, o in enumerate(created)}
                        try:
                            snap_nodes = cfgbuild.model_graph(created)
                            snap_nodes[snap_index[id(t)]]["init"] = [snap_index[id(x)] for x in init]   # submit(init_tasks=…)
                            snapshots.append((snap_nodes, snap_index[id(t)],
                                              sorted({snap_index[id(tasks[e[1]])] for e in ts["embeds"] if e[0] == "explicit"}),
                                              sorted(snap_index[id(c)] for c in created if c.__xpm__.loaded)))
                        except KeyError:
                            # the task embeds an object nobody built (a copy made by the code under test): no graph for the model,
                            # the monitors on expected / actual dependencies still apply
                            snapshots.append(None)
                            rec["foreign_objects"] = True
                        import io, contextlib
                        with contextlib.redirect_stderr(io.StringIO()):
                            kws = {}
                            if init:
                                kws["init_tasks"] = init
                            if launcher is not None:
                                kws["launcher"] = launcher
                            o = t.submit(**kws)
                        if o is not t and not any(o is c for c in created):
                            created.append(o)
                        if o is not t:
                            producer[id(o)] = len(tasks)
                        tasks.append(t)
                        outs.append(o)
                        deps = []
                        for d in t.__xpm__.job.dependencies:
                            origin = getattr(d, "origin", None)
                            j = next((i for i, u in enumerate(tasks) if u.__xpm__.job is origin), None)
                            deps.append(j)
                        actual.append(sorted(set(x for x in deps if x is not None)))
                        # an embedded task output stands for the task whose submit returned that object last (pass-through tasks)
                        exp = {e[1] if (e[0] == "explicit" or outs[e[1]] is tasks[e[1]]) else producer_before.get(id(outs[e[1]]), e[1]) for e in ts["embeds"]}
                        for e in ts["embeds"]:
                            if e[0] != "explicit" and outs[e[1]] is not tasks[e[1]]:
                                exp |= extra.get(e[1], set())
                        rec["expected"].append(sorted(exp))
                    for i, snap in enumerate(snapshots if all(x is not None for x in snapshots) else []):
                        nodes, tn, explicit, loaded = snap
                        rec["lines"].append({"op": "graph", "nodes": nodes})
                        rec["impl"].append({"ok": True})
                        rec["lines"].append({"op": "deps", "n": tn, "explicit": explicit, "loaded": loaded})
                        rec["impl"].append({"deps": sorted(snapshots[j][1] for j in actual[i])})
                    rec["actual"] = actual
            except Exception as e:
                rec["error"] = f"{type(e).__name__}: {e}"
                rec["trace"] = traceback.format_exc()[-1500:]
            out.append(rec)
    finally:
        shutil.rmtree(root, ignore_errors=True)
    Path(sys.argv[2]).write_text(json.dumps(out))


if __name__ == "__main__":
    main()
