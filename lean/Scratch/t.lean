import XpmVerif.Proofs.SerialData
namespace XpmVerif.Serial
open XpmVerif.Ident

theorem getTag_setTag_same : ∀ (t : Tags) (k : List Nat) (v : Val), getTag (setTag t k v) k = some v
  | [], k, v => by simp [setTag, getTag]
  | (k', v') :: r, k, v => by
    by_cases h : k = k'
    · simp [setTag, getTag, h]
    · simp only [setTag, h, if_false, getTag]
      exact getTag_setTag_same r k v

theorem getTag_setTag_other : ∀ (t : Tags) (k k' : List Nat) (v : Val), k ≠ k' → getTag (setTag t k' v) k = getTag t k
  | [], k, k', v, h => by simp [setTag, getTag, h]
  | (k'', v'') :: r, k, k', v, h => by
    by_cases h1 : k' = k''
    · subst h1
      simp [setTag, getTag, h]
    · simp only [setTag, h1, if_false, getTag]
      by_cases h2 : k = k''
      · simp [h2]
      · simp only [h2, if_false]
        exact getTag_setTag_other r k k' v h

theorem getTag_updTags_not_mem : ∀ (new acc : Tags) (k : List Nat), k ∉ new.map (·.1) → getTag (updTags acc new) k = getTag acc k
  | [], acc, k, _ => rfl
  | (k', v') :: r, acc, k, h => by
    simp only [List.map_cons, List.mem_cons, not_or] at h
    simp only [updTags]
    rw [getTag_updTags_not_mem r _ k h.2, getTag_setTag_other acc k k' v' h.1]

/-- `dict.update` with a dictionary: afterwards every key of it has its value -/
theorem getTag_updTags_of_mem : ∀ (new acc : Tags) (k : List Nat) (v : Val), (new.map (·.1)).Nodup → (k, v) ∈ new →
    getTag (updTags acc new) k = some v
  | [], _, _, _, _, h => by cases h
  | (k', v') :: r, acc, k, v, hnd, h => by
    simp only [List.map_cons, List.nodup_cons] at hnd
    simp only [updTags]
    rcases List.mem_cons.1 h with e | e
    · obtain ⟨rfl, rfl⟩ := Prod.mk.inj e
      rw [getTag_updTags_not_mem r _ k hnd.1, getTag_setTag_same]
    · exact getTag_updTags_of_mem r _ k v hnd.2 e

theorem succTags_wf (g : Graph) (hwf : WF g) : ∀ n, n < g.size → ∀ m ∈ succTags g n, m < g.size := by
  intro n hn m hm
  apply hwf n hn m
  simp only [succTags, succAll, List.mem_append] at hm ⊢
  rcases hm with ((h | h) | h) | h
  · exact Or.inl (Or.inl (Or.inl h))
  · exact Or.inl (Or.inr h)
  · exact Or.inr h
  · exact Or.inl (Or.inl (Or.inr h))

theorem tagOrder_last (g : Graph) (root : Nat) (hwf : WF g) (hr : root < g.size) :
    ∃ before, tagOrder g root = before ++ [root] := by
  obtain ⟨mid, seen', e⟩ :=
    dfs_root_last (succTags g) g.size (succTags_wf g hwf) (g.size + 1) root [] [] hr (unseen_nil_lt g.size) (by simp)
  refine ⟨exitsOf mid, ?_⟩
  simp only [tagOrder, e, List.nil_append, exitsOf_wrap]

theorem collectTags_own (g : Graph) (tg : Nat → Tags) (root : Nat) (hwf : WF g) (hr : root < g.size)
    (hnd : ((tg root).map (·.1)).Nodup) (k : List Nat) (v : Val) (h : (k, v) ∈ tg root) :
    getTag (collectTags g tg root) k = some v := by
  obtain ⟨before, e⟩ := tagOrder_last g root hwf hr
  simp only [collectTags, e, List.foldl_append, List.foldl_cons, List.foldl_nil]
  exact getTag_updTags_of_mem _ _ k v hnd h
end XpmVerif.Serial
