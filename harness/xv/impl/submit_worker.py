"""Worker: submit the root task of generated graphs in several environments (C01 job directory, C02
launcher / workspace / run mode neutrality).

usage: python -m xv.impl.submit_worker <in.json> <out.json>
in:  {"libs": [lib], "cases": [{"lib": i, "graph": g}]}   (node 0 of g is a task)
out: [{"unsubmitted": hex, "variants": [{"env": str, "identifier": hex, "relpath": str, "typeid": str, "jobdir": str}], "error": None|str}]
Environments: dry run in workspace A (default launcher); dry run in workspace B with an explicit DirectLauncher;
GENERATE_ONLY in workspace C (writes the job script and params.json, runs nothing)."""
import contextlib
import io
import json
import shutil
import sys
import tempfile
import traceback
from pathlib import Path


def main():
    from experimaestro import experiment, RunMode
    from experimaestro.connectors.local import LocalConnector
    from experimaestro.launchers.direct import DirectLauncher
    from . import cfgbuild
    data = json.loads(Path(sys.argv[1]).read_text())
    root = Path(tempfile.mkdtemp(prefix="xvsub-"))
    out = []
    try:
        mods = []
        for lib in data["libs"]:
            try:
                mods.append(cfgbuild.load_library(lib, root))
            except Exception as e:
                mods.append(RuntimeError(f"library cannot be loaded: {type(e).__name__}: {e}"[:300]))
        for ci, case in enumerate(data["cases"]):
            rec = {"variants": [], "error": None, "lines": [], "impl": [], "argsrc": {}}
            try:
                mod = mods[case["lib"]]
                if isinstance(mod, Exception):
                    raise mod
                lib = data["libs"][case["lib"]]
                objs = cfgbuild.build_graph(mod, case["graph"])
                rec["unsubmitted"] = objs[0].__xpm__.full_identifier.all.hex()
                envs = [("dry-run/wsA/default-launcher", RunMode.DRY_RUN, False), ("dry-run/wsB/explicit-launcher", RunMode.DRY_RUN, True),
                        ("generate-only/wsC", RunMode.GENERATE_ONLY, False)]
                for ei, (name, mode, explicit) in enumerate(envs):
                    objs = cfgbuild.build_graph(mod, case["graph"])
                    ws = root / f"ws{ci}_{ei}" / ("deep/er" if ei == 1 else "")
                    ws.mkdir(parents=True, exist_ok=True)
                    with contextlib.redirect_stderr(io.StringIO()):
                        with experiment(ws, f"xp{ei}", port=-1, run_mode=mode) as xp:
                            init = list(objs[0].__xpm__.init_tasks)  # submit() replaces the init tasks by its argument
                            if explicit:
                                objs[0].submit(launcher=DirectLauncher(LocalConnector.instance()), init_tasks=init)
                            else:
                                objs[0].submit(init_tasks=init)
                            job = objs[0].__xpm__.job
                            # the same submission for the model: the graph as it is now, with its tags / added dependencies, and
                            # the environment as explicit inputs (Model/IdentEnv.lean); the model echoes what it holds of them
                            env = {"launcher": 1 if explicit else None, "workspace": ei,
                                   "runmode": "generate-only" if mode == RunMode.GENERATE_ONLY else "dry-run"}
                            nodes = cfgbuild.model_graph(objs, lib=lib, stats=rec["argsrc"])
                            rec["argsrc"]["extra:environments"] = rec["argsrc"].get("extra:environments", 0) + 1
                            rec["lines"] += [{"op": "graph", "nodes": nodes, "env": env}, {"op": "extras"}, {"op": "full", "n": 0}]
                            rec["impl"] += [{"ok": True},
                                            {"tags": sum(len(nd["tags"]) for nd in nodes), "deps": sum(len(nd["deps"]) for nd in nodes),
                                             "workspace": env["workspace"], "launcher": env["launcher"], "runmode": env["runmode"]},
                                            {"id": objs[0].__xpm__.identifier.all.hex()}]
                            rec["variants"].append({
                                "env": name, "identifier": objs[0].__xpm__.identifier.all.hex(), "relpath": str(job.relpath),
                                "typeid": str(objs[0].__xpmtype__.identifier),
                                "jobdir": str(Path(job.path).relative_to(ws)),
                                "params_identifier": None,
                            })
                            if mode == RunMode.GENERATE_ONLY:
                                pj = Path(job.path) / "params.json"
                                if pj.exists():
                                    d = json.loads(pj.read_text())
                                    last = d["objects"][-1] if isinstance(d, dict) and "objects" in d else None
                                    if isinstance(last, dict):
                                        idf = last.get("identifier")
                                        rec["variants"][-1]["params_identifier"] = idf if isinstance(idf, str) else (idf or {}).get("main")
                # histories before the submission (same content, one more initialisation task given to submit()): the task
                # submitted at once / first used in-process (`instance()` validates and seals it) and written with
                # `state_dict` (the identifier is part of what is written), then submitted
                from experimaestro.core.serialization import state_dict
                from experimaestro.core.context import SerializationContext
                rec["histories"] = []
                for hi, hname in enumerate(["submit(init)", "instance,submit(init)", "instance,state_dict,submit(init)"]):
                    objs = cfgbuild.build_graph(mod, case["graph"])
                    extra = mod.LW(v=3)
                    ws = root / f"wsh{ci}_{hi}"
                    ws.mkdir(parents=True, exist_ok=True)
                    h = {"env": hname}
                    with contextlib.redirect_stderr(io.StringIO()):
                        with experiment(ws, "xph", port=-1, run_mode=RunMode.DRY_RUN) as xp:
                            try:
                                if hi >= 1:
                                    objs[0].instance()
                                if hi >= 2:
                                    state_dict(SerializationContext(), objs[0])
                            except Exception as e:
                                h["skipped"] = f"{type(e).__name__}: {e}"[:200]
                                rec["histories"].append(h)
                                continue
                            objs[0].submit(init_tasks=list(objs[0].__xpm__.init_tasks) + [extra])
                            h.update(identifier=objs[0].__xpm__.identifier.all.hex(), relpath=str(objs[0].__xpm__.job.relpath))
                            # the initialisation task given to submit() is part of what was identified: frozen from now on
                            try:
                                extra.v = 99
                                h["init_task_assignment"] = "accepted"
                            except Exception as e:
                                h["init_task_assignment"] = f"rejected:{type(e).__name__}"
                            h["identifier_after"] = objs[0].__xpm__.identifier.all.hex()
                    rec["histories"].append(h)
            except Exception as e:
                rec["error"] = f"{type(e).__name__}: {e}"
                rec["trace"] = traceback.format_exc()[-1200:]
            out.append(rec)
    finally:
        shutil.rmtree(root, ignore_errors=True)
    Path(sys.argv[2]).write_text(json.dumps(out))


if __name__ == "__main__":
    main()
