"""Entry point: python -m xv.main Cxx [--tier quick|thorough] [--replay path]"""
import argparse
import importlib
import json
import os
import sys
import traceback

from . import common


def _normalise_signals():
    """A check started as a background job of a non-interactive shell (`cmd &`, xargs, CI runners) inherits SIGINT/SIGQUIT
    *ignored*, and an ignored disposition survives exec: the job processes the harness starts would then never see the
    SIGINT the crash-point scenarios deliver (Python installs its KeyboardInterrupt handler only when SIGINT is not ignored).
    Give every child the default dispositions, whatever the caller's were."""
    import signal
    for sig, handler in ((signal.SIGINT, signal.default_int_handler), (signal.SIGQUIT, signal.SIG_DFL),
                         (signal.SIGTERM, signal.SIG_DFL)):
        try:
            if signal.getsignal(sig) == signal.SIG_IGN:
                signal.signal(sig, handler)
        except (OSError, ValueError):
            pass


def main():
    _normalise_signals()
    ap = argparse.ArgumentParser()
    ap.add_argument("prop")
    ap.add_argument("--tier", default=os.environ.get("VERIF_TIER", "quick"), choices=["quick", "thorough"])
    ap.add_argument("--replay")
    args = ap.parse_args()
    seed = int(os.environ.get("VERIF_SEED", "0") or 0)
    mod = importlib.import_module(f"xv.props.{args.prop.lower()}")
    ctx = common.Ctx(args.prop, args.tier, seed)
    try:
        if args.replay:
            return mod.replay(ctx, json.loads(open(args.replay).read()))
        # steps 1-2: translate, build, audit
        mod.prove(ctx)
        # step 3: correspondence and monitors (corpus first)
        mod.correspond(ctx)
        # step 4: witnesses of known / fixed findings
        for f in common.load_findings(args.prop):
            if hasattr(mod, "run_witness"):
                mod.run_witness(ctx, f)
        # step 5
        return common.verdict(ctx, getattr(mod, "search", None), getattr(mod, "LEVEL", "proof"))
    except Exception:
        traceback.print_exc()
        print(f"HARNESS-ERROR property={args.prop} (exit 2: not a verdict)")
        return 2
    finally:
        ctx.cleanup()


if __name__ == "__main__":
    sys.exit(main())
