/-! M7-src — vocabulary for the *ordered effect sequences* of `experiment.__enter__`, `experiment.__exit__`
(`scheduler/base.py`) and of the link step of `Scheduler.aio_submit`.

`harness/xv/translate/xpindexsrc.py` reads the three statement sequences off the AST and writes them as
lists of `GEff` into `Generated/XpIndexSrc.lean`.  An entry is one statement that has an effect outside the
Python object (file system, lock, threads, …) together with the conditions under which the source executes it
(run mode, exception or not, inside the `finally`).  Statements without such an effect (logging, imports,
assignments of constants) are not listed. -/
namespace XpmVerif.XpEff

/-- `RunMode` of the workspace -/
inductive Mode where
  | normal | generate | dryRun
deriving DecidableEq, Repr

/-- run-mode test that guards a statement -/
inductive Guard where
  /-- no test -/
  | always
  /-- `run_mode != RunMode.DRY_RUN` -/
  | notDry
  /-- `run_mode == RunMode.NORMAL` -/
  | normalOnly
deriving DecidableEq, Repr

/-- test on `exc_type` that guards a statement of `__exit__` -/
inductive ExcCond where
  | any
  /-- `exc_type is None` -/
  | noExc
  /-- `exc_type` (truthy) -/
  | onExc
deriving DecidableEq, Repr

/-- what one iteration of the rotation loop does with a path -/
inductive Act where
  | skip | unlink | rename
deriving DecidableEq, Repr

/-- test in front of `unlink` / `symlink_to` in the link step -/
inductive LinkTest where
  | always | isSymlink | pathExists | notExists | notSymlink
deriving DecidableEq, Repr

/-- the test holds for a path that is a link (to an existing directory) -/
def LinkTest.onLink : LinkTest → Bool
  | .always | .isSymlink | .pathExists => true
  | _ => false

/-- the test holds for a path where nothing is -/
def LinkTest.onAbsent : LinkTest → Bool
  | .always | .notExists | .notSymlink => true
  | _ => false

inductive Eff where
  /-- `self.xplock = connector.lock(self.xplockpath, 0).__enter__()` -/
  | takeLock
  /-- `self.jobsbakpath.mkdir(exist_ok=True)` -/
  | mkBak
  /-- `for p in self.jobspath.glob("*/*")`: what happens to a link whose name `jobs.bak` already has
      (`onDup`), to a link it has not (`onFresh`), to a path that is not a link (`onOther`) -/
  | rotate (onDup onFresh onOther : Act)
  /-- `rmtree(self.jobsbakpath)` -/
  | dropBak
  /-- `self.wait()` -/
  | wait
  /-- `self.xplock.__exit__(…)` -/
  | releaseLock
  /-- `self.xplockpath.unlink(…)` -/
  | unlinkLockFile
  /-- `path.parent.mkdir(parents=True, exist_ok=True)` -/
  | mkParent
  /-- `if <test>: path.unlink()` -/
  | unlinkIf (t : LinkTest)
  /-- `[if <test>:] path.symlink_to(job.path)` -/
  | symlinkIf (t : LinkTest)
  /-- any other statement with an outside effect (server, workspace, threads, signal handler, …) that
      does not touch `jobs`, `jobs.bak` or the lock -/
  | other
deriving DecidableEq, Repr

/-- one statement with the conditions under which it runs -/
structure GEff where
  guard : Guard
  exc : ExcCond
  /-- inside the `finally:` of `__exit__` -/
  fin : Bool
  eff : Eff
deriving DecidableEq, Repr

def Guard.holds : Guard → Mode → Bool
  | .always, _ => true
  | .notDry, m => m != .dryRun
  | .normalOnly, m => m == .normal

def ExcCond.holds : ExcCond → Bool → Bool
  | .any, _ => true
  | .noExc, exc => !exc
  | .onExc, exc => exc

/-- the statements a run in mode `m` executes (`exc` = an exception escaped the block; `false` for `__enter__`) -/
def select (seq : List GEff) (m : Mode) (exc : Bool) : List Eff :=
  (seq.filter (fun g => g.guard.holds m && g.exc.holds exc)).map (·.eff)

/-- the effect writes to `jobs` or `jobs.bak` -/
def Eff.writes : Eff → Bool
  | .mkBak | .rotate _ _ _ | .dropBak | .unlinkIf _ | .symlinkIf _ => true
  | _ => false

/-- the effects that concern the index or the lock, in order (everything but `other`) -/
def indexPart (es : List Eff) : List Eff := es.filter (· != .other)

end XpmVerif.XpEff
