import XpmVerif.Proofs.Restart
/-! Invariants of the restart world (`Model/Restart.lean`): the run lock, the success marker and the body counters of
    every job directory under any interleaving of job processes, schedulers, crashes and restarts; the scheduler
    changes the world only through its hooks.  Helper lemmas for C11. -/
namespace XpmVerif.Restart
open XpmVerif.Sched

/-- number of processes inside the body of identifier `i` as the lock tells it -/
def Disk.running (d : Disk) (i : Nat) : Nat :=
  match (d.dir i).lock with
  | .proc p => if (d.procs p).ph = .body then 1 else 0
  | _ => 0

/-- invariant of the persistent world (`done0` = success markers of the initial workspace) -/
structure DiskInv (done0 : Nat → Bool) (d : Disk) : Prop where
  fresh : ∀ p, d.np ≤ p → (d.procs p).ph = .gone
  holder : ∀ i p, (d.dir i).lock = .proc p → p < d.np ∧ (d.procs p).ident = i ∧ ((d.procs p).ph = .body ∨ (d.procs p).ph = .exiting)
  held : ∀ p, p < d.np → ((d.procs p).ph = .body ∨ (d.procs p).ph = .exiting) → (d.dir (d.procs p).ident).lock = .proc p
  bodyNotDone : ∀ p, p < d.np → (d.procs p).ph = .body → (d.dir (d.procs p).ident).done = false
  succ : ∀ i, (d.dir i).succ ≤ 1 ∧ ((d.dir i).done = true ↔ (done0 i = true ∨ (d.dir i).succ = 1)) ∧ (done0 i = true → (d.dir i).succ = 0)
  account : ∀ i, (d.dir i).bodies = (d.dir i).succ + (d.dir i).fails + d.running i
  okDone : ∀ p, p < d.np → (d.procs p).ok = true → (d.dir (d.procs p).ident).done = true
  pid : ∀ i p, (d.dir i).pid = some p → p < d.np ∧ (d.procs p).ident = i

theorem diskInv_init (done0 : Nat → Bool) : DiskInv done0 ({ dir := fun i => { done := done0 i } } : Disk) := by
  constructor <;> simp [Disk.running]

/-- every field of `DiskInv` for an explicitly updated world, from the fields `h1 … h8` of the old one -/
macro "disk_fields" h5:ident h6:ident : tactic => `(tactic| (
  constructor
  · intro q hq; simp only [Disk.setDir, Disk.setProc, Disk.spawn, upd] at *; grind
  · intro i q hq; simp only [Disk.setDir, Disk.setProc, Disk.spawn, upd] at *; grind
  · intro q hq hb; simp only [Disk.setDir, Disk.setProc, Disk.spawn, upd] at *; grind
  · intro q hq hb; simp only [Disk.setDir, Disk.setProc, Disk.spawn, upd] at *; grind
  · intro i; have := $h5 i; simp only [Disk.setDir, Disk.setProc, Disk.spawn, upd] at *; grind
  · intro i; have := $h6 i; simp only [Disk.setDir, Disk.setProc, Disk.spawn, Disk.running, upd] at *; grind
  · intro q hq hb; simp only [Disk.setDir, Disk.setProc, Disk.spawn, upd] at *; grind
  · intro i q hq; simp only [Disk.setDir, Disk.setProc, Disk.spawn, upd] at *; grind))

theorem diskInv_procStep {done0 : Nat → Bool} {d : Disk} (h : DiskInv done0 d) (p : Nat) (rm : Bool) :
    DiskInv done0 (d.procStep p rm) := by
  obtain ⟨h1, h2, h3, h4, h5, h6, h7, h8⟩ := h
  unfold Disk.procStep
  split
  · rename_i hp
    simp only []
    split
    · rename_i hph
      split
      · rename_i hfree
        split
        · rename_i hdone; disk_fields h5 h6
        · rename_i hdone; disk_fields h5 h6
      · exact ⟨h1, h2, h3, h4, h5, h6, h7, h8⟩
    · rename_i hph
      split
      · rename_i hcode; disk_fields h5 h6
      · rename_i hcode; disk_fields h5 h6
    · rename_i hph; disk_fields h5 h6
    · exact ⟨h1, h2, h3, h4, h5, h6, h7, h8⟩
  · exact ⟨h1, h2, h3, h4, h5, h6, h7, h8⟩

theorem diskInv_spawn {done0 : Nat → Bool} {d : Disk} (h : DiskInv done0 d) (i code : Nat) : DiskInv done0 (d.spawn i code) := by
  obtain ⟨h1, h2, h3, h4, h5, h6, h7, h8⟩ := h
  disk_fields h5 h6

/-- changes of a directory that are not the business of the job processes: the pid file, the scheduler taking a
    free lock or giving its lock back -/
theorem diskInv_setDir {done0 : Nat → Bool} {d : Disk} (h : DiskInv done0 d) (i : Nat) (x : Dir)
    (hd : x.done = (d.dir i).done) (hb : x.bodies = (d.dir i).bodies) (hs : x.succ = (d.dir i).succ) (hf : x.fails = (d.dir i).fails)
    (hl : x.lock = (d.dir i).lock ∨ ((d.dir i).lock = .free ∧ x.lock = .sched) ∨ ((d.dir i).lock = .sched ∧ x.lock = .free))
    (hp : x.pid = (d.dir i).pid ∨ x.pid = none ∨ ∃ p, x.pid = some p ∧ p < d.np ∧ (d.procs p).ident = i) :
    DiskInv done0 (d.setDir i x) := by
  obtain ⟨h1, h2, h3, h4, h5, h6, h7, h8⟩ := h
  disk_fields h5 h6

theorem diskInv_procOf {done0 : Nat → Bool} {d : Disk} (h : DiskInv done0 d) (f : Nat → Nat) : DiskInv done0 { d with procOf := f } := by
  obtain ⟨h1, h2, h3, h4, h5, h6, h7, h8⟩ := h
  exact ⟨h1, h2, h3, h4, h5, h6, h7, h8⟩

theorem diskInv_crash {done0 : Nat → Bool} {d : Disk} (h : DiskInv done0 d) : DiskInv done0 d.crash := by
  obtain ⟨h1, h2, h3, h4, h5, h6, h7, h8⟩ := h
  unfold Disk.crash
  constructor
  · intro q hq; simp only [] at *; grind
  · intro i q hq; simp only [] at *; grind
  · intro q hq hb; simp only [] at *; grind
  · intro q hq hb; simp only [] at *; grind
  · intro i; have := h5 i; simp only [] at *; grind
  · intro i; have := h6 i; simp only [Disk.running] at *; grind
  · intro q hq hb; simp only [] at *; grind
  · intro i q hq; simp only [] at *; grind


/-! ### the scheduler changes the world only through the hooks -/

theorem runCbA_pred {D : Type} (P : D → Prop) (hk : Hooks D)
    (hA : ∀ d j jb, P d → P (hk.onAdopt d j jb)) (hL : ∀ d j jb, P d → P (hk.onLaunch d j jb))
    (fl : Flags) (a : StA D) (cb : Cb) (h : P a.d) : P (runCbA fl hk a cb).d := by
  cases cb with
  | start j => simp only [runCbA]; split; exact hA _ _ _ h; exact h
  | resume j => simp only [runCbA]; split; exact hL _ _ _ h; exact h
  | _ => exact h

theorem stepsA_pred {D : Type} (P : D → Prop) (hk : Hooks D)
    (hA : ∀ d j jb, P d → P (hk.onAdopt d j jb)) (hL : ∀ d j jb, P d → P (hk.onLaunch d j jb))
    (fl : Flags) (k : Nat) : ∀ (a : StA D), P a.d → P (stepsA fl hk a k).d := by
  induction k with
  | zero => intro a h; exact h
  | succ k ih =>
    intro a h
    apply ih
    unfold stepA
    split
    · exact h
    · exact runCbA_pred P hk hA hL fl _ _ h

theorem applyA_pred {D : Type} (P : D → Prop) (hk : Hooks D)
    (hA : ∀ d j jb, P d → P (hk.onAdopt d j jb)) (hL : ∀ d j jb, P d → P (hk.onLaunch d j jb))
    (hG : ∀ d k j jb ad c d', P d → hk.gate d k j jb ad = some (c, d') → P d')
    (fl : Flags) (a : StA D) (e : Ev) (h : P a.d) : P (applyA fl hk a e).d := by
  cases e with
  | step => exact stepsA_pred P hk hA hL fl 1 a h
  | wait => exact h
  | deliver k =>
    simp only [applyA]
    split
    · split
      · exact h
      · rename_i hg; exact hG _ _ _ _ _ _ _ h hg
    · exact h
  | submit ident deps code marker =>
    simp only [applyA]
    have := stepsA_pred P hk hA hL fl (a.s.ready.length + 1) (submitPre a (newJob a.s ident deps code marker)) h
    unfold submitPost
    split <;> exact this

theorem world_onLaunch_inv {done0 : Nat → Bool} (d : Disk) (j : Nat) (jb : Job) (h : DiskInv done0 d) :
    DiskInv done0 (world.onLaunch d j jb) := by
  simp only [world]
  apply diskInv_procOf
  have h1 := diskInv_spawn h jb.ident jb.code
  apply diskInv_setDir h1 <;> simp [Disk.spawn, upd]

theorem world_gate_inv {done0 : Nat → Bool} (d : Disk) (k : TK) (j : Nat) (jb : Job) (ad : Bool) (c : Option Nat) (d' : Disk)
    (h : DiskInv done0 d) (hg : world.gate d k j jb ad = some (c, d')) : DiskInv done0 d' := by
  simp only [world] at hg
  cases k with
  | lockEnter =>
    simp only [] at hg
    split at hg
    · rename_i hfree
      simp at hg; obtain ⟨-, rfl⟩ := hg
      apply diskInv_setDir h <;> simp [hfree]
    · simp at hg
  | lockExit =>
    simp at hg; obtain ⟨-, rfl⟩ := hg
    apply diskInv_setDir h <;> simp
    by_cases hl : (d.dir jb.ident).lock = .sched <;> simp [hl]
  | code =>
    simp only [] at hg
    split at hg
    · simp at hg
    · split at hg <;> (simp at hg; obtain ⟨-, rfl⟩ := hg; exact h)
  | doneH => simp at hg; obtain ⟨-, rfl⟩ := hg; exact h

/-- worlds reachable from an initial workspace (`done0` = the success markers it contains; no job process, no pid
    file, no lock held) by any sequence of scheduler events, process moves, crashes and restarts -/
def WReach (fl : Flags) (totals : List Nat) (done0 : Nat → Bool) (w : W) : Prop :=
  ∃ evs : List WEv, w = W.run fl (W.init totals done0) evs

theorem WReach.apply {fl : Flags} {totals : List Nat} {done0 : Nat → Bool} {w : W} (h : WReach fl totals done0 w) (e : WEv) :
    WReach fl totals done0 (w.apply fl e) := by
  obtain ⟨evs, rfl⟩ := h
  refine ⟨evs ++ [e], ?_⟩
  suffices ∀ (evs : List WEv) (w0 : W), W.run fl w0 (evs ++ [e]) = (W.run fl w0 evs).apply fl e from (this evs _).symm
  intro evs
  induction evs with
  | nil => intro w0; rfl
  | cons x xs ih => intro w0; simp only [List.cons_append, W.run]; exact ih _

/-- what holds in every reachable world -/
structure WInv (done0 : Nat → Bool) (w : W) : Prop where
  sched : InvB w.a
  disk : DiskInv done0 w.a.d

theorem winv_apply {fl : Flags} {done0 : Nat → Bool} {w : W} (h : WInv done0 w) (e : WEv) : WInv done0 (w.apply fl e) := by
  cases e with
  | sched e =>
    refine ⟨applyA_invB fl world w.a e h.sched, ?_⟩
    exact applyA_pred (DiskInv done0) world (fun d j jb hd => diskInv_procOf hd _) (fun d j jb hd => world_onLaunch_inv d j jb hd)
      (fun d k j jb ad c d' hd hg => world_gate_inv d k j jb ad c d' hd hg) fl w.a e h.disk
  | proc p rm => exact ⟨h.sched, diskInv_procStep h.disk p rm⟩
  | crash => exact ⟨init_invB _ _, diskInv_crash h.disk⟩
  | crashAfterSpawn j =>
    simp only [W.apply]
    split
    · exact ⟨init_invB _ _, diskInv_crash (diskInv_spawn h.disk _ _)⟩
    · exact h
  | crashInPrepare j st =>
    simp only [W.apply]
    split
    · refine ⟨init_invB _ _, diskInv_crash (diskInv_setDir h.disk _ _ rfl rfl rfl rfl (Or.inl rfl) (Or.inl rfl))⟩
    · exact h

theorem wreach_inv {fl : Flags} {totals : List Nat} {done0 : Nat → Bool} {w : W} (h : WReach fl totals done0 w) : WInv done0 w := by
  obtain ⟨evs, rfl⟩ := h
  suffices ∀ (evs : List WEv) (w0 : W), WInv done0 w0 → WInv done0 (W.run fl w0 evs) from
    this evs _ ⟨init_invB _ _, diskInv_init done0⟩
  intro evs
  induction evs with
  | nil => intro w0 h; exact h
  | cons e es ih => intro w0 h; exact ih _ (winv_apply h e)


/-- what the first segment of `aio_submit` records: the marker it saw, and whether it took the adoption path -/
theorem start_records {D : Type} (fl : Flags) (hk : Hooks D) (a : StA D) (j : Nat) (h : InvP (some (.start j)) a.s a.adopted) :
    ((runCbA fl hk a (.start j)).s.jobs j).marker = (hk.look a.d j (a.s.jobs j)).marker ∧
    (runCbA fl hk a (.start j)).adopted j = (hk.look a.d j (a.s.jobs j)).adopt := by
  obtain ⟨-, -, -, -, -, -, -, had⟩ := pre_start a.s (a.adopted j) j (h.loc j)
  generalize hlk : hk.look a.d j (a.s.jobs j) = lk
  generalize hsm : a.s.put j { (a.s.jobs j) with marker := lk.marker } = sm
  have hm : (sm.jobs j).marker = lk.marker := by rw [← hsm]; simp [jobs_put]
  obtain ⟨-, -, -, p3, -⟩ := startPrefix_spec fl sm j
  by_cases hadopt : lk.adopt = true
  · have e : (runCbA fl hk a (.start j)).s =
        (startPrefix fl sm j).put j { ((startPrefix fl sm j).jobs j) with state := .running, pc := .codeWait } [] [(.code, j)] := by
      simp only [runCbA, hlk, hadopt, if_true, startJobA, hsm]
    have e2 : (runCbA fl hk a (.start j)).adopted = upd a.adopted j true := by
      simp only [runCbA, hlk, hadopt, if_true]
    rw [e, e2]
    exact ⟨by simp [jobs_put, p3, hm], by simp [upd, hadopt]⟩
  · have e : (runCbA fl hk a (.start j)).s = (startPrefix fl sm j).loopHead j := by
      simp only [runCbA, hlk, hadopt, startJobA, hsm, startJob_eq]; simp
    have e2 : (runCbA fl hk a (.start j)).adopted = a.adopted := by
      simp only [runCbA, hlk, hadopt]; simp
    obtain ⟨f, jb', ths, he, -, h2, -⟩ := loopHead_nf (startPrefix fl sm j) j
    rw [e, e2, he]
    refine ⟨by simp [jobs_put, h2, p3, hm], ?_⟩
    rw [had]; simpa using hadopt

end XpmVerif.Restart
