import XpmVerif.Proofs.RestartRefs
/-! C11, liveness of the restarted scheduler WITH adoption.  `SoundA` is the invariant of every world of the second run
    (re-submission phase included): the abstract state `abs adopted s` satisfies every invariant of M2 (`Good2`), and the
    concrete records of the adopted jobs satisfy `AdInv` (nothing held, references in range, every job dependency of an
    adopted job has its success marker — hypothesis `SubsOKA` — and a job whose marker exists never fails).
    Each enabled event of the world either is an event of M2 on the abstract state, or the adoption step (a sequence of
    moves of M2, `adopt_good2`), or the check of a dependency of an adopted job, which the abstract state does not see and
    which the measure `wmuA` counts separately. -/
set_option linter.unusedSimpArgs false
set_option linter.unusedVariables false
namespace XpmVerif.RestartLive
open XpmVerif.Sched hiding Reachable flOK submitPre submitPost sumTo
open XpmVerif.SchedFinal XpmVerif.Restart XpmVerif.RestartTerm XpmVerif.RestartAbs

/-- the pid file of directory `i` names a live process. -/
def LivePid (d : Disk) (i : Nat) : Prop := ∃ p, (d.dir i).pid = some p ∧ d.alive p = true

theorem look_adopt_iff (d : Disk) (j : Nat) (jb : Job) : (world.look d j jb).adopt = true ↔ LivePid d jb.ident := by
  show (match (d.dir jb.ident).pid with | some p => d.alive p | none => false) = true ↔ _
  unfold LivePid
  cases h : (d.dir jb.ident).pid with
  | none => simp
  | some p => simp

/-- every job dependency of `j` is an earlier job whose success marker existed at the restart. -/
def DepsMk (d0 : Disk) (s : St) (j : Nat) : Prop :=
  ∀ d o, d < (s.jobs j).deps.length → ((s.jobs j).deps.getD d default).origin = .job o →
    o < j ∧ Dn d0 (s.jobs o).ident

/-- dependencies registered so far, counted on the program counters. -/
def regP (s : St) : Nat :=
  SchedFinal.sumTo (fun j => if (s.jobs j).pc = .none ∨ (s.jobs j).pc = .created then 0 else (s.jobs j).deps.length) s.n

theorem regP_le_dTot (s : St) : regP s ≤ dTot s :=
  sumTo_mono _ _ _ (fun i _ => by split <;> omega)

/-- what the concrete records of the restart world satisfy beyond the abstract state. -/
structure AdInv (d0 : Disk) (a : StA Disk) : Prop where
  held : ∀ j, a.adopted j = true → (a.s.jobs j).held = []
  rng : RI (fun j d => a.adopted j = true → d < (a.s.jobs j).deps.length) a.s
  pre : ∀ j, (a.s.jobs j).pc = .created → LivePid a.d (a.s.jobs j).ident → DepsMk d0 a.s j
  post : ∀ j, a.adopted j = true → DepsMk d0 a.s j
  mkd : ∀ o, Dn d0 (a.s.jobs o).ident → (a.s.jobs o).pc = .none ∨ (a.s.jobs o).pc = .created ∨ (a.s.jobs o).state = .done ∨
    (a.adopted o = true ∧ (a.s.jobs o).pc = .codeWait ∧ (Restart.cRes a.s o = 1 → (a.s.jobs o).code = 0))
  dle : ∀ i, Dn d0 i → Dn a.d i
  lists : (∀ t, (a.s.tokDeps t).length ≤ regP a.s) ∧ (∀ o, (a.s.jobDeps o).length ≤ regP a.s)
  proc : ∀ j, a.adopted j = true → a.d.procOf j < a.d.np ∧ (a.d.procs (a.d.procOf j)).ident = (a.s.jobs j).ident

/-- the invariant of the second run. -/
structure SoundA (fl : Flags) (totals : List Nat) (done0 : Nat → Bool) (d0 : Disk) (w : W) : Prop where
  reach : WReach fl totals done0 w
  good : Good2 fl (abs w.a.adopted w.a.s)
  uniq : UniqId w.a.s
  lock : LockLink w.a.s w.a.d
  ai : AdInv d0 w.a

/-- bound on the plain callbacks one callback appends. -/
def cK (s : St) : Nat := 2 * (dTot s * dTot s) + dTot s + 1

/-- the variant of the second run with adoption. -/
def wmuA (w : W) : Nat :=
  (cK w.a.s + 1) * (4 * mu (abs w.a.adopted w.a.s) + procRank w.a.d) + gCount w.a.s.ready

/-! ### facts about the records, from the abstract state -/

section facts
variable {fl : Flags} {totals : List Nat} {done0 : Nat → Bool} {d0 : Disk} {w : W}

theorem SoundA.invP (h : SoundA fl totals done0 d0 w) : InvP none w.a.s w.a.adopted := (wreach_inv h.reach).sched.1

theorem abs_state (ad : Nat → Bool) (s : St) (i : Nat) : ((abs ad s).jobs i).state = (s.jobs i).state := by
  rw [abs_jobs, absRec_state]
theorem abs_pc (ad : Nat → Bool) (s : St) (i : Nat) : ((abs ad s).jobs i).pc = (s.jobs i).pc := by
  rw [abs_jobs, absRec_pc]

/-- an adopted job is past its first segment; RUNNING while it waits for its process, final afterwards. -/
theorem SoundA.ad_pc (h : SoundA fl totals done0 d0 w) (j : Nat) (ha : w.a.adopted j = true) :
    ((w.a.s.jobs j).pc = .codeWait ∧ (w.a.s.jobs j).state = .running) ∨
    (((w.a.s.jobs j).pc = .doneHandler ∨ ∃ r, (w.a.s.jobs j).pc = .finished r) ∧ (w.a.s.jobs j).state.finished = true) := by
  have hl := (h.invP.loc j).2.2.2 ha
  simp only [view] at hl
  have hp := hl.2
  have hJ := (h.good.g.e.c.d.recs j).runRunning
  have hL := (h.good.g.e.c.a.loc j).1
  rw [abs_pc, abs_state] at hJ hL
  revert hp hJ hL
  cases (w.a.s.jobs j).pc <;> simp [pcAdopted, pcRun, pcEnd]

theorem SoundA.ad_lt (h : SoundA fl totals done0 d0 w) (j : Nat) (ha : w.a.adopted j = true) : j < w.a.s.n := by
  apply Classical.byContradiction
  intro hn
  have := (h.invP.fresh j (by omega)).1
  rcases h.ad_pc j ha with ⟨e, _⟩ | ⟨e | ⟨r, e⟩, _⟩ <;> rw [this] at e <;> cases e

/-- a job whose marker existed at the restart is never in state ERROR. -/
theorem SoundA.mk_noerr (h : SoundA fl totals done0 d0 w) (o : Nat) (hd : Dn d0 (w.a.s.jobs o).ident) :
    (w.a.s.jobs o).state ≠ .error := by
  have hF := h.good.g.e.c.f o
  rw [abs_pc, abs_state] at hF
  rcases h.ai.mkd o hd with e | e | e | ⟨ha, e, _⟩
  · rw [hF (Or.inl e)]; simp
  · rw [hF (Or.inr e)]; simp
  · rw [e]; simp
  · rcases h.ad_pc o ha with ⟨_, e2⟩ | ⟨e2, _⟩
    · rw [e2]; simp
    · rcases e2 with e2 | ⟨r, e2⟩ <;> rw [e] at e2 <;> cases e2

/-- a dropped callback at the head of the queue is invisible. -/
theorem SoundA.stutterOK (h : SoundA fl totals done0 d0 w) (cb : Cb) (hm : cb ∈ w.a.s.ready)
    (hk : keepCb w.a.adopted cb = false) : StutterOK w.a.s cb := by
  have key : ∀ x d, w.a.adopted x = true → (Cb.check x d ∈ w.a.s.ready ∨ Cb.notifyCheck x d ∈ w.a.s.ready) →
      (w.a.s.jobs x).state ≠ .waiting ∧
      (w.a.s.status ((w.a.s.jobs x).deps.getD d default).origin = .fail → (w.a.s.jobs x).state.finished = true) := by
    intro x d hx hmem
    have hd := h.ai.rng.cb x d hmem hx
    rcases h.ad_pc x hx with ⟨_, e2⟩ | ⟨_, e2⟩
    · refine ⟨by rw [e2]; simp, ?_⟩
      intro hf
      exfalso
      cases ho : ((w.a.s.jobs x).deps.getD d default).origin with
      | tok t c => rw [ho] at hf; exact status_tok_nofail _ t c hf
      | job o =>
        rw [ho] at hf
        have := (status_job_fail _ o).1 hf
        exact h.mk_noerr o (h.ai.post x hx d o hd ho).2 this
    · refine ⟨?_, fun _ => e2⟩
      intro e; rw [e] at e2; simp [JS.finished] at e2
  cases cb with
  | check x d => exact key x d (by simpa [keepCb] using hk) (Or.inl hm)
  | notifyCheck x d => exact key x d (by simpa [keepCb] using hk) (Or.inr hm)
  | _ => trivial

/-- nothing refers to a job whose first segment has not begun. -/
theorem SoundA.noRef (h : SoundA fl totals done0 d0 w) (x : Nat) (hp : (w.a.s.jobs x).pc = .created) : NoRef w.a.s x := by
  have hx : w.a.adopted x = false := by
    cases hx : w.a.adopted x with
    | false => rfl
    | true => rcases h.ad_pc x hx with ⟨e, _⟩ | ⟨e | ⟨r, e⟩, _⟩ <;> rw [hp] at e <;> cases e
  have hun : ((abs w.a.adopted w.a.s).jobs x).state = .unscheduled :=
    h.good.g.e.c.f x (Or.inr (by rw [abs_pc]; exact hp))
  have hK := h.good.g.e.c.d.wf
  refine ⟨?_, ?_, ?_⟩
  · intro t p hpm e
    have : p ∈ (abs w.a.adopted w.a.s).tokDeps t := by
      rw [abs_tokDeps]; exact List.mem_filter.mpr ⟨hpm, by simp [keepP, e, hx]⟩
    have := (hK.tokDepsOK t p this).1.1
    rw [e] at this; exact this hun
  · intro o p hpm e
    have : p ∈ (abs w.a.adopted w.a.s).jobDeps o := by
      rw [abs_jobDeps]; exact List.mem_filter.mpr ⟨hpm, by simp [keepP, e, hx]⟩
    have := (hK.jobDepsOK o p this).1.1
    rw [e] at this; exact this hun
  · intro d
    constructor
    · intro hm
      have : Cb.check x d ∈ (abs w.a.adopted w.a.s).ready := by
        rw [abs_ready]; exact List.mem_filter.mpr ⟨hm, by simp [keepCb, hx]⟩
      exact (hK.cbOK x d (Or.inl this)).1 hun
    · intro hm
      have : Cb.notifyCheck x d ∈ (abs w.a.adopted w.a.s).ready := by
        rw [abs_ready]; exact List.mem_filter.mpr ⟨hm, by simp [keepCb, hx]⟩
      exact (hK.cbOK x d (Or.inr this)).1 hun

end facts

/-! ### helper lemmas on the segments (any state) -/

theorem releaseAll_held (x : Nat) (ds : List Nat) : ∀ s : St, ((St.releaseAll s x ds).jobs x).held = [] := by
  induction ds with
  | nil => intro s; simp [St.releaseAll]
  | cons d ds ih => intro s; rw [releaseAll_cons]; exact ih _

theorem releaseAll_const (s : St) (x : Nat) (ds : List Nat) :
    ((St.releaseAll s x ds).jobs x).code = (s.jobs x).code ∧ ((St.releaseAll s x ds).jobs x).held = [] :=
  ⟨(releaseAll_frame s x ds).2.2.2.2.2.2.1, releaseAll_held x ds s⟩

theorem finish_job (s : St) (x : Nat) : (s.finish x).jobs x = { (s.jobs x) with pc := .doneHandler } := by
  rw [(finish_shape s x).jobs]; simp

/-- the process-ended segment: the state is what the exit code says, nothing is held. -/
theorem resume_codeWait_rec (fl : Flags) (s : St) (x : Nat) (hp : (s.jobs x).pc = .codeWait) :
    ((s.resume fl x).jobs x).state = (if (s.jobs x).code = 0 then .done else .error) ∧
    ((s.resume fl x).jobs x).held = [] ∧ ((s.resume fl x).jobs x).pc = .doneHandler := by
  rw [resume_codeWait fl s x hp]
  unfold codeTail
  rw [finish_job]
  obtain ⟨h1, h2⟩ := releaseAll_const s x (s.jobs x).held
  simp only [put_jobs, SchedFinal.upd_same, h1, h2]
  exact ⟨trivial, trivial, trivial⟩

theorem resume_doneHandler_rec (fl : Flags) (s : St) (x : Nat) (hp : (s.jobs x).pc = .doneHandler) :
    ((s.resume fl x).jobs x).state = (s.jobs x).state ∧ ((s.resume fl x).jobs x).held = (s.jobs x).held := by
  rw [resume_doneHandler fl s x hp]
  simp [doneStep]

theorem startJobA_other (fl : Flags) (s : St) (x : Nat) (lk : Look) (i : Nat) (hi : i ≠ x) :
    (startJobA fl s x lk).jobs i = s.jobs i := by
  have h1 : ∀ u : St, (startPrefix fl u x).jobs i = u.jobs i := by
    intro u
    have hF := startJob_frame fl u x
    rw [Restart.startJob_eq] at hF
    have hL := loopHead_frame (startPrefix fl u x) x
    rw [← hL.2.2.2.2.1 i hi, hF.2.2.2.2.1 i hi]
  unfold startJobA
  split
  · simp only [put_jobs, upd_ne _ _ hi, h1]
  · rw [(startJob_frame fl _ x).2.2.2.2.1 i hi]; simp [upd_ne _ _ hi]

theorem startPrefix_held (fl : Flags) (s : St) (x : Nat) : ((startPrefix fl s x).jobs x).held = (s.jobs x).held := by
  have hc : ∀ (u : St) (d : Nat), ((u.check fl x d).jobs x).held = (u.jobs x).held := by
    intro u d; unfold St.check; simp only [put_jobs, SchedFinal.upd_same]; exact depChanged_held fl _ d _
  have hr : ∀ (k d : Nat) (u : St), ((St.registerDeps fl u x k d).jobs x).held = (u.jobs x).held := by
    intro k
    induction k with
    | zero => intro d u; rfl
    | succ k ih => intro d u; rw [registerDeps_succ, ih, hc, (regOne_frame u x d).1]
  rw [startPrefix_eq]
  have hb : ((prefBody fl s x).jobs x).held = (s.jobs x).held := by
    unfold prefBody
    simp only []
    split
    · simp
    · rw [hr]; simp
  unfold markStep
  split
  · simp only [put_jobs, SchedFinal.upd_same]; exact hb
  · exact hb

theorem startPrefix_sameConst (fl : Flags) (s : St) (x : Nat) : SameConst (s.jobs x) ((startPrefix fl s x).jobs x) := by
  have hF := startJob_frame fl s x
  rw [Restart.startJob_eq] at hF
  have hL := loopHead_frame (startPrefix fl s x) x
  -- the record after `loopHead` differs from the one before in `pc`, `event`, `sleeping` only
  have := hF.2.2.2.2.2
  have h2 := hL.2.2.2.2.2
  exact ⟨h2.1.symm.trans this.1, h2.2.1.symm.trans this.2.1, h2.2.2.1.symm.trans this.2.2.1, h2.2.2.2.symm.trans this.2.2.2⟩

theorem startPrefix_lists (fl : Flags) (s : St) (x : Nat) :
    (∀ t, ((startPrefix fl s x).tokDeps t).length ≤ (s.tokDeps t).length + (s.jobs x).deps.length) ∧
    (∀ o, ((startPrefix fl s x).jobDeps o).length ≤ (s.jobDeps o).length + (s.jobs x).deps.length) := by
  have := startJob_lists fl s x
  rw [Restart.startJob_eq] at this
  have hD := loopHead_frameD (startPrefix fl s x) x
  rw [hD.1, hD.2] at this
  exact this

theorem check_ready_awake (fl : Flags) (u : St) (x d : Nat) (hs : (u.jobs x).sleeping = false) :
    (u.check fl x d).ready = u.ready := by
  unfold St.check
  simp only [put_ready, (depChanged_awake fl (u.jobs x) d _ hs).1]
  simp

theorem registerDeps_ready_awake (fl : Flags) (x : Nat) : ∀ (k d : Nat) (u : St), (u.jobs x).sleeping = false →
    (St.registerDeps fl u x k d).ready = u.ready := by
  intro k
  induction k with
  | zero => intro d u _; rfl
  | succ k ih =>
    intro d u hs
    rw [registerDeps_succ]
    have hs1 : ((regOne u x d).jobs x).sleeping = false := by rw [(regOne_frame u x d).1]; exact hs
    rw [ih (d + 1) _ (check_sleeping fl _ x d hs1), check_ready_awake fl _ x d hs1, (regOne_frame u x d).2.1]

/-- the first segment up to the marker test appends nothing to the queue (nobody sleeps on the event yet). -/
theorem startPrefix_ready (fl : Flags) (s : St) (x : Nat) : (startPrefix fl s x).ready = s.ready := by
  rw [startPrefix_eq]
  have hb : (prefBody fl s x).ready = s.ready := by
    unfold prefBody
    simp only []
    split
    · simp
    · rw [registerDeps_ready_awake fl x _ _ _ (by simp)]; simp
  unfold markStep
  split
  · simp only [put_ready, List.append_nil]; exact hb
  · exact hb

/-- the adoption path: the record of the adopted job. -/
theorem startJobA_adopt_rec (fl : Flags) (s : St) (x : Nat) (lk : Look) (hl : lk.adopt = true) :
    ((startJobA fl s x lk).jobs x).pc = .codeWait ∧ ((startJobA fl s x lk).jobs x).held = (s.jobs x).held ∧
    ((startJobA fl s x lk).jobs x).ident = (s.jobs x).ident ∧
    ((startJobA fl s x lk).jobs x).deps.length = (s.jobs x).deps.length ∧
    (∀ d, (((startJobA fl s x lk).jobs x).deps.getD d default).origin = ((s.jobs x).deps.getD d default).origin) ∧
    (startJobA fl s x lk).ready = s.ready ∧ (startJobA fl s x lk).n = s.n := by
  unfold startJobA
  simp only [hl, if_true, put_jobs, SchedFinal.upd_same, put_ready, List.append_nil, SchedFinal.put_n]
  have hc := startPrefix_sameConst fl (s.put x { (s.jobs x) with marker := lk.marker }) x
  have hh := startPrefix_held fl (s.put x { (s.jobs x) with marker := lk.marker }) x
  simp only [put_jobs, SchedFinal.upd_same] at hc hh
  obtain ⟨o1, o2⟩ := sameConst_origin hc
  have hrdy : (startPrefix fl (s.put x { (s.jobs x) with marker := lk.marker }) x).ready = s.ready := by
    rw [startPrefix_ready]; simp
  refine ⟨trivial, hh, hc.1, o1, fun d => o2 d, hrdy, ?_⟩
  have hF := startJob_frame fl (s.put x { (s.jobs x) with marker := lk.marker }) x
  rw [Restart.startJob_eq] at hF
  have hL := loopHead_frame (startPrefix fl (s.put x { (s.jobs x) with marker := lk.marker }) x) x
  have := hL.1.symm.trans hF.1
  simpa using this

/-! ### one callback, on the abstract state -/

section stepAbs
variable {fl : Flags} {totals : List Nat} {done0 : Nat → Bool} {d0 : Disk} {w : W}

/-- what the popped callback tells about an adopted job. -/
theorem SoundA.head_facts (h : SoundA fl totals done0 d0 w) {cb : Cb} {rest : List Cb} (hr : w.a.s.ready = cb :: rest) :
    (∀ x, cb = .start x → w.a.adopted x = false ∧ (w.a.s.jobs x).pc = .created) ∧
    (∀ x, cb = .wake x → w.a.adopted x = false) ∧
    (∀ x, cb = .resume x → w.a.adopted x = true →
      (w.a.s.jobs x).held = [] ∧ ((w.a.s.jobs x).pc = .codeWait ∨ (w.a.s.jobs x).pc = .doneHandler)) := by
  have hp := pop_inv h.invP hr
  refine ⟨?_, ?_, ?_⟩
  · intro x e; subst e
    obtain ⟨hpc, -, -, -, -, -, -, had⟩ := pre_start _ _ x (hp.loc x)
    exact ⟨had, hpc⟩
  · intro x e; subst e
    obtain ⟨-, -, -, -, -, -, -, -, had⟩ := pre_wake _ _ x (hp.loc x)
    exact had
  · intro x e hx; subst e
    obtain ⟨hk, -, -, -, -, -, -, -, had⟩ := pre_resume _ _ x (hp.loc x)
    refine ⟨h.ai.held x hx, ?_⟩
    have := (had hx).2
    have hk' : pk (w.a.s.jobs x).pc = .thr := hk
    have hpa : pcAdopted (w.a.s.jobs x).pc = true := this
    revert hk' hpa
    cases (w.a.s.jobs x).pc <;> simp [pk, pcAdopted]

theorem step_abs (hg : fl.readyGuarded = true) (hf : fl.resubmitRegisters = true) (ha : fl.abortRechecks = true)
    (hrel : fl.abortReleases = true) (h : SoundA fl totals done0 d0 w) (cb : Cb) (rest : List Cb)
    (hr : w.a.s.ready = cb :: rest) :
    Good2 fl (abs (stepA fl world w.a).adopted (stepA fl world w.a).s) ∧
    (TokFit (abs w.a.adopted w.a.s) → TokFit (abs (stepA fl world w.a).adopted (stepA fl world w.a).s)) ∧
    ((keepCb w.a.adopted cb = false ∧ (stepA fl world w.a).adopted = w.a.adopted ∧ (stepA fl world w.a).d = w.a.d ∧
        abs (stepA fl world w.a).adopted (stepA fl world w.a).s = abs w.a.adopted w.a.s) ∨
     (keepCb w.a.adopted cb = true ∧
        mu (abs (stepA fl world w.a).adopted (stepA fl world w.a).s) < mu (abs w.a.adopted w.a.s))) ∧
    (∀ o, (w.a.s.jobs o).state = .done → ((stepA fl world w.a).s.jobs o).state = .done) := by
  obtain ⟨hst, hwk, hres⟩ := h.head_facts hr
  have hG := h.good
  by_cases hk : keepCb w.a.adopted cb = true
  case neg =>
    -- a dropped callback
    have hk' : keepCb w.a.adopted cb = false := by simpa using hk
    have hok := h.stutterOK cb (by rw [hr]; exact List.mem_cons_self ..) hk'
    obtain ⟨e1, e2, e3⟩ := sim_stutter fl hg w.a cb rest hr hk' hok
    have e3' : abs (stepA fl world w.a).adopted (stepA fl world w.a).s = abs w.a.adopted w.a.s := by rw [e1]; exact e3
    rw [e3']
    refine ⟨hG, fun hT => hT, Or.inl ⟨hk', e1, e2, rfl⟩, ?_⟩
    intro o ho
    have : ((abs w.a.adopted (stepA fl world w.a).s).jobs o).state = ((abs w.a.adopted w.a.s).jobs o).state := by rw [e3]
    rw [abs_state, abs_state] at this
    rw [this]; exact ho
  case pos =>
    by_cases hadopt : ∃ x, cb = .start x ∧ (world.look w.a.d x (w.a.s.jobs x)).adopt = true
    · -- the adoption step
      obtain ⟨x, rfl, had⟩ := hadopt
      obtain ⟨hx, hpc⟩ := hst x rfl
      obtain ⟨e1, e2, e3⟩ := sim_adopt fl w.a x rest hr had hx (h.noRef x hpc)
      have hq := abs_ready_cons_keep hr hk
      obtain ⟨g1, g2, g3⟩ := adopt_good2 hg hf ha hrel hG hq
      rw [e1, e3]
      refine ⟨g1, g3, Or.inr ⟨hk, g2⟩, ?_⟩
      intro o ho
      by_cases hox : o = x
      · subst hox
        have := hG.g.e.c.f o (Or.inr (by rw [abs_pc]; exact hpc))
        rw [abs_state, ho] at this; cases this
      · have : (stepA fl world w.a).s.jobs o = w.a.s.jobs o := by
          rw [stepA_cons fl world w.a (.start x) rest hr]
          have h0 : (world.look w.a.d x (({ w.a.s with ready := rest } : St).jobs x)).adopt = true := had
          simp only [runCbA, h0, if_true]
          exact startJobA_other fl _ x _ o hox
        rw [this]; exact ho
    · -- a callback of M2
      have hna : ∀ x, cb = .start x → (world.look w.a.d x (w.a.s.jobs x)).adopt = false := by
        intro x e
        cases hl : (world.look w.a.d x (w.a.s.jobs x)).adopt with
        | false => rfl
        | true => exact absurd ⟨x, e, hl⟩ hadopt
      obtain ⟨e1, e2⟩ := sim_normal fl w.a cb rest hr hk hna (fun x e => (hst x e).1) hwk hres
      -- the (possibly edited) abstract state on which the callback runs
      have key : ∀ te : St, Good2 fl te → mu te = mu (abs w.a.adopted w.a.s) →
          te.ready = (abs w.a.adopted w.a.s).ready → (TokFit (abs w.a.adopted w.a.s) → TokFit te) →
          (∀ o, (te.jobs o).state = (w.a.s.jobs o).state) →
          abs w.a.adopted (stepA fl world w.a).s = te.apply fl .step →
          Good2 fl (abs (stepA fl world w.a).adopted (stepA fl world w.a).s) ∧
          (TokFit (abs w.a.adopted w.a.s) → TokFit (abs (stepA fl world w.a).adopted (stepA fl world w.a).s)) ∧
          mu (abs (stepA fl world w.a).adopted (stepA fl world w.a).s) < mu (abs w.a.adopted w.a.s) ∧
          (∀ o, (w.a.s.jobs o).state = .done → ((stepA fl world w.a).s.jobs o).state = .done) := by
        intro te hGe hmu hre hTe hste hse
        have hq := abs_ready_cons_keep hr hk
        have hen : Enabled te .step := by show te.ready ≠ []; rw [hre, hq]; simp
        rw [e1, hse]
        refine ⟨good2_apply hg hf ha .step (evOK_enabled te .step hen) trivial hGe,
          fun hT => tokFit_enabled fl te .step hen (hTe hT), ?_, ?_⟩
        · rw [← hmu]; exact mu_decreases fl hg ha hrel te hGe.g.invT hGe.g.b.noreg .step hen
        · intro o ho
          have hs1 : ((abs w.a.adopted (stepA fl world w.a).s).jobs o).state = ((te.apply fl .step).jobs o).state := by rw [hse]
          rw [abs_state] at hs1
          rw [hs1, apply_step_cons fl te cb _ (by rw [hre]; exact hq)]
          exact done_stable hg hGe.g (by rw [hre]; exact hq) o (by rw [hste]; exact ho)
      have fin : ∀ te : St, Good2 fl te → mu te = mu (abs w.a.adopted w.a.s) →
          te.ready = (abs w.a.adopted w.a.s).ready → (TokFit (abs w.a.adopted w.a.s) → TokFit te) →
          (∀ o, (te.jobs o).state = (w.a.s.jobs o).state) →
          abs w.a.adopted (stepA fl world w.a).s = te.apply fl .step → _ := fun te a1 a2 a3 a4 a5 a6 =>
        (fun r => (⟨r.1, r.2.1, Or.inr ⟨hk, r.2.2.1⟩, r.2.2.2⟩ :
          Good2 fl (abs (stepA fl world w.a).adopted (stepA fl world w.a).s) ∧
          (TokFit (abs w.a.adopted w.a.s) → TokFit (abs (stepA fl world w.a).adopted (stepA fl world w.a).s)) ∧
          ((keepCb w.a.adopted cb = false ∧ (stepA fl world w.a).adopted = w.a.adopted ∧ (stepA fl world w.a).d = w.a.d ∧
              abs (stepA fl world w.a).adopted (stepA fl world w.a).s = abs w.a.adopted w.a.s) ∨
           (keepCb w.a.adopted cb = true ∧
              mu (abs (stepA fl world w.a).adopted (stepA fl world w.a).s) < mu (abs w.a.adopted w.a.s))) ∧
          (∀ o, (w.a.s.jobs o).state = .done → ((stepA fl world w.a).s.jobs o).state = .done))) (key te a1 a2 a3 a4 a5 a6)
      have plain : abs w.a.adopted (stepA fl world w.a).s = (abs w.a.adopted w.a.s).apply fl .step → _ :=
        fun e => fin _ hG rfl rfl (fun hT => hT) (fun o => abs_state _ _ o) e
      cases cb with
      | start x =>
        obtain ⟨hx, hpc⟩ := hst x rfl
        have hj : (abs w.a.adopted w.a.s).jobs x = w.a.s.jobs x := abs_jobs_na hx _
        have hpc' : ((abs w.a.adopted w.a.s).jobs x).pc = .created := by rw [hj]; exact hpc
        have hun := hG.g.e.c.f x (Or.inr hpc')
        have hsb : SameBut ((abs w.a.adopted w.a.s).jobs x) (markerRecA w.a x) := by
          rw [hj]; exact ⟨rfl, rfl, rfl, rfl, rfl, rfl, rfl, rfl, rfl, rfl⟩
        have hL : JLocal (markerRecA w.a x) := by
          have := jlocal_marker_edit (hG.g.e.c.a.loc x) hpc' hun (world.look w.a.d x (w.a.s.jobs x)).marker
          rw [hj] at this; exact this
        refine fin _ (good2_edit hG hsb hL) (mu_edit hsb) rfl (fun hT => tokFit_edit hT hsb) ?_ e2
        intro o
        by_cases hox : o = x
        · subst hox; rw [edit_jobs_same]; rfl
        · rw [edit_jobs_ne _ _ _ _ hox, abs_state]
      | resume x => exact plain e2
      | register x => exact plain e2
      | wake x => exact plain e2
      | check x d => exact plain e2
      | notifyCheck x d => exact plain e2
      | waiterRun => exact plain e2

end stepAbs

/-! ### one scheduler event on the concrete records: what `AdInv` needs -/

/-- the facts about one event `a → a'` of the scheduler from which `AdInv` is re-established. -/
structure TransF (a a' : StA Disk) : Prop where
  n : a'.s.n = a.s.n
  ident : ∀ i, (a'.s.jobs i).ident = (a.s.jobs i).ident
  lens : ∀ i, (a'.s.jobs i).deps.length = (a.s.jobs i).deps.length
  orig : ∀ i d, ((a'.s.jobs i).deps.getD d default).origin = ((a.s.jobs i).deps.getD d default).origin
  adMono : ∀ i, a.adopted i = true → a'.adopted i = true
  adNew : ∀ i, a'.adopted i = true → a.adopted i = false →
    (a.s.jobs i).pc = .created ∧ LivePid a.d (a.s.jobs i).ident ∧ (a'.s.jobs i).pc = .codeWait ∧
    Restart.cRes a'.s i = 0 ∧ (a'.s.jobs i).held = [] ∧
    a'.d.procOf i < a'.d.np ∧ (a'.d.procs (a'.d.procOf i)).ident = (a.s.jobs i).ident
  heldAd : ∀ i, a.adopted i = true → (a.s.jobs i).held = [] → (a'.s.jobs i).held = []
  rng : RI (fun j d => a'.adopted j = true → d < (a'.s.jobs j).deps.length) a'.s
  created : ∀ i, (a'.s.jobs i).pc = .created → (a.s.jobs i).pc = .created
  none : ∀ i, (a.s.jobs i).pc = .none → (a'.s.jobs i).pc = .none
  live : ∀ i, (a'.s.jobs i).pc = .created → LivePid a'.d (a.s.jobs i).ident → LivePid a.d (a.s.jobs i).ident
  done : ∀ o, (a.s.jobs o).state = .done → (a'.s.jobs o).state = .done
  started : ∀ o, (a.s.jobs o).pc = .created → (a'.s.jobs o).pc ≠ .created → a'.adopted o = false →
    Dn a.d (a.s.jobs o).ident → (a'.s.jobs o).state = .done
  cw : ∀ o, a.adopted o = true → (a.s.jobs o).pc = .codeWait → Dn a.d (a.s.jobs o).ident →
    (Restart.cRes a.s o = 1 → (a.s.jobs o).code = 0) →
    ((a'.s.jobs o).pc = .codeWait ∧ (Restart.cRes a'.s o = 1 → (a'.s.jobs o).code = 0)) ∨ (a'.s.jobs o).state = .done
  dle : DiskLe a.d a'.d
  procOf : ∀ i, a.adopted i = true → a'.d.procOf i = a.d.procOf i
  lists : (∀ t, (a.s.tokDeps t).length ≤ regP a.s) → (∀ o, (a.s.jobDeps o).length ≤ regP a.s) →
    (∀ t, (a'.s.tokDeps t).length ≤ regP a'.s) ∧ (∀ o, (a'.s.jobDeps o).length ≤ regP a'.s)

theorem depsMk_transfer {d0 : Disk} {s s' : St} {j : Nat} (h : DepsMk d0 s j)
    (hi : ∀ i, (s'.jobs i).ident = (s.jobs i).ident) (hl : (s'.jobs j).deps.length = (s.jobs j).deps.length)
    (ho : ∀ d, ((s'.jobs j).deps.getD d default).origin = ((s.jobs j).deps.getD d default).origin) : DepsMk d0 s' j := by
  intro d o hd hor
  rw [hl] at hd; rw [ho] at hor
  obtain ⟨h1, h2⟩ := h d o hd hor
  exact ⟨h1, by rw [hi]; exact h2⟩

theorem adInv_trans {fl : Flags} {totals : List Nat} {done0 : Nat → Bool} {d0 : Disk} {w : W} {a' : StA Disk}
    (h : SoundA fl totals done0 d0 w) (tr : TransF w.a a') : AdInv d0 a' := by
  have hai := h.ai
  refine ⟨?_, tr.rng, ?_, ?_, ?_, fun i hd => tr.dle.done i (hai.dle i hd), tr.lists hai.lists.1 hai.lists.2, ?_⟩
  rotate_left 1
  · intro j hpc hlv
    rw [tr.ident] at hlv
    exact depsMk_transfer (hai.pre j (tr.created j hpc) (tr.live j hpc hlv)) tr.ident (tr.lens j) (tr.orig j)
  rotate_left 2
  · intro j hj
    cases hja : w.a.adopted j with
    | true =>
      obtain ⟨p1, p2⟩ := hai.proc j hja
      rw [tr.procOf j hja, tr.ident]
      exact ⟨Nat.lt_of_lt_of_le p1 tr.dle.np, by rw [tr.dle.ident _ p1]; exact p2⟩
    | false =>
      obtain ⟨-, -, -, -, -, n6, n7⟩ := tr.adNew j hj hja
      rw [tr.ident]; exact ⟨n6, n7⟩
  · intro j hj
    cases hja : w.a.adopted j with
    | true => exact tr.heldAd j hja (hai.held j hja)
    | false => exact (tr.adNew j hj hja).2.2.2.2.1
  · intro j hj
    cases hja : w.a.adopted j with
    | true => exact depsMk_transfer (hai.post j hja) tr.ident (tr.lens j) (tr.orig j)
    | false =>
      obtain ⟨n1, n2, -⟩ := tr.adNew j hj hja
      exact depsMk_transfer (hai.pre j n1 n2) tr.ident (tr.lens j) (tr.orig j)
  · intro o hd
    rw [tr.ident] at hd
    rcases hai.mkd o hd with e | e | e | ⟨e1, e2, e3⟩
    · exact Or.inl (tr.none o e)
    · by_cases hc : (a'.s.jobs o).pc = .created
      · exact Or.inr (Or.inl hc)
      · cases hao : a'.adopted o with
        | false => exact Or.inr (Or.inr (Or.inl (tr.started o e hc hao (hai.dle _ hd))))
        | true =>
          have hoa : w.a.adopted o = false := by
            cases hoa : w.a.adopted o with
            | false => rfl
            | true => rcases h.ad_pc o hoa with ⟨e2, _⟩ | ⟨e2 | ⟨r, e2⟩, _⟩ <;> rw [e] at e2 <;> cases e2
          obtain ⟨-, -, n3, n4, -⟩ := tr.adNew o hao hoa
          exact Or.inr (Or.inr (Or.inr ⟨rfl, n3, fun hc1 => by rw [n4] at hc1; cases hc1⟩))
    · exact Or.inr (Or.inr (Or.inl (tr.done o e)))
    · rcases tr.cw o e1 e2 (hai.dle _ hd) e3 with ⟨c1, c2⟩ | c
      · exact Or.inr (Or.inr (Or.inr ⟨tr.adMono o e1, c1, c2⟩))
      · exact Or.inr (Or.inr (Or.inl c))

end XpmVerif.RestartLive
