"""C04 on real experiments whose jobs go through different launchers (direct processes / a batch resource manager).

The scheduler learns that an upstream job "has finished successfully" from what the *launcher* of that job reports about its
process.  For the direct launcher that is the exit status of a local process; for the Slurm launcher it is the sequence of states
`sacct` prints while the job is PENDING, RUNNING, COMPLETING (every ending job, whatever its exit code) and finally COMPLETED /
FAILED / TIMEOUT / CANCELLED by <uid> / ...  The single-stepped scheduler engine (xv.impl.schedeng) gives every job an abstract
process with an exit code and therefore cannot see that part; this scenario runs the real thing:

  case   = a small DAG of real tasks (xv.impl.c04x_tasks: upstream tasks embedded directly, in a list, in a nested configuration,
           through a task output), each with a launcher (direct | SlurmLauncher on the emulation of xv.impl.c04x_slurm_emul) and an
           outcome (ok | fail = non-zero exit | overrun = never ends, killed by the resource manager at its time limit),
           x a scripted `sacct` history (polls reported PENDING, polls reported COMPLETING after the end, vocabulary of the final
           state of failed / killed jobs, step lines) x polling interval;
  observables = the shared O_APPEND log the job processes write (`<k> begin`, `<k> end-success`, `<k> end-failure`): the order of
           its lines is the order of the events (no clock is compared) + final `job.state` names (reported, not judged here);
  monitor (the first sentence of the property, nothing else): whenever a job process has begun, every job it depends on has
           recorded `end-success` before.  It holds for any implementation that launches a job only after the processes of its
           dependencies exited with status 0, however it learns about the exit.

`scenario(cases, tmp)` + `violations(case, obs)` are independent of ctx; C06 ("DONE exactly when its process exited with status 0")
can run the same `scenario` and judge `obs["states"][i] == "DONE"  <=>  [i, "end-success"] in obs["log"]`."""
import json
import os
import random
import signal
import subprocess
import sys
from concurrent.futures import ThreadPoolExecutor
from pathlib import Path

from .. import common

WORKERS = 6
DEADLINE = 150          # seconds given to one experiment (normally 3-8 s); a longer one is recorded as `hang`, never as a violation
FAIL_STATES = ["FAILED", "FAILED", "OUT_OF_MEMORY", "NODE_FAIL"]
KILL_STATES = ["TIMEOUT", "TIMEOUT", "CANCELLED by 1000", "DEADLINE"]
TASK_POS = ["a", "items", "h.inner"]
OUT_POS = ["os", "h.out"]


def gen_case(rng):
    n = rng.randint(2, 5)
    jobs = []
    overrun = False
    for i in range(n):
        launcher = "slurm" if rng.random() < 0.6 else "direct"
        r = rng.random()
        outcome = "ok" if r < 0.62 else "fail" if r < 0.9 else "overrun"
        if outcome == "overrun" and (launcher != "slurm" or overrun):
            outcome = "fail"            # only a resource manager ends a job that does not end; one such job per case (time)
        overrun = overrun or outcome == "overrun"
        ups = []
        for j in range(i):
            if rng.random() < 0.5:
                ups.append([rng.choice(OUT_POS if jobs[j]["cls"] == "SO" and rng.random() < 0.6 else TASK_POS), j])
        jobs.append({"cls": rng.choice(["S", "SO"]), "launcher": launcher, "outcome": outcome, "ups": ups})
    # the kind of input this scenario is about: some job depends on a job that went through the resource manager
    if not any(jobs[j]["launcher"] == "slurm" for js in jobs for _, j in js["ups"]):
        i = rng.randrange(1, n)
        j = rng.randrange(i)
        jobs[j]["launcher"] = "slurm"
        jobs[i]["ups"].append([rng.choice(TASK_POS), j])
    return {"engine": "launchers", "salt": rng.randrange(10**6), "jobs": jobs,
            "slurm": {"interval": rng.choice([0.05, 0.1, 0.2]), "pending": rng.choice([0, 0, 1, 2]), "completing": rng.choice([0, 1, 1, 2, 2, 3]),
                      "steps": rng.random() < 0.5, "fail_state": rng.choice(FAIL_STATES), "kill_state": rng.choice(KILL_STATES), "limit": 2}}


def _run_case(case, root: Path, tag):
    """runs the case in a fresh interpreter; returns the worker's observation or {"error": ...}"""
    from ..impl import c04x_slurm_emul as emul
    obs = None
    for attempt in range(2):              # a second attempt only when the first one gave no observation at all
        adir = root / f"{tag}-{attempt}"
        adir.mkdir(parents=True, exist_ok=True)
        fin, fout = adir / "in.json", adir / "out.json"
        fin.write_text(json.dumps({"root": str(adir), "deadline": DEADLINE, "case": case}))
        env = dict(os.environ, PYTHONWARNINGS="ignore", XPM_WORKDIR=str(adir / "xpm"))
        env["PYTHONPATH"] = str(common.VERIF / "harness") + (os.pathsep + env["PYTHONPATH"] if env.get("PYTHONPATH") else "")
        p = subprocess.Popen([sys.executable, "-m", "xv.impl.c04x_launch_worker", str(fin), str(fout)], env=env, stdout=subprocess.DEVNULL,
                             stderr=subprocess.PIPE, text=True, start_new_session=True)
        try:
            _, err = p.communicate(timeout=DEADLINE + 40)
        except subprocess.TimeoutExpired:
            try:
                os.killpg(p.pid, signal.SIGKILL)
            except OSError:
                pass
            _, err = p.communicate()
            err = "worker killed: " + (err or "")[-300:]
        emul.kill_all(adir / "slurm")
        try:
            obs = json.loads(fout.read_text())
        except Exception:
            obs = {"log": [], "states": [], "exit": None, "hang": False, "slurm": {}, "error": f"no output (rc={p.returncode}): {(err or '')[-400:]}"}
        if obs["log"]:
            break
    return obs


def scenario(cases, tmp, workers=WORKERS):
    """starts the cases in the background; returns a function that waits and gives [(case, observation)]"""
    root = Path(tmp) / "c04x-launchers"
    root.mkdir(parents=True, exist_ok=True)
    ex = ThreadPoolExecutor(max_workers=workers)
    futs = [ex.submit(_run_case, c, root, f"c{i}") for i, c in enumerate(cases)]

    def collect():
        res = [(c, f.result()) for c, f in zip(cases, futs)]
        ex.shutdown()
        return res
    return collect


def _history(rep):
    return " ".join(f"{s}x{n}" for s, n in rep) if rep else "(no sacct call listed it)"


def violations(case, obs):
    """[(key, what)]: a job process began although a job it depends on had not (yet) recorded `end-success`"""
    log = [tuple(x) for x in obs["log"]]
    out = []
    for i, js in enumerate(case["jobs"]):
        if (i, "begin") not in log:
            continue
        p = log.index((i, "begin"))
        for pos, j in js["ups"]:
            if (j, "end-success") in log[:p]:
                continue
            up = case["jobs"][j]
            how = ("its process ended with a failure" if (j, "end-failure") in log[:p]
                   else "its process succeeded only later" if (j, "end-success") in log
                   else "its process was killed at the time limit" if up["outcome"] == "overrun" and (j, "begin") in log
                   else "its process had not ended successfully")
            sl = obs["slurm"].get(str(j))
            hist = (f"; what sacct printed for job {j}: {_history(sl['reported'])}, exit recorded by the resource manager: {sl['status']}"
                    if sl else "")
            out.append((f"launch-before-dependency:upstream-through-{up['launcher']}-launcher:upstream-{up['outcome']}",
                        f"job {i} ({js['launcher']} launcher) was launched although job {j} it depends on (embedded at '{pos}', run through the "
                        f"{up['launcher']} launcher, outcome {up['outcome']}) had not finished successfully: {how}{hist}; "
                        f"order of the events written by the job processes: {' / '.join(f'{k} {w}' for k, w in log)}; final job states {obs['states']}; "
                        f"sacct script: {json.dumps(case['slurm'])}"))
            break
    return out


def start(ctx, n):
    rng = random.Random(f"c04x-launchers-{ctx.seed}-{ctx.tier}")
    cases = [gen_case(rng) for _ in range(n)]
    return scenario(cases, ctx.tmpdir())


def _edge_interesting(case):
    return any(case["jobs"][j]["launcher"] == "slurm" and (case["jobs"][j]["outcome"] != "ok" or case["slurm"]["completing"] > 0)
               for js in case["jobs"] for _, j in js["ups"])


def finish(ctx, collect):
    import time
    t0 = time.time()
    res = collect()
    waited = round(time.time() - t0, 1)
    observed = 0
    for case, obs in res:
        if not obs["log"]:
            ctx.count("launcher_case_result", "no-observation")
            ctx.notes.append(f"launcher scenario: a case gave no observation ({(obs.get('error') or '')[-200:]})")
            continue
        observed += 1
        ctx.case({"launcher_case": case}, _edge_interesting(case))
        ctx.count("launcher_case_result", "hang(partial log judged)" if obs["hang"] else f"experiment-exit:{obs['exit']}")
        ctx.count("launcher_slurm_completing_polls", case["slurm"]["completing"])
        ctx.count("launcher_slurm_pending_polls", case["slurm"]["pending"])
        ctx.count("launcher_slurm_interval", case["slurm"]["interval"])
        for i, js in enumerate(case["jobs"]):
            ctx.count("launcher_job_kind", f"{js['launcher']}:{js['outcome']}")
            for pos, j in js["ups"]:
                up = case["jobs"][j]
                ctx.count("launcher_dependency_edge", f"upstream {up['launcher']}:{up['outcome']} -> {js['launcher']} at {pos}")
            sl = obs["slurm"].get(str(i))
            if sl:
                ctx.count("launcher_sacct_history_seen", ">".join(s for s, _ in sl["reported"]) or "(none)")
        started = {k for k, w in obs["log"] if w == "begin"}
        ctx.count("launcher_dependents_launched", sum(1 for i, js in enumerate(case["jobs"]) if js["ups"] and i in started))
        ctx.count("launcher_dependents_not_launched", sum(1 for i, js in enumerate(case["jobs"]) if js["ups"] and i not in started))
        for key, what in violations(case, obs):
            ctx.monitor_fail(key, what, {"engine": "launchers", "launcher_case": case, "observed": obs})
    ctx.extra_cov["launcher_scenarios"] = {"cases": len(res), "observed": observed, "seconds_waited_after_the_other_parts": waited}
    ctx.rule += ("; + launchers: real experiments of 2-5 real job processes, each through the direct launcher or SlurmLauncher on an emulated "
                 "Slurm whose sacct reports the whole life of a job (PENDING / RUNNING / COMPLETING for 0-3 polls / COMPLETED, FAILED, "
                 "OUT_OF_MEMORY, NODE_FAIL, TIMEOUT, CANCELLED by uid, DEADLINE), outcomes ok / non-zero exit / killed at the time limit; "
                 "monitor: a job process begins only after every job it depends on recorded its successful end")
    if res and not observed and not ctx.monitor_failures:
        raise RuntimeError(f"launcher scenario: none of the {len(res)} cases could be observed: {res[0][1].get('error')}")


def part(ctx, n):
    finish(ctx, start(ctx, n))


def replay(ctx, case):
    """re-runs a stored case on the current tree; returns the violations"""
    c = case["launcher_case"]
    (_, obs), = scenario([c], ctx.tmpdir(), workers=1)()
    return violations(c, obs)
