"""Which lines of the scheduler's decision functions does the engine really execute?

`sys.monitoring` (Python >= 3.12) LINE events restricted to the code objects of a few functions of the tree under test
(`Job.dependencychanged`, `Dependency.check`, `aio_registerJob`, `aio_submit`, `aio_start`, token arithmetic, ...), each
location disabled after its first hit (so the cost is one callback per line and per worker process).  A worker returns, with
every case, the lines hit for the first time since its previous case; the check takes the union and lists, in the evidence,
the executable lines the correspondence never ran: a branch of the source the event-by-event comparison says nothing about
is visible there instead of hidden behind an `OK`."""
import sys
import types

TOOL = 3   # a free tool id (0 debugger, 1 coverage, 2 profiler, 5 optimizer are reserved names)

_state = {"on": False, "new": set(), "codes": {}}


def targets():
    """[(label, function)] of the tree under test"""
    from experimaestro.scheduler import base, dependencies
    from experimaestro import tokens, locking
    return [
        ("base.Job.dependencychanged", base.Job.dependencychanged),
        ("dependencies.Dependency.check", dependencies.Dependency.check),
        ("base.JobDependency.status", base.JobDependency.status),
        ("base.JobLock._acquire", base.JobLock._acquire),
        ("base.Scheduler.aio_registerJob", base.Scheduler.aio_registerJob),
        ("base.Scheduler.aio_submit", base.Scheduler.aio_submit),
        ("base.Scheduler.aio_start", base.Scheduler.aio_start),
        ("base.experiment.wait", base.experiment.wait),
        ("tokens.Token.aio_notify", tokens.Token.aio_notify),
        ("tokens.CounterTokenDependency.status", tokens.CounterTokenDependency.status),
        ("tokens.ProcessCounterToken.acquire", tokens.ProcessCounterToken.acquire),
        ("tokens.ProcessCounterToken.release", tokens.ProcessCounterToken.release),
        ("locking.Lock.acquire", locking.Lock.acquire),
        ("locking.Lock.release", locking.Lock.release),
        ("locking.Locks._release", locking.Locks._release),
    ]


def _codes(fn):
    """the code object of a function and of the functions nested in it"""
    fn = getattr(fn, "__func__", fn)
    fn = getattr(fn, "__wrapped__", fn)
    todo, out = [fn.__code__], []
    while todo:
        c = todo.pop()
        out.append(c)
        todo += [k for k in c.co_consts if isinstance(k, types.CodeType)]
    return out


def executable(label_fn=None):
    """{label: sorted executable lines} (lines that own at least one instruction; the `def` lines are left out)"""
    res = {}
    for label, fn in (label_fn or targets()):
        lines = set()
        for c in _codes(fn):
            ls = {ln for _, _, ln in c.co_lines() if ln is not None}
            ls.discard(c.co_firstlineno)
            lines |= ls
        res[label] = sorted(lines)
    return res


def start():
    """idempotent; returns False when the interpreter has no sys.monitoring"""
    if _state["on"]:
        return True
    mon = getattr(sys, "monitoring", None)
    if mon is None:
        return False
    try:
        mon.use_tool_id(TOOL, "xv-linecov")
    except ValueError:
        return False
    for label, fn in targets():
        for c in _codes(fn):
            _state["codes"][c] = label
            mon.set_local_events(TOOL, c, mon.events.LINE)

    def on_line(code, line):
        label = _state["codes"].get(code)
        if label is not None:
            _state["new"].add((label, line))
        return mon.DISABLE
    mon.register_callback(TOOL, mon.events.LINE, on_line)
    _state["on"] = True
    return True


def drain():
    """lines hit for the first time in this process since the last call"""
    new = sorted(_state["new"])
    _state["new"] = set()
    return new


def report(hits):
    """evidence entry from the union of the drained hits"""
    import inspect
    hit = {}
    for label, line in hits:
        hit.setdefault(label, set()).add(line)
    res = {}
    fns = dict(targets())
    for label, lines in executable().items():
        done = hit.get(label, set()) & set(lines)
        missing = [ln for ln in lines if ln not in done]
        entry = {"executable_lines": len(lines), "executed": len(done), "not_executed": missing}
        if missing:
            try:
                fn = fns[label]
                src, first = inspect.getsourcelines(getattr(fn, "__func__", fn))
                entry["not_executed_source"] = [f"{ln}: {src[ln - first].strip()[:100]}" for ln in missing if 0 <= ln - first < len(src)]
            except (OSError, TypeError):
                pass
        res[label] = entry
    return res
