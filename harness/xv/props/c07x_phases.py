"""C07 on programs made of several experiments (real API, xv.impl.c07x_phases_worker).

A program (a notebook, a script made of phases) runs several `with experiment(...)` blocks one after the other in the same
process, on the same working directory, and a later experiment may
  * use task objects of an earlier experiment as parameters of new tasks (directly, in a dictionary, in a nested configuration),
  * submit again (fresh copy, same identifier) a task of an earlier experiment, whose process may now succeed or fail again,
  * call `xp.wait()` in the middle.
The failure that cancels a job may therefore have happened in an earlier experiment than the one the job belongs to.

The monitors state the sentences of the property on what is observable once an experiment has been left: the state of the
job of every task, the exit codes of the processes the launcher was asked to start during that experiment, whether leaving the
`with` block raised.  They never look at how the scheduler gets there.
"""
import json
from concurrent.futures import ThreadPoolExecutor

from .. import identlib

HOWS = ["list", "list", "dict", "held"]
NAMES = ["main", "main", "main", "second", "third"]


def gen_program(rng, fail_p=0.3):
    nph = rng.choice([1, 2, 2, 2, 3, 3, 4])
    tasks, codes, phases = [], {}, []
    latest = {}      # class (root index) -> index of its latest submission
    phase_of = {}    # task -> phase
    for p in range(nph):
        steps = []
        here = set()  # classes submitted in this phase (a configuration is submitted at most once per experiment)
        for _ in range(rng.randint(1, 4)):
            old = [r for r in latest if r not in here and phase_of[latest[r]] < p]
            if old and rng.random() < 0.3:
                # the same configuration again (fresh objects, same identifier): parameters are the latest submissions of the
                # configurations the original was given
                r = rng.choice(old)
                src = tasks[r]
                t = len(tasks)
                tasks.append({"val": src["val"], "ups": [[latest[tasks[u]["root"]], how] for u, how in src["ups"]], "root": r})
            else:
                t = len(tasks)
                cand = list(latest.values())
                rng.shuffle(cand)
                ups = [[u, rng.choice(HOWS)] for u in cand[:3] if rng.random() < 0.5]
                tasks.append({"val": t + 1, "ups": sorted(ups), "root": t})
                if rng.random() < fail_p:
                    c = rng.choice([1, 2, 137])
                    codes[str(t)] = rng.choice([[c], [c], [c, 0], [c, c, 0]])
                r = t
            latest[r] = t
            here.add(r)
            phase_of[t] = p
            steps.append({"t": t})
            if rng.random() < 0.15:
                steps.append({"wait": True})
        phases.append({"name": rng.choice(NAMES), "steps": steps})
    return {"tasks": tasks, "codes": codes, "phases": phases}


def gen_reentry_program(rng):
    """a program of 2-4 uses in which the SAME experiment object is entered again (`xp = experiment(...)`, then `with xp:`
    several times: a notebook cell run again, a retry loop around a failing experiment): failing / succeeding /
    dependency-cancelled jobs in each use, the failed configuration submitted again after its cause is repaired (exit codes
    [c, 0]) or not (still failing, or not submitted again at all)"""
    while True:
        prog = gen_program(rng, fail_p=0.3)
        if len(prog["phases"]) >= 2:
            break
    mode = rng.choice(["same", "same", "mixed"])
    key, first_name = 0, {}
    for p, ph in enumerate(prog["phases"]):
        if p > 0 and mode == "mixed" and rng.random() < 0.4:
            key += 1
        ph["xp"] = key
        ph["name"] = first_name.setdefault(key, ph["name"])
    if mode == "mixed" and len(prog["phases"]) >= 3 and rng.random() < 0.5:
        prog["phases"][-1]["xp"] = 0   # ... and the first object once more after another one was used
        prog["phases"][-1]["name"] = first_name[0]
    for r in list(prog["codes"]):    # most failures are repaired before the next use
        if rng.random() < 0.75:
            prog["codes"][r] = [prog["codes"][r][0], 0]
    return prog


def _T(val, ups=(), root=None):
    return {"val": val, "ups": [list(u) for u in ups], "root": root}


def reentry_corpus():
    """fixed programs: (1) use 1: `flaky` fails, `consumer` (takes it) is cancelled, `bystander` runs; the cause is repaired; use 2 of
    the same object: the three configurations again, all end DONE; (2) use 1 fails, use 2 submits only an unrelated task,
    use 3 submits the failed one again, still failing"""
    a = {"tasks": [dict(_T(1), root=0), dict(_T(2, [(0, "list")]), root=1), dict(_T(3), root=2),
                   dict(_T(1), root=0), dict(_T(2, [(3, "list")]), root=1), dict(_T(3), root=2)],
         "codes": {"0": [1, 0]},
         "phases": [{"name": "main", "xp": 0, "steps": [{"t": 0}, {"t": 1}, {"t": 2}]},
                    {"name": "main", "xp": 0, "steps": [{"t": 3}, {"t": 4}, {"t": 5}]}]}
    b = {"tasks": [dict(_T(1), root=0), dict(_T(2), root=1), dict(_T(1), root=0), dict(_T(4, [(1, "dict")]), root=3)],
         "codes": {"0": [2, 2]},
         "phases": [{"name": "main", "xp": 0, "steps": [{"t": 0}]},
                    {"name": "main", "xp": 0, "steps": [{"t": 1}, {"wait": True}]},
                    {"name": "main", "xp": 0, "steps": [{"t": 2}, {"t": 3}]}]}
    return [a, b]


def facts(prog, rec):
    """descriptive facts about one executed program (evidence histograms, non-triviality)"""
    tasks = prog["tasks"]
    phase_of = {}
    for p, ph in enumerate(prog["phases"]):
        for st in ph["steps"]:
            if "t" in st:
                phase_of[st["t"]] = p
    cross = sum(1 for t, ts in enumerate(tasks) for u, _ in ts["ups"] if phase_of[u] < phase_of[t])
    cross_failed, only_cancelled = 0, 0
    for p, prec in enumerate(rec["phases"]):
        st = prec["states"]
        err = [t for t in prec["submitted"] if st.get(str(t)) == "ERROR"]
        own = [t for t in err if any(c != 0 for c in prec["started"].get(str(t), []))]
        if err and not own:
            only_cancelled += 1
        for t in prec["submitted"]:
            cross_failed += sum(1 for u, _ in tasks[t]["ups"] if phase_of[u] < p and st.get(str(u)) == "ERROR")
    return {"cross": cross, "cross_failed": cross_failed, "only_cancelled": only_cancelled}


def monitors(prog, rec):
    """returns [(key, what)]: the sentences of C07 on one executed program"""
    tasks = prog["tasks"]
    fails = []
    succeeded_before = set()  # classes one of whose processes exited with 0 in an earlier experiment (success marker on disk)
    for p, prec in enumerate(rec["phases"]):
        name = prog["phases"][p]["name"]
        where = f"experiment #{p + 1} ('{name}')"
        key = prog["phases"][p].get("xp")
        earlier = [q + 1 for q in range(p) if key is not None and prog["phases"][q].get("xp") == key]
        if earlier:
            where += f" [the experiment object of #{earlier[0]} entered again: use {len(earlier) + 1} of that object]"
        if prec["hang"]:
            fails.append(("experiment-never-left:multi-experiment", f"{where} could not be left: its jobs never all became final"))
            break
        st = prec["states"]
        for t in prec["submitted"]:
            ts = tasks[t]
            mine = st.get(str(t))
            started = prec["started"].get(str(t), [])
            failed_ups = [u for u, _ in ts["ups"] if st.get(str(u)) == "ERROR"]
            prior = ts["root"] in succeeded_before
            if failed_ups and not prior:
                if started:
                    fails.append(("launched-after-failed-dependency:multi-experiment",
                                  f"{where}: a process was started for task {t} although task {failed_ups[0]}, which it takes as a parameter, ended in error"))
                if mine != "ERROR":
                    fails.append(("dependent-not-cancelled:multi-experiment",
                                  f"{where}: task {t} ended {mine} although task {failed_ups[0]}, which it takes as a parameter, ended in error"))
            elif all(st.get(str(u)) == "DONE" for u, _ in ts["ups"]) and not any(c != 0 for c in started):
                # neither the job nor anything it depends on failed: it runs to completion
                if mine != "DONE" or not (started or prior):
                    fails.append(("independent-job-not-completed:multi-experiment",
                                  f"{where}: task {t} ended {mine} (processes started: {len(started)}) although neither it nor any task it depends on failed"))
        errors = [t for t in prec["submitted"] if st.get(str(t)) == "ERROR"]
        reported = prec["exit"] != "ok"
        if reported != bool(errors):
            if errors:
                own = [t for t in errors if any(c != 0 for c in prec["started"].get(str(t), []))]
                why = (f"task(s) {own} failed" if own else
                       f"task(s) {errors} ended in error, cancelled because a task they depend on had failed"
                       + (" in an earlier experiment of the same program" if p > 0 else ""))
                fails.append(("exit-status-wrong:multi-experiment", f"leaving {where} reported success although {why}"))
            else:
                fails.append(("exit-status-wrong:multi-experiment" if not earlier else "exit-status-wrong:experiment-entered-again",
                              f"leaving {where} reported failure ({prec['exit']}: {prec['msg']}) although none of its jobs ended in error"))
        for t in prec["submitted"]:
            if 0 in prec["started"].get(str(t), []):
                succeeded_before.add(tasks[t]["root"])
    return fails


def run_programs(tmp, progs, tag, shards=16, timeout=60):
    parts, k = identlib.split(list(enumerate(progs)), shards)
    recs = [None] * len(progs)
    with ThreadPoolExecutor(max_workers=16) as ex:
        futs = [(part, ex.submit(identlib.run_worker, {"cases": [c for _, c in part], "case_timeout": timeout}, tmp,
                                 f"c07x-{tag}-{pi}", None, "xv.impl.c07x_phases_worker")) for pi, part in enumerate(parts)]
        for part, fut in futs:
            for (i, _), r in zip(part, fut.result()):
                recs[i] = r
    return recs


def _confirm_hang(tmp, prog, rec, tag):
    """a program that did not finish in time is run again alone with a longer timeout: only a second hang is reported"""
    if not any(ph["hang"] for ph in rec["phases"]):
        return rec
    return run_programs(tmp, [prog], f"retry-{tag}", shards=1, timeout=180)[0]


def part(ctx, n):
    ctx.rule += ('; + programs made of 1-4 real experiments run one after the other in the same process on the same working directory '
                 '(real `with experiment(...)`, instant launcher), later experiments taking task objects of earlier ones as parameters '
                 '(list / dict / nested configuration), submitting earlier tasks again (process then succeeds or fails again), '
                 'xp.wait() in the middle; monitors per experiment left: dependents of a task that ended in error (in this or an '
                 'earlier experiment) get no process and end in error, the others complete, leaving raises iff a job of the experiment '
                 'ended in error; non-trivial = some new task takes a task that failed in an earlier experiment as parameter'
                 '; + programs in which the SAME experiment object is entered again (2 fixed + n/4 generated: 2-4 uses of one or two '
                 'objects, failing / succeeding / dependency-cancelled jobs in each use, the failed configuration submitted again after '
                 'its cause was repaired, or still failing, or not at all), same monitors per use: a use reports failure iff a job '
                 'submitted in THAT use ended in error')
    import random
    import time
    t0 = time.time()
    base = ctx.rng.randrange(10**9)
    progs = [gen_program(random.Random(base + i)) for i in range(n)]
    nre = max(8, n // 4)
    progs += reentry_corpus() + [gen_reentry_program(random.Random(base + 10**6 + i)) for i in range(nre)]
    n = len(progs)
    tmp = ctx.tmpdir()
    recs = run_programs(tmp, progs, "main")
    found = []
    kinds = {"programs": n, "with_dependency_on_task_failed_in_earlier_experiment": 0, "experiments_left": 0,
             "experiments_whose_only_errors_are_cancelled_jobs": 0, "programs_entering_an_experiment_object_again": 0,
             "uses_after_a_use_that_reported_failure": 0, "of_which_reported_success": 0}
    for i, (prog, rec) in enumerate(zip(progs, recs)):
        rec = _confirm_hang(tmp, prog, rec, i)
        if rec["error"] or any(ph["submit_error"] for ph in rec["phases"]):
            raise RuntimeError(f"multi-experiment program could not be run: {rec['error'] or [ph['submit_error'] for ph in rec['phases']]} "
                               f"{rec.get('trace', '')} [program {json.dumps(prog)}]")
        f = facts(prog, rec)
        kinds["with_dependency_on_task_failed_in_earlier_experiment"] += f["cross_failed"] > 0
        kinds["experiments_left"] += len(rec["phases"])
        kinds["experiments_whose_only_errors_are_cancelled_jobs"] += f["only_cancelled"]
        case = {"engine": "phases", "program": prog, "seed": base + i}
        keys = [ph.get("xp") for ph in prog["phases"]]
        reent = [p for p, k in enumerate(keys[:len(rec["phases"])]) if k is not None and k in keys[:p]]
        kinds["programs_entering_an_experiment_object_again"] += bool(reent)
        for p in reent:
            prev = max(q for q in range(p) if keys[q] == keys[p])
            if rec["phases"][prev]["exit"] != "ok":
                kinds["uses_after_a_use_that_reported_failure"] += 1
                kinds["of_which_reported_success"] += rec["phases"][p]["exit"] == "ok"
            ctx.count("mx_reentered_use_after", f"{'failure' if rec['phases'][prev]['exit'] != 'ok' else 'success'}->{'failure' if rec['phases'][p]['exit'] != 'ok' else 'success'}")
        ctx.case({"multi_experiment_program": prog}, f["cross_failed"] > 0)
        ctx.count("mx_experiments_per_program", len(prog["phases"]))
        ctx.count("mx_tasks_per_program", len(prog["tasks"]))
        ctx.count("mx_resubmissions_of_earlier_tasks", sum(1 for t, ts in enumerate(prog["tasks"]) if ts["root"] != t))
        ctx.count("mx_cross_experiment_dependencies", min(f["cross"], 6))
        ctx.count("mx_dependencies_on_task_failed_in_earlier_experiment", min(f["cross_failed"], 4))
        ctx.count("mx_experiments_whose_only_errors_are_cancelled_jobs", f["only_cancelled"])
        for p, prec in enumerate(rec["phases"]):
            ctx.count("mx_leaving", prec["exit"])
            for w in prec["waits"]:
                ctx.count("mx_wait_in_the_middle", w)
            for t in prec["submitted"]:
                ctx.count("mx_job_outcome", f"{prec['states'].get(str(t))}/{'started' if prec['started'].get(str(t)) else 'not-started'}")
        for key, what in monitors(prog, rec):
            found.append((len(prog["tasks"]), len(prog["phases"]), i, key,
                          f"{what} [program of {len(prog['phases'])} experiment(s): {json.dumps(prog)}; "
                          f"observed per experiment: {json.dumps([{k: ph[k] for k in ('exit', 'states', 'started')} for ph in rec['phases']])}]", case))
    # the smallest failing program first: it is the one the verdict prints
    for _, _, _, key, what, case in sorted(found, key=lambda x: x[:3]):
        ctx.monitor_fail(key, what, case)
    kinds["wall_s"] = round(time.time() - t0, 1)
    ctx.extra_cov["multi_experiment_programs"] = kinds


def replay(ctx, case):
    """re-executes a stored program on the current tree; returns the monitor failures"""
    prog = case["program"]
    rec = run_programs(ctx.tmpdir(), [prog], "replay", shards=1, timeout=180)[0]
    if rec["error"]:
        raise RuntimeError(rec["error"])
    return monitors(prog, rec)
