import XpmVerif.Proofs.FileTokens
import XpmVerif.Model.FileTokSteps
/-! M2' — `CounterToken.release` as two steps.  The real method, under the thread lock and the IPC lock, first recounts and
    takes the file out of its cache (`relBegin`), then unlinks it if it is still there (`TokenFile.delete`,
    `unlink(missing_ok=True)`: `relEnd`), then notifies.  A `TokenFile.watch` thread of another process does not take the
    IPC lock: it may unlink the same file between the two.  `Reachable2` is the step relation of `Model/FileTokens.lean`
    extended with this window (`rel = some (p, f)`): while it is open, `p` holds both locks, so only the steps that need
    neither are enabled. -/
namespace XpmVerif.FileTokens

/-- steps that need neither the IPC lock nor the thread lock of `p`. -/
def freeOf (p : Proc) : Ev → Bool
  | .fsEvent q => q != p
  | .reclaim _ _ => true
  | .jobGone _ => true
  | .drop q => q != p
  | .recreate q => q != p
  | _ => false

inductive Reachable2 (cfg : Cfg) : St → Option (Proc × Name) → Prop where
  | init : Reachable2 cfg (init cfg) none
  | step {s : St} (e : Ev) : Reachable2 cfg s none → enabled s e = true → Reachable2 cfg (apply cfg s e).1 none
  | relFail {s : St} (p : Proc) (f : Name) : Reachable2 cfg s none → enabled s (.release p f) = true →
      (relBegin cfg s p f).2 = false → Reachable2 cfg (relBegin cfg s p f).1 none
  | relBegin {s : St} (p : Proc) (f : Name) : Reachable2 cfg s none → enabled s (.release p f) = true →
      (relBegin cfg s p f).2 = true → Reachable2 cfg (relBegin cfg s p f).1 (some (p, f))
  | inWindow {s : St} {p : Proc} {f : Name} (e : Ev) : Reachable2 cfg s (some (p, f)) → enabled s e = true → freeOf p e = true →
      Reachable2 cfg (apply cfg s e).1 (some (p, f))
  | relEnd {s : St} {p : Proc} {f : Name} : Reachable2 cfg s (some (p, f)) → Reachable2 cfg (relEnd s f).1 none

/-- only process `p` is replaced, by a record whose cache is a duplicate-free part of the directory and whose counter
    does not under-estimate with respect to it. -/
theorem inv_set_proc (cfg : Cfg) (s : St) (p : Proc) (P : PSt) (h : Inv cfg s) (hipc : s.ipc = none)
    (hnd : P.cache.Nodup) (hsub : ∀ g ∈ P.cache, g ∈ names s.disk)
    (ho : P.avail + (sumReq cfg.req P.cache : Nat) ≥ (cfg.total : Int)) :
    Inv cfg { s with procs := upd s.procs p P } := by
  refine ⟨h.nodupDisk, h.cap, ?_, ?_, ?_, ?_, h.activeDisk, h.nodupActive⟩
  · intro q; by_cases hq : q = p
    · subst hq; simpa using hnd
    · simp [upd_other _ _ _ _ hq, h.nodupCache q]
  · intro q; by_cases hq : q = p
    · subst hq; simp only [upd_same, inflight, hipc]; omega
    · have := h.over q
      simp only [upd_other _ _ _ _ hq, inflight, hipc] at this ⊢; exact this
  · intro q f hf; simp [hipc] at hf
  · intro q; by_cases hq : q = p
    · subst hq; intro _ _ f hf; simp only [upd_same] at hf; exact Or.inl (hsub f hf)
    · simp only [upd_other _ _ _ _ hq]; exact h.cacheSound q

theorem inv_relBegin (cfg : Cfg) (s : St) (p : Proc) (f : Name) (h : Inv cfg s) (hipc : s.ipc = none) :
    Inv cfg (relBegin cfg s p f).1 := by
  simp only [relBegin]
  split
  · rename_i hf
    simp only [recount_cache] at hf
    apply inv_set_proc cfg s p _ h hipc
    · simp only [recount_cache]; exact h.nodupDisk.erase f
    · intro g hg; simp only [recount_cache] at hg; exact List.mem_of_mem_erase hg
    · simp only [recount_cache, recount_avail]
      have := sumReq_erase cfg.req (names s.disk) f hf
      omega
  · exact inv_recount_only cfg s p _ h hipc rfl rfl

theorem inv_relEnd (cfg : Cfg) (s : St) (f : Name) (h : Inv cfg s) (hipc : s.ipc = none) : Inv cfg (relEnd s f).1 := by
  simp only [relEnd]
  split
  · apply inv_remove cfg s f s.procs 0 (s.active.erase f) h
    · intro g hg; have := (h.nodupActive.mem_erase_iff).mp hg; exact ⟨this.2, this.1⟩
    · exact h.nodupActive.erase f
    · intro q g hg; simp [hipc] at hg
    · intro q _; rfl
    · exact h.nodupCache 0
    · exact h.over 0
    · intro g hg; simp [hipc] at hg
    · intro ha hd g hg
      rcases h.cacheSound 0 ha hd g hg with h1 | h1
      · by_cases e : g = f
        · exact Or.inr (Or.inl e)
        · exact Or.inl ⟨e, h1⟩
      · exact Or.inr (Or.inr h1)
  · refine ⟨h.nodupDisk, h.cap, h.nodupCache, ?_, ?_, h.cacheSound, ?_, h.nodupActive.erase f⟩
    · intro q; simpa [inflight] using h.over q
    · intro q g hg; simp [hipc] at hg
    · intro g hg; exact h.activeDisk g (List.mem_of_mem_erase hg)

theorem freeOf_ipc (cfg : Cfg) (s : St) (p : Proc) (e : Ev) (hf : freeOf p e = true) : (apply cfg s e).1.ipc = s.ipc := by
  cases e with
  | fsEvent q => simp only [apply]; split <;> rfl
  | reclaim q f => simp only [apply]; split <;> rfl
  | jobGone f => rfl
  | drop q => rfl
  | recreate q => rfl
  | acquireBegin q f => simp [freeOf] at hf
  | acquireEnd q => simp [freeOf] at hf
  | release q f => simp [freeOf] at hf
  | restart q => simp [freeOf] at hf

/-- the invariant of `Proofs/FileTokens.lean` holds in every state of the extended relation, the open window included;
    the IPC lock of `acquire` is never held while a release is in its window. -/
theorem reachable2_inv (cfg : Cfg) (s : St) (rel) (r : Reachable2 cfg s rel) : Inv cfg s ∧ (rel ≠ none → s.ipc = none) := by
  induction r with
  | init => exact ⟨init_inv cfg, by simp⟩
  | step e _ en ih => exact ⟨inv_step cfg _ e ih.1 en, by simp⟩
  | relFail p f _ en _ ih =>
    simp only [enabled, Bool.and_eq_true, Option.isNone_iff_eq_none] at en
    exact ⟨inv_relBegin cfg _ p f ih.1 en.1, by simp⟩
  | relBegin p f _ en _ ih =>
    simp only [enabled, Bool.and_eq_true, Option.isNone_iff_eq_none] at en
    refine ⟨inv_relBegin cfg _ p f ih.1 en.1, fun _ => ?_⟩
    simp only [FileTokens.relBegin]; split <;> exact en.1
  | inWindow e _ en hf ih =>
    refine ⟨inv_step cfg _ e ih.1 en, fun _ => ?_⟩
    rw [freeOf_ipc cfg _ _ e hf]; exact ih.2 (by simp)
  | relEnd _ ih => exact ⟨inv_relEnd cfg _ _ ih.1 (ih.2 (by simp)), by simp⟩

/-- without interference the two halves are the atomic `release` of the model. -/
theorem relEnd_relBegin_eq_release (cfg : Cfg) (s : St) (p : Proc) (f : Name) (hf : f ∈ names s.disk) :
    (relBegin cfg s p f).2 = true ∧ (relEnd (relBegin cfg s p f).1 f).1 = (apply cfg s (.release p f)).1 ∧
    (relEnd (relBegin cfg s p f).1 f).2 = (apply cfg s (.release p f)).2.ok := by
  simp [relBegin, relEnd, apply, recount_cache, hf]


theorem names_rmFile_eq_erase (f : Name) (d : List (Name × Bool)) (nd : (names d).Nodup) :
    names (rmFile f d) = (names d).erase f := by
  induction d with
  | nil => rfl
  | cons x r ih =>
    have h' := List.nodup_cons.mp (show (x.1 :: names r).Nodup from nd)
    by_cases hx : x.1 = f
    · have hf : f ∉ names r := by rw [← hx]; exact h'.1
      have e : rmFile f r = r := by
        simp only [rmFile, List.filter_eq_self, decide_eq_true_eq]
        intro y hy hyf
        exact hf (by simp only [names, List.mem_map]; exact ⟨y, hy, hyf⟩)
      have : rmFile f (x :: r) = rmFile f r := by simp [rmFile, hx]
      rw [this, e]; simp [names, hx]
    · have : rmFile f (x :: r) = x :: rmFile f r := by simp [rmFile, hx]
      rw [this]
      simp only [names, List.map_cons] at ih ⊢
      rw [List.erase_cons_tail (by simpa using hx), ih h'.2]

/-- the race of F30's territory, linearised: a watcher thread of another process `q` unlinks the file between the two
    halves of the release of `p` (which had the file in its cache).  The resulting state is exactly the state reached by
    the *atomic* steps of the model in the order "reclaim by `q`, then a release by `p` that finds nothing" — so every
    theorem about `Reachable` states covers it; the unlink of `p` finds nothing (`false`). -/
theorem release_race_linearised (cfg : Cfg) (s : St) (p q : Proc) (f : Name) (h : Inv cfg s) (hpq : q ≠ p)
    (hc : f ∈ (s.procs p).cache) (hf : f ∈ names s.disk) (hfa : f ∉ s.active) :
    let two := relEnd (apply cfg (relBegin cfg s p f).1 (.reclaim q f)).1 f
    let lin := apply cfg (apply cfg s (.reclaim q f)).1 (.release p f)
    two.2 = false ∧ lin.2.ok = false ∧ two.1.disk = lin.1.disk ∧ two.1.active = lin.1.active ∧ two.1.ipc = lin.1.ipc ∧
    ∀ r, two.1.procs r = lin.1.procs r := by
  have hnr : f ∉ names (rmFile f s.disk) := fun hm => ((mem_names_rmFile f f s.disk).mp hm).1 rfl
  have hne := names_rmFile_eq_erase f s.disk h.nodupDisk
  have hsum := sumReq_rmFile cfg.req f s.disk h.nodupDisk hf
  have hact : s.active.erase f = s.active := List.erase_of_not_mem hfa
  simp only [relBegin, recount_cache, hf, if_true, apply, relEnd, hnr, if_false]
  refine ⟨by trivial, by trivial, by first | trivial | rfl, by first | exact hact | simp [hact], by first | trivial | rfl, ?_⟩
  intro r
  by_cases hr : r = p
  · subst hr
    simp only [upd_same, upd_other _ _ _ _ (Ne.symm hpq), broadcast, recount]
    have hfilter : (names s.disk).filter (fun g => !(s.procs r).cache.contains g) =
        (names (rmFile f s.disk)).filter (fun g => !(s.procs r).cache.contains g) := by
      rw [hne]
      induction (names s.disk) with
      | nil => rfl
      | cons x l ih =>
        by_cases hx : x = f
        · subst hx; simp [hc]
        · rw [List.erase_cons_tail (by simpa using hx)]
          simp only [List.filter_cons]; rw [ih]
    have hfilter' : List.filter (fun g => !decide (g ∈ (s.procs r).cache)) (names s.disk) =
        List.filter (fun g => !decide (g ∈ (s.procs r).cache)) ((names s.disk).erase f) := by
      rw [← hne]; simpa using hfilter
    rw [hne] at hsum
    split <;> simp [hne] <;> exact ⟨by omega, hfilter'⟩
  · by_cases hrq : r = q
    · subst hrq; simp [upd, hr, broadcast]
    · simp [upd, hr, hrq, broadcast]


/-- the `reclaim` step of the model is the two done at once. -/
theorem reclaim_is_decide_then_unlink (cfg : Cfg) (s : St) (q : Proc) (f : Name) :
    (apply cfg s (.reclaim q f)).1 = watchUnlink (watchDecide s q f) f := by
  by_cases h : f ∈ names s.disk <;> simp [apply, watchUnlink, watchDecide, h]

def evsW : List Ev := [.acquireBegin 0 7, .acquireEnd 0, .fsEvent 1, .fsEvent 1, .jobGone 7]
/-- the owner gives the token back and takes it again for the same job (an abandoned start that is retried). -/
def evsRetry : List Ev := [.release 0 7, .acquireBegin 0 7, .acquireEnd 0]
def evsSecond : List Ev := [.acquireBegin 1 8, .acquireEnd 1]


/-! ### two-phase construction of a new process -/

theorem restart_is_scan_then_watch (cfg : Cfg) (s : St) (p : Proc) :
    ((restartWatch cfg (restartScan cfg s p) p).procs p).cache = ((apply cfg s (.restart p)).1.procs p).cache ∧
    ((restartWatch cfg (restartScan cfg s p) p).procs p).avail = ((apply cfg s (.restart p)).1.procs p).avail ∧
    ((restartWatch cfg (restartScan cfg s p) p).procs p).alive = true ∧
    ((restartWatch cfg (restartScan cfg s p) p).procs p).pending = [] ∧
    ∀ f, f ∈ ((restartWatch cfg (restartScan cfg s p) p).procs p).watch ↔ f ∈ ((apply cfg s (.restart p)).1.procs p).watch := by
  simp [restartWatch, restartScan, apply, recount, fresh]

theorem inv_restartScan (cfg : Cfg) (s : St) (p : Proc) (h : Inv cfg s) (hipc : s.ipc = none) : Inv cfg (restartScan cfg s p) := by
  apply inv_set_proc cfg s p _ h hipc
  · simp only [recount_cache]; exact h.nodupDisk
  · intro g hg; simpa [recount_cache] using hg
  · simp only [recount_cache, recount_avail]; omega

theorem inv_restartWatch (cfg : Cfg) (s : St) (p : Proc) (h : Inv cfg s) (hipc : s.ipc = none) : Inv cfg (restartWatch cfg s p) := by
  apply inv_set_proc cfg s p _ h hipc
  · simp only [recount_cache]; exact h.nodupDisk
  · intro g hg; simpa [recount_cache] using hg
  · simp only [recount_cache, recount_avail]; omega

/-- after the second scan the new process knows exactly the directory, its counter is exact, and every file of the
    directory is watched *or was already known to the first scan*. -/
theorem restartWatch_spec (cfg : Cfg) (s : St) (p : Proc) :
    ((restartWatch cfg s p).procs p).cache = names s.disk ∧
    ((restartWatch cfg s p).procs p).avail = (cfg.total : Int) - (sumReq cfg.req (names s.disk) : Nat) ∧
    ∀ f ∈ names s.disk, f ∈ ((restartWatch cfg s p).procs p).watch ∨ f ∈ (s.procs p).cache := by
  refine ⟨by simp [restartWatch, recount], by simp [restartWatch, recount], ?_⟩
  intro f hf
  by_cases hc : f ∈ (s.procs p).cache
  · exact Or.inr hc
  · left; simp [restartWatch, recount, hf, hc]

/-- process 1 takes the token for job 7 and the job ends; process 0 is being replaced. -/
def evsBeforeScan : List Ev := [.drop 0, .acquireBegin 1 7, .acquireEnd 1, .jobGone 7]
/-- in the window between the two scans: the watcher thread the first scan started removes the file; process 1 takes the
    token again for the same job. -/
def evsWindow : List Ev := [.reclaim 0 7, .release 1 7, .acquireBegin 1 7, .acquireEnd 1]

end XpmVerif.FileTokens
