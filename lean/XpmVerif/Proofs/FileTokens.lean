import XpmVerif.Model.FileTokens
/-! Helper lemmas and the invariant of M2' (file-based tokens): every reachable state satisfies `Inv`. -/
namespace XpmVerif.FileTokens

theorem sumReq_append (req : Name → Nat) (a b : List Name) : sumReq req (a ++ b) = sumReq req a + sumReq req b := by
  induction a with
  | nil => simp [sumReq]
  | cons x r ih => simp [sumReq, ih]; omega

theorem sumReq_erase (req : Name → Nat) (l : List Name) (f : Name) (h : f ∈ l) :
    sumReq req (l.erase f) + req f = sumReq req l := by
  induction l with
  | nil => cases h
  | cons x r ih =>
    by_cases hx : x = f
    · subst hx; simp [sumReq]; omega
    · have : f ∈ r := by
        cases h with
        | head => exact absurd rfl hx
        | tail _ h => exact h
      have := ih this
      rw [List.erase_cons_tail (by simpa using hx)]
      simp [sumReq]; omega

theorem sumReq_le_of_subset (req : Name → Nat) : ∀ (l₁ l₂ : List Name), l₁.Nodup → (∀ x ∈ l₁, x ∈ l₂) → sumReq req l₁ ≤ sumReq req l₂ := by
  intro l₁
  induction l₁ with
  | nil => intros; simp [sumReq]
  | cons x r ih =>
    intro l₂ nd hs
    have hx : x ∈ l₂ := hs x (by simp)
    have nd' := List.nodup_cons.mp nd
    have := ih (l₂.erase x) nd'.2 (by
      intro y hy
      have hne : y ≠ x := by intro h; subst h; exact nd'.1 hy
      exact (List.mem_erase_of_ne hne).mpr (hs y (by simp [hy])))
    have e := sumReq_erase req l₂ x hx
    simp [sumReq]; omega

theorem names_setW (f : Name) (w : Bool) (d : List (Name × Bool)) : names (setW f w d) = names d := by
  induction d with
  | nil => rfl
  | cons x r ih =>
    simp only [names, setW, List.map_cons] at ih ⊢
    rw [ih]; by_cases h : x.1 = f <;> simp [h]

theorem mem_names_rmFile (f g : Name) (d : List (Name × Bool)) : g ∈ names (rmFile f d) ↔ g ≠ f ∧ g ∈ names d := by
  simp only [names, rmFile, List.mem_map, List.mem_filter, decide_eq_true_eq]
  constructor
  · rintro ⟨x, ⟨hx, hne⟩, rfl⟩; exact ⟨hne, x, hx, rfl⟩
  · rintro ⟨hne, x, hx, rfl⟩; exact ⟨x, ⟨hx, hne⟩, rfl⟩

theorem nodup_names_rmFile (f : Name) (d : List (Name × Bool)) (h : (names d).Nodup) : (names (rmFile f d)).Nodup := by
  induction d with
  | nil => simp [names, rmFile]
  | cons x r ih =>
    have h' := List.nodup_cons.mp (show (x.1 :: names r).Nodup from h)
    have ih := ih h'.2
    by_cases hx : x.1 = f
    · simpa [rmFile, hx] using ih
    · have : rmFile f (x :: r) = x :: rmFile f r := by simp [rmFile, hx]
      rw [this]
      simp only [names, List.map_cons, List.nodup_cons]
      refine ⟨?_, ih⟩
      intro hm
      have := (mem_names_rmFile f x.1 r).mp hm
      exact h'.1 this.2

theorem sumReq_rmFile (req : Name → Nat) (f : Name) (d : List (Name × Bool)) (nd : (names d).Nodup) (h : f ∈ names d) :
    sumReq req (names (rmFile f d)) + req f = sumReq req (names d) := by
  induction d with
  | nil => simp [names] at h
  | cons x r ih =>
    have h' := List.nodup_cons.mp (show (x.1 :: names r).Nodup from nd)
    by_cases hx : x.1 = f
    · have hf : f ∉ names r := by rw [← hx]; exact h'.1
      have : rmFile f (x :: r) = rmFile f r := by simp [rmFile, hx]
      rw [this]
      have e : rmFile f r = r := by
        simp only [rmFile, List.filter_eq_self, decide_eq_true_eq]
        intro y hy hyf
        exact hf (by simp only [names, List.mem_map]; exact ⟨y, hy, hyf⟩)
      rw [e]; simp [names, sumReq, hx]; omega
    · have : rmFile f (x :: r) = x :: rmFile f r := by simp [rmFile, hx]
      rw [this]
      have hf : f ∈ names r := by
        simp only [names, List.map_cons, List.mem_cons] at h
        rcases h with h | h
        · exact absurd h.symm hx
        · exact h
      have := ih h'.2 hf
      simp only [names, List.map_cons, sumReq] at this ⊢
      omega

theorem sumReq_rmFile_le (req : Name → Nat) (f : Name) (d : List (Name × Bool)) :
    sumReq req (names (rmFile f d)) ≤ sumReq req (names d) := by
  induction d with
  | nil => simp [names, rmFile, sumReq]
  | cons x r ih =>
    by_cases hx : x.1 = f
    · have : rmFile f (x :: r) = rmFile f r := by simp [rmFile, hx]
      rw [this]; simp only [names, List.map_cons, sumReq] at ih ⊢; omega
    · have : rmFile f (x :: r) = x :: rmFile f r := by simp [rmFile, hx]
      rw [this]; simp only [names, List.map_cons, sumReq] at ih ⊢; omega

theorem lookupW_some_mem (f : Name) (w : Bool) (d : List (Name × Bool)) (h : lookupW f d = some w) : f ∈ names d := by
  induction d with
  | nil => simp [lookupW] at h
  | cons x r ih =>
    obtain ⟨g, w'⟩ := x
    by_cases hg : g = f
    · simp [names, hg]
    · simp only [lookupW, hg, if_false] at h
      have := ih h
      simp only [names, List.map_cons, List.mem_cons] at this ⊢
      exact Or.inr this

/-- amount subtracted from `avail` of `p` for a file that is not yet in its cache (middle of `acquire`). -/
def inflight (cfg : Cfg) (s : St) (p : Proc) : Nat :=
  match s.ipc with
  | some (q, f) => if q = p then cfg.req f else 0
  | none => 0

structure Inv (cfg : Cfg) (s : St) : Prop where
  nodupDisk : (names s.disk).Nodup
  cap : diskSum cfg s ≤ cfg.total
  nodupCache : ∀ p, (s.procs p).cache.Nodup
  over : ∀ p, (s.procs p).avail + (sumReq cfg.req (s.procs p).cache : Nat) + (inflight cfg s p : Nat) ≥ (cfg.total : Int)
  ipcInv : ∀ p f, s.ipc = some (p, f) → f ∈ names s.disk ∧ f ∈ s.active ∧ f ∉ (s.procs p).cache
  cacheSound : ∀ p, (s.procs p).alive = true → (s.procs p).dropped = false →
      ∀ f ∈ (s.procs p).cache, f ∈ names s.disk ∨ FsEv.deleted f ∈ (s.procs p).pending
  activeDisk : ∀ f ∈ s.active, f ∈ names s.disk
  nodupActive : s.active.Nodup

@[simp] theorem upd_same {α} (f : Nat → α) (j : Nat) (v : α) : upd f j v j = v := by simp [upd]
theorem upd_other {α} (f : Nat → α) (j : Nat) (v : α) (i : Nat) (h : i ≠ j) : upd f j v i = f i := by simp [upd, h]

@[simp] theorem bc_cache (procs : Proc → PSt) (e : FsEv) (q : Proc) : (broadcast procs e q).cache = (procs q).cache := by
  simp only [broadcast]; split <;> rfl
@[simp] theorem bc_avail (procs : Proc → PSt) (e : FsEv) (q : Proc) : (broadcast procs e q).avail = (procs q).avail := by
  simp only [broadcast]; split <;> rfl
@[simp] theorem bc_alive (procs : Proc → PSt) (e : FsEv) (q : Proc) : (broadcast procs e q).alive = (procs q).alive := by
  simp only [broadcast]; split <;> rfl
@[simp] theorem bc_dropped (procs : Proc → PSt) (e : FsEv) (q : Proc) : (broadcast procs e q).dropped = (procs q).dropped := by
  simp only [broadcast]; split <;> rfl
@[simp] theorem bc_watch (procs : Proc → PSt) (e : FsEv) (q : Proc) : (broadcast procs e q).watch = (procs q).watch := by
  simp only [broadcast]; split <;> rfl
theorem bc_pending_mono (procs : Proc → PSt) (e x : FsEv) (q : Proc) (h : x ∈ (procs q).pending) : x ∈ (broadcast procs e q).pending := by
  simp only [broadcast]; split
  · simp [h]
  · exact h
theorem bc_pending_new (procs : Proc → PSt) (e : FsEv) (q : Proc) (ha : (procs q).alive = true) (hd : (procs q).dropped = false) :
    e ∈ (broadcast procs e q).pending := by
  simp [broadcast, ha, hd]

theorem init_inv (cfg : Cfg) : Inv cfg (init cfg) := by
  refine ⟨?_, ?_, ?_, ?_, ?_, ?_, ?_, ?_⟩ <;> simp [init, names, diskSum, sumReq, inflight]

/-- a recounted process satisfies its three clauses. -/
theorem recount_cache (cfg : Cfg) (d) (P : PSt) : (recount cfg d P).cache = names d := rfl
theorem recount_avail (cfg : Cfg) (d) (P : PSt) : (recount cfg d P).avail = (cfg.total : Int) - (sumReq cfg.req (names d) : Nat) := rfl
@[simp] theorem recount_alive (cfg : Cfg) (d) (P : PSt) : (recount cfg d P).alive = P.alive := rfl
@[simp] theorem recount_dropped (cfg : Cfg) (d) (P : PSt) : (recount cfg d P).dropped = P.dropped := rfl
@[simp] theorem recount_pending (cfg : Cfg) (d) (P : PSt) : (recount cfg d P).pending = P.pending := rfl

theorem inflight_none (cfg : Cfg) (s : St) (p : Proc) (h : s.ipc = none) : inflight cfg s p = 0 := by simp [inflight, h]

/-- only process `p` is replaced by its recount (failed acquire, release of a missing file, restart). -/
theorem inv_recount_only (cfg : Cfg) (s : St) (p : Proc) (P : PSt) (h : Inv cfg s) (hipc : s.ipc = none)
    (hc : P.cache = names s.disk) (ha : P.avail = (cfg.total : Int) - (sumReq cfg.req (names s.disk) : Nat)) :
    Inv cfg { s with procs := upd s.procs p P } := by
  refine ⟨h.nodupDisk, h.cap, ?_, ?_, ?_, ?_, h.activeDisk, h.nodupActive⟩
  · intro q; by_cases hq : q = p
    · subst hq; simp [hc, h.nodupDisk]
    · simp [upd_other _ _ _ _ hq, h.nodupCache q]
  · intro q; by_cases hq : q = p
    · subst hq; simp [hc, ha]; omega
    · have := h.over q
      simp only [upd_other _ _ _ _ hq, inflight, hipc] at this ⊢; exact this
  · intro q f hf; simp [hipc] at hf
  · intro q; by_cases hq : q = p
    · subst hq; intro _ _ f hf; simp [hc] at hf; exact Or.inl hf
    · simp only [upd_other _ _ _ _ hq]; exact h.cacheSound q

theorem inv_acquireBegin (cfg : Cfg) (s : St) (p : Proc) (f : Name) (h : Inv cfg s)
    (en : enabled s (.acquireBegin p f) = true) : Inv cfg (apply cfg s (.acquireBegin p f)).1 := by
  simp only [enabled, Bool.and_eq_true, Option.isNone_iff_eq_none, Bool.not_eq_true', List.contains_eq_mem,
    decide_eq_false_iff_not] at en
  obtain ⟨⟨⟨hipc, hdrop⟩, hfd⟩, hfa⟩ := en
  simp only [apply]
  split
  · exact inv_recount_only cfg s p _ h hipc rfl rfl
  · rename_i hge
    simp only [recount_avail, Int.not_lt] at hge
    have hnames : names (s.disk ++ [(f, false)]) = names s.disk ++ [f] := by simp [names]
    refine ⟨?_, ?_, ?_, ?_, ?_, ?_, ?_, ?_⟩
    · show (names (s.disk ++ [(f, false)])).Nodup
      rw [hnames]; exact List.nodup_append.mpr ⟨h.nodupDisk, by simp, by intro a ha b hb; simp at hb; subst hb; intro e; exact hfd (e ▸ ha)⟩
    · show sumReq cfg.req (names (s.disk ++ [(f, false)])) ≤ cfg.total
      rw [hnames, sumReq_append]; simp [sumReq]; omega
    · intro q; simp only [bc_cache]; by_cases hq : q = p
      · subst hq; simp [recount_cache, h.nodupDisk]
      · simp [upd_other _ _ _ _ hq, h.nodupCache q]
    · intro q; simp only [bc_cache, bc_avail, inflight]; by_cases hq : q = p
      · subst hq; simp [recount_cache, recount_avail]; omega
      · have := h.over q
        simp only [upd_other _ _ _ _ hq, inflight, hipc] at this ⊢
        simp [Ne.symm hq]; simpa using this
    · intro q g hg
      simp only [Option.some.injEq, Prod.mk.injEq] at hg
      obtain ⟨rfl, rfl⟩ := hg
      refine ⟨?_, by simp, ?_⟩
      · show f ∈ names (s.disk ++ [(f, false)]); rw [hnames]; simp
      · simp [recount_cache, hfd]
    · intro q ha hd g hg
      simp only [bc_alive, bc_dropped, bc_cache] at ha hd hg
      show g ∈ names (s.disk ++ [(f, false)]) ∨ _
      rw [hnames]
      by_cases hq : q = p
      · subst hq; simp [recount_cache] at hg; exact Or.inl (by simp [hg])
      · simp only [upd_other _ _ _ _ hq] at ha hd hg
        rcases h.cacheSound q ha hd g hg with h1 | h1
        · exact Or.inl (by simp [h1])
        · exact Or.inr (bc_pending_mono _ _ _ _ (by simp [upd_other _ _ _ _ hq, h1]))
    · intro g hg
      show g ∈ names (s.disk ++ [(f, false)]); rw [hnames]
      simp only [List.mem_cons] at hg
      rcases hg with rfl | hg
      · simp
      · simp [h.activeDisk g hg]
    · exact List.nodup_cons.mpr ⟨hfa, h.nodupActive⟩

theorem inv_acquireEnd (cfg : Cfg) (s : St) (p : Proc) (h : Inv cfg s)
    (en : enabled s (.acquireEnd p) = true) : Inv cfg (apply cfg s (.acquireEnd p)).1 := by
  simp only [enabled, ipcProc, beq_iff_eq] at en
  cases hipc : s.ipc with
  | none => simp [hipc] at en
  | some qf =>
    obtain ⟨q, f⟩ := qf
    simp only [hipc, Option.map_some, Option.some.injEq] at en
    subst en
    obtain ⟨hfd, hfa, hfc⟩ := h.ipcInv q f hipc
    simp only [apply, hipc, if_true]
    have hadd : addCache (s.procs q).cache f = (s.procs q).cache ++ [f] := by simp [addCache, hfc]
    refine ⟨?_, ?_, ?_, ?_, ?_, ?_, ?_, h.nodupActive⟩
    · show (names (setW f true s.disk)).Nodup; rw [names_setW]; exact h.nodupDisk
    · show sumReq cfg.req (names (setW f true s.disk)) ≤ cfg.total; rw [names_setW]; exact h.cap
    · intro r; simp only [bc_cache]; by_cases hr : r = q
      · subst hr; simp only [upd_same, hadd]
        exact List.nodup_append.mpr ⟨h.nodupCache r, by simp, by intro a ha b hb; simp at hb; subst hb; intro e; exact hfc (e ▸ ha)⟩
      · simp [upd_other _ _ _ _ hr, h.nodupCache r]
    · intro r; have := h.over r
      simp only [bc_cache, bc_avail, inflight, hipc] at this ⊢; by_cases hr : r = q
      · subst hr; simp only [upd_same, hadd, sumReq_append, if_true] at this ⊢; simp [sumReq]; omega
      · simp only [upd_other _ _ _ _ hr, Ne.symm hr, if_false] at this ⊢; omega
    · intro r g hg; simp at hg
    · intro r ha hd g hg
      simp only [bc_alive, bc_dropped, bc_cache] at ha hd hg
      show g ∈ names (setW f true s.disk) ∨ _
      rw [names_setW]
      by_cases hr : r = q
      · subst hr; simp only [upd_same, hadd, List.mem_append, List.mem_singleton] at ha hd hg
        rcases hg with hg | rfl
        · rcases h.cacheSound r ha hd g hg with h1 | h1
          · exact Or.inl h1
          · exact Or.inr (bc_pending_mono _ _ _ _ (by simp [h1]))
        · exact Or.inl hfd
      · simp only [upd_other _ _ _ _ hr] at ha hd hg
        rcases h.cacheSound r ha hd g hg with h1 | h1
        · exact Or.inl h1
        · exact Or.inr (bc_pending_mono _ _ _ _ (by simp [upd_other _ _ _ _ hr, h1]))
    · intro g hg; show g ∈ names (setW f true s.disk); rw [names_setW]; exact h.activeDisk g hg

/-- a file is removed from the directory and every live observer is told; caches and counters are those of
    `procs'`, which agree with the old ones except possibly for `p`, whose new cache has no `f` and is
    sound on its own. -/
theorem inv_remove (cfg : Cfg) (s : St) (f : Name) (procs' : Proc → PSt) (p : Proc) (active' : List Name) (h : Inv cfg s)
    (hA : ∀ g ∈ active', g ∈ s.active ∧ g ≠ f) (hAnd : active'.Nodup)
    (hAipc : ∀ q g, s.ipc = some (q, g) → g ∈ active' ∧ g ≠ f)
    (hsame : ∀ q, q ≠ p → procs' q = s.procs q)
    (hp_nd : (procs' p).cache.Nodup)
    (hp_over : (procs' p).avail + (sumReq cfg.req (procs' p).cache : Nat) + (inflight cfg s p : Nat) ≥ (cfg.total : Int))
    (hp_ipc : ∀ g, s.ipc = some (p, g) → g ∉ (procs' p).cache)
    (hp_sound : (procs' p).alive = true → (procs' p).dropped = false → ∀ g ∈ (procs' p).cache, (g ≠ f ∧ g ∈ names s.disk) ∨ g = f ∨ FsEv.deleted g ∈ (procs' p).pending) :
    Inv cfg { s with disk := rmFile f s.disk, procs := broadcast procs' (.deleted f), active := active' } := by
  refine ⟨nodup_names_rmFile f _ h.nodupDisk, Nat.le_trans (sumReq_rmFile_le cfg.req f s.disk) h.cap, ?_, ?_, ?_, ?_, ?_, hAnd⟩
  · intro q; simp only [bc_cache]; by_cases hq : q = p
    · subst hq; exact hp_nd
    · rw [hsame q hq]; exact h.nodupCache q
  · intro q; simp only [bc_cache, bc_avail]; by_cases hq : q = p
    · subst hq; exact hp_over
    · rw [hsame q hq]; exact h.over q
  · intro q g hg
    obtain ⟨h1, _, h3⟩ := h.ipcInv q g hg
    obtain ⟨h4, h5⟩ := hAipc q g hg
    refine ⟨(mem_names_rmFile f g s.disk).mpr ⟨h5, h1⟩, h4, ?_⟩
    simp only [bc_cache]; by_cases hq : q = p
    · subst hq; exact hp_ipc g hg
    · rw [hsame q hq]; exact h3
  · intro q ha hd g hg
    simp only [bc_alive, bc_dropped, bc_cache] at ha hd hg
    have key : (g ≠ f ∧ g ∈ names s.disk) ∨ g = f ∨ FsEv.deleted g ∈ (procs' q).pending := by
      by_cases hq : q = p
      · subst hq; exact hp_sound ha hd g hg
      · rw [hsame q hq] at ha hd hg ⊢
        rcases h.cacheSound q ha hd g hg with h1 | h1
        · by_cases e : g = f
          · exact Or.inr (Or.inl e)
          · exact Or.inl ⟨e, h1⟩
        · exact Or.inr (Or.inr h1)
    rcases key with h1 | rfl | h1
    · exact Or.inl ((mem_names_rmFile f g s.disk).mpr h1)
    · exact Or.inr (bc_pending_new _ _ _ ha hd)
    · exact Or.inr (bc_pending_mono _ _ _ _ h1)
  · intro g hg
    obtain ⟨h1, h2⟩ := hA g hg
    exact (mem_names_rmFile f g s.disk).mpr ⟨h2, h.activeDisk g h1⟩

theorem inv_release (cfg : Cfg) (s : St) (p : Proc) (f : Name) (h : Inv cfg s)
    (en : enabled s (.release p f) = true) : Inv cfg (apply cfg s (.release p f)).1 := by
  simp only [enabled, Bool.and_eq_true, Option.isNone_iff_eq_none, Bool.not_eq_true', List.contains_eq_mem,
    decide_eq_false_iff_not] at en
  obtain ⟨hipc, hdrop⟩ := en
  simp only [apply]
  split
  · rename_i hf
    simp only [recount_cache] at hf
    apply inv_remove cfg s f _ p (s.active.erase f) h
    · intro g hg; have := (h.nodupActive.mem_erase_iff).mp hg; exact ⟨this.2, this.1⟩
    · exact h.nodupActive.erase f
    · intro q g hg; simp [hipc] at hg
    · intro q hq; exact upd_other _ _ _ _ hq
    · simp only [upd_same, recount_cache]; exact h.nodupDisk.erase f
    · simp only [upd_same, recount_cache, recount_avail, inflight_none cfg s p hipc]
      have := sumReq_erase cfg.req (names s.disk) f hf
      omega
    · intro g hg; simp [hipc] at hg
    · intro _ _ g hg
      simp only [upd_same, recount_cache] at hg
      have := (h.nodupDisk.mem_erase_iff).mp hg
      exact Or.inl this
  · exact inv_recount_only cfg s p _ h hipc rfl rfl

theorem inv_reclaim (cfg : Cfg) (s : St) (p : Proc) (f : Name) (h : Inv cfg s)
    (en : enabled s (.reclaim p f) = true) : Inv cfg (apply cfg s (.reclaim p f)).1 := by
  simp only [enabled, Bool.and_eq_true, Bool.not_eq_true', List.contains_eq_mem,
    decide_eq_false_iff_not, decide_eq_true_eq] at en
  obtain ⟨⟨hdrop, hw⟩, hfa⟩ := en
  simp only [apply]
  split
  · apply inv_remove cfg s f _ p s.active h
    · intro g hg; exact ⟨hg, fun e => hfa (e ▸ hg)⟩
    · exact h.nodupActive
    · intro q g hg; have := (h.ipcInv q g hg).2.1; exact ⟨this, fun e => hfa (e ▸ this)⟩
    · intro q hq; exact upd_other _ _ _ _ hq
    · simp only [upd_same]; exact h.nodupCache p
    · simp only [upd_same]; exact h.over p
    · intro g hg; simp only [upd_same]; exact (h.ipcInv p g hg).2.2
    · intro ha hd g hg
      simp only [upd_same] at ha hd hg ⊢
      rcases h.cacheSound p ha hd g hg with h1 | h1
      · by_cases e : g = f
        · exact Or.inr (Or.inl e)
        · exact Or.inl ⟨e, h1⟩
      · exact Or.inr (Or.inr h1)
  · refine ⟨h.nodupDisk, h.cap, ?_, ?_, ?_, ?_, h.activeDisk, h.nodupActive⟩
    · intro q; by_cases hq : q = p
      · subst hq; simpa using h.nodupCache q
      · simpa [upd_other _ _ _ _ hq] using h.nodupCache q
    · intro q; by_cases hq : q = p
      · subst hq; simpa [inflight] using h.over q
      · simpa [upd_other _ _ _ _ hq, inflight] using h.over q
    · intro q g hg; by_cases hq : q = p
      · subst hq; simpa using h.ipcInv q g hg
      · simpa [upd_other _ _ _ _ hq] using h.ipcInv q g hg
    · intro q; by_cases hq : q = p
      · subst hq; simpa using h.cacheSound q
      · simpa [upd_other _ _ _ _ hq] using h.cacheSound q

theorem inv_jobGone (cfg : Cfg) (s : St) (f : Name) (h : Inv cfg s)
    (en : enabled s (.jobGone f) = true) : Inv cfg (apply cfg s (.jobGone f)).1 := by
  simp only [enabled, Bool.and_eq_true, List.contains_eq_mem, decide_eq_true_eq, ipcName, bne_iff_ne, ne_eq] at en
  obtain ⟨hfa, hn⟩ := en
  simp only [apply]
  refine ⟨h.nodupDisk, h.cap, h.nodupCache, ?_, ?_, h.cacheSound, ?_, h.nodupActive.erase f⟩
  · intro q; simpa [inflight] using h.over q
  · intro q g hg
    obtain ⟨h1, h2, h3⟩ := h.ipcInv q g hg
    refine ⟨h1, ?_, h3⟩
    have : g ≠ f := by intro e; subst e; simp [show s.ipc = some (q, g) from hg] at hn
    exact (List.mem_erase_of_ne this).mpr h2
  · intro g hg; exact h.activeDisk g (List.mem_of_mem_erase hg)

/-- process `p` is replaced by a record with the same cache and counter (or a dead observer). -/
theorem inv_local (cfg : Cfg) (s : St) (p : Proc) (P : PSt) (h : Inv cfg s)
    (hc : P.cache = (s.procs p).cache) (ha : P.avail = (s.procs p).avail)
    (hs : P.alive = true → P.dropped = false → ∀ g ∈ P.cache, g ∈ names s.disk ∨ FsEv.deleted g ∈ P.pending) :
    Inv cfg { s with procs := upd s.procs p P } := by
  refine ⟨h.nodupDisk, h.cap, ?_, ?_, ?_, ?_, h.activeDisk, h.nodupActive⟩
  · intro q; by_cases hq : q = p
    · subst hq; simpa [hc] using h.nodupCache q
    · simpa [upd_other _ _ _ _ hq] using h.nodupCache q
  · intro q; by_cases hq : q = p
    · subst hq; simpa [inflight, hc, ha] using h.over q
    · simpa [upd_other _ _ _ _ hq, inflight] using h.over q
  · intro q g hg; by_cases hq : q = p
    · subst hq; simpa [hc] using h.ipcInv q g hg
    · simpa [upd_other _ _ _ _ hq] using h.ipcInv q g hg
  · intro q; by_cases hq : q = p
    · subst hq; simpa using hs
    · simpa [upd_other _ _ _ _ hq] using h.cacheSound q

theorem inv_drop (cfg : Cfg) (s : St) (p : Proc) (h : Inv cfg s) : Inv cfg (apply cfg s (.drop p)).1 := by
  simp only [apply]
  exact inv_local cfg s p _ h rfl rfl (by intro ha; simp at ha)

theorem inv_restart (cfg : Cfg) (s : St) (p : Proc) (h : Inv cfg s)
    (en : enabled s (.restart p) = true) : Inv cfg (apply cfg s (.restart p)).1 := by
  simp only [enabled, Bool.and_eq_true, Option.isNone_iff_eq_none] at en
  simp only [apply]
  exact inv_recount_only cfg s p _ h en.2 rfl rfl

/-- process `p` (not in the middle of an acquire) is replaced by `P`. -/
theorem inv_event (cfg : Cfg) (s : St) (p : Proc) (P : PSt) (h : Inv cfg s) (hnp : ∀ g, s.ipc ≠ some (p, g))
    (hnd : P.cache.Nodup)
    (ho : P.avail + (sumReq cfg.req P.cache : Nat) ≥ (s.procs p).avail + (sumReq cfg.req (s.procs p).cache : Nat))
    (hs : P.alive = true → P.dropped = false → ∀ g ∈ P.cache, g ∈ names s.disk ∨ FsEv.deleted g ∈ P.pending) :
    Inv cfg { s with procs := upd s.procs p P } := by
  refine ⟨h.nodupDisk, h.cap, ?_, ?_, ?_, ?_, h.activeDisk, h.nodupActive⟩
  · intro q; by_cases hq : q = p
    · subst hq; simpa using hnd
    · simpa [upd_other _ _ _ _ hq] using h.nodupCache q
  · intro q; by_cases hq : q = p
    · subst hq; have := h.over q; simp only [upd_same, inflight] at this ⊢; omega
    · simpa [upd_other _ _ _ _ hq, inflight] using h.over q
  · intro q g hg; by_cases hq : q = p
    · subst hq; exact absurd hg (hnp g)
    · simpa [upd_other _ _ _ _ hq] using h.ipcInv q g hg
  · intro q; by_cases hq : q = p
    · subst hq; simpa using hs
    · simpa [upd_other _ _ _ _ hq] using h.cacheSound q

theorem inv_fsEvent (cfg : Cfg) (s : St) (p : Proc) (h : Inv cfg s)
    (en : enabled s (.fsEvent p) = true) : Inv cfg (apply cfg s (.fsEvent p)).1 := by
  simp only [enabled, Bool.and_eq_true, Bool.not_eq_true', ipcProc, bne_iff_ne, ne_eq] at en
  obtain ⟨⟨⟨halive, hdrop⟩, _⟩, hnp⟩ := en
  have hnp' : ∀ g, s.ipc ≠ some (p, g) := by intro g e; simp [e] at hnp
  have hcs := h.cacheSound p halive hdrop
  simp only [apply]
  cases hpend : (s.procs p).pending with
  | nil => simpa using h
  | cons e rest =>
    simp only
    rw [hpend] at hcs
    cases e with
    | deleted f =>
      simp only [dispatch]
      split
      · rename_i hf
        apply inv_event cfg s p _ h hnp' ((h.nodupCache p).erase f)
        · have := sumReq_erase cfg.req _ f hf; simp only; omega
        · intro _ _ g hg
          have hg' := ((h.nodupCache p).mem_erase_iff).mp hg
          rcases hcs g hg'.2 with h1 | h1
          · exact Or.inl h1
          · simp only [List.mem_cons, FsEv.deleted.injEq] at h1
            rcases h1 with h1 | h1
            · exact absurd h1 hg'.1
            · exact Or.inr h1
      · rename_i hf
        refine inv_event cfg s p _ h hnp' ?_ ?_ ?_
        · exact h.nodupCache p
        · simp
        intro _ _ g hg
        rcases hcs g hg with h1 | h1
        · exact Or.inl h1
        · simp only [List.mem_cons, FsEv.deleted.injEq] at h1
          rcases h1 with h1 | h1
          · exact absurd (h1 ▸ hg) hf
          · exact Or.inr h1
    | created f | modified f =>
      have hrest : ∀ g ∈ (s.procs p).cache, g ∈ names s.disk ∨ FsEv.deleted g ∈ rest := by
        intro g hg
        rcases hcs g hg with h1 | h1
        · exact Or.inl h1
        · simp only [List.mem_cons] at h1
          rcases h1 with h1 | h1
          · cases h1
          · exact Or.inr h1
      simp only [dispatch]
      split
      · exact inv_event cfg s p _ h hnp' (h.nodupCache p) (by simp) (fun _ _ => hrest)
      · rename_i hf
        split
        · exact inv_event cfg s p _ h hnp' (h.nodupCache p) (by simp) (fun _ _ => hrest)
        · split
          · exact inv_event cfg s p _ h hnp' (h.nodupCache p) (by simp) (fun _ _ => hrest)
          · exact inv_event cfg s p _ h hnp' (h.nodupCache p) (by simp) (by intro ha; simp at ha)
        · rename_i hl
          apply inv_event cfg s p _ h hnp'
          · exact List.nodup_append.mpr ⟨h.nodupCache p, by simp, by intro a ha b hb; simp at hb; subst hb; intro e; exact hf (e ▸ ha)⟩
          · simp only [sumReq_append]; omega
          · intro _ _ g hg
            simp only [List.mem_append, List.mem_singleton] at hg
            rcases hg with hg | rfl
            · exact hrest g hg
            · exact Or.inl (lookupW_some_mem _ _ _ hl)

theorem inv_step (cfg : Cfg) (s : St) (e : Ev) (h : Inv cfg s) (en : enabled s e = true) : Inv cfg (apply cfg s e).1 := by
  cases e with
  | acquireBegin p f => exact inv_acquireBegin cfg s p f h en
  | acquireEnd p => exact inv_acquireEnd cfg s p h en
  | release p f => exact inv_release cfg s p f h en
  | fsEvent p => exact inv_fsEvent cfg s p h en
  | reclaim p f => exact inv_reclaim cfg s p f h en
  | jobGone f => exact inv_jobGone cfg s f h en
  | drop p => exact inv_drop cfg s p h
  | restart p => exact inv_restart cfg s p h en
  | recreate p => exact h

theorem reachable_inv (cfg : Cfg) (s : St) (r : Reachable cfg s) : Inv cfg s := by
  induction r with
  | init => exact init_inv cfg
  | step e _ en ih => exact inv_step cfg _ e ih en

theorem reachable_run (cfg : Cfg) (evs : List Ev) : ∀ s, Reachable cfg s → allEnabled cfg s evs = true → Reachable cfg (run cfg s evs) := by
  induction evs with
  | nil => intro s r _; exact r
  | cons e rest ih =>
    intro s r h
    simp only [allEnabled, Bool.and_eq_true] at h
    exact ih _ (Reachable.step e r h.1) h.2

/-! ### concrete runs used as witnesses / non-vacuity examples by Properties/C08Files and C09Files -/

def cfg2 : Cfg := { total := 2, req := fun _ => 1, tolerant := true, notifyMissing := true }

/-- two processes take one unit each (process 1 still believes 2 are free when it starts); a third
    request does not fit although process 0 never heard of the second file. -/
def evs2 : List Ev := [.acquireBegin 0 10, .acquireEnd 0, .acquireBegin 1 11, .acquireEnd 1, .acquireBegin 0 12]

/-- the current source / the source with the proposed repairs. -/
def cfgNow : Cfg := { total := 1, req := fun _ => 1, tolerant := false, notifyMissing := false }
def cfgFixed : Cfg := { total := 1, req := fun _ => 1, tolerant := true, notifyMissing := true }

/-- F6: process 1 dispatches the `created` event of a file that process 0 has opened but not yet
    written; its observer dies; it later caches the file through a recount; the foreign release is
    never seen: the directory is empty, nothing is pending, and process 1 shows 0 of 1 for ever. -/
def evsF6 : List Ev := [.acquireBegin 0 7, .fsEvent 1, .acquireEnd 0, .acquireBegin 1 8, .jobGone 7, .release 0 7]

/-- lost notification: process 1 reclaims the file of the finished job 7 before its owner releases it;
    the owner's release finds nothing and (current source) does not notify, and its own deletion event,
    dispatched afterwards, finds nothing in the cache either: no step of this run notifies process 0. -/
def evsLost : List Ev := [.acquireBegin 0 7, .acquireEnd 0, .fsEvent 1, .jobGone 7, .reclaim 1 7, .release 0 7,
                          .fsEvent 0, .fsEvent 0, .fsEvent 0]

/-- for every step of a run: did it call `aio_notify()` in process `p`? -/
def notifiesOf (cfg : Cfg) (p : Proc) : St → List Ev → List Bool
  | _, [] => []
  | s, e :: r =>
    let x := apply cfg s e
    (match e with
     | .release q _ => q == p && x.2.notify
     | .fsEvent q => q == p && x.2.notify
     | _ => false) :: notifiesOf cfg p x.1 r

/-- process 1 caches a foreign file through its events, then the owner releases it. -/
def evsOk : List Ev := [.acquireBegin 0 7, .acquireEnd 0, .fsEvent 1, .fsEvent 1, .jobGone 7, .release 0 7]

end XpmVerif.FileTokens
