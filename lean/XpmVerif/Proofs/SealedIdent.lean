import XpmVerif.Proofs.SealedInv
import XpmVerif.Proofs.Sort
import XpmVerif.Proofs.IsDefault
/-! C14, part 3: identifiers only inspect reachable nodes — through values *and declared defaults*
    (`IdReach`) —; identifiers of sealed nodes never change as long as the default objects are not modified. -/
namespace XpmVerif.Ident.Sealing
open List

/-! ### the encoder only looks at the references inside the value -/

theorem dropped_congr {mt mt' : Nat → Option Bool} {v : Val} (h : ∀ m ∈ valRefs v, mt m = mt' m) :
    dropped mt v = dropped mt' v := by
  cases v <;> simp [dropped]
  rename_i n
  rw [h n (by simp [valRefs])]

mutual
theorem encVal_congr_refs (cfg cfg' : Nat → List Nat) (mt mt' : Nat → Option Bool) :
    ∀ v : Val, (∀ m ∈ valRefs v, cfg m = cfg' m ∧ mt m = mt' m) → encVal cfg mt v = encVal cfg' mt' v
  | .list l, h => by
    simp only [encVal]
    rw [encItems_congr_refs cfg cfg' mt mt' l (by simpa only [valRefs] using h)]
  | .dict ks vs, h => by
    simp only [encVal]
    rw [encPairs_congr_refs cfg cfg' mt mt' ks vs (by simpa only [valRefs] using h)]
  | .ref n, h => by simp only [encVal]; rw [(h n (by simp [valRefs])).1]
  | .none, _ => by simp [encVal]
  | .bool _, _ => by simp [encVal]
  | .int _, _ => by simp [encVal]
  | .float _, _ => by simp [encVal]
  | .str _, _ => by simp [encVal]
  | .enum _, _ => by simp [encVal]
  | .path _, _ => by simp [encVal]
theorem encItems_congr_refs (cfg cfg' : Nat → List Nat) (mt mt' : Nat → Option Bool) :
    ∀ l : List Val, (∀ m ∈ valsRefs l, cfg m = cfg' m ∧ mt m = mt' m) → encItems cfg mt l = encItems cfg' mt' l
  | [], _ => by simp [encItems]
  | v :: vs, h => by
    simp only [valsRefs, mem_append] at h
    simp only [encItems]
    rw [dropped_congr (fun m hm => (h m (.inl hm)).2), encVal_congr_refs cfg cfg' mt mt' v (fun m hm => h m (.inl hm)),
      encItems_congr_refs cfg cfg' mt mt' vs (fun m hm => h m (.inr hm))]
theorem encPairs_congr_refs (cfg cfg' : Nat → List Nat) (mt mt' : Nat → Option Bool) :
    ∀ (ks : List (List Nat)) (vs : List Val), (∀ m ∈ valsRefs vs, cfg m = cfg' m ∧ mt m = mt' m) →
      encPairs cfg mt ks vs = encPairs cfg' mt' ks vs
  | [], _, _ => by simp [encPairs]
  | _ :: _, [], _ => by simp [encPairs]
  | k :: ks, v :: vs, h => by
    simp only [valsRefs, mem_append] at h
    simp only [encPairs]
    rw [dropped_congr (fun m hm => (h m (.inl hm)).2), encVal_congr_refs cfg cfg' mt mt' v (fun m hm => h m (.inl hm)),
      encPairs_congr_refs cfg cfg' mt mt' ks vs (fun m hm => h m (.inr hm))]
end

theorem removeMeta_congr {mt mt' : Nat → Option Bool} {v : Val} (h : ∀ m ∈ valRefs v, mt m = mt' m) :
    removeMeta mt v = removeMeta mt' v := by
  cases v with
  | list l =>
    simp only [removeMeta, valRefs] at *
    congr 1
    apply filter_congr
    intro x hx
    rw [dropped_congr (fun m hm => h m (mem_valsRefs.2 ⟨x, hx, hm⟩))]
  | dict ks vs =>
    simp only [removeMeta, valRefs] at *
    have : filter (fun kv => !dropped mt kv.2) (ks.zip vs) = filter (fun kv => !dropped mt' kv.2) (ks.zip vs) := by
      apply filter_congr
      intro x hx
      rw [dropped_congr (fun m hm => h m (mem_valsRefs.2 ⟨x.2, (of_mem_zip hx).2, hm⟩))]
    rw [this]
  | _ => rfl

/-- `refsAll` (items of the value that the encoder can see) is contained in `valRefs`. -/
theorem refsAll_sub_valRefs {m : Nat} {v : Val} (h : m ∈ refsAll v) : m ∈ valRefs v := by
  induction v using Val.rec (motive_2 := fun l => ∀ ks : List (List Nat), (m ∈ refsAllL l → m ∈ valsRefs l) ∧
      (m ∈ refsPairs noMeta ks l → m ∈ valsRefs l)) with
  | none => simp [refsAll, refsVal] at h
  | bool b => simp [refsAll, refsVal] at h
  | int i => simp [refsAll, refsVal] at h
  | float b => simp [refsAll, refsVal] at h
  | str s => simp [refsAll, refsVal] at h
  | enum s => simp [refsAll, refsVal] at h
  | path s => simp [refsAll, refsVal] at h
  | ref n => simpa [refsAll, refsVal, valRefs] using h
  | list l ih => rw [refsAll_list] at h; simp only [valRefs]; exact (ih []).1 h
  | dict ks vs ih => simp only [refsAll, refsVal] at h; simp only [valRefs]; exact (ih ks).2 h
  | nil => simp [refsAllL, refsVals, refsPairs]
  | cons v vs ih1 ih2 =>
    rename_i ks
    refine ⟨?_, ?_⟩
    · intro h
      rw [refsAllL_cons, mem_append] at h
      simp only [valsRefs, mem_append]
      exact h.imp ih1 (ih2 []).1
    · intro h
      cases ks with
      | nil => simp [refsPairs] at h
      | cons k ks =>
        simp only [refsPairs, dropped_noMeta, Bool.false_eq_true, if_false, mem_append] at h
        simp only [valsRefs, mem_append]
        exact h.imp ih1 (ih2 ks).2

theorem refsVal_sub_valRefs {mt : Nat → Option Bool} {m : Nat} {v : Val} (h : m ∈ refsVal mt v) : m ∈ valRefs v :=
  refsAll_sub_valRefs (refsVal_sub_refsAll mt m v h)

/-- the configurations of the declared default of an argument. -/
def dfltRefs (a : Arg) : List Nat := match a.default with | some d => valRefs d | none => []

theorem included_congr {ceq ceq' : Nat → Nat → Bool} {mt mt' : Nat → Option Bool} {a : Arg}
    (h : ∀ m ∈ valRefs a.value, mt m = mt' m)
    (hq : ∀ x ∈ dfltRefs a, ∀ y ∈ valRefs a.value, ceq x y = ceq' x y) :
    included ceq mt a = included ceq' mt' a := by
  have hd : defaultOut ceq mt a = defaultOut ceq' mt' a := by
    unfold defaultOut
    cases hdf : a.default with
    | none => rfl
    | some d =>
      simp only
      rw [isDefault_removeMeta, isDefault_removeMeta,
        isDefault_congr_mt ceq mt mt' d a.value (fun m hm => h m (refsAll_sub_valRefs hm)),
        isDefault_congr_ceq ceq ceq' mt' d a.value (fun x hx y hy =>
          hq x (by simp only [dfltRefs, hdf]; exact refsAll_sub_valRefs hx) y (refsVal_sub_valRefs hy))]
  unfold included ignoredOut metaOut
  rw [hd]
  cases hv : a.value <;> simp only []
  rename_i n
  rw [h n (by simp [hv, valRefs])]

theorem argStream_congr {cfg cfg' : Nat → List Nat} {ceq ceq' : Nat → Nat → Bool} {mt mt' : Nat → Option Bool} {a : Arg}
    (h : ∀ m ∈ valRefs a.value, cfg m = cfg' m ∧ mt m = mt' m)
    (hq : ∀ x ∈ dfltRefs a, ∀ y ∈ valRefs a.value, ceq x y = ceq' x y) :
    argStream cfg ceq mt a = argStream cfg' ceq' mt' a := by
  unfold argStream
  rw [included_congr (fun m hm => (h m hm).2) hq, encVal_congr_refs cfg cfg' mt mt' a.value h]

/-- the stream of a node only depends on the encoding and meta flag of the configurations it references, and
    on the comparison of the configurations of its defaults with those of its values. -/
theorem nodeStream_congr_refs {cfg cfg' : Nat → List Nat} {ceq ceq' : Nat → Nat → Bool} {mt mt' : Nat → Option Bool}
    {self : Nat} {nd : Node}
    (ha : ∀ a ∈ nd.args, ∀ m ∈ valRefs a.value, cfg m = cfg' m ∧ mt m = mt' m)
    (hq : ∀ a ∈ nd.args, ∀ x ∈ dfltRefs a, ∀ y ∈ valRefs a.value, ceq x y = ceq' x y)
    (ht : ∀ t, nd.task = some t → t ≠ self → cfg t = cfg' t) :
    nodeStream cfg ceq mt self nd = nodeStream cfg' ceq' mt' self nd := by
  unfold nodeStream
  have h1 : (sortBy (fun a b => bytesLe a.name b.name) nd.args).map (argStream cfg ceq mt)
      = (sortBy (fun a b => bytesLe a.name b.name) nd.args).map (argStream cfg' ceq' mt') := by
    apply map_congr_left
    intro a hmem
    have hmem' := (sortBy_perm _ _).mem_iff.1 hmem
    exact argStream_congr (ha a hmem') (hq a hmem')
  rw [h1]
  cases htk : nd.task with
  | none => rfl
  | some t =>
    by_cases hne : t = self
    · simp [hne]
    · simp only [ne_eq, hne, not_false_eq_true, if_true]; rw [ht t htk hne]

/-! ### what an identifier can depend on: the walk's edges and the declared defaults -/

/-- `IdEdge g n m`: an edge of the walk, or `m` occurs in the declared default of an argument of `n`. -/
inductive IdEdge (g : Graph) (n : Nat) : Nat → Prop
  | edge {m : Nat} : Edge g n m → IdEdge g n m
  | dflt {a : Arg} {m : Nat} : a ∈ (g.node n).args → m ∈ dfltRefs a → IdEdge g n m

inductive IdReach (g : Graph) (n : Nat) : Nat → Prop
  | refl : IdReach g n n
  | step {m k : Nat} : IdReach g n m → IdEdge g m k → IdReach g n k

theorem IdReach.trans {g : Graph} {a b c : Nat} (h1 : IdReach g a b) (h2 : IdReach g b c) : IdReach g a c := by
  induction h2 with
  | refl => exact h1
  | step _ e ih => exact .step ih e

theorem IdReach.head {g : Graph} {a b c : Nat} (e : IdEdge g a b) (h : IdReach g b c) : IdReach g a c :=
  IdReach.trans (.step .refl e) h

theorem IdReach.of_reach {g : Graph} {a b : Nat} (h : Reach g a b) : IdReach g a b := by
  induction h with
  | refl => exact .refl
  | step _ e ih => exact .step ih (.edge e)

/-- **`rawAt` only inspects nodes reachable from `n`** (through values, tasks and declared defaults). -/
theorem rawAt_congr_reach {D : Type} (hc : HC D) (g g' : Graph) :
    ∀ (fuel : Nat) (stack : List Nat) (n : Nat), (∀ m, IdReach g n m → g'.node m = g.node m) →
      rawAt hc g' fuel stack n = rawAt hc g fuel stack n := by
  intro fuel
  induction fuel with
  | zero => intro stack n _; simp [rawAt]
  | succ fuel ih =>
    intro stack n h
    have hcfg : ∀ m, IdEdge g n m →
        ctxCfg (n :: stack) (fun m => hc.emb (rawAt hc g' fuel (n :: stack) m)) m
          = ctxCfg (n :: stack) (fun m => hc.emb (rawAt hc g fuel (n :: stack) m)) m := by
      intro m e
      unfold ctxCfg
      split
      · rfl
      · show hc.emb (rawAt hc g' fuel (n :: stack) m) = hc.emb (rawAt hc g fuel (n :: stack) m)
        rw [ih (n :: stack) m (fun k hk => h k (IdReach.head e hk))]
    simp only [rawAt]
    rw [h n .refl]
    congr 1
    apply nodeStream_congr_refs
    · intro a ha m hm
      have e : Edge g n m := .arg ha hm
      refine ⟨hcfg m (.edge e), ?_⟩
      simp only [Graph.mt]; rw [h m (.step .refl (.edge e))]
    · intro a ha x hx y hy
      unfold ctxEq
      rw [hcfg x (.dflt ha hx), hcfg y (.edge (.arg ha hy))]
    · intro t ht hne
      exact hcfg t (.edge (.task ht hne))

/-! ### the `ConfigWalk` only inspects reachable nodes, and only returns reachable nodes -/

mutual
theorem walkVal_congr (cb cb' : Nat → List Nat → List Nat) :
    ∀ (v : Val) (vis : List Nat), (∀ m ∈ valRefs v, ∀ vis, cb m vis = cb' m vis) → walkVal cb v vis = walkVal cb' v vis
  | .list l, vis, h => by simpa only [walkVal] using walkVals_congr cb cb' l vis (by simpa only [valRefs] using h)
  | .dict _ vs, vis, h => by simpa only [walkVal] using walkVals_congr cb cb' vs vis (by simpa only [valRefs] using h)
  | .ref n, vis, h => by simpa only [walkVal] using h n (by simp [valRefs]) vis
  | .none, _, _ => by simp [walkVal]
  | .bool _, _, _ => by simp [walkVal]
  | .int _, _, _ => by simp [walkVal]
  | .float _, _, _ => by simp [walkVal]
  | .str _, _, _ => by simp [walkVal]
  | .enum _, _, _ => by simp [walkVal]
  | .path _, _, _ => by simp [walkVal]
theorem walkVals_congr (cb cb' : Nat → List Nat → List Nat) :
    ∀ (vs : List Val) (vis : List Nat), (∀ m ∈ valsRefs vs, ∀ vis, cb m vis = cb' m vis) → walkVals cb vs vis = walkVals cb' vs vis
  | [], _, _ => by simp [walkVals]
  | v :: vs, vis, h => by
    simp only [valsRefs, mem_append] at h
    simp only [walkVals]
    rw [walkVal_congr cb cb' v vis (fun m hm => h m (.inl hm)), walkVals_congr cb cb' vs _ (fun m hm => h m (.inr hm))]
end

theorem walkNodes_congr (cb cb' : Nat → List Nat → List Nat) :
    ∀ (ns : List Nat) (vis : List Nat), (∀ m ∈ ns, ∀ vis, cb m vis = cb' m vis) → walkNodes cb ns vis = walkNodes cb' ns vis
  | [], _, _ => by simp [walkNodes]
  | n :: ns, vis, h => by
    simp only [walkNodes]
    rw [h n mem_cons_self vis, walkNodes_congr cb cb' ns _ (fun m hm => h m (mem_cons_of_mem _ hm))]

theorem visit_congr_reach (g g' : Graph) (stop : Nat → Bool) :
    ∀ (fuel n : Nat) (vis : List Nat), (∀ m, Reach g n m → g'.node m = g.node m) →
      visit g' stop fuel n vis = visit g stop fuel n vis := by
  intro fuel
  induction fuel with
  | zero => intro n vis _; simp [visit]
  | succ fuel ih =>
    intro n vis h
    have hcb : ∀ m, Edge g n m → ∀ vis, visit g' stop fuel m vis = visit g stop fuel m vis :=
      fun m e vis => ih m vis (fun k hk => h k (Reach.head e hk))
    simp only [visit]
    rw [h n .refl]
    split
    · rfl
    split
    · rfl
    rw [walkVals_congr (visit g' stop fuel) (visit g stop fuel) _ _
      (fun m hm => by
        obtain ⟨v, hv, hm⟩ := mem_valsRefs.1 hm
        obtain ⟨a, ha, rfl⟩ := mem_map.1 hv
        exact hcb m (.arg ha hm))]
    rw [walkNodes_congr (visit g' stop fuel) (visit g stop fuel) (g.node n).preTasks _ (fun m hm => hcb m (.pre hm))]
    rw [walkNodes_congr (visit g' stop fuel) (visit g stop fuel) (g.node n).initTasks _ (fun m hm => hcb m (.init hm))]
    cases ht : (g.node n).task with
    | none => rfl
    | some t =>
      by_cases hne : t = n
      · simp [hne]
      · simp only [ne_eq, hne, not_false_eq_true, if_true]
        exact hcb t (.task ht hne) _

/-- soundness of the walk: everything newly visited is reachable from the start. -/
theorem visit_sound (g : Graph) (stop : Nat → Bool) :
    ∀ (fuel n : Nat) (vis : List Nat), ∀ x ∈ visit g stop fuel n vis, x ∈ vis ∨ Reach g n x := by
  intro fuel
  induction fuel with
  | zero => intro n vis x hx; exact .inl (by simpa [visit] using hx)
  | succ fuel ih =>
    intro n vis
    have W : WalkRel (fun a b => ∀ x ∈ b, x ∈ a ∨ Reach g n x) (fun _ => True) (fun _ _ => True) := {
      refl := fun a x hx => .inl hx
      trans := by
        intro a b c h1 h2 x hx
        rcases h2 x hx with h | h
        · exact h1 x h
        · exact .inr h
      inv := fun _ _ => trivial
      keep := fun _ _ => trivial }
    have hcb : ∀ m, Edge g n m → ∀ vis, True → (∀ x ∈ visit g stop fuel m vis, x ∈ vis ∨ Reach g n x) ∧ True :=
      fun m e vis _ => ⟨fun x hx => (ih m vis x hx).imp id (Reach.head e), trivial⟩
    simp only [visit]
    split
    · exact fun x hx => .inl hx
    have h0 : ∀ x ∈ n :: vis, x ∈ vis ∨ Reach g n x := by
      intro x hx
      rcases mem_cons.1 hx with rfl | hx
      · exact .inr .refl
      · exact .inl hx
    split
    · exact h0
    have h1 := (walkVals_spec W (visit g stop fuel) ((g.node n).args.map (·.value)) (n :: vis)
      (fun m hm => by
        obtain ⟨v, hv, hm⟩ := mem_valsRefs.1 hm
        obtain ⟨a, ha, rfl⟩ := mem_map.1 hv
        exact hcb m (.arg ha hm)) trivial).1
    generalize walkVals (visit g stop fuel) ((g.node n).args.map (·.value)) (n :: vis) = vis2 at *
    have h2 := (walkNodes_spec W (visit g stop fuel) (g.node n).preTasks vis2 (fun m hm => hcb m (.pre hm)) trivial).1
    generalize walkNodes (visit g stop fuel) (g.node n).preTasks vis2 = vis3 at *
    have h3 := (walkNodes_spec W (visit g stop fuel) (g.node n).initTasks vis3 (fun m hm => hcb m (.init hm)) trivial).1
    generalize walkNodes (visit g stop fuel) (g.node n).initTasks vis3 = vis4 at *
    have h04 := W.trans h0 (W.trans h1 (W.trans h2 h3))
    cases ht : (g.node n).task with
    | none => exact h04
    | some t =>
      by_cases hne : t = n
      · simpa [hne] using h04
      · simp only [ne_eq, hne, not_false_eq_true, if_true]
        exact W.trans h04 (hcb t (.task ht hne) vis4 trivial).1

theorem reachable_sound {g : Graph} {n x : Nat} (h : x ∈ reachable g n) : Reach g n x := by
  rcases visit_sound g _ _ n [] x h with h | h
  · simp at h
  · exact h

theorem mem_dedup : ∀ {l : List Nat} {x : Nat}, x ∈ dedup l → x ∈ l
  | y :: ys, x, h => by
    simp only [dedup] at h
    split at h
    · exact mem_cons_of_mem _ (mem_dedup h)
    · rcases mem_cons.1 h with rfl | h
      · exact mem_cons_self
      · exact mem_cons_of_mem _ (mem_dedup h)

theorem mem_collectPreTasks {g : Graph} {n p : Nat} (h : p ∈ collectPreTasks g n) : ∃ m, Reach g n m ∧ p ∈ (g.node m).preTasks := by
  have := mem_dedup h
  simp only [mem_flatten, mem_map] at this
  obtain ⟨l, ⟨m, hm, rfl⟩, hp⟩ := this
  exact ⟨m, reachable_sound hm, hp⟩

/-- **`rawId` and `fullId` only inspect nodes reachable from `n`**. -/
theorem rawId_congr_reach {D : Type} (hc : HC D) (g g' : Graph) (n : Nat) (hs : g'.size = g.size)
    (h : ∀ m, IdReach g n m → g'.node m = g.node m) : rawId hc g' n = rawId hc g n := by
  unfold rawId; rw [hs]; exact rawAt_congr_reach hc g g' _ _ n h

theorem collectPreTasks_congr_reach (g g' : Graph) (n : Nat) (hs : g'.size = g.size)
    (h : ∀ m, Reach g n m → g'.node m = g.node m) : collectPreTasks g' n = collectPreTasks g n := by
  unfold collectPreTasks
  have hr : reachable g' n = reachable g n := by
    unfold reachable; rw [hs]; exact visit_congr_reach g g' _ _ n [] h
  rw [hr]
  congr 2
  apply map_congr_left
  intro m hm
  rw [h m (reachable_sound hm)]

theorem fullId_congr_reach {D : Type} (hc : HC D) (g g' : Graph) (n : Nat) (hs : g'.size = g.size)
    (h : ∀ m, IdReach g n m → g'.node m = g.node m) : fullId hc g' n = fullId hc g n := by
  have h' : ∀ m, Reach g n m → g'.node m = g.node m := fun m hm => h m (.of_reach hm)
  unfold fullId
  simp only []
  rw [rawId_congr_reach hc g g' n hs h, collectPreTasks_congr_reach g g' n hs h', h n .refl]
  have hp : (collectPreTasks g n).map (rawId hc g') = (collectPreTasks g n).map (rawId hc g) := by
    apply map_congr_left
    intro p hp
    obtain ⟨m, hm, hpm⟩ := mem_collectPreTasks hp
    exact rawId_congr_reach hc g g' p hs (fun k hk => h k ((IdReach.of_reach hm).trans (IdReach.head (.edge (.pre hpm)) hk)))
  have hi : (g.node n).initTasks.map (fun i => hc.emb (rawId hc g' i)) = (g.node n).initTasks.map (fun i => hc.emb (rawId hc g i)) := by
    apply map_congr_left
    intro i hi
    rw [rawId_congr_reach hc g g' i hs (fun k hk => h k (IdReach.head (.edge (.init hi)) hk))]
  rw [hp, hi]

/-! ### stability for sealed nodes -/

theorem reach_sealed {g : Graph} (hcl : SealedClosed g) {n m : Nat} (hn : (g.node n).sealed = true) (h : Reach g n m) :
    (g.node m).sealed = true := by
  induction h with
  | refl => exact hn
  | step _ e ih => exact hcl _ _ ih e

/-- the default objects — every configuration occurring in a declared default, and everything their
    identifiers depend on — are the same in `g'` ("class-level defaults are not modified"; they are *not* sealed
    by `seal`, which never visits them). -/
def DefaultsFrame (g g' : Graph) : Prop :=
  ∀ (x : Nat) (a : Arg) (r m : Nat), a ∈ (g.node x).args → r ∈ dfltRefs a → IdReach g r m → g'.node m = g.node m

/-- no declared default contains a configuration object. -/
def NoCfgDefaults (g : Graph) : Prop := ∀ (x : Nat) (a : Arg), a ∈ (g.node x).args → dfltRefs a = []

theorem DefaultsFrame.of_noCfgDefaults {g : Graph} (h : NoCfgDefaults g) (g' : Graph) : DefaultsFrame g g' := by
  intro x a r m ha hr; rw [h x a ha] at hr; cases hr

/-- what `IdReach` adds to `Reach`: a node reached through a declared default. -/
theorem IdReach.cases_default {g : Graph} {n m : Nat} (h : IdReach g n m) :
    Reach g n m ∨ ∃ x a r, a ∈ (g.node x).args ∧ r ∈ dfltRefs a ∧ IdReach g r m := by
  induction h with
  | refl => exact .inl .refl
  | @step m k _ e ih =>
    rcases ih with ih | ⟨x, a, r, ha, hr, hrm⟩
    · cases e with
      | edge e => exact .inl (.step ih e)
      | dflt ha hk => exact .inr ⟨m, _, k, ha, hk, .refl⟩
    · exact .inr ⟨x, a, r, ha, hr, .step hrm e⟩

theorem frame_ident {D : Type} (hc : HC D) {g g' : Graph} (hcl : SealedClosed g) (hf : Frame g g')
    (hdf : DefaultsFrame g g') {n : Nat} (hn : (g.node n).sealed = true) :
    rawId hc g' n = rawId hc g n ∧ fullId hc g' n = fullId hc g n ∧ (g'.node n).sealed = true := by
  have h : ∀ m, IdReach g n m → g'.node m = g.node m := by
    intro m hm
    rcases hm.cases_default with hm | ⟨x, a, r, ha, hr, hrm⟩
    · exact hf.2 m (reach_sealed hcl hn hm)
    · exact hdf x a r m ha hr hrm
  exact ⟨rawId_congr_reach hc g g' n hf.1 h, fullId_congr_reach hc g g' n hf.1 h, by rw [h n .refl]; exact hn⟩

/-- the set of nodes reachable from a sealed node never changes. -/
theorem frame_reach {g g' : Graph} (hcl : SealedClosed g) (hf : Frame g g') {n : Nat}
    (hn : (g.node n).sealed = true) {m : Nat} : Reach g' n m ↔ Reach g n m := by
  constructor
  · intro h
    induction h with
    | refl => exact .refl
    | step _ e ih => exact .step ih (e.of_node_eq (hf.2 _ (reach_sealed hcl hn ih)))
  · intro h
    induction h with
    | refl => exact .refl
    | step h0 e ih => exact .step ih (Edge.of_node_eq (hf.2 _ (reach_sealed hcl hn h0)).symm e)

end XpmVerif.Ident.Sealing
