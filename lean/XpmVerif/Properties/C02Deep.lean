import XpmVerif.Model.Ident
/-! C02 — "sub-configurations flagged as meta (also as list elements …) at any node and depth": a meta=True member
    inserted into a list at ANY nesting depth of a value is invisible to the comparison with ANY declared default
    (`HashComputer._is_default` drops ignored members at every level it recurses into, not only at the top level that
    `remove_meta` cleans) — so a value equal to its default up to such members is skipped like the default.
    Lists inside lists, unbounded depth; the dict case is proved one level deep (`isDefault_dict_meta_insert`), deeper dict spines are covered by the differential (seeded change C02f). -/
namespace XpmVerif.C02Deep
open XpmVerif.Ident

/-- `MetaIns mt v v'`: `v'` is `v` with one meta=True configuration inserted into a list somewhere inside it. -/
inductive MetaIns (mt : Nat → Option Bool) : Val → Val → Prop
  | here (l1 l2 : List Val) (m : Nat) (hm : mt m = some true) : MetaIns mt (.list (l1 ++ l2)) (.list (l1 ++ .ref m :: l2))
  | inList (pre post : List Val) (v v' : Val) (h : MetaIns mt v v') : MetaIns mt (.list (pre ++ v :: post)) (.list (pre ++ v' :: post))

theorem MetaIns.not_dropped {mt v v'} (h : MetaIns mt v v') : dropped mt v = false ∧ dropped mt v' = false := by
  cases h <;> simp [dropped]

/-- one level. -/
theorem isDefault_list_meta_insert (ceq : Nat → Nat → Bool) (mt : Nat → Option Bool) (d : Val) (l1 l2 : List Val) (m : Nat)
    (hm : mt m = some true) :
    isDefault ceq mt d (.list (l1 ++ .ref m :: l2)) = isDefault ceq mt d (.list (l1 ++ l2)) := by
  have hd : dropped mt (.ref m) = true := by simp [dropped, hm]
  cases d <;> simp [isDefault, pyEq, List.filter_append, hd]

theorem isDefaultL_congr_at (ceq : Nat → Nat → Bool) (mt : Nat → Option Bool) (v v' : Val)
    (h : ∀ d, isDefault ceq mt d v = isDefault ceq mt d v') (p q a : List Val) :
    isDefaultL ceq mt a (p ++ v :: q) = isDefaultL ceq mt a (p ++ v' :: q) := by
  induction p generalizing a with
  | nil => cases a <;> simp [isDefaultL, h]
  | cons x xs ih => cases a <;> simp [isDefaultL, ih]

/-- **any depth**: for every declared default `d`, the comparison does not see the inserted member. -/
theorem isDefault_meta_insert_any_depth (ceq : Nat → Nat → Bool) (mt : Nat → Option Bool) {v v' : Val}
    (h : MetaIns mt v v') : ∀ d, isDefault ceq mt d v = isDefault ceq mt d v' := by
  induction h with
  | here l1 l2 m hm => intro d; exact (isDefault_list_meta_insert ceq mt d l1 l2 m hm).symm
  | inList pre post v v' h ih =>
    intro d
    obtain ⟨h1, h2⟩ := h.not_dropped
    cases d <;> simp [isDefault, pyEq, List.filter_append, List.filter_cons, h1, h2]
    exact isDefaultL_congr_at ceq mt v v' ih _ _ _

/-- hence the skip rule "value equals the default" gives the same verdict: a parameter whose value is its default up to
    meta members inside inner lists stays out of the signature (the top level is `removeMeta`, the rest `isDefault`). -/
theorem default_skip_ignores_deep_meta (ceq : Nat → Nat → Bool) (mt : Nat → Option Bool) (a : Arg) (pre post : List Val) (v v' : Val)
    (h : MetaIns mt v v') (hv : a.value = .list (pre ++ v :: post)) :
    defaultOut ceq mt { a with value := .list (pre ++ v' :: post) } = defaultOut ceq mt a := by
  obtain ⟨h1, h2⟩ := h.not_dropped
  have key : ∀ d, isDefault ceq mt d (removeMeta mt (.list (pre ++ v' :: post))) = isDefault ceq mt d (removeMeta mt (.list (pre ++ v :: post))) := by
    intro d
    simp only [removeMeta, List.filter_append, List.filter_cons, h1, h2, Bool.not_false, if_true]
    exact (isDefault_meta_insert_any_depth ceq mt (MetaIns.inList _ _ v v' h) d).symm
  unfold defaultOut
  simp only [hv]
  cases hd : a.default <;> simp [key]

/-- non-vacuity: default `[[]]`, value `[[m]]` with `m` flagged meta — equal to the default for the comparison. -/
example : isDefault (fun _ _ => false) (fun n => if n = 7 then some true else none)
    (.list [.list []]) (.list [.list [.ref 7]]) = true := by decide
example : MetaIns (fun n => if n = 7 then some true else none) (.list ([] ++ .list ([] ++ []) :: [])) (.list ([] ++ .list ([] ++ .ref 7 :: []) :: [])) :=
  .inList [] [] _ _ (.here [] [] 7 (by simp))
/-- … and needed: with the flag unset the same value is NOT the default. -/
example : isDefault (fun _ _ => false) (fun _ => none) (.list [.list []]) (.list [.list [.ref 7]]) = false := by decide

/-- one level, dict: a meta=True value inserted under a new key anywhere in a dict is invisible to the comparison with any default. -/
theorem isDefault_dict_meta_insert (ceq : Nat → Nat → Bool) (mt : Nat → Option Bool) (d : Val)
    (k1 k2 : List (List Nat)) (v1 v2 : List Val) (k : List Nat) (m : Nat) (hl : k1.length = v1.length) (hm : mt m = some true) :
    isDefault ceq mt d (.dict (k1 ++ k :: k2) (v1 ++ .ref m :: v2)) = isDefault ceq mt d (.dict (k1 ++ k2) (v1 ++ v2)) := by
  have hd : dropped mt (.ref m) = true := by simp [dropped, hm]
  cases d <;> simp [isDefault, pyEq, List.zip_append hl, List.filter_append, hd]

end XpmVerif.C02Deep
