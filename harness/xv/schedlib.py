"""Workload generator and implementation-only monitors for the scheduler family
(C04 C05 C06 C07 C08 C09), on top of xv.impl.schedeng."""
import random


def gen_workload(rng, max_jobs=6, max_tokens=2, resubmit=True, markers=True, fail_p=0.2, marker_p=0.08, resubmit_p=0.15):
    nj = rng.randint(1, max_jobs)
    nt = rng.randint(0, max_tokens)
    totals = [rng.randint(1, 4) for _ in range(nt)]
    jobs = []
    for j in range(nj):
        deps = [["j", d] for d in range(j) if rng.random() < 0.35]
        deps += [["t", t, rng.randint(1, totals[t])] for t in range(nt) if rng.random() < 0.6]
        rng.shuffle(deps)
        js = {"ident": j, "deps": deps, "code": 0 if rng.random() > fail_p else rng.choice([1, 2, 137]), "marker": False}
        if markers and rng.random() < marker_p:
            js["marker"] = True
        if resubmit and j > 0 and rng.random() < resubmit_p:
            # same configuration as an earlier job (duplicate submission / re-submission after failure)
            i = rng.randrange(j)
            js["ident"] = jobs[i]["ident"]
            js["deps"] = [list(d) for d in jobs[i]["deps"]]
            js["marker"] = False
        jobs.append(js)
    return {"tokens": totals, "jobs": jobs}


def monitors(spec, events, obs, trace, quiescent):
    """returns list of (property, key, what)"""
    jobs = spec["jobs"]
    n = len(jobs)
    fails = []

    def add(p, key, what):
        fails.append((p, key, what))

    # --- replay the trace for launch-time facts -------------------------------------------
    everdone = set()
    launched = {}
    registered_other = {}
    for e in trace:
        if e[0] == "registered":
            registered_other[e[1]] = e[2]

    def eff(j):
        o = registered_other.get(j)
        return j if o is None else o

    for e in trace:
        if e[0] == "state" and e[2] == "DONE":
            everdone.add(e[1])
        elif e[0] == "launch":
            j = e[1]
            launched[j] = launched.get(j, 0) + 1
            for d in jobs[j]["deps"]:
                if d[0] == "j" and eff(d[1]) not in everdone:
                    add("C04", "launch-before-dependency", f"job {j} launched although job {d[1]} has not succeeded")
            if jobs[j].get("marker"):
                add("C05", "launched-despite-success-marker", f"job {j} launched although its success marker existed")
        elif e[0] == "registered":
            registered_other[e[1]] = e[2]
    # --- de-duplication at submission (C05, first sentence) ------------------------------------------
    holder = {}  # identifier -> index of the job currently registered for it
    for t, ev in enumerate(events):
        if ev[0] != "submit" or t >= len(obs):
            continue
        j = ev[1]
        ident = jobs[j]["ident"]
        if j not in registered_other:
            continue
        h = holder.get(ident)
        if h is not None:
            before = obs[t - 1]["states"][h] if t > 0 else None
            after = obs[t]["states"][h]
            if before != "ERROR" and after != "ERROR" and registered_other[j] != h:
                add("C05", "duplicate-not-deduplicated",
                    f"submission {j} repeats the configuration of job {h}, which has not failed (state {after}), but "
                    f"{'a second job was created' if registered_other[j] is None else 'job %s was returned' % registered_other[j]}")
        if registered_other[j] is None:
            holder[ident] = j
    # --- per observation ---------------------------------------------------------------------
    final = {}  # job -> first future result
    running = set()
    prev_launch = [0] * n
    waiter_done_at = None
    for t, (ev, o) in enumerate(zip(events, obs)):
        for j in range(n):
            if o["launches"][j] > prev_launch[j]:
                running.add(j)
        prev_launch = list(o["launches"])
        if ev[0] == "deliver":
            pass
        # a job stops holding when its exit code has been delivered: its state leaves RUNNING
        for j in list(running):
            if o["states"][j] not in ("RUNNING",):
                running.discard(j)
        for ti, total in enumerate(spec["tokens"]):
            held = sum(d[2] for j in range(n) if o["states"][j] == "RUNNING" for d in jobs[j]["deps"] if d[0] == "t" and d[1] == ti)
            if held > total:
                add("C08", "capacity-exceeded", f"token {ti} (total {total}): running jobs hold {held} at event {t}")
            if o["avail"][ti] < 0:
                add("C08", "negative-availability", f"token {ti}: available {o['avail'][ti]} at event {t}")
        for j in range(n):
            f = o["futures"][j]
            if f not in (None, "none", "pending"):
                if j not in final:
                    final[j] = (f, t)
                    if f not in ("DONE", "ERROR"):
                        add("C06", "future-not-final", f"waiting on job {j} returned {f}")
                if o["states"][j] != final[j][0]:
                    add("C06", "final-state-changed", f"job {j} was final {final[j][0]} at event {final[j][1]}, state is {o['states'][j]} at event {t}")
        if waiter_done_at is None and o["waiter"] in ("returned", "raised"):
            waiter_done_at = t
            notfinal = [j for j in range(n) if o["futures"][j] == "pending"]
            if notfinal:
                add("C06", "wait-returned-early", f"experiment.wait() ended at event {t} while jobs {notfinal} are not final")
            anyfailed = any(o["states"][j] == "ERROR" for j in range(n) if o["futures"][j] not in (None, "none"))
            if (o["waiter"] == "raised") != anyfailed:
                add("C07", "exit-status-wrong", f"wait() {o['waiter']} but failed jobs present = {anyfailed}")
    last = obs[-1] if obs else None
    if last is None:
        return fails
    # --- quiescence --------------------------------------------------------------------------------
    if quiescent:
        for j in range(n):
            f = last["futures"][j]
            if f == "pending":
                add("C06", "hang", f"nothing left to run but job {j} is {last['states'][j]} (unsatisfied={last['unsat'][j]})")
                toks_ok = all(d[0] != "t" or d[2] <= last["avail"][d[1]] for d in jobs[j]["deps"])
                deps_ok = all(d[0] != "j" or last["states"][eff(d[1])] == "DONE" for d in jobs[j]["deps"])
                if toks_ok and deps_ok:
                    add("C09", "waiting-job-never-launched", f"job {j} waits forever although its dependencies are satisfied and its token requests fit")
                failed_dep = [d[1] for d in jobs[j]["deps"] if d[0] == "j" and last["futures"][eff(d[1])] == "ERROR"]
                if failed_dep:
                    add("C07", "dependent-never-cancelled", f"job {j} depends on job {failed_dep[0]}, which ended in error, but it is never cancelled: "
                                                            f"it stays {last['states'][j]} for ever and the experiment cannot report the failure")
        if last["waiter"] == "pending":
            add("C06", "wait-hangs", f"experiment.wait() never returns (unfinished={last['unfinished']})")
        if last["unfinished"] != 0 and not any(f == "pending" for f in last["futures"]):
            add("C06", "unfinished-counter", f"all jobs final but unfinishedJobs={last['unfinished']}")
        for ti, total in enumerate(spec["tokens"]):
            if last["avail"][ti] != total and not any(f == "pending" for f in last["futures"]):
                add("C09", "token-not-returned", f"idle token {ti} shows {last['avail'][ti]} of {total}")
    # --- truthfulness / containment -------------------------------------------------------------------
    own_fail = {j for j in range(n) if jobs[j]["code"] != 0 and not jobs[j].get("marker")}

    def effective(j):
        """job index whose execution stands for j (duplicates return the first submission)"""
        o = registered_other.get(j)
        return j if o is None else o

    def tainted(j):
        """a job j depends on (directly) ended in error; transitivity follows because that job's own
        error is then required by the same rule"""
        return any(d[0] == "j" and last["futures"][eff(d[1])] == "ERROR" for d in jobs[j]["deps"])

    for j in range(n):
        f = last["futures"][j]
        if f in (None, "none", "pending"):
            if f == "none" and registered_other.get(j) is None and last["states"][j] is not None and quiescent:
                add("C05", "submission-lost", f"job {j} was neither deduplicated nor scheduled")
            if registered_other.get(j) is not None and last["launches"][j] > 0:
                add("C05", "duplicate-launched", f"duplicate submission {j} of job {registered_other[j]} was launched")
            continue
        marker = jobs[j].get("marker")
        if f == "DONE" and not marker and (jobs[j]["code"] != 0 or last["launches"][j] == 0):
            add("C06", "untruthful-done", f"job {j} is DONE but its process exited with {jobs[j]['code']} (launches {last['launches'][j]})")
        if f == "ERROR" and (marker or (last["launches"][j] > 0 and jobs[j]["code"] == 0)):
            add("C06", "untruthful-error", f"job {j} is ERROR although {'its marker existed' if marker else 'its process exited with 0'}")
        if tainted(j) and not marker:
            if last["launches"][j] > 0:
                add("C07", "launched-after-failed-dependency", f"job {j} was launched although a job it depends on failed")
            if f != "ERROR":
                add("C07", "dependent-not-cancelled", f"job {j} ended {f} although a job it depends on failed")
        elif f == "ERROR" and j not in own_fail and not marker:
            add("C07", "collateral-failure", f"job {j} ended in error although neither it nor any job it depends on failed")
        if last["launches"][j] > 1:
            add("C05", "launched-twice", f"job {j} was launched {last['launches'][j]} times")
    return fails
