import XpmVerif.Model.Specs
/-! Helper lemmas for M8. -/
namespace XpmVerif.Specs

theorem zip_any_false {α β : Type} (p : α × β → Bool) :
    ∀ (a : List α) (b : List β), (List.zip a b).any p = false →
      ∀ i (hi : i < a.length) (hj : i < b.length), p (a[i], b[i]) = false
  | [], _, _, i, hi, _ => by simp at hi
  | _ :: _, [], _, i, _, hj => by simp at hj
  | x :: xs, y :: ys, h, i, hi, hj => by
    simp only [List.zip_cons_cons, List.any_cons, Bool.or_eq_false_iff] at h
    cases i with
    | zero => simpa using h.1
    | succ i => simpa using zip_any_false p xs ys h.2 i (by simpa using hi) (by simpa using hj)


/-- what a successful `reqMatch` establishes, in a form independent of the shape of the generated code. -/
theorem match_key (r : Req) (h : Host) (s : Int) (hm : reqMatch r h = some s) :
    ((List.zip h.cuda r.gpus).any (fun (a, b) => !(cudaMatch a b)) = false) ∧ r.gpus.length ≤ h.cuda.length ∧
    cpuLt h.cpu r.cpu = false ∧ (0 < h.maxDuration → r.duration ≤ h.maxDuration) ∧ r.gpus.length ≥ h.minGpu := by
  unfold reqMatch at hm
  by_cases hg : r.gpus = []
  · simp [hg] at hm ⊢; grind
  · grind

theorem match_score (r : Req) (h : Host) (s : Int) (hm : reqMatch r h = some s) : s = h.priority := by
  unfold reqMatch at hm
  grind

theorem unionLoop_some (host : Host) (rs : List Req) (i : Nat) (j : Nat) :
    unionLoop host rs i (some (host.priority, j)) = some (host.priority, j) := by
  induction rs generalizing i with
  | nil => rfl
  | cons r rs ih =>
    simp only [unionLoop]
    cases hr : reqMatch r host with
    | none => simpa using ih (i+1)
    | some s =>
      have := match_score r host s hr
      subst this
      simpa using ih (i+1)

theorem union_first_match_aux (host : Host) (rs : List Req) (i : Nat) :
    unionLoop host rs i none = (firstMatch host rs i).map (fun k => (host.priority, k)) := by
  induction rs generalizing i with
  | nil => rfl
  | cons r rs ih =>
    simp only [unionLoop, firstMatch]
    cases hr : reqMatch r host with
    | none => simpa using ih (i+1)
    | some s =>
      have := match_score r host s hr
      subst this
      simp [unionLoop_some]

theorem extendLoop_spec (h : Heap) (n self : Nat) (c : Nat)
    (hne : (h.reqs n).gpusRef ≠ (h.reqs self).gpusRef) :
    h.extendLoop n self c =
      { h with gpus := (upd h.gpus (h.reqs n).gpusRef
          (h.gpus (h.reqs n).gpusRef ++ (List.replicate c (h.gpus (h.reqs self).gpusRef)).flatten)) } := by
  induction c generalizing h with
  | zero => 
    simp only [Heap.extendLoop, List.replicate_zero, List.flatten_nil, List.append_nil]
    have : upd h.gpus (h.reqs n).gpusRef (h.gpus (h.reqs n).gpusRef) = h.gpus := by
      funext i; simp only [upd]; split <;> simp_all
    rw [this]
  | succ c ih =>
    simp only [Heap.extendLoop]
    rw [ih _ (by simpa using hne)]
    congr 1
    funext i
    simp only [upd]
    by_cases hi : i = (h.reqs n).gpusRef
    · simp [hi, List.replicate_succ, Ne.symm hne]
    · simp [hi]


theorem insertGpu_length (g : Cuda) (l : List Cuda) : (insertGpu g l).length = l.length + 1 := by
  induction l with
  | nil => simp [insertGpu]
  | cons x xs ih => simp only [insertGpu]; split <;> simp [ih]

theorem sortGpus_length (l : List Cuda) : (sortGpus l).length = l.length := by
  unfold sortGpus
  have : ∀ (acc : List Cuda), (l.foldl (fun acc g => insertGpu g acc) acc).length = acc.length + l.length := by
    induction l with
    | nil => simp
    | cons x xs ih => intro acc; simp [List.foldl_cons, ih, insertGpu_length]; omega
  simpa using this []

end XpmVerif.Specs
