import XpmVerif.Model.GenPath
/-! Helper lemmas for C17 (generated paths): pathlib joins of plain components, prefix-freeness of the
    key paths below a value, the walker invariant `Ext`, renaming of objects, fuel, the key encoder of
    the proposed repair. Core Lean only. -/
namespace XpmVerif.GenPath

/-! ### A. pathlib lemmas -/

theorem splitSlash_ne_nil (s : Str) : splitSlash s ≠ [] := by
  induction s with
  | nil => simp [splitSlash]
  | cons c cs ih =>
    unfold splitSlash
    split
    · simp
    · split <;> simp

theorem splitSlash_noslash (s : Str) (h : '/' ∉ s) : splitSlash s = [s] := by
  induction s with
  | nil => rfl
  | cons c cs ih =>
    have hc : c ≠ '/' := by intro e; apply h; simp [e]
    have hcs : '/' ∉ cs := by intro e; apply h; simp [e]
    simp [splitSlash, hc, ih hcs]

theorem parts_plain {s : Str} (h : Plain s) : parts s = [s] := by
  obtain ⟨h1, h2, h3, _⟩ := h
  simp [parts, splitSlash_noslash s h2, h1, h3]

theorem isAbs_plain {s : Str} (h : Plain s) : isAbs s = false := by
  obtain ⟨h1, h2, _, _⟩ := h
  cases s with
  | nil => exact absurd rfl h1
  | cons c cs =>
    have hc : c ≠ '/' := by intro e; apply h2; simp [e]
    simp [isAbs, hc]

theorem join_plain (p : PPath) {s : Str} (h : Plain s) : p.join s = ⟨p.abs, p.comps ++ [s]⟩ := by
  simp [PPath.join, isAbs_plain h, parts_plain h]

theorem foldl_join_plain (keys : List Str) (h : ∀ k ∈ keys, Plain k) (p : PPath) :
    keys.foldl PPath.join p = ⟨p.abs, p.comps ++ keys⟩ := by
  induction keys generalizing p with
  | nil => simp
  | cons k ks ih =>
    have hk : Plain k := h k (by simp)
    rw [List.foldl_cons, join_plain p hk, ih (fun k hk => h k (by simp [hk]))]
    simp

def outStr : Str := ['o', 'u', 't']

/-- the components of `currentpath()` below the job directory for a stack of plain keys. -/
def base : List Str → List Str
  | [] => []
  | k :: ks => outStr :: k :: ks

theorem currentPath_plain (keys : List Str) (h : ∀ k ∈ keys, Plain k) :
    currentPath keys = ⟨false, base keys⟩ := by
  cases keys with
  | nil => rfl
  | cons k ks =>
    show (k :: ks).foldl PPath.join ⟨false, [outStr]⟩ = _
    rw [foldl_join_plain _ h]
    simp [base]

theorem genPath_plain (keys : List Str) (file : Str) (h : ∀ k ∈ keys, Plain k) (hf : Plain file) :
    genPath keys file = ⟨false, base keys ++ [file]⟩ := by
  simp [genPath, currentPath_plain keys h, join_plain _ hf]

theorem base_inj {a b : List Str} (h : base a = base b) : a = b := by
  cases a <;> cases b <;> simp_all [base]

theorem genPath_inj {k1 k2 : List Str} {f1 f2 : Str} (h1 : ∀ k ∈ k1, Plain k) (h2 : ∀ k ∈ k2, Plain k)
    (hf1 : Plain f1) (hf2 : Plain f2) (h : genPath k1 f1 = genPath k2 f2) : k1 = k2 ∧ f1 = f2 := by
  rw [genPath_plain k1 f1 h1 hf1, genPath_plain k2 f2 h2 hf2] at h
  have h' : base k1 ++ [f1] = base k2 ++ [f2] := by simpa using h
  have := List.append_inj' h' rfl
  exact ⟨base_inj this.1, by simpa using this.2⟩

theorem resolveIn_plain (comps st : List Str) (h : ∀ c ∈ comps, c ≠ ['.', '.']) :
    resolveIn st comps = some (st.reverse ++ comps) := by
  induction comps generalizing st with
  | nil => simp [resolveIn]
  | cons c cs ih =>
    have hc : c ≠ ['.', '.'] := h c (by simp)
    simp only [resolveIn, hc, if_false]
    rw [ih _ (fun c hc => h c (by simp [hc]))]
    simp

theorem plain_out : Plain outStr := by decide

theorem base_plain {keys : List Str} (h : ∀ k ∈ keys, Plain k) : ∀ c ∈ base keys, Plain c := by
  cases keys with
  | nil => simp [base]
  | cons k ks =>
    intro c hc
    simp only [base, List.mem_cons] at hc
    rcases hc with rfl | rfl | hc
    · exact plain_out
    · exact h _ (by simp)
    · exact h _ (by simp [hc])

theorem genPath_inside (keys : List Str) (file : Str) (h : ∀ k ∈ keys, Plain k) (hf : Plain file) :
    (genPath keys file).Inside := by
  rw [genPath_plain keys file h hf]
  refine ⟨rfl, base keys ++ [file], ?_, by simp⟩
  have : ∀ c ∈ base keys ++ [file], c ≠ ['.', '.'] := by
    intro c hc
    simp only [List.mem_append, List.mem_singleton] at hc
    rcases hc with hc | rfl
    · exact (base_plain h c hc).2.2.2
    · exact hf.2.2.2
  simpa using resolveIn_plain _ [] this


theorem idxKey_inj {i j : Nat} (h : idxKey i = idxKey j) : i = j := by
  have hi := @Nat.ofDigitChars_ten_toDigits i
  have hj := @Nat.ofDigitChars_ten_toDigits j
  unfold idxKey at h
  rw [h] at hi
  omega

theorem idxKey_plain (i : Nat) : Plain (idxKey i) := by
  have hd : ∀ c ∈ idxKey i, c.isDigit = true := fun c hc =>
    Nat.isDigit_of_mem_toDigits (by decide) (by decide) hc
  refine ⟨Nat.toDigits_ne_nil, ?_, ?_, ?_⟩
  · intro h; have := hd _ h; revert this; decide
  · intro h; have := hd '.' (by rw [h]; simp); revert this; decide
  · intro h; have := hd '.' (by rw [h]; simp); revert this; decide

/-- neither key path is a prefix of the other. -/
def Incomp (a b : List Str) : Prop := ¬ a <+: b ∧ ¬ b <+: a

theorem incomp_cons_ne {k1 k2 : Str} (a b : List Str) (h : k1 ≠ k2) : Incomp (k1 :: a) (k2 :: b) := by
  constructor <;> (intro hp; have := List.cons_prefix_cons.mp hp; exact h (by simp [this.1]))

theorem incomp_cons_same {k : Str} {a b : List Str} (h : Incomp a b) : Incomp (k :: a) (k :: b) := by
  constructor
  · intro hp; exact h.1 (List.cons_prefix_cons.mp hp).2
  · intro hp; exact h.2 (List.cons_prefix_cons.mp hp).2

/-- positions below incomparable key paths are different. -/
theorem incomp_sep {p a b q1 q2 : List Str} (h : Incomp a b) (h1 : p ++ a <+: q1) (h2 : p ++ b <+: q2) : q1 ≠ q2 := by
  intro e
  subst e
  rcases List.prefix_or_prefix_of_prefix h1 h2 with hp | hp
  · exact h.1 ((List.prefix_append_right_inj p).mp hp)
  · exact h.2 ((List.prefix_append_right_inj p).mp hp)

def RefsOK (l : List Ref) : Prop := l.Pairwise (fun a b => Incomp a.1 b.1)

def KeysPlain (l : List Ref) : Prop := ∀ e ∈ l, ∀ k ∈ e.1, Plain k

theorem refsOK_map_prep (k : Str) {l : List Ref} (h : RefsOK l) : RefsOK (l.map (prep k)) := by
  unfold RefsOK at *
  rw [List.pairwise_map]
  exact h.imp (fun hab => incomp_cons_same hab)

theorem keysPlain_map_prep {k : Str} (hk : Plain k) {l : List Ref} (h : KeysPlain l) : KeysPlain (l.map (prep k)) := by
  intro e he k' hk'
  simp only [List.mem_map] at he
  obtain ⟨e0, he0, rfl⟩ := he
  simp only [prep, List.mem_cons] at hk'
  rcases hk' with rfl | hk'
  · exact hk
  · exact h e0 he0 k' hk'

/-- every key path of `l` starts with a key satisfying `P`. -/
def HeadIn (P : Str → Prop) (l : List Ref) : Prop := ∀ e ∈ l, ∃ k t, e.1 = k :: t ∧ P k

theorem headIn_map_prep {P : Str → Prop} {k : Str} (hk : P k) (l : List Ref) : HeadIn P (l.map (prep k)) := by
  intro e he
  simp only [List.mem_map] at he
  obtain ⟨e0, _, rfl⟩ := he
  exact ⟨k, e0.1, rfl, hk⟩

theorem refsOK_append_heads {k : Str} {P : Str → Prop} {l1 l2 : List Ref} (h1 : RefsOK (l1.map (prep k)))
    (h2 : RefsOK l2) (hh : HeadIn P l2) (hk : ∀ k', P k' → k ≠ k') : RefsOK (l1.map (prep k) ++ l2) := by
  unfold RefsOK at *
  rw [List.pairwise_append]
  refine ⟨h1, h2, ?_⟩
  intro a ha b hb
  simp only [List.mem_map] at ha
  obtain ⟨a0, _, rfl⟩ := ha
  obtain ⟨k', t, hb1, hb2⟩ := hh b hb
  rw [hb1]
  exact incomp_cons_ne _ _ (hk k' hb2)

mutual
theorem refs_ok (enc : Str → Str) : ∀ v, valOK enc v = true → RefsOK (refs enc v) ∧ KeysPlain (refs enc v)
  | .none, _ => by simp [refs, RefsOK, KeysPlain]
  | .scalar, _ => by simp [refs, RefsOK, KeysPlain]
  | .ref n, _ => by simp [refs, RefsOK, KeysPlain]
  | .list vs, h => by
    simp only [valOK] at h
    have := refsList_ok enc vs 0 h
    simp only [refs]
    exact ⟨this.1, this.2.1⟩
  | .dict ks vs, h => by
    simp only [valOK, Bool.and_eq_true, decide_eq_true_eq, List.all_eq_true] at h
    have := refsDict_ok enc ks vs h.1.1 (fun k hk => by simpa using h.1.2 (enc k) (List.mem_map_of_mem hk)) h.2
    simp only [refs]
    exact ⟨this.1, this.2.1⟩
theorem refsList_ok (enc : Str → Str) : ∀ vs i, valsOK enc vs = true →
    RefsOK (refsList enc i vs) ∧ KeysPlain (refsList enc i vs) ∧ HeadIn (fun k => ∃ j, i ≤ j ∧ k = idxKey j) (refsList enc i vs)
  | [], i, _ => by simp [refsList, RefsOK, KeysPlain, HeadIn]
  | v :: vs, i, h => by
    simp only [valsOK, Bool.and_eq_true] at h
    have hv := refs_ok enc v h.1
    have hr := refsList_ok enc vs (i + 1) h.2
    simp only [refsList]
    refine ⟨?_, ?_, ?_⟩
    · apply refsOK_append_heads (refsOK_map_prep _ hv.1) hr.1 hr.2.2
      rintro k' ⟨j, hj, rfl⟩ e
      have := idxKey_inj e
      omega
    · intro e he
      rcases List.mem_append.mp he with he | he
      · exact keysPlain_map_prep (idxKey_plain i) hv.2 e he
      · exact hr.2.1 e he
    · intro e he
      rcases List.mem_append.mp he with he | he
      · exact headIn_map_prep (P := fun k => ∃ j, i ≤ j ∧ k = idxKey j) ⟨i, Nat.le_refl _, rfl⟩ _ e he
      · obtain ⟨k, t, h1, j, hj, h2⟩ := hr.2.2 e he
        exact ⟨k, t, h1, j, by omega, h2⟩
theorem refsDict_ok (enc : Str → Str) : ∀ ks vs, (ks.map enc).Nodup → (∀ k ∈ ks, Plain (enc k)) → valsOK enc vs = true →
    RefsOK (refsDict enc ks vs) ∧ KeysPlain (refsDict enc ks vs) ∧ HeadIn (fun k => k ∈ ks.map enc) (refsDict enc ks vs)
  | [], _, _, _, _ => by simp [refsDict, RefsOK, KeysPlain, HeadIn]
  | _ :: _, [], _, _, _ => by simp [refsDict, RefsOK, KeysPlain, HeadIn]
  | k :: ks, v :: vs, hn, hp, h => by
    simp only [valsOK, Bool.and_eq_true] at h
    simp only [List.map_cons, List.nodup_cons] at hn
    have hv := refs_ok enc v h.1
    have hr := refsDict_ok enc ks vs hn.2 (fun k hk => hp k (by simp [hk])) h.2
    simp only [refsDict]
    refine ⟨?_, ?_, ?_⟩
    · apply refsOK_append_heads (refsOK_map_prep _ hv.1) hr.1 hr.2.2
      intro k' hk' e
      exact hn.1 (e ▸ hk')
    · intro e he
      rcases List.mem_append.mp he with he | he
      · exact keysPlain_map_prep (hp k (by simp)) hv.2 e he
      · exact hr.2.1 e he
    · intro e he
      rcases List.mem_append.mp he with he | he
      · exact headIn_map_prep (P := fun k' => k' ∈ (k :: ks).map enc) (by simp) _ e he
      · obtain ⟨k', t, h1, h2⟩ := hr.2.2 e he
        exact ⟨k', t, h1, by simp [h2]⟩
end


/-! ### B3. the children of a node -/

theorem refsArgs_ok (enc : Str → Str) : ∀ (args : List (Str × Val)), (args.map Prod.fst).Nodup →
    (∀ a ∈ args, Plain a.1) → (∀ a ∈ args, valOK enc a.2 = true) →
    RefsOK (refsArgs enc args) ∧ KeysPlain (refsArgs enc args) ∧ HeadIn (fun k => k ∈ args.map Prod.fst) (refsArgs enc args)
  | [], _, _, _ => by simp [refsArgs, RefsOK, KeysPlain, HeadIn]
  | (k, v) :: r, hn, hp, hv => by
    simp only [List.map_cons, List.nodup_cons] at hn
    have h1 := refs_ok enc v (hv (k, v) (by simp))
    have hr := refsArgs_ok enc r hn.2 (fun a ha => hp a (by simp [ha])) (fun a ha => hv a (by simp [ha]))
    simp only [refsArgs]
    refine ⟨?_, ?_, ?_⟩
    · apply refsOK_append_heads (refsOK_map_prep _ h1.1) hr.1 hr.2.2
      intro k' hk' e
      exact hn.1 (e ▸ hk')
    · intro e he
      rcases List.mem_append.mp he with he | he
      · exact keysPlain_map_prep (hp (k, v) (by simp)) h1.2 e he
      · exact hr.2.1 e he
    · intro e he
      rcases List.mem_append.mp he with he | he
      · exact headIn_map_prep (P := fun k' => k' ∈ ((k, v) :: r).map Prod.fst) (by simp) _ e he
      · obtain ⟨k', t, h1, h2⟩ := hr.2.2 e he
        exact ⟨k', t, h1, by simp [h2]⟩

theorem valsOK_refs (enc : Str → Str) (l : List NodeId) : valsOK enc (l.map Val.ref) = true := by
  induction l with
  | nil => rfl
  | cons a l ih => simp [valsOK, valOK, ih]

theorem plain_preKey : Plain preKey := by decide
theorem plain_initKey : Plain initKey := by decide
theorem preKey_ne_initKey : preKey ≠ initKey := by decide

theorem refsOK_append {P Q : Str → Prop} {l1 l2 : List Ref} (h1 : RefsOK l1) (h2 : RefsOK l2)
    (hh1 : HeadIn P l1) (hh2 : HeadIn Q l2) (hd : ∀ a b, P a → Q b → a ≠ b) : RefsOK (l1 ++ l2) := by
  unfold RefsOK at *
  rw [List.pairwise_append]
  refine ⟨h1, h2, ?_⟩
  intro a ha b hb
  obtain ⟨ka, ta, ea, pa⟩ := hh1 a ha
  obtain ⟨kb, tb, eb, pb⟩ := hh2 b hb
  rw [ea, eb]
  exact incomp_cons_ne _ _ (hd _ _ pa pb)

theorem headIn_append {P Q R : Str → Prop} {l1 l2 : List Ref} (h1 : HeadIn P l1) (h2 : HeadIn Q l2)
    (hp : ∀ k, P k → R k) (hq : ∀ k, Q k → R k) : HeadIn R (l1 ++ l2) := by
  intro e he
  rcases List.mem_append.mp he with he | he
  · obtain ⟨k, t, e1, e2⟩ := h1 e he; exact ⟨k, t, e1, hp k e2⟩
  · obtain ⟨k, t, e1, e2⟩ := h2 e he; exact ⟨k, t, e1, hq k e2⟩

theorem keysPlain_append {l1 l2 : List Ref} (h1 : KeysPlain l1) (h2 : KeysPlain l2) : KeysPlain (l1 ++ l2) := by
  intro e he
  rcases List.mem_append.mp he with he | he
  · exact h1 e he
  · exact h2 e he

/-- the children of a well-formed node: pairwise incomparable, plain, non-empty key paths. -/
theorem nodeRefs_ok (enc : Str → Str) (nd : Node) (h : nodeOK enc nd = true) :
    RefsOK (nodeRefs enc nd) ∧ KeysPlain (nodeRefs enc nd) ∧ ∀ e ∈ nodeRefs enc nd, e.1 ≠ [] := by
  simp only [nodeOK, Bool.and_eq_true, decide_eq_true_eq, List.all_eq_true] at h
  obtain ⟨⟨⟨⟨hnd, hk⟩, hv⟩, _⟩, _⟩ := h
  have hargs := refsArgs_ok enc nd.args hnd
    (fun a ha => (hk a.1 (List.mem_map_of_mem ha)).1.1)
    (fun a ha => hv a ha)
  have hpre := refsList_ok enc (nd.preTasks.map Val.ref) 0 (valsOK_refs enc _)
  have hinit := refsList_ok enc (nd.initTasks.map Val.ref) 0 (valsOK_refs enc _)
  have hP := headIn_map_prep (P := fun k => k = preKey) rfl (refsList enc 0 (nd.preTasks.map Val.ref))
  have hI := headIn_map_prep (P := fun k => k = initKey) rfl (refsList enc 0 (nd.initTasks.map Val.ref))
  have hAP : HeadIn (fun k => k ∈ nd.args.map Prod.fst ∨ k = preKey) (refsArgs enc nd.args ++ (refsList enc 0 (nd.preTasks.map Val.ref)).map (prep preKey)) :=
    headIn_append hargs.2.2 hP (fun k h => Or.inl h) (fun k h => Or.inr h)
  have hall : HeadIn (fun _ => True) (nodeRefs enc nd) :=
    headIn_append hAP hI (fun _ _ => trivial) (fun _ _ => trivial)
  refine ⟨?_, ?_, ?_⟩
  · unfold nodeRefs
    apply refsOK_append (P := fun k => k ∈ nd.args.map Prod.fst ∨ k = preKey) (Q := fun k => k = initKey) _ (refsOK_map_prep _ hinit.1) hAP hI
    · rintro a b (ha | rfl) rfl
      · exact (hk a ha).2
      · exact preKey_ne_initKey
    · apply refsOK_append (P := fun k => k ∈ nd.args.map Prod.fst) (Q := fun k => k = preKey) hargs.1 (refsOK_map_prep _ hpre.1) hargs.2.2 hP
      rintro a b ha rfl
      exact (hk a ha).1.2
  · unfold nodeRefs
    exact keysPlain_append (keysPlain_append hargs.2.1 (keysPlain_map_prep plain_preKey hpre.2.1))
      (keysPlain_map_prep plain_initKey hinit.2.1)
  · intro e he
    obtain ⟨k, t, e1, _⟩ := hall e he
    rw [e1]; simp

/-! ### C. invariants of the walker -/

/-- what a walk started with key stack `p` does to the state: `visited` only grows; the processed
    configurations it adds were not visited before, are visited afterwards, sit at pairwise different
    key stacks that extend `p` by plain keys, and are pairwise different objects. -/
structure Ext (p : List Str) (w w' : W) : Prop where
  vis : ∀ m ∈ w.vis, m ∈ w'.vis
  out : ∃ new, w'.out = w.out ++ new
      ∧ (∀ e ∈ new, e.1 ∉ w.vis ∧ e.1 ∈ w'.vis ∧ ∃ t, e.2 = p ++ t ∧ ∀ k ∈ t, Plain k)
      ∧ (new.map Prod.snd).Nodup ∧ (new.map Prod.fst).Nodup

structure ExtL (p : List Str) (L : List Ref) (w w' : W) : Prop where
  vis : ∀ m ∈ w.vis, m ∈ w'.vis
  out : ∃ new, w'.out = w.out ++ new
      ∧ (∀ e ∈ new, e.1 ∉ w.vis ∧ e.1 ∈ w'.vis ∧ ∃ r ∈ L, ∃ t, e.2 = p ++ r.1 ++ t ∧ ∀ k ∈ t, Plain k)
      ∧ (new.map Prod.snd).Nodup ∧ (new.map Prod.fst).Nodup

theorem Ext.refl (p : List Str) (w : W) : Ext p w w :=
  ⟨fun _ h => h, [], by simp, by simp, by simp, by simp⟩

theorem fold_ext (p : List Str) (f : W → Ref → W) : ∀ (L : List Ref), RefsOK L →
    (∀ e ∈ L, ∀ w, Ext (p ++ e.1) w (f w e)) → ∀ w, ExtL p L w (L.foldl f w)
  | [], _, _, w => ⟨fun _ h => h, [], by simp, by simp, by simp, by simp⟩
  | e :: L, hL, hf, w => by
    have hLc := List.pairwise_cons.mp hL
    obtain ⟨v1, new1, o1, p1, ns1, nf1⟩ := hf e (by simp) w
    obtain ⟨v2, new2, o2, p2, ns2, nf2⟩ := fold_ext p f L hLc.2 (fun e' he' => hf e' (by simp [he'])) (f w e)
    rw [List.foldl_cons]
    refine ⟨fun m hm => v2 m (v1 m hm), new1 ++ new2, ?_, ?_, ?_, ?_⟩
    · rw [o2, o1, List.append_assoc]
    · intro x hx
      rcases List.mem_append.mp hx with hx | hx
      · obtain ⟨a, b, t, ht, hpl⟩ := p1 x hx
        exact ⟨a, v2 _ b, e, by simp, t, ht, hpl⟩
      · obtain ⟨a, b, r, hr, t, ht, hpl⟩ := p2 x hx
        exact ⟨fun h => a (v1 _ h), b, r, by simp [hr], t, ht, hpl⟩
    · rw [List.map_append, List.nodup_append]
      refine ⟨ns1, ns2, ?_⟩
      intro a ha b hb
      obtain ⟨x, hx, rfl⟩ := List.mem_map.mp ha
      obtain ⟨y, hy, rfl⟩ := List.mem_map.mp hb
      obtain ⟨_, _, t1, ht1, _⟩ := p1 x hx
      obtain ⟨_, _, r, hr, t2, ht2, _⟩ := p2 y hy
      exact incomp_sep (hLc.1 r hr) (ht1 ▸ List.prefix_append _ _) (ht2 ▸ List.prefix_append _ _)
    · rw [List.map_append, List.nodup_append]
      refine ⟨nf1, nf2, ?_⟩
      intro a ha b hb
      obtain ⟨x, hx, rfl⟩ := List.mem_map.mp ha
      obtain ⟨y, hy, rfl⟩ := List.mem_map.mp hb
      intro e
      exact (p2 y hy).1 (e ▸ (p1 x hx).2.1)

/-- a linked task that is sealed (or absent from the graph) adds nothing. -/
theorem walkNode_sealed (enc : Str → Str) (g : Graph) (fuel : Nat) (p : List Str) (t : NodeId) (w : W)
    (h : match g.node t with | some nt => nt.isSealed = true | none => True) :
    (walkNode enc g fuel p t w).out = w.out ∧ ∀ m ∈ w.vis, m ∈ (walkNode enc g fuel p t w).vis := by
  cases fuel with
  | zero => simp [walkNode]
  | succ fuel =>
    unfold walkNode
    by_cases hv : t ∈ w.vis
    · simp [hv]
    · simp only [hv, if_false]
      cases hg : g.node t with
      | none => simp
      | some nt =>
        rw [hg] at h
        simp only [h, if_true]
        refine ⟨by simp, fun m hm => by simp [hm]⟩

theorem walkNode_ext (enc : Str → Str) (g : Graph) (hg : g.OK enc) :
    ∀ (fuel : Nat) (p : List Str) (n : NodeId) (w : W), Ext p w (walkNode enc g fuel p n w)
  | 0, p, n, w => by simpa [walkNode] using Ext.refl p w
  | fuel + 1, p, n, w => by
    unfold walkNode
    by_cases hv : n ∈ w.vis
    · simpa [hv] using Ext.refl p w
    · simp only [hv, if_false]
      cases hn : g.node n with
      | none => simpa using Ext.refl p w
      | some nd =>
        simp only []
        by_cases hs : nd.isSealed = true
        · simp only [hs, if_true]
          exact ⟨fun m hm => by simp [hm], [], by simp, by simp, by simp, by simp⟩
        · have hs' : nd.isSealed = false := by simpa using hs
          simp only [hs', Bool.false_eq_true, if_false]
          obtain ⟨hnode, htask⟩ := hg n nd hn
          obtain ⟨hro, hrp, hrn⟩ := nodeRefs_ok enc nd hnode
          -- the fold over the children
          have hfold := fold_ext p (fun w e => walkNode enc g fuel (p ++ e.1) e.2 w) (nodeRefs enc nd) hro
            (fun e _ w => walkNode_ext enc g hg fuel (p ++ e.1) e.2 w) { w with vis := n :: w.vis }
          generalize (nodeRefs enc nd).foldl (fun w e => walkNode enc g fuel (p ++ e.1) e.2 w) { w with vis := n :: w.vis } = w2 at hfold
          obtain ⟨v2, new2, o2, p2, ns2, nf2⟩ := hfold
          -- whatever the linked task does (nothing but `visited`), then `postprocess`
          have key : ∀ w3 : W, w3.out = w2.out → (∀ m ∈ w2.vis, m ∈ w3.vis) →
              Ext p w { w3 with out := w3.out ++ [(n, p)] } := by
            intro w3 o3 v3
            refine ⟨fun m hm => v3 m (v2 m (by simp [hm])), new2 ++ [(n, p)], ?_, ?_, ?_, ?_⟩
            · simp [o3, o2]
            · intro x hx
              rcases List.mem_append.mp hx with hx | hx
              · obtain ⟨a, b, r, hr, t, ht, hpl⟩ := p2 x hx
                refine ⟨fun h => a (by simp [h]), v3 _ b, r.1 ++ t, by simp [ht], ?_⟩
                intro k hk
                rcases List.mem_append.mp hk with hk | hk
                · exact hrp r hr k hk
                · exact hpl k hk
              · simp only [List.mem_singleton] at hx
                subst hx
                exact ⟨hv, v3 _ (v2 _ (by simp)), [], by simp, by simp⟩
            · rw [List.map_append, List.nodup_append]
              refine ⟨ns2, by simp, ?_⟩
              intro a ha b hb
              obtain ⟨x, hx, rfl⟩ := List.mem_map.mp ha
              simp only [List.map_cons, List.map_nil, List.mem_singleton] at hb
              subst hb
              obtain ⟨_, _, r, hr, t, ht, _⟩ := p2 x hx
              intro e
              have hlen := congrArg List.length (ht.symm.trans e)
              have := hrn r hr
              simp only [List.length_append] at hlen
              have : r.1.length ≠ 0 := by simpa using this
              omega
            · rw [List.map_append, List.nodup_append]
              refine ⟨nf2, by simp, ?_⟩
              intro a ha b hb
              obtain ⟨x, hx, rfl⟩ := List.mem_map.mp ha
              simp only [List.map_cons, List.map_nil, List.mem_singleton] at hb
              subst hb
              intro e
              exact (p2 x hx).1 (by simp [e])
          cases ht : nd.task with
          | none => exact key w2 rfl (fun _ h => h)
          | some t =>
            simp only []
            by_cases htn : t = n
            · simp only [htn, if_true]
              exact key w2 rfl (fun _ h => h)
            · simp only [htn, if_false]
              have hsl : match g.node t with | some nt => nt.isSealed = true | none => True := by
                simp only [taskOK, ht] at htask
                cases hgt : g.node t with
                | none => trivial
                | some nt =>
                  have : (t == n) = false := by simp [htn]
                  simpa [hgt, this] using htask
              have := walkNode_sealed enc g fuel p t w2 hsl
              exact key _ this.1 this.2

/-! ### consequences for one submission -/

theorem sealed_ok (enc : Str → Str) (g : Graph) (hg : g.OK enc) (r : NodeId) :
    ((sealed enc g r).map Prod.snd).Nodup ∧ ((sealed enc g r).map Prod.fst).Nodup
      ∧ ∀ e ∈ sealed enc g r, ∀ k ∈ e.2, Plain k := by
  obtain ⟨_, new, o, p, ns, nf⟩ := walkNode_ext enc g hg (g.nodes.length + 1) [] r {}
  have : sealed enc g r = new := by simpa [sealed] using o
  rw [this]
  refine ⟨ns, nf, ?_⟩
  intro e he k hk
  obtain ⟨_, _, t, ht, hpl⟩ := p e he
  rw [ht] at hk
  exact hpl k (by simpa using hk)

theorem nodup_map_inj {α β : Type} (f : α → β) : ∀ (l : List α), (l.map f).Nodup → ∀ x ∈ l, ∀ y ∈ l, f x = f y → x = y
  | [], _, x, hx, _, _, _ => by simp at hx
  | a :: l, h, x, hx, y, hy, e => by
    simp only [List.map_cons, List.nodup_cons, List.mem_map, not_exists, not_and] at h
    rcases List.mem_cons.mp hx with hx1 | hx1 <;> rcases List.mem_cons.mp hy with hy1 | hy1
    · rw [hx1, hy1]
    · subst hx1; exact absurd e.symm (h.1 y hy1)
    · subst hy1; exact absurd e (h.1 x hx1)
    · exact nodup_map_inj f l h.2 x hx1 y hy1 e

theorem nodup_map_of_inj {α β : Type} (f : α → β) (hf : ∀ a b, f a = f b → a = b) : ∀ (l : List α), l.Nodup → (l.map f).Nodup
  | [], _ => by simp
  | a :: l, h => by
    simp only [List.nodup_cons] at h
    simp only [List.map_cons, List.nodup_cons, List.mem_map, not_exists, not_and]
    exact ⟨fun x hx e => h.1 (hf _ _ e ▸ hx), nodup_map_of_inj f hf l h.2⟩

/-- what the theorems need of a list of processed configurations: pairwise different positions, pairwise
    different objects, plain keys. -/
structure WalkOK (l : List (NodeId × List Str)) : Prop where
  pos : (l.map Prod.snd).Nodup
  nodes : (l.map Prod.fst).Nodup
  plain : ∀ e ∈ l, ∀ k ∈ e.2, Plain k

theorem sealed_walkOK (enc : Str → Str) (g : Graph) (hg : g.OK enc) (r : NodeId) : WalkOK (sealed enc g r) :=
  ⟨(sealed_ok enc g hg r).1, (sealed_ok enc g hg r).2.1, (sealed_ok enc g hg r).2.2⟩

theorem mem_entries {g : Graph} {l : List (NodeId × List Str)} {e : Entry} (h : e ∈ l.flatMap (entriesOf g)) :
    ∃ nd, (e.node, e.keys) ∈ l ∧ g.node e.node = some nd ∧ (e.arg, e.file) ∈ nd.gens
      ∧ e.path = genPath e.keys e.file := by
  simp only [List.mem_flatMap] at h
  obtain ⟨s, hs, he⟩ := h
  unfold entriesOf at he
  cases hn : g.node s.1 with
  | none => simp [hn] at he
  | some nd =>
    simp only [hn, List.mem_map] at he
    obtain ⟨a, ha, rfl⟩ := he
    exact ⟨nd, hs, hn, ha, rfl⟩

theorem mem_genpaths {enc : Str → Str} {g : Graph} {r : NodeId} {e : Entry} (h : e ∈ genpaths enc g r) :
    ∃ nd, (e.node, e.keys) ∈ sealed enc g r ∧ g.node e.node = some nd ∧ (e.arg, e.file) ∈ nd.gens
      ∧ e.path = genPath e.keys e.file := mem_entries (l := sealed enc g r) h

theorem gens_plain {enc : Str → Str} {nd : Node} (h : nodeOK enc nd = true) : ∀ a ∈ nd.gens, Plain a.2 := by
  simp only [nodeOK, Bool.and_eq_true, decide_eq_true_eq, List.all_eq_true] at h
  exact h.1.2

theorem gens_nodup {enc : Str → Str} {nd : Node} (h : nodeOK enc nd = true) : (nd.gens.map Prod.fst).Nodup := by
  simp only [nodeOK, Bool.and_eq_true, decide_eq_true_eq, List.all_eq_true] at h
  exact h.2

theorem entries_shape (enc : Str → Str) (g : Graph) (hg : g.OK enc) (l : List (NodeId × List Str)) (hl : WalkOK l)
    (e : Entry) (h : e ∈ l.flatMap (entriesOf g)) :
    (∀ k ∈ e.keys, Plain k) ∧ Plain e.file ∧ e.path = ⟨false, base e.keys ++ [e.file]⟩ := by
  obtain ⟨nd, hs, hn, ha, hp⟩ := mem_entries h
  have hk := hl.plain _ hs
  have hf := gens_plain (hg _ _ hn).1 _ ha
  exact ⟨hk, hf, hp ▸ genPath_plain _ _ hk hf⟩

theorem entries_inj (enc : Str → Str) (g : Graph) (hg : g.OK enc) (l : List (NodeId × List Str)) (hl : WalkOK l)
    (e1 e2 : Entry) (h1 : e1 ∈ l.flatMap (entriesOf g)) (h2 : e2 ∈ l.flatMap (entriesOf g)) (h : e1.path = e2.path) :
    e1.node = e2.node ∧ e1.file = e2.file ∧ e1.keys = e2.keys := by
  obtain ⟨k1, f1, _⟩ := entries_shape enc g hg l hl e1 h1
  obtain ⟨k2, f2, _⟩ := entries_shape enc g hg l hl e2 h2
  obtain ⟨_, s1, _, _, p1⟩ := mem_entries h1
  obtain ⟨_, s2, _, _, p2⟩ := mem_entries h2
  rw [p1, p2] at h
  obtain ⟨hk, hf⟩ := genPath_inj k1 k2 f1 f2 h
  have := nodup_map_inj Prod.snd _ hl.pos _ s1 _ s2 hk
  exact ⟨congrArg Prod.fst this, hf, hk⟩

theorem entries_params_nodup (enc : Str → Str) (g : Graph) (hg : g.OK enc) (l : List (NodeId × List Str))
    (hs : (l.map Prod.fst).Nodup) : ((l.flatMap (entriesOf g)).map (fun e => (e.node, e.arg))).Nodup := by
  induction l with
  | nil => simp
  | cons s l ih =>
    simp only [List.map_cons, List.nodup_cons] at hs
    simp only [List.flatMap_cons, List.map_append, List.nodup_append]
    refine ⟨?_, ih hs.2, ?_⟩
    · unfold entriesOf
      cases hn : g.node s.1 with
      | none => simp
      | some nd =>
        simp only [List.map_map]
        have := gens_nodup (hg _ _ hn).1
        have hm : (List.map ((fun e : Entry => (e.node, e.arg)) ∘ fun a : Str × Str => { node := s.1, arg := a.1, file := a.2, keys := s.2, path := genPath s.2 a.2 }) nd.gens)
            = (nd.gens.map Prod.fst).map (fun a => (s.1, a)) := by
          simp [List.map_map, Function.comp_def]
        rw [hm]
        exact nodup_map_of_inj _ (fun _ _ h => (Prod.mk.inj h).2) _ this
    · intro a ha b hb e
      obtain ⟨x, hx, rfl⟩ := List.mem_map.mp ha
      obtain ⟨y, hy, rfl⟩ := List.mem_map.mp hb
      have hxn : x.node = s.1 := by
        unfold entriesOf at hx
        cases hn : g.node s.1 with
        | none => simp [hn] at hx
        | some nd =>
          simp only [hn, List.mem_map] at hx
          obtain ⟨_, _, rfl⟩ := hx
          rfl
      obtain ⟨s', hs', hy'⟩ := List.mem_flatMap.mp hy
      have hyn : y.node = s'.1 := by
        unfold entriesOf at hy'
        cases hn : g.node s'.1 with
        | none => simp [hn] at hy'
        | some nd =>
          simp only [hn, List.mem_map] at hy'
          obtain ⟨_, _, rfl⟩ := hy'
          rfl
      apply hs.1
      have : s.1 = s'.1 := by rw [← hxn, ← hyn]; exact (Prod.mk.inj e).1
      rw [this]
      exact List.mem_map_of_mem hs'

theorem genpaths_shape (enc : Str → Str) (g : Graph) (hg : g.OK enc) (r : NodeId) (e : Entry)
    (h : e ∈ genpaths enc g r) :
    (∀ k ∈ e.keys, Plain k) ∧ Plain e.file ∧ e.path = ⟨false, base e.keys ++ [e.file]⟩ :=
  entries_shape enc g hg _ (sealed_walkOK enc g hg r) e h

theorem genpaths_inj (enc : Str → Str) (g : Graph) (hg : g.OK enc) (r : NodeId) (e1 e2 : Entry)
    (h1 : e1 ∈ genpaths enc g r) (h2 : e2 ∈ genpaths enc g r) (h : e1.path = e2.path) :
    e1.node = e2.node ∧ e1.file = e2.file ∧ e1.keys = e2.keys :=
  entries_inj enc g hg _ (sealed_walkOK enc g hg r) e1 e2 h1 h2 h

theorem genpaths_params_nodup (enc : Str → Str) (g : Graph) (hg : g.OK enc) (r : NodeId) :
    ((genpaths enc g r).map (fun e => (e.node, e.arg))).Nodup :=
  entries_params_nodup enc g hg _ (sealed_ok enc g hg r).2.1

/-! ### E. the walker commutes with renaming of objects -/

def mapSnd (σ : NodeId → NodeId) (e : Ref) : Ref := (e.1, σ e.2)

theorem mapSnd_prep (σ : NodeId → NodeId) (k : Str) (l : List Ref) :
    (l.map (prep k)).map (mapSnd σ) = (l.map (mapSnd σ)).map (prep k) := by
  simp [List.map_map, Function.comp_def, prep, mapSnd]

mutual
theorem refs_rename (enc : Str → Str) (σ : NodeId → NodeId) : ∀ v, refs enc (v.rename σ) = (refs enc v).map (mapSnd σ)
  | .none => by simp [Val.rename, refs]
  | .scalar => by simp [Val.rename, refs]
  | .ref n => by simp [Val.rename, refs, mapSnd]
  | .list vs => by simp only [Val.rename, refs]; exact refsList_rename enc σ vs 0
  | .dict ks vs => by simp only [Val.rename, refs]; exact refsDict_rename enc σ ks vs
theorem refsList_rename (enc : Str → Str) (σ : NodeId → NodeId) : ∀ vs i,
    refsList enc i (renameVals σ vs) = (refsList enc i vs).map (mapSnd σ)
  | [], i => by simp [renameVals, refsList]
  | v :: vs, i => by
    simp only [renameVals, refsList, List.map_append]
    rw [refs_rename enc σ v, refsList_rename enc σ vs (i + 1), mapSnd_prep]
theorem refsDict_rename (enc : Str → Str) (σ : NodeId → NodeId) : ∀ ks vs,
    refsDict enc ks (renameVals σ vs) = (refsDict enc ks vs).map (mapSnd σ)
  | [], [] => by simp [renameVals, refsDict]
  | [], _ :: _ => by simp [renameVals, refsDict]
  | _ :: _, [] => by simp [renameVals, refsDict]
  | k :: ks, v :: vs => by
    simp only [renameVals, refsDict, List.map_append]
    rw [refs_rename enc σ v, refsDict_rename enc σ ks vs, mapSnd_prep]
end

theorem refsArgs_rename (enc : Str → Str) (σ : NodeId → NodeId) : ∀ (args : List (Str × Val)),
    refsArgs enc (args.map (fun a => (a.1, a.2.rename σ))) = (refsArgs enc args).map (mapSnd σ)
  | [] => by simp [refsArgs]
  | (k, v) :: r => by
    simp only [List.map_cons, refsArgs, List.map_append]
    rw [refs_rename, refsArgs_rename enc σ r, mapSnd_prep]

theorem renameVals_refs (σ : NodeId → NodeId) : ∀ (l : List NodeId), (l.map σ).map Val.ref = renameVals σ (l.map Val.ref)
  | [] => rfl
  | a :: l => by simp [renameVals, Val.rename, renameVals_refs σ l]

theorem nodeRefs_rename (enc : Str → Str) (σ : NodeId → NodeId) (nd : Node) :
    nodeRefs enc (nd.rename σ) = (nodeRefs enc nd).map (mapSnd σ) := by
  simp only [nodeRefs, Node.rename, List.map_append, refsArgs_rename, renameVals_refs, refsList_rename, mapSnd_prep]

def W.rename (σ : NodeId → NodeId) (w : W) : W := ⟨w.vis.map σ, w.out.map (fun e => (σ e.1, e.2))⟩

theorem fold_rename (σ : NodeId → NodeId) (F F' : W → Ref → W)
    (h : ∀ e w, F' (w.rename σ) (mapSnd σ e) = (F w e).rename σ) :
    ∀ (L : List Ref) (w : W), (L.map (mapSnd σ)).foldl F' (w.rename σ) = (L.foldl F w).rename σ
  | [], w => rfl
  | e :: L, w => by
    simp only [List.map_cons, List.foldl_cons]
    rw [h, fold_rename σ F F' h L]

theorem walkNode_rename (enc : Str → Str) (σ : NodeId → NodeId) (g g' : Graph) (hs : Graph.Same σ g g') :
    ∀ (fuel : Nat) (p : List Str) (n : NodeId) (w : W),
      walkNode enc g' fuel p (σ n) (w.rename σ) = (walkNode enc g fuel p n w).rename σ
  | 0, p, n, w => by simp [walkNode]
  | fuel + 1, p, n, w => by
    have hmem : ∀ m (l : List NodeId), σ m ∈ l.map σ ↔ m ∈ l := by
      intro m l
      simp only [List.mem_map]
      exact ⟨fun ⟨a, ha, e⟩ => hs.inj _ _ e ▸ ha, fun h => ⟨m, h, rfl⟩⟩
    unfold walkNode
    by_cases hv : n ∈ w.vis
    · have : σ n ∈ (w.rename σ).vis := (hmem n w.vis).mpr hv
      simp [hv, this]
    · have hv' : ¬ σ n ∈ (w.rename σ).vis := fun h => hv ((hmem n w.vis).mp h)
      simp only [hv, hv', if_false]
      rw [hs.node n]
      cases hn : g.node n with
      | none => simp
      | some nd =>
        simp only [Option.map_some]
        have hsl : (nd.rename σ).isSealed = nd.isSealed := rfl
        rw [hsl]
        by_cases hsd : nd.isSealed = true
        · simp [hsd, W.rename]
        · have hsd' : nd.isSealed = false := by simpa using hsd
          simp only [hsd', Bool.false_eq_true, if_false]
          have hw1 : ({ vis := σ n :: (w.rename σ).vis, out := (w.rename σ).out } : W) = W.rename σ { vis := n :: w.vis, out := w.out } := by
            simp [W.rename]
          rw [hw1, nodeRefs_rename]
          rw [fold_rename σ (fun w e => walkNode enc g fuel (p ++ e.1) e.2 w) (fun w e => walkNode enc g' fuel (p ++ e.1) e.2 w)
            (fun e w => walkNode_rename enc σ g g' hs fuel (p ++ e.1) e.2 w)]
          generalize (nodeRefs enc nd).foldl (fun w e => walkNode enc g fuel (p ++ e.1) e.2 w) { vis := n :: w.vis, out := w.out } = w2
          have htask : (nd.rename σ).task = nd.task.map σ := rfl
          rw [htask]
          cases ht : nd.task with
          | none => simp [W.rename]
          | some t =>
            simp only [Option.map_some]
            by_cases htn : t = n
            · simp [htn, W.rename]
            · have htn' : σ t ≠ σ n := fun e => htn (hs.inj _ _ e)
              simp only [htn, htn', if_false]
              rw [walkNode_rename enc σ g g' hs fuel p t w2]
              simp [W.rename]

theorem sealed_rename (enc : Str → Str) (σ : NodeId → NodeId) (g g' : Graph) (hs : Graph.Same σ g g') (r : NodeId) :
    sealed enc g' (σ r) = (sealed enc g r).map (fun e => (σ e.1, e.2)) := by
  have := walkNode_rename enc σ g g' hs (g.nodes.length + 1) [] r {}
  simp only [sealed, hs.len]
  have h0 : W.rename σ {} = {} := rfl
  rw [h0] at this
  rw [this]
  rfl

theorem entriesOf_rename (σ : NodeId → NodeId) (g g' : Graph) (hs : Graph.Same σ g g') (e : NodeId × List Str) :
    entriesOf g' (σ e.1, e.2) = (entriesOf g e).map (Entry.rename σ) := by
  unfold entriesOf
  simp only [hs.node e.1]
  cases g.node e.1 with
  | none => simp
  | some nd => simp [Node.rename, Entry.rename, List.map_map, Function.comp_def]

theorem genpaths_rename (enc : Str → Str) (σ : NodeId → NodeId) (g g' : Graph) (hs : Graph.Same σ g g') (r : NodeId) :
    genpaths enc g' (σ r) = (genpaths enc g r).map (Entry.rename σ) := by
  unfold genpaths
  rw [sealed_rename enc σ g g' hs]
  generalize sealed enc g r = l
  induction l with
  | nil => rfl
  | cons e l ih =>
    simp only [List.map_cons, List.flatMap_cons, List.map_append]
    rw [ih, entriesOf_rename σ g g' hs e]

/-! ### D. the fuel of `sealed` is never exhausted -/

/-- number of objects of the graph not yet visited. -/
def unvis (g : Graph) (vis : List NodeId) : Nat := (List.range g.nodes.length).countP (fun m => decide (m ∉ vis))

theorem countP_le_of_imp {α : Type} (p q : α → Bool) : ∀ (l : List α), (∀ x ∈ l, p x = true → q x = true) →
    l.countP p ≤ l.countP q
  | [], _ => by simp
  | a :: l, h => by
    have ih := countP_le_of_imp p q l (fun x hx => h x (by simp [hx]))
    have ha := h a (by simp)
    simp only [List.countP_cons]
    by_cases hp : p a = true
    · simp [hp, ha hp]; exact ih
    · simp [hp]; split <;> omega

theorem countP_lt_of_imp {α : Type} (p q : α → Bool) : ∀ (l : List α), (∀ x ∈ l, p x = true → q x = true) →
    (∃ x ∈ l, q x = true ∧ p x = false) → l.countP p < l.countP q
  | [], _, h => by simp at h
  | a :: l, h, ⟨x, hx, hq, hp⟩ => by
    have hle := countP_le_of_imp p q l (fun x hx => h x (by simp [hx]))
    simp only [List.countP_cons]
    rcases List.mem_cons.mp hx with rfl | hx'
    · simp [hq, hp]; omega
    · have ih := countP_lt_of_imp p q l (fun x hx => h x (by simp [hx])) ⟨x, hx', hq, hp⟩
      have ha := h a (by simp)
      by_cases hpa : p a = true
      · simp [hpa, ha hpa]; exact ih
      · simp [hpa]; split <;> omega

theorem unvis_mono (g : Graph) {v v' : List NodeId} (h : ∀ m ∈ v, m ∈ v') : unvis g v' ≤ unvis g v := by
  apply countP_le_of_imp
  intro x _ hx
  simp only [decide_eq_true_eq] at *
  exact fun hv => hx (h x hv)

theorem unvis_cons_lt (g : Graph) {n : NodeId} {v : List NodeId} (hn : n < g.nodes.length) (hv : n ∉ v) :
    unvis g (n :: v) < unvis g v := by
  apply countP_lt_of_imp
  · intro x _ hx
    simp only [decide_eq_true_eq, List.mem_cons, not_or] at *
    exact hx.2
  · exact ⟨n, by simp [hn], by simp [hv], by simp⟩

theorem fold_vis_mono (F : W → Ref → W) (h : ∀ e w m, m ∈ w.vis → m ∈ (F w e).vis) :
    ∀ (L : List Ref) (w : W) m, m ∈ w.vis → m ∈ (L.foldl F w).vis
  | [], _, _, hm => hm
  | e :: L, w, m, hm => by
    rw [List.foldl_cons]
    exact fold_vis_mono F h L _ m (h e w m hm)

theorem walkNode_vis_mono (enc : Str → Str) (g : Graph) :
    ∀ (fuel : Nat) (p : List Str) (n : NodeId) (w : W) m, m ∈ w.vis → m ∈ (walkNode enc g fuel p n w).vis
  | 0, _, _, _, _, hm => by simpa [walkNode] using hm
  | fuel + 1, p, n, w, m, hm => by
    unfold walkNode
    by_cases hv : n ∈ w.vis
    · simpa [hv] using hm
    · simp only [hv, if_false]
      cases hn : g.node n with
      | none => simpa using hm
      | some nd =>
        simp only []
        by_cases hsd : nd.isSealed = true
        · simp [hsd, hm]
        · have hsd' : nd.isSealed = false := by simpa using hsd
          simp only [hsd', Bool.false_eq_true, if_false]
          have h2 := fold_vis_mono (fun w e => walkNode enc g fuel (p ++ e.1) e.2 w)
            (fun e w m hm => walkNode_vis_mono enc g fuel (p ++ e.1) e.2 w m hm) (nodeRefs enc nd)
            { vis := n :: w.vis, out := w.out } m (by simp [hm])
          generalize (nodeRefs enc nd).foldl (fun w e => walkNode enc g fuel (p ++ e.1) e.2 w) { vis := n :: w.vis, out := w.out } = w2 at h2
          cases nd.task with
          | none => exact h2
          | some t =>
            simp only []
            split
            · exact h2
            · exact walkNode_vis_mono enc g fuel p t w2 m h2

theorem node_lt {g : Graph} {n : NodeId} {nd : Node} (h : g.node n = some nd) : n < g.nodes.length := by
  unfold Graph.node at h
  exact (List.getElem?_eq_some_iff.mp h).1

theorem walkNode_unvis_zero (enc : Str → Str) (g : Graph) (fuel : Nat) (p : List Str) (n : NodeId) (w : W)
    (h : unvis g w.vis = 0) : walkNode enc g fuel p n w = w := by
  cases fuel with
  | zero => rfl
  | succ fuel =>
    unfold walkNode
    by_cases hv : n ∈ w.vis
    · simp [hv]
    · simp only [hv, if_false]
      cases hn : g.node n with
      | none => rfl
      | some nd =>
        have := unvis_cons_lt g (node_lt hn) hv
        omega

theorem fold_fuel (g : Graph) (F1 F2 : W → Ref → W) (k1 k2 : Nat)
    (hmono : ∀ e w m, m ∈ w.vis → m ∈ (F1 w e).vis)
    (h : ∀ e w, unvis g w.vis ≤ k1 → unvis g w.vis ≤ k2 → F1 w e = F2 w e) :
    ∀ (L : List Ref) (w : W), unvis g w.vis ≤ k1 → unvis g w.vis ≤ k2 → L.foldl F1 w = L.foldl F2 w
  | [], _, _, _ => rfl
  | e :: L, w, h1, h2 => by
    simp only [List.foldl_cons]
    rw [← h e w h1 h2]
    have hm := unvis_mono g (hmono e w)
    exact fold_fuel g F1 F2 k1 k2 hmono h L _ (by omega) (by omega)

theorem walkNode_fuel (enc : Str → Str) (g : Graph) :
    ∀ (f1 f2 : Nat) (p : List Str) (n : NodeId) (w : W), unvis g w.vis ≤ f1 → unvis g w.vis ≤ f2 →
      walkNode enc g f1 p n w = walkNode enc g f2 p n w
  | 0, f2, p, n, w, h1, _ => by
    rw [walkNode_unvis_zero enc g f2 p n w (by omega)]; rfl
  | f1 + 1, 0, p, n, w, _, h2 => by
    rw [walkNode_unvis_zero enc g (f1 + 1) p n w (by omega)]; rfl
  | f1 + 1, f2 + 1, p, n, w, h1, h2 => by
    unfold walkNode
    by_cases hv : n ∈ w.vis
    · simp [hv]
    · simp only [hv, if_false]
      cases hn : g.node n with
      | none => rfl
      | some nd =>
        simp only []
        by_cases hsd : nd.isSealed = true
        · simp [hsd]
        · have hsd' : nd.isSealed = false := by simpa using hsd
          simp only [hsd', Bool.false_eq_true, if_false]
          have hlt := unvis_cons_lt g (node_lt hn) hv
          have hfold := fold_fuel g (fun w e => walkNode enc g f1 (p ++ e.1) e.2 w) (fun w e => walkNode enc g f2 (p ++ e.1) e.2 w) f1 f2
            (fun e w m hm => walkNode_vis_mono enc g f1 (p ++ e.1) e.2 w m hm)
            (fun e w a b => walkNode_fuel enc g f1 f2 (p ++ e.1) e.2 w a b)
            (nodeRefs enc nd) { vis := n :: w.vis, out := w.out } (by simp only []; omega) (by simp only []; omega)
          rw [← hfold]
          have hmono2 := fold_vis_mono (fun w e => walkNode enc g f1 (p ++ e.1) e.2 w)
            (fun e w m hm => walkNode_vis_mono enc g f1 (p ++ e.1) e.2 w m hm) (nodeRefs enc nd)
            { vis := n :: w.vis, out := w.out }
          generalize (nodeRefs enc nd).foldl (fun w e => walkNode enc g f1 (p ++ e.1) e.2 w) { vis := n :: w.vis, out := w.out } = w2 at hmono2
          have hu2 : unvis g w2.vis ≤ unvis g (n :: w.vis) := unvis_mono g hmono2
          cases nd.task with
          | none => rfl
          | some t =>
            simp only []
            split
            · rfl
            · rw [walkNode_fuel enc g f1 f2 p t w2 (by omega) (by omega)]

/-- any fuel from the number of objects on gives the result of `sealed`: the model's walk is never cut short. -/
theorem sealed_fuel (enc : Str → Str) (g : Graph) (r : NodeId) (fuel : Nat) (h : g.nodes.length ≤ fuel) :
    (walkNode enc g fuel [] r {}).out = sealed enc g r := by
  have hu : unvis g ({} : W).vis ≤ g.nodes.length := by
    unfold unvis
    exact Nat.le_trans (List.countP_le_length) (by simp)
  unfold sealed
  rw [walkNode_fuel enc g fuel (g.nodes.length + 1) [] r {} (by omega) (by omega)]

/-! ### the key encoder of the proposed repair is injective and yields plain components -/

theorem escChar_noslash (c : Char) : '/' ∉ escChar c := by
  unfold escChar
  split
  · decide
  · split
    · decide
    · rename_i h; simpa using fun e => h e.symm

theorem esc_noslash (k : Str) : '/' ∉ k.flatMap escChar := by
  intro h
  obtain ⟨c, _, hc⟩ := List.mem_flatMap.mp h
  exact escChar_noslash c hc

theorem escapeKey_plain (k : Str) : Plain (escapeKey k) := by
  unfold escapeKey
  have hs := esc_noslash k
  generalize k.flatMap escChar = s at hs
  simp only []
  split
  · refine ⟨by simp, ?_, by simp, ?_⟩
    · intro h
      rcases List.mem_cons.mp h with h | h
      · revert h; decide
      · exact hs h
    · rename_i hsp
      rcases hsp with rfl | rfl | rfl <;> decide
  · rename_i hsp
    simp only [not_or] at hsp
    exact ⟨hsp.1, hs, hsp.2.1, hsp.2.2⟩

theorem escChar_append_inj {c d : Char} {x y : Str} (h : escChar c ++ x = escChar d ++ y) : c = d ∧ x = y := by
  unfold escChar at h
  by_cases c1 : c = '%' <;> by_cases c2 : c = '/' <;> by_cases d1 : d = '%' <;> by_cases d2 : d = '/' <;>
    simp_all
  all_goals exact absurd h.1.symm d1

theorem escChar_ne_nil (c : Char) : escChar c ≠ [] := by
  unfold escChar
  split
  · simp
  · split <;> simp

theorem esc_inj : ∀ (a b : Str), a.flatMap escChar = b.flatMap escChar → a = b
  | [], [], _ => rfl
  | [], d :: b, h => by
    simp only [List.flatMap_nil, List.flatMap_cons] at h
    have := escChar_ne_nil d
    simp_all
  | c :: a, [], h => by
    simp only [List.flatMap_nil, List.flatMap_cons] at h
    have := escChar_ne_nil c
    simp_all
  | c :: a, d :: b, h => by
    simp only [List.flatMap_cons] at h
    obtain ⟨h1, h2⟩ := escChar_append_inj h
    rw [h1, esc_inj a b h2]

theorem esc_head {b t : Str} (h : b.flatMap escChar = '%' :: t) : ∃ t', t = '2' :: t' := by
  cases b with
  | nil => simp at h
  | cons c b =>
    simp only [List.flatMap_cons] at h
    unfold escChar at h
    by_cases c1 : c = '%'
    · simp [c1] at h; exact ⟨_, h.symm⟩
    · by_cases c2 : c = '/'
      · simp [c2] at h; exact ⟨_, h.symm⟩
      · simp [c1, c2] at h

theorem escapeKey_inj {a b : Str} (h : escapeKey a = escapeKey b) : a = b := by
  unfold escapeKey at h
  apply esc_inj
  generalize ha : a.flatMap escChar = sa at h
  generalize hb : b.flatMap escChar = sb at h
  simp only [] at h
  by_cases pa : sa = [] ∨ sa = ['.'] ∨ sa = ['.', '.'] <;> by_cases pb : sb = [] ∨ sb = ['.'] ∨ sb = ['.', '.']
  · simp only [pa, pb, if_true] at h
    exact (List.cons.inj h).2
  · simp only [pa, pb, if_true, if_false] at h
    obtain ⟨t', ht'⟩ := esc_head (hb.trans h.symm)
    rcases pa with rfl | rfl | rfl <;> simp at ht'
  · simp only [pa, pb, if_true, if_false] at h
    obtain ⟨t', ht'⟩ := esc_head (ha.trans h)
    rcases pb with rfl | rfl | rfl <;> simp at ht'
  · simpa only [pa, pb, if_false] using h

/-! ### Boolean forms of the hypotheses -/

theorem OK_of_okB {enc : Str → Str} {g : Graph} (h : g.okB enc = true) : g.OK enc := by
  intro n nd hn
  have hlt := node_lt hn
  simp only [Graph.okB, List.all_eq_true, List.mem_range] at h
  have := h n hlt
  simpa [hn] using this

theorem OKany_of_okAnyB {g : Graph} (h : g.okAnyB = true) : g.OKany := by
  intro n nd hn
  have hlt := node_lt hn
  simp only [Graph.okAnyB, List.all_eq_true, List.mem_range] at h
  have := h n hlt
  simpa [hn] using this

mutual
theorem valOK_escape : ∀ v, valDictOK v = true → valOK escapeKey v = true
  | .none, _ => rfl
  | .scalar, _ => rfl
  | .ref _, _ => rfl
  | .list vs, h => by
    simp only [valDictOK] at h
    simp only [valOK]
    exact valsOK_escape vs h
  | .dict ks vs, h => by
    simp only [valDictOK, Bool.and_eq_true, decide_eq_true_eq] at h
    simp only [valOK, Bool.and_eq_true, decide_eq_true_eq, List.all_eq_true]
    refine ⟨⟨nodup_map_of_inj escapeKey (fun _ _ e => escapeKey_inj e) ks h.1, ?_⟩, valsOK_escape vs h.2⟩
    intro k hk
    obtain ⟨k0, _, rfl⟩ := List.mem_map.mp hk
    exact escapeKey_plain k0
theorem valsOK_escape : ∀ vs, valsDictOK vs = true → valsOK escapeKey vs = true
  | [], _ => rfl
  | v :: vs, h => by
    simp only [valsDictOK, Bool.and_eq_true] at h
    simp only [valsOK, Bool.and_eq_true]
    exact ⟨valOK_escape v h.1, valsOK_escape vs h.2⟩
end

/-- with the repaired encoder nothing is asked of the dict keys. -/
theorem OK_escape_of_OKany {g : Graph} (h : g.OKany) : g.OK escapeKey := by
  intro n nd hn
  obtain ⟨h1, h2⟩ := h n nd hn
  refine ⟨?_, h2⟩
  simp only [nodeOKany, Bool.and_eq_true, List.all_eq_true] at h1
  simp only [nodeOK, Bool.and_eq_true, List.all_eq_true]
  obtain ⟨⟨⟨⟨a, b⟩, c⟩, d⟩, e⟩ := h1
  exact ⟨⟨⟨⟨a, b⟩, fun x hx => valOK_escape _ (c x hx)⟩, d⟩, e⟩

/-! ### F. the walks of one `submit` call: the task, then its init tasks -/

theorem walkNode_noop (enc : Str → Str) (g : Graph) (fuel : Nat) (p : List Str) (n : NodeId) (w : W)
    (h : n ∈ w.vis ∨ g.node n = none) : walkNode enc g fuel p n w = w := by
  cases fuel with
  | zero => rfl
  | succ fuel =>
    unfold walkNode
    by_cases hv : n ∈ w.vis
    · simp [hv]
    · rcases h with h | h
      · exact absurd h hv
      · simp [hv, h]

theorem fold_noop (g : Graph) (F : W → Ref → W) (hF : ∀ e w, (e.2 ∈ w.vis ∨ g.node e.2 = none) → F w e = w) :
    ∀ (L : List Ref) (w : W), (∀ e ∈ L, e.2 ∈ w.vis ∨ g.node e.2 = none) → L.foldl F w = w
  | [], _, _ => rfl
  | e :: L, w, h => by
    rw [List.foldl_cons, hF e w (h e (by simp))]
    exact fold_noop g F hF L w (fun e' he' => h e' (by simp [he']))

/-- with some fuel, a walk visits the object it starts from. -/
theorem walkNode_visits (enc : Str → Str) (g : Graph) (fuel : Nat) (p : List Str) (n : NodeId) (w : W) :
    n ∈ (walkNode enc g (fuel + 1) p n w).vis ∨ g.node n = none := by
  by_cases hv : n ∈ w.vis
  · exact Or.inl (walkNode_vis_mono enc g _ p n w n hv)
  · cases hn : g.node n with
    | none => exact Or.inr rfl
    | some nd =>
      left
      unfold walkNode
      simp only [hv, if_false, hn]
      by_cases hsd : nd.isSealed = true
      · simp [hsd]
      · have hsd' : nd.isSealed = false := by simpa using hsd
        simp only [hsd', Bool.false_eq_true, if_false]
        have h2 := fold_vis_mono (fun w e => walkNode enc g fuel (p ++ e.1) e.2 w)
          (fun e w m hm => walkNode_vis_mono enc g fuel (p ++ e.1) e.2 w m hm) (nodeRefs enc nd)
          { vis := n :: w.vis, out := w.out } n (by simp)
        generalize (nodeRefs enc nd).foldl (fun w e => walkNode enc g fuel (p ++ e.1) e.2 w) { vis := n :: w.vis, out := w.out } = w2 at h2
        cases nd.task with
        | none => exact h2
        | some t =>
          simp only []
          split
          · exact h2
          · exact walkNode_vis_mono enc g fuel p t w2 n h2

theorem fold_visits (enc : Str → Str) (g : Graph) (k : Nat) (p : List Str) : ∀ (L : List Ref) (w : W), ∀ e ∈ L,
    e.2 ∈ (L.foldl (fun w e => walkNode enc g (k + 1) (p ++ e.1) e.2 w) w).vis ∨ g.node e.2 = none
  | [], _, e, he => by simp at he
  | a :: L, w, e, he => by
    rw [List.foldl_cons]
    rcases List.mem_cons.mp he with rfl | h
    · rcases walkNode_visits enc g k (p ++ e.1) e.2 w with h | h
      · exact Or.inl (fold_vis_mono (fun w e => walkNode enc g (k + 1) (p ++ e.1) e.2 w)
          (fun e w m hm => walkNode_vis_mono enc g (k + 1) (p ++ e.1) e.2 w m hm) L _ _ h)
      · exact Or.inr h
    · exact fold_visits enc g k p L _ e h

/-- the walk of an unsealed object visits everything it refers to (fuel ≥ 2). -/
theorem walkNode_visits_refs (enc : Str → Str) (g : Graph) (k : Nat) (p : List Str) (n : NodeId) (w : W) (nd : Node)
    (hn : g.node n = some nd) (hs : nd.isSealed = false) (hv : n ∉ w.vis) :
    ∀ e ∈ nodeRefs enc nd, e.2 ∈ (walkNode enc g (k + 2) p n w).vis ∨ g.node e.2 = none := by
  intro e he
  unfold walkNode
  simp only [hv, if_false, hn, hs, Bool.false_eq_true]
  have h2 := fold_visits enc g k p (nodeRefs enc nd) { vis := n :: w.vis, out := w.out } e he
  generalize (nodeRefs enc nd).foldl (fun w e => walkNode enc g (k + 1) (p ++ e.1) e.2 w) { vis := n :: w.vis, out := w.out } = w2 at h2
  cases nd.task with
  | none => exact h2
  | some t =>
    simp only []
    split
    · exact h2
    · rcases h2 with h2 | h2
      · exact Or.inl (walkNode_vis_mono enc g (k + 1) p t w2 _ h2)
      · exact Or.inr h2

theorem initRefs_sub (enc : Str → Str) (nd : Node) : ∀ e ∈ initRefs enc nd, e ∈ nodeRefs enc nd := by
  intro e he
  unfold nodeRefs
  exact List.mem_append_right _ he

/-- **the late walks are a no-op for an unsealed task**: its own walk visits (and seals) its init tasks. -/
theorem submitWalk_unsealed (enc : Str → Str) (g : Graph) (r : NodeId) (nd : Node) (hn : g.node r = some nd)
    (hs : nd.isSealed = false) :
    submitWalk enc g (g.nodes.length + 1) r = walkNode enc g (g.nodes.length + 1) [] r {} := by
  have hpos : 0 < g.nodes.length := Nat.lt_of_le_of_lt (Nat.zero_le _) (node_lt hn)
  obtain ⟨k, hk⟩ : ∃ k, g.nodes.length = k + 1 := ⟨g.nodes.length - 1, by omega⟩
  unfold submitWalk
  simp only [hn]
  apply fold_noop g _ (fun e w h => walkNode_noop enc g _ e.1 e.2 w h)
  intro e he
  rw [hk]
  exact walkNode_visits_refs enc g k [] r {} nd hn hs (by simp) e (initRefs_sub enc nd e he)

theorem submitSealed_unsealed (enc : Str → Str) (g : Graph) (r : NodeId) (nd : Node) (hn : g.node r = some nd)
    (hs : nd.isSealed = false) : submitSealed enc g r = sealed enc g r := by
  unfold submitSealed sealed
  rw [submitWalk_unsealed enc g r nd hn hs]

theorem submitSealed_no_root (enc : Str → Str) (g : Graph) (r : NodeId) (hn : g.node r = none) :
    submitSealed enc g r = [] := by
  simp [submitSealed, submitWalk, walkNode, hn]

theorem initRefs_ok (enc : Str → Str) (nd : Node) : RefsOK (initRefs enc nd) ∧ KeysPlain (initRefs enc nd) := by
  have h := refsList_ok enc (nd.initTasks.map Val.ref) 0 (valsOK_refs enc _)
  exact ⟨refsOK_map_prep _ h.1, keysPlain_map_prep plain_initKey h.2.1⟩

theorem mem_refsList_refs (enc : Str → Str) : ∀ (l : List NodeId) (j : Nat) (e : Ref), e ∈ refsList enc j (l.map Val.ref) →
    ∃ i, i < l.length ∧ e.1 = [idxKey (j + i)] ∧ l[i]? = some e.2
  | [], _, e, h => by simp [refsList] at h
  | a :: l, j, e, h => by
    simp only [List.map_cons, refsList, refs, List.map_cons, List.map_nil, List.cons_append, List.nil_append, List.mem_cons] at h
    rcases h with rfl | h
    · exact ⟨0, by simp, by simp [prep], by simp [prep]⟩
    · obtain ⟨i, hi, h1, h2⟩ := mem_refsList_refs enc l (j + 1) e h
      refine ⟨i + 1, by simp; omega, ?_, by simpa using h2⟩
      rw [h1]
      congr 2
      omega

theorem mem_initRefs (enc : Str → Str) (nd : Node) (e : Ref) (h : e ∈ initRefs enc nd) :
    ∃ i, i < nd.initTasks.length ∧ e.1 = [initKey, idxKey i] ∧ nd.initTasks[i]? = some e.2 := by
  unfold initRefs at h
  obtain ⟨e0, he0, rfl⟩ := List.mem_map.mp h
  obtain ⟨i, hi, h1, h2⟩ := mem_refsList_refs enc nd.initTasks 0 e0 he0
  exact ⟨i, hi, by simp [prep, h1], h2⟩

/-- **a task sealed before its submission**: the submission processes init-task subgraphs only — never the
    task itself — each at a position below `__init_tasks__` / index; positions and objects pairwise different. -/
theorem submitSealed_sealed_root (enc : Str → Str) (g : Graph) (hg : g.OK enc) (r : NodeId) (nd : Node)
    (hn : g.node r = some nd) (hs : nd.isSealed = true) :
    WalkOK (submitSealed enc g r)
      ∧ ∀ e ∈ submitSealed enc g r, e.1 ≠ r ∧ ∃ i t, i < nd.initTasks.length ∧ e.2 = initKey :: idxKey i :: t := by
  have hw0 : walkNode enc g (g.nodes.length + 1) [] r {} = ⟨[r], []⟩ := by simp [walkNode, hn, hs]
  have hio := initRefs_ok enc nd
  have hfold := fold_ext [] (fun w e => walkNode enc g (g.nodes.length + 1) e.1 e.2 w) (initRefs enc nd) hio.1
    (fun e _ w => walkNode_ext enc g hg (g.nodes.length + 1) ([] ++ e.1) e.2 w) ⟨[r], []⟩
  have hsub : submitSealed enc g r
      = ((initRefs enc nd).foldl (fun w e => walkNode enc g (g.nodes.length + 1) e.1 e.2 w) ⟨[r], []⟩).out := by
    unfold submitSealed submitWalk
    simp only [hn, hw0]
  obtain ⟨_, new, o, pr, ns, nf⟩ := hfold
  have hnew : submitSealed enc g r = new := by rw [hsub, o]; rfl
  rw [hnew]
  refine ⟨⟨ns, nf, ?_⟩, ?_⟩
  · intro e he k hk
    obtain ⟨_, _, ref, href, t, ht, hpl⟩ := pr e he
    rw [ht] at hk
    simp only [List.nil_append, List.mem_append] at hk
    rcases hk with hk | hk
    · exact hio.2 ref href k hk
    · exact hpl k hk
  · intro e he
    obtain ⟨hv, _, ref, href, t, ht, _⟩ := pr e he
    refine ⟨fun h => hv (by simp [h]), ?_⟩
    obtain ⟨i, hi, h1, _⟩ := mem_initRefs enc nd ref href
    exact ⟨i, t, hi, by rw [ht, h1]; rfl⟩

/-- what one `submit` call processes: pairwise different positions, pairwise different objects, plain keys. -/
theorem submitSealed_ok (enc : Str → Str) (g : Graph) (hg : g.OK enc) (r : NodeId) : WalkOK (submitSealed enc g r) := by
  cases hn : g.node r with
  | none => rw [submitSealed_no_root enc g r hn]; exact ⟨by simp, by simp, by simp⟩
  | some nd =>
    by_cases hs : nd.isSealed = true
    · exact (submitSealed_sealed_root enc g hg r nd hn hs).1
    · rw [submitSealed_unsealed enc g r nd hn (by simpa using hs)]
      exact sealed_walkOK enc g hg r

theorem submitPaths_unsealed (enc : Str → Str) (g : Graph) (r : NodeId) (nd : Node) (hn : g.node r = some nd)
    (hs : nd.isSealed = false) : submitPaths enc g r = genpaths enc g r := by
  unfold submitPaths genpaths
  rw [submitSealed_unsealed enc g r nd hn hs]

/-! #### renaming -/

theorem initRefs_rename (enc : Str → Str) (σ : NodeId → NodeId) (nd : Node) :
    initRefs enc (nd.rename σ) = (initRefs enc nd).map (mapSnd σ) := by
  simp only [initRefs, Node.rename, renameVals_refs, refsList_rename, mapSnd_prep]

theorem submitWalk_rename (enc : Str → Str) (σ : NodeId → NodeId) (g g' : Graph) (hs : Graph.Same σ g g')
    (fuel : Nat) (r : NodeId) : submitWalk enc g' fuel (σ r) = (submitWalk enc g fuel r).rename σ := by
  have h0 : walkNode enc g' fuel [] (σ r) {} = (walkNode enc g fuel [] r {}).rename σ :=
    walkNode_rename enc σ g g' hs fuel [] r {}
  unfold submitWalk
  rw [hs.node r]
  cases g.node r with
  | none => exact h0
  | some nd =>
    simp only [Option.map_some]
    rw [initRefs_rename, h0]
    exact fold_rename σ (fun w e => walkNode enc g fuel e.1 e.2 w) (fun w e => walkNode enc g' fuel e.1 e.2 w)
      (fun e w => walkNode_rename enc σ g g' hs fuel e.1 e.2 w) _ _

theorem submitSealed_rename (enc : Str → Str) (σ : NodeId → NodeId) (g g' : Graph) (hs : Graph.Same σ g g') (r : NodeId) :
    submitSealed enc g' (σ r) = (submitSealed enc g r).map (fun e => (σ e.1, e.2)) := by
  simp only [submitSealed, hs.len]
  rw [submitWalk_rename enc σ g g' hs]
  rfl

theorem entries_rename (σ : NodeId → NodeId) (g g' : Graph) (hs : Graph.Same σ g g') : ∀ (l : List (NodeId × List Str)),
    (l.map (fun e => (σ e.1, e.2))).flatMap (entriesOf g') = (l.flatMap (entriesOf g)).map (Entry.rename σ)
  | [] => rfl
  | e :: l => by
    simp only [List.map_cons, List.flatMap_cons, List.map_append]
    rw [entries_rename σ g g' hs l, entriesOf_rename σ g g' hs e]

theorem submitPaths_rename (enc : Str → Str) (σ : NodeId → NodeId) (g g' : Graph) (hs : Graph.Same σ g g') (r : NodeId) :
    submitPaths enc g' (σ r) = (submitPaths enc g r).map (Entry.rename σ) := by
  unfold submitPaths
  rw [submitSealed_rename enc σ g g' hs, entries_rename σ g g' hs]

/-! #### fuel -/

theorem unvis_le (g : Graph) (v : List NodeId) : unvis g v ≤ g.nodes.length := by
  unfold unvis
  exact Nat.le_trans (List.countP_le_length) (by simp)

theorem submitWalk_fuel (enc : Str → Str) (g : Graph) (r : NodeId) (fuel : Nat) (h : g.nodes.length ≤ fuel) :
    submitWalk enc g fuel r = submitWalk enc g (g.nodes.length + 1) r := by
  have hu := fun v => unvis_le g v
  have h0 : walkNode enc g fuel [] r {} = walkNode enc g (g.nodes.length + 1) [] r {} :=
    walkNode_fuel enc g fuel (g.nodes.length + 1) [] r {} (Nat.le_trans (hu _) h) (Nat.le_trans (hu _) (Nat.le_succ _))
  unfold submitWalk
  rw [h0]
  cases g.node r with
  | none => rfl
  | some nd =>
    exact fold_fuel g (fun w e => walkNode enc g fuel e.1 e.2 w) (fun w e => walkNode enc g (g.nodes.length + 1) e.1 e.2 w)
      fuel (g.nodes.length + 1) (fun e w m hm => walkNode_vis_mono enc g fuel e.1 e.2 w m hm)
      (fun e w a b => walkNode_fuel enc g fuel (g.nodes.length + 1) e.1 e.2 w a b) _ _
      (Nat.le_trans (hu _) h) (Nat.le_trans (hu _) (Nat.le_succ _))

end XpmVerif.GenPath
