import XpmVerif.Proofs.CacheCoherentBase
/-! Cache coherence (C01), stage 1: graphs whose hash-relevant reference structure is acyclic
    (a rank function decreases along `allRefs`, the static over-approximation of `nodeRefs`: producing task,
    kept configurations of the argument values, configurations of the declared defaults).  No cycle reference is ever emitted, the
    specification `rawAt` depends neither on the stack nor on the fuel, the loop flag is never set, and
    `computeAt` with a cache holding specification values returns the specification value. -/
namespace XpmVerif.Ident
open List

/-- `rank` strictly decreases along every hash-relevant reference, and is bounded by the size. -/
structure Ranked (g : Graph) (rank : Nat → Nat) : Prop where
  decr : ∀ n m, m ∈ allRefs g.mt n (g.node n) → rank m < rank n
  bound : ∀ n, rank n ≤ g.size

theorem Ranked.of_sameContent {g g' : Graph} {rank : Nat → Nat} (h : SameContent g g') (hr : Ranked g rank) :
    Ranked g' rank :=
  ⟨fun n m hm => hr.decr n m (h.allRefs n ▸ hm), fun n => h.1 ▸ hr.bound n⟩

/-- the stacks that occur while hashing a ranked graph: everything above `n` has a rank `≥ rank n`. -/
def Above (rank : Nat → Nat) (stack : List Nat) (n : Nat) : Prop := ∀ x, x ∈ stack → rank n ≤ rank x

theorem Above.child {rank : Nat → Nat} {stack : List Nat} {n m : Nat} (h : Above rank stack n) (hm : rank m < rank n) :
    m ∉ n :: stack ∧ Above rank (n :: stack) m := by
  refine ⟨?_, ?_⟩
  · intro hmem
    rcases mem_cons.mp hmem with rfl | hmem
    · omega
    · have := h m hmem; omega
  · intro x hx
    rcases mem_cons.mp hx with rfl | hx
    · omega
    · have := h x hx; omega

theorem cacheHit_some {D : Type} {g : Graph} {c : Caches D} {n : Nat} {d : D} (h : cacheHit g c n = some d) :
    c.raw n = some (d, false) := by
  unfold cacheHit at h
  split at h
  · split at h
    · rename_i heq; cases h; exact heq
    · cases h
  · cases h

section
variable {D : Type} (hc : HC D) (g : Graph) (rank : Nat → Nat) (hr : Ranked g rank)
include hr

/-- **no cycle reference, stack and fuel independence**: in a ranked graph the specification value of `n`
    is the same under all admissible stacks and all fuels above `rank n`. -/
theorem rawAt_acyclic : ∀ (f f' : Nat) (stack stack' : List Nat) (n : Nat), rank n < f → rank n < f' →
    Above rank stack n → Above rank stack' n → rawAt hc g f stack n = rawAt hc g f' stack' n := by
  intro f
  induction f with
  | zero => intro f' stack stack' n h; omega
  | succ f ih =>
    intro f' stack stack' n h h' ha ha'
    cases f' with
    | zero => omega
    | succ f' =>
      simp only [rawAt]
      congr 1
      apply nodeStream_congr_ctx
      intro m hm
      have hlt := hr.decr n m (relRefs_sub_allRefs hm)
      obtain ⟨h1, h2⟩ := ha.child hlt
      obtain ⟨h1', h2'⟩ := ha'.child hlt
      rw [relIndex_none h1, relIndex_none h1']
      refine ⟨rfl, fun _ => ?_⟩
      rw [ih f' (n :: stack) (n :: stack') m (by omega) (by omega) h2 h2']

/-- the specification value under any admissible stack and sufficient fuel is `rawId`. -/
theorem rawAt_acyclic_rawId (f : Nat) (stack : List Nat) (n : Nat) (h : rank n < f) (ha : Above rank stack n) :
    rawAt hc g f stack n = rawId hc g n :=
  rawAt_acyclic hc g rank hr f (g.size + 1) stack [] n h (Nat.lt_succ_of_le (hr.bound n)) ha (fun _ hx => by cases hx)

/-- **the loop flag is never set** in a ranked graph, whatever the caches. -/
theorem escAt_acyclic (c : Caches D) : ∀ (f : Nat) (stack : List Nat) (n : Nat), Above rank stack n →
    escAt hc g c f stack n = 0 := by
  intro f
  induction f with
  | zero => intro stack n _; rfl
  | succ f ih =>
    intro stack n ha
    simp only [escAt]
    split
    · rfl
    · apply foldl_max_eq_zero
      intro m hm
      obtain ⟨h1, h2⟩ := ha.child (hr.decr n m (nodeRefs_sub_allRefs hm))
      rw [relIndex_none h1]
      simp only
      rw [ih (n :: stack) m h2]

/-- **`computeAt` with a coherent cache equals the specification**: if every cached raw identifier is
    the specification value, so is every computed one (any admissible stack, any sufficient fuel). -/
theorem computeAt_acyclic (c : Caches D) (hinv : ∀ n d b, c.raw n = some (d, b) → d = rawId hc g n) :
    ∀ (f : Nat) (stack : List Nat) (n : Nat), rank n < f → Above rank stack n →
      computeAt hc g c f stack n = rawId hc g n := by
  intro f
  induction f with
  | zero => intro stack n h; omega
  | succ f ih =>
    intro stack n h ha
    simp only [computeAt]
    split
    · rename_i d heq
      exact hinv n d false (cacheHit_some heq)
    · rw [← rawAt_acyclic_rawId hc g rank hr (f + 1) stack n h ha]
      simp only [rawAt]
      congr 1
      apply nodeStream_congr_ctx
      intro m hm
      have hlt := hr.decr n m (relRefs_sub_allRefs hm)
      obtain ⟨h1, h2⟩ := ha.child hlt
      refine ⟨rfl, fun _ => ?_⟩
      rw [ih (n :: stack) m (by omega) h2, rawAt_acyclic_rawId hc g rank hr f (n :: stack) m (by omega) h2]

end

/-- the raw-cache invariant of stage 1: every cached raw identifier is the specification value and no
    loop flag is set. -/
def AcyclicInv {D : Type} (hc : HC D) (g0 : Graph) (raw : Nat → Option (D × Bool)) : Prop :=
  ∀ n d b, raw n = some (d, b) → d = rawId hc g0 n ∧ b = false

theorem rawSound_acyclic {D : Type} (hc : HC D) (g0 : Graph) (rank : Nat → Nat) (hr : Ranked g0 rank) :
    RawSound hc g0 (AcyclicInv hc g0) := by
  apply rawSound_of
  · intro raw n d b hJ h; exact (hJ n d b h).1
  · intro s n hg hJ
    rw [← hg.rawId hc n]
    have hr' := hr.of_sameContent hg
    apply computeAt_acyclic hc s.g rank hr' s.c
    · intro m d b h; rw [hg.rawId]; exact (hJ m d b h).1
    · exact Nat.lt_succ_of_le (hr'.bound n)
    · intro _ hx; cases hx
  · intro s n hg hJ m d b h
    simp only [updF] at h
    split at h
    · rename_i hm
      cases h
      refine ⟨by rw [hm], ?_⟩
      rw [escAt_acyclic hc s.g rank (hr.of_sameContent hg) s.c _ [] n (fun _ hx => by cases hx)]
      rfl
    · exact hJ m d b h

/-- **stage 1**: on a ranked (acyclic) graph, every answer of a query-only history started with empty
    caches is the specification's answer. -/
theorem runOps_acyclic {D : Type} (hc : HC D) (ho : LeOrder hc) (g : Graph) (rank : Nat → Nat) (hr : Ranked g rank)
    (ops : List Op) (hq : ∀ o, o ∈ ops → o.isQuery = true) :
    (runOps hc true { g := g, c := Caches.empty } ops).2 = ops.map (specOut hc g) :=
  runOps_sound hc ho g _ (rawSound_acyclic hc g rank hr) ops _ hq (good_empty hc g _ (fun _ _ _ h => by cases h))

end XpmVerif.Ident
