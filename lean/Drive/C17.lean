import XpmVerif.Basic.JsonUtil
import XpmVerif.Model.GenPath
/-! Line-protocol driver for the generated-path model (C17).
    in : {"enc":"raw"|"esc","nodes":[{"args":[[name,val]…],"gens":[[arg,file]…],"pre":[ids]}…],
          "ops":[{"op":"submit","root":i,"init":[ids]} | {"op":"copydeps","c":i,"o":j}…]}
         val = null | {"s":1} | {"l":[val…]} | {"d":[[key,val]…]} | {"r":id}
    out: {"submits":[{"ok":bool,"okany":bool,"entries":[{"node","arg","abs","comps"}…]}…]} (one per submit op) -/
open Lean XpmVerif XpmVerif.J XpmVerif.GenPath

instance : Inhabited Val := ⟨.none⟩

partial def valOf (j : Json) : Val :=
  if isNull j then .none
  else if !(isNull (fld j "r")) then .ref (natF j "r")
  else if !(isNull (fld j "l")) then .list ((arrF j "l").map valOf)
  else if !(isNull (fld j "d")) then
    let kvs := arrF j "d"
    .dict (kvs.map (fun kv => (str ((arr kv)[0]!)).toList)) (kvs.map (fun kv => valOf ((arr kv)[1]!)))
  else .scalar

def nodeOf (j : Json) : Node :=
  { args := (arrF j "args").map (fun a => ((str ((arr a)[0]!)).toList, valOf ((arr a)[1]!)))
    gens := (arrF j "gens").map (fun a => ((str ((arr a)[0]!)).toList, (str ((arr a)[1]!)).toList))
    preTasks := (arrF j "pre").map nat }

def entryJ (e : Entry) : Json :=
  Json.mkObj [("node", e.node), ("arg", String.ofList e.arg), ("abs", e.path.abs),
    ("comps", Json.arr (e.path.comps.map (fun c => Json.str (String.ofList c))).toArray)]

def step (_ : Unit) (j : Json) : Unit × Json :=
  let enc : Str → Str := if strF j "enc" == "esc" then escapeKey else id
  let g0 : Graph := ⟨(arrF j "nodes").map nodeOf⟩
  let (_, outs) := (arrF j "ops").foldl (fun (acc : Graph × List Json) op =>
    let (g, outs) := acc
    if strF op "op" == "submit" then
      let root := natF op "root"
      let inits := (arrF op "init").map nat
      -- the hypotheses of the theorems, evaluated on the graph this submission walks
      let g1 : Graph := ⟨setAt g.nodes root (fun nd => { nd with initTasks := inits })⟩
      let (g', es) := submit enc g root inits
      (g', outs ++ [Json.mkObj [("ok", g1.okB enc), ("okany", g1.okAnyB), ("entries", Json.arr (es.map entryJ).toArray)]])
    else
      (copyDeps g (natF op "c") (natF op "o"), outs)) (g0, [])
  ((), Json.mkObj [("submits", Json.arr outs.toArray)])

def main : IO Unit := J.loop step ()
