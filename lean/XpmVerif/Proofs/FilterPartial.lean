import XpmVerif.Model.CleanPartial
import XpmVerif.Proofs.FilterClean
/-! Helper lemmas for C19, filters that cannot be evaluated on a job (`Model/CleanPartial.lean`). -/
namespace XpmVerif.Filter

/-- a value produced by the implementation's evaluation order is the Kleene value. -/
theorem Obj.filterP_evalK (rx : Rx) (i : Info) (h : Hz) (o : Obj) (b : Bool)
    (hb : o.filterP rx i h = some b) : o.evalK rx i h = K.ofOpt (some b) := by
  induction o generalizing b with
  | atom a => simp only [Obj.filterP] at hb; simp [Obj.evalK, hb]
  | logic op y x ih =>
    cases op <;> simp only [Obj.filterP] at hb <;> simp only [Obj.evalK, Op.applyK] <;>
      cases hy : y.evalP rx i h with
      | none => simp [hy] at hb
      | some v =>
        cases v <;> simp only [hy] at hb
        all_goals first
          | (cases hb; cases x.evalK rx i h <;> rfl)
          | (rw [ih b hb]; cases b <;> rfl)

theorem evalK_foldl (rx : Rx) (i : Info) (h : Hz) (rest : List (Op × Atom)) (v : Obj) :
    (rest.foldl (fun v p => Obj.logic p.1 p.2 v) v).evalK rx i h
      = rest.foldl (fun acc p => p.1.applyK acc (K.ofOpt (p.2.evalP rx i h))) (v.evalK rx i h) := by
  induction rest generalizing v with
  | nil => rfl
  | cons p rest ih => simp only [List.foldl_cons, ih, Obj.evalK]

theorem summary_evalK (rx : Rx) (i : Info) (h : Hz) (e : Expr) : (summary e).evalK rx i h = evalK rx e i h := by
  simp [summary, evalK, evalK_foldl, Obj.evalK]

/-- the filter object returned true ⇒ the documented (three-valued) meaning is "true". -/
theorem filterP_true_selected (rx : Rx) (i : Info) (h : Hz) (e : Expr)
    (ht : (summary e).filterP rx i h = some true) : evalK rx e i h = .t := by
  rw [← summary_evalK, Obj.filterP_evalK rx i h _ true ht]; rfl

/-- without hazards the partial evaluation is the total one. -/
theorem Atom.evalP_noHazard (rx : Rx) (i : Info) (a : Atom) : a.evalP rx i {} = some (a.spec rx i) := by
  cases a <;> simp [Atom.evalP, Atom.spec, Var.raises, Var.isStr, rxMatch]
  case eqVar v w => cases v <;> cases w <;> simp
  case eqConst v c => cases v <;> simp
  case isIn v cs => cases v <;> simp
  case notIn v cs => cases v <;> simp
  case regex v pat =>
    cases hv : v.get i with
    | none => simp
    | some s => cases v <;> simp <;> by_cases hs : s = "" <;> simp [hs]

/-- what allows `rmtree` on a job. -/
def removable (rx : Rx) (L : HLayout) (o : CleanOpts) (hj : HJob) : Prop :=
  o.perform = true ∧ inScope L.base o hj.job = true ∧ isFinished (stateSpec hj.job) = true ∧
    (∀ e, o.filter = some e → evalK rx e (infoOf stateSpec hj.job) hj.hz = .t)

theorem stepP_keeps (pol : RaisePolicy) (rx : Rx) (L : HLayout) (o : CleanOpts) (flt : Option Obj)
    (acc : Bool × List HJob) (hj x : HJob) (hx : x ∈ acc.2) : x ∈ (stepP pol rx L o flt acc hj).2 := by
  unfold stepP
  split
  · simp [hx]
  · split
    · simp [hx]
    · split
      · simp [hx]
      · split <;> simp [hx]
      · cases pol <;> simp only [] <;> (try split) <;> simp [hx]

theorem foldl_keeps (pol : RaisePolicy) (rx : Rx) (L : HLayout) (o : CleanOpts) (flt : Option Obj)
    (l : List HJob) (acc : Bool × List HJob) (x : HJob) (hx : x ∈ acc.2) :
    x ∈ (l.foldl (stepP pol rx L o flt) acc).2 := by
  induction l generalizing acc with
  | nil => exact hx
  | cons a l ih => exact ih _ (stepP_keeps pol rx L o flt acc a x hx)

theorem stepP_sub (pol : RaisePolicy) (rx : Rx) (L : HLayout) (o : CleanOpts) (flt : Option Obj)
    (acc : Bool × List HJob) (hj x : HJob) (hx : x ∈ (stepP pol rx L o flt acc hj).2) : x ∈ acc.2 ∨ x = hj := by
  unfold stepP at hx
  split at hx
  · simpa using hx
  · split at hx
    · simpa using hx
    · split at hx
      · simpa using hx
      · split at hx
        · exact Or.inl hx
        · simpa using hx
      · cases pol <;> simp only [] at hx
        · simpa using hx
        · simpa using hx
        · split at hx
          · exact Or.inl hx
          · simpa using hx

/-- one iteration either keeps the job or the job was removable (policies `abort` and `skips`). -/
theorem stepP_safe (pol : RaisePolicy) (hp : pol ≠ .selects) (rx : Rx) (L : HLayout) (o : CleanOpts)
    (acc : Bool × List HJob) (hj : HJob) :
    hj ∈ (stepP pol rx L o (o.filter.map summary) acc hj).2 ∨ removable rx L o hj := by
  unfold stepP
  split
  · simp
  · split
    · simp
    · rename_i hsc
      split
      · simp
      · rename_i hpass
        split
        · rename_i hrm
          right
          simp only [removesAfterFilter, Bool.and_eq_true] at hrm
          simp only [Bool.not_eq_true', Bool.not_eq_false] at hsc
          refine ⟨hrm.2, by simpa using hsc, hrm.1.2, ?_⟩
          intro e he
          simp only [passP, he, Option.map_some] at hpass
          exact filterP_true_selected rx _ _ e hpass
        · simp
      · cases pol
        · simp
        · simp
        · exact absurd rfl hp

theorem foldl_safe (pol : RaisePolicy) (hp : pol ≠ .selects) (rx : Rx) (L : HLayout) (o : CleanOpts)
    (l : List HJob) (acc : Bool × List HJob) (x : HJob) (hx : x ∈ l) :
    x ∈ (l.foldl (stepP pol rx L o (o.filter.map summary)) acc).2 ∨ removable rx L o x := by
  induction l generalizing acc with
  | nil => cases hx
  | cons a l ih =>
    rcases List.mem_cons.1 hx with rfl | hx
    · rcases stepP_safe pol hp rx L o acc x with h | h
      · exact Or.inl (foldl_keeps pol rx L o _ l _ x h)
      · exact Or.inr h
    · exact ih _ hx

theorem foldl_sub (pol : RaisePolicy) (rx : Rx) (L : HLayout) (o : CleanOpts) (flt : Option Obj)
    (l : List HJob) (acc : Bool × List HJob) (x : HJob) (hx : x ∈ (l.foldl (stepP pol rx L o flt) acc).2) :
    x ∈ acc.2 ∨ x ∈ l := by
  induction l generalizing acc with
  | nil => exact Or.inl hx
  | cons a l ih =>
    rcases ih _ hx with h | h
    · rcases stepP_sub pol rx L o flt acc a x h with h | h
      · exact Or.inl h
      · exact Or.inr (by simp [h])
    · exact Or.inr (by simp [h])

end XpmVerif.Filter
