import XpmVerif.Model.Filter
/-! M9, Python-level helpers used by the *generated* definitions of `Generated/FilterSrc.lean`
    (written by `harness/xv/translate/filtersrc.py` from `cli/filter.py`, `cli/jobs.py`,
    `cli/__init__.py`).  A value read by `VarExpr.get` is `None` or a `str`: `Option String`. -/
namespace XpmVerif.Filter

/-- Python truthiness of `None | str` (`if value:` / `if not value:`). -/
def truthy : Option String → Bool
  | some s => s != ""
  | none => false

/-- `value in S` for a set `S` of `str`. -/
def pyIn (x : Option String) (cs : List String) : Bool := memberOf x cs

/-- `value in S` for a set `S` of parse objects without `__eq__`/`__hash__`: identity comparison, never
    true for a `str` or `None`. -/
def pyInObjs (_x : Option String) (_cs : List String) : Bool := false

/-- truth value of `self.regex.match(value)`; on `None` Python raises `TypeError`, modelled as `false`
    (a source that reaches this case also differs from the documented meaning on `""`). -/
def rxCall (rx : Rx) (pat : String) : Option String → Bool
  | some s => rx pat s
  | none => false

/-- `str(value)` -/
def pyStr : Option String → Option String
  | some s => some s
  | none => some "None"

end XpmVerif.Filter
