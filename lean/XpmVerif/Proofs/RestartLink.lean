import XpmVerif.Proofs.RestartWorld
/-! Link between the scheduler's view and the workspace in the restart world: a job is DONE only if its success marker
    exists (where DONE comes from in every callback; the exit code handed to a waiting job is 0 only if the marker
    exists; markers and process indices only grow).  Helper lemmas for C11. -/
namespace XpmVerif.Restart
open XpmVerif.Sched
set_option linter.unusedSimpArgs false

/-! ### where DONE comes from (the job a callback is a continuation of) -/

theorem wake_state (fl : Flags) (s : St) (j : Nat) :
    ((s.runCb fl (.wake j)).jobs j).state = (s.jobs j).state ∧
    (∀ r, ((s.runCb fl (.wake j)).jobs j).pc ≠ .finished r) ∧
    ((s.runCb fl (.wake j)).jobs j).launches = (s.jobs j).launches ∧
    ((s.runCb fl (.wake j)).jobs j).pc ≠ .codeWait ∧ ((s.runCb fl (.wake j)).jobs j).pc ≠ .lockExitRun := by
  simp only [St.runCb]
  split
  · simp [jobs_put]
  · obtain ⟨f, jb', ths, he, g1, -, -, -, g5, hc⟩ := loopHead_nf (s.put j { (s.jobs j) with event := false }) j
    rw [he]
    simp [jobs_put] at g1 g5 ⊢
    refine ⟨g5, ?_, g1, ?_, ?_⟩
    · intro r
      rcases hc with ⟨-, hp, -⟩ | ⟨-, hp, -⟩ | ⟨-, hp, -⟩ <;> simp [hp]
    · rcases hc with ⟨-, hp, -⟩ | ⟨-, hp, -⟩ | ⟨-, hp, -⟩ <;> simp [hp]
    · rcases hc with ⟨-, hp, -⟩ | ⟨-, hp, -⟩ | ⟨-, hp, -⟩ <;> simp [hp]

theorem start_state {D : Type} (fl : Flags) (hk : Hooks D) (a : StA D) (j : Nat) :
    (((runCbA fl hk a (.start j)).s.jobs j).state = .done → (hk.look a.d j (a.s.jobs j)).marker = true) ∧
    (∀ r, ((runCbA fl hk a (.start j)).s.jobs j).pc ≠ .finished r) ∧
    ((runCbA fl hk a (.start j)).s.jobs j).launches = (a.s.jobs j).launches ∧
    ((runCbA fl hk a (.start j)).s.jobs j).pc ≠ .lockExitRun ∧
    (((runCbA fl hk a (.start j)).s.jobs j).pc = .codeWait → (runCbA fl hk a (.start j)).adopted j = true) := by
  generalize hlk : hk.look a.d j (a.s.jobs j) = lk
  generalize hsm : a.s.put j { (a.s.jobs j) with marker := lk.marker } = sm
  have hm : (sm.jobs j).marker = lk.marker ∧ (sm.jobs j).launches = (a.s.jobs j).launches := by rw [← hsm]; simp [jobs_put]
  obtain ⟨-, -, p2, -, -, -, -, -, -, -, p10⟩ := startPrefix_spec fl sm j
  by_cases hadopt : lk.adopt = true
  · have e : (runCbA fl hk a (.start j)).s =
        (startPrefix fl sm j).put j { ((startPrefix fl sm j).jobs j) with state := .running, pc := .codeWait } [] [(.code, j)] := by
      simp only [runCbA, hlk, hadopt, if_true, startJobA, hsm]
    have e2 : (runCbA fl hk a (.start j)).adopted = upd a.adopted j true := by
      simp only [runCbA, hlk, hadopt, if_true]
    rw [e, e2]
    simp [jobs_put, p2, hm.2, upd]
  · have e : (runCbA fl hk a (.start j)).s = (startPrefix fl sm j).loopHead j := by
      simp only [runCbA, hlk, hadopt, startJobA, hsm, startJob_eq]; simp
    obtain ⟨f, jb', ths, he, g1, -, -, -, g5, hc⟩ := loopHead_nf (startPrefix fl sm j) j
    rw [e, he]
    simp [jobs_put]
    refine ⟨?_, ?_, ?_, ?_, ?_⟩
    · intro hd; rw [g5] at hd; rw [← hm.1]; exact p10.mp hd
    · intro r
      rcases hc with ⟨-, hp, -⟩ | ⟨-, hp, -⟩ | ⟨-, hp, -⟩ <;> simp [hp]
    · rw [g1, p2, hm.2]
    · rcases hc with ⟨-, hp, -⟩ | ⟨-, hp, -⟩ | ⟨-, hp, -⟩ <;> simp [hp]
    · rcases hc with ⟨-, hp, -⟩ | ⟨-, hp, -⟩ | ⟨-, hp, -⟩ <;> simp [hp]

theorem resume_state (fl : Flags) (s : St) (j : Nat) :
    (((s.resume fl j).jobs j).state = .done → (s.jobs j).state = .done ∨ ((s.jobs j).pc = .codeWait ∧ (s.jobs j).code = 0)) ∧
    (((s.resume fl j).jobs j).pc = .finished .done →
      (s.jobs j).pc = .finished .done ∨ ((s.jobs j).pc = .doneHandler ∧ (s.jobs j).state = .done)) ∧
    (((s.resume fl j).jobs j).pc = .codeWait → (s.jobs j).pc = .lockExitRun ∧ ((s.resume fl j).jobs j).launches = (s.jobs j).launches) ∧
    (((s.resume fl j).jobs j).pc = .lockExitRun → (s.jobs j).pc = .lockEnter ∧ ((s.resume fl j).jobs j).launches = (s.jobs j).launches + 1) ∧
    (((s.resume fl j).jobs j).launches = (s.jobs j).launches ∨
      ((s.jobs j).pc = .lockEnter ∧ ((s.resume fl j).jobs j).launches = (s.jobs j).launches + 1)) := by
  generalize hpc : (s.jobs j).pc = pc
  cases pc with
  | none => simp [St.resume, hpc]
  | created => simp [St.resume, hpc]
  | evtWait => simp [St.resume, hpc]
  | finished r => simp [St.resume, hpc]
  | lockEnter =>
    have hb := acquireAll_bg j (s.jobs j).deps.length 0 s
    have e : s.resume fl j =
        (match (s.acquireAll j (s.jobs j).deps.length 0).2 with
         | some d =>
           let s1 := (s.acquireAll j (s.jobs j).deps.length 0).1
           let s2 := (if fl.abortReleases then s1.releaseAll j (s1.jobs j).held else s1).check fl j d
           s2.put j { (s2.jobs j) with pc := .lockExitAbort } [] [(.lockExit, j)]
         | none =>
           let s1 := (s.acquireAll j (s.jobs j).deps.length 0).1
           s1.put j { (s1.jobs j) with launches := (s1.jobs j).launches + 1, state := .running, pc := .lockExitRun } [] [(.lockExit, j)]) := by
      simp only [St.resume, hpc]
      rcases s.acquireAll j (s.jobs j).deps.length 0 with ⟨s1, _ | d⟩ <;> rfl
    rw [e]
    generalize (s.acquireAll j (s.jobs j).deps.length 0) = r at *
    obtain ⟨s1, fa⟩ := r
    simp only at hb ⊢
    have hl1 := (hb.fields j).2.2.2.2.2.1
    cases fa with
    | some d =>
      simp only [jobs_put, if_true]
      have hbr : Bg s1 (if fl.abortReleases then s1.releaseAll j (s1.jobs j).held else s1) := by
        split
        · exact releaseAll_bg j _ s1
        · exact Bg.refl s1
      have hl3 := (hbr.fields j).2.2.2.2.2.1
      have hb2 := check_bg fl (if fl.abortReleases then s1.releaseAll j (s1.jobs j).held else s1) j d
      have hl2 := (hb2.fields j).2.2.2.2.2.1
      refine ⟨fun h => Or.inl (hb.done j (hbr.done j (hb2.done j h))), by simp, by simp, by simp, Or.inl (by rw [hl2, hl3, hl1])⟩
    | none => simp [jobs_put, hl1]
  | lockExitAbort =>
    have hb := releaseAll_bg j (s.jobs j).held s
    have e : s.resume fl j =
        (let s1 := s.releaseAll j (s.jobs j).held
         let r := if fl.abortRechecks ∧ (s1.jobs j).unsat = 0 then eventSet { (s1.jobs j) with state := .ready }
                  else ({ (s1.jobs j) with state := .waiting }, false)
         (s1.put j r.1 (if r.2 then [.wake j] else [])).loopHead j) := by
      simp only [St.resume, hpc]
    rw [e]
    simp only []
    have hl1 := (hb.fields j).2.2.2.2.2.1
    generalize s.releaseAll j (s.jobs j).held = s1 at *
    generalize hr : (if fl.abortRechecks ∧ (s1.jobs j).unsat = 0 then eventSet { (s1.jobs j) with state := .ready }
                  else ({ (s1.jobs j) with state := .waiting }, false)) = r
    have hst : r.1.state ≠ .done ∧ r.1.launches = (s1.jobs j).launches := by
      rw [← hr]; split
      · have h := eventSet_spec { (s1.jobs j) with state := .ready }
        exact ⟨by rw [h.2.2.2.2.2.1]; simp, h.2.1⟩
      · simp
    obtain ⟨f, jb', ths, he, g1, -, -, -, g5, hc⟩ := loopHead_nf (s1.put j r.1 (if r.2 then [.wake j] else [])) j
    rw [he]
    simp [jobs_put] at g1 g5 ⊢
    refine ⟨fun h => absurd (g5 ▸ h) hst.1, ?_, ?_, ?_, by rw [g1, hst.2, hl1]⟩ <;>
      (rcases hc with ⟨-, hp, -⟩ | ⟨-, hp, -⟩ | ⟨-, hp, -⟩ <;> simp [hp])
  | lockExitRun => simp [St.resume, hpc, jobs_put]
  | codeWait =>
    have hb := releaseAll_bg j (s.jobs j).held s
    have e : s.resume fl j =
        (let s1 := s.releaseAll j (s.jobs j).held
         (s1.put j { (s1.jobs j) with state := if (s1.jobs j).code = 0 then .done else .error }).finish j) := by
      simp only [St.resume, hpc]
    rw [e]
    simp only []
    have hcode := (hb.fields j).2.2.2.2.2.2.2.2
    have hl1 := (hb.fields j).2.2.2.2.2.1
    generalize s.releaseAll j (s.jobs j).held = s1 at *
    obtain ⟨f, hf⟩ := finish_eq (s1.put j { (s1.jobs j) with state := if (s1.jobs j).code = 0 then .done else .error }) j
    rw [hf]
    simp [jobs_put, hl1]
    intro h
    rw [← hcode]
    by_cases hc : (s1.jobs j).code = 0
    · exact Or.inr hc
    · simp [hc] at h
  | doneHandler =>
    have e : ∃ s3, Bg s s3 ∧ s.resume fl j = s3.put j { (s3.jobs j) with pc := .finished (s3.jobs j).state } := by
      simp only [St.resume, hpc]
      refine ⟨_, ?_, rfl⟩
      refine bg_misc _ _ ((if s.waiter = .sleeping then [Cb.waiterRun] else []) ++ (s.jobDeps j).map (fun (p : Nat × Nat) => Cb.check p.1 p.2))
        ?_ ?_ ?_ ?_ ?_ ?_ ?_ ?_
      · split <;> rfl
      · split <;> simp
      · intro cb hcb
        rcases List.mem_append.mp hcb with h1 | h1
        · split at h1 <;> simp at h1; subst h1; rfl
        · obtain ⟨p, -, rfl⟩ := List.mem_map.mp h1; rfl
      all_goals (split <;> rfl)
    obtain ⟨s3, hb, e⟩ := e
    rw [e]
    have hl1 := (hb.fields j).2.2.2.2.2.1
    simp [jobs_put, hl1]
    exact fun h => hb.done j h

/-! ### the world only grows: markers stay, process indices stay valid -/

structure DiskLe (d d' : Disk) : Prop where
  done : ∀ i, (d.dir i).done = true → (d'.dir i).done = true
  np : d.np ≤ d'.np
  ident : ∀ p, p < d.np → (d'.procs p).ident = (d.procs p).ident

theorem DiskLe.refl (d : Disk) : DiskLe d d := ⟨fun _ h => h, Nat.le_refl _, fun _ _ => rfl⟩

theorem DiskLe.trans {a b c : Disk} (h1 : DiskLe a b) (h2 : DiskLe b c) : DiskLe a c :=
  ⟨fun i h => h2.done i (h1.done i h), Nat.le_trans h1.np h2.np,
   fun p hp => by rw [h2.ident p (Nat.lt_of_lt_of_le hp h1.np), h1.ident p hp]⟩

theorem procStep_le (d : Disk) (p : Nat) (rm : Bool) : DiskLe d (d.procStep p rm) := by
  unfold Disk.procStep
  split
  · simp only []
    split
    · split
      · split <;> (constructor <;> simp only [Disk.setDir, Disk.setProc, upd] <;> grind)
      · exact DiskLe.refl d
    · split <;> (constructor <;> simp only [Disk.setDir, Disk.setProc, upd] <;> grind)
    · constructor <;> simp only [Disk.setDir, Disk.setProc, upd] <;> grind
    · exact DiskLe.refl d
  · exact DiskLe.refl d

theorem spawn_le (d : Disk) (i code : Nat) : DiskLe d (d.spawn i code) := by
  constructor <;> simp only [Disk.spawn, upd] <;> grind

theorem setDir_le (d : Disk) (i : Nat) (x : Dir) (h : x.done = (d.dir i).done) : DiskLe d (d.setDir i x) := by
  constructor <;> simp only [Disk.setDir, upd] <;> grind

theorem crash_le (d : Disk) : DiskLe d d.crash := by
  constructor <;> simp only [Disk.crash] <;> grind

theorem world_onLaunch_le (d : Disk) (j : Nat) (jb : Job) : DiskLe d (world.onLaunch d j jb) := by
  simp only [world]
  refine DiskLe.trans (spawn_le d jb.ident jb.code) ?_
  refine DiskLe.trans (setDir_le _ jb.ident { ((d.spawn jb.ident jb.code).dir jb.ident) with pid := some d.np, script := .ready } rfl) ?_
  exact ⟨fun _ h => h, Nat.le_refl _, fun _ _ => rfl⟩

theorem world_gate_le (d : Disk) (k : TK) (j : Nat) (jb : Job) (ad : Bool) (c : Option Nat) (d' : Disk)
    (hg : world.gate d k j jb ad = some (c, d')) : DiskLe d d' := by
  simp only [world] at hg
  cases k with
  | lockEnter =>
    simp only [] at hg
    split at hg
    · simp at hg; obtain ⟨-, rfl⟩ := hg; exact setDir_le _ _ _ rfl
    · simp at hg
  | lockExit => simp at hg; obtain ⟨-, rfl⟩ := hg; exact setDir_le _ _ _ rfl
  | code =>
    simp only [] at hg
    split at hg
    · simp at hg
    · split at hg <;> (simp at hg; obtain ⟨-, rfl⟩ := hg; exact DiskLe.refl d)
  | doneH => simp at hg; obtain ⟨-, rfl⟩ := hg; exact DiskLe.refl d


/-! ### frame facts for the jobs a callback is no continuation of -/

theorem runCbA_cRes {D : Type} (fl : Flags) (hk : Hooks D) (a : StA D) (cb : Cb) (h : InvP (some cb) a.s a.adopted) (i : Nat) :
    cRes (runCbA fl hk a cb).s i = cRes a.s i := by
  by_cases hreg : ∃ j, cb = .register j
  · obtain ⟨j, rfl⟩ := hreg
    rw [runCbA_register]; simp [cRes, (register_same fl a.s j).2.1]
  · obtain ⟨app, happ, hc⟩ := (runCbA_glob fl hk a cb h (fun j e => hreg ⟨j, e⟩)).ready
    simp [cRes, happ, List.count_append, (hc i).2]

theorem runCbA_done_other {D : Type} (fl : Flags) (hk : Hooks D) (a : StA D) (cb : Cb) (h : InvP (some cb) a.s a.adopted) (i : Nat)
    (hi : cb ≠ .start i ∧ cb ≠ .wake i ∧ cb ≠ .resume i) :
    ((runCbA fl hk a cb).s.jobs i).state = .done → (a.s.jobs i).state = .done := by
  cases cb with
  | register j => rw [runCbA_register]; simp [(register_same fl a.s j).1]
  | check j d => exact (check_bg fl a.s j d).done i
  | notifyCheck j d =>
    simp only [runCbA, St.runCb]
    split
    · split
      · exact (check_bg fl a.s j d).done i
      · exact id
    · exact (check_bg fl a.s j d).done i
  | waiterRun => simp only [runCbA, St.runCb, St.waiterRun]; split <;> exact id
  | start j =>
    have hij : i ≠ j := by intro e; subst e; simp at hi
    exact (start_good fl hk a j h).1.1.otherDone i hij
  | wake j =>
    have hij : i ≠ j := by intro e; subst e; simp at hi
    simpa [runCbA] using (wake_good fl a.s a.adopted j h).1.otherDone i hij
  | resume j =>
    have hij : i ≠ j := by intro e; subst e; simp at hi
    obtain ⟨hk', hth, hst, hrs, hwk, hsl, hla, hma, had⟩ := pre_resume a.s (a.adopted j) j (h.loc j)
    obtain ⟨g1, -, -⟩ := resume_good fl a.s j (a.adopted j) hk' ⟨hth, hst, hrs, hwk, hsl, hla, hma, had⟩
    simp only [runCbA]
    split <;> exact g1.otherDone i hij

/-! ### a job is DONE only if its success marker exists -/

def Dn (d : Disk) (i : Nat) : Prop := (d.dir i).done = true

/-- link between the scheduler's view and the workspace (with the popped callback `cb` counted back in) -/
structure LinkP (cb : Option Cb) (a : StA Disk) : Prop where
  st : ∀ j, (a.s.jobs j).state = .done → Dn a.d (a.s.jobs j).ident
  fin : ∀ j, (a.s.jobs j).pc = .finished .done → Dn a.d (a.s.jobs j).ident
  code : ∀ j, (a.s.jobs j).pc = .codeWait → cRes a.s j + (if cb = some (Cb.resume j) then 1 else 0) = 1 →
    (a.s.jobs j).code = 0 → Dn a.d (a.s.jobs j).ident
  proc : ∀ j, (a.s.jobs j).launches = 1 →
    a.d.procOf j < a.d.np ∧ (a.d.procs (a.d.procOf j)).ident = (a.s.jobs j).ident
  cw : ∀ j, (a.s.jobs j).pc = .codeWait → a.adopted j = true ∨ (a.s.jobs j).launches = 1
  ler : ∀ j, (a.s.jobs j).pc = .lockExitRun → (a.s.jobs j).launches = 1

theorem view_fields {s s' : St} {i : Nat} (h : view s' i = view s i) :
    (s'.jobs i).pc = (s.jobs i).pc ∧ (s'.jobs i).launches = (s.jobs i).launches ∧ (s'.jobs i).ident = (s.jobs i).ident ∧
    (s'.jobs i).code = (s.jobs i).code := by
  simp only [view, View.mk.injEq] at h
  exact ⟨h.1, h.2.2.2.2.2.1, h.2.2.2.2.2.2.2.1, h.2.2.2.2.2.2.2.2⟩


theorem world_look_marker (d : Disk) (j : Nat) (jb : Job) : (world.look d j jb).marker = (d.dir jb.ident).done := rfl

/-- the world after a callback: the directories and processes only grow; `procOf` changes for the acting job only -/
theorem runCbA_world_d (fl : Flags) (a : StA Disk) (cb : Cb) :
    DiskLe a.d (runCbA fl world a cb).d ∧
    (∀ i, (cb ≠ .start i ∧ cb ≠ .resume i) → (runCbA fl world a cb).d.procOf i = a.d.procOf i) := by
  cases cb with
  | start j =>
    simp only [runCbA]
    split
    · refine ⟨⟨fun _ h => h, Nat.le_refl _, fun _ _ => rfl⟩, ?_⟩
      intro i hi
      have : i ≠ j := by intro e; subst e; simp at hi
      simp [world, upd, this]
    · exact ⟨DiskLe.refl _, fun _ _ => rfl⟩
  | resume j =>
    simp only [runCbA]
    split
    · refine ⟨world_onLaunch_le _ _ _, ?_⟩
      intro i hi
      have : i ≠ j := by intro e; subst e; simp at hi
      simp [world, upd, this, Disk.setDir, Disk.spawn]
    · exact ⟨DiskLe.refl _, fun _ _ => rfl⟩
  | _ => exact ⟨DiskLe.refl _, fun _ _ => rfl⟩

theorem link_runCbA (fl : Flags) (a : StA Disk) (cb : Cb) (hinv : InvP (some cb) a.s a.adopted)
    (hl : LinkP (some cb) a) : LinkP none (runCbA fl world a cb) := by
  obtain ⟨hle, hpo⟩ := runCbA_world_d fl a cb
  have hcr := runCbA_cRes fl world a cb hinv
  -- jobs the callback is no continuation of
  have other : ∀ i, (cb ≠ .start i ∧ cb ≠ .wake i ∧ cb ≠ .resume i) →
      ((runCbA fl world a cb).s.jobs i).pc = (a.s.jobs i).pc ∧ ((runCbA fl world a cb).s.jobs i).launches = (a.s.jobs i).launches ∧
      ((runCbA fl world a cb).s.jobs i).ident = (a.s.jobs i).ident ∧ ((runCbA fl world a cb).s.jobs i).code = (a.s.jobs i).code ∧
      (runCbA fl world a cb).adopted i = a.adopted i ∧
      (((runCbA fl world a cb).s.jobs i).state = .done → (a.s.jobs i).state = .done) := by
    intro i hi
    obtain ⟨hv, had⟩ := runCbA_frame fl world a cb hinv i hi
    obtain ⟨v1, v2, v3, v4⟩ := view_fields hv
    exact ⟨v1, v2, v3, v4, had, runCbA_done_other fl world a cb hinv i hi⟩
  have hident : ∀ i, ((runCbA fl world a cb).s.jobs i).ident = (a.s.jobs i).ident := by
    intro i
    by_cases hreg : ∃ j, cb = .register j
    · obtain ⟨j, rfl⟩ := hreg; rw [runCbA_register]; simp [(register_same fl a.s j).1]
    · exact (runCbA_glob fl world a cb hinv (fun j e => hreg ⟨j, e⟩)).ident i
  -- generic closing steps for a job that is left alone
  have closeOther : ∀ i, (cb ≠ .start i ∧ cb ≠ .wake i ∧ cb ≠ .resume i) →
      (((runCbA fl world a cb).s.jobs i).state = .done → Dn (runCbA fl world a cb).d ((runCbA fl world a cb).s.jobs i).ident) ∧
      (((runCbA fl world a cb).s.jobs i).pc = .finished .done → Dn (runCbA fl world a cb).d ((runCbA fl world a cb).s.jobs i).ident) ∧
      (((runCbA fl world a cb).s.jobs i).pc = .codeWait → cRes (runCbA fl world a cb).s i = 1 →
        ((runCbA fl world a cb).s.jobs i).code = 0 → Dn (runCbA fl world a cb).d ((runCbA fl world a cb).s.jobs i).ident) ∧
      (((runCbA fl world a cb).s.jobs i).launches = 1 →
        (runCbA fl world a cb).d.procOf i < (runCbA fl world a cb).d.np ∧
        ((runCbA fl world a cb).d.procs ((runCbA fl world a cb).d.procOf i)).ident = ((runCbA fl world a cb).s.jobs i).ident) ∧
      (((runCbA fl world a cb).s.jobs i).pc = .codeWait → (runCbA fl world a cb).adopted i = true ∨ ((runCbA fl world a cb).s.jobs i).launches = 1) ∧
      (((runCbA fl world a cb).s.jobs i).pc = .lockExitRun → ((runCbA fl world a cb).s.jobs i).launches = 1) := by
    intro i hi
    obtain ⟨o1, o2, o3, o4, o5, o6⟩ := other i hi
    have e3 : (some cb = some (Cb.resume i)) = False := by simp; exact hi.2.2
    have hpo' := hpo i ⟨hi.1, hi.2.2⟩
    refine ⟨?_, ?_, ?_, ?_, ?_, ?_⟩
    · intro h; rw [o3]; exact hle.done _ (hl.st i (o6 h))
    · intro h; rw [o3]; exact hle.done _ (hl.fin i (by rw [← o1]; exact h))
    · intro h1 h2 h3
      rw [o3]
      refine hle.done _ (hl.code i (by rw [← o1]; exact h1) ?_ (by rw [← o4]; exact h3))
      rw [hcr] at h2; simpa [e3] using h2
    · intro h
      obtain ⟨p1, p2⟩ := hl.proc i (by rw [← o2]; exact h)
      rw [hpo', o3]
      exact ⟨Nat.lt_of_lt_of_le p1 hle.np, by rw [hle.ident _ p1]; exact p2⟩
    · intro h; rw [o5, o2]; exact hl.cw i (by rw [← o1]; exact h)
    · intro h; rw [o2]; exact hl.ler i (by rw [← o1]; exact h)
  have fromOther : ∀ j, (∀ i, i ≠ j → cb ≠ .start i ∧ cb ≠ .wake i ∧ cb ≠ .resume i) →
      ((((runCbA fl world a cb).s.jobs j).state = .done → Dn (runCbA fl world a cb).d ((runCbA fl world a cb).s.jobs j).ident) ∧
      (((runCbA fl world a cb).s.jobs j).pc = .finished .done → Dn (runCbA fl world a cb).d ((runCbA fl world a cb).s.jobs j).ident) ∧
      (((runCbA fl world a cb).s.jobs j).pc = .codeWait → cRes (runCbA fl world a cb).s j = 1 →
        ((runCbA fl world a cb).s.jobs j).code = 0 → Dn (runCbA fl world a cb).d ((runCbA fl world a cb).s.jobs j).ident) ∧
      (((runCbA fl world a cb).s.jobs j).launches = 1 →
        (runCbA fl world a cb).d.procOf j < (runCbA fl world a cb).d.np ∧
        ((runCbA fl world a cb).d.procs ((runCbA fl world a cb).d.procOf j)).ident = ((runCbA fl world a cb).s.jobs j).ident) ∧
      (((runCbA fl world a cb).s.jobs j).pc = .codeWait → (runCbA fl world a cb).adopted j = true ∨ ((runCbA fl world a cb).s.jobs j).launches = 1) ∧
      (((runCbA fl world a cb).s.jobs j).pc = .lockExitRun → ((runCbA fl world a cb).s.jobs j).launches = 1)) →
      LinkP none (runCbA fl world a cb) := by
    intro j hoth hself
    have all : ∀ i, _ := fun i => if e : i = j then e ▸ hself else closeOther i (hoth i e)
    constructor
    · intro i; exact (all i).1
    · intro i; exact (all i).2.1
    · intro i h1 h2 h3; exact (all i).2.2.1 h1 (by simpa using h2) h3
    · intro i; exact (all i).2.2.2.1
    · intro i; exact (all i).2.2.2.2.1
    · intro i; exact (all i).2.2.2.2.2
  by_cases hc : plainCb cb = true
  · have allp : ∀ i, cb ≠ .start i ∧ cb ≠ .wake i ∧ cb ≠ .resume i := by
      intro i; cases cb <;> simp [plainCb] at hc <;> simp
    exact fromOther 0 (fun i _ => allp i) (closeOther 0 (allp 0))
  · cases cb with
    | register j => simp [plainCb] at hc
    | check j d => simp [plainCb] at hc
    | notifyCheck j d => simp [plainCb] at hc
    | waiterRun => simp [plainCb] at hc
    | start j =>
      refine fromOther j (fun i hi => by simp; omega) ?_
      obtain ⟨hpc, hth, hst, hrs, hwk, hsl, hla, had⟩ := pre_start a.s (a.adopted j) j (hinv.loc j)
      obtain ⟨s1, s2, s3, s4, s5⟩ := start_state fl world a j
      have hcr' := hcr j
      refine ⟨?_, ?_, ?_, ?_, ?_, ?_⟩
      · intro h; rw [hident]; exact hle.done _ (by have := s1 h; rw [world_look_marker] at this; exact this)
      · intro h; exact absurd h (s2 _)
      · intro _ h2; rw [hcr', hrs] at h2; simp at h2
      · intro h; rw [s3, hla] at h; simp at h
      · intro h; exact Or.inl (s5 h)
      · intro h; exact absurd h s4
    | wake j =>
      refine fromOther j (fun i hi => by simp; omega) ?_
      obtain ⟨hpc, hth, hst, hrs, hwk, hsl, hla, hma, had⟩ := pre_wake a.s (a.adopted j) j (hinv.loc j)
      obtain ⟨w1, w2, w3, w4, w5⟩ := wake_state fl a.s j
      have e : (runCbA fl world a (.wake j)).s = a.s.runCb fl (.wake j) := rfl
      refine ⟨?_, ?_, ?_, ?_, ?_, ?_⟩
      · intro h; rw [hident]; rw [e, w1] at h; exact hle.done _ (hl.st j h)
      · intro h; rw [e] at h; exact absurd h (w2 _)
      · intro h; rw [e] at h; exact absurd h w4
      · intro h; rw [e, w3, hla] at h; simp at h
      · intro h; rw [e] at h; exact absurd h w4
      · intro h; rw [e] at h; exact absurd h w5
    | resume j =>
      refine fromOther j (fun i hi => by simp; omega) ?_
      obtain ⟨hk', hth, hst, hrs, hwk, hsl, hla, hma, had⟩ := pre_resume a.s (a.adopted j) j (hinv.loc j)
      obtain ⟨r1, r2, r3, r4, r5⟩ := resume_state fl a.s j
      have e : (runCbA fl world a (.resume j)).s = a.s.resume fl j := by simp only [runCbA]; split <;> rfl
      have hcr' := hcr j
      have hcode0 : (a.s.jobs j).pc = .codeWait → (a.s.jobs j).code = 0 → Dn a.d (a.s.jobs j).ident :=
        fun h1 h2 => hl.code j h1 (by simp [hrs]) h2
      refine ⟨?_, ?_, ?_, ?_, ?_, ?_⟩
      · intro h; rw [hident]; rw [e] at h
        rcases r1 h with h' | ⟨h1, h2⟩
        · exact hle.done _ (hl.st j h')
        · exact hle.done _ (hcode0 h1 h2)
      · intro h; rw [hident]; rw [e] at h
        rcases r2 h with h' | ⟨-, h2⟩
        · exact hle.done _ (hl.fin j h')
        · exact hle.done _ (hl.st j h2)
      · intro _ h2; rw [hcr', hrs] at h2; simp at h2
      · intro h
        rw [e] at h
        by_cases hlt : (a.s.jobs j).launches < ((a.s.resume fl j).jobs j).launches
        · -- launched by this very callback
          have ed : (runCbA fl world a (.resume j)).d = world.onLaunch a.d j ((a.s.resume fl j).jobs j) := by
            simp only [runCbA, hlt, if_true]
          rw [ed, e]
          simp [world, Disk.setDir, Disk.spawn, upd]
        · have ed : (runCbA fl world a (.resume j)).d = a.d := by simp only [runCbA, hlt, if_false]
          have hl1 : (a.s.jobs j).launches = 1 := by
            rcases r5 with h5 | ⟨-, h5⟩
            · rw [← h5]; exact h
            · omega
          obtain ⟨p1, p2⟩ := hl.proc j hl1
          rw [ed, e]
          have : ((a.s.resume fl j).jobs j).ident = (a.s.jobs j).ident := by rw [← e]; exact hident j
          rw [this]; exact ⟨p1, p2⟩
      · intro h; rw [e] at h ⊢
        obtain ⟨h1, h2⟩ := r3 h
        right; rw [h2]; exact hl.ler j h1
      · intro h; rw [e] at h ⊢
        obtain ⟨h1, h2⟩ := r4 h
        rw [h2]
        rcases hla with h0 | ⟨-, hx⟩
        · omega
        · rw [h1] at hx; simp [launched] at hx


theorem link_pop {a : StA Disk} {cb : Cb} {rest : List Cb} (h : LinkP none a) (hr : a.s.ready = cb :: rest) :
    LinkP (some cb) { a with s := { a.s with ready := rest } } := by
  refine ⟨h.st, h.fin, ?_, h.proc, h.cw, h.ler⟩
  intro j h1 h2 h3
  refine h.code j h1 ?_ h3
  simp only [cRes, hr, List.count_cons, beq_iff_eq] at h2 ⊢
  simpa using h2

theorem link_stepA (fl : Flags) (a : StA Disk) (hi : InvA a) (hl : LinkP none a) : LinkP none (stepA fl world a) := by
  unfold stepA
  split
  · exact hl
  · rename_i cb rest hr
    exact link_runCbA fl _ cb (pop_inv hi hr) (link_pop hl hr)

theorem link_stepsA (fl : Flags) (k : Nat) : ∀ (a : StA Disk), InvA a → LinkP none a → LinkP none (stepsA fl world a k) := by
  induction k with
  | zero => intro a _ h; exact h
  | succ k ih => intro a hi hl; exact ih _ (stepA_inv fl world a hi) (link_stepA fl a hi hl)

/-- changes of the scheduler state that leave every job record's relevant part and the `resume` callbacks alone -/
theorem link_same {a a' : StA Disk} (h : LinkP none a) (hd : a'.d = a.d) (had : a'.adopted = a.adopted)
    (hj : ∀ i, (a'.s.jobs i).pc = (a.s.jobs i).pc ∧ (a'.s.jobs i).state = (a.s.jobs i).state ∧
      (a'.s.jobs i).launches = (a.s.jobs i).launches ∧ (a'.s.jobs i).ident = (a.s.jobs i).ident ∧ (a'.s.jobs i).code = (a.s.jobs i).code)
    (hc : ∀ i, cRes a'.s i = cRes a.s i) : LinkP none a' := by
  constructor
  · intro j hs; rw [hd, (hj j).2.2.2.1]; exact h.st j (by rw [← (hj j).2.1]; exact hs)
  · intro j hs; rw [hd, (hj j).2.2.2.1]; exact h.fin j (by rw [← (hj j).1]; exact hs)
  · intro j h1 h2 h3
    rw [hd, (hj j).2.2.2.1]
    exact h.code j (by rw [← (hj j).1]; exact h1) (by rw [← hc]; exact h2) (by rw [← (hj j).2.2.2.2]; exact h3)
  · intro j hs; rw [hd, (hj j).2.2.2.1]; exact h.proc j (by rw [← (hj j).2.2.1]; exact hs)
  · intro j hs; rw [had, (hj j).2.2.1]; exact h.cw j (by rw [← (hj j).1]; exact hs)
  · intro j hs; rw [(hj j).2.2.1]; exact h.ler j (by rw [← (hj j).1]; exact hs)

theorem link_submitPre (a : StA Disk) (hl : LinkP none a) (rec : Job)
    (hrec : rec.pc = .none ∧ rec.launches = 0 ∧ rec.state = .unscheduled) : LinkP none (submitPre a rec) := by
  obtain ⟨r1, r2, r3⟩ := hrec
  have hc : ∀ i, cRes (submitPre a rec).s i = cRes a.s i := by intro i; simp [cRes, submitPre, List.count_append]
  have hj : ∀ i, i ≠ a.s.n → (submitPre a rec).s.jobs i = a.s.jobs i := by intro i hi; simp [submitPre, upd, hi]
  have hn : (submitPre a rec).s.jobs a.s.n = rec := by simp [submitPre, upd]
  constructor
  · intro j hs
    by_cases e : j = a.s.n
    · subst e; rw [hn, r3] at hs; cases hs
    · rw [hj j e] at hs ⊢; exact hl.st j hs
  · intro j hs
    by_cases e : j = a.s.n
    · subst e; rw [hn, r1] at hs; cases hs
    · rw [hj j e] at hs ⊢; exact hl.fin j hs
  · intro j h1 h2 h3
    by_cases e : j = a.s.n
    · subst e; rw [hn, r1] at h1; cases h1
    · rw [hj j e] at h1 h3 ⊢; exact hl.code j h1 (by rw [← hc]; exact h2) h3
  · intro j hs
    by_cases e : j = a.s.n
    · subst e; rw [hn, r2] at hs; cases hs
    · rw [hj j e] at hs ⊢; exact hl.proc j hs
  · intro j hs
    by_cases e : j = a.s.n
    · subst e; rw [hn, r1] at hs; cases hs
    · rw [hj j e] at hs ⊢; exact hl.cw j hs
  · intro j hs
    by_cases e : j = a.s.n
    · subst e; rw [hn, r1] at hs; cases hs
    · rw [hj j e] at hs ⊢; exact hl.ler j hs

theorem link_submitPost (a : StA Disk) (j : Nat) (hl : LinkP none a) (hpc : (a.s.jobs j).pc = .none) :
    LinkP none (submitPost a j) := by
  unfold submitPost
  split
  · exact link_same hl rfl rfl (fun _ => ⟨rfl, rfl, rfl, rfl, rfl⟩) (fun _ => rfl)
  · have hc : ∀ i, cRes (({ a.s with eff := upd a.s.eff j j }).put j { (a.s.jobs j) with pc := .created } [.start j]) i = cRes a.s i := by
      intro i; simp [cRes, St.put, List.count_append]
    have hj : ∀ i, i ≠ j → (({ a.s with eff := upd a.s.eff j j }).put j { (a.s.jobs j) with pc := .created } [.start j]).jobs i = a.s.jobs i := by
      intro i hi; simp [jobs_put, hi]
    have hn : (({ a.s with eff := upd a.s.eff j j }).put j { (a.s.jobs j) with pc := .created } [.start j]).jobs j = { (a.s.jobs j) with pc := .created } := by
      simp [jobs_put]
    constructor
    · intro i hs
      by_cases e : i = j
      · subst e; simp only [hn] at hs ⊢; exact hl.st i hs
      · simp only [hj i e] at hs ⊢; exact hl.st i hs
    · intro i hs
      by_cases e : i = j
      · subst e; simp only [hn] at hs; cases hs
      · simp only [hj i e] at hs ⊢; exact hl.fin i hs
    · intro i h1 h2 h3
      by_cases e : i = j
      · subst e; simp only [hn] at h1; cases h1
      · simp only [hj i e] at h1 h3 ⊢; exact hl.code i h1 (by rw [← hc]; exact h2) h3
    · intro i hs
      by_cases e : i = j
      · subst e; simp only [hn] at hs ⊢; exact hl.proc i hs
      · simp only [hj i e] at hs ⊢; exact hl.proc i hs
    · intro i hs
      by_cases e : i = j
      · subst e; simp only [hn] at hs; cases hs
      · simp only [hj i e] at hs ⊢; exact hl.cw i hs
    · intro i hs
      by_cases e : i = j
      · subst e; simp only [hn] at hs; cases hs
      · simp only [hj i e] at hs ⊢; exact hl.ler i hs


theorem gate_procOf (d : Disk) (k : TK) (j : Nat) (jb : Job) (ad : Bool) (c : Option Nat) (d' : Disk)
    (hg : world.gate d k j jb ad = some (c, d')) : d'.procOf = d.procOf := by
  simp only [world] at hg
  cases k with
  | lockEnter =>
    simp only [] at hg
    split at hg
    · simp at hg; obtain ⟨-, rfl⟩ := hg; rfl
    · simp at hg
  | lockExit => simp at hg; obtain ⟨-, rfl⟩ := hg; rfl
  | code =>
    simp only [] at hg
    split at hg
    · simp at hg
    · split at hg <;> (simp at hg; obtain ⟨-, rfl⟩ := hg; rfl)
  | doneH => simp at hg; obtain ⟨-, rfl⟩ := hg; rfl

/-- the exit code reported for a job that waits for its process is 0 only if the success marker exists -/
theorem gate_code {done0 : Nat → Bool} (a : StA Disk) (j : Nat) (c : Nat) (d' : Disk) (hl : LinkP none a) (hd : DiskInv done0 a.d)
    (hpc : (a.s.jobs j).pc = .codeWait)
    (hg : world.gate a.d .code j (a.s.jobs j) (a.adopted j) = some (some c, d')) (hc : c = 0) :
    Dn a.d (a.s.jobs j).ident := by
  simp only [world] at hg
  split at hg
  · simp at hg
  · split at hg
    · simp at hg
      obtain ⟨h1, -⟩ := hg
      subst hc
      by_cases hdn : (a.d.dir (a.s.jobs j).ident).done = true
      · exact hdn
      · simp [hdn] at h1
    · rename_i hnad
      simp at hg
      obtain ⟨h1, -⟩ := hg
      subst hc
      have hok : (a.d.procs (a.d.procOf j)).ok = true := by
        by_cases h : (a.d.procs (a.d.procOf j)).ok = true
        · exact h
        · simp [h] at h1
      rcases hl.cw j hpc with h | h
      · exact absurd h hnad
      · obtain ⟨p1, p2⟩ := hl.proc j h
        have := hd.okDone _ p1 hok
        rw [p2] at this
        exact this

theorem gate_code_kind (d : Disk) (k : TK) (j : Nat) (jb : Job) (ad : Bool) (c : Nat) (d' : Disk)
    (hg : world.gate d k j jb ad = some (some c, d')) : k = .code := by
  simp only [world] at hg
  cases k with
  | lockEnter => simp only [] at hg; split at hg <;> simp at hg
  | lockExit => simp at hg
  | code => rfl
  | doneH => simp at hg

theorem link_deliverA {done0 : Nat → Bool} (a : StA Disk) (k j : Nat) (kind : TK) (c : Option Nat) (d' : Disk)
    (hi : InvA a) (hl : LinkP none a) (hd : DiskInv done0 a.d) (hkj : a.s.threads[k]? = some (kind, j))
    (hg : world.gate a.d kind j (a.s.jobs j) (a.adopted j) = some (c, d')) : LinkP none (deliverA a k j c d') := by
  have hle := world_gate_le _ _ _ _ _ _ _ hg
  have hpo := gate_procOf _ _ _ _ _ _ _ hg
  have hkind : kindOk kind (a.s.jobs j).pc = true := hi.kind (kind, j) (List.mem_of_getElem? hkj)
  have hjobs : ∀ i, ((deliverA a k j c d').s.jobs i).pc = (a.s.jobs i).pc ∧ ((deliverA a k j c d').s.jobs i).state = (a.s.jobs i).state ∧
      ((deliverA a k j c d').s.jobs i).launches = (a.s.jobs i).launches ∧ ((deliverA a k j c d').s.jobs i).ident = (a.s.jobs i).ident ∧
      (i ≠ j → ((deliverA a k j c d').s.jobs i).code = (a.s.jobs i).code) := by
    intro i
    cases c with
    | none => simp [deliverA, setCode]
    | some c => by_cases e : i = j <;> simp [deliverA, setCode, jobs_put, e]
  have hcr : ∀ i, cRes (deliverA a k j c d').s i = cRes a.s i + (if i = j then 1 else 0) := by
    intro i
    cases c <;> simp [deliverA, setCode, cRes, List.count_append, List.count_cons] <;>
      (by_cases e : i = j <;> simp [e] <;> (intro e'; exact absurd e'.symm e))
  have hdd : (deliverA a k j c d').d = d' := rfl
  have had : (deliverA a k j c d').adopted = a.adopted := rfl
  constructor
  · intro i hs; rw [hdd, (hjobs i).2.2.2.1]; exact hle.done _ (hl.st i (by rw [← (hjobs i).2.1]; exact hs))
  · intro i hs; rw [hdd, (hjobs i).2.2.2.1]; exact hle.done _ (hl.fin i (by rw [← (hjobs i).1]; exact hs))
  · intro i h1 h2 h3
    rw [hdd, (hjobs i).2.2.2.1]
    rw [(hjobs i).1] at h1
    by_cases e : i = j
    · subst e
      -- the thread is the `aio_code` thread of this job
      have hk : kind = .code := by
        rw [h1] at hkind; cases kind <;> simp [kindOk] at hkind ⊢
      subst hk
      cases c with
      | none =>
        have h3' : (a.s.jobs i).code = 0 := by simpa [deliverA, setCode] using h3
        exfalso
        -- a code thread always reports a code
        simp only [world] at hg
        split at hg
        · simp at hg
        · split at hg <;> simp at hg
      | some c =>
        have hc0 : c = 0 := by simpa [deliverA, setCode, jobs_put] using h3
        exact hle.done _ (gate_code a i c d' hl hd h1 hg hc0)
    · have : cRes a.s i = 1 := by have := hcr i; simp [e] at this; rw [this] at h2; simpa using h2
      exact hle.done _ (hl.code i h1 (by simpa using this) (by rw [← (hjobs i).2.2.2.2 e]; exact h3))
  · intro i hs
    obtain ⟨p1, p2⟩ := hl.proc i (by rw [← (hjobs i).2.2.1]; exact hs)
    rw [hdd, hpo, (hjobs i).2.2.2.1]
    exact ⟨Nat.lt_of_lt_of_le p1 hle.np, by rw [hle.ident _ p1]; exact p2⟩
  · intro i hs; rw [had, (hjobs i).2.2.1]; exact hl.cw i (by rw [← (hjobs i).1]; exact hs)
  · intro i hs; rw [(hjobs i).2.2.1]; exact hl.ler i (by rw [← (hjobs i).1]; exact hs)


theorem link_applyA {done0 : Nat → Bool} (fl : Flags) (a : StA Disk) (e : Ev) (hi : InvA a) (hl : LinkP none a)
    (hd : DiskInv done0 a.d) : LinkP none (applyA fl world a e) := by
  cases e with
  | step => exact link_stepA fl a hi hl
  | wait =>
    exact link_same hl rfl rfl (fun _ => ⟨rfl, rfl, rfl, rfl, rfl⟩) (by intro i; simp [applyA, cRes, List.count_append])
  | deliver k =>
    simp only [applyA]
    split
    · rename_i kind j hkj
      split
      · exact hl
      · rename_i c d' hg
        exact link_deliverA a k j kind c d' hi hl hd hkj hg
    · exact hl
  | submit ident deps code marker =>
    simp only [applyA]
    have h0 := submitPre_inv a hi (newJob a.s ident deps code marker) ⟨rfl, rfl, rfl⟩
    have l0 := link_submitPre a hl (newJob a.s ident deps code marker) ⟨rfl, rfl, rfl⟩
    have hpc0 : ((submitPre a (newJob a.s ident deps code marker)).s.jobs a.s.n).pc = .none := by simp [submitPre, upd, newJob]
    obtain ⟨t1, -, -, -, -⟩ := stepsA_idle fl world (a.s.ready.length + 1) _ h0 a.s.n hpc0
    exact link_submitPost _ _ (link_stepsA fl _ _ h0 l0) t1

theorem link_disk {a : StA Disk} (hl : LinkP none a) (d' : Disk) (hle : DiskLe a.d d') (hpo : d'.procOf = a.d.procOf) :
    LinkP none { a with d := d' } := by
  constructor
  · intro j hs; exact hle.done _ (hl.st j hs)
  · intro j hs; exact hle.done _ (hl.fin j hs)
  · intro j h1 h2 h3; exact hle.done _ (hl.code j h1 h2 h3)
  · intro j hs
    obtain ⟨p1, p2⟩ := hl.proc j hs
    simp only [hpo]
    exact ⟨Nat.lt_of_lt_of_le p1 hle.np, by rw [hle.ident _ p1]; exact p2⟩
  · exact hl.cw
  · exact hl.ler

theorem link_init (totals : List Nat) (d : Disk) : LinkP none ({ s := St.init totals, d := d } : StA Disk) := by
  constructor <;> intro j h <;> simp [St.init] at h

theorem procStep_procOf (d : Disk) (p : Nat) (rm : Bool) : (d.procStep p rm).procOf = d.procOf := by
  unfold Disk.procStep
  split
  · simp only []
    split <;> (try split) <;> (try split) <;> rfl
  · rfl

/-- every reachable world: scheduler invariants, disk invariants, and the link between the two -/
theorem wreach_link {fl : Flags} {totals : List Nat} {done0 : Nat → Bool} {w : W} (h : WReach fl totals done0 w) :
    WInv done0 w ∧ LinkP none w.a := by
  obtain ⟨evs, rfl⟩ := h
  suffices ∀ (evs : List WEv) (w0 : W), WInv done0 w0 ∧ LinkP none w0.a → WInv done0 (W.run fl w0 evs) ∧ LinkP none (W.run fl w0 evs).a from
    this evs _ ⟨⟨init_invB _ _, diskInv_init done0⟩, link_init _ _⟩
  intro evs
  induction evs with
  | nil => intro w0 h; exact h
  | cons e es ih =>
    intro w0 h
    apply ih
    refine ⟨winv_apply h.1 e, ?_⟩
    cases e with
    | sched e => exact link_applyA fl w0.a e h.1.sched.1 h.2 h.1.disk
    | proc p rm => exact link_disk h.2 _ (procStep_le _ p rm) (procStep_procOf _ p rm)
    | crash => exact link_init _ _
    | crashAfterSpawn j =>
      simp only [W.apply]
      split
      · exact link_init _ _
      · exact h.2
    | crashInPrepare j st =>
      simp only [W.apply]
      split
      · exact link_init _ _
      · exact h.2

end XpmVerif.Restart
