import XpmVerif.Proofs.FileTokFair
import XpmVerif.Properties.C09Files
/-! C09, file-based part, liveness across processes (model M2'): "… and waiting jobs run".  A job of process `p` that waits
    for the file token is woken by `aio_notify()` of `p`'s own token object; when the holder belongs to another process the
    wake-up travels as a file-system event.  Proved here: delivery (FIFO, under any interleaving of the steps of any number
    of processes) and the notification at delivery.  Fairness assumed, stated as hypotheses: the observer of `p` performs
    dispatch steps (more than the number of events queued before the release), and `p` is neither killed nor replaced in
    the run; no assumption on the other processes. -/
namespace XpmVerif.C09Fair
open XpmVerif.FileTokens

/-- `waiting_dependency_eventually_notified` — partial.  Process `q` releases the token file `f` while process `p`
    (observer alive, tolerant callbacks) is in any state.  Then the deletion is appended to `p`'s queue, and in *every*
    continuation `evs` of enabled steps that contains more dispatch steps of `p` than events were queued before, the run
    reaches a state `t` where that deletion is at the head of `p`'s queue and the next step of the run dispatches it; if `f`
    is still in `p`'s cache at that moment the dispatch gives the amount back to `p`'s counter and calls `aio_notify()` iff
    the counter is then positive (`Token.aio_notify` re-checks every waiting dependency of `p`).
    MISSING for the full statement: (1) when `f` has left `p`'s cache before the dispatch, `p` itself has recounted in
    between (its own `acquire`/`release`; then its counter was made exact without a notification, and the wake-up relies on
    that operation's own outcome: a release always notifies — `C09Files.release_always_notifies` — a successful acquire is a
    job of `p` that will release); (2) the step from `aio_notify()` to the launch of the waiting job is the in-process
    theorem `C09.waiting_job_eventually_launched` (model M2); the product of M2 (per process) with M2' is not built, so
    "no livelock of crossed requests across processes" stays with the multi-instance engine's `no livelock` monitor. -/
theorem waiting_dependency_eventually_notified_partial (cfg : Cfg) (ht : cfg.tolerant = true) (s : St) (r : Reachable cfg s)
    (p q : Proc) (f : Name) (hpq : q ≠ p) (ha : (s.procs p).alive = true) (hd : (s.procs p).dropped = false)
    (hf : f ∈ names s.disk) (en : enabled s (.release q f) = true) :
    let s' := (apply cfg s (.release q f)).1
    (s'.procs p).pending = (s.procs p).pending ++ [.deleted f] ∧
    ∀ evs, allEnabled cfg s' evs = true → (∀ e ∈ evs, e ≠ .drop p ∧ e ≠ .restart p) →
      (s.procs p).pending.length < dispatches p evs →
      ∃ (before after : List Ev) (post' : List FsEv), evs = before ++ .fsEvent p :: after ∧
        Reachable cfg (run cfg s' before) ∧ ((run cfg s' before).procs p).pending = .deleted f :: post' ∧
        (f ∈ ((run cfg s' before).procs p).cache →
          ((apply cfg (run cfg s' before) (.fsEvent p)).1.procs p).avail = ((run cfg s' before).procs p).avail + (cfg.req f : Nat) ∧
          (apply cfg (run cfg s' before) (.fsEvent p)).2.notify = decide (0 < ((run cfg s' before).procs p).avail + (cfg.req f : Nat))) := by
  have r' : Reachable cfg (apply cfg s (.release q f)).1 := .step _ r en
  have hp : ((apply cfg s (.release q f)).1.procs p).pending = (s.procs p).pending ++ [.deleted f] := by
    simp only [apply, recount_cache, hf, if_true]
    rw [bc_pending_alive _ _ _ (by simpa [upd_other _ _ _ _ (Ne.symm hpq)] using ha) (by simpa [upd_other _ _ _ _ (Ne.symm hpq)] using hd)]
    simp [upd_other _ _ _ _ (Ne.symm hpq)]
  refine ⟨hp, ?_⟩
  intro evs hen hne hlt
  obtain ⟨before, after, post', h1, h2, _⟩ := fifo_delivery cfg ht p (.deleted f) evs _ (s.procs p).pending [] hp hne hlt
  have rb : Reachable cfg (run cfg (apply cfg s (.release q f)).1 before) :=
    reachable_run cfg before _ r' (allEnabled_append_left cfg before _ _ (by rw [← h1]; exact hen))
  refine ⟨before, after, post', h1, rb, h2, ?_⟩
  intro hc
  have := C09Files.deleted_event_notifies cfg _ rb p f post' h2 hc
  exact ⟨this.1, this.2.2⟩

/-! ### non-vacuity: process 1 has cached file 7 of process 0 and still has an event queued when process 0 releases -/
example : let s := run cfgFixed (init cfgFixed) [.acquireBegin 0 7, .acquireEnd 0, .fsEvent 1, .jobGone 7]
    Reachable cfgFixed s ∧ enabled s (.release 0 7) = true ∧ 7 ∈ names s.disk ∧ (s.procs 1).pending = [.modified 7] ∧
    dispatches 1 [.fsEvent 1, .acquireBegin 0 9, .fsEvent 1] = 2 ∧
    allEnabled cfgFixed (apply cfgFixed s (.release 0 7)).1 [.fsEvent 1, .acquireBegin 0 9, .fsEvent 1] = true :=
  ⟨reachable_run cfgFixed _ _ .init (by decide +kernel), by decide +kernel⟩
/-- the notification happens at the second dispatch, after an unrelated step of process 0. -/
example : let s := run cfgFixed (init cfgFixed) [.acquireBegin 0 7, .acquireEnd 0, .fsEvent 1, .jobGone 7, .release 0 7, .fsEvent 1, .acquireBegin 0 9]
    (s.procs 1).pending = [.deleted 7, .created 9] ∧ 7 ∈ (s.procs 1).cache ∧ (apply cfgFixed s (.fsEvent 1)).2.notify = true := by
  decide +kernel

end XpmVerif.C09Fair
