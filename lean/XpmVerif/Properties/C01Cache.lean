import XpmVerif.Proofs.CacheCoherent
/-! C01 — "asking for a configuration's identifier before or after it is sealed, or after identifiers of
    related configurations were requested in any order, always yields the same identifier".

    `rawId`/`fullId` (Model/Ident.lean) are the cache-free specification; `step` (Model/IdentImpl.lean) is
    the implementation with the `_raw_identifier`/`_full_identifier` caches, the loop flag and sealing.
    A *query-only history* is a list of `sealOp n | reqRaw n | reqFull n` (`Op.isQuery`); `runOps` folds
    `step` over it and returns the outputs; `specOut hc g` is the specification's answer on graph `g`.
    All theorems hold for every graph (no size bound, sharing, cycles, dangling references), every initial
    assignment of `sealed` flags, every history, every hash structure; `flagStored = true` is the obligation
    `C01.loop_flag_is_stored` on the source (without it the statement is false:
    `C01.request_order_matters_without_flag`).

    Configuration-valued defaults (`x: Param[B] = B(k=1)`): a parameter is skipped iff its value has the
    identifier of the default object (`_is_default`), which makes the set of configurations examined while a
    node is hashed depend on the context (Model/IdentImpl.lean `nodeRefs`; static bounds `valueRefs ⊆ nodeRefs ⊆
    allRefs` in Proofs/HashRefs.lean).  The only well-formedness hypothesis of the general theorem is
    `DefaultsClosed g` (Proofs/CacheCoherent.lean): a configuration occurring in a declared default of `n` does
    not reach `n` back — true of defaults created in a class body and never mutated, vacuous without
    configuration-valued defaults (`DefaultsClosed.of_noDefaultRefsB`), checkable with a rank function
    (`DefaultsClosed.of_rank`, `DefaultsRanked.of_B`). -/
namespace XpmVerif.C01Cache
open XpmVerif.Ident List

/-- **sealed or not.** The specification identifiers do not read `sealed` flags: sealing (from any node)
    changes neither the raw nor the full identifier of any configuration; more generally two graphs that
    differ only by `sealed` flags (`SameContent`) have the same identifiers. -/
theorem identifier_ignores_sealing {D : Type} (hc : HC D) (g g' : Graph) (k n : Nat) :
    (rawId hc (sealFrom g k) n = rawId hc g n ∧ fullId hc (sealFrom g k) n = fullId hc g n) ∧
    (SameContent g g' → rawId hc g' n = rawId hc g n ∧ fullId hc g' n = fullId hc g n) :=
  ⟨⟨(sameContent_sealFrom g k).rawId hc n, (sameContent_sealFrom g k).fullId hc n⟩,
   fun h => ⟨h.rawId hc n, h.fullId hc n⟩⟩

/-- **stage 1, acyclic graphs.** If the hash-relevant reference structure is acyclic (`Ranked g rank`:
    `rank m < rank n` for every `m ∈ allRefs g.mt n (g.node n)` — producing task, kept configurations of the
    values and configurations of the declared defaults of the arguments that reach the default rule —, and
    `rank n ≤ g.size`), then along every
    query-only history started with empty caches every `reqRaw n` returns `rawId hc g n` and every
    `reqFull n` returns `fullId hc g n`.
    `LeOrder hc`: the digest order used by `sorted(pre_tasks_ids)` is a total order (needed because the
    implementation and the specification enumerate the pre-tasks in different orders before sorting). -/
theorem cache_coherent_acyclic {D : Type} (hc : HC D) (ho : LeOrder hc) (g : Graph) (rank : Nat → Nat)
    (hr : Ranked g rank) (ops : List Op) (hq : ∀ o, o ∈ ops → o.isQuery = true) :
    (runOps hc true { g := g, c := Caches.empty } ops).2 = ops.map (specOut hc g) :=
  runOps_acyclic hc ho g rank hr ops hq

/-- **stage 1, the facts behind it.** In a ranked graph, for the stacks that can occur (`Above rank stack n`:
    every member has a rank `≥ rank n`; the empty stack is one): (a) the specification value is the same under
    every such stack and every fuel above `rank n` — no cycle reference is emitted; (b) the loop flag is never
    set, whatever the caches; (c) `computeAt` with any cache holding specification values returns `rawId`. -/
theorem acyclic_context_independent {D : Type} (hc : HC D) (g : Graph) (rank : Nat → Nat) (hr : Ranked g rank) :
    (∀ f f' stack stack' n, rank n < f → rank n < f' → Above rank stack n → Above rank stack' n →
      rawAt hc g f stack n = rawAt hc g f' stack' n) ∧
    (∀ (c : Caches D) f stack n, Above rank stack n → escAt hc g c f stack n = 0) ∧
    (∀ (c : Caches D), (∀ n d b, c.raw n = some (d, b) → d = rawId hc g n) →
      ∀ f stack n, rank n < f → Above rank stack n → computeAt hc g c f stack n = rawId hc g n) :=
  ⟨rawAt_acyclic hc g rank hr, fun c => escAt_acyclic hc g rank hr c, fun c hinv => computeAt_acyclic hc g rank hr c hinv⟩

/-- **the general statement (cycles included).** For every graph `g` whose default objects are well formed
    (`DefaultsClosed g`, see the header; no hypothesis at all without configuration-valued defaults), every query-only history
    (`sealOp`/`reqRaw`/`reqFull` on arbitrary nodes in arbitrary order) started with empty caches and the
    loop flag stored: the list of outputs is the list of specification answers on the initial graph —
    every `reqRaw n` returns `rawId hc g n`, every `reqFull n` returns `fullId hc g n`
    (by `identifier_ignores_sealing` these are also the specification values of the graph at that moment). -/
theorem cache_coherent {D : Type} (hc : HC D) (ho : LeOrder hc) (g : Graph) (hdc : DefaultsClosed g)
    (ops : List Op) (hq : ∀ o, o ∈ ops → o.isQuery = true) :
    (runOps hc true { g := g, c := Caches.empty } ops).2 = ops.map (specOut hc g) :=
  runOps_general hc ho g hdc ops hq

/-- **state form.** After any query-only history the graph differs from the initial one by `sealed` flags
    only, and *whatever is requested next* — raw or full identifier of any node — is answered with the
    specification value of the current graph (equivalently of the initial one). -/
theorem cache_coherent_state {D : Type} (hc : HC D) (ho : LeOrder hc) (g : Graph) (hdc : DefaultsClosed g)
    (ops : List Op) (hq : ∀ o, o ∈ ops → o.isQuery = true) (n : Nat) :
    let s := (runOps hc true { g := g, c := Caches.empty } ops).1
    SameContent g s.g ∧ (reqRaw hc true s n).2 = rawId hc s.g n ∧ (reqFull hc true s n).2 = fullId hc s.g n := by
  intro s
  have hs : Good hc g (CycleInv hc g) s :=
    runOps_good hc ho g _ (rawSound_general hc g hdc) ops _ hq (good_empty hc g _ (fun _ _ _ h => by cases h))
  refine ⟨hs.1, ?_, ?_⟩
  · rw [hs.1.rawId]; exact (rawSound_general hc g hdc s n hs.1 hs.2.1).1
  · rw [hs.1.fullId]; exact (reqFull_sound hc ho g _ (rawSound_general hc g hdc) s n hs).1

/-- **raw identifiers need no assumption on the digest order.** Histories of `seal` and raw-identifier
    requests are coherent for every hash structure whatsoever. -/
theorem cache_coherent_raw {D : Type} (hc : HC D) (g : Graph) (hdc : DefaultsClosed g)
    (ops : List Op) (hq : ∀ o, o ∈ ops → o.isRawQuery = true) :
    (runOps hc true { g := g, c := Caches.empty } ops).2 = ops.map (specOut hc g) :=
  runOps_raw_sound hc g _ (rawSound_general hc g hdc) ops _ hq (SameContent.refl g) (fun _ _ _ h => by cases h)

/-- **why it works** (the two facts behind the cache invariant, for every graph and every cache satisfying
    `CycleInv`: cached values are specification values, and an entry whose loop flag is false belongs to a
    node on no cycle of hash-relevant references — `Edge g n m := m ∈ relRefs g.mt n (g.node n)`: value edges and
    default edges; by `DefaultsClosed` a cycle only consists of value edges, which are followed in every context):
    (a) a node on a cycle gets its loop flag set when its identifier is computed from the empty stack;
    (b) `computeAt` under every stack that is a chain of references equals the specification `rawAt`;
    (c) a node on no cycle has the value `rawId` in every such context. -/
theorem cache_invariant_facts {D : Type} (hc : HC D) (g : Graph) (hdc : DefaultsClosed g) (c : Caches D)
    (hinv : CycleInv hc g c.raw) :
    (∀ n, OnCycle g n → 1 ≤ escAt hc g c (g.size + 1) [] n) ∧
    (∀ f stack n, StackOK g stack n → FuelOK g f stack n → computeAt hc g c f stack n = rawAt hc g f stack n) ∧
    (∀ f stack n, ¬ OnCycle g n → StackOK g stack n → FuelOK g f stack n → rawAt hc g f stack n = rawId hc g n) :=
  ⟨escAt_onCycle hc g hdc c hinv, computeAt_eq_rawAt hc g c hinv,
   fun f stack n hn hs hf => rawAt_of_not_onCycle hc g f stack n hn hs hf⟩

/-! ### non-vacuity -/

/-- the order hypothesis is satisfiable (digests ordered as numbers; for the real code: hex strings). -/
example : LeOrder exHC := exHC_order

/-- the rank hypothesis is satisfiable on a graph with a shared sub-configuration, a producing task, a dict
    and a list value. -/
example : Ranked exDag (fun n => 4 - n) := exDag_ranked

/-- stage 1 on a concrete history: request, seal, request again in another order. -/
example : (runOps exHC true { g := exDag, c := Caches.empty }
      [.reqFull 0, .reqRaw 3, .sealOp 0, .reqRaw 2, .reqFull 0, .reqRaw 1, .reqFull 3]).2
    = [.reqFull 0, .reqRaw 3, .sealOp 0, .reqRaw 2, .reqFull 0, .reqRaw 1, .reqFull 3].map (specOut exHC exDag) :=
  cache_coherent_acyclic exHC exHC_order exDag _ exDag_ranked _ (by decide)

/-- the general theorem applies to a graph with a cycle `0 → 1 → 2 → 0` (partly sealed at the start) … -/
example : OnCycle exCyc 0 := exCyc_onCycle

/-- … on a history that requests members of the cycle before and after sealing, in several orders. -/
example : (runOps exHC true { g := exCyc, c := Caches.empty }
      [.reqRaw 1, .reqRaw 0, .sealOp 1, .reqRaw 0, .reqRaw 1, .reqFull 1, .reqRaw 2, .reqFull 1]).2
    = [.reqRaw 1, .reqRaw 0, .sealOp 1, .reqRaw 0, .reqRaw 1, .reqFull 1, .reqRaw 2, .reqFull 1].map (specOut exHC exCyc) :=
  cache_coherent exHC exHC_order exCyc (DefaultsClosed.of_noDefaultRefsB (by decide)) _ (by decide)

/-- the answers are not degenerate: the three members of the cycle and the leaf have distinct identifiers,
    and the full identifier of node 1 (pre-task, init-task) differs from its raw identifier. -/
example : (rawId exHC exCyc 0 ≠ rawId exHC exCyc 1 ∧ rawId exHC exCyc 1 ≠ rawId exHC exCyc 2
    ∧ rawId exHC exCyc 2 ≠ rawId exHC exCyc 3 ∧ fullId exHC exCyc 1 ≠ rawId exHC exCyc 1) := by decide

/-! #### configuration-valued defaults

    `class B(Config): k: Param[int]`, `class C(Config): other: Param[C]; x: Param[B] = B(k=1)`.  Nodes 0 ⇄ 1 form a
    cycle; node 2 is the default object of `C.x`; node 0 holds a clone of it (node 3: the parameter is skipped),
    node 1 another value (node 4: the parameter is included).  Node 0 is sealed at the start. -/
def exDfl : Graph :=
  { nodes := [
      { typeId := [67], args := [{ name := [111], value := .ref 1 },
          { name := [120], required := false, default := some (.ref 2), value := .ref 3 }], sealed := true },
      { typeId := [67], args := [{ name := [111], value := .ref 0 },
          { name := [120], required := false, default := some (.ref 2), value := .ref 4 }] },
      { typeId := [66], args := [{ name := [107], value := .int 1 }] },
      { typeId := [66], args := [{ name := [107], value := .int 1 }] },
      { typeId := [66], args := [{ name := [107], value := .int 9 }] }] }

/-- the default object is well formed (rank 1 on the default object, 0 elsewhere) and does occur. -/
theorem exDfl_closed : DefaultsClosed exDfl :=
  DefaultsClosed.of_rank (rank := fun n => if n = 2 then 1 else 0) (DefaultsRanked.of_B (by decide))

/-- the same by the exact Boolean check (no rank needed). -/
example : DefaultsClosed exDfl := DefaultsClosed.of_B (by decide)

/-- the hypothesis excludes something: a default object that refers back to the configuration whose parameter
    it is the default of (node 0 has default object 1 for `x`, and node 1's parameter `o` is node 0). -/
example : ¬ DefaultsClosed { nodes := [
      { typeId := [67], args := [{ name := [120], required := false, default := some (.ref 1), value := .ref 2 }] },
      { typeId := [66], args := [{ name := [111], value := .ref 0 }] },
      { typeId := [66], args := [{ name := [111], value := .none }] }] } := by
  intro h
  exact h 0 1 (by decide) (by decide) (Or.inr ⟨[], .single (by unfold Edge; decide)⟩)

example : defaultRefs exDfl.mt (exDfl.node 0) = [2] ∧ OnCycle exDfl 0 :=
  ⟨by decide, ⟨[1], .cons (by unfold Edge; decide) (.single (by unfold Edge; decide))⟩⟩

/-- the general theorem on a history that seals and requests the members of the cycle in several orders … -/
example : (runOps exHC true { g := exDfl, c := Caches.empty }
      [.reqRaw 1, .reqRaw 0, .sealOp 1, .reqRaw 0, .reqRaw 1, .reqFull 1, .reqRaw 2, .reqRaw 3, .reqFull 0]).2
    = [.reqRaw 1, .reqRaw 0, .sealOp 1, .reqRaw 0, .reqRaw 1, .reqFull 1, .reqRaw 2, .reqRaw 3, .reqFull 0].map (specOut exHC exDfl) :=
  cache_coherent exHC exHC_order exDfl exDfl_closed _ (by decide)

/-- … and the default rule is really exercised: node 0 skips `x` (its value has the identifier of the default),
    node 1 does not, and the default object and its clone share their identifier. -/
example : rawId exHC exDfl 2 = rawId exHC exDfl 3 ∧ rawId exHC exDfl 2 ≠ rawId exHC exDfl 4
    ∧ rawId exHC exDfl 0 ≠ rawId exHC exDfl 1
    ∧ included (ceqAt exHC exDfl 5 [0]) exDfl.mt { name := [120], required := false, default := some (.ref 2), value := .ref 3 } = false
    ∧ included (ceqAt exHC exDfl 5 [1]) exDfl.mt { name := [120], required := false, default := some (.ref 2), value := .ref 4 } = true := by
  decide

/-- `flagStored = true` is necessary: on the same graph the history *seal, request 0, request 1* answers
    the specification with the flag stored and something else without it (finding F1). -/
example :
    outIds (runOps exHC true { g := exCyc, c := Caches.empty } [.sealOp 0, .reqRaw 0, .reqRaw 1]).2
      = [none, some (rawId exHC exCyc 0), some (rawId exHC exCyc 1)] ∧
    outIds (runOps exHC false { g := exCyc, c := Caches.empty } [.sealOp 0, .reqRaw 0, .reqRaw 1]).2
      ≠ [none, some (rawId exHC exCyc 0), some (rawId exHC exCyc 1)] := by decide

/-! ### `CycleInv` holds in a reachable, non-empty cache state of a graph with a real 2-cycle (audit round 8, item 6) -/

/-- two configurations referring to each other (`0 → 1 → 0`), node 0 sealed from the start. -/
def ex2Cyc : Graph :=
  { nodes := [{ typeId := [99], args := [{ name := [120], value := .ref 1 }], sealed := true },
              { typeId := [98], args := [{ name := [121], value := .ref 0 }, { name := [122], value := .int 4 }] }] }

example : OnCycle ex2Cyc 0 ∧ OnCycle ex2Cyc 1 :=
  ⟨⟨[1], .cons (by unfold Edge; decide) (.single (by unfold Edge; decide))⟩,
   ⟨[0], .cons (by unfold Edge; decide) (.single (by unfold Edge; decide))⟩⟩

/-- after *seal 1, request 0, request 1, request 0* the raw caches of both members of the cycle are filled, and the cache
    satisfies `CycleInv` (hypothesis of `cache_invariant_facts`). -/
example :
    let s := (runOps exHC true { g := ex2Cyc, c := Caches.empty } [.sealOp 1, .reqRaw 0, .reqRaw 1, .reqRaw 0]).1
    CycleInv exHC ex2Cyc s.c.raw ∧ (s.c.raw 0).isSome = true ∧ (s.c.raw 1).isSome = true := by
  intro s
  have hdc : DefaultsClosed ex2Cyc := DefaultsClosed.of_B (by decide)
  have hs : Good exHC ex2Cyc (CycleInv exHC ex2Cyc) s :=
    runOps_good exHC exHC_order ex2Cyc _ (rawSound_general exHC ex2Cyc hdc) [.sealOp 1, .reqRaw 0, .reqRaw 1, .reqRaw 0] _
      (by decide) (good_empty exHC ex2Cyc _ (fun _ _ _ h => by cases h))
  exact ⟨hs.2.1, by decide, by decide⟩

end XpmVerif.C01Cache
