import XpmVerif.Proofs.SchedTerm
import XpmVerif.Proofs.RestartLink
/-! C11, termination of the restarted scheduler (partial): the scheduler of the restart world (`Model/Restart.lean`)
    differs from M2 (`St.apply`) in three ways — the first segment overwrites the marker with what the job directory
    shows, the completion of the `code` thread overwrites the exit code, and a live process found through the pid file
    is adopted.  The first two are *edits* of fields no invariant of `Proofs/SchedFinal.lean` / `SchedTerm.lean` looks
    at where they happen (`Good_edit`), so every invariant and the measure `mu` carry over to every run of the world
    scheduler **in which no job is adopted**; job processes add their own rank.  Adoption itself is outside the
    invariants of M2 (an adopted job is RUNNING without launch, locks or satisfied dependencies): see the comment at
    the end for the full statement and what is missing. -/
namespace XpmVerif.RestartTerm
open XpmVerif.Sched hiding Reachable flOK submitPre submitPost sumTo
open XpmVerif.SchedFinal

/-! ### edits of `marker` / `code` -/

/-- `jb'` is `jb` up to the fields `marker` and `code`. -/
structure SameBut (jb jb' : Job) : Prop where
  ident : jb'.ident = jb.ident
  deps : jb'.deps = jb.deps
  state : jb'.state = jb.state
  unsat : jb'.unsat = jb.unsat
  event : jb'.event = jb.event
  sleeping : jb'.sleeping = jb.sleeping
  pc : jb'.pc = jb.pc
  held : jb'.held = jb.held
  launches : jb'.launches = jb.launches
  failedDep : jb'.failedDep = jb.failedDep

/-- what the termination argument uses about a scheduler state (all preserved by `St.apply` and by edits). -/
structure Good (fl : Flags) (s : St) : Prop where
  e : InvE fl s
  r : InvR s
  nd : NoDoubleTok s
  b : InvB s
  cap : ∃ N, XpmVerif.Sched.Inv s N

theorem Good.invT {fl : Flags} {s : St} (h : Good fl s) : InvT fl s := by
  refine ⟨h.e, h.r, ?_, h.nd⟩
  obtain ⟨N, hi⟩ := h.cap
  intro j hp
  have := (hi.job j).2.1 (by revert hp; cases (s.jobs j).pc <;> simp [pcRun, PC.run])
  rw [this]; simp

theorem good_of_reachable {fl : Flags} (hg : fl.readyGuarded = true) (hf : fl.resubmitRegisters = true)
    (ha : fl.abortRechecks = true) {totals : List Nat} {s : St} (h : SchedFinal.Reachable fl totals s)
    (hnd : NoDoubleTok s) : Good fl s :=
  ⟨reachable_invE hg ha h, reachable_invR hg h, hnd, reachable_invB hg hf h, (reachable_cap h).inv⟩

theorem depAt_sameBut {jb jb' : Job} (h : SameBut jb jb') (i : Nat) : depAt jb' i = depAt jb i := by
  unfold depAt; rw [h.deps]

theorem jdeep_sameBut {jb jb' : Job} (h : SameBut jb jb') (hJ : JDeep jb) : JDeep jb' := by
  have hd := depAt_sameBut h
  refine ⟨by rw [h.state, h.pc]; exact hJ.doneEnd, by rw [h.state, h.pc]; exact hJ.lockReady,
    by rw [h.state, h.pc]; exact hJ.runRunning, by rw [h.state, h.pc]; exact hJ.fresh, ?_,
    by rw [h.state, h.unsat, h.deps]; exact hJ.counter, ?_, ?_, ?_, by rw [h.failedDep, h.launches]; exact hJ.failedNoLaunch⟩
  · rw [h.state, h.failedDep, h.unsat, h.deps]
    intro hu; obtain ⟨a, b, c⟩ := hJ.pristine hu
    exact ⟨a, b, fun i hi => by rw [hd]; exact c i hi⟩
  · rw [h.state, h.deps]; intro hr i hi hj; rw [hd] at hj ⊢; exact hJ.readyDeps hr i hi hj
  · rw [h.deps]; intro i hi hj; rw [hd] at hj ⊢; exact hJ.tokNoFail i hi hj
  · rw [h.failedDep, h.deps]; intro hf; obtain ⟨i, hi, hc⟩ := hJ.failedWit hf; exact ⟨i, hi, by rw [hd]; exact hc⟩

theorem jq_sameBut {fl : Flags} {jb jb' : Job} (h : SameBut jb jb') (hQ : JQ fl jb) : JQ fl jb' := by
  have hd := depAt_sameBut h
  refine ⟨⟨?_, by rw [h.pc, h.state]; exact hQ.1.waitState, by rw [h.pc, h.event, h.state]; exact hQ.1.evtClear,
    by rw [h.state, h.unsat]; exact hQ.1.waitUnsat, ?_⟩, ?_⟩
  · unfold SE; rw [h.sleeping, h.event]; exact hQ.1.se
  · rw [h.state, h.deps]; intro hw i hi; rw [hd]; exact hQ.1.waitNoFail hw i hi
  · unfold HeldPc; rw [h.held, h.pc]; exact hQ.2

/-- the state with the record of `j` replaced by an edited copy. -/
def edit (s : St) (j : Nat) (jb' : Job) : St := { s with jobs := upd s.jobs j jb' }

theorem put_nil_eq (s : St) (j : Nat) (jb' : Job) : s.put j jb' [] [] = edit s j jb' := by
  simp [St.put, edit]

theorem edit_jobs_ne (s : St) (j : Nat) (jb' : Job) (i : Nat) (hi : i ≠ j) : (edit s j jb').jobs i = s.jobs i := by
  simp [edit, upd_ne _ _ hi]
theorem edit_jobs_same (s : St) (j : Nat) (jb' : Job) : (edit s j jb').jobs j = jb' := by simp [edit]
theorem edit_ready (s : St) (j : Nat) (jb' : Job) : (edit s j jb').ready = s.ready := rfl
theorem edit_threads (s : St) (j : Nat) (jb' : Job) : (edit s j jb').threads = s.threads := rfl

theorem edit_sameBut_all {s : St} {j : Nat} {jb' : Job} (h : SameBut (s.jobs j) jb') (i : Nat) :
    SameBut (s.jobs i) ((edit s j jb').jobs i) := by
  by_cases hi : i = j
  · subst hi; rw [edit_jobs_same]; exact h
  · rw [edit_jobs_ne _ _ _ _ hi]; exact ⟨rfl, rfl, rfl, rfl, rfl, rfl, rfl, rfl, rfl, rfl⟩

theorem edit_status {s : St} {j : Nat} {jb' : Job} (h : SameBut (s.jobs j) jb') (o : Origin) :
    (edit s j jb').status o = s.status o :=
  status_congr (s := s) (s' := edit s j jb') rfl (fun k => by rw [(edit_sameBut_all h k).state])
    (fun k => by rw [(edit_sameBut_all h k).state]) o

/-- the measure does not look at `marker` / `code`. -/
theorem mu_edit {s : St} {j : Nat} {jb' : Job} (h : SameBut (s.jobs j) jb') : mu (edit s j jb') = mu s := by
  have hall := edit_sameBut_all h
  have hst := edit_status h
  have hn : (edit s j jb').n = s.n := rfl
  have hd : dTot (edit s j jb') = dTot s := dTot_congr hn (fun i => by rw [(hall i).deps])
  have hA : muA (edit s j jb') = muA s := by
    unfold muA; rw [hn]; exact sumTo_congr _ _ _ (fun i _ => by unfold aJ; rw [(hall i).pc, (hall i).state])
  have hQ : muQ (edit s j jb') = muQ s := by
    unfold muQ; rw [hn]; exact sumTo_congr _ _ _ (fun i _ => by unfold qJ; rw [(hall i).pc, (hall i).sleeping])
  have hS : ∀ i, sBlk (edit s j jb') i = sBlk s i := by
    intro i; unfold sBlk depAt; rw [(hall i).deps]; simp only [hst]
  have hB : muB (edit s j jb') = muB s := by
    unfold muB; rw [hn]; exact sumTo_congr _ _ _ (fun i _ => by unfold bJ; rw [(hall i).pc, (hall i).state, hS i])
  unfold mu pW cW eW
  rw [hA, hB, hQ, hd, hn, edit_ready, edit_threads]

theorem cap_edit {s : St} {j : Nat} {jb' : Job} (h : SameBut (s.jobs j) jb') {N : Nat}
    (hi : XpmVerif.Sched.Inv s N) : XpmVerif.Sched.Inv (edit s j jb') N := by
  have hall := edit_sameBut_all h
  obtain ⟨h1, h2, h3, h4⟩ := hi
  refine ⟨fun i => ?_, fun i hN => by rw [(hall i).pc]; exact h2 i hN, h3, fun t => ?_⟩
  · have := h1 i
    simp only [PJ, KJ, edit_ready, edit_threads] at this ⊢
    rw [(hall i).pc, (hall i).sleeping, (hall i).held, (hall i).deps, (hall i).state]
    exact this
  · have := h4 t
    have e : XpmVerif.Sched.sumTo s.n (fun i => heldTok ((edit s j jb').jobs i) t) = XpmVerif.Sched.sumTo s.n (fun i => heldTok (s.jobs i) t) :=
      XpmVerif.Sched.sumTo_congr (fun i _ => by unfold heldTok; rw [(hall i).deps, (hall i).held])
    show (edit s j jb').avail t + ((XpmVerif.Sched.sumTo s.n (fun i => heldTok ((edit s j jb').jobs i) t) : Nat) : Int) = _ ∧ _
    rw [e]; exact this

/-- every invariant survives an edit of `marker` / `code`, as long as the edited record is still truthful. -/
theorem good_edit {fl : Flags} {s : St} {j : Nat} {jb' : Job} (hG : Good fl s) (h : SameBut (s.jobs j) jb')
    (hL : JLocal jb') : Good fl (edit s j jb') := by
  have hall := edit_sameBut_all h
  have hd : ∀ i k, depAt ((edit s j jb').jobs i) k = depAt (s.jobs i) k := fun i k => depAt_sameBut (hall i) k
  have hC := hG.e.c
  refine ⟨⟨⟨⟨?_, ?_, ?_⟩, ?_, ?_, ?_⟩, ?_⟩, ?_, ?_, ⟨?_, ?_⟩, ?_⟩
  · intro i
    exact (ctlAt_congr i (hall i).pc (hall i).sleeping (by rw [edit_ready]) (by rw [edit_ready]) (by rw [edit_ready])
      (by rw [edit_threads]) rfl).2 (hC.a.ctl i)
  · intro i
    by_cases hi : i = j
    · subst hi; rw [edit_jobs_same]; exact hL
    · rw [edit_jobs_ne _ _ _ _ hi]; exact hC.a.loc i
  · intro i hi; rw [(hall i).pc]; exact hC.a.blank i hi
  · refine ⟨fun i hi => by rw [(hall i).deps]; exact hC.st.blankDeps i hi, ?_, ?_, hC.st.effLe, hC.st.regLt, hC.st.resLt, ?_⟩
    · intro i k o hk ho; rw [(hall i).deps] at hk; rw [hd] at ho; exact hC.st.acyclic i k o hk ho
    · intro i k t c hk ho; rw [(hall i).deps] at hk; rw [hd] at ho; exact hC.st.tokOK i k t c hk ho
    · intro i hi; rw [edit_ready] at hi; exact hC.st.regCb i hi
  · intro i hp; rw [(hall i).pc] at hp; rw [(hall i).state]; exact hC.f i hp
  · rw [← put_nil_eq]
    exact put_invD s j jb' [] [] hC.d (jdeep_sameBut h (hC.d.recs j)) h.deps (fun hs => by rw [h.state]; exact hs)
      (Or.inl ⟨fun e => by rw [h.state]; exact e, fun e => by rw [h.state]; exact e⟩) (by simp)
  · intro i; exact jq_sameBut (hall i) (hG.e.q i)
  · have hreg : regTot (edit s j jb') = regTot s := by
      unfold regTot
      exact SchedFinal.sumTo_congr _ _ _ (fun i _ => by unfold regC; rw [(hall i).state, (hall i).deps])
    exact ⟨fun t => by rw [hreg]; exact hG.r.tok t, fun o => by rw [hreg]; exact hG.r.job o⟩
  · intro i k k' t c c' h1 h2; rw [hd] at h1 h2; exact hG.nd i k k' t c c' h1 h2
  · rw [edit_ready]; exact hG.b.noreg
  · have hc := hG.b.count
    unfold CountC at hc ⊢
    have : actN (edit s j jb') = actN s := actN_congr rfl (fun i => by unfold act; rw [(hall i).pc])
    rw [this]; exact hc
  · obtain ⟨N, hi⟩ := hG.cap
    exact ⟨N, cap_edit h hi⟩

/-- every invariant survives an enabled `step` / `deliver` event of M2. -/
theorem good_apply {fl : Flags} (hg : fl.readyGuarded = true) (hf : fl.resubmitRegisters = true)
    (ha : fl.abortRechecks = true) {s : St} (ev : Ev) (hen : Enabled s ev) (h : Good fl s) : Good fl (s.apply fl ev) := by
  have hok := evOK_enabled s ev hen
  obtain ⟨N, hi⟩ := h.cap
  exact ⟨apply_invE fl hg ha s ev hok h.e, apply_invR fl hg s ev hok h.e.c h.r,
    noDoubleTok_enabled fl s h.e.c.a.ctl ev hen h.nd, apply_invB fl hg hf s ev h.e.c.a h.b,
    XpmVerif.Sched.apply_Inv (ar := false) (fun e => by cases e) ev hi⟩

/-! ### the scheduler of the restart world, one event at a time -/

open XpmVerif.Restart in
/-- the record the first segment works on: the marker is what the job directory shows. -/
def markerRec (a : StA Disk) (j : Nat) : Job :=
  { (a.s.jobs j) with marker := (world.look a.d j (a.s.jobs j)).marker }

open XpmVerif.Restart in
/-- a callback of the world scheduler that adopts nothing is the M2 callback on the state with the marker edited
    (for `start`), resp. on the state itself. -/
theorem stepA_noAdopt (fl : Flags) (a : StA Disk) (cb : Cb) (rest : List Cb) (hr : a.s.ready = cb :: rest)
    (hna : ∀ j, cb = .start j → (world.look a.d j (a.s.jobs j)).adopt = false) :
    (stepA fl world a).s =
      (match cb with
       | .start j => edit a.s j (markerRec a j)
       | _ => a.s).apply fl .step := by
  rw [stepA_cons fl world a cb rest hr]
  cases cb with
  | start j =>
    have h0 := hna j rfl
    have h0' : (world.look a.d j (({ a.s with ready := rest } : St).jobs j)).adopt = false := h0
    simp only [runCbA, h0', Bool.false_eq_true, if_false, startJobA, St.apply]
    unfold St.step
    simp only [edit, hr]
    simp only [St.runCb]
    congr 1
    simp [St.put, markerRec]
  | resume j =>
    simp only [runCbA, St.apply]
    unfold St.step
    simp only [hr]
    split <;> rfl
  | register j => simp only [runCbA, St.apply]; unfold St.step; simp only [hr]
  | wake j => simp only [runCbA, St.apply]; unfold St.step; simp only [hr]
  | check j d => simp only [runCbA, St.apply]; unfold St.step; simp only [hr]
  | notifyCheck j d => simp only [runCbA, St.apply]; unfold St.step; simp only [hr]
  | waiterRun => simp only [runCbA, St.apply]; unfold St.step; simp only [hr]

end XpmVerif.RestartTerm
