"""C09 (file-based, multi-scheduler part) — tokens are given back and waiting jobs run when several scheduler
processes share a token directory: same engine and model as c08files, with the give-back / wake-up monitors,
the fault classes (scheduler dropped while holding, reader between create and write) and two scenarios on the
real code outside the engine: the real watchdog observer meeting a half-written file (F6), and a token file
left empty by a killed writer.

Chained from c09.py:   MODULES += c09files.MODULES ; c09files.correspond(ctx) ; c09files.search(ctx)"""
import json
import multiprocessing as mp
import os
import subprocess
import sys
import tempfile

from .. import common
from . import c08files

PROP = "C09"
MODULES = ["XpmVerif.Properties.C09Files"]

_OBSERVER_SCRIPT = r'''
import sys, time, tempfile, logging, shutil, json
from pathlib import Path
logging.disable(logging.CRITICAL)
from experimaestro.tokens import CounterToken, TokenFile
from experimaestro.ipc import ipcom
TokenFile.watch = lambda self: None
d = Path(tempfile.mkdtemp(prefix="xv-f6-"))
out = {}
try:
    T = CounterToken("t", d / "tok", 2)
    obs = ipcom().observer
    time.sleep(0.3)
    out["alive_before"] = obs.is_alive()
    fp = (d / "tok" / "id7.token").open("wt")      # first half of TokenFile.create in another process
    time.sleep(0.6)
    out["alive_half_written"] = obs.is_alive()
    fp.write("1\n/x/id7\n"); fp.close()              # second half
    time.sleep(0.4)
    out["cached_after_write"] = "id7.token" in T.cache
    (d / "tok" / "id7.token").unlink()               # the other process releases
    time.sleep(0.4)
    out["cache_after_release"] = sorted(T.cache)
    out["alive_end"] = obs.is_alive()
finally:
    shutil.rmtree(d, ignore_errors=True)
print(json.dumps(out))
'''

_KILLED_WRITER_SCRIPT = r'''
import tempfile, logging, shutil, json
from pathlib import Path
logging.disable(logging.CRITICAL)
import experimaestro.tokens as tk
tk.ipcom = lambda: type("I", (), {"fswatch": lambda *a, **k: None})()
tk.TokenFile.watch = lambda self: None
d = Path(tempfile.mkdtemp(prefix="xv-kw-"))
out = {}
try:
    T = tk.CounterToken("t", d / "tok", 2)
    (d / "tok" / "id7.token").touch()    # a scheduler was killed between open("wt") and write() of TokenFile.create
    try:
        T2 = tk.CounterToken("t", d / "tok", 2)
        out["constructor"] = "ok"
    except Exception as e:
        out["constructor"] = type(e).__name__
    class J:
        identifier = "id9"
        basepath = Path("/x/id9")
    dep = T.dependency(1)
    dep.target = J()
    try:
        T.acquire(dep)
        out["acquire"] = "ok"
    except Exception as e:
        out["acquire"] = type(e).__name__
    out["files"] = sorted(p.name for p in (d / "tok").glob("*.token"))
finally:
    shutil.rmtree(d, ignore_errors=True)
print(json.dumps(out))
'''


def _script(src, timeout=60):
    env = dict(os.environ, PYTHONWARNINGS="ignore")
    p = subprocess.run([sys.executable, "-c", src], capture_output=True, text=True, timeout=timeout, env=env)
    for line in reversed(p.stdout.strip().splitlines()):
        try:
            return json.loads(line)
        except json.JSONDecodeError:
            continue
    raise RuntimeError(f"scenario script failed: rc={p.returncode} {p.stderr[-400:]}")


def real_observer_scenario(ctx):
    """the real watchdog Observer + a real CounterToken: another process creates a token file and writes it 0.6 s later"""
    o = _script(_OBSERVER_SCRIPT)
    ctx.count("ft_real_observer_survives_half_written_file", o.get("alive_half_written"))
    ctx.evaluations += 1
    if not o.get("alive_before"):
        raise RuntimeError(f"watchdog observer did not start: {o}")
    if not o.get("alive_half_written") or not o.get("alive_end"):
        ctx.monitor_fail("watcher-dies-on-half-written-token-file",
                         f"real watchdog observer: a token file created by another process and written 0.6 s later kills the dispatcher thread "
                         f"(on_created parses the empty file: ValueError); afterwards the instance misses the release: {o}",
                         {"scenario": "real-observer", "observed": o})
    elif o.get("cache_after_release"):
        ctx.monitor_fail("release-not-seen-by-live-observer", f"the observer is alive but the foreign release left {o['cache_after_release']} in the cache",
                         {"scenario": "real-observer", "observed": o})
    return o


def killed_writer_scenario(ctx):
    o = _script(_KILLED_WRITER_SCRIPT)
    ctx.evaluations += 1
    ctx.count("ft_killed_writer_recount", f"constructor={o.get('constructor')} acquire={o.get('acquire')}")
    if o.get("constructor") != "ok" or o.get("acquire") != "ok":
        ctx.monitor_fail("empty-token-file-blocks-every-recount",
                         f"a token file left empty by a scheduler killed between open() and write() makes every later recount raise: "
                         f"CounterToken(...) -> {o.get('constructor')}, acquire -> {o.get('acquire')}; the capacity is never usable again "
                         f"until the file is removed by hand: {o}",
                         {"scenario": "killed-writer", "observed": o})
    return o


def prove(ctx):
    prev = ctx.proof
    pr = common.check_proofs(ctx, MODULES)
    if prev is not None:
        pr.obligations += prev.obligations
        pr.discharged += prev.discharged
        pr.failures = prev.failures + pr.failures
        pr.axioms = {**prev.axioms, **pr.axioms}


def correspond(ctx):
    c08files.run(ctx, PROP, 320, 6000)
    if not ctx.quick():
        c08files.real_runs(ctx, PROP)
    ctx.extra_cov["file_token_scenarios"] = {"real_observer": real_observer_scenario(ctx), "killed_writer": killed_writer_scenario(ctx)}


def search(ctx):
    c08files.search_run(ctx, PROP)


def run_witness(ctx, finding):
    w = finding.get("witness") or {}
    if w.get("scenario") == "real-observer":
        real_observer_scenario(ctx)
        return True
    if w.get("scenario") == "killed-writer":
        killed_writer_scenario(ctx)
        return True
    return c08files.witness_run(ctx, PROP, finding)


def replay(ctx, obj):
    rc = c08files.replay_run(ctx, PROP, obj)
    for f in obj.get("failures", []):
        sc = f["case"].get("scenario")
        if sc in ("real-observer", "killed-writer"):
            sub = common.Ctx(PROP, ctx.tier, ctx.seed)
            (real_observer_scenario if sc == "real-observer" else killed_writer_scenario)(sub)
            print("replay:", [m["key"] for m in sub.monitor_failures] or "no failure on this tree")
            if sub.monitor_failures:
                rc = 1
                print(f"VIOLATION property={PROP} replay=(replayed)")
    return rc
