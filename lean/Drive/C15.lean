import XpmVerif.Basic.JsonUtil
import XpmVerif.Model.Validate
import XpmVerif.Model.ValidateMro
import XpmVerif.Model.ValidateX
/-! Line-protocol driver for M6/validate (C15).  `lake env lean --run Drive/C15.lean < ops.jsonl` -/
open Lean XpmVerif XpmVerif.J XpmVerif.Validate

instance : Inhabited Ty := ⟨.any⟩
instance : Inhabited PyVal := ⟨.none⟩

def intS (j : Json) : Int := (str j).toInt?.getD 0
def natS (j : Json) : Nat := (str j).toNat?.getD 0

def implOf (j : Json) : Impl :=
  { unionDictNone := boolF j "unionDictNone", enumAssert := boolF j "enumAssert",
    cfgNoneOk := boolF j "cfgNoneOk", deepValidate := boolF j "deepValidate", enumNameFails := boolF j "enumNameFails",
    resetOnFail := boolF j "resetOnFail" }

partial def tyOf (j : Json) : Ty :=
  match strF j "k" with
  | "bool" => .bool | "int" => .int | "float" => .float | "str" => .str | "path" => .path
  | "enum" => .enum (natF j "c")
  | "cfg" => .cfg (natF j "c")
  | "opt" => .opt (tyOf (fld j "t"))
  | "list" => .list (tyOf (fld j "t"))
  | "dict" => .dict (tyOf (fld j "t"))
  | "union" => .union ((arrF j "ts").map tyOf)
  | _ => .any

def flOf (j : Json) : Fl :=
  match strF j "k" with
  | "nan" => .nan
  | "inf" => .inf (boolF j "neg")
  | _ => .fin (boolF j "neg") (natS (fld j "m")) (intS (fld j "e"))

def keyOf (j : Json) : Key :=
  match strF j "k" with
  | "str" => .str (strF j "s")
  | "int" => .int (intS (fld j "i"))
  | _ => .other (strF j "tag")

partial def valOf (j : Json) : PyVal :=
  match strF j "k" with
  | "none" => .none
  | "bool" => .bool (boolF j "b")
  | "int" => .int (intS (fld j "i"))
  | "float" => .float (flOf (fld j "f"))
  | "str" => .str (strF j "s")
  | "path" => .path (strF j "s")
  | "enum" => .enumMember (natF j "c") (strF j "n")
  | "list" => .list ((arrF j "vs").map valOf)
  | "tuple" => .tuple ((arrF j "vs").map valOf)
  | "dict" => .dict ((arrF j "ks").map keyOf) ((arrF j "vs").map valOf)
  | "config" => .config ((arrF j "mro").map nat) (natF j "id")
  | _ => .other (strF j "tag") (boolF j "truthy")

def flJ : Fl → Json
  | .nan => Json.mkObj [("k", "nan")]
  | .inf n => Json.mkObj [("k", "inf"), ("neg", n)]
  | .fin n m e => Json.mkObj [("k", "fin"), ("neg", n), ("m", toString m), ("e", toString e)]

def keyJ : Key → Json
  | .str s => Json.mkObj [("k", "str"), ("s", s)]
  | .int i => Json.mkObj [("k", "int"), ("i", toString i)]
  | .other t => Json.mkObj [("k", "other"), ("tag", t)]

partial def valJ : PyVal → Json
  | .none => Json.mkObj [("k", "none")]
  | .bool b => Json.mkObj [("k", "bool"), ("b", b)]
  | .int i => Json.mkObj [("k", "int"), ("i", toString i)]
  | .float f => Json.mkObj [("k", "float"), ("f", flJ f)]
  | .str s => Json.mkObj [("k", "str"), ("s", s)]
  | .path s => Json.mkObj [("k", "path"), ("s", s)]
  | .enumMember c n => Json.mkObj [("k", "enum"), ("c", c), ("n", n)]
  | .list vs => Json.mkObj [("k", "list"), ("vs", Json.arr (vs.map valJ).toArray)]
  | .tuple vs => Json.mkObj [("k", "tuple"), ("vs", Json.arr (vs.map valJ).toArray)]
  | .dict ks vs => Json.mkObj [("k", "dict"), ("ks", Json.arr (ks.map keyJ).toArray), ("vs", Json.arr (vs.map valJ).toArray)]
  | .config mro id => Json.mkObj [("k", "config"), ("mro", Json.arr (mro.map (fun (n : Nat) => (n : Json))).toArray), ("id", id)]
  | .other t b => Json.mkObj [("k", "other"), ("tag", t), ("truthy", b)]

def errJ : Err → Json
  | .invalid => "invalid" | .assertion => "assertion" | .overflow => "overflow" | .attribute => "attribute"

def argOf (j : Json) : ArgDecl :=
  { ty := tyOf (fld j "ty"), hasDefault := boolF j "default", generator := boolF j "generator", constant := boolF j "constant" }

def optVal (j : Json) : Option PyVal := if isNull j then none else some (valOf j)

def nodeOf (j : Json) : Node :=
  { cls := natF j "cls", vals := (arrF j "vals").map optVal, pre := (arrF j "pre").map nat, init := (arrF j "init").map nat }

def graphOf (j : Json) : Graph :=
  { classes := (arrF j "classes").map (fun c => (arr c).map argOf), nodes := (arrF j "nodes").map nodeOf,
    tasks := (arrF j "tasks").map nat }

def classDeclOf (j : Json) : ClassDecl :=
  { bases := (arrF j "bases").map nat, mro := (arrF j "mro").map nat, own := (arrF j "own").map (fun a => (strF a "name", argOf a)) }

def opOf (j : Json) : HOp :=
  if strF j "o" == "submit" then .submit (natF j "n") else .assign (natF j "n") (natF j "k") (valOf (fld j "v"))

def houtJ : HOut → Json
  | .accepted => "accepted" | .rejected o => Json.str ("rejected-" ++ (match o with | .ok => "ok" | .missing => "missing" | .fuel => "fuel"))
  | .already => "already" | .notTask => "not-task" | .stored => "stored" | .readonly => "readonly" | .invalid => "invalid"
  | .noSuchNode => "no-such-node"

def natsJ (l : List Nat) : Json := Json.arr ((l.mergeSort (· ≤ ·)).map (fun (n : Nat) => (n : Json))).toArray

/-- run a history, printing for every operation the outcome and the state after it -/
def runHist (I : Impl) (H : Hooks) : HState → List HOp → List Json
  | _, [] => []
  | s, op :: ops =>
    let r := hstepX I (fun _ _ => none) H s op
    Json.mkObj [("out", houtJ r.1), ("registry", r.2.registry.length), ("flags", natsJ r.2.flags.eraseDups),
                ("job", natsJ r.2.jobAttr)] :: runHist I H r.2 ops

def outJ : Out → Json
  | .ok => "ok" | .missing => "missing" | .fuel => "fuel"

/-- is a node with a missing required value reachable from `root` along `S` (bounded search, driver only) -/
partial def reachMissing (g : Graph) (S : Nat → List Nat) (todo : List Nat) (seen : List Nat) : Bool :=
  match todo with
  | [] => false
  | n :: r =>
    if seen.contains n then reachMissing g S r seen
    else if nodeMissing g n then true
    else reachMissing g S (S n ++ r) (n :: seen)

def step (_ : Unit) (j : Json) : Unit × Json :=
  let I := implOf (fld j "impl")
  let out :=
    match strF j "op" with
    | "set" =>
      let a := argOf (fld j "arg")
      let v := valOf (fld j "v")
      let conf := conforms a.ty v
      let ch : Option Chk := if isNull (fld (fld j "arg") "choices") then none else some (.choices ((arrF (fld j "arg") "choices").map valOf))
      (match setArgX I { decl := a, checker := ch } v with
       | .ok w => Json.mkObj [("r", "ok"), ("v", valJ w), ("conf_in", conf), ("conf_out", conforms a.ty w || (!a.required && (match w with | .none => true | _ => false))),
                              ("eq", pyEq w v)]
       | .error e => Json.mkObj [("r", "err"), ("e", errJ e), ("conf_in", conf)])
    | "decl" => Json.mkObj [("ok", (tyOf (fld j "ty")).declarable)]
    | "graph" =>
      let g := graphOf j
      let root := natF j "root"
      let hs := (arrF j "hooks").map (fun h => ((arr h).getD 0 Json.null |> nat, (arr h).getD 1 Json.null |> nat, valOf ((arr h).getD 2 Json.null)))
      let H : Hooks := fun c vals => hs.any (fun h => h.1 == c && (match vals[h.2.1]? with | some (some v) => pyEq v h.2.2 | _ => false))
      let (o, vis) := validateFromX I H g [] root
      let (o2, vis2) := validateFromX I H g vis root
      let (so, s) := submitX I H g {} root
      Json.mkObj [("validate", outJ o), ("again", outJ o2), ("flags", Json.arr ((vis.mergeSort (· ≤ ·)).map (fun (n : Nat) => (n : Json))).toArray),
        ("flags2", vis2.length), ("submit", outJ so), ("jobs", s.jobs.length),
        ("missing_deep", reachMissing g (allSuccs g) [root] []),
        ("missing_walk", reachMissing g (succs I g) [root] [])]
    | "lib" =>
      let lib : Lib := (arrF j "classes").map classDeclOf
      let l := if strF j "lin" == "mro" then Lin.mro else Lin.dfs
      Json.mkObj [("tables", Json.arr ((List.range lib.length).map (fun c =>
        Json.arr ((argTable lib l c).map (fun e => Json.arr #[Json.str e.1, (e.2.1 : Json), (e.2.2.required : Json)])).toArray)).toArray)]
    | "history" =>
      let s0 : HState := { g := graphOf j }
      let hs := (arrF j "hooks").map (fun h => ((arr h).getD 0 Json.null |> nat, (arr h).getD 1 Json.null |> nat, valOf ((arr h).getD 2 Json.null)))
      let H : Hooks := fun c vals => hs.any (fun h => h.1 == c && (match vals[h.2.1]? with | some (some v) => pyEq v h.2.2 | _ => false))
      Json.mkObj [("steps", Json.arr (runHist I H s0 ((arrF j "ops").map opOf)).toArray)]
    | op => Json.mkObj [("error", Json.str s!"bad-op {op}")]
  ((), out)

def main : IO Unit := J.loop step ()
