import XpmVerif.Model.IdentImpl
/-! M1 (guards of the mutators): the *effect sequences* of every public way to change a configuration, as data
    (`Generated/SealSrc.lean` is written from `core/objects.py` / `core/types.py` by `harness/xv/translate/sealsrc.py`),
    their interpreter, and the variant `stepSrc` of `Ident.step` whose three mutators are interpreted sequences. -/
namespace XpmVerif.Seal
open XpmVerif.Ident

/-- how the sealed test rejects: an exception (`raise`) or an `assert` (void under `python -O`). -/
inductive How where
  | raise
  | assert
  deriving Repr, DecidableEq

/-- what a statement writes. -/
inductive Field where
  | value          -- `self.values[k] = …`
  | metaFlag       -- `self._meta = …`
  | preTasks       -- `….pre_tasks.extend(…)`
  | dependencies   -- `self.dependencies.extend(…)`
  | tags           -- `self._tags[name] = …`
  | pyattr         -- `setattr(self.pyobject, k, v)` (not a parameter)
  | sealedFlag     -- `config.__xpm__._sealed = …`
  deriving Repr, DecidableEq

/-- the mutators and entry points. -/
inductive Mut where
  | set | setMeta | addPretasks | addPretasksFrom | addDependencies | addDependenciesCfg | setattr | addtag | tag
  | other (name : String)          -- any other method of `ConfigInformation` / `TypeConfig` that has effects
  deriving Repr, DecidableEq

/-- one effect, in source order. -/
inductive Eff where
  /-- `if self._sealed [and not e₁ …]: raise` / `assert [e₁ or …] not self._sealed`: rejected when sealed unless one of
      the named escape conditions holds. -/
  | checkSealed (how : How) (escapes : List String)
  | write (f : Field)
  | resetIdentifiers                      -- `_raw_identifier` / `_full_identifier` / `_identifier` := None
  | validate                              -- `argument.validate(v)`
  | delegate (m : Mut) (bypass : Bool)    -- call of another mutator (`bypass=True` passed or not)
  deriving Repr, DecidableEq

/-- what an interpreted sequence did: the writes performed (identifier reset as `none`) and whether it was rejected. -/
structure Outcome where
  writes : List (Option Field)
  rejected : Bool
  deriving Repr, DecidableEq

/-- interpreter.  `ae`: asserts enabled; `esc`: which escape conditions hold (`"bypass"` is bound by `delegate`);
    a rejection stops the sequence, the writes made before it stay.  `fuel` bounds the number of effects run. -/
def interp (ae : Bool) (tbl : Mut → List Eff) (sealed : Bool) : Nat → (String → Bool) → List Eff → Outcome
  | 0, _, _ => ⟨[], false⟩                -- out of fuel (never with the fuel used below: claims demand exact outcomes)
  | _ + 1, _, [] => ⟨[], false⟩
  | fuel + 1, esc, .checkSealed how es :: r =>
    if sealed && !(es.any esc) && (how == .raise || ae) then ⟨[], true⟩ else interp ae tbl sealed fuel esc r
  | fuel + 1, esc, .write f :: r => let o := interp ae tbl sealed fuel esc r; ⟨some f :: o.writes, o.rejected⟩
  | fuel + 1, esc, .resetIdentifiers :: r => let o := interp ae tbl sealed fuel esc r; ⟨none :: o.writes, o.rejected⟩
  | fuel + 1, esc, .validate :: r => interp ae tbl sealed fuel esc r
  | fuel + 1, esc, .delegate m b :: r =>
    let o := interp ae tbl sealed fuel (fun x => if x = "bypass" then b else esc x) (tbl m)
    if o.rejected then o else
    let o' := interp ae tbl sealed fuel esc r
    ⟨o.writes ++ o'.writes, o'.rejected⟩

/-- no escape condition holds (a public call: `bypass` not given, an ordinary — not "loaded" — configuration …). -/
def noEscape : String → Bool := fun _ => false

/-- `identifiers()`: when are the caches written and when is the identifier recomputed. -/
structure IdentCache where
  rawStoredOnlyWhenSealed : Bool
  fullStoredOnlyWhenSealed : Bool
  rawRecomputedWhenUnsealed : Bool
  fullRecomputedWhenUnsealed : Bool
  deriving Repr, DecidableEq

/-- what the `Sealer` walk does per node. -/
structure SealerPlan where
  descendsOnlyUnsealed : Bool      -- `preprocess` returns `not config.__xpm__._sealed`
  post : List Eff                  -- `postprocess`, in order
  deriving Repr, DecidableEq

/-! ### the model's mutators as interpreted sequences -/

def clearCaches {D : Type} (c : Caches D) (n : Nat) : Caches D :=
  { raw := updF c.raw n none, full := updF c.full n none }

/-- effect of one write of the sequence on the model state; `act` is the write the operation asks for. -/
def applyWrite {D : Type} (own : Field) (act : Graph → Graph) (n : Nat) (s : St D) : Option Field → St D
  | none => { s with c := clearCaches s.c n }
  | some f => if f = own then { s with g := act s.g } else s

def runMut {D : Type} (ae : Bool) (tbl : Mut → List Eff) (m : Mut) (own : Field) (act : Graph → Graph) (n : Nat) (s : St D) :
    St D × Out D :=
  let o := interp ae tbl (s.g.node n).sealed 16 noEscape (tbl m)
  (o.writes.foldl (applyWrite own act n) s, if o.rejected then .sealedError else .ok)

/-- `Ident.step` with the three mutators read from the table of effect sequences. -/
def stepSrc {D : Type} (hc : HC D) (flagStored : Bool) (ae : Bool) (tbl : Mut → List Eff) (s : St D) : Op → St D × Out D
  | .set n name v => runMut ae tbl .setattr .value
      (fun g => setNode g n (fun nd => { nd with args := nd.args.map (fun a => if a.name = name then { a with value := v } else a) })) n s
  | .setMeta n b => runMut ae tbl .setMeta .metaFlag (fun g => setNode g n (fun nd => { nd with mflag := b })) n s
  | .addPretask n p => runMut ae tbl .addPretasks .preTasks (fun g => setNode g n (fun nd => { nd with preTasks := nd.preTasks ++ [p] })) n s
  | o => step hc flagStored s o

end XpmVerif.Seal
