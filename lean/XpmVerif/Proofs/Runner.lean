import XpmVerif.Model.Runner
/-! Invariants of M3 and their preservation by every action (helper lemmas for C10 / C05). -/
namespace XpmVerif.Runner

/-- locations at which the run lock is held by the main flow -/
def Loc.holding : Loc → Bool
  | .locked | .rmFailed | .setStarted | .body _ | .bodyDone | .restTerm | .restInt | .sysExit | .touch => true
  | _ => false

/-- locations at which both Python handlers are installed and the clean-up is registered -/
def Loc.handled : Loc → Bool
  | .pre | .tryLock | .locked | .rmFailed | .setStarted | .body _ | .bodyDone | .skipped => true
  | _ => false

def Loc.hasReg : Loc → Bool
  | .reg | .term | .pre | .tryLock | .locked | .rmFailed | .setStarted | .body _ | .bodyDone | .skipped => true
  | _ => false

def Loc.hasTerm : Loc → Bool
  | .term | .pre | .tryLock | .locked | .rmFailed | .setStarted | .body _ | .bodyDone | .skipped => true
  | _ => false

/-- between the end of the body and the success marker -/
def Loc.postBody : Loc → Bool
  | .bodyDone | .restTerm | .restInt | .sysExit | .touch => true
  | _ => false

/-- inside `handle_error` of an `except` clause or in interpreter finalisation -/
def Loc.failing : Loc → Bool
  | .herr _ _ | .fin _ _ => true
  | _ => false

/-- locations before the lock is taken -/
def Loc.early : Loc → Bool
  | .init | .reg | .term | .pre | .tryLock => true
  | _ => false

/-- where a process that was signalled inside the body can be -/
def Loc.afterBody : Loc → Bool
  | .body _ | .herr _ _ | .fin _ _ => true
  | _ => false

def Loc.atRmPid : Loc → Bool
  | .herr .rmPid _ | .fin (some .rmPid) _ => true
  | _ => false

def Loc.pastTest : Loc → Bool
  | .herr .rmPid _ | .herr .relLock _ | .herr .exit _
  | .fin (some .rmPid) _ | .fin (some .relLock) _ | .fin none _ => true
  | _ => false

def Loc.isFinNone : Loc → Bool
  | .fin none _ => true
  | _ => false

def LState.holds : LState → Bool
  | .locked | .spawned _ | .wrote _ => true
  | _ => false

def atWrite (p : Proc) : Bool := match p.hnd with | some (.write, _) => true | _ => false

/-- the runner holding the lock, if any -/
def lockRunner (sh : Shared) : Option Nat := match sh.lock with | some (.run j) => some j | _ => none

structure Inv (cfg : Cfg) (d0 : Bool) (s : St) : Prop where
  fresh : ∀ i, s.n ≤ i → s.procs i = {}
  lockRun : ∀ i, s.sh.lock = some (.run i) → i < s.n ∧ (s.procs i).dead = none
  lockLaunch : ∀ l, s.sh.lock = some (.launch l) ↔ (s.ls l).holds = true
  held : ∀ i, i < s.n → (s.procs i).dead = none → (s.procs i).hnd = none → (s.procs i).loc.holding = true →
    s.sh.lock = some (.run i)
  notDone : ∀ i, i < s.n → (s.procs i).dead = none → (s.procs i).hnd = none → (s.procs i).loc.critical = true →
    s.sh.done = false
  handlers : ∀ i, i < s.n → ((s.procs i).loc.hasReg = true → (s.procs i).reg = true) ∧
    ((s.procs i).loc.hasTerm = true → (s.procs i).termH = true) ∧ ((s.procs i).loc.handled = true → (s.procs i).intH = true)
  completedAt : ∀ i, i < s.n → (s.procs i).loc.postBody = true → (s.procs i).completed = true
  touchedDone : ∀ i, (s.procs i).touched = true → s.sh.done = true ∧ (s.procs i).completed = true ∧ d0 = false
  doneMono : d0 = true → s.sh.done = true
  uniqueTouch : ∀ i j, (s.procs i).touched = true → (s.procs j).touched = true → i = j
  noWrite : ∀ i, i < s.n → (s.procs i).hnd = none → (s.procs i).loc.failing = false → (s.procs i).wroteFailed = none
  epochLe : ∀ i e, (s.procs i).wroteFailed = some e → e ≤ s.sh.epoch
  sigBody1 : ∀ i, i < s.n → (s.procs i).sigInBody = true → (s.procs i).dead = none → (s.procs i).wroteFailed = none →
    atWrite (s.procs i) = true ∧ inBody (s.procs i) = true ∧ s.sh.lock = some (.run i) ∧ s.sh.done = false
  sigBody2 : ∀ i, i < s.n → (s.procs i).sigInBody = true → (s.procs i).wroteFailed = some s.sh.epoch →
    s.sh.failed.isSome = true ∧ s.sh.done = false ∧ (lockRunner s.sh = none ∨ lockRunner s.sh = some i)
  sigBody3 : ∀ i, i < s.n → (s.procs i).sigInBody = true →
    (s.procs i).loc.afterBody = true ∧ (inBody (s.procs i) = true → (s.procs i).hnd ≠ none)
  unsig : ∀ i, i < s.n → (s.procs i).signalled = false → (s.procs i).hnd = none ∧ (s.procs i).sigInBody = false
  spawnedInv : ∀ l q, s.ls l = .spawned q → q < s.n ∧ ((s.procs q).signalled = false →
    (s.procs q).loc.early = true ∧ (s.procs q).cleaned = false)
  pidInv : ∀ q, q < s.n → s.sh.pid = some q → (s.procs q).signalled = false → (s.procs q).cleaned = true →
    (s.procs q).loc.atRmPid = true
  deadLoc : ∀ q c, (s.procs q).dead = some (.code c) → (s.procs q).loc.isFinNone = true
  ownClean : cfg.unregOnSuccess = false → ∀ q, q < s.n → (s.procs q).signalled = false →
    ((s.procs q).loc ≠ .init → (s.procs q).reg = true) ∧
    ((s.procs q).loc.pastTest = true → (s.procs q).cleaned = true) ∧
    (∀ c, (s.procs q).dead = some (.code c) → (s.procs q).cleaned = true)

theorem inv_init (cfg : Cfg) (done : Bool) (failed : Option Nat) : Inv cfg done (St.init done failed) := by
  constructor <;> simp [St.init, LState.holds, lockRunner]


/-- unfold one action completely; the result of the process step is named once (`hr : … = (sh', p')`) so
    that the big `match` occurs a single time -/
macro "unfold_act" : tactic => `(tactic| (
  simp only [act]
  all_goals try split
  all_goals try split
  all_goals try unfold stepProc mainStep handlerStep afterHandler finStart release markEpoch at *
  all_goals try unfold deliver finStart release at *
  all_goals try unfold release
  all_goals try unfold newProc
  all_goals try unfold upd))

/-- case analysis on the action, everything unfolded, the result of a process step named once
    (`hr : stepProc … = (sh', p')`), then the closing tactic on every case -/
macro "act_cases" a:ident "=>" t:tacticSeq : tactic => `(tactic| (
  cases $a:ident with
  | step i =>
    simp only [act]
    split
    · generalize hr : stepProc _ _ _ _ = r at *
      obtain ⟨sh', p'⟩ := r
      unfold stepProc mainStep handlerStep afterHandler finStart release markEpoch at hr
      simp only []
      unfold upd
      ($t)
    · ($t)
  | signal i sg =>
    simp only [act]
    split
    · generalize hr : deliver _ _ _ _ = r at *
      obtain ⟨sh', p'⟩ := r
      unfold deliver finStart release at hr
      simp only []
      unfold upd
      ($t)
    · ($t)
  | spawn o b => simp only [act]; unfold newProc upd; ($t)
  | lLock l => simp only [act]; split <;> (try unfold upd) <;> ($t)
  | lSpawn l o b => simp only [act]; split <;> (try unfold newProc upd) <;> ($t)
  | lWrite l => simp only [act]; split <;> (try unfold upd) <;> ($t)
  | lRelease l => simp only [act]; split <;> (try unfold release upd) <;> ($t)
  | lDie l => simp only [act]; split <;> (try unfold release upd) <;> ($t)))

theorem act_fresh (cfg : Cfg) (d0 : Bool) (s : St) (a : Act) (h : Inv cfg d0 s) :
    ∀ i, (act cfg s a).n ≤ i → (act cfg s a).procs i = {} := by
  intro i
  have := h.fresh i
  cases a <;> unfold_act <;> grind


theorem act_lockRun (cfg : Cfg) (d0 : Bool) (s : St) (a : Act) (h : Inv cfg d0 s) :
    ∀ i, (act cfg s a).sh.lock = some (.run i) → i < (act cfg s a).n ∧ ((act cfg s a).procs i).dead = none := by
  intro i
  have := h.lockRun i
  cases a <;> unfold_act <;> grind

theorem act_lockLaunch (cfg : Cfg) (d0 : Bool) (s : St) (a : Act) (h : Inv cfg d0 s) :
    ∀ l, (act cfg s a).sh.lock = some (.launch l) ↔ ((act cfg s a).ls l).holds = true := by
  intro l
  have := h.lockLaunch l
  cases a with
  | lLock l' | lSpawn l' _ _ | lWrite l' | lRelease l' | lDie l' =>
    have := h.lockLaunch l'
    unfold_act <;> grind [LState.holds]
  | _ => unfold_act <;> grind [LState.holds]


theorem Loc.holding_of_critical (l : Loc) (h : l.critical = true) : l.holding = true := by
  cases l <;> simp_all [Loc.critical, Loc.holding]

/-- the process an action is about (0 for launcher actions) -/
def Act.proc : Act → Nat
  | .step i | .signal i _ => i
  | _ => 0

theorem act_held (cfg : Cfg) (d0 : Bool) (s : St) (a : Act) (h : Inv cfg d0 s) :
    ∀ i, i < (act cfg s a).n → ((act cfg s a).procs i).dead = none → ((act cfg s a).procs i).hnd = none →
      ((act cfg s a).procs i).loc.holding = true → (act cfg s a).sh.lock = some (.run i) := by
  intro i
  have := h.held i
  have := h.held a.proc
  have := h.lockLaunch
  cases a <;> simp only [Act.proc] at * <;> unfold_act <;> grind [Loc.holding, Loc.inTry, LState.holds]

theorem act_notDone (cfg : Cfg) (d0 : Bool) (s : St) (a : Act) (h : Inv cfg d0 s) :
    ∀ i, i < (act cfg s a).n → ((act cfg s a).procs i).dead = none → ((act cfg s a).procs i).hnd = none →
      ((act cfg s a).procs i).loc.critical = true → (act cfg s a).sh.done = false := by
  intro i
  have := h.notDone i
  have := h.notDone a.proc
  have := h.held i
  have := h.held a.proc
  have := Loc.holding_of_critical (s.procs i).loc
  cases a <;> simp only [Act.proc] at * <;> unfold_act <;> grind [Loc.holding, Loc.critical, Loc.inTry]



theorem act_handlers (cfg : Cfg) (d0 : Bool) (s : St) (a : Act) (h : Inv cfg d0 s) :
    ∀ i, i < (act cfg s a).n → (((act cfg s a).procs i).loc.hasReg = true → ((act cfg s a).procs i).reg = true) ∧
      (((act cfg s a).procs i).loc.hasTerm = true → ((act cfg s a).procs i).termH = true) ∧
      (((act cfg s a).procs i).loc.handled = true → ((act cfg s a).procs i).intH = true) := by
  intro i
  have := h.handlers i
  cases a <;> unfold_act <;> grind [Loc.handled, Loc.inTry, Loc.hasReg, Loc.hasTerm]


theorem act_completedAt (cfg : Cfg) (d0 : Bool) (s : St) (a : Act) (h : Inv cfg d0 s) :
    ∀ i, i < (act cfg s a).n → ((act cfg s a).procs i).loc.postBody = true → ((act cfg s a).procs i).completed = true := by
  intro i
  have := h.completedAt i
  cases a <;> unfold_act <;> grind [Loc.postBody, Loc.inTry]


theorem act_doneMono (cfg : Cfg) (d0 : Bool) (s : St) (a : Act) (h : Inv cfg d0 s) :
    d0 = true → (act cfg s a).sh.done = true := by
  have := h.doneMono
  cases a <;> unfold_act <;> grind

theorem act_touchedDone (cfg : Cfg) (d0 : Bool) (s : St) (a : Act) (h : Inv cfg d0 s) :
    ∀ i, ((act cfg s a).procs i).touched = true →
      (act cfg s a).sh.done = true ∧ ((act cfg s a).procs i).completed = true ∧ d0 = false := by
  intro i
  have := h.touchedDone i
  have := h.doneMono
  have := h.notDone a.proc
  have := h.completedAt a.proc
  cases a <;> simp only [Act.proc] at * <;> unfold_act <;> grind [Loc.critical, Loc.postBody]

theorem act_uniqueTouch (cfg : Cfg) (d0 : Bool) (s : St) (a : Act) (h : Inv cfg d0 s) :
    ∀ i j, ((act cfg s a).procs i).touched = true → ((act cfg s a).procs j).touched = true → i = j := by
  intro i j
  have := h.uniqueTouch i j
  have := h.touchedDone i
  have := h.touchedDone j
  have := h.notDone a.proc
  have := h.fresh s.n
  cases a <;> simp only [Act.proc] at * <;> unfold_act <;> grind [Loc.critical]

theorem act_unsig (cfg : Cfg) (d0 : Bool) (s : St) (a : Act) (h : Inv cfg d0 s) :
    ∀ i, i < (act cfg s a).n → ((act cfg s a).procs i).signalled = false →
      ((act cfg s a).procs i).hnd = none ∧ ((act cfg s a).procs i).sigInBody = false := by
  intro i
  have := h.unsig i
  cases a <;> unfold_act <;> grind

theorem act_sigBody3 (cfg : Cfg) (d0 : Bool) (s : St) (a : Act) (h : Inv cfg d0 s) :
    ∀ i, i < (act cfg s a).n → ((act cfg s a).procs i).sigInBody = true →
      ((act cfg s a).procs i).loc.afterBody = true ∧ (inBody ((act cfg s a).procs i) = true → ((act cfg s a).procs i).hnd ≠ none) := by
  intro i
  have := h.sigBody3 i
  cases a <;> unfold_act <;> grind [Loc.afterBody, Loc.inTry, inBody, noHandler]


theorem act_noWrite (cfg : Cfg) (d0 : Bool) (s : St) (a : Act) (h : Inv cfg d0 s) :
    ∀ i, i < (act cfg s a).n → ((act cfg s a).procs i).hnd = none → ((act cfg s a).procs i).loc.failing = false →
      ((act cfg s a).procs i).wroteFailed = none := by
  intro i
  have := h.noWrite i
  have := h.fresh s.n
  cases a <;> unfold_act <;> grind [Loc.failing, Loc.inTry]

theorem act_epochLe (cfg : Cfg) (d0 : Bool) (s : St) (a : Act) (h : Inv cfg d0 s) :
    ∀ i e, ((act cfg s a).procs i).wroteFailed = some e → e ≤ (act cfg s a).sh.epoch := by
  intro i e
  have := h.epochLe i e
  cases a <;> unfold_act <;> grind

theorem act_sigBody1 (cfg : Cfg) (d0 : Bool) (s : St) (a : Act) (h : Inv cfg d0 s) :
    ∀ i, i < (act cfg s a).n → ((act cfg s a).procs i).sigInBody = true → ((act cfg s a).procs i).dead = none →
      ((act cfg s a).procs i).wroteFailed = none →
      atWrite ((act cfg s a).procs i) = true ∧ inBody ((act cfg s a).procs i) = true ∧
      (act cfg s a).sh.lock = some (.run i) ∧ (act cfg s a).sh.done = false := by
  intro i
  have := h.sigBody1 i
  have := h.held i
  have := h.notDone i
  have := h.held a.proc
  have := h.handlers i
  have := h.lockLaunch
  have := h.fresh s.n
  cases a <;> simp only [Act.proc] at * <;> unfold_act <;>
    grind (splits := 30) [atWrite, inBody, noHandler, Loc.holding, Loc.critical, Loc.handled, Loc.inTry, LState.holds]

set_option maxHeartbeats 2000000 in
theorem act_sigBody2 (cfg : Cfg) (d0 : Bool) (s : St) (a : Act) (h : Inv cfg d0 s) :
    ∀ i, i < (act cfg s a).n → ((act cfg s a).procs i).sigInBody = true →
      ((act cfg s a).procs i).wroteFailed = some (act cfg s a).sh.epoch →
      (act cfg s a).sh.failed.isSome = true ∧ (act cfg s a).sh.done = false ∧
      (lockRunner (act cfg s a).sh = none ∨ lockRunner (act cfg s a).sh = some i) := by
  intro i
  have := h.sigBody2 i
  have := h.sigBody1 i
  have := h.sigBody3 i
  have := h.noWrite i
  have := h.epochLe i
  have := h.held a.proc
  have := h.fresh s.n
  cases a <;> simp only [Act.proc] at * <;> unfold_act <;>
    grind (splits := 30) [atWrite, inBody, noHandler, Loc.holding, Loc.failing, Loc.afterBody, Loc.inTry, lockRunner]

end XpmVerif.Runner
