import XpmVerif.Generated.RunnerSrc
import XpmVerif.Proofs.RunnerEff
import XpmVerif.Properties.C10
/-! Source obligations of the job-directory protocol (C10; C05 and C11 rest on the same model `Model/Runner.lean`).

    `Generated/RunnerSrc.lean` is rewritten on every run by `harness/xv/translate/runsrc.py`, which interprets `TaskRunner.run`,
    `handle_error`, `cleanup` (`run.py`), `Scheduler.aio_start`, `CommandLineJob.aio_run`/`prepare` and the job-script template of the
    tree under test, and holds the **ordered effect sequence** of every path of a job process and of the scheduler side of a launch.
    Two kinds of theorems, all about those generated constants:

    * `model_…_is_source_sequence` — the effect trace of the model (`Runner.traceProc`: the labels of the steps of `Runner.stepProc`,
      faithful by `Runner.step_shared_is_effects`) of a process that runs alone **is** the generated sequence (restricted to the
      effects the model represents), for every body length, initial failure marker and pid file: the order of the program points of
      `Model/Runner.lean` is regenerated from the source, not assumed;
    * order obligations stated on the generated sequences themselves (done test under the lock, success marker after the body and
      only on success, failure marker before the clean-up, the success path keeps its clean-up, the launch happens under the job lock …).

    When the source changes so that a sequence differs, the corresponding theorems stop checking and the check runs its failing-input
    search (crash points, overlapping launches, scheduler-launched jobs). -/
namespace XpmVerif.C10Src
open XpmVerif.Runner

/-! ### the model's order of program points is the order of the source -/

/-- **switches of the model read off the source**: the success path keeps the atexit clean-up registered and `handle_error` writes the
    failure marker before it cleans up — the hypotheses `cfg.unregOnSuccess = false`, `cfg.markerFirst = true` of the theorems of
    `Properties/C10.lean` hold for the configuration generated from this source. -/
theorem source_switches : Gen.runnerCfg.unregOnSuccess = false ∧ Gen.runnerCfg.markerFirst = true := by decide

/-- undisturbed successful run (no success marker, any failure marker / pid file, any body length): the model's steps perform, in order,
    exactly the effects of the source's success path. -/
theorem model_success_run_is_source_sequence (blen : Nat) (f pd : Option Nat) :
    traceProc Gen.runnerCfg 0 (9 + (blen + 12)) (start false f pd, newProc .ok blen) = Gen.pathNormal.filter Eff.modelled :=
  (trace_normal _ blen f pd).trans (by decide)

/-- a launch that finds the success marker (whatever the body would do). -/
theorem model_done_run_is_source_sequence (o : Outcome) (blen : Nat) (f pd : Option Nat) :
    traceProc Gen.runnerCfg 0 12 (start true f pd, newProc o blen) = Gen.pathDone.filter Eff.modelled :=
  (trace_done _ o blen f pd).trans (by decide)

/-- the body raises an exception. -/
theorem model_failing_run_is_source_sequence (blen : Nat) (f pd : Option Nat) :
    traceProc Gen.runnerCfg 0 (9 + (blen + 9)) (start false f pd, newProc .exc blen) = Gen.pathFail.filter Eff.modelled :=
  (trace_fail _ blen f pd).trans (by decide)

/-- the body ends itself with `sys.exit(m + 1)`: the failure marker receives that code. -/
theorem model_exit_run_is_source_sequence (m blen : Nat) (f pd : Option Nat) :
    traceProc Gen.runnerCfg 0 (9 + (blen + 9)) (start false f pd, newProc (.exit (m + 1)) blen) = (Gen.pathExitS m).filter Eff.modelled :=
  (trace_exit _ m blen f pd).trans (by
    simp [Gen.pathExitS, Gen.runnerCfg, modelFail, modelHerr, modelRun, modelPrefix, modelCleanup, List.filter, Eff.modelled])

/-- the body ends itself with `sys.exit(0)`: success marker, as the property's "ended on its own successfully". -/
theorem model_exit0_run_is_source_sequence (blen : Nat) (f pd : Option Nat) :
    traceProc Gen.runnerCfg 0 (9 + (blen + 9)) (start false f pd, newProc (.exit 0) blen) = Gen.pathExit0.filter Eff.modelled :=
  (trace_exit0 _ blen f pd).trans (by decide)

/-- SIGTERM / SIGINT at any point `j` of the body: trace up to the delivery, the delivery, then the handler, the `except SystemExit`
    clause, the second `handle_error`, the interpreter exit — the source's signal path with the signal number as code. -/
theorem model_signal_run_is_source_sequence (o : Outcome) (sig : Sig) (hs : sig ≠ .kill) (blen j : Nat) (hj : j ≤ blen) (f pd : Option Nat) :
    let x := runProc Gen.runnerCfg 0 (9 + j) (start false f pd, newProc o blen)
    traceProc Gen.runnerCfg 0 (9 + j) (start false f pd, newProc o blen) ++ [.signalDelivered]
      ++ traceProc Gen.runnerCfg 0 12 (deliver Gen.runnerCfg 0 x.1 x.2 sig) = (Gen.pathSignal (sigCode sig)).filter Eff.modelled :=
  (trace_signal _ o sig hs blen j hj f pd).trans (by
    simp [Gen.pathSignal, Gen.runnerCfg, modelSignal, modelHerr, modelHerr2, modelRun, modelPrefix, modelCleanup, List.filter, Eff.modelled])

/-- `handle_error(c)` and `cleanup()` alone are the model's five / three handler stages in the order of `Gen.runnerCfg`. -/
theorem model_handler_is_source_sequence (c : Nat) :
    (Gen.handlerSeq c).filter Eff.modelled = modelHerr Gen.runnerCfg c ∧ Gen.cleanupSeq.filter Eff.modelled = modelCleanup := by
  constructor
  · simp [Gen.handlerSeq, Gen.runnerCfg, modelHerr, modelCleanup, List.filter, Eff.modelled]
  · decide

/-- scheduler side: the launcher actions of the model (take the job lock, spawn, write the pid file, release) are, in order, what
    `aio_start` + `aio_run` do — whether or not marker files exist in the directory. -/
theorem model_launch_is_source_sequence (cfg : Cfg) (s : St) (l : Nat) (o : Outcome) (b : Nat) (hi : s.ls l = .idle) (hf : s.sh.lock = none) :
    traceActs cfg s [.lLock l, .lSpawn l o b, .lWrite l, .lRelease l] = Gen.launchSeq.filter Eff.modelled
    ∧ Gen.launchSeqMarkers = Gen.launchSeq :=
  ⟨(trace_launch cfg s l o b hi hf).trans (by decide), by decide⟩

/-! ### order obligations on the source's sequences -/

/-- the six paths of a whole job process, the symbolic ones at two representative codes each (the obligations below that quantify over
    the code are stated separately) -/
def wholePaths : List (List Eff) :=
  [Gen.pathNormal, Gen.pathDone, Gen.pathFail, Gen.pathExit0, Gen.pathExitS 0, Gen.pathExitS 2, Gen.pathSignal 15, Gen.pathSignal 2]

/-- **the done test happens under the run lock**: on every path the success marker is tested, the failure marker removed, the body run
    and the success marker written only while the lock taken by `lockAcquire` is held (no release, no I/O on the lock file in between);
    on the successful paths nothing gives the lock back between the done test and the success marker. -/
theorem done_test_and_body_under_lock :
    (∀ p ∈ wholePaths, underLock (fun e => e = .testDone || e = .rmFailed || e = .body || e = .touchDone) false p = true)
    ∧ (∀ p ∈ wholePaths, p.contains .testDone = true)
    ∧ heldThroughout .testDone .touchDone Gen.pathNormal = true ∧ heldThroughout .testDone .touchDone Gen.pathExit0 = true := by decide

/-- the same in words of positions: on every path of a job process, wherever the success marker is tested, the failure marker removed,
    the body entered or the success marker written, the lock state computed over the effects before that point (`heldAfter`: acquired and
    neither released nor dropped by I/O on the lock file since) is "held". -/
theorem done_test_under_lock (p : List Eff) (hp : p ∈ wholePaths) (pre post : List Eff) (e : Eff)
    (he : e = .testDone ∨ e = .rmFailed ∨ e = .body ∨ e = .touchDone) (h : p = pre ++ e :: post) : heldAfter false pre = true := by
  refine underLock_sound _ p false (done_test_and_body_under_lock.1 p hp) pre e post h ?_
  rcases he with rfl | rfl | rfl | rfl <;> rfl

/-- **the success marker is written after the body and only on success**: written on the two successful paths, after the body; never
    on the already-done path, the failing paths (any exit code), the signal path (any signal), nor by the handler or the clean-up. -/
theorem done_written_after_body_and_only_on_success :
    Gen.pathNormal.contains .touchDone = true ∧ Gen.pathExit0.contains .touchDone = true
    ∧ precededBy (· = .body) (· = .touchDone) false Gen.pathNormal = true ∧ precededBy (· = .body) (· = .touchDone) false Gen.pathExit0 = true
    ∧ Gen.pathDone.contains .touchDone = false ∧ Gen.pathFail.contains .touchDone = false
    ∧ (∀ m, (Gen.pathExitS m).contains .touchDone = false) ∧ (∀ c, (Gen.pathSignal c).contains .touchDone = false)
    ∧ (∀ c, (Gen.handlerSeq c).contains .touchDone = false) ∧ Gen.cleanupSeq.contains .touchDone = false := by
  refine ⟨by decide, by decide, by decide, by decide, by decide, by decide, ?_, ?_, ?_, by decide⟩ <;> intro _ <;> rfl

/-- the body runs only when the done test failed, and not at all on the already-done path; a failure marker of an earlier execution is
    removed before the body starts (so a marker found afterwards is this execution's). -/
theorem body_only_without_done_marker :
    Gen.pathDone.contains .body = false ∧ Gen.pathDone.contains .rmFailed = false
    ∧ (∀ p ∈ wholePaths, precededBy (· = .testDone) (· = .body) false p = true ∧ precededBy (· = .rmFailed) (· = .body) false p = true) := by decide

/-- **the failure marker precedes the clean-up**: wherever `handle_error` runs (exception, non-zero exit, signal handler) the failure
    marker is written with the right code before the pid file is removed and before the lock is released, and no later effect removes it. -/
theorem failed_marker_precedes_cleanup :
    (∀ c, precededBy isWriteFailed (fun e => e = .rmPid || e = .lockRelease) false (Gen.handlerSeq c) = true ∧ (Gen.handlerSeq c).contains (.writeFailed c) = true)
    ∧ (precededBy isWriteFailed (fun e => e = .rmPid || e = .lockRelease) false Gen.pathFail = true ∧ Gen.pathFail.contains (.writeFailed 1) = true)
    ∧ (∀ m, precededBy isWriteFailed (fun e => e = .rmPid || e = .lockRelease) false (Gen.pathExitS m) = true ∧ (Gen.pathExitS m).contains (.writeFailed (m + 1)) = true)
    ∧ (∀ c, precededBy isWriteFailed (fun e => e = .rmPid || e = .lockRelease) false (Gen.pathSignal c) = true ∧ (Gen.pathSignal c).contains (.writeFailed c) = true)
    ∧ noneAfter isWriteFailed (fun e => e = .rmFailed || e = .touchDone) Gen.pathFail = true
    ∧ (∀ m, noneAfter isWriteFailed (fun e => e = .rmFailed || e = .touchDone) (Gen.pathExitS m) = true)
    ∧ (∀ c, noneAfter isWriteFailed (fun e => e = .rmFailed || e = .touchDone) (Gen.pathSignal c) = true) := by
  refine ⟨fun c => ⟨by rfl, by simp [Gen.handlerSeq]⟩, ⟨by decide, by decide⟩, fun m => ⟨by rfl, by simp [Gen.pathExitS]⟩,
    fun c => ⟨by rfl, by simp [Gen.pathSignal]⟩, by decide, fun m => by rfl, fun c => by rfl⟩

/-- **the handler always ends the process**: the last effect of `handle_error` is `sys.exit(1)` (the body never resumes — the model rule
    of `Runner.handlerStep`). -/
theorem handler_always_exits : ∀ c, (Gen.handlerSeq c).getLast? = some (.sysExit 1) := by intro c; rfl

/-- **every path keeps its clean-up and removes the pid file**: no path of a process that ends on its own unregisters the atexit
    clean-up; every one removes the pid file and releases the lock, after its last marker write; the clean-up is registered first. -/
theorem success_path_keeps_cleanup_and_removes_pid :
    ∀ p ∈ wholePaths, p.contains .unregisterAtexit = false ∧ p.contains .rmPid = true ∧ p.contains .lockRelease = true
      ∧ p.head? = some .registerAtexit
      ∧ noneAfter (· = .rmPid) (fun e => e = .touchDone || e = .writePid) p = true
      ∧ precededBy (· = .touchDone) (· = .rmPid) false Gen.pathNormal = true := by decide

/-- the Python handlers are installed before the lock is requested and restored only after the body returned. -/
theorem handlers_cover_the_body :
    ∀ p ∈ wholePaths, precededBy (· = .installTerm) (· = .lockAcquire) false p = true ∧ precededBy (· = .installInt) (· = .lockAcquire) false p = true
      ∧ precededBy (· = .body) (fun e => e = .restoreTerm || e = .restoreInt) false p = true := by decide

/-- **no I/O on the lock file, and its name is never removed**: no path opens, reads or writes the lock file through another descriptor
    (which would drop the POSIX record lock while the process believes it holds it), and no path unlinks or renames the lock path (which
    would detach the name from the inode that the holder and the queued launches have open: hypothesis `Op.unlink ∉ ops` of
    `C10LockIds.mutual_exclusion_without_unlink`; with it, `C10LockIds.unlink_breaks_mutual_exclusion`). -/
theorem no_lock_file_io :
    (∀ p ∈ wholePaths, p.contains .lockFileIO = false ∧ p.contains .unlinkLock = false)
    ∧ (∀ m, (Gen.pathExitS m).contains .lockFileIO = false ∧ (Gen.pathExitS m).contains .unlinkLock = false)
    ∧ (∀ c, (Gen.pathSignal c).contains .lockFileIO = false ∧ (Gen.pathSignal c).contains .unlinkLock = false)
    ∧ (∀ c, (Gen.handlerSeq c).contains .lockFileIO = false ∧ (Gen.handlerSeq c).contains .unlinkLock = false)
    ∧ Gen.cleanupSeq.contains .unlinkLock = false
    ∧ (∀ p ∈ [Gen.launchSeq, Gen.launchSeqMarkers], p.contains .lockFileIO = false ∧ p.contains .unlinkLock = false) := by
  refine ⟨by decide, fun _ => ⟨by rfl, by rfl⟩, fun _ => ⟨by rfl, by rfl⟩, fun _ => ⟨by rfl, by rfl⟩, by decide, by decide⟩

/-- **the launch happens under the job lock**: the scheduler spawns the job process and writes its pid file between taking and giving
    back the job lock (so the job process, which queues on the same lock, cannot reach its clean-up before the pid file exists), in
    that order, and touches no marker file — with or without markers in the directory. -/
theorem launch_under_job_lock :
    ∀ p ∈ [Gen.launchSeq, Gen.launchSeqMarkers],
      underJobLock (fun e => e = .spawn || e = .writePid) false p = true
      ∧ p.contains .spawn = true ∧ p.contains .writePid = true ∧ precededBy (· = .spawn) (· = .writePid) false p = true
      ∧ p.all (fun e => e != .rmDone && e != .rmFailed && e != .touchDone && !isWriteFailed e && e != .rmPid) = true := by decide

/-- the same in words of positions: wherever the launch sequence spawns the process or writes the pid file, the job lock taken by the
    scheduler is held over the effects before that point, and a pid-file write has a spawn before it. -/
theorem launch_under_job_lock_positions (p : List Eff) (hp : p ∈ [Gen.launchSeq, Gen.launchSeqMarkers]) (pre post : List Eff) (e : Eff)
    (he : e = .spawn ∨ e = .writePid) (h : p = pre ++ e :: post) :
    jobHeldAfter false pre = true ∧ (e = .writePid → ∃ x ∈ pre, x = .spawn) := by
  have hl := launch_under_job_lock p hp
  refine ⟨underJobLock_sound _ p false hl.1 pre e post h (by rcases he with rfl | rfl <;> rfl), ?_⟩
  rintro rfl
  rcases precededBy_sound _ _ p false hl.2.2.2.1 pre _ post h (by rfl) with h0 | ⟨x, hx, hx'⟩
  · cases h0
  · exact ⟨x, hx, by simpa using hx'⟩

/-- **the job script runs `TaskRunner(...).run()` with the job lock**: the generated script imports `TaskRunner`, passes it the list
    `lockfiles`, and `prepare` puts the job's lock path (the file `aio_start` locks) into that list — the run lock of the model is the
    launcher's lock. -/
theorem script_runs_taskrunner_with_job_lock :
    Gen.scriptCallsRun = true ∧ Gen.scriptPassesLockfiles = true ∧ Gen.runLockIsJobLock = true := by decide

/-! ### the theorems of C10 at the configuration read from the source -/

/-- `C10.own_exit_leaves_no_pid` applies to this source: in every reachable state of the model with the source's switches, a process
    that ended on its own is not named by the pid file. -/
theorem source_own_exit_leaves_no_pid {done : Bool} {failed : Option Nat} {s : St} (h : Reach Gen.runnerCfg done failed s)
    (q : Nat) (hq : q < s.n) (ho : endedOnOwn (s.procs q) = true) : s.sh.pid ≠ some q :=
  C10.own_exit_leaves_no_pid source_switches.1 h q hq ho

/-- `C10.signal_in_body_then_exit` at the source's switches: a signal inside the body leaves the failure marker, no success marker, no
    pid file, a free lock, exit status 1. -/
theorem source_signal_in_body_then_exit {done : Bool} {failed : Option Nat} {s : St} (h : Reach Gen.runnerCfg done failed s)
    (i : Nat) (hr : running s i = true) (sg : Sig) (hsg : sg = .term ∨ sg = .int) :
    let s' := runAlone Gen.runnerCfg i 11 (act Gen.runnerCfg s (.signal i sg))
    s'.sh.failed = some 1 ∧ s'.sh.done = false ∧ (s'.procs i).dead = some (.code 1) ∧ s'.sh.lock = none ∧ s'.sh.pid = none :=
  C10.signal_in_body_then_exit h i hr sg hsg

/-- non-vacuity: the generated sequences are the real ones (the success path has the body, both markers' effects and the clean-up), and
    the hypotheses of `model_signal_run_is_source_sequence` are satisfiable (SIGTERM at the second of three body points). -/
example : Gen.pathNormal.length ≥ 15 ∧ Gen.pathNormal.contains .body = true ∧ Gen.launchSeq.length ≥ 4 := by decide
example : Sig.term ≠ Sig.kill ∧ 2 ≤ 3 := by decide
example : (St.init false none).ls 0 = .idle ∧ (St.init false none).sh.lock = none := by decide

end XpmVerif.C10Src
