import XpmVerif.Proofs.SpecsParse
/-! C18 — "A textual specification means the same as the equivalent programmatic one": the token-level
    grammar of `launcherfinder/parser.py` parses the rendering of every abstract request back to itself,
    so the meaning of the text (`evalAlt` of the parse) is the meaning of the programmatic construction
    (`evalAlt` of the abstract request: `&` folds, `*`, last `mem=`/`cores=` wins). -/
namespace XpmVerif.C18Parse
open XpmVerif.Specs

/-- **parse ∘ render = id** for every request: any number of alternatives `|`, of conjuncts `&`, of
    `mem=`/`cores=` items, optional multiplier; well-formed = no alternative and no conjunction is empty and
    `cuda(...)` only contains `mem=` items. -/
theorem parse_render (a : List (List Specs.Term)) (hne : a ≠ [])
    (hok : ∀ c ∈ a, c ≠ [] ∧ c.all termOK = true) :
    parseToks (renderAlts a) = some a := by
  unfold parseToks
  exact parseAlts_render a _ hne hok (by have := renderAlts_length' a (fun c hc => (hok c hc).1); omega)

/-- hence the text means what the abstract request means. -/
theorem text_means_programmatic (a : List (List Specs.Term)) (hne : a ≠ [])
    (hok : ∀ c ∈ a, c ≠ [] ∧ c.all termOK = true) :
    (parseToks (renderAlts a)).bind evalAlt = evalAlt a := by
  rw [parse_render a hne hok]; rfl

/-- non-vacuity: `cuda(mem=4G)*2 & cpu(mem=2G, cores=3) | duration=2 days`. -/
example : parseToks (renderAlts [[.cuda [.mem 4 .G] (some 2), .cpu [.mem 2 .G, .cores 3]], [.duration 2 .days]])
    = some [[.cuda [.mem 4 .G] (some 2), .cpu [.mem 2 .G, .cores 3]], [.duration 2 .days]] := by decide
/-- malformed text is rejected: `cuda(cores=2)`, a trailing comma, a dangling `*`. -/
example : parseToks [.kwCuda, .lpar, .kwCores, .eq, .num 2, .rpar] = none := by decide
example : parseToks [.kwCpu, .lpar, .kwMem, .eq, .memlit 1 .G, .comma, .rpar] = none := by decide
example : parseToks [.kwCuda, .lpar, .kwMem, .eq, .memlit 1 .G, .rpar, .star] = none := by decide

end XpmVerif.C18Parse
