import XpmVerif.Model.SpecsParse
/-! Round trip of the token-level grammar: parsing the rendering of an abstract request gives it back. -/
namespace XpmVerif.Specs
open List

def itemOK (cudaOnly : Bool) : SpecItem → Bool
  | .mem _ _ => true
  | .cores _ => !cudaOnly

def termOK : Specs.Term → Bool
  | .duration _ _ => true
  | .cuda items _ => items.all (itemOK true)
  | .cpu items => items.all (itemOK false)

theorem parseItem_render (b : Bool) (i : SpecItem) (r : List Tok) (h : itemOK b i = true) :
    parseItem b (renderItem i ++ r) = some (i, r) := by
  cases i with
  | mem n s => cases s <;> simp [renderItem, parseItem]
  | cores n => cases b <;> simp_all [renderItem, parseItem, itemOK]

theorem renderItem_ne_rpar (i : SpecItem) (r : List Tok) : ∀ r', renderItem i ++ r ≠ Tok.rpar :: r' := by
  intro r'
  cases i with
  | mem n s => cases s <;> simp [renderItem]
  | cores n => simp [renderItem]

theorem parseItems_render (b : Bool) : ∀ (is : List SpecItem) (fuel : Nat) (r : List Tok),
    is.all (itemOK b) = true → is.length < fuel →
    parseItems b fuel (renderItems is ++ Tok.rpar :: r) = some (is, r)
  | [], fuel + 1, r, _, _ => by simp [renderItems, parseItems]
  | [], 0, _, _, h => by simp at h
  | [i], fuel + 1, r, hok, _ => by
    have hi : itemOK b i = true := by simpa using hok
    cases i with
    | mem n s => cases s <;> simp [renderItems, parseItems, renderItem, parseItem]
    | cores n => cases b <;> simp_all [renderItems, parseItems, renderItem, parseItem, itemOK]
  | i :: j :: is, 0, _, _, h => by simp at h
  | i :: j :: is, fuel + 1, r, hok, hf => by
    have hi : itemOK b i = true := by simp [List.all_cons] at hok; exact hok.1
    have hrest : (j :: is).all (itemOK b) = true := by simp [List.all_cons] at hok ⊢; exact hok.2
    have ih := parseItems_render b (j :: is) fuel r hrest (by simp at hf ⊢; omega)
    have hne : ∀ r', renderItems (j :: is) ++ Tok.rpar :: r ≠ Tok.rpar :: r' := by
      intro r'
      cases is with
      | nil => simpa [renderItems] using renderItem_ne_rpar j (Tok.rpar :: r) r'
      | cons k ks =>
        simp only [renderItems, List.append_assoc]
        exact renderItem_ne_rpar j _ r'
    simp only [renderItems, parseItems, List.append_assoc, List.cons_append]
    cases i with
    | mem n s =>
      generalize hg : renderItems (j :: is) ++ Tok.rpar :: r = tl at ih hne
      cases tl with
      | nil => exfalso; simp at hg
      | cons t tl' =>
        cases s <;> simp only [renderItem, List.cons_append, List.nil_append, parseItem] <;>
          cases t <;> first | (exfalso; exact hne _ rfl) | simp [ih]
    | cores n =>
      cases b with
      | true => simp [itemOK] at hi
      | false =>
        simp only [renderItem, List.cons_append, List.nil_append, parseItem]
        generalize hg : renderItems (j :: is) ++ Tok.rpar :: r = tl at ih hne
        cases tl with
        | nil => exfalso; simp at hg
        | cons t tl' =>
          cases t <;> first | (exfalso; exact hne _ rfl) | simp [ih]

theorem renderItems_length (is : List SpecItem) : is.length ≤ (renderItems is).length := by
  induction is with
  | nil => simp [renderItems]
  | cons i is ih =>
    cases is with
    | nil =>
      cases i with
      | mem n s => cases s <;> simp [renderItems, renderItem]
      | cores n => simp [renderItems, renderItem]
    | cons j js =>
      simp only [renderItems, List.length_append, List.length_cons] at ih ⊢
      cases i with
      | mem n s => cases s <;> simp [renderItem] <;> omega
      | cores n => simp [renderItem]; omega

def noStar : List Tok → Bool
  | Tok.star :: _ => false
  | _ => true

theorem parseTerm_render (t : Specs.Term) (r : List Tok) (hok : termOK t = true) (hr : noStar r = true) :
    parseTerm (renderTerm t ++ r) = some (t, r) := by
  cases t with
  | duration n u => simp [renderTerm, parseTerm]
  | cuda items mult =>
    have hl := renderItems_length items
    cases mult with
    | some k =>
      simp only [renderTerm, parseTerm, List.cons_append, List.append_assoc]
      rw [parseItems_render true items _ _ hok (by simp; omega)]
      simp
    | none =>
      simp only [renderTerm, parseTerm, List.cons_append, List.append_assoc, List.nil_append]
      rw [parseItems_render true items _ _ hok (by simp; omega)]
      cases r with
      | nil => simp
      | cons x xs => cases x <;> simp_all [noStar]
  | cpu items =>
    have hl := renderItems_length items
    simp only [renderTerm, parseTerm, List.cons_append, List.append_assoc, List.nil_append]
    rw [parseItems_render false items _ _ hok (by simp; omega)]

def noAmpStar : List Tok → Bool
  | Tok.star :: _ => false
  | Tok.amp :: _ => false
  | _ => true

theorem parseConj_render : ∀ (c : List Specs.Term) (fuel : Nat) (r : List Tok),
    c ≠ [] → c.all termOK = true → c.length < fuel → noAmpStar r = true →
    parseConj fuel (renderConj c ++ r) = some (c, r)
  | [], _, _, h, _, _, _ => absurd rfl h
  | [t], fuel + 1, r, _, hok, _, hr => by
    have ht : termOK t = true := by simpa using hok
    simp only [renderConj, parseConj]
    rw [parseTerm_render t r ht (by cases r with | nil => rfl | cons x xs => cases x <;> simp_all [noAmpStar, noStar])]
    cases r with
    | nil => simp
    | cons x xs => cases x <;> simp_all [noAmpStar]
  | [_], 0, _, _, _, h, _ => by simp at h
  | t :: u :: ts, 0, _, _, _, h, _ => by simp at h
  | t :: u :: ts, fuel + 1, r, _, hok, hf, hr => by
    have ht : termOK t = true := by simp [List.all_cons] at hok; exact hok.1
    have hrest : (u :: ts).all termOK = true := by simp [List.all_cons] at hok ⊢; exact hok.2
    have ih := parseConj_render (u :: ts) fuel r (by simp) hrest (by simp at hf ⊢; omega) hr
    simp only [renderConj, parseConj, List.append_assoc, List.cons_append]
    rw [parseTerm_render t _ ht (by simp [noStar])]
    simp [ih]

def noBarAmpStar : List Tok → Bool
  | [] => true
  | _ => false

theorem renderConj_length (c : List Specs.Term) : c.length ≤ (renderConj c).length := by
  induction c with
  | nil => simp [renderConj]
  | cons t ts ih =>
    cases ts with
    | nil => cases t <;> simp [renderConj, renderTerm]
    | cons u us =>
      simp only [renderConj, List.length_append, List.length_cons] at ih ⊢
      omega

theorem parseAlts_render : ∀ (a : List (List Specs.Term)) (fuel : Nat),
    a ≠ [] → (∀ c ∈ a, c ≠ [] ∧ c.all termOK = true) → a.length < fuel →
    parseAlts fuel (renderAlts a) = some a
  | [], _, h, _, _ => absurd rfl h
  | [c], fuel + 1, _, hok, _ => by
    have hc := hok c (by simp)
    simp only [renderAlts, parseAlts]
    have := parseConj_render c ((renderConj c).length + 1) [] hc.1 hc.2 (by have := renderConj_length c; omega) rfl
    simp only [List.append_nil] at this
    simp [this]
  | [_], 0, _, _, h => by simp at h
  | c :: d :: cs, 0, _, _, h => by simp at h
  | c :: d :: cs, fuel + 1, _, hok, hf => by
    have hc := hok c (by simp)
    have ih := parseAlts_render (d :: cs) fuel (by simp) (fun x hx => hok x (by simp [hx])) (by simp at hf ⊢; omega)
    simp only [renderAlts, parseAlts]
    have hlen : c.length < (renderConj c ++ Tok.bar :: renderAlts (d :: cs)).length + 1 := by
      have := renderConj_length c; simp; omega
    rw [parseConj_render c _ (Tok.bar :: renderAlts (d :: cs)) hc.1 hc.2 hlen rfl]
    simp [ih]

theorem renderAlts_length (a : List (List Specs.Term)) : a.length ≤ (renderAlts a).length + 1 := by
  induction a with
  | nil => simp
  | cons c cs ih =>
    cases cs with
    | nil => simp [renderAlts]
    | cons d ds =>
      simp only [renderAlts, List.length_append, List.length_cons] at ih ⊢
      omega

theorem renderConj_pos (c : List Specs.Term) (h : c ≠ []) : 1 ≤ (renderConj c).length := by
  have := renderConj_length c
  cases c with
  | nil => exact absurd rfl h
  | cons t ts => simp at this; omega

theorem renderAlts_length' : ∀ (a : List (List Specs.Term)), (∀ c ∈ a, c ≠ []) → a.length ≤ (renderAlts a).length
  | [], _ => by simp
  | [c], h => by simpa [renderAlts] using renderConj_pos c (h c (by simp))
  | c :: d :: cs, h => by
    have ih := renderAlts_length' (d :: cs) (fun x hx => h x (by simp [hx]))
    have := renderConj_pos c (h c (by simp))
    simp only [renderAlts, List.length_append, List.length_cons] at ih ⊢
    omega

end XpmVerif.Specs
