import XpmVerif.Proofs.Sealed
/-! C14, part 2: `WF ∧ SealedClosed` is an invariant of the op state machine; sealed nodes are never
    modified (`Frame`). -/
namespace XpmVerif.Ident.Sealing
open List

theorem Edge.of_node_eq {g g' : Graph} {x m : Nat} (h : g'.node x = g.node x) (e : Edge g' x m) : Edge g x m := by
  cases e with
  | arg ha hm => exact .arg (h ▸ ha) hm
  | pre hp => exact .pre (h ▸ hp)
  | init hp => exact .init (h ▸ hp)
  | task ht hne => exact .task (h ▸ ht) hne

/-! ### requests do not touch the graph -/

theorem reqRaw_g {D : Type} (hc : HC D) (fl : Bool) (s : St D) (n : Nat) : (reqRaw hc fl s n).1.g = s.g := by
  unfold reqRaw
  dsimp only
  split
  · rfl
  · split <;> rfl

theorem reqRaws_g {D : Type} (hc : HC D) (fl : Bool) : ∀ (ns : List Nat) (s : St D), (reqRaws hc fl s ns).1.g = s.g
  | [], s => rfl
  | n :: ns, s => by
    simp only [reqRaws]
    rw [reqRaws_g hc fl ns, reqRaw_g]

theorem reqFull_g {D : Type} (hc : HC D) (fl : Bool) (s : St D) (n : Nat) : (reqFull hc fl s n).1.g = s.g := by
  unfold reqFull
  dsimp only
  split
  · exact reqRaw_g hc fl s n
  · split
    · simp only [reqRaws_g, reqRaw_g]
    · simp only [reqRaws_g, reqRaw_g]

/-! ### `setNode` on an unsealed node -/

theorem sealed_setNode {g : Graph} {n : Nat} {f : Node → Node} (hf : ∀ nd, (f nd).sealed = nd.sealed) (i : Nat) :
    ((setNode g n f).node i).sealed = (g.node i).sealed := by
  rw [node_setNode]; split
  · exact hf _
  · rfl

theorem node_setNode_ne {g : Graph} {n : Nat} {f : Node → Node} {i : Nat} (h : i ≠ n) : (setNode g n f).node i = g.node i := by
  rw [node_setNode]; simp [h]

theorem inv_setNode {g : Graph} {n : Nat} {f : Node → Node} (hwf : WF g) (hcl : SealedClosed g)
    (hns : (g.node n).sealed = false) (hf : ∀ nd, (f nd).sealed = nd.sealed)
    (hE : ∀ m, Edge (setNode g n f) n m → m < g.size) :
    WF (setNode g n f) ∧ SealedClosed (setNode g n f) := by
  constructor
  · intro x m e
    rw [size_setNode]
    by_cases hx : x = n
    · subst hx; exact hE m e
    · exact hwf x m (e.of_node_eq (node_setNode_ne hx))
  · intro x m hx e
    rw [sealed_setNode hf] at *
    have hxn : x ≠ n := by rintro rfl; rw [hns] at hx; cases hx
    exact hcl x m hx (e.of_node_eq (node_setNode_ne hxn))

/-! ### the state machine -/

/-- what the real code guarantees about an accepted operation: a value that is assigned and a pre-task
    that is added are existing configuration objects. -/
def ValidOp (size : Nat) : Op → Prop
  | .set _ _ v => ∀ m ∈ valRefs v, m < size
  | .addPretask _ p => p < size
  | _ => True

/-- the invariant. -/
def GInv (g : Graph) : Prop := WF g ∧ SealedClosed g

/-- sealed nodes of `g` are literally unchanged in `g'` (and no node is created). -/
def Frame (g g' : Graph) : Prop := g'.size = g.size ∧ ∀ m, (g.node m).sealed = true → g'.node m = g.node m

theorem Frame.refl (g : Graph) : Frame g g := ⟨rfl, fun _ _ => rfl⟩

theorem Frame.trans {a b c : Graph} (h1 : Frame a b) (h2 : Frame b c) : Frame a c := by
  refine ⟨h2.1.trans h1.1, fun m hm => ?_⟩
  have e1 := h1.2 m hm
  rw [h2.2 m (by rw [e1]; exact hm), e1]

theorem frame_setNode {g : Graph} {n : Nat} (f : Node → Node) (hns : (g.node n).sealed = false) : Frame g (setNode g n f) := by
  refine ⟨size_setNode _ _ _, fun m hm => node_setNode_ne ?_⟩
  rintro rfl; rw [hns] at hm; cases hm

theorem step_frame {D : Type} (hc : HC D) (fl : Bool) (s : St D) (o : Op) : Frame s.g (step hc fl s o).1.g := by
  cases o with
  | sealOp n => exact ⟨size_sealFrom _ _, fun m hm => node_sealFrom_of_sealed _ _ _ hm⟩
  | reqRaw n => simp only [step, reqRaw_g]; exact Frame.refl _
  | reqFull n => simp only [step, reqFull_g]; exact Frame.refl _
  | set n name v =>
    simp only [step]; split
    · exact Frame.refl _
    · exact frame_setNode _ (Bool.eq_false_iff.2 ‹¬ _›)
  | setMeta n b =>
    simp only [step]; split
    · exact Frame.refl _
    · exact frame_setNode _ (Bool.eq_false_iff.2 ‹¬ _›)
  | addPretask n p =>
    simp only [step]; split
    · exact Frame.refl _
    · exact frame_setNode _ (Bool.eq_false_iff.2 ‹¬ _›)

theorem step_size {D : Type} (hc : HC D) (fl : Bool) (s : St D) (o : Op) : (step hc fl s o).1.g.size = s.g.size :=
  (step_frame hc fl s o).1

/-- **the invariant is preserved by every operation**. -/
theorem step_inv {D : Type} (hc : HC D) (fl : Bool) (s : St D) (o : Op) (hinv : GInv s.g) (hv : ValidOp s.g.size o) :
    GInv (step hc fl s o).1.g := by
  obtain ⟨hwf, hcl⟩ := hinv
  cases o with
  | sealOp n => exact ⟨WF_sealFrom hwf n, sealedClosed_sealFrom hwf hcl n⟩
  | reqRaw n => simp only [step, reqRaw_g]; exact ⟨hwf, hcl⟩
  | reqFull n => simp only [step, reqFull_g]; exact ⟨hwf, hcl⟩
  | set n name v =>
    simp only [step]; split
    · exact ⟨hwf, hcl⟩
    · rename_i hns
      unfold GInv; dsimp only
      refine inv_setNode hwf hcl (Bool.eq_false_iff.2 hns) (fun _ => rfl) ?_
      intro m e
      have hn := e.lt; rw [size_setNode] at hn
      have hnode : (setNode s.g n (fun nd => { nd with args := nd.args.map (fun a => if a.name = name then { a with value := v } else a) })).node n
          = { s.g.node n with args := (s.g.node n).args.map (fun a => if a.name = name then { a with value := v } else a) } := by
        rw [node_setNode]; simp [hn]
      cases e with
      | arg ha hm =>
        rw [hnode] at ha
        simp only [mem_map] at ha
        obtain ⟨a0, ha0, rfl⟩ := ha
        split at hm
        · exact hv m hm
        · exact hwf n m (.arg ha0 hm)
      | pre hp => rw [hnode] at hp; exact hwf n m (.pre hp)
      | init hp => rw [hnode] at hp; exact hwf n m (.init hp)
      | task ht hne => rw [hnode] at ht; exact hwf n m (.task ht hne)
  | setMeta n b =>
    simp only [step]; split
    · exact ⟨hwf, hcl⟩
    · rename_i hns
      unfold GInv; dsimp only
      refine inv_setNode hwf hcl (Bool.eq_false_iff.2 hns) (fun _ => rfl) ?_
      intro m e
      have hn := e.lt; rw [size_setNode] at hn
      have hnode : (setNode s.g n (fun nd => { nd with mflag := b })).node n = { s.g.node n with mflag := b } := by
        rw [node_setNode]; simp [hn]
      cases e with
      | arg ha hm => rw [hnode] at ha; exact hwf n m (.arg ha hm)
      | pre hp => rw [hnode] at hp; exact hwf n m (.pre hp)
      | init hp => rw [hnode] at hp; exact hwf n m (.init hp)
      | task ht hne => rw [hnode] at ht; exact hwf n m (.task ht hne)
  | addPretask n p =>
    simp only [step]; split
    · exact ⟨hwf, hcl⟩
    · rename_i hns
      unfold GInv; dsimp only
      refine inv_setNode hwf hcl (Bool.eq_false_iff.2 hns) (fun _ => rfl) ?_
      intro m e
      have hn := e.lt; rw [size_setNode] at hn
      have hnode : (setNode s.g n (fun nd => { nd with preTasks := nd.preTasks ++ [p] })).node n
          = { s.g.node n with preTasks := (s.g.node n).preTasks ++ [p] } := by
        rw [node_setNode]; simp [hn]
      cases e with
      | arg ha hm => rw [hnode] at ha; exact hwf n m (.arg ha hm)
      | pre hp =>
        rw [hnode] at hp
        simp only [mem_append, mem_singleton] at hp
        rcases hp with hp | rfl
        · exact hwf n m (.pre hp)
        · exact hv
      | init hp => rw [hnode] at hp; exact hwf n m (.init hp)
      | task ht hne => rw [hnode] at ht; exact hwf n m (.task ht hne)

/-! ### op sequences -/

/-- run a list of operations (outputs dropped). -/
def run {D : Type} (hc : HC D) (fl : Bool) : St D → List Op → St D
  | s, [] => s
  | s, o :: os => run hc fl (step hc fl s o).1 os

theorem run_frame {D : Type} (hc : HC D) (fl : Bool) : ∀ (os : List Op) (s : St D), Frame s.g (run hc fl s os).g
  | [], _ => Frame.refl _
  | o :: os, s => (step_frame hc fl s o).trans (run_frame hc fl os _)

theorem run_inv {D : Type} (hc : HC D) (fl : Bool) : ∀ (os : List Op) (s : St D), GInv s.g →
    (∀ o ∈ os, ValidOp s.g.size o) → GInv (run hc fl s os).g
  | [], s, h, _ => h
  | o :: os, s, h, hv => by
    apply run_inv hc fl os _ (step_inv hc fl s o h (hv o mem_cons_self))
    intro o' ho'
    rw [step_size]
    exact hv o' (mem_cons_of_mem _ ho')

/-- a graph without sealed nodes satisfies `SealedClosed`. -/
theorem sealedClosed_of_unsealed {g : Graph} (h : ∀ n, (g.node n).sealed = false) : SealedClosed g := by
  intro n m hn; rw [h n] at hn; cases hn

end XpmVerif.Ident.Sealing
