import XpmVerif.Model.Clean
/-! M9 (fourth part): filters that cannot be evaluated on a job.

    `VarExpr.get` reads `params.json` lazily: on a job directory whose `params.json` is missing, truncated or has no
    `"tags"` entry (a failed job whose re-submission was interrupted during the rewrite) every access to a tag raises;
    and `re.match` raises `TypeError` on a tag whose value is not a string (`tag("lr", 12)` is stored as a JSON number).
    This file makes the evaluation of a comparison *partial* (`none` = raises), follows `LogicExpr.filter`'s evaluation
    order (right operand first, short-circuit), gives the order-independent three-valued meaning (`evalK`, Kleene) and
    models the second loop of `process()` with what it does when the filter raises (`RaisePolicy`; the pinned source has
    no handler: the command aborts, no entry enumerated after that job is touched).

    Numbers: a non-string value is kept as its text in `Job.tags` and its tag is listed in `Hz.nonStr`; it equals no
    string constant, and two non-string values are equal iff their texts are (the generators use numbers for which this
    is Python's `==`; zero — falsy under `~` — is not generated). -/
namespace XpmVerif.Filter

/-- what makes a filter raise on a job. -/
structure Hz where
  noTags : Bool := false          -- params.json missing / truncated / without "tags"
  nonStr : List String := []      -- tags whose value is not a string
  deriving Repr, DecidableEq

def Var.isTag : Var → Bool
  | .tag _ => true
  | _ => false

/-- `VarExpr.get` raises: a tag is read although the tag table cannot be. -/
def Var.raises (h : Hz) (v : Var) : Bool := h.noTags && v.isTag

/-- the value (if any) is a `str`. -/
def Var.isStr (h : Hz) : Var → Bool
  | .tag t => !h.nonStr.contains t
  | _ => true

/-- truth value of one comparison; `none` = evaluating it raises. -/
def Atom.evalP (rx : Rx) (i : Info) (h : Hz) : Atom → Option Bool
  | .eqVar v w => if v.raises h || w.raises h then none
      else some (if v.isStr h == w.isStr h then decide (v.get i = w.get i) else false)
  | .eqConst v c => if v.raises h then none else some (v.isStr h && decide (v.get i = some c))
  | .isIn v cs => if v.raises h then none else some (v.isStr h && memberOf (v.get i) cs)
  | .notIn v cs => if v.raises h then none else some (!(v.isStr h && memberOf (v.get i) cs))
  | .regex v pat => if v.raises h then none else
      match v.get i with
      | none => some false
      | some s => if v.isStr h then some (s != "" && rx pat s) else none

/-- `LogicExpr.filter` with exceptions: `y` first; `x` only when `y` does not decide. -/
def Obj.filterP (rx : Rx) (i : Info) (h : Hz) : Obj → Option Bool
  | .atom a => a.evalP rx i h
  | .logic .and y x =>
    match y.evalP rx i h with
    | none => none
    | some false => some false
    | some true => x.filterP rx i h
  | .logic .or y x =>
    match y.evalP rx i h with
    | none => none
    | some true => some true
    | some false => x.filterP rx i h

/-- three-valued truth: true, false, cannot be evaluated. -/
inductive K where
  | t
  | f
  | e
  deriving Repr, DecidableEq

def K.ofOpt : Option Bool → K
  | some true => .t
  | some false => .f
  | none => .e

def K.and : K → K → K
  | .f, _ => .f
  | _, .f => .f
  | .t, .t => .t
  | _, _ => .e

def K.or : K → K → K
  | .t, _ => .t
  | _, .t => .t
  | .f, .f => .f
  | _, _ => .e

def Op.applyK : Op → K → K → K
  | .and => K.and
  | .or => K.or

/-- documented meaning with unevaluable comparisons (Kleene): the value every evaluation order agrees on. -/
def evalK (rx : Rx) (e : Expr) (i : Info) (h : Hz) : K :=
  e.rest.foldl (fun acc p => p.1.applyK acc (K.ofOpt (p.2.evalP rx i h))) (K.ofOpt (e.first.evalP rx i h))

def Obj.evalK (rx : Rx) (i : Info) (h : Hz) : Obj → K
  | .atom a => K.ofOpt (a.evalP rx i h)
  | .logic op y x => op.applyK (x.evalK rx i h) (K.ofOpt (y.evalP rx i h))

/-! ### `process(clean=True)` when the filter may raise -/

/-- what `process()` does with a job on which the filter raises. -/
inductive RaisePolicy where
  | abort      -- no handler: the exception leaves `process()`, the command stops there
  | skips      -- handled, the job is treated as not selected
  | selects    -- handled, the job stays selected (seeded change C19g)
  deriving Repr, DecidableEq

structure HJob where
  job : Job
  hz : Hz := {}
  deriving Repr, DecidableEq

structure HLayout where
  jobs : List HJob          -- in enumeration order
  xps : List Xp
  deriving Repr, DecidableEq

def HLayout.base (L : HLayout) : Layout := { jobs := L.jobs.map (·.job), xps := L.xps }

/-- outcome of the filter test for one job: `none` = raised. -/
def passP (rx : Rx) (flt : Option Obj) (hj : HJob) : Option Bool :=
  match flt with
  | none => some true
  | some f => f.filterP rx (infoOf stateSpec hj.job) hj.hz

/-- the job reaches `rmtree` once it is past the filter. -/
def removesAfterFilter (L : HLayout) (o : CleanOpts) (hj : HJob) : Bool :=
  cleanEnabled L.base o && isFinished (stateSpec hj.job) && o.perform

/-- one iteration of the second loop; state = (aborted, entries kept so far). -/
def stepP (pol : RaisePolicy) (rx : Rx) (L : HLayout) (o : CleanOpts) (flt : Option Obj)
    (acc : Bool × List HJob) (hj : HJob) : Bool × List HJob :=
  if acc.1 then (true, acc.2 ++ [hj])
  else if !inScope L.base o hj.job then (false, acc.2 ++ [hj])
  else
    match passP rx flt hj with
    | some false => (false, acc.2 ++ [hj])
    | some true => if removesAfterFilter L o hj then (false, acc.2) else (false, acc.2 ++ [hj])
    | none =>
      match pol with
      | .abort => (true, acc.2 ++ [hj])
      | .skips => (false, acc.2 ++ [hj])
      | .selects => if removesAfterFilter L o hj then (false, acc.2) else (false, acc.2 ++ [hj])

/-- `process(clean=True)`: (the command raised, the layout afterwards). -/
def cleanP (pol : RaisePolicy) (rx : Rx) (L : HLayout) (o : CleanOpts) : Bool × HLayout :=
  let r := L.jobs.foldl (stepP pol rx L o (o.filter.map summary)) (false, [])
  (r.1, { L with jobs := r.2 })

end XpmVerif.Filter
