import XpmVerif.Model.FileTokens
/-! M2' — finer steps of two operations of `Model/FileTokens.lean` (executable, import-free apart from the model):
    `CounterToken.release` as two steps (`relBegin`: recount, cache test, cache and counter updated under the thread lock and
    the IPC lock; `relEnd`: `TokenFile.delete` = `unlink(missing_ok=True)`), and the `TokenFile.watch` thread as two steps
    (`watchDecide`: job lock obtained, job found gone; `watchUnlink`: the unlink, after the job lock has been given back).
    `Proofs/FileTokRelease.lean` relates them to the atomic `release` / `reclaim`. -/
namespace XpmVerif.FileTokens

/-- first half: recount, cache test, cache and counter updated (the file is still in the directory). -/
def relBegin (cfg : Cfg) (s : St) (p : Proc) (f : Name) : St × Bool :=
  let P := recount cfg s.disk (s.procs p)
  if f ∈ P.cache then
    ({ s with procs := upd s.procs p { P with cache := P.cache.erase f, avail := P.avail + (cfg.req f : Nat) } }, true)
  else ({ s with procs := upd s.procs p P }, false)

/-- second half, only after a successful cache test: unlink if the file is still there; the holding has ended. -/
def relEnd (s : St) (f : Name) : St × Bool :=
  if f ∈ names s.disk then
    ({ s with disk := rmFile f s.disk, procs := broadcast s.procs (.deleted f), active := s.active.erase f }, true)
  else ({ s with active := s.active.erase f }, false)

/-! ### the watcher thread as two steps (`TokenFile.watch`: decide under the job lock, unlink after giving it back) -/

/-- the thread of `q` for `f` has seen that the job is gone (job lock obtained, no pid file / process ended). -/
def watchDecide (s : St) (q : Proc) (f : Name) : St :=
  { s with procs := upd s.procs q { (s.procs q) with watch := (s.procs q).watch.erase f } }

/-- … and, at any later moment, unlinks whatever file has that name. -/
def watchUnlink (s : St) (f : Name) : St :=
  if f ∈ names s.disk then { s with disk := rmFile f s.disk, procs := broadcast s.procs (.deleted f) } else s

/-! ### the construction of a new process as two steps (`CounterToken.__init__`: first scan, observer started, second scan) -/

/-- first scan: every token file found is cached and gets a watcher thread; the observer is not started yet (events produced
    from now on are not received: `alive = false`). -/
def restartScan (cfg : Cfg) (s : St) (p : Proc) : St :=
  { s with procs := upd s.procs p { (recount cfg s.disk fresh) with alive := false } }

/-- observer started, second scan ("token files reclaimed between the first scan and the start of the watcher produce no
    event: count again"). -/
def restartWatch (cfg : Cfg) (s : St) (p : Proc) : St :=
  { s with procs := upd s.procs p (recount cfg s.disk { (s.procs p) with alive := true, pending := [] }) }

end XpmVerif.FileTokens
