import XpmVerif.Proofs.GenPath
/-! C17 — generated paths are private to the job, distinct and reproducible.
    Property theorems only.  Model: `Model/GenPath.lean` (`genpaths enc g root` = the paths generated when
    task `root` of configuration graph `g` is submitted; `enc` = how a dict key becomes a pushed key:
    `id` in the current source, `escapeKey` in the proposed repair of F16).

    Hypothesis `g.OK enc` (decidable: `Graph.okB`), forced by the proofs:
    * argument names are pairwise different plain components and are not `__pre_tasks__` / `__init_tasks__`
      (true of Python identifiers declared as experimaestro arguments);
    * generator file names are plain components (the property's "for plain file names");
    * the *encoded* keys of every dict are pairwise different plain components — with `enc = id` this
      restricts the dict keys themselves (no `/`, not `""`, `.`, `..`): that restriction is NOT part of
      the property's statement, it is finding F16 (`alias_slash_key`, `outside_dotdot_key` below);
      with `enc = escapeKey` it holds for every Python dict (`*_repaired` theorems);
    * a linked task (`__xpm__.task`) other than the object itself is sealed (`submit` sets it after
      sealing, `copy_dependencies` copies it) — an invariant of submission histories:
      `Properties/C17Hist.lean`, `submit_history_ok` (there the four theorems are restated for every
      submission of every history, with the static clauses as only hypotheses). -/
namespace XpmVerif.C17
open XpmVerif.GenPath

/-- **C17, first sentence** ("every path generated when a task is submitted resolves inside that
    task's job directory"): every generated path is relative to the job directory, is
    `out/<pushed keys…>/<file>` (just `<file>` for the task itself) with plain components only, hence
    stays below the job directory when resolved. All graphs (cycles and sharing included), all roots. -/
theorem genpath_inside (enc : Str → Str) (g : Graph) (hg : g.OK enc) (root : NodeId) (e : Entry)
    (he : e ∈ genpaths enc g root) :
    e.path.Inside ∧ e.path = ⟨false, base e.keys ++ [e.file]⟩ ∧ (∀ c ∈ e.path.comps, Plain c) := by
  obtain ⟨hk, hf, hp⟩ := genpaths_shape enc g hg root e he
  refine ⟨hp ▸ (genPath_plain e.keys e.file hk hf ▸ genPath_inside e.keys e.file hk hf), hp, ?_⟩
  rw [hp]
  intro c hc
  rcases List.mem_append.mp hc with hc | hc
  · exact base_plain hk c hc
  · simp only [List.mem_singleton] at hc; exact hc ▸ hf

/-- **C17, second sentence** ("two different generated parameters, of distinct configuration objects
    or of the same object, never receive the same path, for plain file names"): two generated
    parameters with the same path belong to the same object and were given the same file name (the
    one case the property excludes by construction, DESIGN §9 interpretation); in particular
    parameters of distinct objects never share a path, and neither do parameters of one object with
    different file names. -/
theorem genpath_injective (enc : Str → Str) (g : Graph) (hg : g.OK enc) (root : NodeId) (e1 e2 : Entry)
    (h1 : e1 ∈ genpaths enc g root) (h2 : e2 ∈ genpaths enc g root) (h : e1.path = e2.path) :
    e1.node = e2.node ∧ e1.file = e2.file :=
  let ⟨a, b, _⟩ := genpaths_inj enc g hg root e1 e2 h1 h2 h
  ⟨a, b⟩

/-- the form quoted in the property: different (object, file name) pairs get different paths. -/
theorem genpath_distinct (enc : Str → Str) (g : Graph) (hg : g.OK enc) (root : NodeId) (e1 e2 : Entry)
    (h1 : e1 ∈ genpaths enc g root) (h2 : e2 ∈ genpaths enc g root)
    (h : e1.node ≠ e2.node ∨ e1.file ≠ e2.file) : e1.path ≠ e2.path := by
  intro e
  obtain ⟨a, b⟩ := genpath_injective enc g hg root e1 e2 h1 h2 e
  rcases h with h | h
  · exact h a
  · exact h b

/-- every generated parameter (object, argument) gets exactly one path in a submission, and the
    objects sealed by a submission sit at pairwise different positions. -/
theorem genpath_once (enc : Str → Str) (g : Graph) (hg : g.OK enc) (root : NodeId) :
    ((genpaths enc g root).map (fun e => (e.node, e.arg))).Nodup
      ∧ ((sealed enc g root).map Prod.snd).Nodup ∧ ((sealed enc g root).map Prod.fst).Nodup :=
  ⟨genpaths_params_nodup enc g hg root, (sealed_ok enc g hg root).1, (sealed_ok enc g hg root).2.1⟩

/-- **C17, third sentence** ("submitting the same configuration again yields the same paths"): if `g'`
    is the configuration `g` built again — other objects (`σ` maps each object to its counterpart),
    same classes, values, container order and sharing — then the submission generates, for every
    counterpart, the same argument, file name, position and path, in the same order.  No hypothesis on
    names or keys.  (The job directory itself is a function of the identifier: C01.) -/
theorem genpath_deterministic (enc : Str → Str) (σ : NodeId → NodeId) (g g' : Graph) (hs : Graph.Same σ g g')
    (root : NodeId) : genpaths enc g' (σ root) = (genpaths enc g root).map (Entry.rename σ) :=
  genpaths_rename enc σ g g' hs root

/-- the result does not depend on the fuel of the model's walk: any fuel from the number of objects
    on gives `sealed` (so no theorem above is about a truncated walk). -/
theorem genpath_fuel_irrelevant (enc : Str → Str) (g : Graph) (root : NodeId) (fuel : Nat)
    (h : g.nodes.length ≤ fuel) : (walkNode enc g fuel [] root {}).out = sealed enc g root :=
  sealed_fuel enc g root fuel h

/-! #### the whole `submit` call: the walk of the task, then the walks of its init tasks

    `submitPaths enc g root` = everything `root.submit()` generates (graph `g`: init tasks already set):
    `ConfigInformation.submit` seals the task and then each init task under `__init_tasks__` / index.
    `genpaths` above is the first walk alone. -/

/-- for a task that is not sealed yet the late walks add nothing: its own walk reaches its init tasks. -/
theorem submit_unsealed_eq (enc : Str → Str) (g : Graph) (root : NodeId) (nd : Node) (hn : g.node root = some nd)
    (hs : nd.isSealed = false) : submitPaths enc g root = genpaths enc g root :=
  submitPaths_unsealed enc g root nd hn hs

/-- for a task sealed before its submission (as a parameter of another task, by `instance()`) the
    submission generates paths for (sub-configurations of) its init tasks only, all below
    `out/__init_tasks__/<index>/` of the job directory of the task. -/
theorem submit_of_sealed_task (enc : Str → Str) (g : Graph) (hg : g.OK enc) (root : NodeId) (nd : Node)
    (hn : g.node root = some nd) (hs : nd.isSealed = true) (e : Entry) (he : e ∈ submitPaths enc g root) :
    e.node ≠ root ∧ ∃ i t, i < nd.initTasks.length ∧ e.keys = initKey :: idxKey i :: t
      ∧ e.path = ⟨false, outStr :: initKey :: idxKey i :: t ++ [e.file]⟩ := by
  obtain ⟨hok, hsh⟩ := submitSealed_sealed_root enc g hg root nd hn hs
  obtain ⟨_, hm, _, _, _⟩ := mem_entries he
  obtain ⟨h1, i, t, hi, hk⟩ := hsh _ hm
  obtain ⟨_, _, hp⟩ := entries_shape enc g hg _ hok e he
  refine ⟨h1, i, t, hi, hk, ?_⟩
  have hk' : e.keys = initKey :: idxKey i :: t := hk
  rw [hp, hk']
  rfl

/-- **C17, first sentence, whole submission.** -/
theorem submit_inside (enc : Str → Str) (g : Graph) (hg : g.OK enc) (root : NodeId) (e : Entry)
    (he : e ∈ submitPaths enc g root) :
    e.path.Inside ∧ e.path = ⟨false, base e.keys ++ [e.file]⟩ ∧ (∀ c ∈ e.path.comps, Plain c) := by
  obtain ⟨hk, hf, hp⟩ := entries_shape enc g hg _ (submitSealed_ok enc g hg root) e he
  refine ⟨hp ▸ (genPath_plain e.keys e.file hk hf ▸ genPath_inside e.keys e.file hk hf), hp, ?_⟩
  rw [hp]
  intro c hc
  rcases List.mem_append.mp hc with hc | hc
  · exact base_plain hk c hc
  · simp only [List.mem_singleton] at hc; exact hc ▸ hf

/-- **C17, second sentence, whole submission**: also between the walk of the task and the late walks of its
    init tasks (at most one of the two generates anything). -/
theorem submit_injective (enc : Str → Str) (g : Graph) (hg : g.OK enc) (root : NodeId) (e1 e2 : Entry)
    (h1 : e1 ∈ submitPaths enc g root) (h2 : e2 ∈ submitPaths enc g root) (h : e1.path = e2.path) :
    e1.node = e2.node ∧ e1.file = e2.file :=
  let ⟨a, b, _⟩ := entries_inj enc g hg _ (submitSealed_ok enc g hg root) e1 e2 h1 h2 h
  ⟨a, b⟩

theorem submit_once (enc : Str → Str) (g : Graph) (hg : g.OK enc) (root : NodeId) :
    ((submitPaths enc g root).map (fun e => (e.node, e.arg))).Nodup
      ∧ ((submitSealed enc g root).map Prod.snd).Nodup ∧ ((submitSealed enc g root).map Prod.fst).Nodup :=
  ⟨entries_params_nodup enc g hg _ (submitSealed_ok enc g hg root).nodes, (submitSealed_ok enc g hg root).pos,
   (submitSealed_ok enc g hg root).nodes⟩

/-- **C17, third sentence, whole submission.** -/
theorem submit_deterministic (enc : Str → Str) (σ : NodeId → NodeId) (g g' : Graph) (hs : Graph.Same σ g g')
    (root : NodeId) : submitPaths enc g' (σ root) = (submitPaths enc g root).map (Entry.rename σ) :=
  submitPaths_rename enc σ g g' hs root

theorem submit_fuel_irrelevant (enc : Str → Str) (g : Graph) (root : NodeId) (fuel : Nat)
    (h : g.nodes.length ≤ fuel) : (submitWalk enc g fuel root).out = submitSealed enc g root := by
  rw [submitWalk_fuel enc g root fuel h]; rfl

/-! #### with the proposed repair of F16 (dict keys pushed through `escapeKey`) nothing is asked of dict keys -/

/-- `escapeKey` is injective and always yields a plain component. -/
theorem escapeKey_ok : (∀ k, Plain (escapeKey k)) ∧ (∀ a b, escapeKey a = escapeKey b → a = b) :=
  ⟨escapeKey_plain, fun _ _ h => escapeKey_inj h⟩

theorem genpath_inside_repaired (g : Graph) (hg : g.OKany) (root : NodeId) (e : Entry)
    (he : e ∈ genpaths escapeKey g root) : e.path.Inside :=
  (genpath_inside escapeKey g (OK_escape_of_OKany hg) root e he).1

theorem genpath_injective_repaired (g : Graph) (hg : g.OKany) (root : NodeId) (e1 e2 : Entry)
    (h1 : e1 ∈ genpaths escapeKey g root) (h2 : e2 ∈ genpaths escapeKey g root) (h : e1.path = e2.path) :
    e1.node = e2.node ∧ e1.file = e2.file :=
  genpath_injective escapeKey g (OK_escape_of_OKany hg) root e1 e2 h1 h2 h

/-! #### the edge of the domain for the current source (`enc = id`): finding F16 -/

private def s (x : String) : Str := x.toList

/-- F16 witness: `T(d={"a": Mid(m=Leaf()), "a/m": Leaf()})`; objects 0,1 = the leaves, 2 = Mid, 3 = T. -/
def g16 : Graph := ⟨[
  { gens := [(s "p", s "f.txt")] },
  { gens := [(s "p", s "f.txt")] },
  { args := [(s "m", .ref 0)] },
  { args := [(s "d", .dict [s "a", s "a/m"] [.ref 2, .ref 1])], gens := [(s "p", s "f.txt")] }]⟩

/-- **F16 (distinctness)**: in the current source a dict key containing `/` aliases a nested position —
    two distinct `Leaf` objects get the same path `out/d/a/m/f.txt`, although file names are plain and the
    dict is an ordinary Python dict (`OKany`). -/
theorem alias_slash_key :
    g16.OKany ∧ ∃ e1 ∈ genpaths id g16 3, ∃ e2 ∈ genpaths id g16 3, e1.node ≠ e2.node ∧ e1.path = e2.path := by
  refine ⟨OKany_of_okAnyB (by decide), ?_⟩
  refine ⟨⟨0, s "p", s "f.txt", [s "d", s "a", s "m"], ⟨false, [s "out", s "d", s "a", s "m", s "f.txt"]⟩⟩, by decide,
          ⟨1, s "p", s "f.txt", [s "d", s "a/m"], ⟨false, [s "out", s "d", s "a", s "m", s "f.txt"]⟩⟩, by decide, by decide, rfl⟩

/-- `T(d={"../../..": Leaf()})` -/
def gUp : Graph := ⟨[
  { gens := [(s "p", s "f.txt")] },
  { args := [(s "d", .dict [s "../../.."] [.ref 0])] }]⟩

/-- **F16 (inside)**: a dict key made of `..` components takes the generated path out of the job directory. -/
theorem outside_dotdot_key : gUp.OKany ∧ ∃ e ∈ genpaths id gUp 1, ¬ e.path.Inside := by
  refine ⟨OKany_of_okAnyB (by decide), ?_⟩
  refine ⟨⟨0, s "p", s "f.txt", [s "d", s "../../.."], ⟨false, [s "out", s "d", s "..", s "..", s "..", s "f.txt"]⟩⟩, by decide, ?_⟩
  rintro ⟨_, r, hr, _⟩
  have hn : resolveIn [] [s "out", s "d", s "..", s "..", s "..", s "f.txt"] = none := by decide
  cases hn.symm.trans hr

/-- with the repair the two witnesses are fine (instances of the `_repaired` theorems, evaluated). -/
example : (genpaths escapeKey g16 3).map (fun e => e.path.comps) =
    [[s "out", s "d", s "a", s "m", s "f.txt"], [s "out", s "d", s "a%2Fm", s "f.txt"], [s "f.txt"]] := by decide
example : (genpaths escapeKey gUp 1).map (fun e => e.path.comps) = [[s "out", s "d", s "..%2F..%2F..", s "f.txt"]] := by decide

/-! #### the edge of `genpath_deterministic`: "the same configuration" means the same object graph -/

/-- `T(a=leaf, b=leaf)` with one shared `Leaf` … -/
def gShared : Graph := ⟨[{ gens := [(s "p", s "f.txt")] }, { args := [(s "a", .ref 0), (s "b", .ref 0)] }]⟩
/-- … and `T(a=Leaf(), b=Leaf())` with two equal leaves: same content, same identifier, same job directory. -/
def gTree : Graph := ⟨[{ gens := [(s "p", s "f.txt")] }, { gens := [(s "p", s "f.txt")] }, { args := [(s "a", .ref 0), (s "b", .ref 1)] }]⟩

/-- **boundary (reported as an observation, not claimed by `genpath_deterministic`)**: paths are
    attributes of objects, given at the first visit — two configurations with equal content but different
    sharing generate different paths (`b.p` is `out/a/f.txt` in the first, `out/b/f.txt` in the second),
    and so do two dicts that share a value under two keys inserted in a different order. -/
theorem sharing_matters :
    (genpaths id gShared 1).map (fun e => e.path.comps) = [[s "out", s "a", s "f.txt"]]
    ∧ (genpaths id gTree 2).map (fun e => e.path.comps) = [[s "out", s "a", s "f.txt"], [s "out", s "b", s "f.txt"]]
    ∧ (genpaths id ⟨[{ gens := [(s "p", s "f.txt")] }, { args := [(s "d", .dict [s "a", s "b"] [.ref 0, .ref 0])] }]⟩ 1).map
        (fun e => e.path.comps) = [[s "out", s "d", s "a", s "f.txt"]]
    ∧ (genpaths id ⟨[{ gens := [(s "p", s "f.txt")] }, { args := [(s "d", .dict [s "b", s "a"] [.ref 0, .ref 0])] }]⟩ 1).map
        (fun e => e.path.comps) = [[s "out", s "d", s "b", s "f.txt"]] := by decide

/-! #### non-vacuity -/

/-- objects: 0 = shared leaf (two generated files), 1 = sealed sub-task (already submitted), 2 = pre-task,
    3 = Mid(m=0, l=[0, 4], d={"k 1": 0, "z": 4}) with pre-task 2 and linked task 1, 4 = another leaf,
    5 = task T(a=3, b=0, sub=1) with init task 6, 6 = init task (one generated file). -/
def gEx : Graph := ⟨[
  { gens := [(s "p", s "f.txt"), (s "q", s "g.txt")] },
  { gens := [(s "p", s "f.txt")], isSealed := true, task := some 1 },
  { gens := [(s "p", s "f.txt")] },
  { args := [(s "m", .ref 0), (s "l", .list [.ref 0, .ref 4]), (s "d", .dict [s "k 1", s "z"] [.ref 0, .ref 4]), (s "n", .none)],
    preTasks := [2], task := some 1 },
  { gens := [(s "p", s "f.txt")] },
  { args := [(s "a", .ref 3), (s "b", .ref 0), (s "sub", .ref 1), (s "x", .scalar)], gens := [(s "out", s "out")], initTasks := [6] },
  { gens := [(s "p", s "f.txt")] }]⟩

/-- the hypothesis of the theorems holds of it … -/
example : gEx.OK id := OK_of_okB (by decide)
/-- … and the submission generates seven paths at six positions (the shared leaf once, at its first visit;
    nothing for the sealed sub-task). -/
example : (genpaths id gEx 5).map (fun e => (e.node, e.path.comps)) =
    [(0, [s "out", s "a", s "m", s "f.txt"]), (0, [s "out", s "a", s "m", s "g.txt"]),
     (4, [s "out", s "a", s "l", s "1", s "f.txt"]),
     (2, [s "out", s "a", s "__pre_tasks__", s "0", s "f.txt"]),
     (6, [s "out", s "__init_tasks__", s "0", s "f.txt"]),
     (5, [s "out"])] := by decide

/-- `Graph.Same` is satisfiable by a non-trivial renaming: the same two objects allocated in the other order. -/
def gA : Graph := ⟨[{ gens := [(s "p", s "f.txt")] }, { args := [(s "a", .ref 0)], gens := [(s "p", s "f.txt")] }]⟩
def gB : Graph := ⟨[{ args := [(s "a", .ref 1)], gens := [(s "p", s "f.txt")] }, { gens := [(s "p", s "f.txt")] }]⟩
def swap01 (n : Nat) : Nat := if n = 0 then 1 else if n = 1 then 0 else n

private theorem swap01_inj (a b : Nat) (h : swap01 a = swap01 b) : a = b := by
  unfold swap01 at h
  split at h <;> split at h <;> (try split at h) <;> (try split at h) <;> omega

example : Graph.Same swap01 gA gB where
  inj := swap01_inj
  len := rfl
  node := by
    intro n
    match n with
    | 0 => rfl
    | 1 => rfl
    | n + 2 => simp [swap01, Graph.node, gA, gB]

example : genpaths id gB (swap01 1) = (genpaths id gA 1).map (Entry.rename swap01) := by decide

/-! ### non-vacuity of the named hypothesis `OKany` (audit round 8, item 6): a dict key that needs escaping (`a/b`) and a sub-configuration
    shared between the dict and a plain parameter -/
def gEsc : Graph := ⟨[
  { gens := [(s "p", s "f.txt")] },
  { args := [(s "d", .dict [s "a/b", s ".."] [.ref 0, .ref 0]), (s "x", .ref 0)], gens := [(s "q", s "g.txt")] }]⟩

theorem gEsc_OKany : gEsc.OKany := OKany_of_okAnyB (by decide)
/-- the two `_repaired` theorems say something on it: at least two generated paths, all inside the job directory, pairwise distinct. -/
example : 2 ≤ (genpaths escapeKey gEsc 1).length := by decide
example : ∀ e ∈ genpaths escapeKey gEsc 1, e.path.Inside := fun e he => genpath_inside_repaired gEsc gEsc_OKany 1 e he
example : ∀ e1 ∈ genpaths escapeKey gEsc 1, ∀ e2 ∈ genpaths escapeKey gEsc 1, e1.path = e2.path → e1.node = e2.node ∧ e1.file = e2.file :=
  fun e1 h1 e2 h2 h => genpath_injective_repaired gEsc gEsc_OKany 1 e1 e2 h1 h2 h

end XpmVerif.C17
