import XpmVerif.Model.Runner
/-! Invariants of M3 and their preservation by every action (helper lemmas for C10 / C05). -/
namespace XpmVerif.Runner

/-- locations at which the run lock is held by the main flow -/
def Loc.holding : Loc → Bool
  | .locked | .rmFailed | .setStarted | .callBody | .body _ | .raised0 | .bodyDone | .restTerm | .restInt | .sysExit | .touch => true
  | _ => false

/-- locations at which both Python handlers are installed and the clean-up is registered -/
def Loc.handled : Loc → Bool
  | .pre | .tryLock | .locked | .rmFailed | .setStarted | .callBody | .body _ | .raised0 | .bodyDone | .skipped => true
  | _ => false

def Loc.hasReg : Loc → Bool
  | .reg | .term | .pre | .tryLock | .locked | .rmFailed | .setStarted | .callBody | .body _ | .raised0 | .bodyDone | .skipped => true
  | _ => false

def Loc.hasTerm : Loc → Bool
  | .term | .pre | .tryLock | .locked | .rmFailed | .setStarted | .callBody | .body _ | .raised0 | .bodyDone | .skipped => true
  | _ => false

/-- between the end of the body and the success marker -/
def Loc.postBody : Loc → Bool
  | .raised0 | .bodyDone | .restTerm | .restInt | .sysExit | .touch => true
  | _ => false

/-- inside `handle_error` of an `except` clause or in interpreter finalisation -/
def Loc.failing : Loc → Bool
  | .raised1 | .herr _ _ | .fin _ _ => true
  | _ => false

/-- locations before the lock is taken -/
def Loc.early : Loc → Bool
  | .init | .reg | .term | .pre | .tryLock => true
  | _ => false

/-- where a process that was signalled inside the body can be -/
def Loc.afterBody : Loc → Bool
  | .body _ | .raised1 | .herr _ _ | .fin _ _ => true
  | _ => false

def Loc.atRmPid : Loc → Bool
  | .herr .rmPid _ | .fin (some .rmPid) _ => true
  | _ => false

def Loc.pastTest (mf : Bool) : Loc → Bool
  | .herr .write _ => !mf
  | .herr .rmPid _ | .herr .relLock _ | .herr .exit _
  | .fin (some .rmPid) _ | .fin (some .relLock) _ | .fin none _ => true
  | _ => false

def Loc.isFinNone : Loc → Bool
  | .fin none _ => true
  | _ => false

def LState.holds : LState → Bool
  | .locked | .spawned _ | .wrote _ => true
  | _ => false

def atWrite (p : Proc) : Bool := match p.hnd with | some (.write, _) => true | _ => false

/-- the runner holding the lock, if any -/
def lockRunner (sh : Shared) : Option Nat := match sh.lock with | some (.run j) => some j | _ => none

/-- an unsignalled process has no handler running, keeps the clean-up registered (repaired source) and
    has cleaned up when it is past the `cleaned` test or has exited -/
def OwnClean (mf : Bool) (p : Proc) : Prop :=
  p.signalled = false → p.hnd = none ∧
    (p.loc ≠ .init → p.reg = true) ∧ (p.loc.pastTest mf = true → p.cleaned = true) ∧
    (∀ c, p.dead = some (.code c) → p.cleaned = true)

structure Inv (cfg : Cfg) (d0 : Bool) (s : St) : Prop where
  fresh : ∀ i, s.n ≤ i → s.procs i = {}
  lockRun : ∀ i, s.sh.lock = some (.run i) → i < s.n ∧ (s.procs i).dead = none
  lockLaunch : ∀ l, s.sh.lock = some (.launch l) ↔ (s.ls l).holds = true
  held : ∀ i, i < s.n → (s.procs i).dead = none → (s.procs i).hnd = none → (s.procs i).loc.holding = true →
    s.sh.lock = some (.run i)
  notDone : ∀ i, i < s.n → (s.procs i).dead = none → (s.procs i).hnd = none → (s.procs i).loc.critical = true →
    s.sh.done = false
  handlers : ∀ i, i < s.n → ((s.procs i).loc.hasReg = true → (s.procs i).reg = true) ∧
    ((s.procs i).loc.hasTerm = true → (s.procs i).termH = true) ∧ ((s.procs i).loc.handled = true → (s.procs i).intH = true)
  completedAt : ∀ i, i < s.n → (s.procs i).loc.postBody = true → (s.procs i).completed = true
  touchedDone : ∀ i, (s.procs i).touched = true → s.sh.done = true ∧ (s.procs i).completed = true ∧ d0 = false
  doneMono : d0 = true → s.sh.done = true
  uniqueTouch : ∀ i j, (s.procs i).touched = true → (s.procs j).touched = true → i = j
  noWrite : ∀ i, i < s.n → (s.procs i).hnd = none → (s.procs i).loc.failing = false → (s.procs i).wroteFailed = none
  epochLe : ∀ i e, (s.procs i).wroteFailed = some e → e ≤ s.sh.epoch
  sigBody1 : cfg.markerFirst = true → ∀ i, i < s.n → (s.procs i).sigInBody = true → (s.procs i).dead = none → (s.procs i).wroteFailed = none →
    atWrite (s.procs i) = true ∧ inBody (s.procs i) = true ∧ s.sh.lock = some (.run i) ∧ s.sh.done = false
  sigBody2 : cfg.markerFirst = true → ∀ i, i < s.n → (s.procs i).sigInBody = true → (s.procs i).wroteFailed = some s.sh.epoch →
    s.sh.failed.isSome = true ∧ s.sh.done = false ∧ (lockRunner s.sh = none ∨ lockRunner s.sh = some i)
  sigBody3 : ∀ i, i < s.n → (s.procs i).sigInBody = true →
    (s.procs i).loc.afterBody = true ∧ (inBody (s.procs i) = true → (s.procs i).hnd ≠ none)
  unsig : ∀ i, i < s.n → (s.procs i).signalled = false → (s.procs i).hnd = none ∧ (s.procs i).sigInBody = false
  spawnedInv : ∀ l q, s.ls l = .spawned q → q < s.n ∧ ((s.procs q).signalled = false →
    (s.procs q).loc.early = true ∧ (s.procs q).cleaned = false)
  pidInv : ∀ q, q < s.n → s.sh.pid = some q → (s.procs q).signalled = false → (s.procs q).cleaned = true →
    (s.procs q).loc.atRmPid = true
  deadLoc : ∀ q c, (s.procs q).dead = some (.code c) → (s.procs q).loc.isFinNone = true
  ownClean : cfg.unregOnSuccess = false → ∀ q, q < s.n → OwnClean cfg.markerFirst (s.procs q)

theorem inv_init (cfg : Cfg) (done : Bool) (failed : Option Nat) : Inv cfg done (St.init done failed) := by
  constructor <;> simp [St.init, LState.holds, lockRunner, OwnClean]


/-- unfold one action completely; the result of the process step is named once (`hr : … = (sh', p')`) so
    that the big `match` occurs a single time -/
macro "unfold_act" : tactic => `(tactic| (
  simp only [act]
  all_goals try split
  all_goals try split
  all_goals try unfold stepProc mainStep handlerStep afterHandler finStart release markEpoch hsFirst hsAfterWrite hsAfterClean at *
  all_goals try unfold deliver finStart release hsFirst at *
  all_goals try unfold release
  all_goals try unfold newProc
  all_goals try unfold upd))

/-- case analysis on the action, everything unfolded, the result of a process step named once
    (`hr : stepProc … = (sh', p')`), then the closing tactic on every case -/
macro "act_cases" a:ident "=>" t:tacticSeq : tactic => `(tactic| (
  cases $a:ident with
  | step i =>
    simp only [act]
    split
    · generalize hr : stepProc _ _ _ _ = r at *
      obtain ⟨sh', p'⟩ := r
      unfold stepProc mainStep handlerStep afterHandler finStart release markEpoch hsFirst hsAfterWrite hsAfterClean at hr
      simp only []
      try unfold upd
      ($t)
    · ($t)
  | signal i sg =>
    simp only [act]
    split
    · generalize hr : deliver _ _ _ _ _ = r at *
      obtain ⟨sh', p'⟩ := r
      unfold deliver finStart release hsFirst at hr
      simp only []
      try unfold upd
      ($t)
    · ($t)
  | spawn o b => simp only [act]; (try unfold newProc); (try unfold upd); ($t)
  | lLock l => simp only [act]; split <;> (try unfold upd) <;> ($t)
  | lSpawn l o b => simp only [act]; split <;> (try unfold newProc) <;> (try unfold upd) <;> ($t)
  | lWrite l => simp only [act]; split <;> (try unfold upd) <;> ($t)
  | lRelease l => simp only [act]; split <;> (try unfold release) <;> (try unfold upd) <;> ($t)
  | lDie l => simp only [act]; split <;> (try unfold release) <;> (try unfold upd) <;> ($t)))

theorem act_fresh (cfg : Cfg) (d0 : Bool) (s : St) (a : Act) (h : Inv cfg d0 s) :
    ∀ i, (act cfg s a).n ≤ i → (act cfg s a).procs i = {} := by
  intro i
  have := h.fresh i
  cases a <;> unfold_act <;> grind


theorem act_lockRun (cfg : Cfg) (d0 : Bool) (s : St) (a : Act) (h : Inv cfg d0 s) :
    ∀ i, (act cfg s a).sh.lock = some (.run i) → i < (act cfg s a).n ∧ ((act cfg s a).procs i).dead = none := by
  intro i
  have := h.lockRun i
  cases a <;> unfold_act <;> grind

theorem act_lockLaunch (cfg : Cfg) (d0 : Bool) (s : St) (a : Act) (h : Inv cfg d0 s) :
    ∀ l, (act cfg s a).sh.lock = some (.launch l) ↔ ((act cfg s a).ls l).holds = true := by
  intro l
  have := h.lockLaunch l
  cases a with
  | lLock l' | lSpawn l' _ _ | lWrite l' | lRelease l' | lDie l' =>
    have := h.lockLaunch l'
    unfold_act <;> grind [LState.holds]
  | _ => unfold_act <;> grind [LState.holds]


theorem Loc.holding_of_critical (l : Loc) (h : l.critical = true) : l.holding = true := by
  cases l <;> simp_all [Loc.critical, Loc.holding]

/-- the process an action is about (0 for launcher actions) -/
def Act.proc : Act → Nat
  | .step i | .signal i _ => i
  | _ => 0

theorem act_held (cfg : Cfg) (d0 : Bool) (s : St) (a : Act) (h : Inv cfg d0 s) :
    ∀ i, i < (act cfg s a).n → ((act cfg s a).procs i).dead = none → ((act cfg s a).procs i).hnd = none →
      ((act cfg s a).procs i).loc.holding = true → (act cfg s a).sh.lock = some (.run i) := by
  intro i
  have := h.held i
  have := h.held a.proc
  have := h.lockLaunch
  cases a <;> simp only [Act.proc] at * <;> unfold_act <;> grind [Loc.holding, Loc.inTry, LState.holds]

theorem act_notDone (cfg : Cfg) (d0 : Bool) (s : St) (a : Act) (h : Inv cfg d0 s) :
    ∀ i, i < (act cfg s a).n → ((act cfg s a).procs i).dead = none → ((act cfg s a).procs i).hnd = none →
      ((act cfg s a).procs i).loc.critical = true → (act cfg s a).sh.done = false := by
  intro i
  have := h.notDone i
  have := h.notDone a.proc
  have := h.held i
  have := h.held a.proc
  have := Loc.holding_of_critical (s.procs i).loc
  cases a <;> simp only [Act.proc] at * <;> unfold_act <;> grind [Loc.holding, Loc.critical, Loc.inTry]



theorem act_handlers (cfg : Cfg) (d0 : Bool) (s : St) (a : Act) (h : Inv cfg d0 s) :
    ∀ i, i < (act cfg s a).n → (((act cfg s a).procs i).loc.hasReg = true → ((act cfg s a).procs i).reg = true) ∧
      (((act cfg s a).procs i).loc.hasTerm = true → ((act cfg s a).procs i).termH = true) ∧
      (((act cfg s a).procs i).loc.handled = true → ((act cfg s a).procs i).intH = true) := by
  intro i
  have := h.handlers i
  cases a <;> unfold_act <;> grind [Loc.handled, Loc.inTry, Loc.hasReg, Loc.hasTerm]


theorem act_completedAt (cfg : Cfg) (d0 : Bool) (s : St) (a : Act) (h : Inv cfg d0 s) :
    ∀ i, i < (act cfg s a).n → ((act cfg s a).procs i).loc.postBody = true → ((act cfg s a).procs i).completed = true := by
  intro i
  have := h.completedAt i
  cases a <;> unfold_act <;> grind [Loc.postBody, Loc.inTry]


theorem act_doneMono (cfg : Cfg) (d0 : Bool) (s : St) (a : Act) (h : Inv cfg d0 s) :
    d0 = true → (act cfg s a).sh.done = true := by
  have := h.doneMono
  cases a <;> unfold_act <;> grind

theorem act_touchedDone (cfg : Cfg) (d0 : Bool) (s : St) (a : Act) (h : Inv cfg d0 s) :
    ∀ i, ((act cfg s a).procs i).touched = true →
      (act cfg s a).sh.done = true ∧ ((act cfg s a).procs i).completed = true ∧ d0 = false := by
  intro i
  have := h.touchedDone i
  have := h.doneMono
  have := h.notDone a.proc
  have := h.completedAt a.proc
  cases a <;> simp only [Act.proc] at * <;> unfold_act <;> grind [Loc.critical, Loc.postBody]

theorem act_uniqueTouch (cfg : Cfg) (d0 : Bool) (s : St) (a : Act) (h : Inv cfg d0 s) :
    ∀ i j, ((act cfg s a).procs i).touched = true → ((act cfg s a).procs j).touched = true → i = j := by
  intro i j
  have := h.uniqueTouch i j
  have := h.touchedDone i
  have := h.touchedDone j
  have := h.notDone a.proc
  have := h.fresh s.n
  cases a <;> simp only [Act.proc] at * <;> unfold_act <;> grind [Loc.critical]

theorem act_unsig (cfg : Cfg) (d0 : Bool) (s : St) (a : Act) (h : Inv cfg d0 s) :
    ∀ i, i < (act cfg s a).n → ((act cfg s a).procs i).signalled = false →
      ((act cfg s a).procs i).hnd = none ∧ ((act cfg s a).procs i).sigInBody = false := by
  intro i
  have := h.unsig i
  cases a <;> unfold_act <;> grind

theorem act_sigBody3 (cfg : Cfg) (d0 : Bool) (s : St) (a : Act) (h : Inv cfg d0 s) :
    ∀ i, i < (act cfg s a).n → ((act cfg s a).procs i).sigInBody = true →
      ((act cfg s a).procs i).loc.afterBody = true ∧ (inBody ((act cfg s a).procs i) = true → ((act cfg s a).procs i).hnd ≠ none) := by
  intro i
  have := h.sigBody3 i
  cases a <;> unfold_act <;> grind [Loc.afterBody, Loc.inTry, inBody, noHandler]


theorem act_noWrite (cfg : Cfg) (d0 : Bool) (s : St) (a : Act) (h : Inv cfg d0 s) :
    ∀ i, i < (act cfg s a).n → ((act cfg s a).procs i).hnd = none → ((act cfg s a).procs i).loc.failing = false →
      ((act cfg s a).procs i).wroteFailed = none := by
  intro i
  have := h.noWrite i
  have := h.fresh s.n
  cases a <;> unfold_act <;> grind [Loc.failing, Loc.inTry]

theorem act_epochLe (cfg : Cfg) (d0 : Bool) (s : St) (a : Act) (h : Inv cfg d0 s) :
    ∀ i e, ((act cfg s a).procs i).wroteFailed = some e → e ≤ (act cfg s a).sh.epoch := by
  intro i e
  have := h.epochLe i e
  cases a <;> unfold_act <;> grind

theorem act_sigBody1 (cfg : Cfg) (d0 : Bool) (s : St) (a : Act) (h : Inv cfg d0 s) (hm : cfg.markerFirst = true) :
    ∀ i, i < (act cfg s a).n → ((act cfg s a).procs i).sigInBody = true → ((act cfg s a).procs i).dead = none →
      ((act cfg s a).procs i).wroteFailed = none →
      atWrite ((act cfg s a).procs i) = true ∧ inBody ((act cfg s a).procs i) = true ∧
      (act cfg s a).sh.lock = some (.run i) ∧ (act cfg s a).sh.done = false := by
  intro i
  have := h.sigBody1 hm i
  have := h.held i
  have := h.notDone i
  have := h.held a.proc
  have := h.handlers i
  have := h.lockLaunch
  have := h.fresh s.n
  cases a <;> simp only [Act.proc] at * <;> unfold_act <;>
    grind (splits := 30) [atWrite, inBody, noHandler, Loc.holding, Loc.critical, Loc.handled, Loc.inTry, LState.holds]

set_option maxHeartbeats 2000000 in
theorem act_sigBody2 (cfg : Cfg) (d0 : Bool) (s : St) (a : Act) (h : Inv cfg d0 s) (hm : cfg.markerFirst = true) :
    ∀ i, i < (act cfg s a).n → ((act cfg s a).procs i).sigInBody = true →
      ((act cfg s a).procs i).wroteFailed = some (act cfg s a).sh.epoch →
      (act cfg s a).sh.failed.isSome = true ∧ (act cfg s a).sh.done = false ∧
      (lockRunner (act cfg s a).sh = none ∨ lockRunner (act cfg s a).sh = some i) := by
  intro i
  have := h.sigBody2 hm i
  have := h.sigBody1 hm i
  have := h.sigBody3 i
  have := h.noWrite i
  have := h.epochLe i
  have := h.held a.proc
  have := h.fresh s.n
  cases a <;> simp only [Act.proc] at * <;> unfold_act <;>
    grind (splits := 30) [atWrite, inBody, noHandler, Loc.holding, Loc.failing, Loc.afterBody, Loc.inTry, lockRunner]


theorem act_spawnedInv (cfg : Cfg) (d0 : Bool) (s : St) (a : Act) (h : Inv cfg d0 s) :
    ∀ l q, (act cfg s a).ls l = .spawned q → q < (act cfg s a).n ∧ (((act cfg s a).procs q).signalled = false →
      ((act cfg s a).procs q).loc.early = true ∧ ((act cfg s a).procs q).cleaned = false) := by
  intro l q
  have := h.spawnedInv l q
  have := h.lockLaunch l
  have := h.unsig q
  cases a <;> unfold_act <;> grind (splits := 30) [Loc.early, Loc.inTry, LState.holds]

theorem act_pidInv (cfg : Cfg) (d0 : Bool) (s : St) (a : Act) (h : Inv cfg d0 s) :
    ∀ q, q < (act cfg s a).n → (act cfg s a).sh.pid = some q → ((act cfg s a).procs q).signalled = false →
      ((act cfg s a).procs q).cleaned = true → ((act cfg s a).procs q).loc.atRmPid = true := by
  intro q
  have := h.pidInv q
  have := h.unsig q
  have := h.spawnedInv
  cases a <;> unfold_act <;> grind (splits := 30) [Loc.atRmPid, Loc.inTry]

theorem act_deadLoc (cfg : Cfg) (d0 : Bool) (s : St) (a : Act) (h : Inv cfg d0 s) :
    ∀ q c, ((act cfg s a).procs q).dead = some (.code c) → ((act cfg s a).procs q).loc.isFinNone = true := by
  intro q c
  have := h.deadLoc q c
  cases a <;> unfold_act <;> grind (splits := 30) [Loc.isFinNone, Loc.inTry]

/-- lifting of an invariant that only looks at one process record -/
theorem act_local (cfg : Cfg) (P : Proc → Prop) (hnew : ∀ o b, P (newProc o b))
    (hstep : ∀ i sh p, P p → P (stepProc cfg i sh p).2)
    (hsig : ∀ i sh p sg, P p → P (deliver cfg i sh p sg).2)
    (s : St) (a : Act) (h : ∀ q, q < s.n → P (s.procs q)) :
    ∀ q, q < (act cfg s a).n → P ((act cfg s a).procs q) := by
  intro q
  have := h q
  cases a with
  | step i =>
    have := hstep i s.sh (s.procs i); have := h i
    simp only [act]; split <;> (try simp only [upd]) <;> grind
  | signal i sg =>
    have := hsig i s.sh (s.procs i) sg; have := h i
    simp only [act]; split <;> (try simp only [upd]) <;> grind
  | spawn o b => have := hnew o b; simp only [act, upd]; grind
  | lSpawn l o b => have := hnew o b; simp only [act]; split <;> (try simp only [upd]) <;> grind
  | lLock l => simp only [act]; split <;> grind
  | lWrite l => simp only [act]; split <;> grind
  | lRelease l => simp only [act]; split <;> grind
  | lDie l => simp only [act]; split <;> grind

theorem step_ownClean (cfg : Cfg) (hc : cfg.unregOnSuccess = false) (i : Nat) (sh : Shared) (p : Proc)
    (ih : OwnClean cfg.markerFirst p) : OwnClean cfg.markerFirst (stepProc cfg i sh p).2 := by
  unfold OwnClean at *
  cases hr : stepProc cfg i sh p with
  | mk sh' p' =>
  unfold stepProc mainStep handlerStep afterHandler finStart release markEpoch hsFirst hsAfterWrite hsAfterClean at hr
  simp only
  intro hs
  cases hmf : cfg.markerFirst <;> simp only [hmf, if_true, if_false, Bool.false_eq_true] at hr ih ⊢ <;>
    (refine ⟨?_, ?_, ?_, ?_⟩ <;> grind (splits := 30) [Loc.pastTest, Loc.inTry])

theorem deliver_ownClean (cfg : Cfg) (i : Nat) (sh : Shared) (p : Proc) (sg : Sig)
    (ih : OwnClean cfg.markerFirst p) : OwnClean cfg.markerFirst (deliver cfg i sh p sg).2 := by
  unfold OwnClean at *
  cases hr : deliver cfg i sh p sg with
  | mk sh' p' =>
  unfold deliver finStart release hsFirst at hr
  simp only
  intro hs
  refine ⟨?_, ?_, ?_, ?_⟩ <;> grind (splits := 30) [Loc.pastTest, Loc.inTry]


theorem act_ownClean (cfg : Cfg) (d0 : Bool) (s : St) (a : Act) (h : Inv cfg d0 s) :
    cfg.unregOnSuccess = false → ∀ q, q < (act cfg s a).n → OwnClean cfg.markerFirst ((act cfg s a).procs q) := fun hc =>
  act_local cfg (OwnClean cfg.markerFirst) (by intro o b; simp [OwnClean, newProc, Loc.pastTest])
    (fun i sh p => step_ownClean cfg hc i sh p) (deliver_ownClean cfg) s a (h.ownClean hc)

theorem inv_act (cfg : Cfg) (d0 : Bool) (s : St) (a : Act) (h : Inv cfg d0 s) : Inv cfg d0 (act cfg s a) where
  fresh := act_fresh cfg d0 s a h
  lockRun := act_lockRun cfg d0 s a h
  lockLaunch := act_lockLaunch cfg d0 s a h
  held := act_held cfg d0 s a h
  notDone := act_notDone cfg d0 s a h
  handlers := act_handlers cfg d0 s a h
  completedAt := act_completedAt cfg d0 s a h
  touchedDone := act_touchedDone cfg d0 s a h
  doneMono := act_doneMono cfg d0 s a h
  uniqueTouch := act_uniqueTouch cfg d0 s a h
  noWrite := act_noWrite cfg d0 s a h
  epochLe := act_epochLe cfg d0 s a h
  sigBody1 := act_sigBody1 cfg d0 s a h
  sigBody2 := act_sigBody2 cfg d0 s a h
  sigBody3 := act_sigBody3 cfg d0 s a h
  unsig := act_unsig cfg d0 s a h
  spawnedInv := act_spawnedInv cfg d0 s a h
  pidInv := act_pidInv cfg d0 s a h
  deadLoc := act_deadLoc cfg d0 s a h
  ownClean := act_ownClean cfg d0 s a h

theorem inv_run (cfg : Cfg) (d0 : Bool) (acts : List Act) (s : St) (h : Inv cfg d0 s) : Inv cfg d0 (run cfg s acts) := by
  induction acts generalizing s with
  | nil => exact h
  | cons a as ih => exact ih _ (inv_act cfg d0 s a h)

/-- states reachable from a job directory with the given markers -/
def Reach (cfg : Cfg) (done : Bool) (failed : Option Nat) (s : St) : Prop :=
  ∃ acts, s = run cfg (St.init done failed) acts

theorem inv_reach {cfg : Cfg} {done : Bool} {failed : Option Nat} {s : St} (h : Reach cfg done failed s) :
    Inv cfg done s := by
  obtain ⟨acts, rfl⟩ := h
  exact inv_run cfg done acts _ (inv_init cfg done failed)


theorem act_n_mono (cfg : Cfg) (s : St) (a : Act) : s.n ≤ (act cfg s a).n := by
  cases a <;> simp only [act] <;> (try split) <;> simp <;> (try split) <;> simp

theorem act_touched_mono (cfg : Cfg) (s : St) (a : Act) (i : Nat) (hi : i < s.n) (h : (s.procs i).touched = true) :
    ((act cfg s a).procs i).touched = true := by
  act_cases a => grind (splits := 30)

def DoneOrigin (d0 : Bool) (s : St) : Prop := s.sh.done = true → d0 = true ∨ ∃ i, i < s.n ∧ (s.procs i).touched = true

theorem act_doneOrigin (cfg : Cfg) (d0 : Bool) (s : St) (a : Act) (h : DoneOrigin d0 s) : DoneOrigin d0 (act cfg s a) := by
  intro hd
  by_cases hs : s.sh.done = true
  · rcases h hs with h0 | ⟨i, hi, ht⟩
    · exact Or.inl h0
    · exact Or.inr ⟨i, Nat.lt_of_lt_of_le hi (act_n_mono cfg s a), act_touched_mono cfg s a i hi ht⟩
  · right
    revert hd
    cases a with
    | step i =>
      simp only [act]
      split
      · intro hd
        refine ⟨i, by assumption, ?_⟩
        revert hd
        generalize hr : stepProc _ _ _ _ = r
        obtain ⟨sh', p'⟩ := r
        unfold stepProc mainStep handlerStep afterHandler finStart release markEpoch hsFirst hsAfterWrite hsAfterClean at hr
        simp only [upd]
        grind (splits := 30)
      · grind
    | signal i sg =>
      simp only [act]
      split
      · generalize hr : deliver _ _ _ _ _ = r
        obtain ⟨sh', p'⟩ := r
        unfold deliver finStart release hsFirst at hr
        grind (splits := 30)
      · grind
    | spawn o b => simp only [act]; grind
    | lLock l => simp only [act]; split <;> grind
    | lSpawn l o b => simp only [act]; split <;> grind
    | lWrite l => simp only [act]; split <;> grind
    | lRelease l => simp only [act]; unfold release; split <;> grind
    | lDie l => simp only [act]; unfold release; split <;> grind

theorem doneOrigin_reach {cfg : Cfg} {done : Bool} {failed : Option Nat} {s : St} (h : Reach cfg done failed s) :
    DoneOrigin done s := by
  obtain ⟨acts, rfl⟩ := h
  suffices ∀ (acts : List Act) (s : St), DoneOrigin done s → DoneOrigin done (run cfg s acts) from
    this acts _ (by intro hd; left; simpa [St.init] using hd)
  intro acts
  induction acts with
  | nil => intro s h; exact h
  | cons a as ih => intro s h; exact ih _ (act_doneOrigin cfg done s a h)

/-- a filter that is satisfied by at most one element of a duplicate-free list has length ≤ 1 -/
theorem filter_le_one {α : Type} (p : α → Bool) (l : List α) (hn : l.Nodup)
    (hu : ∀ a b, a ∈ l → b ∈ l → p a = true → p b = true → a = b) : (l.filter p).length ≤ 1 := by
  induction l with
  | nil => simp
  | cons x xs ih =>
    have hn' := List.nodup_cons.mp hn
    have ih' := ih hn'.2 (fun a b ha hb => hu a b (List.mem_cons_of_mem _ ha) (List.mem_cons_of_mem _ hb))
    by_cases hx : p x = true
    · have : xs.filter p = [] := by
        apply List.filter_eq_nil_iff.mpr
        intro a ha hpa
        have := hu x a (List.mem_cons_self) (List.mem_cons_of_mem _ ha) hx hpa
        exact hn'.1 (this ▸ ha)
      simp [List.filter, hx, this]
    · simp [List.filter, hx]; exact ih'


def Loc.afterTouch : Loc → Bool
  | .reraise | .fin _ _ => true
  | _ => false

theorem Loc.afterTouch_not_inTry (l : Loc) (h : l.afterTouch = true) : l.inTry = false := by
  cases l <;> simp_all [Loc.afterTouch, Loc.inTry]

/-- a process that wrote the success marker is leaving; one signalled inside the body never writes it -/
def TouchLocal (p : Proc) : Prop :=
  (p.touched = true → p.loc.afterTouch = true) ∧ (p.sigInBody = true → p.loc.afterBody = true ∧ (inBody p = true → p.hnd ≠ none) ∧ p.touched = false)

theorem step_touchLocal (cfg : Cfg) (i : Nat) (sh : Shared) (p : Proc) (ih : TouchLocal p) :
    TouchLocal (stepProc cfg i sh p).2 := by
  unfold TouchLocal at *
  cases hr : stepProc cfg i sh p with
  | mk sh' p' =>
  unfold stepProc mainStep handlerStep afterHandler finStart release markEpoch hsFirst hsAfterWrite hsAfterClean at hr
  simp only
  have := Loc.afterTouch_not_inTry p.loc
  refine ⟨?_, ?_⟩ <;> grind (splits := 30) [Loc.afterTouch, Loc.afterBody, Loc.inTry, inBody]

theorem deliver_touchLocal (cfg : Cfg) (i : Nat) (sh : Shared) (p : Proc) (sg : Sig) (ih : TouchLocal p) :
    TouchLocal (deliver cfg i sh p sg).2 := by
  unfold TouchLocal at *
  cases hr : deliver cfg i sh p sg with
  | mk sh' p' =>
  unfold deliver finStart release hsFirst at hr
  simp only
  refine ⟨?_, ?_⟩ <;> grind (splits := 30) [Loc.afterTouch, Loc.afterBody, Loc.inTry, inBody, noHandler]

theorem touchLocal_reach {cfg : Cfg} {done : Bool} {failed : Option Nat} {s : St} (h : Reach cfg done failed s) :
    ∀ q, q < s.n → TouchLocal (s.procs q) := by
  obtain ⟨acts, rfl⟩ := h
  suffices ∀ (acts : List Act) (s : St), (∀ q, q < s.n → TouchLocal (s.procs q)) →
      ∀ q, q < (run cfg s acts).n → TouchLocal ((run cfg s acts).procs q) from
    this acts _ (by intro q hq; simp [St.init] at hq)
  intro acts
  induction acts with
  | nil => intro s h; exact h
  | cons a as ih =>
    intro s h
    exact ih _ (act_local cfg TouchLocal (by intro o b; simp [TouchLocal, newProc]) (step_touchLocal cfg)
      (deliver_touchLocal cfg) s a h)


/-- `k` consecutive steps of one process, seen on the shared state and its own record -/
def soloIter (cfg : Cfg) (i : Nat) : Nat → Shared × Proc → Shared × Proc
  | 0, x => x
  | k + 1, x => soloIter cfg i k (stepProc cfg i x.1 x.2)

theorem upd_upd {α : Type} (f : Nat → α) (i : Nat) (a b : α) : upd (upd f i a) i b = upd f i b := by
  funext j; simp only [upd]; split <;> rfl

theorem runAlone_eq (cfg : Cfg) (i k : Nat) (s : St) (hi : i < s.n) :
    runAlone cfg i k s =
      { s with sh := (soloIter cfg i k (s.sh, s.procs i)).1, procs := upd s.procs i (soloIter cfg i k (s.sh, s.procs i)).2 } := by
  induction k generalizing s with
  | zero =>
    simp only [runAlone, soloIter]
    have : upd s.procs i (s.procs i) = s.procs := by funext j; simp only [upd]; split <;> simp_all
    rw [this]
  | succ k ih =>
    simp only [runAlone, soloIter]
    rw [ih (act cfg s (.step i)) (by simp [act, hi])]
    simp [act, hi, upd_upd, upd]

theorem soloIter_add (cfg : Cfg) (i a b : Nat) (x : Shared × Proc) :
    soloIter cfg i (a + b) x = soloIter cfg i b (soloIter cfg i a x) := by
  induction a generalizing x with
  | zero => simp [soloIter]
  | succ a ih => rw [Nat.succ_add]; simp only [soloIter]; exact ih _

theorem soloIter_dead (cfg : Cfg) (i k : Nat) (sh : Shared) (p : Proc) (e : Exit) (h : p.dead = some e) :
    soloIter cfg i k (sh, p) = (sh, p) := by
  induction k with
  | zero => rfl
  | succ k ih => simp only [soloIter, stepProc, h]; exact ih

/-- the body loop: `d` internal points -/
theorem soloIter_body (cfg : Cfg) (i d j : Nat) (sh : Shared) (p : Proc) (hd : p.dead = none) (hh : p.hnd = none)
    (hl : p.loc = .body j) (hb : j + d ≤ p.blen) :
    soloIter cfg i d (sh, p) = (sh, { p with loc := .body (j + d) }) := by
  induction d generalizing j p with
  | zero => simp [soloIter, ← hl]
  | succ d ih =>
    have hlt : j < p.blen := by omega
    have h1 : stepProc cfg i sh p = (sh, { p with loc := .body (j + 1) }) := by
      simp [stepProc, hd, hh, mainStep, hl, hlt]
    simp only [soloIter, h1]
    rw [ih (j + 1) { p with loc := .body (j + 1) } hd hh rfl (by simp; omega)]
    simp [Nat.add_assoc, Nat.add_comm 1 d]


/-- a fresh process running alone in a directory that shows the success marker: 11 steps, no body -/
theorem solo_done (cfg : Cfg) (i : Nat) (sh : Shared) (o : Outcome) (b : Nat) (hl : sh.lock = none) (hd : sh.done = true) :
    (soloIter cfg i 11 (sh, newProc o b)).1.starts = sh.starts ∧ (soloIter cfg i 11 (sh, newProc o b)).1.done = true ∧
    (soloIter cfg i 11 (sh, newProc o b)).1.lock = none ∧ (soloIter cfg i 11 (sh, newProc o b)).1.failed = sh.failed ∧
    (soloIter cfg i 11 (sh, newProc o b)).1.pid = none ∧ (soloIter cfg i 11 (sh, newProc o b)).2.dead = some (.code 0) := by
  simp [soloIter, stepProc, mainStep, newProc, finStart, release, hl, hd]

/-- … and in a directory without success marker: it reaches the body after 9 steps with one more body start -/
theorem solo_start (cfg : Cfg) (i : Nat) (sh : Shared) (o : Outcome) (b : Nat) (hl : sh.lock = none) (hd : sh.done = false) :
    soloIter cfg i 9 (sh, newProc o b) =
      ({ sh with lock := some (.run i), epoch := sh.epoch + 1, failed := none, starts := sh.starts + 1 },
       { newProc o b with loc := .body 0, reg := true, termH := true, intH := true, started := true }) := by
  simp [soloIter, stepProc, mainStep, newProc, hl, hd]

theorem solo_run_ok (cfg : Cfg) (i : Nat) (sh : Shared) (b : Nat) (hl : sh.lock = none) (hd : sh.done = false) :
    (soloIter cfg i (b + 21) (sh, newProc .ok b)).1.starts = sh.starts + 1 ∧
    (soloIter cfg i (b + 21) (sh, newProc .ok b)).1.done = true ∧
    (soloIter cfg i (b + 21) (sh, newProc .ok b)).1.lock = none ∧
    (soloIter cfg i (b + 21) (sh, newProc .ok b)).1.failed = none ∧
    (soloIter cfg i (b + 21) (sh, newProc .ok b)).1.pid = (if cfg.unregOnSuccess then sh.pid else none) ∧
    (soloIter cfg i (b + 21) (sh, newProc .ok b)).2.dead = some (.code 0) ∧
    (soloIter cfg i (b + 21) (sh, newProc .ok b)).2.completed = true := by
  have h21 : b + 21 = 9 + (b + 12) := by omega
  rw [h21, soloIter_add, solo_start cfg i sh .ok b hl hd, soloIter_add,
    soloIter_body cfg i b 0 _ _ rfl rfl rfl (by simp [newProc])]
  cases hu : cfg.unregOnSuccess <;>
    simp [soloIter, stepProc, mainStep, newProc, finStart, release, hu]


/-- nobody has cleaned up before the failure path or a handler -/
def NoClean (p : Proc) : Prop := p.hnd = none → p.loc.failing = false → p.cleaned = false

theorem step_noClean (cfg : Cfg) (i : Nat) (sh : Shared) (p : Proc) (ih : NoClean p) : NoClean (stepProc cfg i sh p).2 := by
  unfold NoClean at *
  cases hr : stepProc cfg i sh p with
  | mk sh' p' =>
  unfold stepProc mainStep handlerStep afterHandler finStart release markEpoch hsFirst hsAfterWrite hsAfterClean at hr
  simp only
  grind (splits := 30) [Loc.failing, Loc.inTry]

theorem deliver_noClean (cfg : Cfg) (i : Nat) (sh : Shared) (p : Proc) (sg : Sig) (ih : NoClean p) : NoClean (deliver cfg i sh p sg).2 := by
  unfold NoClean at *
  cases hr : deliver cfg i sh p sg with
  | mk sh' p' =>
  unfold deliver finStart release hsFirst at hr
  simp only
  grind (splits := 30) [Loc.failing, Loc.inTry]

theorem noClean_reach {cfg : Cfg} {done : Bool} {failed : Option Nat} {s : St} (h : Reach cfg done failed s) :
    ∀ q, q < s.n → NoClean (s.procs q) := by
  obtain ⟨acts, rfl⟩ := h
  suffices ∀ (acts : List Act) (s : St), (∀ q, q < s.n → NoClean (s.procs q)) →
      ∀ q, q < (run cfg s acts).n → NoClean ((run cfg s acts).procs q) from
    this acts _ (by intro q hq; simp [St.init] at hq)
  intro acts
  induction acts with
  | nil => intro s h; exact h
  | cons a as ih =>
    intro s h
    exact ih _ (act_local cfg NoClean (by intro o b; simp [NoClean, newProc]) (step_noClean cfg) (deliver_noClean cfg) s a h)

/-- a process interrupted inside the body by a handled signal, running alone: 11 steps to its death -/
theorem solo_signal (cfg : Cfg) (i : Nat) (sh : Shared) (p : Proc) (k c : Nat)
    (hd : p.dead = none) (hl : p.loc = .body k) (hh : p.hnd = some (hsFirst cfg, c)) (hlock : sh.lock = some (.run i))
    (hdone : sh.done = false) (hreg : p.reg = true) (hcl : p.cleaned = false) :
    (soloIter cfg i 11 (sh, p)).1.failed = some 1 ∧ (soloIter cfg i 11 (sh, p)).1.done = false ∧
    (soloIter cfg i 11 (sh, p)).1.lock = none ∧ (soloIter cfg i 11 (sh, p)).1.pid = none ∧
    (soloIter cfg i 11 (sh, p)).2.dead = some (.code 1) := by
  cases hmf : cfg.markerFirst <;> simp only [hsFirst, hmf, if_true, if_false, Bool.false_eq_true] at hh <;>
    simp [soloIter, stepProc, handlerStep, mainStep, afterHandler, finStart, release, markEpoch, Loc.inTry,
      hsFirst, hsAfterWrite, hsAfterClean, hmf, hd, hl, hh, hlock, hdone, hreg, hcl]


/-- in a quiescent reachable state (every runner dead, no launcher in its critical section) the lock is free -/
theorem quiescent_lock_free {cfg : Cfg} {done : Bool} {failed : Option Nat} {s : St} (h : Reach cfg done failed s)
    (hq : ∀ i, i < s.n → (s.procs i).dead ≠ none) (hlq : ∀ l, (s.ls l).holds = false) : s.sh.lock = none := by
  have inv := inv_reach h
  cases hl : s.sh.lock with
  | none => rfl
  | some ho =>
    cases ho with
    | run i => have := inv.lockRun i hl; exact absurd this.2 (hq i this.1)
    | launch l => have := (inv.lockLaunch l).mp hl; simp [hlq l] at this

/-- `handle_error` (as a signal handler or called from an `except` clause) past its first action has written the marker -/
def MarkerFirstLocal (p : Proc) : Prop :=
  (∀ st c, p.hnd = some (st, c) → st ≠ .write → p.wroteFailed ≠ none) ∧
  (∀ st c, p.loc = .herr st c → st ≠ .write → p.wroteFailed ≠ none)

theorem step_markerFirstLocal (cfg : Cfg) (hm : cfg.markerFirst = true) (i : Nat) (sh : Shared) (p : Proc)
    (ih : MarkerFirstLocal p) : MarkerFirstLocal (stepProc cfg i sh p).2 := by
  unfold MarkerFirstLocal at *
  cases hr : stepProc cfg i sh p with
  | mk sh' p' =>
  unfold stepProc mainStep handlerStep afterHandler finStart release markEpoch hsFirst hsAfterWrite hsAfterClean at hr
  simp only [hm, if_true] at hr
  simp only
  refine ⟨?_, ?_⟩ <;> grind (splits := 30) [Loc.inTry]

theorem deliver_markerFirstLocal (cfg : Cfg) (hm : cfg.markerFirst = true) (i : Nat) (sh : Shared) (p : Proc) (sg : Sig)
    (ih : MarkerFirstLocal p) : MarkerFirstLocal (deliver cfg i sh p sg).2 := by
  unfold MarkerFirstLocal at *
  cases hr : deliver cfg i sh p sg with
  | mk sh' p' =>
  unfold deliver finStart release hsFirst at hr
  simp only [hm, if_true] at hr
  simp only
  refine ⟨?_, ?_⟩ <;> grind (splits := 30) [Loc.inTry]

theorem markerFirstLocal_reach {cfg : Cfg} (hm : cfg.markerFirst = true) {done : Bool} {failed : Option Nat} {s : St}
    (h : Reach cfg done failed s) : ∀ q, q < s.n → MarkerFirstLocal (s.procs q) := by
  obtain ⟨acts, rfl⟩ := h
  suffices ∀ (acts : List Act) (s : St), (∀ q, q < s.n → MarkerFirstLocal (s.procs q)) →
      ∀ q, q < (run cfg s acts).n → MarkerFirstLocal ((run cfg s acts).procs q) from
    this acts _ (by intro q hq; simp [St.init] at hq)
  intro acts
  induction acts with
  | nil => intro s h; exact h
  | cons a as ih =>
    intro s h
    exact ih _ (act_local cfg MarkerFirstLocal (by intro o b; simp [MarkerFirstLocal, newProc])
      (step_markerFirstLocal cfg hm) (deliver_markerFirstLocal cfg hm) s a h)

/-- a process signalled inside the body that has begun to clean up has written the failure marker -/
def MBC (s : St) : Prop := ∀ i, i < s.n → (s.procs i).sigInBody = true → (s.procs i).cleaned = true → (s.procs i).wroteFailed ≠ none

theorem act_mbc (cfg : Cfg) (d0 : Bool) (s : St) (a : Act) (h : Inv cfg d0 s) (hm : cfg.markerFirst = true)
    (hnc : ∀ q, q < s.n → NoClean (s.procs q)) (ih : MBC s) : MBC (act cfg s a) := by
  intro i
  have := ih i
  have := h.sigBody1 hm i
  have := h.sigBody3 i
  have := hnc i
  have := h.fresh s.n
  unfold NoClean at *
  act_cases a => (simp only [hm, if_true] at *; grind (splits := 30) [atWrite, inBody, noHandler, Loc.failing, Loc.afterBody, Loc.inTry])

theorem mbc_reach {cfg : Cfg} (hm : cfg.markerFirst = true) {done : Bool} {failed : Option Nat} {s : St}
    (h : Reach cfg done failed s) : MBC s := by
  obtain ⟨acts, rfl⟩ := h
  suffices ∀ (acts : List Act) (s : St), Inv cfg done s → (∀ q, q < s.n → NoClean (s.procs q)) → MBC s →
      MBC (run cfg s acts) from
    this acts _ (inv_init cfg done failed) (by intro q hq; simp [St.init] at hq) (by intro q hq; simp [St.init] at hq)
  intro acts
  induction acts with
  | nil => intro s _ _ h; exact h
  | cons a as ih =>
    intro s hi hn hb
    exact ih _ (inv_act cfg done s a hi)
      (act_local cfg NoClean (by intro o b; simp [NoClean, newProc]) (step_noClean cfg) (deliver_noClean cfg) s a hn)
      (act_mbc cfg done s a hi hm hn hb)

end XpmVerif.Runner
