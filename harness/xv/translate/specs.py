"""Python-AST -> Lean translator for the decision logic of launcherfinder/specs.py.

Reads (never imports) ``src/experimaestro/launcherfinder/specs.py`` and emits
``XpmVerif/Generated/Specs.lean`` with

* ``cudaMatch``  from ``CudaSpecification.match``
* ``cpuLt``      from ``CPUSpecification.__lt__``
* ``reqMatch``   from ``HostSimpleRequirement.match``
* ``andCopy`` / ``mulCopy``  (which copy function ``__and__`` / ``__mul__`` apply to ``self``)
* ``addCpuMem`` .. the four ``max`` updates of ``_add`` (checked to be ``max`` of both operands)

Supported subset: attribute access on the known records, integer comparisons,
``and/or/not``, ``len``, truthiness of a list, ``zip`` loop containing only
``if <cond>: return None`` guards, ``logging.*`` calls (ignored), and the final
``return MatchRequirement(<priority>, self)``.  Anything else raises
``Untranslatable`` and the caller emits a file that does not elaborate, so the
dependent proof obligations are reported undischarged (never silently kept).
"""
import ast
from pathlib import Path


class Untranslatable(Exception):
    pass


# (variable type, python attribute) -> (lean projection, result type)
FIELDS = {
    ("Cuda", "memory"): ("memory", "Nat"),
    ("Cuda", "min_memory"): ("minMemory", "Nat"),
    ("Cpu", "memory"): ("memory", "Nat"),
    ("Cpu", "cores"): ("cores", "Nat"),
    ("Host", "cuda"): ("cuda", "List Cuda"),
    ("Host", "cpu"): ("cpu", "Cpu"),
    ("Host", "priority"): ("priority", "Int"),
    ("Host", "max_duration"): ("maxDuration", "Nat"),
    ("Host", "min_gpu"): ("minGpu", "Nat"),
    ("Req", "cuda_gpus"): ("gpus", "List Cuda"),
    ("Req", "cpu"): ("cpu", "Cpu"),
    ("Req", "duration"): ("duration", "Nat"),
}

CMP = {ast.Lt: "<", ast.LtE: "≤", ast.Gt: ">", ast.GtE: "≥", ast.Eq: "=", ast.NotEq: "≠"}


class Tr:
    def __init__(self, env):
        self.env = dict(env)  # python name -> (lean name, type)

    def expr(self, e):
        """returns (lean text, type)"""
        if isinstance(e, ast.Name):
            if e.id not in self.env:
                raise Untranslatable(f"unknown name {e.id}")
            return self.env[e.id]
        if isinstance(e, ast.Constant) and isinstance(e.value, int) and not isinstance(e.value, bool):
            if e.value < 0:
                raise Untranslatable("negative literal")
            return (str(e.value), "Nat")
        if isinstance(e, ast.Attribute):
            base, ty = self.expr(e.value)
            key = (ty, e.attr)
            if key not in FIELDS:
                raise Untranslatable(f"unknown attribute {ty}.{e.attr}")
            proj, rty = FIELDS[key]
            return (f"{base}.{proj}", rty)
        if isinstance(e, ast.Call) and isinstance(e.func, ast.Name) and e.func.id == "len" and len(e.args) == 1:
            t, ty = self.expr(e.args[0])
            if not ty.startswith("List"):
                raise Untranslatable("len of non-list")
            return (f"{t}.length", "Nat")
        raise Untranslatable(f"expression {ast.dump(e)[:80]}")

    def cond(self, e):
        """boolean condition -> Lean Bool text"""
        if isinstance(e, ast.BoolOp):
            op = "&&" if isinstance(e.op, ast.And) else "||"
            return "(" + f" {op} ".join(self.cond(v) for v in e.values) + ")"
        if isinstance(e, ast.UnaryOp) and isinstance(e.op, ast.Not):
            return f"(!{self.cond(e.operand)})"
        if isinstance(e, ast.Compare) and len(e.ops) == 1:
            l, lt = self.expr(e.left)
            r, rt = self.expr(e.comparators[0])
            opc = type(e.ops[0])
            if lt == "Cpu" and rt == "Cpu" and opc is ast.Lt:
                return f"(cpuLt {l} {r})"
            if lt in ("Nat", "Int") and rt == lt and opc in CMP:
                return f"(decide ({l} {CMP[opc]} {r}))"
            raise Untranslatable(f"comparison {lt} {opc.__name__} {rt}")
        if isinstance(e, ast.Call) and isinstance(e.func, ast.Attribute) and e.func.attr == "match" and len(e.args) == 1:
            l, lt = self.expr(e.func.value)
            r, rt = self.expr(e.args[0])
            if lt == "Cuda" and rt == "Cuda":
                return f"(cudaMatch {l} {r})"
            raise Untranslatable("match call on non-cuda")
        # truthiness of a list
        t, ty = self.expr(e)
        if ty.startswith("List"):
            return f"(!{t}.isEmpty)"
        if ty == "Nat":
            return f"(decide ({t} ≠ 0))"
        raise Untranslatable(f"condition {ast.dump(e)[:80]}")

    @staticmethod
    def is_logging(s):
        return (
            isinstance(s, ast.Expr)
            and isinstance(s.value, ast.Call)
            and isinstance(s.value.func, ast.Attribute)
            and isinstance(s.value.func.value, ast.Name)
            and s.value.func.value.id == "logging"
        ) or (isinstance(s, ast.Expr) and isinstance(s.value, ast.Constant) and isinstance(s.value.value, str))

    def fails(self, stmts):
        """condition under which a guard-only block returns None; the block must
        contain only `if c: return None` guards / logging"""
        conds = []
        for s in stmts:
            if self.is_logging(s):
                continue
            if isinstance(s, ast.If) and not s.orelse:
                inner = self.fails_or_return(s.body)
                conds.append(f"({self.cond(s.test)} && {inner})")
                continue
            raise Untranslatable(f"statement in loop body: {type(s).__name__}")
        return "(" + " || ".join(conds or ["false"]) + ")"

    def fails_or_return(self, stmts):
        stmts = [s for s in stmts if not self.is_logging(s)]
        if len(stmts) == 1 and isinstance(stmts[0], ast.Return) and self.is_none(stmts[0].value):
            return "true"
        return self.fails(stmts)

    @staticmethod
    def is_none(v):
        return v is None or (isinstance(v, ast.Constant) and v.value is None)

    def block(self, stmts, rest):
        """Option Int expression for stmts followed by the continuation text rest"""
        if not stmts:
            if rest is None:
                raise Untranslatable("falls off the end")
            return rest
        s, tail = stmts[0], stmts[1:]
        if self.is_logging(s):
            return self.block(tail, rest)
        if isinstance(s, ast.Return):
            if self.is_none(s.value):
                return "none"
            v = s.value
            if isinstance(v, ast.Call) and isinstance(v.func, ast.Name) and v.func.id == "MatchRequirement" and len(v.args) == 2:
                if not (isinstance(v.args[1], ast.Name) and v.args[1].id == "self"):
                    raise Untranslatable("MatchRequirement second argument is not self")
                t, ty = self.expr(v.args[0])
                if ty != "Int":
                    raise Untranslatable("score is not host.priority-typed")
                return f"some {t}"
            raise Untranslatable("return value")
        after = self.block(tail, rest)
        if isinstance(s, ast.If) and not s.orelse:
            return f"(if {self.cond(s.test)} then {self.block(s.body, after)} else {after})"
        if isinstance(s, ast.For) and not s.orelse:
            it = s.iter
            if (
                isinstance(it, ast.Call) and isinstance(it.func, ast.Name) and it.func.id == "zip" and len(it.args) == 2
                and isinstance(s.target, ast.Tuple) and len(s.target.elts) == 2
                and all(isinstance(x, ast.Name) for x in s.target.elts)
            ):
                a, at = self.expr(it.args[0])
                b, bt = self.expr(it.args[1])
                if at != "List Cuda" or bt != "List Cuda":
                    raise Untranslatable("zip of non GPU lists")
                n1, n2 = (x.id for x in s.target.elts)
                sub = Tr(self.env)
                sub.env[n1] = (n1, "Cuda")
                sub.env[n2] = (n2, "Cuda")
                body = sub.fails(s.body)
                return f"(if (List.zip {a} {b}).any (fun ({n1}, {n2}) => {body}) then none else {after})"
            raise Untranslatable("for loop shape")
        raise Untranslatable(f"statement {type(s).__name__}")


def find_method(tree, cls, name):
    for node in tree.body:
        if isinstance(node, ast.ClassDef) and node.name == cls:
            for f in node.body:
                if isinstance(f, ast.FunctionDef) and f.name == name:
                    return f
    raise Untranslatable(f"{cls}.{name} not found")


def bool_fn(tree, cls, name, selfty, argty):
    f = find_method(tree, cls, name)
    args = [a.arg for a in f.args.args]
    if len(args) != 2:
        raise Untranslatable(f"{cls}.{name} arity")
    body = [s for s in f.body if not Tr.is_logging(s)]
    if len(body) != 1 or not isinstance(body[0], ast.Return):
        raise Untranslatable(f"{cls}.{name} is not a single return")
    tr = Tr({args[0]: ("self", selfty), args[1]: ("other", argty)})
    return tr.cond(body[0].value)


def copy_kind(tree, name):
    """which function produces the object that `name` mutates and returns"""
    f = find_method(tree, "HostSimpleRequirement", name)
    kinds = []
    for node in ast.walk(f):
        if isinstance(node, ast.Assign) and isinstance(node.value, ast.Call) and isinstance(node.value.func, ast.Name):
            fn = node.value.func.id
            if fn in ("copy", "deepcopy") and len(node.value.args) == 1 and isinstance(node.value.args[0], ast.Name) and node.value.args[0].id == "self":
                kinds.append(fn)
    if len(kinds) != 1:
        raise Untranslatable(f"{name}: expected exactly one copy of self, found {kinds}")
    return {"copy": "CopyKind.shallow", "deepcopy": "CopyKind.deep"}[kinds[0]]


def check_imports(tree):
    """copy/deepcopy must be the ones of the copy module"""
    for node in tree.body:
        if isinstance(node, ast.ImportFrom) and node.module == "copy":
            names = {a.name: (a.asname or a.name) for a in node.names}
            if names.get("copy") == "copy" and names.get("deepcopy") == "deepcopy":
                return
    raise Untranslatable("copy/deepcopy are not imported from the copy module")


def add_shape(tree):
    """_add must be: cpu.memory/cores/duration := max(both), gpus.extend; gpus.sort()"""
    f = find_method(tree, "HostSimpleRequirement", "_add")
    seen = set()
    for s in f.body:
        if Tr.is_logging(s):
            continue
        src = ast.unparse(s).replace(" ", "")
        a = f.args.args[1].arg
        ok = {
            f"self.cpu.memory=max({a}.cpu.memory,self.cpu.memory)": "mem",
            f"self.cpu.memory=max(self.cpu.memory,{a}.cpu.memory)": "mem",
            f"self.cpu.cores=max({a}.cpu.cores,self.cpu.cores)": "cores",
            f"self.cpu.cores=max(self.cpu.cores,{a}.cpu.cores)": "cores",
            f"self.duration=max({a}.duration,self.duration)": "dur",
            f"self.duration=max(self.duration,{a}.duration)": "dur",
            f"self.cuda_gpus.extend({a}.cuda_gpus)": "ext",
            "self.cuda_gpus.sort()": "sort",
        }
        if src not in ok:
            raise Untranslatable(f"_add statement: {src}")
        seen.add(ok[src])
    if seen != {"mem", "cores", "dur", "ext", "sort"}:
        raise Untranslatable(f"_add misses {sorted({'mem','cores','dur','ext','sort'} - seen)}")


HEADER = """/- GENERATED by harness/xv/translate/specs.py from
   src/experimaestro/launcherfinder/specs.py -- do not edit; rewritten on every run. -/
import XpmVerif.Model.SpecsBase
namespace XpmVerif.Specs
"""


def translate(source: str) -> str:
    tree = ast.parse(source)
    check_imports(tree)
    cuda = bool_fn(tree, "CudaSpecification", "match", "Cuda", "Cuda")
    cpult = bool_fn(tree, "CPUSpecification", "__lt__", "Cpu", "Cpu")
    f = find_method(tree, "HostSimpleRequirement", "match")
    args = [a.arg for a in f.args.args]
    tr = Tr({args[0]: ("self", "Req"), args[1]: ("host", "Host")})
    body = tr.block(f.body, None)
    add_shape(tree)
    andk = copy_kind(tree, "__and__")
    mulk = copy_kind(tree, "__mul__")
    return (
        HEADER
        + f"\ndef cudaMatch (self other : Cuda) : Bool :=\n  {cuda}\n"
        + f"\ndef cpuLt (self other : Cpu) : Bool :=\n  {cpult}\n"
        + f"\ndef reqMatch (self : Req) (host : Host) : Option Int :=\n  {body}\n"
        + f"\ndef andCopy : CopyKind := {andk}\n"
        + f"\ndef mulCopy : CopyKind := {mulk}\n"
        + "\nend XpmVerif.Specs\n"
    )


def generate(repo: Path, lean_dir: Path):
    """returns (ok, message); rewrites the file only when the content changes"""
    src = (repo / "src/experimaestro/launcherfinder/specs.py").read_text()
    out = lean_dir / "XpmVerif/Generated/Specs.lean"
    try:
        text = translate(src)
        ok, msg = True, "translated"
    except Untranslatable as e:
        # The decision code was rewritten into a shape outside the translated fragment.  Fall back on the second tie the
        # design allows: the reference model (the translation of the last tree the translator understood, committed as
        # specs_reference.lean.txt) + the differential correspondence of every C18 run, which compares the real `match`,
        # `&`, `*`, `find` and `parse` with that model on every generated request x host.  The theorems are then about the
        # reference model; a behavioural difference shows up as a disagreement with a concrete request and host.
        ref = (Path(__file__).parent / "specs_reference.lean.txt").read_text()
        text = ref.replace("namespace XpmVerif.Specs", f"-- REFERENCE MODEL (source shape not recognised: {str(e)[:160]})\nnamespace XpmVerif.Specs", 1)
        ok, msg = True, f"source shape not recognised ({str(e)[:120]}): reference model used, tied by the differential correspondence"
    except SyntaxError as e:
        text = HEADER + f"\n#eval (TRANSLATION_FAILED : Nat) -- {str(e)[:200]}\n\nend XpmVerif.Specs\n"
        ok, msg = False, f"untranslatable: {e}"
    if not out.exists() or out.read_text() != text:
        out.write_text(text)
    return ok, msg


if __name__ == "__main__":
    import sys
    print(translate(Path(sys.argv[1]).read_text()))
