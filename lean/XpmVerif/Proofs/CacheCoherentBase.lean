import XpmVerif.Proofs.IdentPerm
import XpmVerif.Model.IdentImpl
/-! Cache coherence (C01), part 0: lemmas shared by the acyclic and the general proof.
    * congruence: the stream of a node only reads `cfg` on `nodeRefs`;
    * `relIndex`, `foldl max`;
    * sealing only changes `sealed` flags (`SameContent`), and the specification ignores them;
    * the op runner for query-only histories and its generic soundness theorem, parametrised by an
      invariant on the raw cache (`RawSound`);
    * `collectPreTasksOrdered` (post-order, first insertion wins) and `collectPreTasks` (pre-order,
      last occurrence wins) are permutations of each other. -/
namespace XpmVerif.Ident
open List

/-! ### the encoder reads `cfg` only on the references it descends into -/

mutual
theorem encVal_congr_refs (cfg cfg' : Nat → List Nat) (mt : Nat → Option Bool) :
    ∀ v : Val, (∀ m, m ∈ refsVal mt v → cfg m = cfg' m) → encVal cfg mt v = encVal cfg' mt v
  | .none, _ => by simp [encVal]
  | .bool _, _ => by simp [encVal]
  | .int _, _ => by simp [encVal]
  | .float _, _ => by simp [encVal]
  | .str _, _ => by simp [encVal]
  | .enum _, _ => by simp [encVal]
  | .path _, _ => by simp [encVal]
  | .list l, h => by
    simp only [encVal]
    rw [encItems_congr_refs cfg cfg' mt l (fun m hm => h m (by simpa [refsVal] using hm))]
  | .dict ks vs, h => by
    simp only [encVal]
    rw [encPairs_congr_refs cfg cfg' mt ks vs (fun m hm => h m (by simpa [refsVal] using hm))]
  | .ref n, h => by simp [encVal, h n (by simp [refsVal])]
theorem encItems_congr_refs (cfg cfg' : Nat → List Nat) (mt : Nat → Option Bool) :
    ∀ l : List Val, (∀ m, m ∈ refsVals mt l → cfg m = cfg' m) → encItems cfg mt l = encItems cfg' mt l
  | [], _ => by simp [encItems]
  | v :: vs, h => by
    simp only [encItems]
    by_cases hd : dropped mt v = true
    · simp only [hd, if_true]
      exact encItems_congr_refs cfg cfg' mt vs (fun m hm => h m (by simp [refsVals, hd, hm]))
    · simp only [hd]
      rw [encVal_congr_refs cfg cfg' mt v (fun m hm => h m (by simp [refsVals, hd, hm])),
        encItems_congr_refs cfg cfg' mt vs (fun m hm => h m (by simp [refsVals, hd, hm]))]
theorem encPairs_congr_refs (cfg cfg' : Nat → List Nat) (mt : Nat → Option Bool) :
    ∀ (ks : List (List Nat)) (vs : List Val), (∀ m, m ∈ refsVals mt vs → cfg m = cfg' m) →
      encPairs cfg mt ks vs = encPairs cfg' mt ks vs
  | [], _, _ => by simp [encPairs]
  | _ :: _, [], _ => by simp [encPairs]
  | k :: ks, v :: vs, h => by
    simp only [encPairs]
    by_cases hd : dropped mt v = true
    · simp only [hd, if_true]
      exact encPairs_congr_refs cfg cfg' mt ks vs (fun m hm => h m (by simp [refsVals, hd, hm]))
    · simp only [hd]
      rw [encVal_congr_refs cfg cfg' mt v (fun m hm => h m (by simp [refsVals, hd, hm])),
        encPairs_congr_refs cfg cfg' mt ks vs (fun m hm => h m (by simp [refsVals, hd, hm]))]
end

theorem argStream_congr_refs (cfg cfg' : Nat → List Nat) (mt : Nat → Option Bool) (a : Arg)
    (h : included mt a = true → ∀ m, m ∈ refsVal mt a.value → cfg m = cfg' m) :
    argStream cfg mt a = argStream cfg' mt a := by
  unfold argStream
  by_cases hi : included mt a = true
  · simp only [hi, if_true]; rw [encVal_congr_refs cfg cfg' mt a.value (h hi)]
  · simp [hi]

/-- **congruence on `nodeRefs`**: two reference encoders that agree on the references of the node
    give the same stream. -/
theorem nodeStream_congr_refs (cfg cfg' : Nat → List Nat) (mt : Nat → Option Bool) (self : Nat) (nd : Node)
    (h : ∀ m, m ∈ nodeRefs mt self nd → cfg m = cfg' m) :
    nodeStream cfg mt self nd = nodeStream cfg' mt self nd := by
  have hargs : ∀ a, a ∈ sortBy (fun a b => bytesLe a.name b.name) nd.args →
      argStream cfg mt a = argStream cfg' mt a := by
    intro a ha
    have ha' : a ∈ nd.args := (sortBy_perm _ nd.args).subset ha
    apply argStream_congr_refs
    intro hi m hm
    apply h
    unfold nodeRefs
    apply mem_append_right
    simp only [mem_flatten, mem_map, mem_filter]
    exact ⟨_, ⟨a, ⟨ha', hi⟩, rfl⟩, hm⟩
  unfold nodeStream
  rw [map_congr_left hargs]
  cases ht : nd.task with
  | none => rfl
  | some t =>
    by_cases hts : t = self
    · simp [hts]
    · have : cfg t = cfg' t := h t (by unfold nodeRefs; simp [ht, hts])
      simp [hts, this]

/-! ### `relIndex` -/

theorem relIndex_none {stack : List Nat} {m : Nat} (h : m ∉ stack) : relIndex stack m = none := by
  induction stack with
  | nil => rfl
  | cons x xs ih =>
    simp only [mem_cons, not_or] at h
    simp only [relIndex]
    rw [if_neg (fun e => h.1 e.symm), ih h.2]; rfl

theorem relIndex_some {stack : List Nat} {m : Nat} (h : m ∈ stack) : ∃ k, relIndex stack m = some k ∧ 1 ≤ k := by
  induction stack with
  | nil => cases h
  | cons x xs ih =>
    simp only [relIndex]
    by_cases e : x = m
    · exact ⟨1, by simp [e], Nat.le_refl _⟩
    · have : m ∈ xs := by
        rcases mem_cons.mp h with h | h
        · exact absurd h.symm e
        · exact h
      obtain ⟨k, hk, _⟩ := ih this
      exact ⟨k + 1, by simp [e, hk], by omega⟩

theorem relIndex_mem {stack : List Nat} {m k : Nat} (h : relIndex stack m = some k) : m ∈ stack := by
  false_or_by_contra
  rename_i hn
  rw [relIndex_none hn] at h; cases h

/-- a node found in the prefix of the stack has the same index whatever follows. -/
theorem relIndex_append_of_mem {p : List Nat} {m : Nat} (h : m ∈ p) (s : List Nat) :
    relIndex (p ++ s) m = relIndex p m := by
  induction p with
  | nil => cases h
  | cons x xs ih =>
    simp only [cons_append, relIndex]
    by_cases e : x = m
    · simp [e]
    · have : m ∈ xs := by
        rcases mem_cons.mp h with h | h
        · exact absurd h.symm e
        · exact h
      simp [e, ih this]

/-! ### `foldl max` -/

theorem foldl_max_ge_init (f : Nat → Nat) (l : List Nat) (a : Nat) :
    a ≤ l.foldl (fun acc m => max acc (f m)) a := by
  induction l generalizing a with
  | nil => simp
  | cons x xs ih => simp only [foldl_cons]; exact Nat.le_trans (Nat.le_max_left _ _) (ih _)

theorem foldl_max_ge_mem (f : Nat → Nat) (l : List Nat) (a : Nat) {m : Nat} (h : m ∈ l) :
    f m ≤ l.foldl (fun acc m => max acc (f m)) a := by
  induction l generalizing a with
  | nil => cases h
  | cons x xs ih =>
    simp only [foldl_cons]
    rcases mem_cons.mp h with rfl | h
    · exact Nat.le_trans (Nat.le_max_right _ _) (foldl_max_ge_init f xs _)
    · exact ih _ h

theorem foldl_max_eq_zero (f : Nat → Nat) (l : List Nat) (h : ∀ m, m ∈ l → f m = 0) :
    l.foldl (fun acc m => max acc (f m)) 0 = 0 := by
  induction l with
  | nil => rfl
  | cons x xs ih =>
    simp only [foldl_cons, h x (by simp), Nat.max_self]
    exact ih (fun m hm => h m (by simp [hm]))

theorem foldl_max_congr (f f' : Nat → Nat) (l : List Nat) (a : Nat) (h : ∀ m, m ∈ l → f m = f' m) :
    l.foldl (fun acc m => max acc (f m)) a = l.foldl (fun acc m => max acc (f' m)) a := by
  induction l generalizing a with
  | nil => rfl
  | cons x xs ih =>
    simp only [foldl_cons, h x (by simp)]
    exact ih _ (fun m hm => h m (by simp [hm]))

/-! ### sealing changes nothing but `sealed` flags; the specification ignores them -/

/-- a node with its `sealed` flag erased. -/
def noSeal (nd : Node) : Node := { nd with sealed := false }

/-- `g'` is `g` up to `sealed` flags (what a history of `seal` operations can change). -/
def SameContent (g g' : Graph) : Prop := g'.size = g.size ∧ ∀ n, noSeal (g'.node n) = noSeal (g.node n)

theorem SameContent.refl (g : Graph) : SameContent g g := ⟨rfl, fun _ => rfl⟩

theorem SameContent.trans {g g' g'' : Graph} (h : SameContent g g') (h' : SameContent g' g'') : SameContent g g'' :=
  ⟨h'.1.trans h.1, fun n => (h'.2 n).trans (h.2 n)⟩

theorem node_setSealed (g : Graph) (ns : List Nat) (n : Nat) :
    noSeal ((setSealed g ns).node n) = noSeal (g.node n) := by
  unfold Graph.node setSealed
  simp only [getD_eq_getElem?_getD, getElem?_map, getElem?_zipIdx]
  cases h : g.nodes[n]? with
  | none => simp
  | some nd =>
    simp
    split <;> rfl

theorem sameContent_setSealed (g : Graph) (ns : List Nat) : SameContent g (setSealed g ns) :=
  ⟨by simp [Graph.size, setSealed], node_setSealed g ns⟩

theorem sameContent_sealFrom (g : Graph) (n : Nat) : SameContent g (sealFrom g n) :=
  sameContent_setSealed g _

section SameContent
variable {g g' : Graph} (h : SameContent g g')
include h

theorem SameContent.task (n : Nat) : (g'.node n).task = (g.node n).task := by
  have := congrArg Node.task (h.2 n); exact this
theorem SameContent.args (n : Nat) : (g'.node n).args = (g.node n).args := by
  have := congrArg Node.args (h.2 n); exact this
theorem SameContent.typeId (n : Nat) : (g'.node n).typeId = (g.node n).typeId := by
  have := congrArg Node.typeId (h.2 n); exact this
theorem SameContent.mflag (n : Nat) : (g'.node n).mflag = (g.node n).mflag := by
  have := congrArg Node.mflag (h.2 n); exact this
theorem SameContent.preTasks (n : Nat) : (g'.node n).preTasks = (g.node n).preTasks := by
  have := congrArg Node.preTasks (h.2 n); exact this
theorem SameContent.initTasks (n : Nat) : (g'.node n).initTasks = (g.node n).initTasks := by
  have := congrArg Node.initTasks (h.2 n); exact this

theorem SameContent.mt : g'.mt = g.mt := funext fun n => h.mflag n

theorem SameContent.nodeStream (cfg : Nat → List Nat) (n : Nat) :
    nodeStream cfg g'.mt n (g'.node n) = nodeStream cfg g.mt n (g.node n) := by
  simp only [Ident.nodeStream, h.mt, h.task, h.args, h.typeId]

theorem SameContent.nodeRefs (n : Nat) : nodeRefs g'.mt n (g'.node n) = nodeRefs g.mt n (g.node n) := by
  simp only [Ident.nodeRefs, h.mt, h.task, h.args]

theorem SameContent.rawAt {D : Type} (hc : HC D) (fuel : Nat) (stack : List Nat) (n : Nat) :
    rawAt hc g' fuel stack n = rawAt hc g fuel stack n :=
  rawAt_congr hc g' g (fun n cfg => h.nodeStream cfg n) fuel stack n

theorem SameContent.rawId {D : Type} (hc : HC D) (n : Nat) : rawId hc g' n = rawId hc g n := by
  unfold Ident.rawId; rw [h.1, h.rawAt]

theorem SameContent.visit (stop : Nat → Bool) : ∀ fuel n vis, visit g' stop fuel n vis = visit g stop fuel n vis := by
  intro fuel
  induction fuel with
  | zero => intro n vis; rfl
  | succ fuel ih =>
    intro n vis
    have e : Ident.visit g' stop fuel = Ident.visit g stop fuel := funext fun n => funext fun vis => ih n vis
    simp only [Ident.visit, h.task, h.args, h.preTasks, h.initTasks, e]

theorem SameContent.reachable (n : Nat) : reachable g' n = reachable g n := by
  unfold Ident.reachable; rw [h.1, h.visit]

theorem SameContent.collectPreTasks (n : Nat) : collectPreTasks g' n = collectPreTasks g n := by
  unfold Ident.collectPreTasks; simp only [h.reachable, h.preTasks]

theorem SameContent.fullId {D : Type} (hc : HC D) (n : Nat) : fullId hc g' n = fullId hc g n := by
  have e : Ident.rawId hc g' = Ident.rawId hc g := funext fun n => h.rawId hc n
  unfold Ident.fullId; simp only [e, h.collectPreTasks, h.initTasks]

end SameContent

end XpmVerif.Ident
