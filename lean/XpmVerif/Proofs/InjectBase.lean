import XpmVerif.Proofs.Sort
/-! C03, part 1: byte-level facts (`pack8`, `f64OfNat` injective), the *signature value* `SVal` with its
    encoder `encS`, the canonicalisation `canon : Val → SVal` and `encVal = encS ∘ canon`. -/
namespace XpmVerif.Ident
open List

theorem pack8_inj {x y : Nat} (hx : x < 2^64) (hy : y < 2^64) (h : pack8 x = pack8 y) : x = y := by
  simp only [pack8, List.cons.injEq, and_true, Nat.reducePow] at h hx hy
  obtain ⟨h1,h2,h3,h4,h5,h6,h7,h8⟩ := h
  omega

theorem pack8_length (n : Nat) : (pack8 n).length = 8 := by simp [pack8]

theorem pack8_split {x y : Nat} {r1 r2 : List Nat} (hx : x < 2^64) (hy : y < 2^64)
    (h : pack8 x ++ r1 = pack8 y ++ r2) : x = y ∧ r1 = r2 := by
  have := List.append_inj h (by simp [pack8_length])
  exact ⟨pack8_inj hx hy this.1, this.2⟩

/-- decomposition of `f64OfNat n` into biased exponent and mantissa. -/
theorem f64OfNat_parts {n : Nat} (h0 : n ≠ 0) (h : n < 2^53) :
    ∃ e m, e ≤ 52 ∧ m < 2^52 ∧ f64OfNat n = (1023 + e) * 2^52 + m ∧ 2^e ≤ n ∧
      m = (n - 2^e) * 2^(52 - e) := by
  refine ⟨Nat.log2 n, (n - 2^(Nat.log2 n)) * 2^(52 - Nat.log2 n), ?_, ?_, ?_, Nat.log2_self_le h0, rfl⟩
  · have := (Nat.log2_lt h0).2 h; omega
  · have he : Nat.log2 n < 53 := (Nat.log2_lt h0).2 h
    have h1 : n < 2^(Nat.log2 n + 1) := Nat.lt_log2_self
    have h2 : 2^(Nat.log2 n) ≤ n := Nat.log2_self_le h0
    have h3 : n - 2^(Nat.log2 n) < 2^(Nat.log2 n) := by
      rw [Nat.pow_succ] at h1; omega
    have h4 : 2^(Nat.log2 n) * 2^(52 - Nat.log2 n) = 2^52 := by
      rw [← Nat.pow_add]; congr 1; omega
    calc (n - 2^(Nat.log2 n)) * 2^(52 - Nat.log2 n)
        < 2^(Nat.log2 n) * 2^(52 - Nat.log2 n) := Nat.mul_lt_mul_of_pos_right h3 (Nat.pow_pos (by decide))
      _ = 2^52 := h4
  · simp [f64OfNat, h0]

theorem f64OfNat_lt {n : Nat} (h : n < 2^53) : f64OfNat n < 2^64 := by
  by_cases h0 : n = 0
  · subst h0; simp [f64OfNat]
  · obtain ⟨e, m, he, hm, hf, _, _⟩ := f64OfNat_parts h0 h
    rw [hf]
    simp only [Nat.reducePow] at hm ⊢
    omega

/-- `struct.pack("!d", len)` determines the length (below 2^53, where doubles are exact). -/
theorem f64OfNat_inj {n m : Nat} (hn : n < 2^53) (hm : m < 2^53) (h : f64OfNat n = f64OfNat m) : n = m := by
  by_cases hn0 : n = 0
  · by_cases hm0 : m = 0
    · omega
    · obtain ⟨e, a, he, ha, hf, _, _⟩ := f64OfNat_parts hm0 hm
      subst hn0
      rw [hf] at h
      simp only [f64OfNat, if_true, Nat.reducePow] at h ha
      omega
  · by_cases hm0 : m = 0
    · obtain ⟨e, a, he, ha, hf, _, _⟩ := f64OfNat_parts hn0 hn
      subst hm0
      rw [hf] at h
      simp only [f64OfNat, if_true, Nat.reducePow] at h ha
      omega
    · obtain ⟨e, a, he, ha, hf, hle, hdef⟩ := f64OfNat_parts hn0 hn
      obtain ⟨e', a', he', ha', hf', hle', hdef'⟩ := f64OfNat_parts hm0 hm
      rw [hf, hf'] at h
      simp only [Nat.reducePow] at h ha ha'
      have hee : e = e' := by omega
      have haa : a = a' := by omega
      subst hee
      rw [hdef, hdef'] at haa
      have := Nat.eq_of_mul_eq_mul_right (Nat.pow_pos (by decide)) haa
      omega

/-- **signature value**: the canonical (post-filter) form of a parameter value. -/
inductive SVal where
  | none
  | int (n : Nat)
  | float (bits : Nat)
  | str (s : List Nat)
  | enum (s : List Nat)
  | list (l : List SVal)
  | dict (ks : List (List Nat)) (vs : List SVal)
  | obj (toks : List Nat)
  | unsupported
  deriving Repr, Inhabited

mutual
def encS : SVal → List Nat
  | .none => [6]
  | .int n => 1 :: pack8 n
  | .float b => 2 :: pack8 b
  | .str s => 3 :: s
  | .enum s => 10 :: s
  | .list l => 7 :: pack8 (f64OfNat l.length) ++ encSL l
  | .dict ks vs => 9 :: encSKV ks vs
  | .obj toks => 0 :: toks
  | .unsupported => [255]
def encSL : List SVal → List Nat
  | [] => []
  | v :: vs => encS v ++ encSL vs
def encSKV : List (List Nat) → List SVal → List Nat
  | k :: ks, v :: vs => 3 :: k ++ encS v ++ encSKV ks vs
  | _, _ => []
end

mutual
def canon (cfg : Nat → List Nat) (mt : Nat → Option Bool) : Val → SVal
  | .none => .none
  | .bool b => .int (if b then 1 else 0)
  | .int i => .int (i % 2^64).toNat
  | .float b => .float b
  | .str s => .str s
  | .enum s => .enum s
  | .path _ => .unsupported
  | .list l => .list (canonItems cfg mt l)
  | .dict ks vs =>
    let items := sortBy (fun a b => bytesLe a.1 b.1) (canonPairs cfg mt ks vs)
    .dict (items.map (·.1)) (items.map (·.2))
  | .ref n => .obj (cfg n)
def canonItems (cfg : Nat → List Nat) (mt : Nat → Option Bool) : List Val → List SVal
  | [] => []
  | v :: vs => if dropped mt v then canonItems cfg mt vs else canon cfg mt v :: canonItems cfg mt vs
def canonPairs (cfg : Nat → List Nat) (mt : Nat → Option Bool) : List (List Nat) → List Val → List (List Nat × SVal)
  | k :: ks, v :: vs =>
    if dropped mt v then canonPairs cfg mt ks vs else (k, canon cfg mt v) :: canonPairs cfg mt ks vs
  | _, _ => []
end

theorem encSL_eq_flatten : ∀ l : List SVal, encSL l = (l.map encS).flatten
  | [] => by simp [encSL]
  | v :: vs => by simp [encSL, encSL_eq_flatten vs]

theorem encSKV_pairs : ∀ items : List (List Nat × SVal),
    encSKV (items.map (·.1)) (items.map (·.2)) = (items.map (fun kv => 3 :: kv.1 ++ encS kv.2)).flatten
  | [] => by simp [encSKV]
  | kv :: rest => by simp [encSKV, encSKV_pairs rest]

theorem insertBy_map {α β : Type} (f : α → β) (le : α → α → Bool) (le' : β → β → Bool)
    (h : ∀ a b, le' (f a) (f b) = le a b) (x : α) (l : List α) :
    insertBy le' (f x) (l.map f) = (insertBy le x l).map f := by
  induction l with
  | nil => simp [insertBy]
  | cons y ys ih =>
    simp only [map_cons, insertBy, h]
    split <;> simp [ih]

theorem sortBy_map {α β : Type} (f : α → β) (le : α → α → Bool) (le' : β → β → Bool)
    (h : ∀ a b, le' (f a) (f b) = le a b) (l : List α) :
    sortBy le' (l.map f) = (sortBy le l).map f := by
  induction l with
  | nil => simp [sortBy]
  | cons x xs ih =>
    simp only [sortBy, map_cons, foldr_cons] at *
    rw [ih, insertBy_map f le le' h]

mutual
theorem encVal_eq_encS_canon (cfg : Nat → List Nat) (mt : Nat → Option Bool) :
    ∀ v : Val, encVal cfg mt v = encS (canon cfg mt v)
  | .none => by simp [encVal, canon, encS]
  | .bool b => by simp [encVal, canon, encS]
  | .int i => by simp [encVal, canon, encS, packq]
  | .float b => by simp [encVal, canon, encS]
  | .str s => by simp [encVal, canon, encS]
  | .enum s => by simp [encVal, canon, encS]
  | .path _ => by simp [encVal, canon, encS]
  | .ref n => by simp [encVal, canon, encS]
  | .list l => by
    simp only [encVal, canon, encS, encItems_eq cfg mt l, encSL_eq_flatten, length_map]
  | .dict ks vs => by
    simp only [encVal, canon, encS, encPairs_eq cfg mt ks vs, encSKV_pairs]
    rw [sortBy_map (fun kv : List Nat × SVal => (kv.1, encS kv.2)) (fun a b => bytesLe a.1 b.1)
      (fun a b => bytesLe a.1 b.1) (fun _ _ => rfl)]
    simp [Function.comp_def]
theorem encItems_eq (cfg : Nat → List Nat) (mt : Nat → Option Bool) :
    ∀ l : List Val, encItems cfg mt l = (canonItems cfg mt l).map encS
  | [] => by simp [encItems, canonItems]
  | v :: vs => by
    simp only [encItems, canonItems]
    split
    · exact encItems_eq cfg mt vs
    · simp [encVal_eq_encS_canon cfg mt v, encItems_eq cfg mt vs]
theorem encPairs_eq (cfg : Nat → List Nat) (mt : Nat → Option Bool) :
    ∀ (ks : List (List Nat)) (vs : List Val),
      encPairs cfg mt ks vs = (canonPairs cfg mt ks vs).map (fun kv => (kv.1, encS kv.2))
  | [], _ => by simp [encPairs, canonPairs]
  | _ :: _, [] => by simp [encPairs, canonPairs]
  | k :: ks, v :: vs => by
    simp only [encPairs, canonPairs]
    split
    · exact encPairs_eq cfg mt ks vs
    · simp [encVal_eq_encS_canon cfg mt v, encPairs_eq cfg mt ks vs]
end

end XpmVerif.Ident
