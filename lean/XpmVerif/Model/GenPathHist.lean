import XpmVerif.Model.GenPath
/-! M6, history part (C17): a state machine over *submission histories*.

    State = the configuration graph (`sealed` flags, `task` links) + the log of the generated-path
    attributes already assigned, each tagged with the task whose `JobContext` produced it (the path
    is relative to the job directory of that task).

    Operations, as read from `core/objects.py`:
    * `construct nd` — `Config.__init__` / `copyconfig` / `clone`: a new object, `_sealed = False`,
      `task = None`; its values may reference any object (outputs of submitted tasks included).
    * `set n k v pos` — `ConfigInformation.set(k, v)`: `AttributeError` on a sealed object or on an argument
      with a generator (modelled as "no effect"); replaces the value when the argument is present,
      otherwise the argument becomes present (`pos` = its rank among the present arguments in
      declaration order; any rank is allowed by the model).
    * `addPre n t` — `add_pretasks` (`SealedError` on a sealed object: no effect).
    * `copyDeps c o` — `copy_dependencies`: `c.task = o.task` when `o.task` is set (no sealed check in
      the source; the `assert self.task is None` is not modelled: more histories).
    * `submit root inits outs` — `ConfigInformation.submit`: raises when the *same object* was submitted
      before (`self.job` is set: no effect; the model also ignores a `root` that does not exist); else
      `init_tasks := inits` (even on a sealed object), the `Sealer` walk from `root` under
      `JobContext(job of root)` (stops at sealed objects, generates the paths of an unsealed object at its
      first visit, seals it), then the `Sealer` walk of every init task under `__init_tasks__` / index (for a
      task sealed before its submission — as a parameter of another task, by `instance()` — the first walk
      does nothing and these walks seal the init tasks; otherwise they do nothing), `root.task := root`,
      then `task_outputs(mark_output)`: every object of `outs` gets `task := root`.  `task_outputs`
      is user code: the marked objects can be parameters of the task (sealed by this walk), objects
      sealed before, or fresh objects (unsealed: `dep(Model(...))`) — no restriction in the model.
      The "submitted once" guard matters: `resubmission_would_collide` (Properties/C17Hist.lean).
    * `mark root o` — one `mark_output` call on its own (user code of `task_outputs` interleaves
      constructions, `add_pretasks` and `dep(...)` calls): no effect unless `root` is sealed
      (`mark_output` is only reachable after `validate_and_seal`).
    Import-free (core only) and executable. -/
namespace XpmVerif.GenPath

inductive Op where
  | construct (nd : Node)
  | set (n : NodeId) (k : Str) (v : Val) (pos : Nat)
  | addPre (n t : NodeId)
  | copyDeps (c o : NodeId)
  | submit (root : NodeId) (inits outs : List NodeId)
  | mark (root o : NodeId)
  deriving Repr

/-- a new object is unsealed and has no linked task. -/
def fresh (nd : Node) : Node := { nd with task := none, isSealed := false }

def construct (g : Graph) (nd : Node) : Graph := ⟨g.nodes ++ [fresh nd]⟩

/-- `values[k] = v`, keeping `args` in declaration order: in place when present, else at rank `pos`. -/
def setArgs (args : List (Str × Val)) (k : Str) (v : Val) (pos : Nat) : List (Str × Val) :=
  if k ∈ args.map Prod.fst then args.map (fun a => if a.1 = k then (a.1, v) else a)
  else args.take pos ++ (k, v) :: args.drop pos

def setParam (g : Graph) (n : NodeId) (k : Str) (v : Val) (pos : Nat) : Graph :=
  ⟨setAt g.nodes n (fun nd =>
    if nd.isSealed || decide (k ∈ nd.gens.map Prod.fst) then nd
    else { nd with args := setArgs nd.args k v pos })⟩

def addPre (g : Graph) (n t : NodeId) : Graph :=
  ⟨setAt g.nodes n (fun nd => if nd.isSealed then nd else { nd with preTasks := nd.preTasks ++ [t] })⟩

/-- `root.__xpm__.mark_output(o)`: `o.__xpm__.task = root` (only reachable once `root` is sealed). -/
def markOutput (g : Graph) (root o : NodeId) : Graph :=
  match g.node root with
  | some nr => if nr.isSealed then ⟨setAt g.nodes o (fun nd => { nd with task := some root })⟩ else g
  | none => g

def markOutputs (g : Graph) (root : NodeId) (outs : List NodeId) : Graph :=
  outs.foldl (fun g o => markOutput g root o) g

/-- graph + log of the generated-path attributes: `(r, e)` = attribute `e.arg` of object `e.node`
    was set to `jobdir(r) / e.path` by the submission of task `r`. -/
structure HState where
  g : Graph
  paths : List (NodeId × Entry) := []
  /-- the objects that were submitted (`__xpm__.job` is set) -/
  jobs : List NodeId := []
  deriving Repr

def HState.step (enc : Str → Str) (s : HState) : Op → HState
  | .construct nd => { s with g := construct s.g nd }
  | .set n k v pos => { s with g := setParam s.g n k v pos }
  | .addPre n t => { s with g := addPre s.g n t }
  | .copyDeps c o => { s with g := copyDeps s.g c o }
  | .mark r o => { s with g := markOutput s.g r o }
  | .submit root inits outs =>
    if root ∈ s.jobs ∨ s.g.node root = none then s else
    { g := markOutputs (submit enc s.g root inits).1 root outs
      paths := s.paths ++ (submit enc s.g root inits).2.map (fun e => (root, e))
      jobs := root :: s.jobs }

def Hist.exec (enc : Str → Str) (s : HState) (ops : List Op) : HState := ops.foldl (HState.step enc) s

/-- the graph after the history `ops` from the initial graph `g0`. -/
def Hist.run (enc : Str → Str) (g0 : Graph) (ops : List Op) : Graph := (Hist.exec enc ⟨g0, [], []⟩ ops).g

/-- the generated-path attribute `a` of object `n`: the task whose job directory it is relative to,
    and the relative path (`none`: not generated yet). -/
def HState.pathOf (s : HState) (n : NodeId) (a : Str) : Option (NodeId × PPath) :=
  (s.paths.find? (fun x => x.2.node == n && x.2.arg == a)).map (fun x => (x.1, x.2.path))

/-! ### hypotheses on histories: only the static clauses (names / file names / dict keys) -/

/-- the class of a constructed object and the values given to it are fine (`nodeOK`); a parameter
    that is set has a plain, non reserved name (a declared argument) and a value with fine dict keys. -/
def Op.wfB (enc : Str → Str) : Op → Bool
  | .construct nd => nodeOK enc nd
  | .set _ k v _ => decide (Plain k) && decide (k ≠ preKey) && decide (k ≠ initKey) && valOK enc v
  | _ => true

def Hist.wfB (enc : Str → Str) (ops : List Op) : Bool := ops.all (Op.wfB enc)

def Hist.WF (enc : Str → Str) (ops : List Op) : Prop := Hist.wfB enc ops = true

instance (enc : Str → Str) (ops : List Op) : Decidable (Hist.WF enc ops) := by unfold Hist.WF; infer_instance

/-- the same without any condition on the content of dict keys (for the repaired encoder). -/
def Op.wfAnyB : Op → Bool
  | .construct nd => nodeOKany nd
  | .set _ k v _ => decide (Plain k) && decide (k ≠ preKey) && decide (k ≠ initKey) && valDictOK v
  | _ => true

def Hist.WFany (ops : List Op) : Prop := ops.all Op.wfAnyB = true

instance (ops : List Op) : Decidable (Hist.WFany ops) := by unfold Hist.WFany; infer_instance

/-- initial graph: unsealed, unlinked objects satisfying the static clauses. -/
def Graph.initB (enc : Str → Str) (g : Graph) : Bool :=
  g.nodes.all (fun nd => nodeOK enc nd && !nd.isSealed && nd.task.isNone)

def Graph.Init (enc : Str → Str) (g : Graph) : Prop := g.initB enc = true

instance (enc : Str → Str) (g : Graph) : Decidable (g.Init enc) := by unfold Graph.Init; infer_instance

def Graph.initAnyB (g : Graph) : Bool :=
  g.nodes.all (fun nd => nodeOKany nd && !nd.isSealed && nd.task.isNone)

/-! ### the same history on the same configuration built again (for determinism over histories) -/

def Op.rename (σ : NodeId → NodeId) : Op → Op
  | .construct nd => .construct (nd.rename σ)
  | .set n k v pos => .set (σ n) k (v.rename σ) pos
  | .addPre n t => .addPre (σ n) (σ t)
  | .copyDeps c o => .copyDeps (σ c) (σ o)
  | .submit root inits outs => .submit (σ root) (inits.map σ) (outs.map σ)
  | .mark root o => .mark (σ root) (σ o)

end XpmVerif.GenPath
