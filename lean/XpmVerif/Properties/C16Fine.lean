import XpmVerif.Proofs.XpIndexFine
/-! C16 at the granularity of single file operations — theorems about the model `XpFine` (M7-fine), whose
    programs are the statement sequences generated from the source (`Generated/XpIndexSrc.lean`).
    A *history* is any list of `start p m` / `tick p n` / `enterRaises p` / `submit p l` / `endBlock p exc` /
    `die p` by any number of processes, in any interleaving, applied to the empty experiment: a process can die,
    and another one can act, between any two statements of `__enter__`, `__exit__` and of the link step of
    `aio_submit`, and between any two iterations of their loops. -/
namespace XpmVerif.C16Fine
open XpmVerif.XpIndex (Entry Link Proc names hasName unlock)
open XpmVerif.XpEff XpmVerif.XpFine

/-- **C16, third sentence, at every point of every history** ("Two processes cannot hold the same experiment
    of the same workspace at once"): the processes that own the lock — from the statement of `__enter__` that
    takes it to the statement of `__exit__` that releases it, or to their death — are at most one, the one the
    lock names. -/
theorem fine_lock_exclusive (ops : List Op) :
    let s := run ops init
    (∀ p, (s.ph p).lk = true ↔ s.lock = some p) ∧ (∀ p q, (s.ph p).lk = true → (s.ph q).lk = true → p = q) := by
  intro s
  have h := inv_reach ops
  refine ⟨h.L, fun p q hp hq => ?_⟩
  have := (h.L p).1 hp
  rw [(h.L q).1 hq] at this
  exact (Option.some.inj this).symm

/-- **Only the holder of the lock writes, and only in a normal run** (what `lock_precedes_rotation` and
    `lock_released_last` buy; dry-run and generate-only runs leave the index unchanged): in every reachable
    state, an operation that changes `jobs` or `jobs.bak` is performed by the process that owns the lock, and
    that process runs in mode NORMAL. -/
theorem fine_only_holder_writes (ops : List Op) (op : Op) :
    let s := run ops init
    ((step s op).jobs ≠ s.jobs ∨ (step s op).bak ≠ s.bak) →
      s.lock = some op.proc ∧ (s.ph op.proc).mode = .normal := by
  intro s hch
  have h := inv_reach ops
  cases op with
  | tick p n =>
    simp only [step, Op.proc] at hch ⊢
    cases ht : (s.ph p).todo with
    | nil => simp [tick, ht] at hch
    | cons e rest =>
      by_cases hw : e.writes = true
      · have hg := (h.loc p).g
        rw [ht] at hg
        refine ⟨(h.L p).1 (guarded_head hg hw), ?_⟩
        exact allowed_writes ((h.loc p).a e (by rw [ht]; exact List.mem_cons_self)) hw
      · have := tick_files_same (n := n) ht (by simpa using hw)
        rcases hch with h' | h'
        · exact absurd this.1 h'
        · exact absurd this.2 h'
  | start p m => simp only [step] at hch; split at hch <;> simp at hch
  | enterRaises p => simp only [step] at hch; split at hch <;> simp at hch
  | submit p l => simp only [step] at hch; split at hch <;> simp at hch
  | endBlock p exc => simp only [step] at hch; split at hch <;> simp at hch
  | die p => simp [step] at hch

/-- **Nothing is lost by `__enter__`, wherever it is interrupted** (`interrupted_enter_loses_nothing` at the
    finest granularity): in every reachable state, any operation of a process that is inside `__enter__` —
    one more statement, one more link of the rotation loop, an exception, its death — leaves the set of names
    linked in `jobs ∪ jobs.bak` exactly as it was. -/
theorem fine_enter_loses_nothing (ops : List Op) (op : Op) (x : Link) :
    let s := run ops init
    (s.ph op.proc).kind = .entering → (x ∈ idxNames (step s op) ↔ x ∈ idxNames s) := by
  intro s hk
  have h := inv_reach ops
  cases op with
  | tick p n =>
    simp only [Op.proc] at hk
    simp only [step, idxNames, List.mem_append]
    cases ht : (s.ph p).todo with
    | nil => simp [tick, ht]
    | cons e rest =>
      have ha := (h.loc p).a e (by rw [ht]; exact List.mem_cons_self)
      rw [hk] at ha
      by_cases hw : e.writes = true
      · cases e with
        | mkBak => simp [tick, ht, fsEff]
        | rotate d f o =>
          simp only [allowed, Bool.and_eq_true, beq_iff_eq] at ha
          obtain ⟨⟨_, rfl⟩, rfl⟩ := ha
          have := rotate_names s.jobs s.bak s.cur (s.ph p).l n o x
          simpa [tick, ht] using this
        | dropBak => simp [allowed] at ha
        | unlinkIf t => simp [allowed] at ha
        | symlinkIf t => simp [allowed] at ha
        | _ => simp [Eff.writes] at hw
      · have := tick_files_same (n := n) ht (by simpa using hw)
        rw [this.1, this.2]
  | start p m => simp only [step]; split <;> simp [idxNames]
  | enterRaises p => simp only [step]; split <;> simp [idxNames]
  | submit p l => simp only [step]; split <;> simp [idxNames]
  | endBlock p exc => simp only [step]; split <;> simp [idxNames]
  | die p => simp [step, idxNames]

/-- **C16, first and second sentence, at statement level** ("… no backup index remains" / "If the block
    raises, the previous index is kept as backup"): in every reachable state, a process whose next step
    removes (a link of) `jobs.bak` is executing `__exit__` of a NORMAL run whose block ended *without* an
    exception, and owns the lock. -/
theorem fine_backup_dropped_only_clean (ops : List Op) (p : Proc) (rest : List Eff) :
    let s := run ops init
    (s.ph p).todo = .dropBak :: rest →
      (s.ph p).kind = .exiting ∧ (s.ph p).exc = false ∧ (s.ph p).mode = .normal ∧ s.lock = some p := by
  intro s ht
  have h := inv_reach ops
  have ha := (h.loc p).a .dropBak (by rw [ht]; exact List.mem_cons_self)
  have hg := (h.loc p).g
  rw [ht] at hg
  simp only [allowed, Bool.and_eq_true, beq_iff_eq, Bool.not_eq_true'] at ha
  exact ⟨ha.1.1, ha.2, ha.1.2, (h.L p).1 (guarded_head hg rfl)⟩

/-- … and a run whose block raised never touches `jobs` or `jobs.bak` again: every step of its `__exit__`,
    and the death of any process at any point, leaves both folders as they are. -/
theorem fine_abort_keeps_backup (ops : List Op) (p : Proc) (n : Link) :
    let s := run ops init
    ((s.ph p).kind = .exiting → (s.ph p).exc = true → (step s (.tick p n)).jobs = s.jobs ∧ (step s (.tick p n)).bak = s.bak) ∧
    (step s (.die p)).jobs = s.jobs ∧ (step s (.die p)).bak = s.bak ∧
    (step s (.enterRaises p)).jobs = s.jobs ∧ (step s (.enterRaises p)).bak = s.bak ∧
    (step s (.enterRaises p)).lock = s.lock := by
  intro s
  have h := inv_reach ops
  refine ⟨fun hk hx => ?_, rfl, rfl, ?_, ?_, ?_⟩
  · simp only [step]
    cases ht : (s.ph p).todo with
    | nil => simp [tick, ht]
    | cons e rest =>
      have ha := (h.loc p).a e (by rw [ht]; exact List.mem_cons_self)
      rw [hk, hx] at ha
      apply tick_files_same ht
      cases e <;> simp_all [allowed, Eff.writes]
  all_goals (simp only [step]; split <;> rfl)

/-- **Counter-example at this granularity** (the window the coarse model leaves out; kernel-checked, replayed
    on the real code by the harness): a normal run links job 7, links it again (a failed job re-submitted in
    the same run: `aio_submit` unlinks the existing link, then creates it anew) and the process dies between
    `unlink` and `symlink_to`.  Job 7 — a job the aborted run had begun to schedule — is then linked neither in
    `jobs` nor in `jobs.bak`, with the lock free. -/
def relinkDeath : List Op :=
  [.start 1 .normal] ++ List.replicate (enterProg .normal).length (.tick 1 0)
    ++ [.submit 1 7, .tick 1 0, .tick 1 0, .tick 1 0, .submit 1 7, .tick 1 0, .tick 1 0, .die 1]

theorem relink_death_unprotects :
    7 ∈ (run relinkDeath init).cur ∧ 7 ∉ idxNames (run relinkDeath init) ∧ (run relinkDeath init).lock = none := by
  decide

/-- … and that window is the only one inside the block: a step of a process that is inside the block or in
    the link step and is not `unlink` of the link being refreshed removes no name from `jobs ∪ jobs.bak`. -/
theorem fine_link_step_loses_only_at_unlink (ops : List Op) (p : Proc) (n x : Link) (e : Eff) (rest : List Eff) :
    let s := run ops init
    (s.ph p).kind = .linking → (s.ph p).todo = e :: rest → e ≠ .unlinkIf .isSymlink →
      x ∈ idxNames s → x ∈ idxNames (step s (.tick p n)) := by
  intro s hk ht hne hx
  have h := inv_reach ops
  have ha := (h.loc p).a e (by rw [ht]; exact List.mem_cons_self)
  rw [hk] at ha
  simp only [step]
  by_cases hw : e.writes = true
  · cases e with
    | symlinkIf t =>
      have hj : ∀ y, y ∈ names s.jobs → y ∈ names (fsEff s.jobs s.bak s.cur (s.ph p).l n (.symlinkIf t)).1 := by
        intro y hy; simp only [fsEff]; split
        · exact hy
        · split
          · simp only [names, List.map_cons, List.mem_cons]; exact Or.inr hy
          · exact hy
      have hb : (fsEff s.jobs s.bak s.cur (s.ph p).l n (.symlinkIf t)).2.1 = s.bak := by
        simp only [fsEff]; split
        · rfl
        · split <;> rfl
      simp only [idxNames, List.mem_append] at hx ⊢
      simp only [tick, ht, reduceCtorEq, if_false, hb]
      rcases hx with hx | hx
      · exact Or.inl (hj x hx)
      · exact Or.inr hx
    | unlinkIf t => simp only [allowed, Bool.and_eq_true, beq_iff_eq] at ha; exact absurd (by rw [ha.2]) hne
    | mkBak => simp [allowed] at ha
    | rotate d f o => simp [allowed] at ha
    | dropBak => simp [allowed] at ha
    | _ => simp [Eff.writes] at hw
  · have := tick_files_same (n := n) ht (by simpa using hw)
    simp only [idxNames, this.1, this.2]; exact hx

/-! ### non-vacuity -/

/-- two processes: 1 runs a normal experiment with two links already indexed, 2 tries to enter meanwhile
    (its `takeLock` waits), 1 is killed after the first link of the rotation. -/
def demo : List Op :=
  [.start 1 .normal] ++ List.replicate (enterProg .normal).length (.tick 1 0) ++
  [.submit 1 5, .tick 1 0, .tick 1 0, .tick 1 0, .submit 1 6, .tick 1 0, .tick 1 0, .tick 1 0, .endBlock 1 true] ++
  List.replicate (exitProg .normal true).length (.tick 1 0) ++
  [.start 2 .normal, .tick 2 0, .start 3 .generate, .tick 3 0, .tick 2 0, .tick 2 6, .die 2]

example : (run demo init).jobs = [⟨5, 5⟩] ∧ (run demo init).bak = some [⟨6, 6⟩] ∧ (run demo init).lock = none ∧
    ((run demo init).ph 3).lk = false ∧ ((run demo init).ph 3).kind = .entering := by decide

end XpmVerif.C16Fine
