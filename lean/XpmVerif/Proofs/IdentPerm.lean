import XpmVerif.Proofs.Sort
/-! Order independence of the hashed stream (C01) and congruence lemmas. -/
namespace XpmVerif.Ident
open List

/-- `encPairs` is a `filterMap` over the zipped items. -/
theorem encPairs_eq_filterMap (cfg : Nat → List Nat) (mt : Nat → Option Bool) :
    ∀ (ks : List (List Nat)) (vs : List Val),
      encPairs cfg mt ks vs =
        (ks.zip vs).filterMap (fun kv => if dropped mt kv.2 then none else some (kv.1, encVal cfg mt kv.2))
  | [], _ => by simp [encPairs]
  | _ :: _, [] => by simp [encPairs]
  | k :: ks, v :: vs => by
    simp only [encPairs, zip_cons_cons, filterMap_cons]
    split <;> simp_all [encPairs_eq_filterMap cfg mt ks vs]

/-- **dict insertion order**: two dicts with the same items (as a permutation), distinct keys,
    have the same encoding. -/
theorem encVal_dict_perm (cfg : Nat → List Nat) (mt : Nat → Option Bool)
    (ks ks' : List (List Nat)) (vs vs' : List Val)
    (hp : (ks.zip vs) ~ (ks'.zip vs'))
    (hk : ∀ a b, a ∈ ks.zip vs → b ∈ ks.zip vs → a.1 = b.1 → a = b) :
    encVal cfg mt (.dict ks vs) = encVal cfg mt (.dict ks' vs') := by
  simp only [encVal, encPairs_eq_filterMap]
  congr 3
  apply sortBy_eq_of_perm
  · intro a b; exact bytesLe_total a.1 b.1
  · intro a b c; exact bytesLe_trans a.1 b.1 c.1
  · exact hp.filterMap _
  · intro a b ha hb h1 h2
    have hkey := bytesLe_antisymm _ _ h1 h2
    simp only [mem_filterMap] at ha hb
    obtain ⟨x, hx, hxa⟩ := ha
    obtain ⟨y, hy, hyb⟩ := hb
    split at hxa
    · simp at hxa
    · split at hyb
      · simp at hyb
      · simp only [Option.some.injEq] at hxa hyb
        subst hxa; subst hyb
        have := hk x y hx hy hkey
        subst this; rfl

/-- **keyword / declaration order**: permuting the argument list of a node (names distinct)
    leaves its stream unchanged. -/
theorem nodeStream_args_perm (cfg : Nat → List Nat) (ceq : Nat → Nat → Bool) (mt : Nat → Option Bool) (self : Nat) (nd nd' : Node)
    (ht : nd.typeId = nd'.typeId) (hk : nd.task = nd'.task) (hp : nd.args ~ nd'.args)
    (hn : ∀ a b, a ∈ nd.args → b ∈ nd.args → a.name = b.name → a = b) :
    nodeStream cfg ceq mt self nd = nodeStream cfg ceq mt self nd' := by
  have hs : sortBy (fun a b => bytesLe a.name b.name) nd.args = sortBy (fun a b => bytesLe a.name b.name) nd'.args := by
    apply sortBy_eq_of_perm
    · intro a b; exact bytesLe_total a.name b.name
    · intro a b c; exact bytesLe_trans a.name b.name c.name
    · exact hp
    · intro a b ha hb h1 h2
      exact hn a b ha hb (bytesLe_antisymm _ _ h1 h2)
  simp only [nodeStream, ht, hk, hs]

/-- graph-level congruence: if every node of two graphs has the same stream (for every way of
    encoding references), the raw identifiers agree, at any depth, under any stack. -/
theorem rawAt_congr {D : Type} (hc : HC D) (g g' : Graph)
    (h : ∀ n cfg ceq, nodeStream cfg ceq g.mt n (g.node n) = nodeStream cfg ceq g'.mt n (g'.node n)) :
    ∀ fuel stack n, rawAt hc g fuel stack n = rawAt hc g' fuel stack n := by
  intro fuel
  induction fuel with
  | zero => intro stack n; simp [rawAt]
  | succ fuel ih =>
    intro stack n
    simp only [rawAt]
    rw [h n]
    have e : (fun m => hc.emb (rawAt hc g fuel (n :: stack) m)) = (fun m => hc.emb (rawAt hc g' fuel (n :: stack) m)) :=
      funext fun m => by rw [ih]
    rw [e]

end XpmVerif.Ident
