import XpmVerif.Generated.InstSrc
import XpmVerif.Model.Serial
import XpmVerif.Properties.C13
/-! C13 — source obligations for `Generated/InstSrc.lean` (the order of effects of the routes that create runtime objects, read
    off the Python AST on every run by harness/xv/translate/instsrc.py): the hand-written logs of the model M5
    (`instanceLog`, `loadObjectsLog`, `loadInstanceLog`, `runLog`: what `C13.instances_one_per_node`, `post_init_once_after_set`,
    `pretasks_once`, `init_after_pre_before_body`, `loaded_objects_once`, `state_loaded_*` are about) are the interpreters of the
    plans `Inst.expected*`, and the plans in the source ARE `Inst.expected*`.  A change of the position of `__post_init__`, of the
    key of the constructed set (seeded C13b), of how pre-tasks are gathered (C13c, C13g) or de-duplicated, of which definitions
    are post-initialised (C13f), of the order pre-tasks / init tasks / body, makes one of the `…_from_source` theorems fail; a
    shape outside the translator's subset (seeded C13-pretaskdup; a harmless extraction of a helper) leaves the reference plan
    and the correspondence decides.

    The interpreters are faithful AT the expected plans (that is the content of the `…_follows_plan` theorems); for other plans they
    describe the obvious reading (e.g. `__post_init__` before the attributes), not every Python behaviour (de-duplication by `==`
    instead of identity is not modelled: the plan just differs). -/
namespace XpmVerif.C13Src
open XpmVerif XpmVerif.Ident XpmVerif.Serial XpmVerif.Inst

/-! ## interpreters -/

def postEvents (steps : List PostStep) (g : Graph) (n : Nat) : List Ev :=
  steps.flatMap (fun s => match s with
    | .setAttrs => (presentNames (g.node n)).map (.set n)
    | .postInit => [.postInit n]
    | _ => [])

def evOfTPlan (p : FromPython) (g : Graph) : TEv → List Ev
  | .enter n => [.new n, .init n]
  | .exit n => postEvents p.post g n

/-- the gathered pre-tasks, in the order `fromConfig` executes them -/
def gathered (p : FromPython) (g : Graph) (exits : List Nat) : List Nat :=
  let all := exits.flatMap (fun n => (g.node n).preTasks)
  if p.preTasksKeyedById then firstOcc [] all else all

/-- `config.instance(context, objects=store)` under a plan (`constructed` = ids the store holds as constructed: meaningful
    when the constructed set is keyed by the configuration). -/
def instanceLogPlan (p : FromPython) (g : Graph) (constructed : List Nat) (root : Nat) : List Ev :=
  let r := dfs (succInst g) (g.size + 1) root ([], constructed)
  r.1.flatMap (evOfTPlan p g) ++
    (if p.execGatheredAfterWalk then (gathered p g (exitsOf r.1)).map .exec else [])

def fillEventsPlan (steps : List FillStep) (d : Def) : List Ev :=
  steps.flatMap (fun s => match s with
    | .init => [.init d.id]
    | .setFields => d.fields.map (fun f => Ev.set d.id f.1)
    | .postInit => [.postInit d.id])

def loadObjectsLogPlan (lp : Load) (defs : List Def) : List Ev :=
  if lp.twoPasses then defs.map (fun d => Ev.new d.id) ++ defs.flatMap (fillEventsPlan lp.fill)
  else defs.flatMap (fun d => Ev.new d.id :: fillEventsPlan lp.fill d)

def phaseEvents (fp : FromParams) (defs : List Def) : Phase → List Ev
  | .pre => (if fp.preOncePerId then preList defs else defs.flatMap (fun d => d.pre.getD [])).map .exec
  | .init => (initList defs).map .exec

def loadInstanceLogPlan (lp : Load) (fp : FromParams) (defs : List Def) : List Ev :=
  loadObjectsLogPlan lp defs ++ fp.exec.flatMap (phaseEvents fp defs)

def runLogPlan (rp : List RunStep) (lp : Load) (fp : FromParams) (defs : List Def) : List Ev :=
  rp.flatMap (fun s => match s with
    | .load => loadInstanceLogPlan lp fp defs
    | .tags => []
    | .body => match defs.getLast? with | some d => [.body d.id] | none => [])

/-! ## the model's logs are the interpreters of the expected plans -/

theorem evOfT_follows_plan (g : Graph) : evOfT g = evOfTPlan expectedFromPython g := by
  funext t
  cases t <;> simp [evOfT, evOfTPlan, postEvents, expectedFromPython]

/-- `instanceLog` (C13 `instances_one_per_node`, `post_init_once_after_set`, `pretasks_once`) is the interpreter of the expected
    plan of `FromPython` / `fromConfig`. -/
theorem instanceLog_follows_plan (g : Graph) (constructed : List Nat) (root : Nat) :
    instanceLog g constructed root = instanceLogPlan expectedFromPython g constructed root := by
  simp only [instanceLog, instanceWalk, instanceLogPlan, gathered, evOfT_follows_plan]
  rfl

theorem fillEvents_follows_plan (d : Def) : fillEvents d = fillEventsPlan expectedLoad.fill d := by
  simp [fillEvents, fillEventsPlan, expectedLoad]

/-- `loadObjectsLog` (C13 `state_loaded_*`) is the interpreter of the expected plan of `load_objects(as_instance=True)`. -/
theorem loadObjectsLog_follows_plan (defs : List Def) : loadObjectsLog defs = loadObjectsLogPlan expectedLoad defs := by
  have h : fillEvents = fillEventsPlan expectedLoad.fill := funext fillEvents_follows_plan
  simp only [loadObjectsLog, loadObjectsLogPlan, h]
  rfl

/-- `loadInstanceLog` (C13 `loaded_objects_once`, `init_after_pre_before_body`) is the interpreter of the expected plans of
    `load_objects` and `fromParameters`. -/
theorem loadInstanceLog_follows_plan (defs : List Def) :
    loadInstanceLog defs = loadInstanceLogPlan expectedLoad expectedFromParams defs := by
  have h := loadObjectsLog_follows_plan defs
  simp only [loadObjectsLog] at h
  simp only [loadInstanceLog, loadInstanceLogPlan, ← h, expectedFromParams, List.flatMap_cons, List.flatMap_nil, phaseEvents,
    if_true, List.append_nil, List.append_assoc]

/-- `runLog` is the interpreter of the expected plan of `run.py::run`. -/
theorem runLog_follows_plan (defs : List Def) :
    runLog defs = runLogPlan expectedRun expectedLoad expectedFromParams defs := by
  simp only [runLog, runLogPlan, expectedRun, List.flatMap_cons, List.flatMap_nil, List.nil_append, List.append_nil,
    loadInstanceLog_follows_plan]
  cases defs.getLast? <;> rfl

/-! ## the plans of the source -/

/-- the plans read off the source are the plans the model follows. -/
theorem inst_plan_is_source :
    Gen.fromPythonSrc = expectedFromPython ∧ Gen.loadSrc = expectedLoad ∧ Gen.fromParamsSrc = expectedFromParams ∧
    Gen.runSrc = expectedRun := by
  decide

/-- position of the first occurrence -/
def idx {α : Type} [DecidableEq α] (l : List α) (a : α) : Nat := l.idxOf a

/-- **`__post_init__` after the parameters are set**: in `FromPython.postprocess` the attribute copy comes before the
    `__post_init__()` call, and in the fill loop of `load_objects` `__init__()`, the `setattr`s, `__post_init__()` come in this order. -/
theorem post_init_after_attributes_from_source :
    Gen.fromPythonSrc.post.contains .setAttrs = true ∧ Gen.fromPythonSrc.post.contains .postInit = true ∧
    idx Gen.fromPythonSrc.post .setAttrs < idx Gen.fromPythonSrc.post .postInit ∧
    Gen.loadSrc.fill = [.init, .setFields, .postInit] := by
  decide

/-- **one object per configuration**: the store and the constructed set are keyed by the configuration (`id(config)`) at the
    four places that use them, a stored object is reused and a new one created exactly when none is stored (seeded C13b keyed
    the constructed set by the runtime object, C13e created a second object for a falsy one). -/
theorem constructed_keyed_by_config_from_source :
    Gen.fromPythonSrc.preprocessTests = .config ∧ Gen.fromPythonSrc.refusedReturnsStored = true ∧
    Gen.fromPythonSrc.stubLooksUp = .config ∧ Gen.fromPythonSrc.stubStores = .config ∧
    Gen.fromPythonSrc.stubCreatesWhenNone = true ∧ Gen.fromPythonSrc.post.contains (.setConstructed .config) = true := by
  decide

/-- **every pre-task exactly once**: gathered in a dictionary keyed by the identity of the pre-task, created empty by every
    call, executed once after the walk (`instance()`); appended the first time its id is met over all definitions
    (`fromParameters`) — seeded C13c compared with `==`, C13g kept the dictionary in the store. -/
theorem pretasks_deduplicated_by_identity_from_source :
    Gen.fromPythonSrc.preTasksKeyedById = true ∧ Gen.fromPythonSrc.preTasksFresh = true ∧
    Gen.fromPythonSrc.execGatheredAfterWalk = true ∧ Gen.fromPythonSrc.post.contains .gatherPre = true ∧
    Gen.fromParamsSrc.preOverAllDefinitions = true ∧ Gen.fromParamsSrc.preOncePerId = true := by
  decide

/-- **init tasks after the pre-tasks and before the body**: `fromParameters` loads, then executes the pre-tasks, then the init
    tasks of the last definition; `run` calls it before `task.execute()`. -/
theorem init_tasks_after_pretasks_before_body_from_source :
    Gen.fromParamsSrc.loadsFirst = true ∧ Gen.fromParamsSrc.initOfLast = true ∧ Gen.fromParamsSrc.exec = [.pre, .init] ∧
    Gen.fromParamsSrc.returned = [.pre, .init] ∧ idx Gen.runSrc .load < idx Gen.runSrc .body ∧ Gen.runSrc.contains .body = true := by
  decide

/-- **every definition is post-initialised**, after all objects exist (seeded C13f restricted it to the definitions
    reachable from the last one). -/
theorem post_init_for_every_definition_from_source :
    Gen.loadSrc.postInitEveryDefinition = true ∧ Gen.loadSrc.twoPasses = true := by
  decide

/-! ## the theorems of C13 apply to the order of effects found in the source -/

theorem instanceLog_is_source (g : Graph) (constructed : List Nat) (root : Nat) :
    instanceLog g constructed root = instanceLogPlan Gen.fromPythonSrc g constructed root := by
  rw [inst_plan_is_source.1]; exact instanceLog_follows_plan g constructed root

theorem loadObjectsLog_is_source (defs : List Def) : loadObjectsLog defs = loadObjectsLogPlan Gen.loadSrc defs := by
  rw [inst_plan_is_source.2.1]; exact loadObjectsLog_follows_plan defs

theorem runLog_is_source (defs : List Def) :
    loadInstanceLog defs = loadInstanceLogPlan Gen.loadSrc Gen.fromParamsSrc defs ∧
    runLog defs = runLogPlan Gen.runSrc Gen.loadSrc Gen.fromParamsSrc defs := by
  rw [inst_plan_is_source.2.1, inst_plan_is_source.2.2.1, inst_plan_is_source.2.2.2]
  exact ⟨loadInstanceLog_follows_plan defs, runLog_follows_plan defs⟩

/-- `C13.pretasks_once` for the order of effects found in the source: under the plan of `FromPython` / `fromConfig` read off the
    AST, a lightweight task is executed exactly once if it is a pre-task of some newly built configuration, never otherwise. -/
theorem pretasks_once_applies_to_source (g : Graph) (cons : List Nat) (root : Nat) (p : Nat) :
    (instanceLogPlan Gen.fromPythonSrc g cons root).count (Ev.exec p) =
      (if ∃ n ∈ exitsOf (instanceWalk g cons root).trace, p ∈ (g.node n).preTasks then 1 else 0) := by
  rw [← instanceLog_is_source]
  exact (C13.pretasks_once g cons root).1 p

/-- `C13.post_init_once_after_set` for the order of effects found in the source. -/
theorem post_init_once_applies_to_source (g : Graph) (cons : List Nat) (root : Nat) (hwf : WFInst g) (hr : root < g.size) (n : Nat)
    (hn : n ∈ entersOf (instanceWalk g cons root).trace) :
    ∃ l1 l2, instanceLogPlan Gen.fromPythonSrc g cons root
        = l1 ++ ((presentNames (g.node n)).map (Ev.set n) ++ [Ev.postInit n]) ++ l2 ∧
      Ev.postInit n ∉ l1 ∧ Ev.postInit n ∉ l2 ∧ (∀ a, Ev.set n a ∉ l1) ∧ (∀ a, Ev.set n a ∉ l2) ∧ Ev.init n ∈ l1 := by
  rw [← instanceLog_is_source]
  exact (C13.post_init_once_after_set g cons root hwf hr n).1 hn

/-- `C13.init_after_pre_before_body` for the order of effects found in the source (`run.py::run` → `fromParameters` →
    `load_objects`): construction of all objects, then every pre-task once, then the init tasks of the task, then its body. -/
theorem init_after_pre_before_body_applies_to_source (fl : Flags) (lib : List Cls) (sg : SGraph) (root : Nat)
    (hwf : ∀ n, n < sg.g.size → ∀ m ∈ succAll sg.g n, m < sg.g.size) (hr : root < sg.g.size) :
    let defs := serialize fl lib sg [root]
    ∃ build,
      runLogPlan Gen.runSrc Gen.loadSrc Gen.fromParamsSrc defs
        = build ++ (preList defs).map Ev.exec ++ ((sg.g.node root).initTasks).map Ev.exec ++ [Ev.body root] ∧
      (∀ p, Ev.exec p ∉ build) ∧ (∀ n, Ev.body n ∉ build) ∧ (preList defs).Nodup := by
  intro defs
  obtain ⟨b, h1, h2, h3, h4, _⟩ := C13.init_after_pre_before_body fl lib sg root hwf hr
  exact ⟨b, (runLog_is_source defs).2 ▸ h1, h2, h3, h4⟩
/-- the plans matter: `__post_init__` before the attribute copy is observed by the log (the parameters are set afterwards);
    pre-tasks gathered without identity are executed twice when two configurations share one. -/
example :
    postEvents [.postInit, .setAttrs] { nodes := [{ typeId := [], args := [{ name := [120], value := .int 1 }] }] } 0
      = [.postInit 0, .set 0 [120]] ∧
    gathered { expectedFromPython with preTasksKeyedById := false }
      { nodes := [{ typeId := [], args := [], preTasks := [2] }, { typeId := [], args := [], preTasks := [2] }, { typeId := [], args := [] }] } [1, 0]
      = [2, 2] := by decide

end XpmVerif.C13Src
