import XpmVerif.Generated.FilterSrc
import XpmVerif.Properties.C19
import XpmVerif.Properties.C19Partial
/-! C19 — source obligations.  `Generated/FilterSrc.lean` is rewritten on every run by
    `harness/xv/translate/filtersrc.py` from `cli/filter.py` (`JobInformation.state`, `VarExpr.get`,
    the `filter` methods, `LogicExpr.summary`), `cli/jobs.py` (`process()`: the decisions that lead to
    `rmtree`) and `cli/__init__.py` (`orphans()`: index sources and removal decision).  The theorems
    `src_*` state that the regenerated definitions are the repaired model (`Quirks.none`); the other
    theorems restate the property theorems of `Properties/C19.lean` directly about the regenerated
    definitions.  When the source changes its meaning, the generated bodies change and the `src_*`
    obligations stop checking. -/
namespace XpmVerif.C19Src
open XpmVerif.Filter XpmVerif.Gen

/-! ### obligations: regenerated definition = hand-written model -/

/-- `JobInformation.state` as read from the source is the safe marker precedence
    done > pid > failed (second sentence: "never a running job" rests on it). -/
theorem src_state (j : Job) : stateSrc j = stateSpec j := by
  cases hd : j.done <;> cases hp : j.pid <;> cases hf : j.failed <;> simp [stateSrc, stateSpec, hd, hp, hf]

/-- `VarExpr.get` as read from the source: `@state` ↦ state name, `@name` ↦ task name, a tag ↦ its
    value or `None`. -/
theorem src_varGet (i : Info) (v : Var) : varGetSrc i v = v.get i := by
  cases v <;> simp [varGetSrc, Var.get]

/-- the `filter` methods of `EqExpr`, `InExpr`, `NotInExpr`, `RegexExpr` as read from the source have
    the documented meaning of `=`, `in`, `not in`, `~` (first sentence, per comparison). -/
theorem src_atom (rx : Rx) (i : Info) (a : Atom) : atomSrc rx i a = a.spec rx i := by
  cases a with
  | eqVar v w => simp [atomSrc, Atom.spec, eqSrc, src_varGet]
  | eqConst v c => simp [atomSrc, Atom.spec, eqSrc, src_varGet, constGetSrc]
  | isIn v cs => simp [atomSrc, Atom.spec, inSrc, src_varGet, pyIn, pyInObjs]
  | notIn v cs => simp [atomSrc, Atom.spec, notInSrc, src_varGet, pyIn, pyInObjs]
  | regex v pat =>
    simp only [atomSrc, Atom.spec, regexSrc, src_varGet]
    cases v.get i with
    | none => simp [truthy, rxCall, rxMatch]
    | some s => by_cases h : s = "" <;> simp [truthy, rxCall, rxMatch, h]

/-- `LogicExpr.filter` as read from the source combines the right operand `y` and the chain `x`
    with the operator's truth table. -/
theorem src_logic (op : Op) (y x : Bool) : logicSrc op y x = op.apply x y := by
  cases op <;> cases y <;> cases x <;> rfl

/-- the object graph evaluated by the regenerated `filter` methods is the model's. -/
theorem src_objFilter (rx : Rx) (i : Info) (o : Obj) : objFilterSrc rx i o = o.filter Quirks.none rx i := by
  induction o with
  | atom a => simp [objFilterSrc, Obj.filter, src_atom, Atom.impl_none]
  | logic op y x ih => rw [objFilterSrc, ih, Obj.filter_logic, src_logic, src_atom, Atom.impl_none]

/-- `LogicExpr.summary` as read from the source builds the left-nested chain of the model. -/
theorem src_summary (e : Expr) : summarySrc e = summary e := by
  unfold summarySrc summary
  cases e.rest <;> simp

/-- `RegexExpr.__init__` compiles the pattern text: `createFilter` does not raise. -/
theorem src_compile (e : Expr) : compileSrc e = compile Quirks.none e := by
  simp [compileSrc, compile, Quirks.none, regexInitRaises, src_summary]

/-- **`Gen.evalSrc = Filter.evalImpl repairedQuirks`.** -/
theorem src_eval (rx : Rx) (e : Expr) (i : Info) : evalSrc rx e i = evalImpl Quirks.none rx e i := by
  unfold evalSrc evalImpl
  rw [src_compile]
  cases compile Quirks.none e <;> simp [src_objFilter]

/-- the first loop of `process()`: without `--perform` an experiment with a backup index switches
    cleaning off; with `--perform` the flag stays. -/
theorem src_cleanFlag (perform bak : Bool) : cleanFlagSrc true false perform bak = !(bak && !perform) := by
  cases perform <;> cases bak <;> rfl

/-- the second loop of `process()`: `rmtree` is reached for a job directory iff it is not skipped by
    `--experiment`, not skipped by the filter, cleaning is on, the state is a finished one, and
    `--perform` was given (truth table over all ten decision atoms). -/
theorem src_removeDecision (ready hasXp inXps hasFilter pass clean hasState finished perform : Bool) :
    removeDecisionSrc true ready hasXp inXps hasFilter pass clean hasState finished perform
      = (!(hasXp && !inXps) && !(hasFilter && !pass) && clean && (hasState && finished) && perform) := by
  cases ready <;> cases hasXp <;> cases inXps <;> cases hasFilter <;> cases pass <;> cases clean <;>
    cases hasState <;> cases finished <;> cases perform <;> rfl

/-- experiment membership is recorded per resolved job path (not per script name). -/
theorem src_xpKey : xpKeyByScriptSrc = false := rfl

theorem src_finished (j : Job) : finishedSrc j = isFinished (stateSpec j) := by
  unfold finishedSrc isFinished
  rw [src_state]
  cases stateSpec j <;> rfl

/-- the per-job decision of the regenerated `process(clean=True)` is the repaired model's. -/
theorem src_removes (rx : Rx) (sc : String → String) (L : Layout) (o : CleanOpts) (flt : Option Obj) (j : Job)
    (hf : o.filter.isSome = flt.isSome) :
    removesSrc rx sc L o flt j = removesImpl Quirks.none rx sc L o flt j := by
  have hst : stateSrc = stateSpec := funext src_state
  unfold removesSrc removesImpl
  simp only [src_removeDecision, src_cleanFlag, src_finished, src_xpKey, hst, stateImpl_none,
    infoOf_stateImpl_none, cleanEnabled]
  have hq : ({ xpByScript := false } : Quirks) = Quirks.none := rfl
  rw [hq]
  cases hx : o.experiment with
  | none =>
    cases flt with
    | none => simp [hf]; cases stateSpec j <;> simp [isFinished, Bool.and_assoc]
    | some f => simp [hf, src_objFilter]; cases stateSpec j <;> simp [isFinished, Bool.and_assoc]
  | some X =>
    cases flt with
    | none => simp [hf]; cases stateSpec j <;> simp [isFinished, Bool.and_assoc]
    | some f => simp [hf, src_objFilter]; cases stateSpec j <;> simp [isFinished, Bool.and_assoc]

/-- **`Gen.cleanSrc = Clean.cleanImpl repairedQuirks`** (`Gen.selectSrc = Clean.selected …`). -/
theorem src_clean (rx : Rx) (sc : String → String) (L : Layout) (o : CleanOpts) :
    cleanSrc rx sc L o = cleanImpl Quirks.none rx sc L o := by
  unfold cleanSrc cleanImpl
  cases hf : o.filter with
  | none => simp [src_removes rx sc L o none _ (by simp [hf])]
  | some e =>
    simp only [src_compile]
    cases compile Quirks.none e with
    | none => rfl
    | some f => simp [src_removes rx sc L o (some f) _ (by simp [hf])]

/-- `orphans()`: the reference set is read from every `*/jobs` and, unless `--ignore-old`, every
    `*/jobs.bak`. -/
theorem src_orphSources (ignoreOld : Bool) : orphSourcesSrc ignoreOld = (true, !ignoreOld) := by
  cases ignoreOld <;> rfl

/-- `orphans()`: a stored job directory is removed iff it is not in the reference set and `--clean`. -/
theorem src_orphDecision (inXpjobs clean showAll isLink : Bool) :
    orphRemoveDecisionSrc inXpjobs clean showAll isLink = (clean && !inXpjobs) := by
  cases inXpjobs <;> cases clean <;> cases showAll <;> cases isLink <;> rfl

/-- **`Gen.orphansSrc = Clean.orphansImpl`.** -/
theorem src_orphans (L : Layout) (o : OrphOpts) : orphansSrc L o = orphansImpl L o := by
  unfold orphansSrc orphansImpl xpjobsSrc xpjobs
  simp only [src_orphSources, src_orphDecision]
  cases o.ignoreOld <;> simp

theorem src_runCmds (rx : Rx) (sc : String → String) (L : Layout) (cs : List Cmd) :
    runCmdsSrc rx sc L cs = runCmds Quirks.none rx sc L cs := by
  have h : runCmdSrc rx sc = runCmd Quirks.none rx sc := by
    funext L c; cases c <;> simp [runCmdSrc, runCmd, src_clean, src_orphans]
  simp [runCmdsSrc, runCmds, h]

/-! ### the property theorems, about the regenerated definitions -/

/-- **C19, first sentence, on the regenerated filter.** -/
theorem evalSrc_eq_spec (rx : Rx) (e : Expr) (i : Info) : evalSrc rx e i = some (evalSpec rx e i) := by
  rw [src_eval]; exact C19.evalImpl_eq_spec rx e i

/-- **C19, second sentence, on the regenerated `process(clean=True)`**: exact removal set. -/
theorem cleanSrc_exact (rx : Rx) (sc : String → String) (L : Layout) (o : CleanOpts) :
    ∃ L', cleanSrc rx sc L o = some L' ∧ L'.xps = L.xps ∧
      ∀ j, j ∈ L'.jobs ↔
        j ∈ L.jobs ∧ ¬ (o.perform = true ∧ inScope L o j = true ∧ selected rx o j = true
                        ∧ isFinished (stateSpec j) = true) := by
  rw [src_clean]; exact C19.clean_exact rx sc L o

/-- **never a running job**, on the regenerated definitions. -/
theorem cleanSrc_never_running (rx : Rx) (sc : String → String) (L : Layout) (o : CleanOpts) (j : Job)
    (hj : j ∈ L.jobs) (hr : j.running = true) :
    ∃ L', cleanSrc rx sc L o = some L' ∧ j ∈ L'.jobs := by
  rw [src_clean]; exact C19.clean_never_running rx sc L o j hj hr

/-- **only with `--perform`**, on the regenerated definitions. -/
theorem cleanSrc_noop_without_perform (rx : Rx) (sc : String → String) (L : Layout) (o : CleanOpts)
    (h : o.perform = false) : cleanSrc rx sc L o = some L := by
  rw [src_clean]; exact C19.clean_noop_without_perform rx sc L o h

/-- **C19, third sentence, on the regenerated `orphans()`.** -/
theorem orphansSrc_exact (L : Layout) (o : OrphOpts) :
    (orphansSrc L o).xps = L.xps ∧
    ∀ j, j ∈ (orphansSrc L o).jobs ↔
      j ∈ L.jobs ∧ ¬ (o.clean = true ∧
        ¬ ∃ x ∈ L.xps, j.key ∈ x.index ∨ (o.ignoreOld = false ∧ ∃ b, x.backup = some b ∧ j.key ∈ b)) := by
  rw [src_orphans]; exact C19.orphans_exact L o

/-- **histories** of regenerated commands. -/
theorem historySrc_safe (rx : Rx) (sc : String → String) (cs : List Cmd) (L : Layout) :
    (runCmdsSrc rx sc L cs).xps = L.xps ∧
    (∀ j, j ∈ (runCmdsSrc rx sc L cs).jobs → j ∈ L.jobs) ∧
    (∀ j, j ∈ L.jobs → isFinished (stateSpec j) = false → (∃ x ∈ L.xps, j.key ∈ x.index) →
        j ∈ (runCmdsSrc rx sc L cs).jobs) := by
  rw [src_runCmds]; exact C19.history_safe rx sc cs L

/-- `process()` as read from the source has no handler around the filter call: a filter that raises on a job aborts
    the command (no entry enumerated after that job is touched); in particular the job is not kept in the selection. -/
theorem src_filterRaise : filterRaiseSrc = RaisePolicy.abort := rfl

/-- **safety half of the second sentence on workspaces where the filter cannot be evaluated on some job**, for the
    regenerated policy: whatever `jobs clean` does there (abort included), a job directory that is gone was finished,
    in scope, `--perform` was given and the filter has the three-valued meaning *true* on it. -/
theorem cleanPSrc_removes_only_selected (rx : Rx) (L : HLayout) (o : CleanOpts) :
    (cleanPSrc rx L o).2.xps = L.xps ∧
    (∀ hj, hj ∈ (cleanPSrc rx L o).2.jobs → hj ∈ L.jobs) ∧
    (∀ hj, hj ∈ L.jobs → hj ∉ (cleanPSrc rx L o).2.jobs →
      o.perform = true ∧ inScope L.base o hj.job = true ∧ isFinished (stateSpec hj.job) = true ∧
        (∀ e, o.filter = some e → evalK rx e (infoOf stateSpec hj.job) hj.hz = .t)) := by
  unfold cleanPSrc
  rw [src_filterRaise]
  exact C19Partial.clean_removes_only_selected .abort (by decide) rx L o

/-- non-vacuity: the regenerated commands on the concrete workspace of `Properties/C19.lean`. -/
example : (cleanSrc (fun _ _ => false) C19.scOf C19.L0 { experiment := some "e1", perform := true }).map (·.jobs)
    = some [C19.jB, C19.jC, C19.jR, C19.jO] := by decide
example : (orphansSrc C19.L0 { clean := true }).jobs = [C19.jA, C19.jB, C19.jC, C19.jR] := by decide
example : evalSrc (fun _ _ => false)
    ⟨.notIn (.tag "model") ["bm25"], [(.and, .isIn (.tag "mode") ["a", "b"])]⟩
    { state := none, name := "pkg.task", tags := [("model", "tfidf"), ("mode", "a")] } = some true := by decide

end XpmVerif.C19Src
