import sys, time, logging
from pathlib import Path
import tempfile
from experimaestro import Task, Param, experiment
logging.disable(logging.CRITICAL)

class A(Task):
    __xpmid__ = "f37.a"
    x: Param[int]
    def execute(self):
        import time; time.sleep(2.5)
        Path(self.__xpm__.job.path if False else ".").joinpath("a.done").write_text("ok")

class B(Task):
    __xpmid__ = "f37.b"
    a: Param[A]
    def execute(self):
        pass

if __name__ == "__main__":
    ws = Path(tempfile.mkdtemp(prefix="f37-"))
    with experiment(ws, "f37", port=-1) as xp:
        a1 = A(x=1); a1.submit()
        a2 = A(x=1); out = a2.submit()
        b = B(a=a2); b.submit()
        deps = [type(d).__name__ for d in b.__xpm__.job.dependencies]
        origins = [getattr(d, "origin", None) for d in b.__xpm__.job.dependencies]
        print("returned is a1:", out is a1, "| deps of B:", deps, "| origin is a1's job:", [o is a1.__xpm__.job for o in origins])
        t0=time.time()
        b.__xpm__.job.wait(); tb=time.time()-t0
        a1.__xpm__.job.wait(); ta=time.time()-t0
        print(f"B final after {tb:.2f}s, A final after {ta:.2f}s")
        bad = tb < ta - 0.5
    print("VIOLATION: B finished before A" if bad else "ok")
    sys.exit(1 if bad else 0)
