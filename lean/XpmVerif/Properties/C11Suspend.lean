import XpmVerif.Model.RestartSuspend
/-! C11 — "running jobs are adopted rather than relaunched": a *suspended* job (SIGSTOP, cluster suspend, debugger attached)
    is a running job.  `genActiveStatuses` is re-read from `connectors/local.py` on every run. -/
namespace XpmVerif.C11Suspend
open XpmVerif.Restart XpmVerif.Sched

/-- **source obligation**: whatever list of `psutil` statuses `PsutilProcess` consults, every status of a process that goes on
    (running, sleeping, disk-sleep, **stopped**, **tracing-stop**, idle, waking, parked) counts as alive, and no process = not alive. -/
theorem suspended_counts_as_alive_from_source (s : PStat) :
    (s.goesOn = true → treatedAlive genActiveStatuses s = true) ∧ treatedAlive genActiveStatuses .gone = false := by
  cases s <;> decide

/-- **adoption and waiting do not distinguish a stopped process from a running one**: whatever status the environment gives
    to the live processes (any `os` with only going-on statuses), the job is adopted exactly when the model's world
    (`Restart.world`, which only knows `alive`) adopts it, and the wait on process `p` is over exactly when `p` is gone. -/
theorem adoption_and_wait_ignore_suspension (d : Disk) (os : Nat → PStat) (hos : ∀ p, (os p).goesOn = true)
    (j : Nat) (jb : Job) (p : Nat) :
    adoptS genActiveStatuses d os jb.ident = (world.look d j jb).adopt ∧
    waitOverS genActiveStatuses d os p = !d.alive p := by
  have key : ∀ q, treatedAlive genActiveStatuses (statusOf d os q) = d.alive q := by
    intro q
    unfold statusOf
    cases h : d.alive q with
    | true => simpa using (suspended_counts_as_alive_from_source (os q)).1 (hos q)
    | false => simpa using (suspended_counts_as_alive_from_source .running).2
  refine ⟨?_, by simp [waitOverS, key]⟩
  simp only [adoptS, world]
  cases (d.dir jb.ident).pid with
  | none => rfl
  | some q => exact key q

/-- in particular: suspending (or resuming) a process changes no decision. -/
theorem stopped_is_running (d : Disk) (os : Nat → PStat) (hos : ∀ p, (os p).goesOn = true) (q : Nat) (jb : Job) (p : Nat) :
    let os' := fun x => if x = q then PStat.stopped else os x
    adoptS genActiveStatuses d os' jb.ident = adoptS genActiveStatuses d os jb.ident ∧
    waitOverS genActiveStatuses d os' p = waitOverS genActiveStatuses d os p := by
  intro os'
  have hos' : ∀ x, (os' x).goesOn = true := by
    intro x
    by_cases h : x = q
    · simp [os', h, PStat.goesOn]
    · simpa [os', h] using hos x
  have a := adoption_and_wait_ignore_suspension d os hos 0 jb p
  have b := adoption_and_wait_ignore_suspension d os' hos' 0 jb p
  exact ⟨b.1.trans a.1.symm, b.2.trans a.2.symm⟩

/-- negative witness: with the white list `running, sleeping, disk-sleep` a live, stopped process is taken for ended
    (not adopted; the wait on it is over) — the shape the obligation above excludes. -/
theorem whitelist_takes_suspended_for_ended :
    treatedAlive (some [.running, .sleeping, .diskSleep]) .stopped = false ∧
    treatedAlive (some [.running, .sleeping, .diskSleep]) .tracingStop = false := by decide

/-- non-vacuity: a disk with a live process named by a pid file; it is adopted whether the environment says running or stopped. -/
example : let d : Disk := ({} : Disk).spawn 5 0 |>.setDir 5 { pid := some 0 }
    adoptS genActiveStatuses d (fun _ => .stopped) 5 = true ∧ adoptS genActiveStatuses d (fun _ => .running) 5 = true ∧ d.alive 0 = true := by
  decide

end XpmVerif.C11Suspend
