import XpmVerif.Model.IdentImpl
/-! M1b: the inputs of a submission that are *not* part of the signature, as explicit fields of the model.

    A configuration object carries, besides what `Node` holds, its tags (`cfg.tag(k, v)`), the dependencies the user added
    with `add_dependencies` (on other jobs, on tokens); a submission moreover has a launcher, a workspace and a run mode.
    `XNode` / `XGraph` hold them, the correspondence sends them, and the identifier functions of the extended model are those
    of the core model on the erasure `XGraph.core` — the theorems of Properties/C02Env.lean say what that means for each field,
    for graphs and for operation histories (`xstep`). -/
namespace XpmVerif.Ident

/-- a dependency added by the user: on the job of another task of the graph, or on `count` units of a token. -/
inductive ExtraDep where
  | job (n : Nat)
  | token (tok count : Nat)
  deriving Repr, Inhabited

structure XNode extends Node where
  tags : List (List Nat × Val) := []        -- `__xpm__._tags`, insertion order
  extraDeps : List ExtraDep := []           -- `__xpm__.dependencies`
  deriving Repr, Inhabited

/-- `RunMode`: NORMAL, DRY_RUN, GENERATE_ONLY. -/
inductive RunMode where
  | normal | dryRun | generateOnly
  deriving Repr, Inhabited, DecidableEq

/-- the environment of a submission: launcher and workspace are opaque identities. -/
structure SubmitEnv where
  launcher : Option Nat := none             -- `submit(launcher=…)`; `none` = the workspace's default
  workspace : Nat := 0
  runMode : RunMode := .normal
  deriving Repr, Inhabited

structure XGraph where
  nodes : List XNode
  env : SubmitEnv := {}
  deriving Repr, Inhabited

/-- what the identifier computation reads. -/
def XGraph.core (x : XGraph) : Graph := { nodes := x.nodes.map (·.toNode) }

def xRawId {D : Type} (hc : HC D) (x : XGraph) (n : Nat) : D := rawId hc x.core n
def xFullId {D : Type} (hc : HC D) (x : XGraph) (n : Nat) : D := fullId hc x.core n

def XGraph.updNode (x : XGraph) (n : Nat) (f : XNode → XNode) : XGraph :=
  { x with nodes := x.nodes.zipIdx.map (fun (nd, i) => if i = n then f nd else nd) }

/-- `cfg.tag(k, v)` (replaces the value of an existing tag). -/
def XGraph.tag (x : XGraph) (n : Nat) (k : List Nat) (v : Val) : XGraph :=
  x.updNode n (fun nd => { nd with tags := nd.tags.filter (fun kv => kv.1 != k) ++ [(k, v)] })
/-- `cfg.add_dependencies(d)`. -/
def XGraph.addDep (x : XGraph) (n : Nat) (d : ExtraDep) : XGraph :=
  x.updNode n (fun nd => { nd with extraDeps := nd.extraDeps ++ [d] })
def XGraph.setEnv (x : XGraph) (e : SubmitEnv) : XGraph := { x with env := e }

/-! ### histories: the state machine of Model/IdentImpl.lean (`step`: caches, sealing, guarded mutators) extended with the
    operations on the non-signature fields.  These operations are accepted also on a sealed configuration
    (`tag` / `add_dependencies` have no `_sealed` guard in the code). -/

structure XSt (D : Type) where
  st : St D
  tags : List (Nat × List Nat × Val) := []
  deps : List (Nat × ExtraDep) := []
  env : SubmitEnv := {}

inductive XOp where
  | core (op : Op)
  | tag (n : Nat) (k : List Nat) (v : Val)
  | addDep (n : Nat) (d : ExtraDep)
  | setEnv (e : SubmitEnv)
  deriving Repr

def xstep {D : Type} (hc : HC D) (flagStored : Bool) (s : XSt D) : XOp → XSt D × Out D
  | .core op => let (st', o) := step hc flagStored s.st op; ({ s with st := st' }, o)
  | .tag n k v => ({ s with tags := s.tags ++ [(n, k, v)] }, .ok)
  | .addDep n d => ({ s with deps := s.deps ++ [(n, d)] }, .ok)
  | .setEnv e => ({ s with env := e }, .ok)

/-- run a history; the outputs of the core operations (identifier requests, seal, guarded mutators), in order. -/
def xrun {D : Type} (hc : HC D) (flagStored : Bool) : XSt D → List XOp → XSt D × List (Out D)
  | s, [] => (s, [])
  | s, op :: ops =>
    let (s1, o) := xstep hc flagStored s op
    let (s2, os) := xrun hc flagStored s1 ops
    (s2, match op with | .core _ => o :: os | _ => os)

def run {D : Type} (hc : HC D) (flagStored : Bool) : St D → List Op → St D × List (Out D)
  | s, [] => (s, [])
  | s, op :: ops =>
    let (s1, o) := step hc flagStored s op
    let (s2, os) := run hc flagStored s1 ops
    (s2, o :: os)

def coreOps : List XOp → List Op
  | [] => []
  | .core op :: ops => op :: coreOps ops
  | _ :: ops => coreOps ops

end XpmVerif.Ident
