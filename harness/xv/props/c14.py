"""C14 — submitted configurations are frozen together with their identity.

Histories on real configuration graphs: seal (or dry-run submit) some node, then any sequence of
assignment / meta-flag / pre-task attempts on nodes of the graph interleaved with identifier requests.
Monitor (implementation only): every attempt on a configuration reachable from a sealed one is
rejected and identifiers of sealed configurations never change.  Correspondence: same histories on
the Lean model (Model/IdentImpl.lean `step`).
Further real-code parts (implementation only): really submitted tasks, pre-submission histories, and histories that go on
working on configurations DERIVED from frozen ones (copies, pre-task transfers, next tasks of a chain): every frozen
configuration must stay what it was (`derived_histories_part`)."""
import copy
import json
import random

from .. import common, identlib
from ..gen import cfggen, edits
from ..translate import argflags, hashflags, hashsrc, sealsrc, walksrc

PROP = "C14"
MODULES = ["XpmVerif.Properties.C14", "XpmVerif.Properties.HashSrc", "XpmVerif.Properties.WalkSrc", "XpmVerif.Properties.C14Src"]


def prove(ctx):
    msgs = [hashflags.generate(common.REPO, common.LEAN, probe=identlib.loop_flag_probe(ctx)), hashsrc.generate(common.REPO, common.LEAN)]
    ctx.notes.append(f"translator(hashsrc): {msgs[1][1]}")
    ctx.count("translator", "hashsrc:" + ("translated" if msgs[1][1].startswith("translated") else "fallback"))
    msgs.append(walksrc.generate(common.REPO, common.LEAN))
    ctx.notes.append(f"translator(walksrc): {msgs[2][1]}")
    ctx.count("translator", "walksrc:" + ("translated" if msgs[2][1].startswith("translated") else "fallback"))
    # the guards of the mutators (set / set_meta / add_pretasks and their entry points, Sealer, identifier caches) as data
    msgs.append(sealsrc.generate(common.REPO, common.LEAN))
    ctx.notes.append(f"translator(sealsrc): {msgs[3][1]}")
    ctx.count("translator", "sealsrc:" + ("translated" if msgs[3][1].startswith("translated") else "fallback"))
    msgs.append(argflags.generate(common.REPO, common.LEAN, probe=identlib.inherit_rule_probe(ctx)))   # Generated/ArgFlags.lean: the driver derives the argument flags with it
    ctx.notes.append(f"translator(argflags): {msgs[-1][1]}")
    common.check_proofs(ctx, MODULES, translate_msgs=msgs)


def reach(g, n):
    """everything the Sealer walks from n: all values, pre-tasks, init tasks, producing task"""
    seen, todo = set(), [n]
    while todo:
        k = todo.pop()
        if k in seen:
            continue
        seen.add(k)
        todo += edits._all_refs(g["nodes"][k])
    return seen


def make_case(rng, li, lib):
    g = cfggen.gen_graph(rng, lib, max_nodes=rng.choice([3, 6, 10]))
    n = len(g["nodes"])
    # some self-contained nodes are obtained by deserialisation (save -> load / state_dict -> from_state_dict): such a
    # configuration is sealed from the start, and stays frozen like any other sealed one
    from .c01 import cfgbuild_refs
    leaves = [k for k, nd in enumerate(g["nodes"]) if nd["meta"] is None and not nd["pre"] and not nd["init"] and nd["task"] is None
              and not any(cfgbuild_refs(v) for _, v in nd["values"]) and not nd.get("tags") and not nd.get("deps") and nd["cls"] != "LW"]
    loaded = {}
    if leaves and rng.random() < 0.4:
        for k in rng.sample(leaves, min(len(leaves), rng.choice([1, 2]))):
            loaded[k] = rng.choice(["state", "save"])
        g["loaded"] = {str(k): v for k, v in loaded.items()}
    g0 = copy.deepcopy(g)
    ops, expect = [], []
    sealed = set(loaded)
    for _ in range(rng.choice([4, 8, 12, 16])):
        r = rng.random()
        k = rng.randrange(n)
        nd = g["nodes"][k]
        if r < 0.18:
            ops.append({"op": "seal", "n": k})
            sealed |= reach(g, k)
        elif r < 0.45:
            ops.append({"op": rng.choice(["full", "raw"]), "n": k})
        elif r < 0.75:
            args = [a for a in cfggen.all_args(lib, nd["cls"]) if a["decl"] in ("param", "meta", "option") and not cfggen.has_cfg(a["ty"])]
            if not args:
                continue
            a = rng.choice(args)
            if rng.random() < 0.15:  # `del cfg.name` / delattr: no parameter can be deleted, sealed or not
                ops.append({"op": "del", "n": k, "pyname": a["name"]})
                expect.append(set(sealed))
                continue
            v = cfggen.GraphGen(rng, lib, 0, False).gen_val(a["ty"], 3, k)
            # every syntactic way to assign: attribute assignment, `__xpm__.set(name, v)`, augmented assignment (get + set)
            ops.append({"op": "set", "n": k, "pyname": a["name"], "spec": v, "how": rng.choice(["setattr", "setattr", "xset", "aug"])})
            if k not in sealed:
                edits.set_value(nd, a["name"], v)
        elif r < 0.87:
            ops.append({"op": "setmeta", "n": k, "b": rng.choice([True, False, None])})
            if k not in sealed:
                nd["meta"] = ops[-1]["b"]
        else:
            lws = [i for i, x in enumerate(g["nodes"]) if x["cls"] == "LW" and i != k]
            if not lws:
                continue
            ops.append({"op": "addpre", "n": k, "p": rng.choice(lws), "via": rng.choice(["direct", "from"])})
            if k not in sealed:
                nd["pre"] = nd["pre"] + [ops[-1]["p"]]
        expect.append(set(sealed))
    # final phase (about a third of the cases): a seal of some node FAILS half-way (its context cannot generate paths);
    # whatever was sealed before must stay frozen.  Which further nodes the failing seal leaves sealed is not
    # modelled, so afterwards only nodes sealed before are exercised (the model says "rejected" for those).
    tail = []
    if sealed and rng.random() < 0.5:
        unsealed = [i for i in range(n) if i not in sealed]
        # preferred roots: an unsealed configuration from which the walk reaches both an already sealed configuration and a generated
        # path (the failing context raises there): what a failing seal does to what was frozen before is then really exercised
        def _has_gen(m):
            return any(a["decl"] == "pathgen" for a in cfggen.all_args(lib, g["nodes"][m]["cls"]))
        directed = [i for i in unsealed if (reach(g, i) & sealed) and any(_has_gen(m) for m in reach(g, i) - sealed)]
        ctx_directed = bool(directed)
        if directed and rng.random() < 0.8:
            tail.append({"op": "failseal", "n": rng.choice(directed)})
        else:
            tail.append({"op": "failseal", "n": rng.choice(unsealed) if unsealed and rng.random() < 0.8 else rng.randrange(n)})
        frozen = sorted(sealed)
        for _ in range(rng.choice([2, 4, 6])):
            k = rng.choice(frozen)
            nd = g["nodes"][k]
            r = rng.random()
            if r < 0.4:
                args = [a for a in cfggen.all_args(lib, nd["cls"]) if a["decl"] in ("param", "meta", "option") and not cfggen.has_cfg(a["ty"])]
                if args:
                    a = rng.choice(args)
                    if rng.random() < 0.25:
                        tail.append({"op": "del", "n": k, "pyname": a["name"]})
                    else:
                        tail.append({"op": "set", "n": k, "pyname": a["name"], "spec": cfggen.GraphGen(rng, lib, 0, False).gen_val(a["ty"], 3, k),
                                     "how": rng.choice(["setattr", "xset", "aug"])})
            elif r < 0.55:
                tail.append({"op": "setmeta", "n": k, "b": rng.choice([True, False])})
            elif r < 0.7:
                lws = [i for i, x in enumerate(g["nodes"]) if x["cls"] == "LW" and i != k]
                if lws:
                    tail.append({"op": "addpre", "n": k, "p": rng.choice(lws), "via": rng.choice(["direct", "from"])})
            else:
                tail.append({"op": rng.choice(["full", "raw"]), "n": k})
    for o in tail:
        ops.append(o)
        expect.append(set(sealed))
    if sealed and rng.random() < 0.2:  # last of all (it is not an operation of the model): the internal `__xpm__.set(…, bypass=True)`
        k = rng.choice(sorted(sealed))
        args = [a for a in cfggen.all_args(lib, g["nodes"][k]["cls"]) if a["decl"] in ("param", "meta", "option") and not cfggen.has_cfg(a["ty"])]
        if args:
            a = rng.choice(args)
            ops.append({"op": "xbypass", "n": k, "pyname": a["name"], "spec": cfggen.GraphGen(rng, lib, 0, False).gen_val(a["ty"], 3, k)})
            expect.append(set(sealed))
    steps = [{"do": "build", "graph": g0, "as": "A"}, {"do": "graph", "of": "A"}]
    steps += [{"do": "op", "on": "A", "op": o} for o in ops]
    return {"lib": li, "steps": steps, "graph": g0, "ops": ops, "sealed_before": expect}


def monitor(ctx, case, rec):
    """implementation only"""
    it = iter(rec["impl"][1:])
    ex = iter(x["out"] for x in rec.get("extra", []))
    outs = [(next(ex, {"ok": True}) if op["op"] in ("failseal", "del", "xbypass") else next(it)) for op in case["ops"]]
    ids = {}  # (kind, node) -> identifier recorded while the node was sealed
    for op, out, sealed in zip(case["ops"], outs, case["sealed_before"]):
        k = op["n"]
        was_sealed = k in sealed and op["op"] != "seal"
        if op["op"] in ("set", "setmeta", "addpre"):
            frozen = k in sealed
            if frozen and out != {"err": "sealed"}:
                what = {"set": "assignment", "setmeta": "meta flag change", "addpre": "add_pretasks_from" if op.get("via") == "from" else "add_pretasks"}[op["op"]]
                ctx.monitor_fail(f"mutation-accepted-after-seal:{op['op']}", f"{what} on node {k} accepted although it is reachable from a sealed configuration",
                                 {"graph": case["graph"], "ops": case["ops"]})
                return
            if not frozen and out.get("err") == "sealed":
                # not a violation of C14 (rejecting more is allowed) but unexpected: the model comparison reports it
                ctx.count("unexpected", "rejected-unsealed")
        if op["op"] == "del":
            ctx.count("del_outcome", ("sealed:" if k in sealed else "unsealed:") + (out.get("exc") or "accepted"))
            if k in sealed and "err" not in out:
                ctx.monitor_fail("mutation-accepted-after-seal:del", f"`del` of parameter {op['pyname']} on node {k} accepted although it is reachable from a sealed configuration",
                                 {"graph": case["graph"], "ops": case["ops"]})
                return
        if op["op"] == "xbypass":  # observation: `bypass` is reachable only through the internal `__xpm__` object
            ctx.count("observation", "__xpm__.set(bypass=True) on a sealed configuration: " + ("rejected" if "err" in out else "accepted"))
        if op["op"] in ("full", "raw") and "id" in out:
            if k in sealed:
                key = (op["op"], k)
                if key in ids and ids[key] != out["id"]:
                    ctx.monitor_fail("identifier-changed-after-seal", f"{op['op']} identifier of sealed node {k} changed {ids[key][:16]}… -> {out['id'][:16]}…",
                                     {"graph": case["graph"], "ops": case["ops"]})
                    return
                ids.setdefault(key, out["id"])


def correspond(ctx):
    rng = ctx.rng
    ctx.rule = ("histories on generated graphs: seal k | raw k | full k | set k.a=v | setmeta k b | add_pretasks k p at random nodes, 4-16 ops; "
                "non-trivial = at least one seal followed by a mutation attempt on a node reachable from the sealed one; distinct = case hash")
    ctx.assumptions += ["set_meta is guarded by an `assert` (not rejected under python -O)",
                        "in-place mutation of a list/dict obtained from a sealed configuration is outside the three mutators the property names (finding F22, see DESIGN.md)"]
    libs, cases = [], []
    for li in range(ctx.scale(6, 30)):
        lib = cfggen.gen_library(rng, f"c14_{ctx.seed}_{li}")
        libs.append(lib)
        for _ in range(ctx.scale(50, 300)):
            cases.append(make_case(rng, li, lib))
    res = identlib.run_cases(ctx, libs, [{"lib": c["lib"], "steps": c["steps"]} for c in cases], shards=ctx.scale(8, 16))[None]
    good = []
    for case, rec in zip(cases, res):
        if rec["error"]:
            ctx.count("case_errors", rec["error"][:60])
            continue
        nt = any(o["op"] in ("set", "setmeta", "addpre") and o["n"] in s for o, s in zip(case["ops"], case["sealed_before"]))
        ctx.case({"graph": case["graph"], "ops": case["ops"]}, nt)
        for o, s in zip(case["ops"], case["sealed_before"]):
            ctx.count("op", o["op"] + ("@sealed" if o["n"] in s else ""))
        for x in rec.get("extra", []):
            ctx.count("failing_seal", "raised" if x["out"].get("raised") else "completed")
        monitor(ctx, case, rec)
        good.append((case, rec))
    if len(good) < len(cases) * 0.9:
        raise RuntimeError(f"too many unbuildable cases: {next(r['error'] for r in res if r['error'])}")
    try:
        mouts = identlib.model_outputs(ctx, [r for _, r in good])
    except Exception as e:
        ctx.disagree({"driver": "Ident"}, None, None, f"model driver failed: {e}")
        return
    for (c, r), mo in zip(good, mouts):
        ctx.traces_validated += 1
        for i, (line, m, im) in enumerate(zip(r["lines"], mo, r["impl"])):
            if m != im:
                ctx.disagree({"graph": c["graph"], "ops": c["ops"], "at_line": i, "line": line if line["op"] != "graph" else "graph"}, m, im,
                             "model outcome differs from the implementation")
                break
    submitted_tasks_part(ctx, ctx.scale(12, 120))
    presubmit_histories_part(ctx)
    derived_histories_part(ctx, random.Random(f"c14x-{ctx.seed}"), ctx.scale(3, 10), ctx.scale(40, 200), ctx.scale(16, 80))


def presubmit_histories_part(ctx, witness=None):
    """tasks submitted with an initialisation task at once / after instance() / after instance() and state_dict(): the init
    task given to submit() is reachable from the submitted task, so an assignment on it afterwards must be rejected and the
    identifier must stay what it was"""
    if witness is None:
        slibs, scases = identlib.submit_cases(ctx, ctx.rng, "c14sub", ctx.scale(2, 6), ctx.scale(6, 30))
    else:
        slibs, scases = witness
    for case, rec in zip(scases, identlib.run_submit(ctx, slibs, scases, shards=4)):
        if rec["error"]:
            ctx.count("submit_case_errors", rec["error"][:60])
            continue
        ctx.case({"submit": case["graph"]}, True)
        for h in rec.get("histories", []):
            if "identifier" not in h:
                continue
            ctx.count("init_task_after_submit", h["env"] + ":" + h["init_task_assignment"].split(":")[0])
            if h["init_task_assignment"] == "accepted":
                ctx.monitor_fail("mutation-accepted-after-submit:init-task", f"history `{h['env']}`: an assignment on the initialisation task given to submit() was "
                                 f"accepted after the submission", {"graph": case["graph"], "history": h})
                break
            if h["identifier_after"] != h["identifier"]:
                ctx.monitor_fail("identifier-moved-after-rejected-assignment", f"history `{h['env']}`: identifier moved after a rejected assignment on an init task",
                                 {"graph": case["graph"], "history": h})
                break


def submitted_tasks_part(ctx, n):
    """really submitted tasks (dry-run / generate-only experiments), among them tasks that mark one of their own parameters
    as their output: every assignment attempt afterwards is rejected AND the identifier and job directory stay what they
    were at submission, also when the attempt is followed by an identifier request"""
    from . import c03
    cases = [dict(c, poke=True) for c in c03.gen_prod_cases(ctx.rng, n)]
    recs = identlib.run_worker({"cases": cases}, ctx.tmpdir(), "c14-prod", None, "xv.impl.prod_worker")
    for case, rec in zip(cases, recs):
        if rec["error"]:
            ctx.count("submitted_case_errors", rec["error"][:60])
            continue
        ctx.case({"submitted_tasks_case": case}, True)
        for pk in rec.get("pokes", []):
            ctx.count("poke", f"{pk['cls']}:{'rejected' if pk['rejected'] else 'ACCEPTED'}")
            if not pk["rejected"]:
                ctx.monitor_fail("mutation-accepted-after-submit", f"assignment on a submitted {pk['cls']} task was accepted", {"submitted_tasks_case": case})
                break
            if pk["before"] != pk["after"]:
                ctx.monitor_fail("identifier-moved-after-rejected-assignment",
                                 f"a rejected assignment on a submitted {pk['cls']} task moved its identifier / job directory: "
                                 f"{pk['before'][0][:16]}… {pk['before'][1][-40:]} -> {pk['after'][0][:16]}… {pk['after'][1][-40:]}", {"submitted_tasks_case": case})
                break


# ---------------------------------------------------------------------------------------------------------------------
# Work that goes on AFTER the submission, on other configurations obtained from the frozen ones through the public API:
# copies (`copyconfig`, `.copy()`), pre-task transfers (`add_pretasks_from`), next tasks of a chain whose `task_outputs`
# use the documented idiom `copyconfig(self.model).add_pretasks(dep(Loader(value=model)))`.  Mutating such a derived
# configuration is legal; the sentence of the property that is checked is "every configuration reachable from a submitted
# task / sealed configuration stays what it was at submission" on public observables (values, meta flag, pre-tasks, init
# tasks, producing task, identifiers, serialized form), whatever the derived configurations go through.

DERIVE_VIAS = ["copyconfig", "copyconfig", "copyconfig-kw", "copy", "pretasks_from"]


def _scalar_args(lib, cname):
    return [a for a in cfggen.all_args(lib, cname) if a["decl"] in ("param", "meta", "option") and not cfggen.has_cfg(a["ty"])]


def _reaches_cycle(g, src):
    color = {}

    def dfs(u):
        color[u] = 1
        for w in edits._all_refs(g["nodes"][u]):
            if color.get(w) == 1 or (w not in color and dfs(w)):
                return True
        color[u] = 2
        return False
    return dfs(src)


def make_derived_case(rng, li, lib, env):
    if env == "dryrun":
        # a task-rooted acyclic graph really submitted (dry run)
        for _ in range(60):
            g = cfggen.gen_graph(rng, lib, max_nodes=rng.choice([3, 6, 9]), cycles=False)
            cls = next(c for c in lib["classes"] if c["name"] == g["nodes"][0]["cls"])
            if cls["kind"] == "task" and not any(nd["task"] is not None for nd in g["nodes"]):
                break
        else:
            return None
        k = 0
    else:
        g = cfggen.gen_graph(rng, lib, max_nodes=rng.choice([3, 6, 10]))
        k = rng.randrange(len(g["nodes"]))
    # configurations that come with their own pre-tasks (a model with the task that loads its parameters)
    if rng.random() < 0.75:
        hosts = [i for i in sorted(reach(g, k)) if not g["nodes"][i]["cls"].startswith("LW")]
        for j in rng.sample(hosts, min(len(hosts), rng.choice([1, 1, 2]))):
            for _ in range(rng.choice([1, 1, 2])):
                g["nodes"].append({"cls": "LW", "values": [["v", rng.choice([1, 2, 3])]], "meta": None, "pre": [], "init": [], "task": None})
                g["nodes"][j]["pre"].append(len(g["nodes"]) - 1)
    n = len(g["nodes"])
    frozen = sorted(reach(g, k))
    ops = [{"op": "submit" if env == "dryrun" else "seal", "n": k, "frozen": frozen}]
    derived = []  # (name, src, via)
    lws = [i for i, x in enumerate(g["nodes"]) if x["cls"] == "LW"]

    def dmut(name, src, via):
        r = rng.random()
        args = _scalar_args(lib, g["nodes"][src]["cls"]) if via != "pretasks_from" else []
        if r < 0.55 or (r < 0.85 and not args):
            return {"op": "dmut", "on": name, "mut": "addpre", "p": rng.choice(lws) if lws and rng.random() < 0.4 else None, "via": rng.choice(["direct", "direct", "from"])}
        if r < 0.85:
            a = rng.choice(args)
            return {"op": "dmut", "on": name, "mut": "set", "pyname": a["name"], "spec": cfggen.GraphGen(rng, lib, 0, False).gen_val(a["ty"], 3, src)}
        return {"op": "dmut", "on": name, "mut": "setmeta", "b": rng.choice([True, False])}

    for _ in range(rng.choice([3, 5, 8])):
        r = rng.random()
        if r < 0.5 or not derived:
            with_pre = [i for i in frozen if g["nodes"][i]["pre"]]
            src = rng.choice(with_pre) if with_pre and rng.random() < 0.6 else rng.choice(frozen)
            via = rng.choice(DERIVE_VIAS)
            if via == "copy" and _reaches_cycle(g, src):
                # `.copy()` does not terminate in reasonable time on a configuration that reaches itself (RecursionError after
                # minutes on the unchanged code): outside what is exercised here
                via = "copyconfig"
            op = {"op": "derive", "src": src, "via": via, "as": f"d{len(derived)}"}
            if via == "copyconfig-kw":
                args = _scalar_args(lib, g["nodes"][src]["cls"])
                if args:
                    a = rng.choice(args)
                    op.update(pyname=a["name"], spec=cfggen.GraphGen(rng, lib, 0, False).gen_val(a["ty"], 3, src))
                else:
                    op["via"] = via = "copyconfig"
            ops.append(op)
            derived.append((op["as"], src, via))
            for _ in range(rng.choice([1, 2, 3])):
                ops.append(dmut(*derived[-1]))
        elif r < 0.7:
            ops.append(dmut(*rng.choice(derived)))
        elif r < 0.85:
            ops.append({"op": rng.choice(["full", "raw"]), "n": rng.choice(frozen)})
        elif r < 0.95 or env == "dryrun":
            ops.append({"op": "attempt", "n": rng.choice(frozen), "p": rng.choice(lws) if lws and rng.random() < 0.5 else None})
        else:
            j = rng.randrange(n)
            frozen = sorted(set(frozen) | reach(g, j))
            ops.append({"op": "seal", "n": j, "frozen": frozen})
    return {"kind": "derived", "lib": li, "graph": g, "env": env, "ops": ops}


SWEEP_IDIOMS = ["copyconfig", "copyconfig", "construct", "from"]


def make_sweep_case(rng):
    stages = [{"idiom": rng.choice(SWEEP_IDIOMS), "epochs": rng.choice([1, 2, 5])} for _ in range(rng.choice([1, 1, 2, 3]))]
    main = rng.randrange(len(stages))
    sweep = [{"from": main if rng.random() < 0.8 else rng.randrange(len(stages)), "lr": lr, "idiom": rng.choice(SWEEP_IDIOMS)}
             for lr in rng.sample([1, 2, 3, 5, 8, 13], rng.choice([2, 2, 3, 4]))]
    return {"kind": "sweep", "mode": rng.choice(["dry", "dry", "generate"]), "size": rng.choice([1, 3, 7]), "base_pre": rng.choice([0, 0, 1, 2]),
            "stages": stages, "sweep": sweep, "evals": [rng.randrange(len(stages)) for _ in range(rng.choice([0, 1, 2]))]}


def derived_monitor(ctx, case, rec):
    """implementation only: (1) whatever happens to configurations DERIVED from frozen ones, every frozen configuration is
    what it was when it was frozen; (2) an add_pretasks attempt on a frozen configuration itself is rejected"""
    via_of = {o["as"]: o["via"] for o in case.get("ops", []) if o["op"] == "derive"}
    for si, st in enumerate(rec["steps"]):
        op = st["op"]
        if st["changed"]:
            # report the configuration whose own content changed (those that merely reach it differ by their serialized form only)
            diff = {x: [f for f in rec["baseline"][x] if rec["baseline"][x][f] != now[f]] for x, now in st["changed"].items()}
            lb = sorted(diff, key=lambda x: (diff[x] == ["serialized"], x))[0]
            base, now, fields = rec["baseline"][lb], st["changed"][lb], diff[lb]
            if op["op"] == "dmut":
                how = f"{via_of[op['on']]}+{op['mut']}"
                did = f"{op['mut']} on `{op['on']}`, a configuration obtained by {via_of[op['on']]} from a frozen one, was applied"
            elif op["op"] == "derive":
                how = f"derive:{op['via']}"
                did = f"a configuration was obtained by {op['via']} from frozen node {op['src']}"
            elif op["op"] == "submit" and "task" in op:
                how = "next-submission"
                did = f"another task, {op['task']}, was submitted"
            else:
                how = op["op"]
                did = f"`{op['op']}` ran"
            ctx.monitor_fail(f"frozen-config-changed:{fields[0]}:{how}",
                             f"frozen configuration {lb} changed after {did} (step {si}): " +
                             "; ".join(f"{f} {json.dumps(base[f])[:90]} -> {json.dumps(now[f])[:90]}" for f in fields[:3]),
                             {"derived_history_case": case, "failing_step": si, "frozen_configuration": lb,
                              "at_freeze": {f: base[f] for f in fields}, "now": {f: now[f] for f in fields}})
            return
        if op["op"] == "attempt" and st["out"] != {"err": "sealed"}:
            ctx.monitor_fail("mutation-accepted-after-seal:addpre", f"add_pretasks on frozen node {op['n']} accepted (step {si})",
                             {"derived_history_case": case, "failing_step": si})
            return


def derived_histories_part(ctx, rng, nlibs, n_derived, n_sweep):
    libs, cases = [], []
    for li in range(nlibs):
        libs.append(cfggen.gen_library(rng, f"c14x_{ctx.seed}_{li}"))
        for i in range(n_derived // nlibs):
            c = make_derived_case(rng, li, libs[-1], "dryrun" if i % 4 == 3 else "plain")
            if c is not None:
                cases.append(c)
    cases += [make_sweep_case(rng) for _ in range(n_sweep)]
    extra_rule = ("; derived-configuration histories: seal / dry-run submit a node of a generated graph (frozen nodes carry 0-2 pre-tasks), then 3-8 of "
                  "derive (copyconfig | copyconfig(k=v) | .copy() | add_pretasks_from) from a frozen node + set / setmeta / add_pretasks on the derived object, "
                  "identifier requests, direct attempts, further seals; sweep histories: 1-3 Train stages then 2-4 Finetune / 0-2 Evaluate submissions whose "
                  "task_outputs use the documented copyconfig / construct idioms; non-trivial = a mutation applied to a derived object / two submissions sharing a model")
    if extra_rule not in (getattr(ctx, "rule", None) or ""):
        ctx.rule = (getattr(ctx, "rule", None) or "") + extra_rule
    ctx.notes.append("derived-configuration histories: `.copy()` is not applied to a configuration that reaches itself (on the unchanged code it "
                     "runs for minutes and ends in a RecursionError; unrelated to C14)")
    recs = identlib.run_cases(ctx, libs, cases, shards=ctx.scale(8, 16), module="xv.impl.c14x_alias_worker")[None]
    for case, rec in zip(cases, recs):
        if rec["error"]:
            ctx.count("derived_case_errors", f"{case['kind']}:{case.get('env', case.get('mode'))}:{rec['error'][:50]}")
            continue
        if case["kind"] == "derived":
            via_of = {o["as"]: (o["via"], o["src"]) for o in case["ops"] if o["op"] == "derive"}
            applied = 0
            for st in rec["steps"]:
                op, out = st["op"], st["out"]
                res = "ok" if out.get("ok") else "rejected" if out.get("err") == "sealed" else "skipped" if out.get("skipped") else "error"
                if op["op"] == "derive":
                    npre = len(case["graph"]["nodes"][op["src"]]["pre"])
                    ctx.count("derived_from_frozen", f"{case['env']}:{op['via']}:src-pre-tasks={min(npre, 2)}{'+' if npre >= 2 else ''}:{res}")
                elif op["op"] == "dmut":
                    ctx.count("mutation_of_derived", f"{via_of[op['on']][0]}:{op['mut']}:{res}")
                    applied += res == "ok"
                elif op["op"] == "attempt":
                    ctx.count("op", "addpre@sealed")
            ctx.count("frozen_configurations_watched", str(min(len(rec["baseline"]), 8)) + ("+" if len(rec["baseline"]) >= 8 else ""))
            ctx.case({"derived_history_case": case}, applied > 0)
        else:
            shared = len(case["sweep"]) - len({s["from"] for s in case["sweep"]})
            ctx.count("sweep_history", f"{case['mode']}:stages={len(case['stages'])}:finetunings={len(case['sweep'])}:sharing-a-model={shared > 0}:base-pre-tasks={case['base_pre']}")
            for s in case["stages"] + case["sweep"]:
                ctx.count("sweep_task_outputs_idiom", s["idiom"])
            ctx.case({"derived_history_case": case}, shared > 0)
        ctx.count("frozen_snapshot_comparisons", case["kind"], len(rec["baseline"]) * len(rec["steps"]))
        derived_monitor(ctx, case, rec)


def run_witness(ctx, finding):
    w = finding.get("witness") or {}
    if w.get("kind") == "presubmit-history":
        from . import c01
        g = {"nodes": [{"cls": "T", "values": [["v", 1]], "meta": None, "pre": [], "init": [], "task": None}]}
        presubmit_histories_part(ctx, witness=([c01.WITNESS_LIB_SUBMIT], [{"lib": 0, "graph": g}]))


def search(ctx):
    rng = random.Random(f"search-{ctx.seed}")
    libs, cases = [], []
    for li in range(10):
        lib = cfggen.gen_library(rng, f"c14s_{ctx.seed}_{li}")
        libs.append(lib)
        cases += [make_case(rng, li, lib) for _ in range(100)]
    res = identlib.run_cases(ctx, libs, [{"lib": c["lib"], "steps": c["steps"]} for c in cases], shards=12)[None]
    for case, rec in zip(cases, res):
        if not rec["error"]:
            monitor(ctx, case, rec)
    derived_histories_part(ctx, random.Random(f"search-c14x-{ctx.seed}"), 6, 300, 60)


def replay(ctx, obj):
    prove(ctx)
    correspond(ctx)
    return common.verdict(ctx, search)
