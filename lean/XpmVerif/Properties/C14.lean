import XpmVerif.Model.IdentImpl
import XpmVerif.Proofs.SealedIdent
import XpmVerif.Proofs.SealedCache
import XpmVerif.Proofs.SealedExample
/-! C14 — submitted configurations are frozen together with their identity.

    Vocabulary (namespace `XpmVerif.Ident.Sealing`, defined in `Proofs/Sealed.lean`, `Proofs/SealedInv.lean`):
    * `Edge g n m` — inductive: `m` occurs in some argument value of `n` at any depth (all arguments, also
      ignored ones), or is one of its `preTasks` / `initTasks`, or is its `task` (≠ `n`); `Reach` is the
      reflexive-transitive closure.
    * `WF g` — every edge ends at an existing node (`m < g.size`).
    * `SealedClosed g` — the successors of a sealed node are sealed; `GInv g := WF g ∧ SealedClosed g`.
    * `ValidOp size o` — an assigned value only references existing nodes, an added pre-task exists.
    * `run hc fl s os` — the state after the operations `os`. -/
namespace XpmVerif.C14
open XpmVerif.Ident XpmVerif.Ident.Sealing

/-- **every attempt is rejected**: on a sealed node, assigning a parameter, changing the meta flag or
    adding a pre-task returns the sealed error and leaves the whole state (graph and caches) unchanged. -/
theorem sealed_rejects {D : Type} (hc : HC D) (fl : Bool) (s : St D) (n : Nat) (h : (s.g.node n).sealed = true) :
    (∀ name v, step hc fl s (.set n name v) = (s, .sealedError)) ∧
    (∀ b, step hc fl s (.setMeta n b) = (s, .sealedError)) ∧
    (∀ p, step hc fl s (.addPretask n p) = (s, .sealedError)) := by
  refine ⟨?_, ?_, ?_⟩ <;> intros <;> simp [step, h]

/-- **sealing reaches every reachable configuration** ("…or on any configuration reachable from it"):
    in a well-formed graph whose sealed part is closed, after `sealFrom g n` every node reachable from `n`
    (through values at any depth, pre-tasks, init-tasks, producing tasks, cycles) is sealed, previously
    sealed nodes stay sealed, and the result is again well-formed and closed. -/
theorem seal_reaches_all (g : Graph) (n : Nat) (hwf : WF g) (hcl : SealedClosed g) (hn : n < g.size) :
    (∀ m, Reach g n m → ((sealFrom g n).node m).sealed = true) ∧
    (∀ m, (g.node m).sealed = true → ((sealFrom g n).node m).sealed = true) ∧
    SealedClosed (sealFrom g n) ∧ WF (sealFrom g n) :=
  ⟨fun _ h => sealFrom_reaches hwf hcl hn h, fun _ h => sealFrom_keeps n h,
   sealedClosed_sealFrom hwf hcl n, WF_sealFrom hwf n⟩

/-- **the invariant**: `WF ∧ SealedClosed` is preserved by every operation (mutators are rejected on sealed
    nodes and only change an unsealed node's outgoing edges; requests do not change the graph; sealing by
    `seal_reaches_all`), hence by every sequence of valid operations — in particular along every history
    that starts from a well-formed graph without sealed nodes. -/
theorem sealed_closed_invariant {D : Type} (hc : HC D) (fl : Bool) (s : St D) (hinv : GInv s.g) :
    (∀ o : Op, ValidOp s.g.size o → GInv (step hc fl s o).1.g) ∧
    (∀ os : List Op, (∀ o ∈ os, ValidOp s.g.size o) → GInv (run hc fl s os).g ∧ (run hc fl s os).g.size = s.g.size) :=
  ⟨fun o hv => step_inv hc fl s o hinv hv,
   fun os hv => ⟨run_inv hc fl os s hinv hv, (run_frame hc fl os s).1⟩⟩

/-- a well-formed graph in which nothing is sealed yet satisfies the invariant (start of every history). -/
theorem unsealed_invariant (g : Graph) (hwf : WF g) (h : ∀ n, (g.node n).sealed = false) : GInv g :=
  ⟨hwf, sealedClosed_of_unsealed h⟩

/-- **frozen content**: whatever operations are attempted (valid or not), a node that is sealed — and every
    node reachable from it — keeps exactly its content (arguments, meta flag, pre-tasks, init-tasks, task,
    sealed flag), and the set of nodes reachable from it does not change. -/
theorem sealed_frozen {D : Type} (hc : HC D) (fl : Bool) (s : St D) (hcl : SealedClosed s.g) (n : Nat)
    (hn : (s.g.node n).sealed = true) (os : List Op) :
    (∀ m, Reach s.g n m → (run hc fl s os).g.node m = s.g.node m) ∧
    (∀ m, Reach (run hc fl s os).g n m ↔ Reach s.g n m) :=
  ⟨fun m hm => (run_frame hc fl os s).2 m (reach_sealed hcl hn hm),
   fun _ => frame_reach hcl (run_frame hc fl os s) hn⟩

/-- **rejected on every reachable configuration, for ever**: once `n` is sealed (invariant holding), after
    any further operations every mutation attempt on any configuration reachable from `n` returns the
    sealed error and leaves the state unchanged. -/
theorem reachable_rejects {D : Type} (hc : HC D) (fl : Bool) (s : St D) (hcl : SealedClosed s.g) (n m : Nat)
    (hn : (s.g.node n).sealed = true) (hm : Reach s.g n m) (os : List Op) :
    let s' := run hc fl s os
    (∀ name v, step hc fl s' (.set m name v) = (s', .sealedError)) ∧
    (∀ b, step hc fl s' (.setMeta m b) = (s', .sealedError)) ∧
    (∀ p, step hc fl s' (.addPretask m p) = (s', .sealedError)) := by
  intro s'
  apply sealed_rejects
  have hms := reach_sealed hcl hn hm
  show ((run hc fl s os).g.node m).sealed = true
  rw [(run_frame hc fl os s).2 m hms]; exact hms

/-- **identifier (hence job directory) stays what it was**: if `n` is sealed, every operation — and every
    sequence of operations — that leaves the class-level default objects alone (`DefaultsFrame`: every
    configuration occurring in a declared default, and whatever its identifier depends on, is the same node
    afterwards; `seal` never visits these objects, so they are *not* frozen by it) leaves the raw and the full
    identifier of `n` (specification functions `rawId` / `fullId` of the current graph; the job directory is
    `<workdir>/jobs/<task id>/<fullId>`) unchanged, and `n` stays sealed. Holds for every hash `hc`.
    Without the hypothesis the statement is false since identifiers compare values with the default objects:
    `default_mutation_changes_sealed_identifier` below. -/
theorem sealed_ident_stable {D : Type} (hc : HC D) (fl : Bool) (s : St D) (hcl : SealedClosed s.g) (n : Nat)
    (hn : (s.g.node n).sealed = true) :
    (∀ o : Op, DefaultsFrame s.g (step hc fl s o).1.g →
        rawId hc (step hc fl s o).1.g n = rawId hc s.g n ∧ fullId hc (step hc fl s o).1.g n = fullId hc s.g n
        ∧ ((step hc fl s o).1.g.node n).sealed = true) ∧
    (∀ os : List Op, DefaultsFrame s.g (run hc fl s os).g →
        rawId hc (run hc fl s os).g n = rawId hc s.g n ∧ fullId hc (run hc fl s os).g n = fullId hc s.g n
        ∧ ((run hc fl s os).g.node n).sealed = true) :=
  ⟨fun o hdf => frame_ident hc hcl (step_frame hc fl s o) hdf hn,
   fun os hdf => frame_ident hc hcl (run_frame hc fl os s) hdf hn⟩

/-- the statement as it was before defaults could be configuration objects: when no declared default
    contains a configuration (`NoCfgDefaults`), no hypothesis on the operations is needed. -/
theorem sealed_ident_stable_noCfgDefaults {D : Type} (hc : HC D) (fl : Bool) (s : St D) (hcl : SealedClosed s.g)
    (hnd : NoCfgDefaults s.g) (n : Nat) (hn : (s.g.node n).sealed = true) :
    (∀ o : Op, rawId hc (step hc fl s o).1.g n = rawId hc s.g n ∧ fullId hc (step hc fl s o).1.g n = fullId hc s.g n
        ∧ ((step hc fl s o).1.g.node n).sealed = true) ∧
    (∀ os : List Op, rawId hc (run hc fl s os).g n = rawId hc s.g n ∧ fullId hc (run hc fl s os).g n = fullId hc s.g n
        ∧ ((run hc fl s os).g.node n).sealed = true) :=
  ⟨fun o => (sealed_ident_stable hc fl s hcl n hn).1 o (.of_noCfgDefaults hnd _),
   fun os => (sealed_ident_stable hc fl s hcl n hn).2 os (.of_noCfgDefaults hnd _)⟩

/-- `m` is a default object, or something the identifier of a default object depends on. -/
def DefNode (g : Graph) (m : Nat) : Prop := ∃ x a r, a ∈ (g.node x).args ∧ r ∈ dfltRefs a ∧ IdReach g r m

/-- a mutation of a configuration that is not a default object (nor referenced by one), and every identifier
    request, leaves the default objects alone. -/
theorem step_defaultsFrame {D : Type} (hc : HC D) (fl : Bool) (s : St D) (o : Op)
    (ho : match o with
      | .set n _ _ | .setMeta n _ | .addPretask n _ => ¬ DefNode s.g n
      | .sealOp k => ∀ m, DefNode s.g m → (sealFrom s.g k).node m = s.g.node m
      | _ => True) :
    DefaultsFrame s.g (step hc fl s o).1.g := by
  intro x a r m ha hr hrm
  have hm : DefNode s.g m := ⟨x, a, r, ha, hr, hrm⟩
  cases o with
  | sealOp k => exact ho m hm
  | reqRaw k => simp only [step, Sealing.reqRaw_g]
  | reqFull k => simp only [step, Sealing.reqFull_g]
  | set k name v =>
    simp only [step]; split
    · rfl
    · exact node_setNode_ne (fun e => ho (e ▸ hm))
  | setMeta k b =>
    simp only [step]; split
    · rfl
    · exact node_setNode_ne (fun e => ho (e ▸ hm))
  | addPretask k p =>
    simp only [step]; split
    · rfl
    · exact node_setNode_ne (fun e => ho (e ▸ hm))

/-- the same along a whole history: start from a well-formed graph with nothing sealed, run valid operations
    `os₁` (constructing, sealing, requesting, mutating); whatever is sealed then keeps its identifiers through
    any continuation `os₂` that leaves the default objects alone. -/
theorem history_ident_stable {D : Type} (hc : HC D) (fl : Bool) (s₀ : St D) (hwf : WF s₀.g)
    (h0 : ∀ n, (s₀.g.node n).sealed = false) (os₁ os₂ : List Op) (hv : ∀ o ∈ os₁, ValidOp s₀.g.size o) (n : Nat)
    (hn : ((run hc fl s₀ os₁).g.node n).sealed = true)
    (hdf : DefaultsFrame (run hc fl s₀ os₁).g (run hc fl (run hc fl s₀ os₁) os₂).g) :
    let s₁ := run hc fl s₀ os₁
    let s₂ := run hc fl s₁ os₂
    rawId hc s₂.g n = rawId hc s₁.g n ∧ fullId hc s₂.g n = fullId hc s₁.g n ∧ (s₂.g.node n).sealed = true := by
  intro s₁ s₂
  have hinv := run_inv hc fl os₁ s₀ (unsealed_invariant _ hwf h0) hv
  exact frame_ident hc hinv.2 (run_frame hc fl os₂ s₁) hdf hn

/-- **the identifier the implementation returns stays what it was** (cache side, independent of the hash and
    of the loop flag): once the identifiers of a sealed `n` have been requested (as `submit` does), every
    later request, after any operations, returns the same full and raw identifiers and changes nothing. -/
theorem sealed_returned_ident_stable {D : Type} (hc : HC D) (fl : Bool) (s : St D) (n : Nat)
    (hn : (s.g.node n).sealed = true) (os : List Op) :
    let r := reqFull hc fl s n
    let s' := run hc fl r.1 os
    reqFull hc fl s' n = (s', r.2) ∧ (reqRaw hc fl s' n).1 = s' ∧ (reqRaw hc fl s' n).2 = (reqRaw hc fl r.1 n).2 := by
  intro r s'
  obtain ⟨hfull, rr, f, hraw⟩ := reqFull_cached hc fl s n hn
  have hs1 : (r.1.g.node n).sealed = true := by show ((reqFull hc fl s n).1.g.node n).sealed = true; rw [reqFull_g]; exact hn
  have hs' : (s'.g.node n).sealed = true := by
    show ((run hc fl r.1 os).g.node n).sealed = true
    rw [(run_frame hc fl os r.1).2 n hs1]; exact hs1
  have hle := run_cacheLe hc fl os r.1
  have hraw' := hle.1 n _ hraw
  have hfull' := hle.2 n _ hfull
  refine ⟨reqFull_hit hc fl s' n hs' hraw' hfull', ?_, ?_⟩
  · rw [reqRaw_hit hc fl s' n hs' hraw']
  · rw [reqRaw_hit hc fl s' n hs' hraw', reqRaw_hit hc fl r.1 n hs1 hraw]

/-! ### the default objects are not frozen (witness for the hypothesis `DefaultsFrame`)

    `class B(Config): k: Param[int]`, `class A(Config): x: Param[B] = B(k=1)`.  Node 0 is `A()`, node 2 its value
    for `x` (the clone made by `__init__`), node 1 the default object of `A.x`.  Sealing node 0 freezes nodes 0 and
    2 — the walk never visits the default object —, and `A.x`'s default can still be mutated: the specification
    identifier of the sealed `A()` changes (the parameter `x` is no longer "at its default").  Replayed on the
    real code: after `A.__xpmtype__.arguments["x"].default.k = 2` a sealed `A()` whose identifier had not been
    requested yet gets another identifier than before (one that was requested keeps returning the cached value:
    `sealed_returned_ident_stable`). -/
def toyHC : HC Nat :=
  { H := fun l => l.foldl (fun a b => (a * 31 + b + 1) % 1000003) 7, emb := fun d => [256 + d], le := fun a b => a ≤ b }

def gDefault : Graph := { nodes := [
  { typeId := [65], args := [{ name := [120], required := false, default := some (.ref 1), value := .ref 2 }] },
  { typeId := [66], args := [{ name := [107], value := .int 1 }] },
  { typeId := [66], args := [{ name := [107], value := .int 1 }] }] }

def sDefault : St Nat := { g := sealFrom gDefault 0, c := Caches.empty }
def sDefault' : St Nat := (step toyHC true sDefault (.set 1 [107] (.int 2))).1

theorem default_mutation_changes_sealed_identifier :
    ((List.range 3).map (fun m => (sDefault.g.node m).sealed) = [true, false, true]) ∧
    (match (step toyHC true sDefault (.set 1 [107] (.int 2))).2 with | .ok => true | _ => false) = true ∧
    rawId toyHC sDefault'.g 0 ≠ rawId toyHC sDefault.g 0 ∧ fullId toyHC sDefault'.g 0 ≠ fullId toyHC sDefault.g 0 := by
  decide

/-- on the same graph, a request (or a mutation of a configuration that is not a default object) satisfies
    `DefaultsFrame` (`step_defaultsFrame`), so `sealed_ident_stable` applies. -/
example : DefaultsFrame sDefault.g (step toyHC true sDefault (.reqFull 0)).1.g :=
  step_defaultsFrame toyHC true sDefault (.reqFull 0) trivial

example : SealedClosed sDefault.g ∧ (sDefault.g.node 0).sealed = true :=
  ⟨SealedClosed_of_closedB (by decide), by decide⟩

/-! ### the hypotheses are satisfiable (`sealDemo`: a graph with a list value, a pre-task and a task cycle) -/

example : WF sealDemo ∧ SealedClosed sealDemo ∧ (∀ n, (sealDemo.node n).sealed = false) := by
  refine ⟨WF_of_wfB (by decide), SealedClosed_of_closedB (by decide), ?_⟩
  intro n
  by_cases h : n < sealDemo.size
  · have : n = 0 ∨ n = 1 ∨ n = 2 ∨ n = 3 := by simp [sealDemo, Graph.size] at h; omega
    rcases this with rfl | rfl | rfl | rfl <;> rfl
  · rw [node_of_size_le (Nat.le_of_not_lt h)]

/-- sealing node 0 seals 0, 1, 2 and leaves 3 open; the result satisfies the invariant. -/
example : (List.range 4).map (fun m => ((sealFrom sealDemo 0).node m).sealed) = [true, true, true, false] := by decide
example : GInv (sealFrom sealDemo 0) := ⟨WF_of_wfB (by decide), SealedClosed_of_closedB (by decide)⟩
example : Reach sealDemo 0 2 ∧ Reach sealDemo 0 1 ∧ Reach sealDemo 1 0 :=
  ⟨.step .refl (.pre (by decide)), .step .refl (.arg (a := { name := [120], value := .list [.ref 1] }) (List.Mem.head _) (by decide)),
   .step .refl (.task (t := 0) (by decide) (by decide))⟩
example : ValidOp sealDemo.size (.set 3 [122] (.list [.ref 0, .ref 1])) ∧ ValidOp sealDemo.size (.addPretask 3 1) := by
  constructor
  · intro m hm; have : m = 0 ∨ m = 1 := by simpa [valRefs, valsRefs] using hm
    rcases this with rfl | rfl <;> decide
  · show 1 < 4; decide

/-! ### `NoCfgDefaults` is satisfiable on a non-trivial graph (audit round 8, item 6)
    hypothesis of `sealed_ident_stable_noCfgDefaults`: two configurations, the sealed node 0 refers to node 1 and declares a
    list default and a scalar default, node 1 declares a dict default; no declared default contains a configuration. -/

def noCfgG : Graph :=
  { nodes := [{ typeId := [97], sealed := true,
                args := [{ name := [120], value := .ref 1 },
                         { name := [121], required := false, default := some (.list [.int 1, .int 2]), value := .list [.int 3] },
                         { name := [122], required := false, default := some (.int 5), value := .int 5 }] },
              { typeId := [98], sealed := true,
                args := [{ name := [123], required := false, default := some (.dict [[107]] [.int 0]), value := .dict [[107]] [.int 9] }] }] }

example : NoCfgDefaults noCfgG := by
  intro n a ha
  match n with
  | 0 => simp [noCfgG, Graph.node] at ha; rcases ha with rfl | rfl | rfl <;> decide
  | 1 => simp [noCfgG, Graph.node] at ha; subst ha; decide
  | n + 2 => simp [noCfgG, Graph.node] at ha
example : (noCfgG.node 0).sealed = true ∧ noCfgG.size = 2 := by decide

end XpmVerif.C14
