import XpmVerif.Proofs.RestartLive3F
/-! C11, liveness with adoption, FULL statement: the re-submission phase and the final theorems.  The hypothesis on the
    re-submission is the one of the theorems without adoption (`RestartTerm.SubsOK`: well-formed dependencies, no token asked
    twice, distinct identifiers); nothing is assumed about the pid files. -/
set_option linter.unusedSimpArgs false
set_option linter.unusedVariables false
namespace XpmVerif.RestartFull
open XpmVerif.Sched hiding Reachable flOK submitPre submitPost sumTo
open XpmVerif.SchedFinal XpmVerif.Restart XpmVerif.RestartTerm XpmVerif.RestartAbs XpmVerif.RestartLive

/-! ### a submission taken with an empty queue is the submission of M2 -/

theorem absF_submitPre (ad : Nat → Bool) (s : St) (hn : ad s.n = false) (ident : Nat) (deps : List Origin) (code : Nat)
    (marker : Bool) :
    absF ad (SchedFinal.submitPre s ident deps code marker) = SchedFinal.submitPre (absF ad s) ident deps code marker := by
  unfold SchedFinal.submitPre absF
  simp only [List.filter_append]
  congr 1
  · funext i
    unfold upd
    split
    · rename_i e; subst e; rw [absRecF_na hn]; rfl
    · rfl

theorem absF_submitPost (ad : Nat → Bool) (s : St) (j : Nat) (hj : ad j = false) :
    absF ad (SchedFinal.submitPost s j) = SchedFinal.submitPost (absF ad s) j := by
  unfold SchedFinal.submitPost
  simp only [absF_regResult]
  split
  · rfl
  · have e : absF ad ({ s with eff := upd s.eff j j } : St) = ({ absF ad s with eff := upd (absF ad s).eff j j } : St) := rfl
    rw [absF_put_na hj, e, absF_jobs_na hj]
    rfl

theorem noLimbo_submitPre {ad : Nat → Bool} {s : St} (hn : ad s.n = false) (hl : NoLimbo ad s) (ident : Nat)
    (deps : List Origin) (code : Nat) (marker : Bool) : NoLimbo ad (SchedFinal.submitPre s ident deps code marker) := by
  intro k hk
  have : k ≠ s.n := by intro e; subst e; rw [hn] at hk; cases hk
  simp only [SchedFinal.submitPre, upd, this, if_false]
  exact hl k hk

theorem absF_submit0 (fl : Flags) (ad : Nat → Bool) (s : St) (hr : s.ready = []) (hn : ad s.n = false) (hl : NoLimbo ad s)
    (ident : Nat) (deps : List Origin) (code : Nat) (marker : Bool) :
    absF ad (s.apply fl (.submit ident deps code marker)) = (absF ad s).apply fl (.submit ident deps code marker) := by
  have hr' : (absF ad s).ready = [] := by rw [absF_ready, hr]; rfl
  rw [apply_submit, apply_submit, hr, hr']
  simp only [List.length_nil, St.steps]
  have hn' : (absF ad s).n = s.n := rfl
  rw [absF_submitPost ad _ _ hn, hn']
  congr 1
  have h2 : (SchedFinal.submitPre s ident deps code marker).ready = [.register s.n] := by
    simp [SchedFinal.submitPre, hr]
  have h2' : (SchedFinal.submitPre (absF ad s) ident deps code marker).ready = [.register s.n] := by
    simp [SchedFinal.submitPre, hr']
  have h3 : (SchedFinal.submitPre s ident deps code marker).step fl =
      ({ (SchedFinal.submitPre s ident deps code marker) with ready := [] } : St).register fl s.n := by
    unfold St.step; rw [h2]; rfl
  have h3' : (SchedFinal.submitPre (absF ad s) ident deps code marker).step fl =
      ({ (SchedFinal.submitPre (absF ad s) ident deps code marker) with ready := [] } : St).register fl s.n := by
    unfold St.step; rw [h2']; rfl
  have hl' : NoLimbo ad ({ (SchedFinal.submitPre s ident deps code marker) with ready := [] } : St) :=
    noLimbo_submitPre hn hl ident deps code marker
  rw [h3, h3', absF_register ad fl ({ (SchedFinal.submitPre s ident deps code marker) with ready := [] } : St) s.n hl',
    absF_pop, absF_submitPre ad s hn]
  rfl

section submit0
variable {fl : Flags} {totals : List Nat} {done0 : Nat → Bool} {w : W}

/-- **a submission taken with an empty queue** keeps the invariant of the second run. -/
theorem soundF_submit0 (hg : fl.readyGuarded = true) (hf : fl.resubmitRegisters = true) (ha : fl.abortRechecks = true)
    (h : SoundF fl totals done0 w) (hr : w.a.s.ready = []) (hne : ∀ k, (w.a.s.jobs k).state ≠ .error)
    (ident : Nat) (deps : List Origin) (code : Nat) (marker : Bool)
    (hok : EvOK w.a.s (.submit ident deps code marker)) (hnd : EvNoDouble (.submit ident deps code marker))
    (hid : ∀ j, j < w.a.s.n → (w.a.s.jobs j).ident ≠ ident) :
    SoundF fl totals done0 (w.apply fl (.sched (.submit ident deps code marker))) ∧
    (w.apply fl (.sched (.submit ident deps code marker))).a.s.ready = [.start w.a.s.n] ∧
    (w.apply fl (.sched (.submit ident deps code marker))).a.d = w.a.d ∧
    (w.apply fl (.sched (.submit ident deps code marker))).a.s.n = w.a.s.n + 1 ∧
    (w.apply fl (.sched (.submit ident deps code marker))).a.s.ntok = w.a.s.ntok ∧
    ((w.apply fl (.sched (.submit ident deps code marker))).a.s.jobs w.a.s.n).ident = ident ∧
    (∀ j, j ≠ w.a.s.n → (w.apply fl (.sched (.submit ident deps code marker))).a.s.jobs j = w.a.s.jobs j) ∧
    (∀ k, ((w.apply fl (.sched (.submit ident deps code marker))).a.s.jobs k).state ≠ .error) := by
  have hlk : lookup ident w.a.s.registry = none := by
    cases hl : lookup ident w.a.s.registry with
    | none => rfl
    | some o =>
      obtain ⟨r1, r2, -⟩ := (wreach_inv h.reach).sched.2.r3 ident o hl
      exact absurd r2 (hid o r1)
  have e0 : (w.apply fl (.sched (.submit ident deps code marker))).a =
      { w.a with s := w.a.s.apply fl (.submit ident deps code marker) } := submit0_eq fl w.a hr ident deps code marker
  have esh := apply_submit0_shape fl w.a.s hr ident deps code marker hlk
  have hadn : w.a.adopted w.a.s.n = false := by
    cases hx : w.a.adopted w.a.s.n with
    | false => rfl
    | true => exact absurd (h.ad_lt _ hx) (Nat.lt_irrefl _)
  have hnl : NoLimbo w.a.adopted w.a.s := by
    intro k hk hc
    rcases h.ai.cwst k hk hc with e | e
    · exact e
    · exact absurd e (hne k)
  generalize hs' : w.a.s.apply fl (.submit ident deps code marker) = s' at *
  have hjne : ∀ j, j ≠ w.a.s.n → s'.jobs j = w.a.s.jobs j := by
    intro j hj; rw [esh]; simp [upd, hj]
  have hjn : s'.jobs w.a.s.n = { (SchedFinal.newJob w.a.s ident deps code marker) with pc := .created } := by
    rw [esh]; simp
  have hn' : s'.n = w.a.s.n + 1 := by rw [esh]
  have hrd : s'.ready = [.start w.a.s.n] := by rw [esh]
  have htok : s'.tokDeps = w.a.s.tokDeps := by rw [esh]
  have hjob : s'.jobDeps = w.a.s.jobDeps := by rw [esh]
  have hthr : s'.threads = w.a.s.threads := by rw [esh]
  have hgood : Good2 fl (absF w.a.adopted s') := by
    rw [← hs', absF_submit0 fl w.a.adopted w.a.s hr hadn hnl]
    exact good2_apply hg hf ha _ hok hnd h.good
  have hnocr : ∀ y, (w.a.s.jobs y).pc ≠ .created := by
    intro y hy
    obtain ⟨rest, hr'⟩ := h.ai.hs y hy
    rw [hr] at hr'; cases hr'
  have hadlt : ∀ j, w.a.adopted j = true → j ≠ w.a.s.n := fun j hj => Nat.ne_of_lt (h.ad_lt j hj)
  refine ⟨⟨h.reach.apply _, ?_, ?_, ?_, ?_⟩, by rw [e0]; exact hrd, by rw [e0], by rw [e0]; exact hn', by rw [e0]; rw [esh],
    by rw [e0]; simp only []; rw [hjn]; rfl, by rw [e0]; exact hjne, ?_⟩
  · rw [e0]; exact hgood
  · rw [e0]
    intro j j' hj hj' he
    simp only [] at hj hj' he
    rw [hn'] at hj hj'
    by_cases c1 : j = w.a.s.n <;> by_cases c2 : j' = w.a.s.n
    · omega
    · subst c1
      rw [hjn, hjne j' c2] at he
      exact absurd he.symm (hid j' (by omega))
    · subst c2
      rw [hjn, hjne j c1] at he
      exact absurd he (hid j (by omega))
    · rw [hjne j c1, hjne j' c2] at he
      exact h.uniq j j' (by omega) (by omega) he
  · rw [e0]
    intro i hi
    obtain ⟨j0, h1, h2, h3⟩ := h.lock i hi
    have hj0 : j0 ≠ w.a.s.n := by omega
    refine ⟨j0, by simp only []; rw [hn']; omega, by simp only []; rw [hjne j0 hj0]; exact h2, ?_⟩
    unfold Holds Restart.cThr at h3 ⊢
    simp only []
    rw [hjne j0 hj0, hthr]; exact h3
  · rw [e0]
    have hai := h.ai
    have horig : ∀ j, j ≠ w.a.s.n → ∀ d, orig s' j d = orig w.a.s j d := by
      intro j hj d; unfold orig; rw [hjne j hj]
    refine ⟨?_, ?_, ?_, ?_, ?_, ?_, ?_, ?_⟩
    · intro j hj; simp only []; rw [hjne j (hadlt j hj)]; exact hai.held j hj
    · intro j hj; simp only []; rw [hjne j (hadlt j hj)]; exact hai.sleep j hj
    · intro j hj hc; simp only [] at hc ⊢; rw [hjne j (hadlt j hj)] at hc ⊢; exact hai.cwst j hj hc
    · have hreg : regP s' = regP w.a.s := by
        unfold regP
        rw [hn', SchedFinal.sumTo_succ, hjn]
        simp only [or_true, if_true, Nat.add_zero]
        exact SchedFinal.sumTo_congr _ _ _ (fun i hi => by rw [hjne i (by omega)])
      simp only []
      rw [hreg, htok, hjob]
      exact hai.lists
    · intro j hj
      simp only []
      rw [hjne j (hadlt j hj)]
      exact hai.proc j hj
    · -- the queue holds no check; the lists are unchanged and name started jobs only
      have hKt := h.good.g.e.c.d.wf
      have hstarted : ∀ j, (∃ t p, p ∈ w.a.s.tokDeps t ∧ p.1 = j) ∨ (∃ o p, p ∈ w.a.s.jobDeps o ∧ p.1 = j) → j ≠ w.a.s.n := by
        intro j hj e
        subst e
        -- an entry of a list names a job that is adopted or started, hence submitted
        have hpcn : (w.a.s.jobs w.a.s.n).pc = .none := (h.invP.fresh _ (Nat.le_refl _)).1
        rcases hj with ⟨t, p, hp, e⟩ | ⟨o, p, hp, e⟩
        · have : p ∈ (absF w.a.adopted w.a.s).tokDeps t := by
            rw [absF_tokDeps]; exact List.mem_filter.mpr ⟨hp, by simp [keepP, e, hadn]⟩
          have hst := (hKt.tokDepsOK t p this).1.1
          rw [e] at hst
          have hun := h.good.g.e.c.f w.a.s.n (Or.inl (by rw [absF_pc]; exact hpcn))
          exact hst hun
        · have : p ∈ (absF w.a.adopted w.a.s).jobDeps o := by
            rw [absF_jobDeps]; exact List.mem_filter.mpr ⟨hp, by simp [keepP, e, hadn]⟩
          have hst := (hKt.jobDepsOK o p this).1.1
          rw [e] at hst
          have hun := h.good.g.e.c.f w.a.s.n (Or.inl (by rw [absF_pc]; exact hpcn))
          exact hst hun
      refine ⟨?_, ?_, ?_, ?_⟩
      · intro j d hm; simp only [hrd] at hm; simp at hm
      · intro j d hm; simp only [hrd] at hm; simp at hm
      · intro t p hp
        simp only [] at hp ⊢
        rw [htok] at hp
        rw [horig p.1 (hstarted p.1 (Or.inl ⟨t, p, hp, rfl⟩))]
        exact hai.refs.tok t p hp
      · intro o p hp
        simp only [] at hp ⊢
        rw [hjob] at hp
        rw [horig p.1 (hstarted p.1 (Or.inr ⟨o, p, hp, rfl⟩))]
        exact hai.refs.job o p hp
    · intro x hx
      simp only [] at hx ⊢
      by_cases hxn : x = w.a.s.n
      · subst hxn; exact ⟨[], hrd⟩
      · rw [hjne x hxn] at hx; exact absurd hx (hnocr x)
    · intro _ k
      simp only []
      by_cases hkn : k = w.a.s.n
      · subst hkn; rw [hjn]; simp [SchedFinal.newJob]
      · rw [hjne k hkn]; exact hne k
  · intro k
    rw [e0]
    simp only []
    by_cases hkn : k = w.a.s.n
    · subst hkn; rw [hjn]; simp [SchedFinal.newJob]
    · rw [hjne k hkn]; exact hne k

end submit0

/-! ### the re-submission phase -/

theorem step_ntok (fl : Flags) (s : St) : (s.step fl).ntok = s.ntok := by
  unfold St.step
  split
  · rfl
  · rename_i cb rest hr
    exact (runCb_frame fl { s with ready := rest } cb).2.2.1

theorem apply_submit_ntok (fl : Flags) (s : St) (ident : Nat) (deps : List Origin) (code : Nat) (marker : Bool) :
    (s.apply fl (.submit ident deps code marker)).ntok = s.ntok := by
  rw [apply_submit]
  have h1 : (St.steps fl (SchedFinal.submitPre s ident deps code marker) (s.ready.length + 1)).ntok = s.ntok :=
    steps_ind (fun s' => s'.ntok = s.ntok) fl (fun s' h => by rw [step_ntok]; exact h) _ _ rfl
  unfold SchedFinal.submitPost
  split
  · exact h1
  · simpa using h1

/-- the scheduler of the world and the scheduler of M2 fed with the same submissions: same job set, tokens, identifiers. -/
def RelM (sM : St) (w : W) : Prop :=
  sM.n = w.a.s.n ∧ sM.ntok = w.a.s.ntok ∧ ∀ j, (sM.jobs j).ident = (w.a.s.jobs j).ident

structure PhaseF (fl : Flags) (totals : List Nat) (done0 : Nat → Bool) (w : W) : Prop where
  sound : SoundF fl totals done0 w
  queue : w.a.s.ready = [] ∨ ∃ k, w.a.s.ready = [.start k]
  noerr : ∀ k, (w.a.s.jobs k).state ≠ .error

section phase
variable {fl : Flags} {totals : List Nat} {done0 : Nat → Bool}

/-- the first segment of a job, run while no job is in state ERROR, leaves no job in state ERROR. -/
theorem noerr_start (hg : fl.readyGuarded = true) (hf : fl.resubmitRegisters = true) (ha : fl.abortRechecks = true)
    (hrel : fl.abortReleases = true) {w : W} (h : SoundF fl totals done0 w) (k : Nat) (rest : List Cb)
    (hr : w.a.s.ready = .start k :: rest) (hne : ∀ j, (w.a.s.jobs j).state ≠ .error)
    (h1 : SoundF fl totals done0 (w.apply fl (.sched .step))) :
    ∀ j, ((w.apply fl (.sched .step)).a.s.jobs j).state ≠ .error := by
  have hP := h.invP
  have hp := pop_inv hP hr
  obtain ⟨hx, hpc⟩ := (h.head_facts hr).1 k rfl
  have ea : (w.apply fl (.sched .step)).a = stepA fl world w.a := rfl
  have es : (stepA fl world w.a).s = startJobA fl ({ w.a.s with ready := rest } : St) k (world.look w.a.d k (w.a.s.jobs k)) := by
    rw [stepA_cons fl world w.a (.start k) rest hr]
    simp only [runCbA]
    split <;> rfl
  have hoth : ∀ i, i ≠ k → (stepA fl world w.a).s.jobs i = w.a.s.jobs i := by
    intro i hi; rw [es]; exact startJobA_other fl _ k _ i hi
  intro j
  rw [ea]
  by_cases hjk : j = k
  · subst hjk
    by_cases had : (stepA fl world w.a).adopted j = true
    · have h1' : SoundF fl totals done0 ({ w with a := stepA fl world w.a } : W) := h1
      rcases h1'.ad_pc j had with e | ⟨_, e⟩
      · -- just adopted: RUNNING
        have hl : (world.look w.a.d j (w.a.s.jobs j)).adopt = true := by
          have := (start_records fl world { w.a with s := { w.a.s with ready := rest } } j hp).2
          rw [← stepA_cons fl world w.a (.start j) rest hr] at this
          rw [← this]; exact had
        rw [es]
        unfold startJobA
        simp only [hl, if_true, put_jobs, SchedFinal.upd_same]
        simp
      · intro he; rw [he] at e
        -- a final ERROR right after the first segment of an adopted job is impossible: it is at `codeWait`
        have hl : (world.look w.a.d j (w.a.s.jobs j)).adopt = true := by
          have := (start_records fl world { w.a with s := { w.a.s with ready := rest } } j hp).2
          rw [← stepA_cons fl world w.a (.start j) rest hr] at this
          rw [← this]; exact had
        have := (startJobA_adopt_rec fl ({ w.a.s with ready := rest } : St) j _ hl)
        have hst : ((stepA fl world w.a).s.jobs j).state = .running := by
          rw [es]; unfold startJobA; simp only [hl, if_true, put_jobs, SchedFinal.upd_same]
        rw [hst] at he; cases he
    · have had' : (stepA fl world w.a).adopted j = false := by simpa using had
      intro he
      have hG1 : Good2 fl (absF (stepA fl world w.a).adopted (stepA fl world w.a).s) := h1.good
      have hrec : (absF (stepA fl world w.a).adopted (stepA fl world w.a).s).jobs j = (stepA fl world w.a).s.jobs j :=
        absF_jobs_na had' _
      have hJL := hG1.g.e.c.a.loc j
      rw [hrec] at hJL
      have hl0 : ((stepA fl world w.a).s.jobs j).launches = 0 := by
        have h3 := (start_state fl world { w.a with s := { w.a.s with ready := rest } } j).2.2.1
        rw [← stepA_cons fl world w.a (.start j) rest hr] at h3
        rw [h3]
        have := (h.good.g.e.c.a.loc j).2.2.1 (by rw [absF_pc, hpc]; rfl)
        rw [absF_jobs_na hx] at this
        exact this
      have hfd := hJL.2.2.2.2.2.2.2.2 he hl0
      have hJD := hG1.g.e.c.d.recs j
      rw [hrec] at hJD
      obtain ⟨i, hi, hcur⟩ := hJD.failedWit hfd
      cases ho : (depAt ((stepA fl world w.a).s.jobs j) i).origin with
      | tok t c =>
        exact hJD.tokNoFail i hi (by rw [ho]; rfl) hcur
      | job o =>
        have hX := hG1.g.e.c.d.truth j i o (by rw [hrec]; exact hi) (by rw [hrec]; exact ho)
        have hoe := hX.2 (by rw [hrec]; exact hcur)
        have hac := hG1.g.e.c.st.acyclic j i o (by rw [hrec]; exact hi) (by rw [hrec]; exact ho)
        have hoj : o ≠ j := by omega
        rw [absF_jobs] at hoe
        unfold absRecF at hoe
        split at hoe
        · unfold absJobF at hoe
          simp only [] at hoe
          split at hoe
          · cases hoe
          · rw [hoth o hoj] at hoe; exact hne o hoe
        · rw [hoth o hoj] at hoe; exact hne o hoe
  · rw [hoth j hjk]; exact hne j

/-- one submission of the re-submission phase. -/
theorem phaseF_submit (hg : fl.readyGuarded = true) (hf : fl.resubmitRegisters = true) (ha : fl.abortRechecks = true)
    (hrel : fl.abortReleases = true) {w : W} {sM : St} (h : PhaseF fl totals done0 w) (hR : RelM sM w) (d0 : Disk) (x : Sub)
    (hok : EvOK sM (x.ev d0)) (hnd : EvNoDouble (x.ev d0)) (hid : ∀ j, j < sM.n → (sM.jobs j).ident ≠ x.ident) :
    PhaseF fl totals done0 (w.apply fl (.sched (x.ev d0))) ∧ RelM (sM.apply fl (x.ev d0)) (w.apply fl (.sched (x.ev d0))) := by
  obtain ⟨r1, r2, r3⟩ := hR
  -- the conclusion from a world with an empty queue that agrees with `w` on what `RelM` sees
  have fin : ∀ w1 : W, SoundF fl totals done0 w1 → w1.a.s.ready = [] → (∀ k, (w1.a.s.jobs k).state ≠ .error) →
      w1.a.s.n = w.a.s.n → w1.a.s.ntok = w.a.s.ntok → (∀ j, (w1.a.s.jobs j).ident = (w.a.s.jobs j).ident) →
      PhaseF fl totals done0 (w1.apply fl (.sched (x.ev d0))) ∧
      RelM (sM.apply fl (x.ev d0)) (w1.apply fl (.sched (x.ev d0))) := by
    intro w1 hS hr hne e1 e2 e3
    obtain ⟨s1, s2, s3, s4, s5, s6, s7, s8⟩ := soundF_submit0 hg hf ha hS hr hne x.ident x.deps x.code (d0.dir x.ident).done
      (by
        intro o ho
        have := hok o ho
        cases o with
        | job d => simpa [e1, r1] using this
        | tok t c => simpa [e2, r2] using this) hnd
      (by intro j hj; rw [e3, ← r3]; exact hid j (by rw [r1]; omega))
    refine ⟨⟨s1, Or.inr ⟨_, s2⟩, s8⟩, ?_⟩
    obtain ⟨i1, i2, i3⟩ := apply_submit_ids fl sM x.ident x.deps x.code (d0.dir x.ident).done
    refine ⟨?_, ?_, ?_⟩
    · show (sM.apply fl (x.ev d0)).n = _
      unfold Sub.ev
      rw [i1, s4, e1, r1]
    · show (sM.apply fl (x.ev d0)).ntok = _
      unfold Sub.ev
      rw [apply_submit_ntok, s5, e2, r2]
    · intro j
      show ((sM.apply fl (x.ev d0)).jobs j).ident = _
      unfold Sub.ev
      by_cases hj : j = sM.n
      · subst hj
        rw [i2]
        have : sM.n = w1.a.s.n := by rw [e1, r1]
        rw [this, s6]
      · rw [i3 j hj, s7 j (by rw [e1, ← r1]; exact hj), e3, r3]
  rcases h.queue with hr | ⟨k, hr⟩
  · exact fin w h.sound hr h.noerr rfl rfl (fun _ => rfl)
  · -- the first segment of the previous submission runs first
    have hS := h.sound
    have hen : WEnabled w (.sched .step) := by show w.a.s.ready ≠ []; rw [hr]; simp
    obtain ⟨hS1, -, -⟩ := soundF_step hg hf ha hrel hS (.sched .step) hen
    have hP := hS.invP
    have hp := pop_inv hP hr
    obtain ⟨hpc, -⟩ := pre_start _ _ k (hp.loc k)
    have hpc' : (w.a.s.jobs k).pc = .created := hpc
    have hkn : k < w.a.s.n := hS.lt_of_pc k (by rw [hpc']; simp)
    have hx : w.a.adopted k = false := (hS.head_facts hr).1 k rfl |>.1
    have hfr : (stepA fl world w.a).s.n = w.a.s.n ∧ (stepA fl world w.a).s.eff = w.a.s.eff ∧
        (stepA fl world w.a).s.ntok = w.a.s.ntok ∧ (stepA fl world w.a).s.ready = [] ∧
        (∀ i, ((stepA fl world w.a).s.jobs i).ident = (w.a.s.jobs i).ident) := by
      rw [stepA_cons fl world w.a (.start k) [] hr]
      simp only [runCbA]
      split
      · obtain ⟨f1, f2, f3, f4, f5⟩ := startJobA_frame fl ({ w.a.s with ready := [] } : St) k (world.look w.a.d k (w.a.s.jobs k))
        exact ⟨f1, f2, f3, f4, f5⟩
      · obtain ⟨f1, f2, f3, f4, f5⟩ := startJobA_frame fl ({ w.a.s with ready := [] } : St) k (world.look w.a.d k (w.a.s.jobs k))
        exact ⟨f1, f2, f3, f4, f5⟩
    obtain ⟨f1, f2, f3, f4, f5⟩ := hfr
    have hnot : NotOn w.a.s k w.a.s.n := by
      intro d ho
      by_cases hd : d < (w.a.s.jobs k).deps.length
      · have hac := hS.good.g.e.c.st.acyclic k d w.a.s.n (by rw [absF_jobs_na hx]; exact hd)
          (by rw [absF_jobs_na hx]; exact ho)
        omega
      · rw [List.getD_eq_getElem?_getD, List.getElem?_eq_none (by omega)] at ho
        simp at ho
        have : (default : Dep).origin = .job 0 := rfl
        rw [this] at ho
        injection ho with h0
        omega
    have hsplit := submit_split fl w.a k hr (by omega) hnot f1 f2 f4 x.ident x.deps x.code (d0.dir x.ident).done
    have ew : w.apply fl (.sched (x.ev d0)) = (w.apply fl (.sched .step)).apply fl (.sched (x.ev d0)) := by
      show ({ w with a := applyA fl world w.a (x.ev d0) } : W) = { (w.apply fl (.sched .step)) with a := applyA fl world (stepA fl world w.a) (x.ev d0) }
      unfold Sub.ev
      rw [hsplit]; rfl
    rw [ew]
    exact fin (w.apply fl (.sched .step)) hS1 f4 (noerr_start hg hf ha hrel hS k [] hr h.noerr hS1) f1 f3 f5

theorem phaseF_run (hg : fl.readyGuarded = true) (hf : fl.resubmitRegisters = true) (ha : fl.abortRechecks = true)
    (hrel : fl.abortReleases = true) (d0 : Disk) (xs : List Sub) : ∀ (w : W) (sM : St), PhaseF fl totals done0 w →
      RelM sM w → SubsOK fl d0 sM xs →
      PhaseF fl totals done0 (W.run fl w (xs.map (fun x => WEv.sched (x.ev d0)))) := by
  induction xs with
  | nil => intro w sM h _ _; exact h
  | cons x xs ih =>
    intro w sM h hR hok
    obtain ⟨h1, h2, h3, h4⟩ := hok
    simp only [List.map_cons, W.run]
    obtain ⟨p1, p2⟩ := phaseF_submit hg hf ha hrel h hR d0 x h1 h2 h3
    exact ih _ _ p1 p2 h4

theorem absF_none (s : St) : absF (fun _ => false) s = s := by
  unfold absF
  have h1 : ∀ l : List (Nat × Nat), l.filter (keepP (fun _ => false)) = l := by
    intro l; apply List.filter_eq_self.mpr; intro p _; rfl
  have h2 : s.ready.filter (keepCb (fun _ => false)) = s.ready := by
    apply List.filter_eq_self.mpr; intro cb _; cases cb <;> rfl
  simp only [h1, h2, absRecF]
  rfl

/-- **the world after the crash, the restart and the re-submission** satisfies the invariant of the second run, whatever
    the pid files say. -/
theorem resubmitted_soundF (hg : fl.readyGuarded = true) (hf : fl.resubmitRegisters = true) (ha : fl.abortRechecks = true)
    (hrel : fl.abortReleases = true) {w : W} (hW : WReach fl totals done0 w) (xs : List Sub)
    (hok : SubsOK fl w.restart.a.d (St.init w.totals) xs) :
    SoundF fl totals done0 (resubmitted fl w xs) := by
  have hW' : WReach fl totals done0 w.restart := hW.apply .crash
  have h0 : PhaseF fl totals done0 w.restart := by
    refine ⟨⟨hW', ?_, ?_, ?_, ?_⟩, Or.inl rfl, fun k => by simp [W.restart, St.init]⟩
    · show Good2 fl (absF (fun _ => false) (St.init w.totals))
      rw [absF_none]; exact good2_init hg hf ha _
    · intro j j' hj; exact absurd hj (Nat.not_lt_zero j)
    · intro i hi
      have : (w.restart.a.d.dir i).lock = if (w.a.d.dir i).lock = .sched then .free else (w.a.d.dir i).lock := rfl
      rw [this] at hi
      split at hi
      · cases hi
      · rename_i hne; exact absurd hi hne
    · have hna : ∀ j, w.restart.a.adopted j = true → False := fun j hj => by cases hj
      refine ⟨fun j hj => (hna j hj).elim, fun j hj => (hna j hj).elim, fun j hj => (hna j hj).elim, ?_,
        fun j hj => (hna j hj).elim, ⟨?_, ?_, ?_, ?_⟩, ?_, ?_⟩
      · exact ⟨fun t => by simp [W.restart, St.init], fun o => by simp [W.restart, St.init]⟩
      · intro j d hm; simp [W.restart, St.init] at hm
      · intro j d hm; simp [W.restart, St.init] at hm
      · intro t p hp; simp [W.restart, St.init] at hp
      · intro o p hp; simp [W.restart, St.init] at hp
      · intro x hx; simp [W.restart, St.init] at hx
      · intro ⟨x, hx⟩; simp [W.restart, St.init] at hx
  exact (phaseF_run hg hf ha hrel w.restart.a.d xs w.restart (St.init w.totals) h0 ⟨rfl, rfl, fun _ => rfl⟩ hok).sound

end phase

/-! ### the second run, adoption included, no hypothesis on the pid files -/

theorem tokFit_absF (ad : Nat → Bool) {s : St} (h : TokFit s) : TokFit (absF ad s) := by
  intro i k t c hk ho
  cases hi : ad i with
  | true => rw [absF_jobs_ad hi] at hk; simp [absJobF] at hk
  | false => rw [absF_jobs_na hi] at hk ho; exact h i k t c hk ho

section final
variable {fl : Flags} {totals : List Nat} {done0 : Nat → Bool}

/-- **C11, second run, FULL**: every run of the second scheduler has at most `wmuF` events. -/
theorem restart_run_finiteF (hg : fl.readyGuarded = true) (hf : fl.resubmitRegisters = true) (ha : fl.abortRechecks = true)
    (hrel : fl.abortReleases = true) {w : W} (hW : WReach fl totals done0 w) (xs : List Sub)
    (hok : SubsOK fl w.restart.a.d (St.init w.totals) xs) (evs : List WEv) (hrun : RunE fl (resubmitted fl w xs) evs) :
    evs.length ≤ wmuF (resubmitted fl w xs) ∧ SoundF fl totals done0 (W.run fl (resubmitted fl w xs) evs) := by
  have h0 := resubmitted_soundF hg hf ha hrel hW xs hok
  obtain ⟨h1, h2, _⟩ := soundF_run hg hf ha hrel evs _ h0 hrun
  exact ⟨by omega, h1⟩

/-- **C11, second run, FULL**: a maximal run ends with every job final, every token full, nothing held, every run lock
    free and every job process gone. -/
theorem restart_maximal_runF (hg : fl.readyGuarded = true) (hf : fl.resubmitRegisters = true) (ha : fl.abortRechecks = true)
    (hrel : fl.abortReleases = true) {w : W} (hW : WReach fl totals done0 w) (xs : List Sub)
    (hok : SubsOK fl w.restart.a.d (St.init w.totals) xs) (hfit : TokFit (resubmitted fl w xs).a.s)
    (evs : List WEv) (hrun : RunE fl (resubmitted fl w xs) evs)
    (hmax : ∀ e, ¬ WEnabled (W.run fl (resubmitted fl w xs) evs) e) :
    evs.length ≤ wmuF (resubmitted fl w xs) ∧
    SoundF fl totals done0 (W.run fl (resubmitted fl w xs) evs) ∧
    (W.run fl (resubmitted fl w xs) evs).a.s.ready = [] ∧ (W.run fl (resubmitted fl w xs) evs).a.s.threads = [] ∧
    AllFinal (W.run fl (resubmitted fl w xs) evs).a.s ∧
    (∀ t, (W.run fl (resubmitted fl w xs) evs).a.s.avail t = (W.run fl (resubmitted fl w xs) evs).a.s.total t) ∧
    (∀ j, ((W.run fl (resubmitted fl w xs) evs).a.s.jobs j).held = []) ∧
    (∀ i, ((W.run fl (resubmitted fl w xs) evs).a.d.dir i).lock = .free) ∧
    (∀ p, ((W.run fl (resubmitted fl w xs) evs).a.d.procs p).ph = .gone) ∧
    (∀ i, (W.run fl (resubmitted fl w xs) evs).a.d.running i = 0) := by
  have h0 := resubmitted_soundF hg hf ha hrel hW xs hok
  obtain ⟨h1, h2, h3⟩ := soundF_run hg hf ha hrel evs _ h0 hrun
  obtain ⟨q1, q2, q3, q4, q5⟩ := maximal_finalF h1 (h3 (tokFit_absF _ hfit)) hmax
  obtain ⟨d1, d2, d3⟩ := maximal_disk_idleF h1 q3 hmax
  exact ⟨by omega, h1, q1, q2, q3, q4, q5, d1, d2, d3⟩

theorem restart_maximal_run_existsF (hg : fl.readyGuarded = true) (hf : fl.resubmitRegisters = true)
    (ha : fl.abortRechecks = true) (hrel : fl.abortReleases = true) {w : W} (hW : WReach fl totals done0 w) (xs : List Sub)
    (hok : SubsOK fl w.restart.a.d (St.init w.totals) xs) :
    ∃ evs, RunE fl (resubmitted fl w xs) evs ∧ ∀ e, ¬ WEnabled (W.run fl (resubmitted fl w xs) evs) e :=
  maximal_run_existsF hg hf ha hrel _ _ (resubmitted_soundF hg hf ha hrel hW xs hok) (Nat.le_refl _)

end final

/-! ### Boolean checkers -/

/-- Boolean form of `RestartTerm.SubsOK`. -/
def subsOKb (fl : Flags) (d0 : Disk) : St → List Sub → Bool
  | _, [] => true
  | s, x :: xs => evOKb s (x.ev d0) && decide (EvNoDouble (x.ev d0)) &&
      (List.range s.n).all (fun j => decide ((s.jobs j).ident ≠ x.ident)) && subsOKb fl d0 (s.apply fl (x.ev d0)) xs

theorem subsOK_of_b (fl : Flags) (d0 : Disk) (xs : List Sub) : ∀ s, subsOKb fl d0 s xs = true → SubsOK fl d0 s xs := by
  induction xs with
  | nil => intro _ _; trivial
  | cons x xs ih =>
    intro s h
    simp only [subsOKb, Bool.and_eq_true, decide_eq_true_eq] at h
    obtain ⟨⟨⟨h1, h2⟩, h3⟩, h4⟩ := h
    refine ⟨evOKb_sound _ _ h1, h2, ?_, ih _ h4⟩
    intro j hj
    have := List.all_eq_true.mp h3 j (List.mem_range.mpr hj)
    simpa using this

theorem tokFit_of_bF {fl : Flags} {totals : List Nat} {done0 : Nat → Bool} {w : W}
    (h : SoundF fl totals done0 w) (hb : tokFitB w.a.s = true) : TokFit w.a.s := by
  intro j i t c hi ho
  have hjn : j < w.a.s.n := by
    apply Classical.byContradiction
    intro hn
    have hb' := h.good.g.e.c.st.blankDeps j (by simpa using hn)
    have hx : w.a.adopted j = false := by
      cases hx : w.a.adopted j with
      | false => rfl
      | true => exact absurd (h.ad_lt j hx) hn
    rw [absF_jobs_na hx] at hb'
    rw [hb'] at hi; simp at hi
  have h1 := List.all_eq_true.mp hb j (List.mem_range.mpr hjn)
  have hm : (w.a.s.jobs j).deps[i] ∈ (w.a.s.jobs j).deps := List.getElem_mem hi
  have h2 := List.all_eq_true.mp h1 _ hm
  have e : depAt (w.a.s.jobs j) i = (w.a.s.jobs j).deps[i] := by
    unfold depAt; rw [List.getD_eq_getElem?_getD, List.getElem?_eq_getElem hi]; rfl
  rw [e] at ho
  rw [ho] at h2
  simpa using h2

end XpmVerif.RestartFull
