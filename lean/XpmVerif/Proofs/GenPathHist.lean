import XpmVerif.Model.GenPathHist
import XpmVerif.Proofs.GenPath
/-! Helper lemmas for C17 over submission histories: the strengthened invariant `Graph.Inv`
    (static clauses + every linked task exists and is sealed), monotonicity of sealing, what one
    `submit` does to the graph and which objects it generates paths for, the invariants of the log of
    generated paths. Core Lean only. -/
namespace XpmVerif.GenPath

/-! ### A. `setAt` -/

theorem setAt_length {α : Type} (l : List α) (i : Nat) (f : α → α) : (setAt l i f).length = l.length := by
  unfold setAt
  split <;> simp

theorem getElem?_setAt {α : Type} (l : List α) (i : Nat) (f : α → α) (n : Nat) :
    (setAt l i f)[n]? = if n = i then l[i]?.map f else l[n]? := by
  unfold setAt
  cases h : l[i]? with
  | none =>
    by_cases hn : n = i
    · subst hn; simp [h]
    · simp [hn]
  | some a =>
    have hi : i < l.length := (List.getElem?_eq_some_iff.mp h).1
    by_cases hn : n = i
    · subst hn; simp [hi]
    · have : i ≠ n := fun e => hn e.symm
      simp [hn, this]

theorem node_setAt (g : Graph) (i : NodeId) (f : Node → Node) (n : NodeId) :
    (⟨setAt g.nodes i f⟩ : Graph).node n = if n = i then (g.node i).map f else g.node n := by
  simp only [Graph.node, getElem?_setAt]

/-! ### B. the invariant and monotonicity of sealing -/

/-- the static clauses, and every linked task (the object itself included) exists and is sealed. -/
def Graph.Inv (enc : Str → Str) (g : Graph) : Prop :=
  ∀ n nd, g.node n = some nd → nodeOK enc nd = true ∧
    ∀ t, nd.task = some t → ∃ nt, g.node t = some nt ∧ nt.isSealed = true

theorem Graph.Inv.ok {enc : Str → Str} {g : Graph} (h : g.Inv enc) : g.OK enc := by
  intro n nd hn
  obtain ⟨h1, h2⟩ := h n nd hn
  refine ⟨h1, ?_⟩
  unfold taskOK
  cases ht : nd.task with
  | none => rfl
  | some t =>
    obtain ⟨nt, hnt, hs⟩ := h2 t ht
    simp [hnt, hs]

/-- objects are never removed nor unsealed. -/
def Graph.Le (g g' : Graph) : Prop :=
  ∀ n nd, g.node n = some nd → ∃ nd', g'.node n = some nd' ∧ (nd.isSealed = true → nd'.isSealed = true)

theorem Graph.Le.refl (g : Graph) : g.Le g := fun _ nd h => ⟨nd, h, id⟩

theorem Graph.Le.trans {a b c : Graph} (h1 : a.Le b) (h2 : b.Le c) : a.Le c := by
  intro n nd hn
  obtain ⟨nd1, hn1, s1⟩ := h1 n nd hn
  obtain ⟨nd2, hn2, s2⟩ := h2 n nd1 hn1
  exact ⟨nd2, hn2, fun h => s2 (s1 h)⟩

theorem le_setAt (g : Graph) (i : NodeId) (f : Node → Node)
    (hf : ∀ nd, g.node i = some nd → nd.isSealed = true → (f nd).isSealed = true) :
    g.Le ⟨setAt g.nodes i f⟩ := by
  intro n nd hn
  rw [node_setAt]
  by_cases hni : n = i
  · subst hni
    simp only [if_true, hn, Option.map_some]
    exact ⟨f nd, rfl, hf nd hn⟩
  · simp only [hni, if_false]
    exact ⟨nd, hn, id⟩

theorem inv_setAt {enc : Str → Str} {g : Graph} (hg : g.Inv enc) (i : NodeId) (f : Node → Node)
    (hf : ∀ nd, g.node i = some nd → nodeOK enc (f nd) = true ∧ (nd.isSealed = true → (f nd).isSealed = true)
      ∧ ∀ t, (f nd).task = some t → nd.task = some t ∨ ∃ nt, g.node t = some nt ∧ nt.isSealed = true) :
    Graph.Inv enc ⟨setAt g.nodes i f⟩ := by
  have hle := le_setAt g i f (fun nd h => (hf nd h).2.1)
  have hseal : ∀ t nt, g.node t = some nt → nt.isSealed = true →
      ∃ nt', (⟨setAt g.nodes i f⟩ : Graph).node t = some nt' ∧ nt'.isSealed = true := by
    intro t nt h1 h2
    obtain ⟨nt', a, b⟩ := hle t nt h1
    exact ⟨nt', a, b h2⟩
  intro n nd' hn
  rw [node_setAt] at hn
  by_cases hni : n = i
  · subst hni
    simp only [if_true] at hn
    cases hgn : g.node n with
    | none => simp [hgn] at hn
    | some nd =>
      simp only [hgn, Option.map_some, Option.some.injEq] at hn
      subst hn
      obtain ⟨a, _, c⟩ := hf nd hgn
      refine ⟨a, ?_⟩
      intro t ht
      rcases c t ht with h | ⟨nt, h1, h2⟩
      · obtain ⟨nt, h1, h2⟩ := (hg n nd hgn).2 t h
        exact hseal t nt h1 h2
      · exact hseal t nt h1 h2
  · simp only [hni, if_false] at hn
    obtain ⟨a, b⟩ := hg n nd' hn
    refine ⟨a, ?_⟩
    intro t ht
    obtain ⟨nt, h1, h2⟩ := b t ht
    exact hseal t nt h1 h2

/-! ### C. every operation but `submit` preserves the invariant -/

theorem nodeOK_iff (enc : Str → Str) (nd : Node) : nodeOK enc nd = true ↔
    ((nd.args.map Prod.fst).Nodup ∧ (∀ k ∈ nd.args.map Prod.fst, Plain k ∧ k ≠ preKey ∧ k ≠ initKey)
      ∧ (∀ a ∈ nd.args, valOK enc a.2 = true) ∧ (∀ a ∈ nd.gens, Plain a.2) ∧ (nd.gens.map Prod.fst).Nodup) := by
  simp only [nodeOK, Bool.and_eq_true, decide_eq_true_eq, List.all_eq_true]
  constructor
  · rintro ⟨⟨⟨⟨a, b⟩, c⟩, d⟩, e⟩
    exact ⟨a, fun k hk => ⟨(b k hk).1.1, (b k hk).1.2, (b k hk).2⟩, c, d, e⟩
  · rintro ⟨a, b, c, d, e⟩
    exact ⟨⟨⟨⟨a, fun k hk => ⟨⟨(b k hk).1, (b k hk).2.1⟩, (b k hk).2.2⟩⟩, c⟩, d⟩, e⟩

theorem node_construct (g : Graph) (nd : Node) (n : Nat) :
    (construct g nd).node n = if n < g.nodes.length then g.node n else if n = g.nodes.length then some (fresh nd) else none := by
  simp only [construct, Graph.node]
  by_cases h : n < g.nodes.length
  · simp [h, List.getElem?_append_left]
  · simp only [h, if_false]
    rw [List.getElem?_append_right (Nat.le_of_not_lt h)]
    by_cases h2 : n = g.nodes.length
    · simp [h2]
    · simp only [h2, if_false]
      have hk : n - g.nodes.length = (n - g.nodes.length - 1) + 1 := by omega
      rw [hk]
      rfl

theorem le_construct (g : Graph) (nd : Node) : g.Le (construct g nd) := by
  intro n nd0 hn
  rw [node_construct, if_pos (node_lt hn)]
  exact ⟨nd0, hn, id⟩

theorem inv_construct {enc : Str → Str} {g : Graph} (hg : g.Inv enc) (nd : Node) (hnd : nodeOK enc nd = true) :
    (construct g nd).Inv enc := by
  intro n nd' hn
  rw [node_construct] at hn
  by_cases h : n < g.nodes.length
  · rw [if_pos h] at hn
    obtain ⟨a, b⟩ := hg n nd' hn
    refine ⟨a, fun t ht => ?_⟩
    obtain ⟨nt, h1, h2⟩ := b t ht
    obtain ⟨nt', h3, h4⟩ := le_construct g nd t nt h1
    exact ⟨nt', h3, h4 h2⟩
  · rw [if_neg h] at hn
    by_cases h2 : n = g.nodes.length
    · rw [if_pos h2] at hn
      cases hn
      exact ⟨hnd, fun t ht => by simp [fresh] at ht⟩
    · rw [if_neg h2] at hn
      cases hn

theorem mem_insert_mid {α : Type} (l : List α) (x a : α) (pos : Nat) :
    a ∈ l.take pos ++ x :: l.drop pos ↔ a = x ∨ a ∈ l := by
  have hp : (l.take pos ++ x :: l.drop pos).Perm (x :: (l.take pos ++ l.drop pos)) := List.perm_middle
  rw [hp.mem_iff, List.take_append_drop]
  simp

theorem setArgs_ok (enc : Str → Str) (args : List (Str × Val)) (k : Str) (v : Val) (pos : Nat)
    (hn : (args.map Prod.fst).Nodup) (hk : ∀ x ∈ args.map Prod.fst, Plain x ∧ x ≠ preKey ∧ x ≠ initKey)
    (hv : ∀ a ∈ args, valOK enc a.2 = true)
    (hk' : Plain k ∧ k ≠ preKey ∧ k ≠ initKey) (hv' : valOK enc v = true) :
    ((setArgs args k v pos).map Prod.fst).Nodup
      ∧ (∀ x ∈ (setArgs args k v pos).map Prod.fst, Plain x ∧ x ≠ preKey ∧ x ≠ initKey)
      ∧ (∀ a ∈ setArgs args k v pos, valOK enc a.2 = true) := by
  unfold setArgs
  by_cases hin : k ∈ args.map Prod.fst
  · simp only [hin, if_true]
    have hm : (args.map (fun a => if a.1 = k then (a.1, v) else a)).map Prod.fst = args.map Prod.fst := by
      rw [List.map_map]
      apply List.map_congr_left
      intro a _
      simp only [Function.comp]
      split <;> rfl
    rw [hm]
    refine ⟨hn, hk, ?_⟩
    intro a ha
    obtain ⟨a0, ha0, rfl⟩ := List.mem_map.mp ha
    split
    · exact hv'
    · exact hv a0 ha0
  · simp only [hin, if_false]
    have hm : (args.take pos ++ (k, v) :: args.drop pos).map Prod.fst
        = (args.map Prod.fst).take pos ++ k :: (args.map Prod.fst).drop pos := by
      simp [List.map_take, List.map_drop]
    rw [hm]
    refine ⟨?_, ?_, ?_⟩
    · have hp : ((args.map Prod.fst).take pos ++ k :: (args.map Prod.fst).drop pos).Perm
          (k :: ((args.map Prod.fst).take pos ++ (args.map Prod.fst).drop pos)) := List.perm_middle
      rw [hp.nodup_iff, List.take_append_drop]
      exact List.nodup_cons.mpr ⟨hin, hn⟩
    · intro x hx
      rcases (mem_insert_mid _ _ _ _).mp hx with rfl | hx
      · exact hk'
      · exact hk x hx
    · intro a ha
      rcases (mem_insert_mid _ _ _ _).mp ha with rfl | ha
      · exact hv'
      · exact hv a ha

theorem inv_setParam {enc : Str → Str} {g : Graph} (hg : g.Inv enc) (n : NodeId) (k : Str) (v : Val) (pos : Nat)
    (hk : Plain k ∧ k ≠ preKey ∧ k ≠ initKey) (hv : valOK enc v = true) : (setParam g n k v pos).Inv enc := by
  apply inv_setAt hg
  intro nd hn
  have hok := (hg n nd hn).1
  split
  · exact ⟨hok, id, fun t ht => Or.inl ht⟩
  · refine ⟨?_, id, fun t ht => Or.inl ht⟩
    obtain ⟨a, b, c, d, e⟩ := (nodeOK_iff enc nd).mp hok
    obtain ⟨a', b', c'⟩ := setArgs_ok enc nd.args k v pos a b c hk hv
    exact (nodeOK_iff enc _).mpr ⟨a', b', c', d, e⟩

theorem le_setParam (g : Graph) (n : NodeId) (k : Str) (v : Val) (pos : Nat) : g.Le (setParam g n k v pos) := by
  apply le_setAt
  intro nd _ hs
  split
  · exact hs
  · exact hs

theorem inv_addPre {enc : Str → Str} {g : Graph} (hg : g.Inv enc) (n t : NodeId) : (addPre g n t).Inv enc := by
  apply inv_setAt hg
  intro nd hn
  have hok := (hg n nd hn).1
  split
  · exact ⟨hok, id, fun t ht => Or.inl ht⟩
  · exact ⟨hok, id, fun t ht => Or.inl ht⟩

theorem le_addPre (g : Graph) (n t : NodeId) : g.Le (addPre g n t) := by
  apply le_setAt
  intro nd _ hs
  split
  · exact hs
  · exact hs

theorem inv_copyDeps {enc : Str → Str} {g : Graph} (hg : g.Inv enc) (c o : NodeId) : (copyDeps g c o).Inv enc := by
  unfold copyDeps
  cases ho : g.node o with
  | none => exact hg
  | some no =>
    cases ht : no.task with
    | none => simp only [ht]; exact hg
    | some t =>
      simp only [ht]
      apply inv_setAt hg
      intro nd hn
      refine ⟨(hg c nd hn).1, id, fun t' ht' => Or.inr ?_⟩
      have : t' = t := by simpa using ht'.symm
      subst this
      exact (hg o no ho).2 t' ht

theorem le_copyDeps (g : Graph) (c o : NodeId) : g.Le (copyDeps g c o) := by
  unfold copyDeps
  cases ho : g.node o with
  | none => exact Graph.Le.refl g
  | some no =>
    cases ht : no.task with
    | none => simp only [ht]; exact Graph.Le.refl g
    | some t => simp only [ht]; exact le_setAt g c _ (fun _ _ hs => hs)

theorem inv_markOutput {enc : Str → Str} {g : Graph} (hg : g.Inv enc) (r o : NodeId) : (markOutput g r o).Inv enc := by
  unfold markOutput
  cases hr : g.node r with
  | none => exact hg
  | some nr =>
    by_cases hs : nr.isSealed = true
    · simp only [hs, if_true]
      apply inv_setAt hg
      intro nd hn
      refine ⟨(hg o nd hn).1, id, fun t' ht' => Or.inr ?_⟩
      have : t' = r := by simpa using ht'.symm
      subst this
      exact ⟨nr, hr, hs⟩
    · simp only [hs]
      exact hg

theorem le_markOutput (g : Graph) (r o : NodeId) : g.Le (markOutput g r o) := by
  unfold markOutput
  cases hr : g.node r with
  | none => exact Graph.Le.refl g
  | some nr =>
    by_cases hs : nr.isSealed = true
    · simp only [hs, if_true]
      exact le_setAt g o _ (fun _ _ hs => hs)
    · simp only [hs]
      exact Graph.Le.refl g

theorem inv_markOutputs {enc : Str → Str} (r : NodeId) : ∀ (outs : List NodeId) (g : Graph), g.Inv enc →
    (markOutputs g r outs).Inv enc
  | [], _, hg => hg
  | o :: outs, _, hg => inv_markOutputs r outs _ (inv_markOutput hg r o)

theorem le_markOutputs (r : NodeId) : ∀ (outs : List NodeId) (g : Graph), g.Le (markOutputs g r outs)
  | [], g => Graph.Le.refl g
  | o :: outs, _ => (le_markOutput _ r o).trans (le_markOutputs r outs _)

/-! ### D. one submission -/

/-- the objects of `s` get sealed. -/
def sealList (ns : List Node) (s : List (NodeId × List Str)) : List Node :=
  s.foldl (fun ns e => setAt ns e.1 (fun nd => { nd with isSealed := true })) ns

/-- `self.init_tasks = init_tasks`. -/
def withInits (g : Graph) (root : NodeId) (inits : List NodeId) : Graph :=
  ⟨setAt g.nodes root (fun nd => { nd with initTasks := inits })⟩

theorem submit_fst (enc : Str → Str) (g : Graph) (root : NodeId) (inits : List NodeId) :
    (submit enc g root inits).1 = ⟨setAt (sealList (withInits g root inits).nodes (submitSealed enc (withInits g root inits) root)) root
      (fun nd => { nd with task := some root })⟩ := rfl

theorem submit_snd (enc : Str → Str) (g : Graph) (root : NodeId) (inits : List NodeId) :
    (submit enc g root inits).2 = submitPaths enc (withInits g root inits) root := rfl

theorem getElem?_sealList : ∀ (s : List (NodeId × List Str)) (ns : List Node) (n : Nat),
    (sealList ns s)[n]? = ns[n]?.map (fun nd => if n ∈ s.map Prod.fst then { nd with isSealed := true } else nd)
  | [], ns, n => by simp [sealList]
  | e :: s, ns, n => by
    have h : sealList ns (e :: s) = sealList (setAt ns e.1 (fun nd => { nd with isSealed := true })) s := rfl
    rw [h, getElem?_sealList s, getElem?_setAt]
    by_cases hn : n = e.1
    · subst hn
      cases ns[e.1]? with
      | none => simp
      | some nd =>
        simp only [if_true, Option.map_some, List.map_cons, List.mem_cons, true_or]
        split <;> rfl
    · simp only [hn, if_false, List.map_cons, List.mem_cons, false_or]

theorem inv_sealList {enc : Str → Str} : ∀ (s : List (NodeId × List Str)) (ns : List Node),
    Graph.Inv enc ⟨ns⟩ → Graph.Inv enc ⟨sealList ns s⟩
  | [], _, h => h
  | e :: s, ns, h => by
    have hs : sealList ns (e :: s) = sealList (setAt ns e.1 (fun nd => { nd with isSealed := true })) s := rfl
    rw [hs]
    apply inv_sealList s
    exact inv_setAt h e.1 _ (fun nd hn => ⟨(h e.1 nd hn).1, fun _ => rfl, fun t ht => Or.inl ht⟩)

theorem le_sealList : ∀ (s : List (NodeId × List Str)) (ns : List Node), Graph.Le ⟨ns⟩ ⟨sealList ns s⟩
  | [], ns => Graph.Le.refl _
  | e :: s, ns => by
    have hs : sealList ns (e :: s) = sealList (setAt ns e.1 (fun nd => { nd with isSealed := true })) s := rfl
    rw [hs]
    exact (le_setAt ⟨ns⟩ e.1 _ (fun _ _ _ => rfl)).trans (le_sealList s _)

theorem node_withInits (g : Graph) (root : NodeId) (inits : List NodeId) (n : NodeId) (nd1 : Node)
    (h : (withInits g root inits).node n = some nd1) :
    ∃ nd, g.node n = some nd ∧ nd.isSealed = nd1.isSealed ∧ nd.gens = nd1.gens := by
  unfold withInits at h
  rw [node_setAt] at h
  by_cases hn : n = root
  · subst hn
    simp only [if_true] at h
    cases hg : g.node n with
    | none => simp [hg] at h
    | some nd =>
      simp only [hg, Option.map_some, Option.some.injEq] at h
      subst h
      exact ⟨nd, rfl, rfl, rfl⟩
  · simp only [hn, if_false] at h
    exact ⟨nd1, h, rfl, rfl⟩

theorem inv_withInits {enc : Str → Str} {g : Graph} (hg : g.Inv enc) (root : NodeId) (inits : List NodeId) :
    (withInits g root inits).Inv enc :=
  inv_setAt hg root _ (fun nd hn => ⟨(hg root nd hn).1, id, fun _ ht => Or.inl ht⟩)

theorem le_withInits (g : Graph) (root : NodeId) (inits : List NodeId) : g.Le (withInits g root inits) :=
  le_setAt g root _ (fun _ _ hs => hs)

/-! #### what the walk of a submission reaches -/

theorem sealed_root_mem (enc : Str → Str) (g : Graph) (root : NodeId) (nd : Node) (hn : g.node root = some nd)
    (hs : nd.isSealed = false) : (root, []) ∈ sealed enc g root := by
  simp [sealed, walkNode, hn, hs]

theorem submitSealed_root_mem (enc : Str → Str) (g : Graph) (root : NodeId) (nd : Node) (hn : g.node root = some nd)
    (hs : nd.isSealed = false) : (root, []) ∈ submitSealed enc g root := by
  rw [submitSealed_unsealed enc g root nd hn hs]
  exact sealed_root_mem enc g root nd hn hs

theorem fold_inv {α β : Type} (Q : α → Prop) (F : α → β → α) (h : ∀ a b, Q a → Q (F a b)) :
    ∀ (L : List β) (a : α), Q a → Q (L.foldl F a)
  | [], _, ha => ha
  | b :: L, a, ha => fold_inv Q F h L _ (h a b ha)

/-- only unsealed objects of the graph are processed (generate paths, get sealed). -/
theorem walkNode_out_unsealed (enc : Str → Str) (g : Graph) :
    ∀ (fuel : Nat) (p : List Str) (n : NodeId) (w : W),
      (∀ e ∈ w.out, ∃ nd, g.node e.1 = some nd ∧ nd.isSealed = false) →
      ∀ e ∈ (walkNode enc g fuel p n w).out, ∃ nd, g.node e.1 = some nd ∧ nd.isSealed = false
  | 0, _, _, _, h => by simpa [walkNode] using h
  | fuel + 1, p, n, w, h => by
    unfold walkNode
    by_cases hv : n ∈ w.vis
    · simpa [hv] using h
    · simp only [hv, if_false]
      cases hn : g.node n with
      | none => simpa using h
      | some nd =>
        simp only []
        by_cases hsd : nd.isSealed = true
        · simpa [hsd] using h
        · have hsd' : nd.isSealed = false := by simpa using hsd
          simp only [hsd', Bool.false_eq_true, if_false]
          have h2 := fold_inv (fun w : W => ∀ e ∈ w.out, ∃ nd, g.node e.1 = some nd ∧ nd.isSealed = false)
            (fun w e => walkNode enc g fuel (p ++ e.1) e.2 w)
            (fun w e hw => walkNode_out_unsealed enc g fuel (p ++ e.1) e.2 w hw) (nodeRefs enc nd)
            { vis := n :: w.vis, out := w.out } h
          generalize (nodeRefs enc nd).foldl (fun w e => walkNode enc g fuel (p ++ e.1) e.2 w) { vis := n :: w.vis, out := w.out } = w2 at h2
          have key : ∀ w3 : W, (∀ e ∈ w3.out, ∃ nd, g.node e.1 = some nd ∧ nd.isSealed = false) →
              ∀ e ∈ w3.out ++ [(n, p)], ∃ nd, g.node e.1 = some nd ∧ nd.isSealed = false := by
            intro w3 h3 e he
            rcases List.mem_append.mp he with he | he
            · exact h3 e he
            · simp only [List.mem_singleton] at he
              subst he
              exact ⟨nd, hn, hsd'⟩
          cases nd.task with
          | none => exact key w2 h2
          | some t =>
            simp only []
            split
            · exact key w2 h2
            · exact key _ (walkNode_out_unsealed enc g fuel p t w2 h2)

theorem sealed_unsealed (enc : Str → Str) (g : Graph) (root : NodeId) :
    ∀ e ∈ sealed enc g root, ∃ nd, g.node e.1 = some nd ∧ nd.isSealed = false :=
  walkNode_out_unsealed enc g _ [] root {} (by simp)

theorem submitSealed_unsealedNodes (enc : Str → Str) (g : Graph) (root : NodeId) :
    ∀ e ∈ submitSealed enc g root, ∃ nd, g.node e.1 = some nd ∧ nd.isSealed = false := by
  have h0 := walkNode_out_unsealed enc g (g.nodes.length + 1) [] root {} (by simp)
  unfold submitSealed submitWalk
  cases g.node root with
  | none => exact h0
  | some nd =>
    exact fold_inv (fun w : W => ∀ e ∈ w.out, ∃ nd, g.node e.1 = some nd ∧ nd.isSealed = false)
      (fun w e => walkNode enc g (g.nodes.length + 1) e.1 e.2 w)
      (fun w e hw => walkNode_out_unsealed enc g _ e.1 e.2 w hw) (initRefs enc nd) _ h0

/-! #### the graph after `submit` -/

/-- an object processed by the walk is sealed afterwards. -/
theorem sealList_sealed (ns : List Node) (s : List (NodeId × List Str)) (n : NodeId) (nd : Node)
    (hn : ns[n]? = some nd) (hm : n ∈ s.map Prod.fst) :
    ∃ nd', (⟨sealList ns s⟩ : Graph).node n = some nd' ∧ nd'.isSealed = true := by
  refine ⟨{ nd with isSealed := true }, ?_, rfl⟩
  simp only [Graph.node, getElem?_sealList, hn, Option.map_some, hm, if_true]

theorem le_submit (enc : Str → Str) (g : Graph) (root : NodeId) (inits : List NodeId) :
    g.Le (submit enc g root inits).1 := by
  rw [submit_fst]
  exact (le_withInits g root inits).trans ((le_sealList _ _).trans (le_setAt _ root _ (fun _ _ hs => hs)))

/-- the submitted task is sealed after its submission. -/
theorem submit_root_sealed (enc : Str → Str) (g : Graph) (root : NodeId) (inits : List NodeId) (nd : Node)
    (hn : g.node root = some nd) : ∃ nd', (submit enc g root inits).1.node root = some nd' ∧ nd'.isSealed = true := by
  obtain ⟨nd1, h1, _⟩ := le_withInits g root inits root nd hn
  have h2 : ∃ nd2, (⟨sealList (withInits g root inits).nodes (submitSealed enc (withInits g root inits) root)⟩ : Graph).node root = some nd2
      ∧ nd2.isSealed = true := by
    by_cases hs : nd1.isSealed = true
    · obtain ⟨nd2, a, b⟩ := le_sealList (submitSealed enc (withInits g root inits) root) (withInits g root inits).nodes root nd1 h1
      exact ⟨nd2, a, b hs⟩
    · have hs' : nd1.isSealed = false := by simpa using hs
      have hm := submitSealed_root_mem enc _ root nd1 h1 hs'
      exact sealList_sealed _ _ root nd1 h1 (List.mem_map.mpr ⟨_, hm, rfl⟩)
  obtain ⟨nd2, a, b⟩ := h2
  rw [submit_fst]
  obtain ⟨nd3, c, d⟩ := le_setAt ⟨sealList (withInits g root inits).nodes (submitSealed enc (withInits g root inits) root)⟩ root
    (fun nd => { nd with task := some root }) (fun _ _ hs => hs) root nd2 a
  exact ⟨nd3, c, d b⟩

theorem inv_submit {enc : Str → Str} {g : Graph} (hg : g.Inv enc) (root : NodeId) (inits : List NodeId) :
    (submit enc g root inits).1.Inv enc := by
  have h1 := inv_withInits hg root inits
  have h2 : Graph.Inv enc ⟨sealList (withInits g root inits).nodes (submitSealed enc (withInits g root inits) root)⟩ :=
    inv_sealList (submitSealed enc (withInits g root inits) root) _ h1
  have hr := fun nd hn => submit_root_sealed enc g root inits nd hn
  rw [submit_fst] at hr ⊢
  apply inv_setAt h2
  intro nd2 hn2
  refine ⟨(h2 root nd2 hn2).1, id, fun t ht => Or.inr ?_⟩
  have : t = root := by simpa using ht.symm
  subst this
  -- `root` is sealed in the graph before the link is set
  cases hgr : g.node t with
  | none =>
    exfalso
    have hnone : (⟨sealList (withInits g t inits).nodes (submitSealed enc (withInits g t inits) t)⟩ : Graph).node t = none := by
      unfold Graph.node at hgr
      simp [Graph.node, getElem?_sealList, withInits, getElem?_setAt, hgr]
    rw [hnone] at hn2
    cases hn2
  | some nd =>
    obtain ⟨nd', a, b⟩ := hr nd hgr
    rw [node_setAt, if_pos rfl, hn2] at a
    simp only [Option.map_some, Option.some.injEq] at a
    subst a
    exact ⟨nd2, hn2, b⟩

/-- a submission generates paths for objects that were unsealed, … -/
theorem submit_entries_unsealed (enc : Str → Str) (g : Graph) (root : NodeId) (inits : List NodeId) (e : Entry)
    (he : e ∈ (submit enc g root inits).2) : ∃ nd, g.node e.node = some nd ∧ nd.isSealed = false := by
  rw [submit_snd] at he
  obtain ⟨_, hs, _, _, _⟩ := mem_entries he
  obtain ⟨nd1, h1, h2⟩ := submitSealed_unsealedNodes enc _ root _ hs
  obtain ⟨nd, a, b, _⟩ := node_withInits g root inits _ nd1 h1
  exact ⟨nd, a, b.trans h2⟩

/-- … that are sealed afterwards. -/
theorem submit_entries_sealed (enc : Str → Str) (g : Graph) (root : NodeId) (inits : List NodeId) (e : Entry)
    (he : e ∈ (submit enc g root inits).2) : ∃ nd', (submit enc g root inits).1.node e.node = some nd' ∧ nd'.isSealed = true := by
  rw [submit_snd] at he
  obtain ⟨nd1, hs, h1, _, _⟩ := mem_entries he
  obtain ⟨nd2, a, b⟩ := sealList_sealed (withInits g root inits).nodes (submitSealed enc (withInits g root inits) root) e.node nd1 h1
    (List.mem_map.mpr ⟨_, hs, rfl⟩)
  rw [submit_fst]
  obtain ⟨nd3, c, d⟩ := le_setAt ⟨sealList (withInits g root inits).nodes (submitSealed enc (withInits g root inits) root)⟩ root
    (fun nd => { nd with task := some root }) (fun _ _ hs => hs) e.node nd2 a
  exact ⟨nd3, c, d b⟩

/-- the init tasks of `root` in the graph that is walked are the ones given to `submit`. -/
theorem withInits_root (g : Graph) (root : NodeId) (inits : List NodeId) (nd : Node) (hn : g.node root = some nd) :
    (withInits g root inits).node root = some { nd with initTasks := inits } := by
  unfold withInits
  rw [node_setAt, if_pos rfl, hn]
  rfl

/-- **submission of a task that is already sealed** (sealed as a sub-configuration of another task): the
    task itself gets nothing; only (sub-configurations of) the init tasks just given that were still
    unsealed get paths, all below `out/__init_tasks__/<index>/` of the job directory of the task. -/
theorem submit_sealed_root (enc : Str → Str) (g : Graph) (hg : g.Inv enc) (root : NodeId) (inits : List NodeId) (nd : Node)
    (hn : g.node root = some nd) (hs : nd.isSealed = true) (e : Entry) (he : e ∈ (submit enc g root inits).2) :
    e.node ≠ root ∧ ∃ i t, i < inits.length ∧ e.keys = initKey :: idxKey i :: t
      ∧ e.path = ⟨false, outStr :: initKey :: idxKey i :: t ++ [e.file]⟩ := by
  rw [submit_snd] at he
  have hok := (inv_withInits hg root inits).ok
  have h1 := withInits_root g root inits nd hn
  obtain ⟨hw, hsh⟩ := submitSealed_sealed_root enc _ hok root _ h1 hs
  obtain ⟨_, hm, _, _, _⟩ := mem_entries he
  obtain ⟨h2, i, t, hi, hk⟩ := hsh _ hm
  obtain ⟨_, _, hp⟩ := entries_shape enc _ hok _ hw e he
  refine ⟨h2, i, t, hi, hk, ?_⟩
  have hk' : e.keys = initKey :: idxKey i :: t := hk
  rw [hp, hk']
  rfl

/-- nothing at all when, moreover, every init task given is already sealed (or none is given). -/
theorem submit_sealed_all (enc : Str → Str) (g : Graph) (root : NodeId) (inits : List NodeId) (nd : Node)
    (hn : g.node root = some nd) (hs : nd.isSealed = true)
    (hi : ∀ t ∈ inits, ∀ nt, g.node t = some nt → nt.isSealed = true) : (submit enc g root inits).2 = [] := by
  rw [submit_snd]
  have h1 := withInits_root g root inits nd hn
  have hw0 : walkNode enc (withInits g root inits) ((withInits g root inits).nodes.length + 1) [] root {} = ⟨[root], []⟩ := by
    simp [walkNode, h1, hs]
  -- every late walk stops at once: its start is absent or sealed
  have hstop : ∀ (L : List Ref) (w : W), w.out = [] → (∀ e ∈ L, e.2 ∈ inits) →
      (L.foldl (fun w e => walkNode enc (withInits g root inits) ((withInits g root inits).nodes.length + 1) e.1 e.2 w) w).out = [] := by
    intro L
    induction L with
    | nil => intro w hw _; exact hw
    | cons e L ih =>
      intro w hw hL
      rw [List.foldl_cons]
      apply ih _ _ (fun e' he' => hL e' (by simp [he']))
      have hsl : match (withInits g root inits).node e.2 with | some nt => nt.isSealed = true | none => True := by
        cases h2 : (withInits g root inits).node e.2 with
        | none => trivial
        | some nt =>
          obtain ⟨nt0, a, b, _⟩ := node_withInits g root inits e.2 nt h2
          show nt.isSealed = true
          rw [← b]
          exact hi e.2 (hL e (by simp)) nt0 a
      rw [(walkNode_sealed enc _ _ e.1 e.2 w hsl).1, hw]
  have : submitSealed enc (withInits g root inits) root = [] := by
    unfold submitSealed submitWalk
    simp only [h1, hw0]
    apply hstop _ _ rfl
    intro e he
    obtain ⟨i, _, _, h3⟩ := mem_initRefs enc _ e he
    exact List.mem_of_getElem? h3
  simp [submitPaths, this]

theorem submit_no_root (enc : Str → Str) (g : Graph) (root : NodeId) (inits : List NodeId)
    (h : g.node root = none) : (submit enc g root inits).2 = [] := by
  rw [submit_snd]
  have h1 : (withInits g root inits).node root = none := by
    unfold withInits
    rw [node_setAt, if_pos rfl, h]
    rfl
  simp [submitPaths, submitSealed_no_root enc _ root h1]

/-! ### E. histories -/

theorem inv_of_init {enc : Str → Str} {g : Graph} (h : g.Init enc) : g.Inv enc := by
  intro n nd hn
  simp only [Graph.Init, Graph.initB, List.all_eq_true, Bool.and_eq_true] at h
  obtain ⟨⟨a, _⟩, c⟩ := h nd (List.mem_of_getElem? hn)
  refine ⟨a, fun t ht => ?_⟩
  rw [ht] at c
  cases c

theorem wf_cons {enc : Str → Str} {op : Op} {ops : List Op} (h : Hist.WF enc (op :: ops)) :
    op.wfB enc = true ∧ Hist.WF enc ops := by
  simpa [Hist.WF, Hist.wfB] using h

theorem wf_append {enc : Str → Str} {ops more : List Op} (h : Hist.WF enc (ops ++ more)) :
    Hist.WF enc ops ∧ Hist.WF enc more := by
  simp only [Hist.WF, Hist.wfB, List.all_append, Bool.and_eq_true] at h
  exact h

theorem inv_step {enc : Str → Str} {s : HState} (hs : s.g.Inv enc) (op : Op) (hw : op.wfB enc = true) :
    (s.step enc op).g.Inv enc := by
  cases op with
  | construct nd => exact inv_construct hs nd hw
  | set n k v pos =>
    simp only [Op.wfB, Bool.and_eq_true, decide_eq_true_eq] at hw
    exact inv_setParam hs n k v pos ⟨hw.1.1.1, hw.1.1.2, hw.1.2⟩ hw.2
  | addPre n t => exact inv_addPre hs n t
  | copyDeps c o => exact inv_copyDeps hs c o
  | mark r o => exact inv_markOutput hs r o
  | submit root inits outs =>
    simp only [HState.step]
    split
    · exact hs
    · exact inv_markOutputs root outs _ (inv_submit hs root inits)

theorem le_step (enc : Str → Str) (s : HState) (op : Op) : s.g.Le (s.step enc op).g := by
  cases op with
  | construct nd => exact le_construct s.g nd
  | set n k v pos => exact le_setParam s.g n k v pos
  | addPre n t => exact le_addPre s.g n t
  | copyDeps c o => exact le_copyDeps s.g c o
  | mark r o => exact le_markOutput s.g r o
  | submit root inits outs =>
    simp only [HState.step]
    split
    · exact Graph.Le.refl _
    · exact (le_submit enc s.g root inits).trans (le_markOutputs root outs _)

theorem exec_cons (enc : Str → Str) (s : HState) (op : Op) (ops : List Op) :
    Hist.exec enc s (op :: ops) = Hist.exec enc (s.step enc op) ops := rfl

theorem exec_append (enc : Str → Str) (s : HState) (ops more : List Op) :
    Hist.exec enc s (ops ++ more) = Hist.exec enc (Hist.exec enc s ops) more := by
  simp [Hist.exec, List.foldl_append]

theorem le_exec (enc : Str → Str) : ∀ (ops : List Op) (s : HState), s.g.Le (Hist.exec enc s ops).g
  | [], _ => Graph.Le.refl _
  | op :: ops, s => (le_step enc s op).trans (le_exec enc ops _)

/-- what a step adds to the log: entries of objects that were unsealed, tagged by the submitted task. -/
theorem step_paths (enc : Str → Str) (s : HState) (op : Op) :
    ∃ new, (s.step enc op).paths = s.paths ++ new
      ∧ ∀ x ∈ new, ∃ nd, s.g.node x.2.node = some nd ∧ nd.isSealed = false := by
  cases op with
  | submit root inits outs =>
    simp only [HState.step]
    split
    · exact ⟨[], by simp, by simp⟩
    · refine ⟨_, rfl, ?_⟩
      intro x hx
      obtain ⟨e, he, rfl⟩ := List.mem_map.mp hx
      exact submit_entries_unsealed enc s.g root inits e he
  | construct nd => exact ⟨[], by simp [HState.step], by simp⟩
  | set n k v pos => exact ⟨[], by simp [HState.step], by simp⟩
  | addPre n t => exact ⟨[], by simp [HState.step], by simp⟩
  | copyDeps c o => exact ⟨[], by simp [HState.step], by simp⟩
  | mark r o => exact ⟨[], by simp [HState.step], by simp⟩

/-- the log only grows, and never by an entry of an object that was already sealed. -/
theorem exec_paths (enc : Str → Str) : ∀ (ops : List Op) (s : HState),
    ∃ new, (Hist.exec enc s ops).paths = s.paths ++ new
      ∧ ∀ x ∈ new, ¬ ∃ nd, s.g.node x.2.node = some nd ∧ nd.isSealed = true
  | [], s => ⟨[], by simp [Hist.exec], by simp⟩
  | op :: ops, s => by
    obtain ⟨new1, e1, h1⟩ := step_paths enc s op
    obtain ⟨new2, e2, h2⟩ := exec_paths enc ops (s.step enc op)
    refine ⟨new1 ++ new2, by rw [exec_cons, e2, e1, List.append_assoc], ?_⟩
    intro x hx
    rcases List.mem_append.mp hx with hx | hx
    · rintro ⟨nd, a, b⟩
      obtain ⟨nd', a', b'⟩ := h1 x hx
      rw [a] at a'
      cases a'
      rw [b] at b'
      cases b'
    · rintro ⟨nd, a, b⟩
      obtain ⟨nd', a', b'⟩ := le_step enc s op _ nd a
      exact h2 x hx ⟨nd', a', b' b⟩

/-! #### the generated-path attribute of an object -/

theorem pathOf_append_some {g g' : Graph} {j j' : List NodeId} {l new : List (NodeId × Entry)} {n : NodeId} {a : Str}
    {x : NodeId × PPath}
    (h : (HState.mk g l j).pathOf n a = some x) : (HState.mk g' (l ++ new) j').pathOf n a = some x := by
  simp only [HState.pathOf, List.find?_append] at h ⊢
  cases hf : l.find? (fun x => x.2.node == n && x.2.arg == a) with
  | none => simp [hf] at h
  | some y => simpa [hf] using h

theorem pathOf_append_none {g g' : Graph} {j j' : List NodeId} {l new : List (NodeId × Entry)} {n : NodeId} {a : Str}
    (h : ∀ x ∈ new, x.2.node ≠ n) : (HState.mk g' (l ++ new) j').pathOf n a = (HState.mk g l j).pathOf n a := by
  simp only [HState.pathOf, List.find?_append]
  have : new.find? (fun x => x.2.node == n && x.2.arg == a) = none := by
    rw [List.find?_eq_none]
    intro x hx
    simp [h x hx]
  rw [this, Option.or_none]

/-- an assigned attribute keeps its value for ever. -/
theorem pathOf_stable (enc : Str → Str) (s : HState) (ops : List Op) (n : NodeId) (a : Str) (x : NodeId × PPath)
    (h : s.pathOf n a = some x) : (Hist.exec enc s ops).pathOf n a = some x := by
  obtain ⟨new, e, _⟩ := exec_paths enc ops s
  have : Hist.exec enc s ops = ⟨(Hist.exec enc s ops).g, s.paths ++ new, (Hist.exec enc s ops).jobs⟩ := by rw [← e]
  rw [this]
  exact pathOf_append_some (g := s.g) (j := s.jobs) h

/-- the attributes of a sealed object are fixed (the assigned ones keep their value, no other one is
    ever assigned). -/
theorem pathOf_sealed (enc : Str → Str) (s : HState) (ops : List Op) (n : NodeId) (nd : Node) (a : Str)
    (hn : s.g.node n = some nd) (hs : nd.isSealed = true) : (Hist.exec enc s ops).pathOf n a = s.pathOf n a := by
  obtain ⟨new, e, h⟩ := exec_paths enc ops s
  have : Hist.exec enc s ops = ⟨(Hist.exec enc s ops).g, s.paths ++ new, (Hist.exec enc s ops).jobs⟩ := by rw [← e]
  rw [this]
  exact pathOf_append_none (g := s.g) (j := s.jobs) (fun x hx hxn => h x hx ⟨nd, hxn ▸ hn, hs⟩)

/-! #### invariants of the log -/

structure HState.LInv (enc : Str → Str) (s : HState) : Prop where
  inv : s.g.Inv enc
  /-- the owner of a generated path is sealed -/
  nodeSealed : ∀ x ∈ s.paths, ∃ nd, s.g.node x.2.node = some nd ∧ nd.isSealed = true
  /-- so is the task whose job directory the path is relative to -/
  tagSealed : ∀ x ∈ s.paths, ∃ nr, s.g.node x.1 = some nr ∧ nr.isSealed = true
  /-- and that task was submitted -/
  tagJob : ∀ x ∈ s.paths, x.1 ∈ s.jobs
  /-- an attribute is assigned at most once in the whole history -/
  once : (s.paths.map (fun x => (x.2.node, x.2.arg))).Nodup
  shape : ∀ x ∈ s.paths, (∀ k ∈ x.2.keys, Plain k) ∧ Plain x.2.file ∧ x.2.path = ⟨false, base x.2.keys ++ [x.2.file]⟩
  /-- within one job directory, equal paths belong to the same object and file name -/
  inj : ∀ x ∈ s.paths, ∀ y ∈ s.paths, x.1 = y.1 → x.2.path = y.2.path → x.2.node = y.2.node ∧ x.2.file = y.2.file

theorem linv_init {enc : Str → Str} {g : Graph} (h : g.Init enc) : (HState.mk g [] []).LInv enc :=
  ⟨inv_of_init h, by simp, by simp, by simp, by simp, by simp, by simp⟩

theorem linv_same_paths {enc : Str → Str} {s s' : HState} (h : s.LInv enc) (hp : s'.paths = s.paths)
    (hj : s'.jobs = s.jobs) (hle : s.g.Le s'.g) (hi : s'.g.Inv enc) : s'.LInv enc := by
  refine ⟨hi, ?_, ?_, hp ▸ hj ▸ h.tagJob, hp ▸ h.once, hp ▸ h.shape, hp ▸ h.inj⟩
  · intro x hx
    obtain ⟨nd, a, b⟩ := h.nodeSealed x (hp ▸ hx)
    obtain ⟨nd', a', b'⟩ := hle _ nd a
    exact ⟨nd', a', b' b⟩
  · intro x hx
    obtain ⟨nd, a, b⟩ := h.tagSealed x (hp ▸ hx)
    obtain ⟨nd', a', b'⟩ := hle _ nd a
    exact ⟨nd', a', b' b⟩

theorem step_submit_rejected (enc : Str → Str) (s : HState) (root : NodeId) (inits outs : List NodeId)
    (h : root ∈ s.jobs ∨ s.g.node root = none) : s.step enc (.submit root inits outs) = s := by
  simp only [HState.step, h, if_true]

theorem step_submit_accepted (enc : Str → Str) (s : HState) (root : NodeId) (inits outs : List NodeId)
    (h : ¬ (root ∈ s.jobs ∨ s.g.node root = none)) : s.step enc (.submit root inits outs) =
      { g := markOutputs (submit enc s.g root inits).1 root outs
        paths := s.paths ++ (submit enc s.g root inits).2.map (fun e => (root, e))
        jobs := root :: s.jobs } := by
  simp only [HState.step, h, if_false]

/-- what a `submit` step adds to the log. -/
theorem step_submit_paths (enc : Str → Str) (s : HState) (root : NodeId) (inits outs : List NodeId) :
    ∃ new, (s.step enc (.submit root inits outs)).paths = s.paths ++ new
      ∧ (∀ x ∈ new, x.1 = root ∧ x.2 ∈ (submit enc s.g root inits).2)
      ∧ (¬ (root ∈ s.jobs ∨ s.g.node root = none) → new = (submit enc s.g root inits).2.map (fun e => (root, e))) := by
  by_cases hgd : root ∈ s.jobs ∨ s.g.node root = none
  · rw [step_submit_rejected enc s root inits outs hgd]
    exact ⟨[], by simp, by simp, fun h => absurd hgd h⟩
  · rw [step_submit_accepted enc s root inits outs hgd]
    refine ⟨_, rfl, ?_, fun _ => rfl⟩
    intro x hx
    obtain ⟨e, he, rfl⟩ := List.mem_map.mp hx
    exact ⟨rfl, he⟩

theorem linv_step {enc : Str → Str} {s : HState} (h : s.LInv enc) (op : Op) (hw : op.wfB enc = true) :
    (s.step enc op).LInv enc := by
  have hi := inv_step h.inv op hw
  have hle := le_step enc s op
  cases op with
  | construct nd => exact linv_same_paths h rfl rfl hle hi
  | set n k v pos => exact linv_same_paths h rfl rfl hle hi
  | addPre n t => exact linv_same_paths h rfl rfl hle hi
  | copyDeps c o => exact linv_same_paths h rfl rfl hle hi
  | mark r o => exact linv_same_paths h rfl rfl hle hi
  | submit root inits outs =>
    by_cases hgd : root ∈ s.jobs ∨ s.g.node root = none
    · rw [step_submit_rejected enc s root inits outs hgd]; exact h
    rw [step_submit_accepted enc s root inits outs hgd] at hi hle ⊢
    have hjob : root ∉ s.jobs := fun hj => hgd (Or.inl hj)
    obtain ⟨nr, hr⟩ : ∃ nr, s.g.node root = some nr := by
      cases hn : s.g.node root with
      | none => exact absurd (Or.inr hn) hgd
      | some nr => exact ⟨nr, rfl⟩
    have hle2 : (submit enc s.g root inits).1.Le (markOutputs (submit enc s.g root inits).1 root outs) :=
      le_markOutputs root outs _
    have hok : (withInits s.g root inits).OK enc := (inv_withInits h.inv root inits).ok
    have hwalk := submitSealed_ok enc _ hok root
    -- the new entries
    have hnew : ∀ x ∈ (submit enc s.g root inits).2.map (fun e => (root, e)),
        x.1 = root ∧ x.2 ∈ submitPaths enc (withInits s.g root inits) root
          ∧ (∃ nd, s.g.node x.2.node = some nd ∧ nd.isSealed = false) := by
      intro x hx
      obtain ⟨e, he, rfl⟩ := List.mem_map.mp hx
      exact ⟨rfl, he, submit_entries_unsealed enc s.g root inits e he⟩
    refine ⟨hi, ?_, ?_, ?_, ?_, ?_, ?_⟩
    · intro x hx
      rcases List.mem_append.mp hx with hx | hx
      · obtain ⟨nd, a, b⟩ := h.nodeSealed x hx
        obtain ⟨nd', a', b'⟩ := hle _ nd a
        exact ⟨nd', a', b' b⟩
      · obtain ⟨e, he, rfl⟩ := List.mem_map.mp hx
        obtain ⟨nd, a, b⟩ := submit_entries_sealed enc s.g root inits e he
        obtain ⟨nd', a', b'⟩ := hle2 _ nd a
        exact ⟨nd', a', b' b⟩
    · intro x hx
      rcases List.mem_append.mp hx with hx | hx
      · obtain ⟨nd, a, b⟩ := h.tagSealed x hx
        obtain ⟨nd', a', b'⟩ := hle _ nd a
        exact ⟨nd', a', b' b⟩
      · obtain ⟨hx1, _, _⟩ := hnew x hx
        obtain ⟨nd, a, b⟩ := submit_root_sealed enc s.g root inits nr hr
        obtain ⟨nd', a', b'⟩ := hle2 _ nd a
        exact ⟨nd', hx1 ▸ a', b' b⟩
    · intro x hx
      rcases List.mem_append.mp hx with hx | hx
      · exact List.mem_cons_of_mem _ (h.tagJob x hx)
      · rw [(hnew x hx).1]; exact List.mem_cons_self
    · show ((s.paths ++ (submit enc s.g root inits).2.map (fun e => (root, e))).map (fun x => (x.2.node, x.2.arg))).Nodup
      rw [List.map_append, List.nodup_append]
      refine ⟨h.once, ?_, ?_⟩
      · rw [List.map_map]
        exact entries_params_nodup enc _ hok _ hwalk.nodes
      · intro a ha b hb e
        obtain ⟨x, hx, rfl⟩ := List.mem_map.mp ha
        obtain ⟨y, hy, rfl⟩ := List.mem_map.mp hb
        obtain ⟨nd, a1, b1⟩ := h.nodeSealed x hx
        obtain ⟨_, _, nd', a2, b2⟩ := hnew y hy
        have hn : x.2.node = y.2.node := (Prod.mk.inj e).1
        rw [hn, a2] at a1
        cases a1
        rw [b1] at b2
        cases b2
    · intro x hx
      rcases List.mem_append.mp hx with hx | hx
      · exact h.shape x hx
      · exact entries_shape enc _ hok _ hwalk x.2 (hnew x hx).2.1
    · intro x hx y hy hxy hp
      -- no earlier entry is relative to the job directory of `root`: `root` was not submitted before
      have hclash : ∀ x ∈ s.paths, ∀ y ∈ (submit enc s.g root inits).2.map (fun e => (root, e)), x.1 = y.1 → False := by
        intro x hx y hy hxy
        exact hjob ((hnew y hy).1 ▸ hxy ▸ h.tagJob x hx)
      rcases List.mem_append.mp hx with hx | hx <;> rcases List.mem_append.mp hy with hy | hy
      · exact h.inj x hx y hy hxy hp
      · exact (hclash x hx y hy hxy).elim
      · exact (hclash y hy x hx hxy.symm).elim
      · obtain ⟨a, b, _⟩ := entries_inj enc _ hok _ hwalk x.2 y.2 (hnew x hx).2.1 (hnew y hy).2.1 hp
        exact ⟨a, b⟩

theorem linv_exec {enc : Str → Str} : ∀ (ops : List Op) (s : HState), s.LInv enc → Hist.WF enc ops →
    (Hist.exec enc s ops).LInv enc
  | [], _, h, _ => h
  | op :: ops, s, h, hw => by
    obtain ⟨h1, h2⟩ := wf_cons hw
    exact linv_exec ops _ (linv_step h op h1) h2

theorem linv_hist {enc : Str → Str} {g0 : Graph} (hi : g0.Init enc) {ops : List Op} (hw : Hist.WF enc ops) :
    (Hist.exec enc ⟨g0, [], []⟩ ops).LInv enc := linv_exec ops _ (linv_init hi) hw

/-! ### F. with the repaired key encoder nothing is asked of the content of dict keys -/

theorem nodeOK_escape {nd : Node} (h : nodeOKany nd = true) : nodeOK escapeKey nd = true := by
  simp only [nodeOKany, Bool.and_eq_true, List.all_eq_true] at h
  simp only [nodeOK, Bool.and_eq_true, List.all_eq_true]
  obtain ⟨⟨⟨⟨a, b⟩, c⟩, d⟩, e⟩ := h
  exact ⟨⟨⟨⟨a, b⟩, fun x hx => valOK_escape _ (c x hx)⟩, d⟩, e⟩

theorem wf_escape {ops : List Op} (h : Hist.WFany ops) : Hist.WF escapeKey ops := by
  simp only [Hist.WFany, Hist.WF, Hist.wfB, List.all_eq_true] at h ⊢
  intro op hop
  have := h op hop
  cases op with
  | construct nd => exact nodeOK_escape this
  | set n k v pos =>
    simp only [Op.wfAnyB, Bool.and_eq_true] at this
    simp only [Op.wfB, Bool.and_eq_true]
    exact ⟨this.1, valOK_escape v this.2⟩
  | addPre n t => rfl
  | copyDeps c o => rfl
  | mark r o => rfl
  | submit root inits outs => rfl

theorem init_escape {g : Graph} (h : g.initAnyB = true) : g.Init escapeKey := by
  simp only [Graph.initAnyB, Graph.Init, Graph.initB, List.all_eq_true, Bool.and_eq_true] at h ⊢
  intro nd hnd
  obtain ⟨⟨a, b⟩, c⟩ := h nd hnd
  exact ⟨⟨nodeOK_escape a, b⟩, c⟩

/-! ### G. the same history on the same configuration built again -/

theorem same_setAt {σ : NodeId → NodeId} {g g' : Graph} (hs : Graph.Same σ g g') (i : NodeId) (f f' : Node → Node)
    (hf : ∀ nd, g.node i = some nd → Node.rename σ (f nd) = f' (Node.rename σ nd)) :
    Graph.Same σ ⟨setAt g.nodes i f⟩ ⟨setAt g'.nodes (σ i) f'⟩ where
  inj := hs.inj
  len := by simp only [setAt_length]; exact hs.len
  node := by
    intro n
    rw [node_setAt, node_setAt]
    by_cases hn : n = i
    · subst hn
      rw [if_pos rfl, if_pos rfl, hs.node]
      cases hg : g.node n with
      | none => rfl
      | some nd => simp only [Option.map_some, hf nd hg]
    · have : σ n ≠ σ i := fun e => hn (hs.inj _ _ e)
      rw [if_neg hn, if_neg this, hs.node]

theorem le_length {g g' : Graph} (h : g.Le g') : g.nodes.length ≤ g'.nodes.length := by
  apply Nat.le_of_not_lt
  intro hlt
  have h1 : g.node g'.nodes.length = some g.nodes[g'.nodes.length] := List.getElem?_eq_getElem hlt
  obtain ⟨nd', a, _⟩ := h _ _ h1
  exact absurd (node_lt a) (Nat.lt_irrefl _)

theorem same_construct {σ : NodeId → NodeId} {g g' : Graph} (hs : Graph.Same σ g g')
    (hfix : ∀ n, g.nodes.length ≤ n → σ n = n) (nd : Node) :
    Graph.Same σ (construct g nd) (construct g' (nd.rename σ)) where
  inj := hs.inj
  len := by simp [construct, hs.len]
  node := by
    intro n
    rw [node_construct, node_construct, hs.len]
    by_cases h : n < g.nodes.length
    · have h1 : g.node n = some g.nodes[n] := List.getElem?_eq_getElem h
      have h2 := hs.node n
      rw [h1] at h2
      have h3 := node_lt h2
      rw [hs.len] at h3
      rw [if_pos h, if_pos h3, hs.node]
    · have hσ := hfix n (Nat.le_of_not_lt h)
      rw [hσ, if_neg h, if_neg h]
      by_cases h2 : n = g.nodes.length
      · rw [if_pos h2, if_pos h2]
        rfl
      · rw [if_neg h2, if_neg h2]
        rfl

theorem setArgs_rename (σ : NodeId → NodeId) (args : List (Str × Val)) (k : Str) (v : Val) (pos : Nat) :
    (setArgs args k v pos).map (fun a => (a.1, a.2.rename σ))
      = setArgs (args.map (fun a => (a.1, a.2.rename σ))) k (v.rename σ) pos := by
  unfold setArgs
  have hm : (args.map (fun a => (a.1, a.2.rename σ))).map Prod.fst = args.map Prod.fst := by
    rw [List.map_map]; rfl
  rw [hm]
  by_cases hin : k ∈ args.map Prod.fst
  · simp only [hin, if_true, List.map_map]
    apply List.map_congr_left
    intro a _
    simp only [Function.comp]
    split <;> rfl
  · simp only [hin, if_false, List.map_append, List.map_cons, List.map_take, List.map_drop]

theorem same_setParam {σ : NodeId → NodeId} {g g' : Graph} (hs : Graph.Same σ g g') (n : NodeId) (k : Str) (v : Val) (pos : Nat) :
    Graph.Same σ (setParam g n k v pos) (setParam g' (σ n) k (v.rename σ) pos) := by
  apply same_setAt hs
  intro nd _
  have h1 : (nd.rename σ).isSealed = nd.isSealed := rfl
  have h2 : (nd.rename σ).gens = nd.gens := rfl
  rw [h1, h2]
  split
  · rfl
  · simp only [Node.rename, setArgs_rename]

theorem same_addPre {σ : NodeId → NodeId} {g g' : Graph} (hs : Graph.Same σ g g') (n t : NodeId) :
    Graph.Same σ (addPre g n t) (addPre g' (σ n) (σ t)) := by
  apply same_setAt hs
  intro nd _
  have h1 : (nd.rename σ).isSealed = nd.isSealed := rfl
  rw [h1]
  split
  · rfl
  · simp [Node.rename]

theorem same_copyDeps {σ : NodeId → NodeId} {g g' : Graph} (hs : Graph.Same σ g g') (c o : NodeId) :
    Graph.Same σ (copyDeps g c o) (copyDeps g' (σ c) (σ o)) := by
  unfold copyDeps
  rw [hs.node o]
  cases ho : g.node o with
  | none => exact hs
  | some no =>
    simp only [Option.map_some]
    have ht : (no.rename σ).task = no.task.map σ := rfl
    rw [ht]
    cases no.task with
    | none => exact hs
    | some t => exact same_setAt hs c _ _ (fun _ _ => rfl)

theorem same_markOutput {σ : NodeId → NodeId} {g g' : Graph} (hs : Graph.Same σ g g') (r o : NodeId) :
    Graph.Same σ (markOutput g r o) (markOutput g' (σ r) (σ o)) := by
  unfold markOutput
  rw [hs.node r]
  cases hr : g.node r with
  | none => exact hs
  | some nr =>
    simp only [Option.map_some]
    have h1 : (nr.rename σ).isSealed = nr.isSealed := rfl
    rw [h1]
    split
    · exact same_setAt hs o _ _ (fun _ _ => rfl)
    · exact hs

theorem same_markOutputs {σ : NodeId → NodeId} (r : NodeId) : ∀ (outs : List NodeId) (g g' : Graph), Graph.Same σ g g' →
    Graph.Same σ (markOutputs g r outs) (markOutputs g' (σ r) (outs.map σ))
  | [], _, _, hs => hs
  | o :: outs, _, _, hs => same_markOutputs r outs _ _ (same_markOutput hs r o)

theorem same_sealList {σ : NodeId → NodeId} : ∀ (s : List (NodeId × List Str)) (ns ns' : List Node),
    Graph.Same σ ⟨ns⟩ ⟨ns'⟩ → Graph.Same σ ⟨sealList ns s⟩ ⟨sealList ns' (s.map (fun e => (σ e.1, e.2)))⟩
  | [], _, _, hs => hs
  | e :: s, ns, ns', hs => by
    have h1 : sealList ns (e :: s) = sealList (setAt ns e.1 (fun nd => { nd with isSealed := true })) s := rfl
    have h2 : sealList ns' ((e :: s).map (fun e => (σ e.1, e.2)))
        = sealList (setAt ns' (σ e.1) (fun nd => { nd with isSealed := true })) (s.map (fun e => (σ e.1, e.2))) := rfl
    rw [h1, h2]
    exact same_sealList s _ _ (same_setAt hs e.1 _ _ (fun _ _ => rfl))

theorem same_submit (enc : Str → Str) {σ : NodeId → NodeId} {g g' : Graph} (hs : Graph.Same σ g g') (root : NodeId)
    (inits : List NodeId) :
    Graph.Same σ (submit enc g root inits).1 (submit enc g' (σ root) (inits.map σ)).1
      ∧ (submit enc g' (σ root) (inits.map σ)).2 = (submit enc g root inits).2.map (Entry.rename σ) := by
  have h1 : Graph.Same σ (withInits g root inits) (withInits g' (σ root) (inits.map σ)) :=
    same_setAt hs root _ _ (fun _ _ => rfl)
  refine ⟨?_, ?_⟩
  · rw [submit_fst, submit_fst, submitSealed_rename enc σ _ _ h1]
    exact same_setAt (same_sealList _ _ _ h1) root _ _ (fun _ _ => rfl)
  · rw [submit_snd, submit_snd]
    exact submitPaths_rename enc σ _ _ h1 root

/-- two states that are the same configuration up to the renaming `σ` of objects, `σ` fixing every
    identity not yet allocated (so that both sides allocate the same new objects). -/
structure Sim (σ : NodeId → NodeId) (s s' : HState) : Prop where
  same : Graph.Same σ s.g s'.g
  fix : ∀ n, s.g.nodes.length ≤ n → σ n = n
  paths : s'.paths = s.paths.map (fun x => (σ x.1, x.2.rename σ))
  jobs : s'.jobs = s.jobs.map σ

theorem sim_step (enc : Str → Str) {σ : NodeId → NodeId} {s s' : HState} (h : Sim σ s s') (op : Op) :
    Sim σ (s.step enc op) (s'.step enc (op.rename σ)) := by
  have hfix : ∀ n, (s.step enc op).g.nodes.length ≤ n → σ n = n :=
    fun n hn => h.fix n (Nat.le_trans (le_length (le_step enc s op)) hn)
  cases op with
  | construct nd => exact ⟨same_construct h.same h.fix nd, hfix, h.paths, h.jobs⟩
  | set n k v pos => exact ⟨same_setParam h.same n k v pos, hfix, h.paths, h.jobs⟩
  | addPre n t => exact ⟨same_addPre h.same n t, hfix, h.paths, h.jobs⟩
  | copyDeps c o => exact ⟨same_copyDeps h.same c o, hfix, h.paths, h.jobs⟩
  | mark r o => exact ⟨same_markOutput h.same r o, hfix, h.paths, h.jobs⟩
  | submit root inits outs =>
    -- the guard ("already submitted" / unknown object) gives the same answer on both sides
    have hguard : (σ root ∈ s'.jobs ∨ s'.g.node (σ root) = none) ↔ (root ∈ s.jobs ∨ s.g.node root = none) := by
      rw [h.jobs, h.same.node root]
      constructor
      · rintro (hm | hn)
        · obtain ⟨a, ha, e⟩ := List.mem_map.mp hm
          exact Or.inl (h.same.inj _ _ e ▸ ha)
        · cases hg : s.g.node root with
          | none => exact Or.inr rfl
          | some nd => simp [hg] at hn
      · rintro (hm | hn)
        · exact Or.inl (List.mem_map_of_mem hm)
        · exact Or.inr (by simp [hn])
    by_cases hgd : root ∈ s.jobs ∨ s.g.node root = none
    · have e1 : s.step enc (.submit root inits outs) = s := step_submit_rejected enc s root inits outs hgd
      have e2 : s'.step enc ((Op.submit root inits outs).rename σ) = s' :=
        step_submit_rejected enc s' (σ root) (inits.map σ) (outs.map σ) (hguard.mpr hgd)
      rw [e1, e2]
      exact h
    · have e1 := step_submit_accepted enc s root inits outs hgd
      have e2 : s'.step enc ((Op.submit root inits outs).rename σ) = _ :=
        step_submit_accepted enc s' (σ root) (inits.map σ) (outs.map σ) (fun hc => hgd (hguard.mp hc))
      rw [e1] at hfix
      rw [e1, e2]
      obtain ⟨a, b⟩ := same_submit enc h.same root inits
      refine ⟨same_markOutputs root outs _ _ a, hfix, ?_, ?_⟩
      · show s'.paths ++ (submit enc s'.g (σ root) (inits.map σ)).2.map (fun e => (σ root, e))
          = (s.paths ++ (submit enc s.g root inits).2.map (fun e => (root, e))).map (fun x => (σ x.1, x.2.rename σ))
        rw [h.paths, b, List.map_append, List.map_map, List.map_map]
        rfl
      · show σ root :: s'.jobs = (root :: s.jobs).map σ
        rw [h.jobs]
        rfl

theorem sim_exec (enc : Str → Str) {σ : NodeId → NodeId} : ∀ (ops : List Op) (s s' : HState), Sim σ s s' →
    Sim σ (Hist.exec enc s ops) (Hist.exec enc s' (ops.map (Op.rename σ)))
  | [], _, _, h => h
  | op :: ops, _, _, h => sim_exec enc ops _ _ (sim_step enc h op)

theorem pathOf_rename {σ : NodeId → NodeId} (hinj : ∀ a b, σ a = σ b → a = b) (g g' : Graph) (j j' : List NodeId)
    (l : List (NodeId × Entry)) (n : NodeId) (a : Str) :
    (HState.mk g' (l.map (fun x => (σ x.1, x.2.rename σ))) j').pathOf (σ n) a
      = ((HState.mk g l j).pathOf n a).map (fun x => (σ x.1, x.2)) := by
  simp only [HState.pathOf]
  induction l with
  | nil => rfl
  | cons x l ih =>
    simp only [List.map_cons, List.find?_cons]
    have hc : ((Entry.rename σ x.2).node == σ n && (Entry.rename σ x.2).arg == a) = (x.2.node == n && x.2.arg == a) := by
      have : ((Entry.rename σ x.2).node == σ n) = (x.2.node == n) := by
        show (σ x.2.node == σ n) = (x.2.node == n)
        by_cases e : x.2.node = n
        · rw [e]; simp
        · have : σ x.2.node ≠ σ n := fun e' => e (hinj _ _ e')
          rw [beq_false_of_ne this, beq_false_of_ne e]
      rw [this]
      rfl
    rw [hc]
    cases (x.2.node == n && x.2.arg == a) with
    | true => rfl
    | false => exact ih

end XpmVerif.GenPath
