import XpmVerif.Model.Ident
/-! Sorting lemmas: `sortBy` is a permutation, sorted, and therefore independent of the input order
    when the order is total, transitive and antisymmetric on the elements. -/
namespace XpmVerif.Ident
open List

theorem insertBy_perm {α : Type} (le : α → α → Bool) (x : α) (l : List α) : insertBy le x l ~ x :: l := by
  induction l with
  | nil => simp [insertBy]
  | cons y ys ih =>
    simp only [insertBy]
    split
    · exact (Perm.cons y ih).trans (Perm.swap x y ys)
    · exact Perm.refl _

theorem sortBy_perm {α : Type} (le : α → α → Bool) (l : List α) : sortBy le l ~ l := by
  induction l with
  | nil => simp [sortBy]
  | cons x xs ih =>
    simp only [sortBy, foldr_cons] at *
    exact (insertBy_perm le x _).trans (Perm.cons x ih)

theorem insertBy_pairwise {α : Type} (le : α → α → Bool)
    (total : ∀ a b, le a b = true ∨ le b a = true)
    (trans : ∀ a b c, le a b = true → le b c = true → le a c = true)
    (x : α) (l : List α) (h : l.Pairwise (fun a b => le a b = true)) :
    (insertBy le x l).Pairwise (fun a b => le a b = true) := by
  induction l with
  | nil => simp [insertBy]
  | cons y ys ih =>
    simp only [insertBy]
    have hy := (pairwise_cons.mp h)
    split
    · rename_i hle
      refine pairwise_cons.mpr ⟨?_, ih hy.2⟩
      intro z hz
      have := (insertBy_perm le x ys).subset hz
      simp only [mem_cons] at this
      rcases this with rfl | hz'
      · exact hle
      · exact hy.1 z hz'
    · rename_i hle
      have hxy : le x y = true := by
        rcases total x y with h1 | h1
        · exact h1
        · exact absurd h1 hle
      refine pairwise_cons.mpr ⟨?_, h⟩
      intro z hz
      simp only [mem_cons] at hz
      rcases hz with rfl | hz
      · exact hxy
      · exact trans _ _ _ hxy (hy.1 z hz)

theorem sortBy_pairwise {α : Type} (le : α → α → Bool)
    (total : ∀ a b, le a b = true ∨ le b a = true)
    (trans : ∀ a b c, le a b = true → le b c = true → le a c = true)
    (l : List α) : (sortBy le l).Pairwise (fun a b => le a b = true) := by
  induction l with
  | nil => simp [sortBy]
  | cons x xs ih =>
    simp only [sortBy, foldr_cons] at *
    exact insertBy_pairwise le total trans x _ ih

/-- the sorted result does not depend on the order of the input. -/
theorem sortBy_eq_of_perm {α : Type} (le : α → α → Bool)
    (total : ∀ a b, le a b = true ∨ le b a = true)
    (trans : ∀ a b c, le a b = true → le b c = true → le a c = true)
    {l₁ l₂ : List α} (hp : l₁ ~ l₂)
    (antisymm : ∀ a b, a ∈ l₁ → b ∈ l₁ → le a b = true → le b a = true → a = b) :
    sortBy le l₁ = sortBy le l₂ := by
  apply Perm.eq_of_pairwise (le := fun a b => le a b = true)
  · intro a b ha hb h1 h2
    have ha' := (sortBy_perm le l₁).subset ha
    have hb' := hp.symm.subset ((sortBy_perm le l₂).subset hb)
    exact antisymm a b ha' hb' h1 h2
  · exact sortBy_pairwise le total trans l₁
  · exact sortBy_pairwise le total trans l₂
  · exact (sortBy_perm le l₁).trans (hp.trans (sortBy_perm le l₂).symm)

/-! `bytesLe` is a total order on byte strings. -/

theorem bytesLe_total : ∀ a b : List Nat, bytesLe a b = true ∨ bytesLe b a = true
  | [], _ => by simp [bytesLe]
  | _ :: _, [] => by simp [bytesLe]
  | a :: as, b :: bs => by
    simp only [bytesLe]
    have := bytesLe_total as bs
    by_cases h1 : a < b
    · simp [h1]
    · by_cases h2 : b < a
      · simp [h2]
      · simp [h1, h2]; exact this

theorem bytesLe_antisymm : ∀ a b : List Nat, bytesLe a b = true → bytesLe b a = true → a = b
  | [], [], _, _ => rfl
  | [], _ :: _, _, h => by simp [bytesLe] at h
  | _ :: _, [], h, _ => by simp [bytesLe] at h
  | a :: as, b :: bs, h1, h2 => by
    simp only [bytesLe] at h1 h2
    by_cases hab : a < b
    · have : ¬ b < a := by omega
      simp [hab, this] at h2
    · by_cases hba : b < a
      · simp [hab, hba] at h1
      · simp [hab, hba] at h1 h2
        have : a = b := by omega
        rw [this, bytesLe_antisymm as bs h1 h2]

theorem bytesLe_trans : ∀ a b c : List Nat, bytesLe a b = true → bytesLe b c = true → bytesLe a c = true
  | [], _, _, _, _ => by simp [bytesLe]
  | _ :: _, [], _, h, _ => by simp [bytesLe] at h
  | _ :: _, _ :: _, [], _, h => by simp [bytesLe] at h
  | a :: as, b :: bs, c :: cs, h1, h2 => by
    simp only [bytesLe] at h1 h2 ⊢
    by_cases hab : a < b
    · by_cases hbc : b < c
      · have : a < c := by omega
        simp [this]
      · by_cases hcb : c < b
        · simp [hbc, hcb] at h2
        · have : a < c := by omega
          simp [this]
    · by_cases hba : b < a
      · simp [hab, hba] at h1
      · have e : a = b := by omega
        subst e
        simp only [hab, if_false] at h1
        by_cases hbc : a < c
        · simp [hbc]
        · by_cases hcb : c < a
          · simp [hbc, hcb] at h2
          · simp only [hbc, hcb, if_false] at h2 ⊢
            exact bytesLe_trans as bs cs h1 h2

end XpmVerif.Ident
