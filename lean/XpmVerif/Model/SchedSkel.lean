import XpmVerif.Model.Sched
/-! The *control skeleton* of the two coroutines of the scheduler (`Scheduler.aio_submit`, `Scheduler.aio_start`): the sequence
    of segments between suspension points, as data.  `Generated/SchedSkeleton.lean` (harness/xv/translate/schedskeleton.py) is
    this data read off the Python AST on every run; `expected` is the skeleton `Model/Sched.lean` (`PC`, `St.loopHead`,
    `St.resume`, `St.finish`) was written after; `Properties/SchedSkeletonSrc.lean` proves both links. -/
namespace XpmVerif.SchedSkel
open XpmVerif.Sched

/-- how a segment ends: the coroutine is suspended on … -/
inductive Susp where
  | eventWait      -- `await job._readyEvent.wait()`
  | jobLockEnter   -- `async with job.launcher.connector.lock(job.lockpath)`: helper thread `__aenter__`
  | jobLockExit    -- end of that block (also by `return`): helper thread `__aexit__`
  | processWait    -- `await process.aio_code()`
  | doneHandler    -- `await asyncThreadcheck(…, job.done_handler)`
  | returnState    -- the coroutine returns
  deriving DecidableEq, Repr, Inhabited

inductive LinkTest where
  | isSymlink | exists | other
  deriving DecidableEq, Repr, Inhabited

inductive Ret where
  | waiting | error | jobState | startState
  deriving DecidableEq, Repr, Inhabited

/-- what a segment does, in source order (names of the translated decision functions of `Generated/SchedSrc.lean` and of the
    effects the model knows); structure markers keep the nesting. -/
inductive Act where
  | newEvent                    -- `job._readyEvent = asyncio.Event()`
  | unlinkIf (t : LinkTest)     -- `if path.<t>(): path.unlink()` (link of the job in the experiment folder)
  | symlink                     -- `path.symlink_to(…)`
  | symlinkIfNot (t : LinkTest) -- `if not path.<t>(): path.symlink_to(…)`
  | setState (s : JS)           -- `job.state = JobState.<s>`
  | submitDeps                  -- `Gen.submitDepsSrc`
  | markerTest                  -- `if job.donepath.exists(): job.state = DONE`
  | adoptProbe                  -- `process = await job.aio_process()` (does not suspend in the in-process model: no process)
  | adoptPath                   -- `if process is not None: …` (a job found running: model `Restart`)
  | loopBegin                   -- `while not job.state.finished():`
  | loopEnd
  | clearEvent                  -- `job._readyEvent.clear()`
  | ifState (s : JS)            -- `if job.state == JobState.<s>:`
  | ifFinished                  -- `if job.state.finished():`
  | endIf
  | startCall                   -- `state = await self.aio_start(job)`
  | afterStart                  -- `Gen.afterStartSrc`
  | recordFailure               -- `if job.state != DONE: failedJobs[identifier] = job`
  | decUnfinished               -- `self.xp.unfinishedJobs -= 1`
  | notifyExit                  -- `async with exitCondition: exitCondition.notify_all()`
  | wakeDependents              -- `for dependency in job.dependents: loop.call_soon(dependency.check)`
  | locksEnter                  -- `with Locks() as locks:`
  | locksExit                   -- end of that block: everything taken is given back
  | acquireLoop                 -- `for dependency in job.dependencies: locks.append(dependency.lock().acquire())`
  | releaseLocks                -- `locks.release()`
  | recheckDep                  -- `dependency.check()` on the dependency that refused its lock
  | launch                      -- `process = await job.aio_run()`
  | exitState                   -- `Gen.exitStateSrc`
  | ret (r : Ret)
  deriving DecidableEq, Repr, Inhabited

structure Seg where
  pc : PC            -- where the coroutine was suspended before this segment (`created`: not started yet)
  body : List Act
  next : Susp
  deriving DecidableEq, Repr, Inhabited

structure Skeleton where
  submit : List Seg   -- `aio_submit`
  start : List Seg    -- `aio_start`, the path on which every lock is taken
  abort : Seg         -- `aio_start`, the `except LockError` handler of the acquisition loop
  deriving DecidableEq, Repr, Inhabited

/-- the skeleton the model was written after. -/
def expected : Skeleton where
  submit := [
    { pc := .created,
      body := [.newEvent, .unlinkIf .isSymlink, .symlink, .setState .waiting, .submitDeps, .markerTest, .adoptProbe, .adoptPath,
               .markerTest, .loopBegin],
      next := .eventWait },
    { pc := .evtWait,
      body := [.clearEvent, .ifState .ready, .startCall, .afterStart, .endIf, .loopEnd, .recordFailure],
      next := .doneHandler },
    { pc := .doneHandler,
      body := [.decUnfinished, .notifyExit, .wakeDependents, .ret .jobState],
      next := .returnState } ]
  start := [
    { pc := .evtWait, body := [.locksEnter], next := .jobLockEnter },
    { pc := .lockEnter, body := [.acquireLoop, .launch], next := .jobLockExit },
    { pc := .lockExitRun, body := [], next := .processWait },
    { pc := .codeWait, body := [.exitState, .locksExit, .ret .startState], next := .returnState } ]
  abort := { pc := .lockEnter, body := [.releaseLocks, .recheckDep, .ret .waiting], next := .jobLockExit }

/-- the helper thread a suspension starts (none: the coroutine waits for an event of the loop itself, or returns). -/
def suspThread : Susp → Option TK
  | .jobLockEnter => some .lockEnter
  | .jobLockExit => some .lockExit
  | .processWait => some .code
  | .doneHandler => some .doneH
  | .eventWait => none
  | .returnState => none

/-- the segment a coroutine runs when it is resumed in `pc`. -/
def segAt (l : List Seg) (pc : PC) : Option Seg := l.find? (fun g => g.pc == pc)

end XpmVerif.SchedSkel
