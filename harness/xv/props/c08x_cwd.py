"""C08 (tokens across processes) — *who* a token file names: two real scheduler processes with different working directories
share one token directory (`$XPM_WORKDIR/tokens/<name>.counter`, real watchdog observers, real IPC lock, real job processes).

Process A (the holder) is started in `<root>/a` and names its workspace one of the ways the API and the command line allow
(absolute path, relative str/Path, WorkspaceSettings, find_workspace(workdir=…), find_workspace(workspace=<settings id>,
workdir=…), `run-experiment --workdir D`, `--workspace ID`, `--workspace ID --workdir D`); its job takes the whole token and
runs until the harness writes a `go` file.  Process B (the contender) is started in `<root>/b` once A's job runs, names its own
workspace its own way and asks the same token.  No race is involved: A's job cannot end before the verdict.

Monitors (C08's own statement, nothing else):
 * capacity — the weighted overlap of the task-side execution intervals (S/E lines written by the job processes themselves)
   never exceeds the total;
 * holder — the token file of a job is never deleted while the process it names is alive (the job process logged S, not E,
   and its pid is alive, sampled every 30 ms from the moment A's job runs).

Tie with the model (`Model/FileTokensNames.lean`, driver `Drive/FileTokensNames.lean`): the designation the real
`TokenFile.create` wrote (second line of the token file) is sent, with the working directories of A, B and the harness, to the
model's `resolvePath`; each process really resolves it the way `TokenFile.watch` does (`Path(uri).with_suffix(".pid")` from its
own cwd) and the answers are compared; the designation must be absolute (the hypothesis `DesignationsAbsolute` of
`C08Names.disk_capacity_named` / `running_capacity_named`)."""
import json
import os
import signal
import subprocess
import sys
import time
from concurrent.futures import ThreadPoolExecutor
from pathlib import Path

from .. import common

PROP = "C08"
MODULES = ["XpmVerif.Properties.C08Names"]
DRIVER = "FileTokensNames"
RULE = ("two-cwd scenario: real scheduler processes A (cwd <root>/a, holder) and B (cwd <root>/b, contender) on one token directory, "
        "token total 1-2, the workspace of each named one of 12 ways (API: absolute / relative str / relative Path / WorkspaceSettings / "
        "find_workspace(workdir) / find_workspace(settings id, workdir) ; command line: --workdir abs|rel, --workspace ID, --workspace ID "
        "--workdir abs|rel); A's job holds until the verdict; monitors: task-side interval overlap <= total, token file present while the "
        "process it names is alive; the written designation is resolved by the model and by each real process (differential)")

HOLDER_KINDS = ["api-abs", "api-rel-str", "api-rel-path", "api-settings-rel", "api-find-rel", "api-find-named-rel", "api-find-named-abs",
                "cli-workdir-abs", "cli-workdir-rel", "cli-named", "cli-named-rel", "cli-named-abs"]
CONTENDER_KINDS = ["api-abs", "api-rel-str", "api-find-named-rel", "cli-workdir-rel", "cli-named-rel", "cli-named-abs"]
# quick tier: the three relative designations that reach `Workspace` by three different routes + one absolute control
QUICK = [("cli-named-rel", "cli-named-abs", 1), ("api-find-named-rel", "api-rel-str", 1), ("api-rel-str", "cli-workdir-rel", 1),
         ("cli-workdir-rel", "api-abs", 2)]


def describe(kind, d="<D>"):
    return {
        "api-abs": "experiment(Path(<absolute path>), …)", "api-rel-str": f"experiment({d!r}, …)", "api-rel-path": f"experiment(Path({d!r}), …)",
        "api-settings-rel": f"experiment(WorkspaceSettings('w', Path({d!r})), …)", "api-find-rel": f"experiment(find_workspace(workdir={d!r}), …)",
        "api-find-named-rel": f"experiment(find_workspace(workspace=<id of settings.yaml>, workdir={d!r}), …)",
        "api-find-named-abs": "experiment(find_workspace(workspace=<id of settings.yaml>, workdir=<absolute path>), …)",
        "cli-workdir-abs": "run-experiment --workdir <absolute path>", "cli-workdir-rel": f"run-experiment --workdir {d}",
        "cli-named": "run-experiment --workspace <id of settings.yaml>", "cli-named-rel": f"run-experiment --workspace <id of settings.yaml> --workdir {d}",
        "cli-named-abs": "run-experiment --workspace <id of settings.yaml> --workdir <absolute path>",
    }[kind]


_TASKS_SRC = '''import os, time
from pathlib import Path
from experimaestro import Task, Param


class HoldGo(Task):
    """logs S, waits for the `go` file (at most `maxwait` s), logs E"""
    x: Param[int]
    count: Param[int]
    log: Param[Path]
    go: Param[Path]
    maxwait: Param[float]

    def execute(self):
        fd = os.open(str(self.log), os.O_WRONLY | os.O_APPEND | os.O_CREAT)
        os.write(fd, f"S {self.x} {self.count} {time.time()} {os.getpid()}\\n".encode())
        t0 = time.time()
        while not self.go.is_file() and time.time() - t0 < self.maxwait:
            time.sleep(0.03)
        os.write(fd, f"E {self.x} {self.count} {time.time()} {os.getpid()}\\n".encode())
        os.close(fd)
'''

# the experiment, through the API (one script, the way of naming the workspace is an argument)
_API_SRC = '''import sys, os, logging, json
from pathlib import Path
args = json.loads(sys.argv[1])
sys.path.insert(0, args["pkg"])
logging.basicConfig(level=logging.ERROR)
from experimaestro import experiment
from experimaestro.settings import WorkspaceSettings, find_workspace
from xvcwdpkg.tasks import HoldGo
how, d = args["how"], args["dir"]
env = {"api-abs": lambda: Path(d), "api-rel-str": lambda: d, "api-rel-path": lambda: Path(d),
       "api-settings-rel": lambda: WorkspaceSettings("w", Path(d)), "api-find-rel": lambda: find_workspace(workdir=d),
       "api-find-named-rel": lambda: find_workspace(workspace="main", workdir=d),
       "api-find-named-abs": lambda: find_workspace(workspace="main", workdir=d)}[how]()
with experiment(env, "cwd-" + args["who"], port=-1) as xp:
    xp.setenv("PYTHONPATH", os.pathsep.join([args["pkg"]] + ([os.environ["PYTHONPATH"]] if os.environ.get("PYTHONPATH") else [])))
    token = xp.token("cwdtok", args["total"])
    token(args["count"], HoldGo(x=args["x"], count=args["count"], log=Path(args["log"]), go=Path(args["go"]), maxwait=args["maxwait"])).submit()
    Path(args["marker"]).write_text(str(xp.workspace.path))
    xp.wait()
print("FINAL", flush=True)
'''

# the experiment, through `experimaestro run-experiment`
_CLI_SRC = '''import os
from pathlib import Path
from experimaestro.experiments import ExperimentHelper, configuration, ConfigurationBase
from xvcwdpkg.tasks import HoldGo


@configuration()
class Configuration(ConfigurationBase):
    x: int = 0
    count: int = 1
    total: int = 1
    log: str = ""
    go: str = ""
    marker: str = ""
    pkg: str = ""
    maxwait: float = 60.0


def run(helper: ExperimentHelper, cfg: Configuration):
    xp = helper.xp
    xp.setenv("PYTHONPATH", os.pathsep.join([cfg.pkg] + ([os.environ["PYTHONPATH"]] if os.environ.get("PYTHONPATH") else [])))
    token = xp.token("cwdtok", cfg.total)
    token(cfg.count, HoldGo(x=cfg.x, count=cfg.count, log=Path(cfg.log), go=Path(cfg.go), maxwait=cfg.maxwait)).submit()
    Path(cfg.marker).write_text(str(xp.workspace.path))
'''

# what `TokenFile.watch` does with the designation, from a given working directory (no experimaestro code involved: the
# question is only which file the path names there)
_RESOLVE_SRC = '''import sys, os, json
from pathlib import Path
uri, pidfiles = sys.argv[1], json.loads(sys.argv[2])
p = Path(uri).with_suffix(".pid")
hit = None
for name, f in pidfiles.items():
    # which job the path names: the directory it leads to and the file name in it (the job directory stays when the job has
    # ended, so the answer does not depend on when the question is asked)
    try:
        if p.name == os.path.basename(f) and p.parent.is_dir() and os.path.samefile(p.parent, os.path.dirname(f)):
            hit = name
    except OSError:
        pass
print(json.dumps({"absolute": Path(uri).is_absolute(), "job": hit}))
'''


def _setup(root):
    pkg = root / "pkg" / "xvcwdpkg"
    pkg.mkdir(parents=True, exist_ok=True)
    (pkg / "__init__.py").write_text("")
    (pkg / "tasks.py").write_text(_TASKS_SRC)
    (root / "api_main.py").write_text(_API_SRC)
    (root / "resolve_main.py").write_text(_RESOLVE_SRC)
    xpdir = root / "xp"
    xpdir.mkdir(exist_ok=True)
    (xpdir / "experiment.py").write_text(_CLI_SRC)


def _kill(p):
    if p.poll() is None:
        try:
            os.killpg(p.pid, signal.SIGKILL)
        except Exception:
            p.kill()
        p.wait()


def _pid_alive(pid):
    try:
        os.kill(pid, 0)
    except ProcessLookupError:
        return False
    except PermissionError:
        return True
    try:  # a zombie is not alive
        with open(f"/proc/{pid}/stat") as fp:
            return fp.read().rsplit(")", 1)[1].split()[0] != "Z"
    except OSError:
        return False


def _log_lines(logf):
    out = []
    if logf.exists():
        for line in logf.read_text().splitlines():
            parts = line.split()
            if len(parts) == 5:
                out.append((parts[0], int(parts[1]), int(parts[2]), float(parts[3]), int(parts[4])))
    return out


def _sweep(lines):
    evs = sorted((t, 0 if k == "E" else 1, x, c) for k, x, c, t, _ in lines)
    t0 = evs[0][0] if evs else 0.0
    held, who, worst, worst_who, worst_t = 0, set(), 0, [], 0.0
    for t, kind, x, c in evs:
        if kind == 1:
            held += c
            who.add(x)
            if held > worst:
                worst, worst_who, worst_t = held, sorted(who), round(t - t0, 2)
        else:
            held -= c
            who.discard(x)
    return {"max_held": worst, "together": worst_who, "at": worst_t,
            "intervals": [[x, round(t - t0, 2), "start" if kind else "end"] for t, kind, x, c in evs]}


def attempt(root, k, hkind, ckind, total, hold=3.0, startup=90.0):
    """one run of the scenario; returns the observation (pure data, replayable from (hkind, ckind, total))"""
    adir = root / f"v{k}"
    home = adir / "home"
    (home / ".config" / "experimaestro").mkdir(parents=True)
    (home / ".config" / "experimaestro" / "settings.yaml").write_text(f"workspaces:\n  - id: main\n    path: {adir / 'main-ws'}\n")
    logf, go = adir / "log.txt", adir / "go"
    env = dict(os.environ, HOME=str(home), XPM_WORKDIR=str(adir / "xpm"), PYTHONWARNINGS="ignore")
    env.pop("PYTEST_CURRENT_TEST", None)
    env.pop("XDG_CONFIG_HOME", None)
    tokdir = adir / "xpm" / "tokens" / "cwdtok.counter"
    procs = []
    obs = {"holder": hkind, "contender": ckind, "total": total}

    def launch(who, kind, x, count):
        cwd = adir / who
        cwd.mkdir(exist_ok=True)
        rel = f"ws-{who}"
        # the directory given to the process: relative to its cwd, absolute, or none (settings file)
        d = rel if kind.endswith("-rel") or kind in ("api-rel-str", "api-rel-path") else str(cwd / rel)
        wsdir = adir / "main-ws" if kind == "cli-named" else cwd / rel
        marker = adir / f"{who}.submitted"
        out = open(adir / f"{who}.out", "w")
        common_args = {"x": x, "count": count, "total": total, "log": str(logf), "go": str(go), "marker": str(marker),
                       "pkg": str(root / "pkg"), "maxwait": 600.0}
        if kind.startswith("api-"):
            cmd = [sys.executable, str(root / "api_main.py"), json.dumps(dict(common_args, how=kind, dir=d, who=who))]
        else:
            y = adir / f"{who}.yaml"
            y.write_text(f"id: cwd-{who}\nfile: experiment\npythonpath: [{str(root / 'pkg')!r}]\n"
                         + "".join(f"{kk}: {vv!r}\n" if isinstance(vv, str) else f"{kk}: {vv}\n" for kk, vv in common_args.items()))
            (adir / "experiment.py").exists() or (adir / "experiment.py").write_text((root / "xp" / "experiment.py").read_text())
            where = {"cli-workdir-abs": ["--workdir", d], "cli-workdir-rel": ["--workdir", d], "cli-named": ["--workspace", "main"],
                     "cli-named-rel": ["--workspace", "main", "--workdir", d], "cli-named-abs": ["--workspace", "main", "--workdir", d]}[kind]
            cmd = [sys.executable, "-m", "experimaestro", "run-experiment", *where, "--port", "-1", str(y)]
        p = subprocess.Popen(cmd, cwd=cwd, env=env, stdout=out, stderr=subprocess.STDOUT, start_new_session=True)
        procs.append(p)
        return p, cwd, wsdir, marker, (rel if d == rel else None)

    def started(x):
        return next((l for l in _log_lines(logf) if l[0] == "S" and l[1] == x), None)

    def ended(x):
        return any(l[0] == "E" and l[1] == x for l in _log_lines(logf))

    def wait_until(cond, seconds, watch=()):
        end = time.time() + seconds
        while time.time() < end:
            if cond():
                return True
            if any(p.poll() is not None for p in watch):
                return bool(cond())
            time.sleep(0.03)
        return bool(cond())

    try:
        pa, cwd_a, ws_a, marker_a, rel_a = launch("a", hkind, 1, total)
        obs["holder_designation"] = describe(hkind, rel_a or "<D>")
        if not wait_until(lambda: started(1), startup, [pa]):
            return dict(obs, failed="the holder's job did not start", tail=(adir / "a.out").read_text()[-400:])
        pid_a = started(1)[4]
        files = sorted(tokdir.glob("*.token"))
        if len(files) != 1:
            return dict(obs, failed=f"{len(files)} token files while exactly the holder's job runs")
        tokfile = files[0]
        try:
            count_line, uri = [l.strip() for l in tokfile.read_text().splitlines()]
        except Exception as e:
            return dict(obs, failed=f"unreadable token file: {e}")
        pidfile = Path(os.path.join(cwd_a, uri)).with_suffix(".pid")  # what the writer itself means by the designation
        obs.update(uri_is_absolute=os.path.isabs(uri), uri=uri.replace(str(adir), "<root>"), cwds={"a": str(cwd_a), "b": str(adir / "b"), "h": str(adir)},
                   pidfile=str(pidfile), writer_finds_pidfile=pidfile.is_file(), workspace_as_named=marker_a.read_text().replace(str(adir), "<root>") if marker_a.exists() else None)
        # --- how each process resolves the designation (the question `TokenFile.watch` asks), really, from its own cwd
        (adir / "b").mkdir(exist_ok=True)
        res = {}
        for who, cwd in (("a", cwd_a), ("b", adir / "b"), ("h", adir)):
            r = subprocess.run([sys.executable, str(root / "resolve_main.py"), uri, json.dumps({"A": str(pidfile)})], cwd=cwd,
                               capture_output=True, text=True, timeout=300)
            res[who] = json.loads(r.stdout.strip().splitlines()[-1])
        obs["resolved"] = res
        # --- the contender
        gone_at = {}

        def holder_sample():
            """token file of A's job missing while the process it names is alive"""
            if not gone_at and not tokfile.exists() and not ended(1) and _pid_alive(pid_a):
                time.sleep(0.05)  # the E line is written just before the process ends: look again
                if not ended(1) and _pid_alive(pid_a) and not tokfile.exists():
                    gone_at["t"] = time.time()
            return bool(gone_at)
        t_b = time.time()
        pb, cwd_b, ws_b, marker_b, rel_b = launch("b", ckind, 2, total)
        obs["contender_designation"] = describe(ckind, rel_b or "<D>")
        wait_until(lambda: marker_b.exists() or holder_sample(), startup, [pb])
        if not marker_b.exists() and not gone_at:
            return dict(obs, failed="the contender did not submit", tail=(adir / "b.out").read_text()[-400:])
        # B has built its CounterToken (it has seen A's token file) and submitted: from now on its job starts as soon as
        # the token looks free to it
        wait_until(lambda: started(2) or holder_sample(), hold, [pb])
        if gone_at and not started(2):
            wait_until(lambda: started(2), 10.0, [pb])  # the capacity overrun that follows
        obs["b_started_while_a_ran"] = bool(started(2)) and not ended(1) and _pid_alive(pid_a)
        obs["token_files_while_a_ran"] = sorted(f.name[:8] for f in tokdir.glob("*.token"))
        if gone_at:
            obs["holder_token_file_gone_after"] = round(gone_at["t"] - t_b, 2)
        go.write_text("go")
        done = wait_until(lambda: ended(1) and ended(2), startup, [])
        for p in (pa, pb):
            try:
                p.wait(timeout=20 if done else 1)
            except subprocess.TimeoutExpired:
                obs.setdefault("hung", []).append("a" if p is pa else "b")
        if not done:
            obs["unfinished"] = [x for x in (1, 2) if not ended(x)]
    finally:
        go.exists() or go.write_text("go")
        for p in procs:
            _kill(p)
    obs.update(_sweep(_log_lines(logf)))
    return obs


def start(ctx, prop, variants=None):
    """launch the runs of the scenario in background threads (they spend their time waiting for real processes); `finish`
    collects and judges them"""
    variants = variants or QUICK
    root = (Path(ctx.tmpdir()) / f"cwd-{prop}-{len(getattr(ctx, '_cwd_batches', []))}").resolve()
    ctx._cwd_batches = getattr(ctx, "_cwd_batches", []) + [root]
    root.mkdir(parents=True, exist_ok=True)
    _setup(root)
    ex = ThreadPoolExecutor(max_workers=min(6, len(variants)))
    return variants, ex, [ex.submit(attempt, root, k, h, c, t) for k, (h, c, t) in enumerate(variants)]


def scenario(ctx, prop, variants=None):
    return finish(ctx, prop, start(ctx, prop, variants))


def finish(ctx, prop, handle):
    variants, ex, futs = handle
    obs = []
    for (h, c, t), f in zip(variants, futs):
        try:
            obs.append(f.result())
        except Exception as e:  # the harness' own failure on one run: inconclusive, said so
            obs.append({"holder": h, "contender": c, "total": t, "failed": f"harness: {type(e).__name__}: {e}"})
    ex.shutdown()
    res, items = [], []
    for (h, c, t), o in zip(variants, obs):
        ctx.evaluations += 1
        ctx.count("cwd_holder_designation", h)
        ctx.count("cwd_contender_designation", c)
        case = {"scenario": "two-cwd", "holder": h, "contender": c, "total": t,
                "observed": {kk: vv for kk, vv in o.items() if kk not in ("cwds", "pidfile", "uri_full")}}
        ctx.case({"scenario": "two-cwd", "holder": h, "contender": c, "total": t}, True)
        res.append({kk: vv for kk, vv in o.items() if kk not in ("intervals", "cwds", "pidfile", "tail")})
        if o.get("failed"):
            ctx.notes.append(f"two-cwd scenario {h} / {c}: inconclusive: {o['failed']} {o.get('tail', '')[-200:]}")
            continue
        ctx.count("cwd_designation_absolute", o["uri_is_absolute"])
        who = (f"process A (cwd <root>/a, workspace named by `{o['holder_designation']}`) holds the token (total {t}) for a running job; its token "
               f"file names the holder as {o['uri']!r} ({'absolute' if o['uri_is_absolute'] else 'RELATIVE'}); process B (cwd <root>/b, "
               f"`{o['contender_designation']}`) asks the same token")
        if o["max_held"] > t:
            ctx.monitor_fail("two-cwd:capacity-exceeded",
                             f"{who}: at t={o['at']}s jobs {o['together']} (1 = A's, 2 = B's) execute together and hold {o['max_held']} > total {t}; "
                             f"token files while A's job still ran: {o.get('token_files_while_a_ran')}; how each cwd resolves the holder's name "
                             f"(.pid file found): {o.get('resolved')}; task-side intervals {o['intervals']}", case)
        elif "holder_token_file_gone_after" in o:
            ctx.monitor_fail("two-cwd:token-file-deleted-while-holder-alive",
                             f"{who}: {o['holder_token_file_gone_after']}s after B was started the token file of A's job is gone while the job "
                             f"process is alive: the capacity looks free to every scheduler; how each cwd resolves the holder's name: "
                             f"{o.get('resolved')}; task-side intervals {o['intervals']}", case)
        if o.get("unfinished") or o.get("hung"):
            ctx.notes.append(f"two-cwd scenario {h} / {c}: after `go`: unfinished jobs {o.get('unfinished')}, processes still there {o.get('hung')} (liveness is C09's, not judged here)")
        items.append((case, o))
    # --- differential: the model's resolution of the written designation vs the real one, and absoluteness
    try:
        outs = common.run_driver(DRIVER, [{"op": "resolve", "uri": o["uri"].replace("<root>", "/R"),
                                           "cwds": [o["cwds"][w].replace(str(Path(o["cwds"]["h"])), "/R") for w in ("a", "b", "h")],
                                           "jobdir": o["pidfile"][:-len(".pid")].replace(str(Path(o["cwds"]["h"])), "/R")} for _, o in items])
    except Exception as e:
        ctx.disagree({"driver": DRIVER}, None, None, f"model driver failed: {e}")
        outs = []
    ok = 0
    for (case, o), m in zip(items, outs):
        impl = {"absolute": o["uri_is_absolute"], "resolves": [o["resolved"][w]["job"] == "A" for w in ("a", "b", "h")]}
        model = {"absolute": m.get("absolute"), "resolves": m.get("resolves")}
        if "error" in m or impl != model:
            ctx.disagree(case, m, impl, "the model's resolution of the written designation and the real one differ")
        else:
            ok += 1
        if not (o["uri_is_absolute"] and all(impl["resolves"])) and not any(f["case"] is case for f in ctx.monitor_failures):
            # hypothesis of the capacity theorems; by itself not a violation of the property's text (it needs a second process
            # that watches from elsewhere) — reported as a disagreement so that the search runs the full scenarios
            ctx.disagree(case, {"DesignationsAbsolute": True}, impl,
                         f"the holder designation {o['uri']!r} written by TokenFile.create is not resolved to the holder by every process "
                         f"(hypothesis DesignationsAbsolute of C08Names.running_capacity_named)")
    ctx.traces_validated += ok
    ctx.extra_cov.setdefault("file_token_two_cwd_scenarios", []).extend(res)
    return res


def all_variants(ctx):
    rng = ctx.rng
    out = list(QUICK)
    for h in HOLDER_KINDS:
        c = rng.choice(CONTENDER_KINDS)
        t = rng.choice([1, 1, 2])
        if (h, c, t) not in out:
            out.append((h, c, t))
    return out


def begin(ctx, prop=PROP):
    """start the scenario runs (quick: all of them; thorough: the first batch) so that they overlap with the engine runs"""
    if RULE not in ctx.rule:
        ctx.rule = (ctx.rule + " || " if ctx.rule else "") + RULE
    ctx.assumptions.append("two-cwd scenario: local file system, local connector (a token file names its holder by a local path; the FIXME 'not always "
                           "localhost' of TokenFile.watch is outside)")
    vs = list(QUICK) if ctx.quick() else all_variants(ctx)
    return {"rest": vs[6:], "handle": start(ctx, prop, vs[:6])}


def end(ctx, state, prop=PROP):
    finish(ctx, prop, state["handle"])
    vs = state["rest"]
    for k in range(0, len(vs), 6):
        scenario(ctx, prop, vs[k:k + 6])


def correspond(ctx, prop=PROP):
    end(ctx, begin(ctx, prop), prop)


def search(ctx, prop=PROP):
    if not ctx.monitor_failures:
        vs = [(h, c, 1) for h in HOLDER_KINDS for c in ("cli-named-abs", "api-rel-str")]
        for k in range(0, len(vs), 6):
            if ctx.monitor_failures:
                break
            scenario(ctx, prop, vs[k:k + 6])


def replay(ctx, prop, obj):
    rc = 0
    for f in obj.get("failures", []):
        c = f["case"]
        if c.get("scenario") != "two-cwd":
            continue
        sub = common.Ctx(prop, ctx.tier, ctx.seed)
        try:
            scenario(sub, prop, [(c["holder"], c["contender"], c["total"])])
        finally:
            sub.cleanup()
        print("replay:", [m["what"][:400] for m in sub.monitor_failures] or "no failure on this tree")
        if sub.monitor_failures:
            rc = 1
            print(f"VIOLATION property={prop} replay=(replayed)")
    return rc
