"""C13 on values with several roots (worker side of xv.props.c13x_multiroot; dispatched by serial_worker.main for
`kind: "c13m"`): the configurations of a list / dictionary structure are written together with the public `state_dict`
or `save`, and turned into runtime objects by `from_state_dict(state, as_instance=True)` / `load(dir, as_instance=True)`.

Monitors — the property stated on what the caller can see, i.e. the returned value and the calls received by the
generated classes (`__post_init__` / `execute` log themselves):
  * the returned value has the shape of the written one, with one runtime object per distinct configuration reachable
    from it through parameter values, wired like the graph (same object where the graph shares, across roots too);
  * `__post_init__` was called exactly once on each of those runtime objects, with all its own parameters already set;
  * no more objects were created than there are configurations in the written closure.
Nothing is demanded about objects the caller cannot reach from the returned value (upstream tasks behind a `task` link,
lightweight tasks attached as pre-tasks): whether a loader creates / post-initialises those is not fixed by the property.

Correspondence with the Lean model (Drive/Serial.lean, op `loadstate`: `loadStateLog` / `fromStateDictInst` of
`stateDict v`): the worker emits the graph, the value and what the real loader did — the call log with object creations
(`Config.__new__` is tapped while the loader runs; `__init__` / `__post_init__` / `execute` log themselves), the parameter
values every created object holds at the end and the returned value, runtime objects being named by the configuration
whose definition they were created for (`load_objects` is tapped for its `objects` dictionary).  The comparison
(`seriallib.norm` / `canon_log`) is event for event per object and up to the order C13 leaves free between objects.
"""
import json
import shutil
import tempfile
from pathlib import Path

from . import serial_worker as sw

# `from_state_dict(as_instance=True)` / `load(as_instance=True)` do not execute the pre-tasks attached to the loaded
# configurations (only `fromParameters` does).  Whether the sentence "runs every pre-task exactly once" extends to this
# entry point is debatable; the observation is recorded in the evidence (stat `mr_pretasks_run`) and the monitor is
# left disabled.
CHECK_PRETASKS_ON_STATE_LOAD = False


class Tap:
    """while the loader runs: (a) `serial_worker.NewTap`: every runtime object created through `Config.__new__` is appended
    to the call log as `new`; (b) the `objects` dictionary returned by `load_objects` (definition id -> object) is kept.
    /repo is not touched: the attributes are replaced in this process and put back."""

    def __enter__(self):
        from experimaestro.core.objects import ConfigInformation
        self.objects = None
        self.CI = ConfigInformation
        self.orig_load = ConfigInformation.__dict__["load_objects"]
        load_fn = ConfigInformation.load_objects

        def tapped_load(*a, **kw):
            res = load_fn(*a, **kw)
            self.objects = res
            return res
        ConfigInformation.load_objects = staticmethod(tapped_load)
        self.newtap = sw.NewTap().__enter__()
        return self

    def __exit__(self, *exc):
        self.newtap.__exit__(*exc)
        self.CI.load_objects = self.orig_load
        return False


def model_lines(rec, mod, lib, canon, objs, index, val, new, full_log, loaded):
    """driver lines (library, graph, `loadstate` of the value) and the implementation's canonicalised outcome"""
    inst_index = {id(o): index[k] for k, o in loaded.items() if k in index}
    rec["lines"].append(sw.lib_line(mod, lib, canon))
    rec["impl"].append({"ok": True})
    rec["lines"].append({"op": "graph", "nodes": [sw.node_json(o, index, canon) for o in objs]})
    rec["impl"].append({"ok": True})
    rec["lines"].append({"op": "loadstate", "v": sw.model_val(val, index, canon)})
    attrs = []
    for k, o in loaded.items():
        names = [n for n in o.__xpmtype__.arguments if n in vars(o)]
        attrs.append([inst_index.get(id(o), -1), [[sw.hx(n), sw.model_val(vars(o)[n], inst_index, canon)] for n in names]])
    rec["impl"].append({"log": sw.events_json(full_log, inst_index), "attrs": attrs, "data": sw.model_val(new, inst_index, canon)})


def value_paths(val):
    """id(configuration) -> how the caller reaches it from the value (first path found, breadth first)"""
    paths, todo = {}, []

    def visit(v, at):
        if sw.is_cfg(v):
            if id(v) not in paths:
                paths[id(v)] = at
                todo.append((v, at))
        elif isinstance(v, list):
            for i, x in enumerate(v):
                visit(x, f"{at}[{i}]")
        elif isinstance(v, dict):
            for k, x in v.items():
                visit(x, f"{at}[{k!r}]")
    visit(val, "value")
    i = 0
    while i < len(todo):
        c, at = todo[i]
        i += 1
        for name, v in c.__xpm__.values.items():
            visit(v, f"{at}.{name}")
    return paths, [c for c, _ in todo]


def reach(c):
    return {id(x) for x in sw.reachable_inst(c)}


def run_c13m(mod, lib, case, root, canon, datadir):
    from experimaestro.core import serialization
    from experimaestro.core.context import SerializationContext
    from experimaestro.xpmutils import DirectoryContext
    import xvlog
    from . import cfgbuild
    rec = {"lines": [], "impl": [], "monitors": [], "stats": {}}

    def mon(key, what, detail=None):
        rec["monitors"].append({"key": key, "what": what, "detail": detail})

    g = sw.localise(case["graph"], datadir)
    objs = cfgbuild.build_graph(mod, g)
    index = {id(o): i for i, o in enumerate(objs)}
    val = cfgbuild.real_val(mod, case["value"], {i: o for i, o in enumerate(objs)})
    route = case["route"]
    label = {"state": "state_dict -> from_state_dict(as_instance=True)", "save": "save -> load(as_instance=True)"}[route]
    label = f"{label} of a {case.get('shape', 'value')} {json.dumps(case['value'])}"
    leaves = [objs[r] for r in cfgbuild.refs_of(case["value"])]
    if case.get("seal", True):
        jobdir = root / "xv-job"
        ctx = DirectoryContext(jobdir)
        for o in leaves:
            o.__xpm__.validate()
            o.__xpm__.seal(ctx)

    # --- write, read back as runtime objects
    sd = None
    xvlog.LOG.clear()
    try:
        try:
            if route == "state":
                st = json.loads(json.dumps(serialization.state_dict(SerializationContext(), val)))
                ndefs = len(st["objects"])
            else:
                sd = Path(tempfile.mkdtemp(prefix="mr-", dir=str(datadir.parent)))
                serialization.save(val, sd)
                ndefs = len(json.loads((sd / "definition.json").read_text())["objects"])
        except (Exception, RecursionError) as e:
            mon("stateload:write-raises:" + sw.err_kind(e), f"{label}: writing raised {type(e).__name__}: {str(e)[:200]}")
            return rec
        xvlog.LOG.clear()
        try:
            with Tap() as tap:
                new = serialization.from_state_dict(st, Path("/"), as_instance=True) if route == "state" else serialization.load(sd, as_instance=True)
        except (Exception, RecursionError) as e:
            mon("stateload:load-raises:" + sw.err_kind(e), f"{label}: loading raised {type(e).__name__}: {str(e)[:200]}")
            return rec
        full_log = list(xvlog.LOG)
        log = [e for e in full_log if e[0] != "new"]      # the monitors below state the property on the calls the classes receive
    finally:
        if sd is not None:
            shutil.rmtree(sd, ignore_errors=True)

    # --- what the model is asked (op `loadstate`) and what the real loader did, runtime objects named by their configuration
    model_lines(rec, mod, lib, canon, objs, index, val, new, full_log, tap.objects or {})

    # --- input features (evidence)
    paths, cfgs = value_paths(val)
    distinct = []
    for o in leaves:
        if not any(o is x for x in distinct):
            distinct.append(o)
    reaches = [reach(o) for o in distinct]
    rec["stats"].update({
        "mr_route": route, "mr_shape": case.get("shape", "?"), "mr_roots": str(len(distinct)), "mr_definitions": str(min(ndefs, 12)),
        # two of the listed configurations of which neither is part of the other's graph
        "mr_independent_roots": any(id(a) not in reaches[j] and id(b) not in reaches[i]
                                    for i, a in enumerate(distinct) for j, b in enumerate(distinct) if i < j),
        # a configuration below two listed configurations that are not part of one another
        "mr_shared_between_roots": any(len([1 for i, a in enumerate(distinct) if id(c) in reaches[i] and c is not a]) > 1 for c in cfgs),
        "mr_beyond_value": ndefs > len(cfgs),      # upstream tasks / lightweight tasks are written too
        "mr_sealed": bool(case.get("seal", True))})

    # --- one object per configuration, wired like the graph
    try:
        fwd = sw.pair_walk(val, new, sw.cfg_view, sw.inst_view, sw.is_cfg, links=(), where="value")
    except sw.Differ as d:
        mon(f"stateload:{d.kind}", f"{label}: the loaded value does not mirror the written one: {d.what}")
        return rec
    created = {id(o) for _, o, _, _ in log}
    if len(created) > ndefs:
        mon("stateload:extra-object", f"{label}: {len(created)} runtime objects were created for {ndefs} configurations written")
        return rec

    # --- post-initialisation: once per runtime object, after its parameters
    posts = {}
    for kind, o, names, _ in log:
        if kind == "post":
            posts.setdefault(id(o), []).append(names)
    for c in cfgs:
        o = fwd[id(c)]
        p = posts.get(id(o), [])
        if len(p) != 1:
            mon("stateload:post-init:count", f"{label}: __post_init__ ran {len(p)} times on the runtime object of the {c.__xpmtype__.basetype.__name__} at {paths[id(c)]}")
            return rec
        want = [n for n in c.__xpmtype__.arguments if n in c.__xpm__.values]
        if p[0] != want:
            mon("stateload:post-init:before-parameters", f"{label}: __post_init__ of the {c.__xpmtype__.basetype.__name__} at {paths[id(c)]} saw parameters {p[0]} set, "
                f"expected {want}")
            return rec

    # --- pre-tasks of the loaded configurations
    pre = sw.all_pre_tasks(cfgs)
    if pre:
        execs = [o for kind, o, _, _ in log if kind == "exec"]
        rec["stats"]["mr_pretasks_run"] = "none" if not execs else f"{len(execs)} for {len(pre)}"
        if CHECK_PRETASKS_ON_STATE_LOAD and len(execs) != len(pre):
            mon("stateload:pre-task:count", f"{label}: {len(execs)} executions for the {len(pre)} pre-tasks of the loaded configurations")
    rec["stats"]["mr_objects"] = str(min(len(cfgs), 12))
    return rec
