import XpmVerif.Model.FileTokens
/-! M2' with explicit *naming* of the holder (`tokens.py`: `TokenFile.create` writes `str(job.basepath)` as second
    line of `<job identifier>.token`; `TokenFile.watch`, run by every *other* process sharing the directory, does
    `Path(uri).with_suffix(".lock"/".pid")`, takes that lock, and deletes the token file when it finds no pid file or
    when the process described by the pid file has ended).

    `Model/FileTokens.lean` lets `reclaim p f` fire only when the job `f` is not active: it silently identifies the
    job named *in* the file with the job the file is named *after*.  Here the content of the file is a *designation*
    `nm.desig f` that each process resolves on its own (`nm.resolve p d`: the job whose lock/pid files process `p` finds
    when it follows `d`, `none` when it finds no pid file).  The watcher of `p` waits for *that* job:

      `reclaim p f` may fire  iff  `resolve p (desig f)` is `none` or a job that is not active.

    All other steps are those of M2'.  The capacity theorems need every process to resolve the designation of `f` to `f`
    (`Faithful`), which follows from `DesignationsAbsolute` (all processes resolve a designation alike) and
    `WriterResolves` (the process that wrote it finds its own job).  The concrete instance: designations are paths,
    absolute or relative, a process resolves a relative one against its own working directory. -/
namespace XpmVerif.FileTokensNames
open XpmVerif.FileTokens

/-- how token files name their holder, how processes read the name -/
structure Naming (δ : Type) where
  /-- the second line `TokenFile.create` writes into the file of job `f` -/
  desig : Name → δ
  /-- the job whose `.lock`/`.pid` files process `p` reaches through designation `d` (`none`: no pid file there) -/
  resolve : Proc → δ → Option Name

variable {δ : Type}

/-- what the watcher thread of `p` concludes for the file of `f`: "Job already finished (no PID file)", or the
    process it waited for has ended and the job lock is free. -/
def holderGone (nm : Naming δ) (s : St) (p : Proc) (f : Name) : Bool :=
  match nm.resolve p (nm.desig f) with
  | none => true
  | some j => !s.active.contains j

/-- the guards of M2', the one of `reclaim` reading the name in the file. -/
def enabledN (nm : Naming δ) (s : St) : Ev → Bool
  | .reclaim p f => !(s.procs p).dropped && (s.procs p).watch.contains f && holderGone nm s p f
  | e => enabled s e

inductive ReachableN (nm : Naming δ) (cfg : Cfg) : St → Prop where
  | init : ReachableN nm cfg (init cfg)
  | step {s : St} (e : Ev) : ReachableN nm cfg s → enabledN nm s e = true → ReachableN nm cfg (apply cfg s e).1

def allEnabledN (nm : Naming δ) (cfg : Cfg) (s : St) : List Ev → Bool
  | [] => true
  | e :: r => enabledN nm s e && allEnabledN nm cfg (apply cfg s e).1 r

/-- every process resolves the designation written for a job alike (what an absolute path gives). -/
def DesignationsAbsolute (nm : Naming δ) : Prop := ∀ (p q : Proc) (f : Name), nm.resolve p (nm.desig f) = nm.resolve q (nm.desig f)

/-- the process that wrote the designation reaches its own job through it (the scheduler itself finds the job
    directory, the lock and the pid file by that path). -/
def WriterResolves (nm : Naming δ) : Prop := ∀ f : Name, ∃ p : Proc, nm.resolve p (nm.desig f) = some f

/-- every process reads the name in the file of `f` as `f`. -/
def Faithful (nm : Naming δ) : Prop := ∀ (p : Proc) (f : Name), nm.resolve p (nm.desig f) = some f

/-! ### designations as paths -/

/-- a path as `pathlib` sees it: absolute or relative, a list of segments. -/
structure Desig (σ : Type) where
  isAbs : Bool
  segs : List σ
  deriving DecidableEq, Repr

variable {σ : Type}

/-- the absolute location a process whose working directory is `cwd` reaches through `d` (what the OS does with
    `Path(uri)`). -/
def locate (cwd : List σ) (d : Desig σ) : List σ := if d.isAbs then d.segs else cwd ++ d.segs

/-- `Path.absolute()` evaluated in a process whose working directory is `cwd` (`Workspace.__init__`). -/
def absolute (cwd : List σ) (d : Desig σ) : Desig σ := { isAbs := true, segs := locate cwd d }

/-- the working directory of each process; which job's directory (lock, pid file) lives at an absolute location. -/
structure World (σ : Type) where
  cwd : Proc → List σ
  jobAt : List σ → Option Name

def resolvePath (w : World σ) (p : Proc) (d : Desig σ) : Option Name := w.jobAt (locate (w.cwd p) d)

def pathNaming (w : World σ) (desig : Name → Desig σ) : Naming (Desig σ) := { desig := desig, resolve := resolvePath w }

/-- segments of a `/`-separated path string (`pathlib`: empty and `.` segments vanish), used by the driver. -/
def parsePath (s : String) : Desig String :=
  { isAbs := s.startsWith "/", segs := (s.splitOn "/").filter fun x => x != "" && x != "." }

end XpmVerif.FileTokensNames
