import XpmVerif.Model.SpecsLex
import XpmVerif.Proofs.SpecsParse
/-! Character level of the request grammar: the lexer inverts the rendering for every padding; every rendering of a
    request is lexable; the generated regular expressions match the spans the lexer cuts. -/ 
namespace XpmVerif.Specs

theorem digitChar_isDigit (d : Nat) (h : d < 10) : (digitChar d).isDigit = true := by
  match d, h with
  | 0, _ | 1, _ | 2, _ | 3, _ | 4, _ | 5, _ | 6, _ | 7, _ | 8, _ | 9, _ => decide
  | n + 10, h => omega

theorem digitChar_val (d : Nat) (h : d < 10) : (digitChar d).toNat - 48 = d := by
  match d, h with
  | 0, _ | 1, _ | 2, _ | 3, _ | 4, _ | 5, _ | 6, _ | 7, _ | 8, _ | 9, _ => decide
  | n + 10, h => omega

def allDigits (l : List Char) : Prop := ∀ c ∈ l, c.isDigit = true

theorem natDigits_all (n : Nat) : allDigits (natDigits n) := by
  induction n using natDigits.induct with
  | case1 n h => rw [natDigits]; simp [h, allDigits]; exact digitChar_isDigit n h
  | case2 n h ih =>
    rw [natDigits]; simp only [h, dite_false]
    intro c hc
    simp at hc
    rcases hc with hc | hc
    · exact ih c hc
    · subst hc; exact digitChar_isDigit _ (by omega)

theorem natDigits_ne_nil (n : Nat) : natDigits n ≠ [] := by
  rw [natDigits]; split <;> simp

theorem digitsVal_snoc : ∀ (xs : List Char) (c : Char) (acc : Nat), allDigits xs → c.isDigit = true →
    digitsVal (xs ++ [c]) acc = digitsVal xs acc * 10 + (c.toNat - 48)
  | [], c, acc, _, hc => by simp [digitsVal, hc]
  | x :: xs, c, acc, hx, hc => by
    have hx1 : x.isDigit = true := hx x (by simp)
    have := digitsVal_snoc xs c (acc * 10 + (x.toNat - 48)) (fun y hy => hx y (by simp [hy])) hc
    simp [digitsVal, hx1, this]

theorem digitsVal_natDigits (n : Nat) : digitsVal (natDigits n) 0 = n := by
  induction n using natDigits.induct with
  | case1 n h => rw [natDigits]; simp [h, digitsVal, digitChar_isDigit n h, digitChar_val n h]
  | case2 n h ih =>
    rw [natDigits]; simp only [h, dite_false]
    rw [digitsVal_snoc _ _ _ (natDigits_all _) (digitChar_isDigit _ (by omega)), ih, digitChar_val _ (by omega)]
    omega

def noDigitHead (r : List Char) : Prop := ∀ c, r.head? = some c → c.isDigit = false

theorem digitsVal_append : ∀ (xs rest : List Char) (acc : Nat), allDigits xs → noDigitHead rest →
    digitsVal (xs ++ rest) acc = digitsVal xs acc
  | [], rest, acc, _, hr => by
    cases rest with
    | nil => rfl
    | cons c cs => simp [digitsVal, hr c (by simp)]
  | x :: xs, rest, acc, hx, hr => by
    have hx1 : x.isDigit = true := hx x (by simp)
    simp [digitsVal, hx1, digitsVal_append xs rest _ (fun y hy => hx y (by simp [hy])) hr]

theorem dropDigits_append : ∀ (xs rest : List Char), allDigits xs → noDigitHead rest →
    dropDigits (xs ++ rest) = rest
  | [], rest, _, hr => by
    cases rest with
    | nil => rfl
    | cons c cs => simp [dropDigits, hr c (by simp)]
  | x :: xs, rest, hx, hr => by
    have hx1 : x.isDigit = true := hx x (by simp)
    simp [dropDigits, hx1, dropDigits_append xs rest (fun y hy => hx y (by simp [hy])) hr]


theorem natDigits_head (n : Nat) : ∃ c r, natDigits n = c :: r ∧ c.isDigit = true := by
  have h := natDigits_ne_nil n
  have ha := natDigits_all n
  cases hd : natDigits n with
  | nil => exact absurd hd h
  | cons c r => exact ⟨c, r, rfl, ha c (by simp [hd])⟩

/-- what may follow a token's text for the lexer to cut the token there. -/
def headOK (t : Tok) (r : List Char) : Prop :=
  match t with
  | .num _ => ∀ c, r.head? = some c → c.isDigit = false ∧ c ≠ 'G' ∧ c ≠ 'M'
  | .memlit _ .none => False
  | .unit .h => r.head? ≠ some 'o'
  | .unit .d => r.head? ≠ some 'a' ∧ r.head? ≠ some 'u'
  | _ => True

theorem lexNumber_num (n : Nat) (r : List Char) (h : ∀ c, r.head? = some c → c.isDigit = false ∧ c ≠ 'G' ∧ c ≠ 'M') :
    lexNumber (natDigits n ++ r) = (.num n, r) := by
  have hnd : noDigitHead r := fun c hc => (h c hc).1
  unfold lexNumber
  rw [digitsVal_append _ _ _ (natDigits_all n) hnd, digitsVal_natDigits, dropDigits_append _ _ (natDigits_all n) hnd]
  cases r with
  | nil => rfl
  | cons c cs =>
    have := h c (by simp)
    split
    · simp_all
    · simp_all
    · rfl

theorem lexNumber_sfx (n : Nat) (r : List Char) (x : Char) (hx : x.isDigit = false) :
    digitsVal (natDigits n ++ x :: r) 0 = n ∧ dropDigits (natDigits n ++ x :: r) = x :: r := by
  have hnd : noDigitHead (x :: r) := fun c hc => by simp at hc; subst hc; exact hx
  rw [digitsVal_append _ _ _ (natDigits_all n) hnd, digitsVal_natDigits, dropDigits_append _ _ (natDigits_all n) hnd]
  exact ⟨rfl, rfl⟩

theorem lexOne_tok (t : Tok) (r : List Char) (h : headOK t r) : lexOne (tokText t ++ r) = some (t, r) := by
  cases t with
  | num n =>
    obtain ⟨c, cs, hc, hd⟩ := natDigits_head n
    simp only [tokText, lexOne, hc, List.cons_append, hd, if_true]
    rw [← List.cons_append, ← hc, lexNumber_num n r h]
  | memlit n s =>
    obtain ⟨c, cs, hc, hd⟩ := natDigits_head n
    cases s with
    | none => exact absurd h (by simp [headOK])
    | G =>
      have := lexNumber_sfx n r 'G' (by decide)
      simp only [tokText, lexOne, hc, List.cons_append, hd, if_true, List.append_assoc, List.nil_append]
      rw [← List.cons_append, ← hc]; simp [lexNumber, this]
    | M =>
      have := lexNumber_sfx n r 'M' (by decide)
      simp only [tokText, lexOne, hc, List.cons_append, hd, if_true, List.append_assoc, List.nil_append]
      rw [← List.cons_append, ← hc]; simp [lexNumber, this]
  | unit u =>
    cases u with
    | h =>
      cases r with
      | nil => simp [tokText, lexOne, lexLit, refLits, unitLits, stripPrefix, Char.isDigit]
      | cons x xs =>
        have hx : ¬ 'o' = x := by simp [headOK] at h; exact fun e => h e.symm
        simp [tokText, lexOne, lexLit, refLits, unitLits, stripPrefix, Char.isDigit, hx]
    | d =>
      cases r with
      | nil => simp [tokText, lexOne, lexLit, refLits, unitLits, stripPrefix, Char.isDigit]
      | cons x xs =>
        have hx : ¬ 'a' = x ∧ ¬ 'u' = x := by simp [headOK] at h; exact ⟨fun e => h.1 e.symm, fun e => h.2 e.symm⟩
        simp [tokText, lexOne, lexLit, refLits, unitLits, stripPrefix, Char.isDigit, hx.1, hx.2]
    | hours => simp [tokText, lexOne, lexLit, refLits, unitLits, stripPrefix, Char.isDigit]
    | days => simp [tokText, lexOne, lexLit, refLits, unitLits, stripPrefix, Char.isDigit]
  | _ => simp [tokText, lexOne, lexLit, refLits, unitLits, stripPrefix, Char.isDigit]


/-! ### whitespace -/

def allWs (w : List Char) : Prop := ∀ c ∈ w, isWs c = true

theorem skipWs_pad : ∀ (w rest : List Char), allWs w → skipWs (w ++ rest) = skipWs rest
  | [], _, _ => rfl
  | c :: w, rest, h => by
    have hc : isWs c = true := h c (by simp)
    simp [skipWs, hc, skipWs_pad w rest (fun y hy => h y (by simp [hy]))]

theorem skipWs_all (w : List Char) (h : allWs w) : skipWs w = [] := by
  have := skipWs_pad w [] h
  simpa [skipWs] using this

theorem isWs_cases (c : Char) (h : isWs c = true) : c = '\t' ∨ c = '\n' ∨ c = '\r' ∨ c = ' ' := by
  simp [isWs] at h
  rcases h with ((h | h) | h) | h <;> simp [h]

theorem digit_not_ws (c : Char) (h : c.isDigit = true) : isWs c = false := by
  cases hw : isWs c with
  | false => rfl
  | true => rcases isWs_cases c hw with rfl | rfl | rfl | rfl <;> exact absurd h (by decide)

def isNumTok : Tok → Bool
  | .num _ => true
  | .memlit _ _ => true
  | _ => false

def tokFine : Tok → Bool
  | .memlit _ .none => false
  | _ => true

/-- first character of a token's text: a digit for numbers, one of eleven characters otherwise. -/
theorem tokText_head (u : Tok) : ∃ c r, tokText u = c :: r ∧
    ((isNumTok u = true ∧ c.isDigit = true) ∨
     (isNumTok u = false ∧ c ∈ ['d', 'c', 'm', '(', ')', ',', '=', '*', '&', '|', 'h'])) := by
  cases u with
  | num n => obtain ⟨c, r, hc, hd⟩ := natDigits_head n; exact ⟨c, r, by simp [tokText, hc], Or.inl ⟨rfl, hd⟩⟩
  | memlit n s =>
    obtain ⟨c, r, hc, hd⟩ := natDigits_head n
    cases s <;> simp [tokText, hc, isNumTok, hd]
  | unit u => cases u <;> simp [tokText, isNumTok]
  | _ => simp [tokText, isNumTok]

theorem tokText_head_not_ws (u : Tok) : ∃ c r, tokText u = c :: r ∧ isWs c = false := by
  obtain ⟨c, r, hc, h⟩ := tokText_head u
  refine ⟨c, r, hc, ?_⟩
  rcases h with ⟨_, hd⟩ | ⟨_, hm⟩
  · exact digit_not_ws c hd
  · simp at hm
    rcases hm with rfl | rfl | rfl | rfl | rfl | rfl | rfl | rfl | rfl | rfl | rfl <;> decide

/-- the first character of a rendering is a whitespace character of the padding or the first character of the
    first token. -/
theorem renderToks_head (ws : Nat → List Char) (hws : ∀ i, allWs (ws i)) (j : Nat) (ts : List Tok) (c : Char)
    (h : (renderToks ws j ts).head? = some c) :
    isWs c = true ∨ ∃ u ts', ts = u :: ts' ∧ (tokText u).head? = some c := by
  cases ts with
  | nil =>
    simp only [renderToks] at h
    exact Or.inl (hws j c (List.mem_of_mem_head? h))
  | cons u ts' =>
    simp only [renderToks, List.append_assoc] at h
    cases hw : ws j with
    | nil =>
      obtain ⟨d, r, hd, _⟩ := tokText_head u
      rw [hw, hd] at h
      simp at h
      exact Or.inr ⟨u, ts', rfl, by simp [hd, h]⟩
    | cons x xs =>
      rw [hw] at h
      simp at h
      exact Or.inl (hws j c (by simp [hw, h]))

/-- token lists the lexer reads back from their text whatever the padding: no `memlit` without suffix (its text is
    that of `num`), no two adjacent numbers (they would merge when the padding is empty). -/
def lexable : List Tok → Bool
  | [] => true
  | [t] => tokFine t
  | t :: u :: ts => tokFine t && !(isNumTok t && isNumTok u) && lexable (u :: ts)

theorem headOK_render (ws : Nat → List Char) (hws : ∀ i, allWs (ws i)) (j : Nat) (t : Tok) (ts : List Tok)
    (hl : lexable (t :: ts) = true) : headOK t (renderToks ws j ts) := by
  have hfine : tokFine t = true := by cases ts <;> simp_all [lexable]
  have hnext : ∀ u ts', ts = u :: ts' → isNumTok t = true → isNumTok u = false := by
    intro u ts' e ht; subst e; simp [lexable, ht] at hl; simp [hl.1.2]
  have key : ∀ c, (renderToks ws j ts).head? = some c → isWs c = true ∨
      (∃ u, (isNumTok t = true → isNumTok u = false) ∧
        ((isNumTok u = true ∧ c.isDigit = true) ∨
         (isNumTok u = false ∧ c ∈ ['d', 'c', 'm', '(', ')', ',', '=', '*', '&', '|', 'h']))) := by
    intro c hc
    rcases renderToks_head ws hws j ts c hc with hw | ⟨u, ts', e, hu⟩
    · exact Or.inl hw
    · obtain ⟨d, r, hd, hcase⟩ := tokText_head u
      rw [hd] at hu; simp at hu; subst hu
      exact Or.inr ⟨u, hnext u ts' e, hcase⟩
  cases t with
  | num n =>
    intro c hc
    rcases key c hc with hw | ⟨u, hu, hcase⟩
    · rcases isWs_cases c hw with rfl | rfl | rfl | rfl <;> decide
    · have := hu rfl
      rcases hcase with ⟨h1, _⟩ | ⟨_, hm⟩
      · simp [this] at h1
      · simp at hm
        rcases hm with rfl | rfl | rfl | rfl | rfl | rfl | rfl | rfl | rfl | rfl | rfl <;> decide
  | memlit n s => cases s <;> simp_all [headOK, tokFine]
  | unit u =>
    cases u with
    | h =>
      intro hc
      rcases key _ hc with hw | ⟨u, _, hcase⟩
      · exact absurd hw (by decide)
      · rcases hcase with ⟨_, h1⟩ | ⟨_, hm⟩
        · exact absurd h1 (by decide)
        · exact absurd hm (by decide)
    | d =>
      refine ⟨?_, ?_⟩ <;>
      · intro hc
        rcases key _ hc with hw | ⟨u, _, hcase⟩
        · exact absurd hw (by decide)
        · rcases hcase with ⟨_, h1⟩ | ⟨_, hm⟩
          · exact absurd h1 (by decide)
          · exact absurd hm (by decide)
    | hours => trivial
    | days => trivial
  | _ => trivial

theorem lexable_tail (t : Tok) (ts : List Tok) (h : lexable (t :: ts) = true) : lexable ts = true := by
  cases ts with
  | nil => rfl
  | cons u us => simp [lexable] at h; exact h.2

/-- **the lexer inverts the rendering of tokens, for every padding.** -/
theorem lexAll_render (ws : Nat → List Char) (hws : ∀ i, allWs (ws i)) :
    ∀ (ts : List Tok) (i fuel : Nat), lexable ts = true → ts.length < fuel →
      lexAll fuel (renderToks ws i ts) = some ts
  | _, _, 0, _, h => by simp at h
  | [], i, fuel + 1, _, _ => by simp [renderToks, lexAll, skipWs_all _ (hws i)]
  | t :: ts, i, fuel + 1, hl, hf => by
    obtain ⟨c, r, hc, hnw⟩ := tokText_head_not_ws t
    have ih := lexAll_render ws hws ts (i + 1) fuel (lexable_tail t ts hl) (by simp at hf; omega)
    have h1 := lexOne_tok t (renderToks ws (i + 1) ts) (headOK_render ws hws (i + 1) t ts hl)
    simp only [renderToks, lexAll, List.append_assoc]
    rw [skipWs_pad _ _ (hws i)]
    rw [hc] at h1 ⊢
    simp only [List.cons_append, skipWs, hnw] at h1 ⊢
    simp [h1, ih]


theorem renderToks_length (ws : Nat → List Char) : ∀ (ts : List Tok) (i : Nat), ts.length ≤ (renderToks ws i ts).length
  | [], _ => by simp
  | t :: ts, i => by
    obtain ⟨c, r, hc, _⟩ := tokText_head_not_ws t
    have := renderToks_length ws ts (i + 1)
    simp only [renderToks, List.length_append, List.length_cons, hc]
    omega

/-! ### every rendering of a request is lexable -/

def headNonNum : List Tok → Bool
  | [] => true
  | t :: _ => !isNumTok t

theorem lexable_append : ∀ (a b : List Tok), lexable a = true → lexable b = true → headNonNum b = true →
    lexable (a ++ b) = true
  | [], b, _, hb, _ => by simpa using hb
  | [t], b, ha, hb, hh => by
    cases b with
    | nil => simpa using ha
    | cons u us =>
      simp [lexable] at ha
      simp [headNonNum] at hh
      simp [lexable, ha, hh, hb]
  | t :: u :: as, b, ha, hb, hh => by
    simp [lexable] at ha
    have := lexable_append (u :: as) b ha.2 hb hh
    simp only [List.cons_append] at this
    simp [lexable, ha.1, this]

def LX (ts : List Tok) : Prop := lexable ts = true ∧ headNonNum ts = true

theorem LX_append (a b : List Tok) (ha : LX a) (hb : LX b) : LX (a ++ b) := by
  refine ⟨lexable_append a b ha.1 hb.1 hb.2, ?_⟩
  cases a with
  | nil => simpa using hb.2
  | cons t ts => simpa [headNonNum] using ha.2

theorem LX_renderItem (i : SpecItem) : LX (renderItem i) := by
  cases i with
  | mem n s => cases s <;> simp [LX, renderItem, lexable, headNonNum, isNumTok, tokFine]
  | cores n => simp [LX, renderItem, lexable, headNonNum, isNumTok, tokFine]

theorem LX_single (t : Tok) (h1 : isNumTok t = false) : LX [t] := by
  cases t <;> simp_all [LX, lexable, headNonNum, isNumTok, tokFine]

theorem LX_renderItems : ∀ (is : List SpecItem), LX (renderItems is)
  | [] => by simp [LX, renderItems, lexable, headNonNum]
  | [i] => by simpa [renderItems] using LX_renderItem i
  | i :: j :: is => by
    have ih := LX_renderItems (j :: is)
    have : renderItems (i :: j :: is) = renderItem i ++ ([Tok.comma] ++ renderItems (j :: is)) := by simp [renderItems]
    rw [this]
    exact LX_append _ _ (LX_renderItem i) (LX_append _ _ (LX_single _ rfl) ih)

theorem LX_renderTerm (t : Specs.Term) : LX (renderTerm t) := by
  cases t with
  | duration n u => simp [LX, renderTerm, lexable, headNonNum, isNumTok, tokFine]
  | cuda items mult =>
    have : renderTerm (.cuda items mult) = [Tok.kwCuda] ++ ([Tok.lpar] ++ (renderItems items ++ ([Tok.rpar] ++
        (match mult with | some k => [Tok.star, Tok.num k] | none => [])))) := by cases mult <;> simp [renderTerm]
    rw [this]
    refine LX_append _ _ (LX_single _ rfl) (LX_append _ _ (LX_single _ rfl) (LX_append _ _ (LX_renderItems items)
      (LX_append _ _ (LX_single _ rfl) ?_)))
    cases mult <;> simp [LX, lexable, headNonNum, isNumTok, tokFine]
  | cpu items =>
    have : renderTerm (.cpu items) = [Tok.kwCpu] ++ ([Tok.lpar] ++ (renderItems items ++ [Tok.rpar])) := by simp [renderTerm]
    rw [this]
    exact LX_append _ _ (LX_single _ rfl) (LX_append _ _ (LX_single _ rfl) (LX_append _ _ (LX_renderItems items) (LX_single _ rfl)))

theorem LX_renderConj : ∀ (c : List Specs.Term), LX (renderConj c)
  | [] => by simp [LX, renderConj, lexable, headNonNum]
  | [t] => by simpa [renderConj] using LX_renderTerm t
  | t :: u :: ts => by
    have ih := LX_renderConj (u :: ts)
    have : renderConj (t :: u :: ts) = renderTerm t ++ ([Tok.amp] ++ renderConj (u :: ts)) := by simp [renderConj]
    rw [this]
    exact LX_append _ _ (LX_renderTerm t) (LX_append _ _ (LX_single _ rfl) ih)

theorem LX_renderAlts : ∀ (a : List (List Specs.Term)), LX (renderAlts a)
  | [] => by simp [LX, renderAlts, lexable, headNonNum]
  | [c] => by simpa [renderAlts] using LX_renderConj c
  | c :: d :: cs => by
    have ih := LX_renderAlts (d :: cs)
    have : renderAlts (c :: d :: cs) = renderConj c ++ ([Tok.bar] ++ renderAlts (d :: cs)) := by simp [renderAlts]
    rw [this]
    exact LX_append _ _ (LX_renderConj c) (LX_append _ _ (LX_single _ rfl) ih)

/-- the lexer reads the text of every request back as its token rendering, whatever the padding. -/
theorem lexText_renderText (a : List (List Specs.Term)) (ws : Nat → List Char) (hws : ∀ i, allWs (ws i)) :
    lexText (renderText a ws) = some (renderAlts a) := by
  unfold lexText renderText
  rw [String.toList_ofList, String.length_ofList]
  exact lexAll_render ws hws _ 0 _ (LX_renderAlts a).1 (by have := renderToks_length ws (renderAlts a) 0; omega)


/-! ### the generated regular expressions and the spans the lexer cuts -/

/-- span of `\d+`. -/
def spanNum : List Char → Option (List Char)
  | [] => none
  | c :: r => if c.isDigit then some (dropDigits r) else none

/-- span of `\d+(G|M)?`. -/
def spanMem (cs : List Char) : Option (List Char) :=
  (spanNum cs).map (fun r => match r with | 'G' :: r' => r' | 'M' :: r' => r' | r => r)

/-- span of the unit expression: the first of `hours`, `h`, `days`, `d` that is a prefix. -/
def spanUnit (cs : List Char) : Option (List Char) := (lexLit unitLits cs).map (·.2)

theorem starDigit_total {α : Type} (k : List Char → Option α) (hk : ∀ r, (k r).isSome = true) :
    ∀ cs, starDigit k cs = k (dropDigits cs)
  | [] => rfl
  | c :: cs => by
    have ih := starDigit_total k hk cs
    have := hk (dropDigits cs)
    simp only [starDigit, dropDigits]
    split
    · rw [ih]; cases h : k (dropDigits cs) with
      | none => simp [h] at this
      | some r => rfl
    · rfl

theorem reNum_ok (cs : List Char) : Re.plusDigit.run cs = spanNum cs := by
  cases cs with
  | nil => rfl
  | cons c r =>
    simp only [Re.run, Re.m, spanNum]
    split
    · rw [starDigit_total _ (by simp)]
    · rfl

theorem reMem_ok (cs : List Char) : genReMem.run cs = spanMem cs := by
  cases cs with
  | nil => rfl
  | cons c r =>
    simp only [Re.run, genReMem, Re.m, spanMem, spanNum]
    split
    · rw [starDigit_total _ (by intro r; rcases r with _ | ⟨x, xs⟩ <;> simp <;> repeat' split <;> simp)]
      rcases dropDigits r with _ | ⟨x, xs⟩ <;> simp <;> repeat' split <;> simp_all
    · rfl

theorem reUnit_ok (cs : List Char) : genReUnit.run cs = spanUnit cs := by
  rcases cs with _ | ⟨a, _ | ⟨b, _ | ⟨c, _ | ⟨d, _ | ⟨e, r⟩⟩⟩⟩⟩ <;>
    simp [Re.run, genReUnit, Re.m, spanUnit, lexLit, unitLits, stripPrefix] <;> grind


theorem lexLit_append : ∀ (a b : List (List Char × Tok)) (cs : List Char),
    lexLit (a ++ b) cs = (match lexLit a cs with | some x => some x | none => lexLit b cs)
  | [], b, cs => by simp [lexLit]
  | (p, t) :: a, b, cs => by
    simp only [List.cons_append, lexLit]
    cases stripPrefix p cs with
    | some r => rfl
    | none => exact lexLit_append a b cs

/-! ### quantity literals -/

theorem parseSize_lit (n : Nat) (u : List Char) (hu : noDigitHead u) (ht : trim u = u) (hd : hasDigit u = false) :
    parseSize (natDigits n ++ u) = (sizeFactor u).map (fun f => n * f) := by
  obtain ⟨c, r, hc, hdg⟩ := natDigits_head n
  have h1 := digitsVal_append _ u 0 (natDigits_all n) hu
  have h2 := dropDigits_append _ u (natDigits_all n) hu
  rw [digitsVal_natDigits] at h1
  rw [hc] at h1 h2
  simp only [parseSize, hc, List.cons_append, skipWs, digit_not_ws c hdg] at h1 h2 ⊢
  simp [hdg, h1, h2, ht, hd]

theorem parseTimespan_lit (n : Nat) (u : List Char) (hu : noDigitHead u) (hd : hasDigit (trim u) = false) :
    parseTimespan (natDigits n ++ u) = (timeFactor (trim u)).map (fun f => n * f) := by
  obtain ⟨c, r, hc, hdg⟩ := natDigits_head n
  have h1 := digitsVal_append _ u 0 (natDigits_all n) hu
  have h2 := dropDigits_append _ u (natDigits_all n) hu
  rw [digitsVal_natDigits] at h1
  rw [hc] at h1 h2
  simp only [parseTimespan, hc, List.cons_append, skipWs, digit_not_ws c hdg] at h1 h2 ⊢
  simp [hdg, h1, h2, hd]


end XpmVerif.Specs
