import XpmVerif.Proofs.SerialDfs
import XpmVerif.Proofs.SerialIdent
/-! Round trip of serialisation: `load` / `fromParameters` / `fromStateDict` applied to what
    `serialize` / `stateDict` emit return, at every emitted id, the node described by `reloadNode`;
    consequently the identifier recomputed on the reloaded graph is the original one. -/
namespace XpmVerif.Serial
open XpmVerif.Ident

/-- references stay inside the graph -/
def WF (g : Graph) : Prop := ∀ n, n < g.size → ∀ m ∈ succAll g n, m < g.size

/-- what the class library and the values of node `n` must satisfy -/
structure NodeOk (lib : List Cls) (sg : SGraph) (n : Nat) : Prop where
  cls : ∃ c, findCls lib (sg.cls n) = some c ∧ c.typeId = (sg.g.node n).typeId ∧ c.args = (sg.g.node n).args.map reset
  names : ((sg.g.node n).args.map (·.name)).Nodup
  req : ∀ a ∈ (sg.g.node n).args, a.required = true → a.default = none

/-- reachable from one of the roots through values, task link, pre-tasks, init tasks -/
def Needed (g : Graph) (roots : List Nat) (n : Nat) : Prop := ∃ r ∈ roots, Reach (succAll g) r n

/-- the configurations occurring in the declared defaults of the needed configurations are themselves
    needed, i.e. written with them.  Vacuous when no declared default contains a configuration object.
    (In the model a default object is a node of the graph; `toGraph` leaves an empty node at every id that
    was not loaded, whereas in the real code the default objects live in the class and survive the reload:
    the identifier recomputed after a reload compares values with them.) -/
def DefaultsNeeded (g : Graph) (roots : List Nat) : Prop :=
  ∀ n, Needed g roots n → ∀ m ∈ nodeDfltRefs (g.node n), Needed g roots m

theorem DefaultsNeeded.of_no_refs {g : Graph} {roots : List Nat}
    (h : ∀ n, Needed g roots n → nodeDfltRefs (g.node n) = []) : DefaultsNeeded g roots := by
  intro n hn m hm; rw [h n hn] at hm; cases hm

/-! ### value level round trip -/

theorem lookupJ_none_of_not_mem (k : List Nat) : ∀ (ks : List (List Nat)) (vs : List JVal),
    k ∉ ks → lookupJ k ks vs = none
  | [], _, _ => by simp [lookupJ]
  | _ :: _, [], _ => by simp [lookupJ]
  | k' :: ks, v :: vs, h => by
    simp only [List.mem_cons, not_or] at h
    simp only [lookupJ, h.1, if_false]
    exact lookupJ_none_of_not_mem k ks vs h.2

mutual
theorem decJ_encJ_aux (ids : List Nat) : ∀ (v : Val), (∀ m ∈ cfgRefs v, m ∈ ids) →
    decJ ids (encJ v) = .ok v
  | .none, _ => by simp [encJ, decJ]
  | .bool _, _ => by simp [encJ, decJ]
  | .int _, _ => by simp [encJ, decJ]
  | .float _, _ => by simp [encJ, decJ]
  | .str _, _ => by simp [encJ, decJ]
  | .enum s, _ => by
    simp [encJ, decJ, lookupJ, kType, kValue, sEnum, sPython, sPath, sPathSer, sDict]
  | .path s, _ => by
    simp [encJ, decJ, lookupJ, kType, kValue, sPython, sPath, sDict]
  | .list l, hr => by
    simp only [encJ, decJ]
    rw [decJs_encJs_aux ids l (by simpa only [cfgRefs] using hr)]
    rfl
  | .dict ks vs, hr => by
    have hvs := decJs_encJs_aux ids vs (by simpa only [cfgRefs] using hr)
    by_cases hk : ks.contains kType = true
    · -- wrapped: `{"type": "dict", "value": items}`
      have h1 : lookupJ kType [kType, kValue] [JVal.str sDict, JVal.obj ks (encJs vs)] = some (.str sDict) := by
        simp [lookupJ]
      have h2 : decWrapped ids [kType, kValue] [JVal.str sDict, JVal.obj ks (encJs vs)]
          = (decJs ids (encJs vs)).map (.dict ks) := by
        simp [decWrapped, kType, kValue]
      simp only [encJ, hk, if_true, decJ, h1, h2, hvs]
      rfl
    · have hk' : kType ∉ ks := by simpa using hk
      have hk2 : ks.contains kType = false := by simpa using hk
      simp only [encJ, hk2, Bool.false_eq_true, if_false, decJ]
      rw [lookupJ_none_of_not_mem kType ks (encJs vs) hk']
      simp only
      rw [hvs]
      rfl
  | .ref n, hr => by
    have : n ∈ ids := hr n (by simp [cfgRefs])
    simp [encJ, decJ, lookupJ, kType, kValue, sPython, sDict, this]
theorem decJs_encJs_aux (ids : List Nat) : ∀ (l : List Val), (∀ m ∈ cfgRefsL l, m ∈ ids) →
    decJs ids (encJs l) = .ok l
  | [], _ => by simp [encJs, decJs]
  | v :: vs, hr => by
    simp only [cfgRefsL, List.mem_append] at hr
    simp only [encJs, decJs]
    rw [decJ_encJ_aux ids v (fun m hm => hr m (Or.inl hm)),
      decJs_encJs_aux ids vs (fun m hm => hr m (Or.inr hm))]
end

theorem decJ_encJ (ids : List Nat) (v : Val) (hr : ∀ m ∈ cfgRefs v, m ∈ ids) :
    decJ ids (encJ v) = .ok v := decJ_encJ_aux ids v hr

theorem decJs_encJs (ids : List Nat) (l : List Val)
    (hr : ∀ m ∈ cfgRefsL l, m ∈ ids) : decJs ids (encJs l) = .ok l := decJs_encJs_aux ids l hr

theorem decJ_encField (ids : List Nat) (b : Bool) (v : Val)
    (hr : ∀ m ∈ cfgRefs v, m ∈ ids) : decJ ids (encField b v) = .ok v := by
  unfold encField
  split
  · simp [decJ, lookupJ, kType, kValue, sPython, sPath, sPathSer, sDict]
  · exact decJ_encJ_aux ids _ hr

/-! ### the emitted order -/

theorem unseen_nil_lt (size : Nat) : unseen size [] < size + 1 :=
  Nat.lt_succ_of_le (unseen_le size [])

theorem reach_lt (g : Graph) (hwf : WF g) {r n : Nat} (h : Reach (succAll g) r n) (hr : r < g.size) :
    n < g.size := by
  induction h with
  | refl _ => exact hr
  | step hm _ ih => exact ih (hwf _ hr _ hm)

theorem serialOrder_dfsOk (g : Graph) (roots : List Nat) (hwf : WF g) (hr : ∀ r ∈ roots, r < g.size) :
    ∃ new seen', serialOrder g roots = exitsOf new ∧ DfsOk (succAll g) roots [] new seen' := by
  obtain ⟨new, seen', e, ok⟩ :=
    dfsList_ok (succAll g) g.size hwf (g.size + 1) roots [] [] hr (unseen_nil_lt g.size)
  refine ⟨new, seen', ?_, ok⟩
  simp only [serialOrder, e, List.nil_append]

theorem serialOrder_spec (g : Graph) (roots : List Nat) (hwf : WF g) (hr : ∀ r ∈ roots, r < g.size) :
    (serialOrder g roots).Nodup ∧
    (∀ n, n ∈ serialOrder g roots ↔ Needed g roots n) ∧
    (∀ n ∈ serialOrder g roots, n < g.size) ∧
    (∀ n ∈ serialOrder g roots, ∀ m ∈ succAll g n, m ∈ serialOrder g roots) := by
  obtain ⟨new, seen', e, ok⟩ := serialOrder_dfsOk g roots hwf hr
  have hmem : ∀ n, n ∈ serialOrder g roots ↔ n ∈ entersOf new := by
    intro n; rw [e]; exact ok.exits_perm.mem_iff
  have hseen : ∀ x, x ∈ seen' ↔ x ∈ entersOf new := by
    intro x; rw [ok.seen_iff]; simp
  have hiff : ∀ n, n ∈ serialOrder g roots ↔ Needed g roots n := by
    intro n
    rw [hmem]
    constructor
    · exact ok.reach n
    · rintro ⟨r, hrr, hreach⟩
      have h0 : r ∈ entersOf new := (hseen r).1 (ok.roots_in r hrr)
      clear hrr
      induction hreach with
      | refl _ => exact h0
      | step hm _ ih => exact ih ((hseen _).1 (ok.closed _ h0 _ hm))
  refine ⟨?_, hiff, ?_, ?_⟩
  · rw [e]; exact ok.exits_perm.nodup_iff.2 ok.nodup
  · intro n hn
    obtain ⟨r, hrr, hreach⟩ := (hiff n).1 hn
    exact reach_lt g hwf hreach (hr r hrr)
  · intro n hn m hm
    rw [hmem] at hn ⊢
    exact (hseen m).1 (ok.closed n hn m hm)

theorem serialOrder_last (g : Graph) (root : Nat) (hwf : WF g) (hr : root < g.size) :
    (serialOrder g [root]).getLast? = some root := by
  obtain ⟨mid, seen', e⟩ :=
    dfs_root_last (succAll g) g.size hwf (g.size + 1) root [] [] hr (unseen_nil_lt g.size) (by simp)
  simp only [serialOrder, dfsList, List.foldl_cons, List.foldl_nil, e, List.nil_append, exitsOf_wrap]
  simp

/-! ### loading one definition -/

theorem firstDup_none : ∀ l : List Nat, l.Nodup → firstDup l = none
  | [], _ => rfl
  | x :: xs, h => by
    rw [List.nodup_cons] at h
    simp only [firstDup, List.contains_eq_mem, h.1, decide_false, Bool.false_eq_true, if_false]
    exact firstDup_none xs h.2

theorem decFields_enc (ids : List Nat) (data : List (List Nat)) : ∀ (l : List Arg),
    (∀ a ∈ l, ∀ m ∈ cfgRefs a.value, m ∈ ids) →
    decFields ids (l.map (fun a => (a.name, encField (data.contains a.name) a.value)))
      = .ok (l.map (fun a => (a.name, a.value)))
  | [], _ => rfl
  | a :: l, hr => by
    simp only [List.map_cons, decFields]
    rw [decJ_encField ids _ a.value (hr a List.mem_cons_self),
      decFields_enc ids data l (fun b hb => hr b (List.mem_cons_of_mem _ hb))]

theorem lookupV_none (k : List Nat) (p : Arg → Bool) : ∀ (l : List Arg), k ∉ l.map (·.name) →
    lookupV k ((l.filter p).map (fun a => (a.name, a.value))) = none
  | [], _ => rfl
  | b :: l, h => by
    simp only [List.map_cons, List.mem_cons, not_or] at h
    have ih := lookupV_none k p l h.2
    simp only [List.filter_cons]
    split
    · simp only [List.map_cons, lookupV, h.1, if_false]; exact ih
    · exact ih

theorem lookupV_filter (p : Arg → Bool) : ∀ (l : List Arg), (l.map (·.name)).Nodup → ∀ a ∈ l,
    lookupV a.name ((l.filter p).map (fun a => (a.name, a.value))) = if p a then some a.value else none
  | [], _, a, ha => by cases ha
  | b :: l, hnd, a, ha => by
    simp only [List.map_cons, List.nodup_cons] at hnd
    rcases List.mem_cons.1 ha with rfl | ha'
    · by_cases hp : p a = true
      · simp [hp, lookupV]
      · simp only [List.filter_cons, hp, if_false, Bool.false_eq_true]
        exact lookupV_none a.name p l hnd.1
    · have hne : a.name ≠ b.name := by
        intro he
        exact hnd.1 (he ▸ List.mem_map.2 ⟨a, ha', rfl⟩)
      have ih := lookupV_filter p l hnd.2 a ha'
      simp only [List.filter_cons]
      split
      · simp only [List.map_cons, lookupV, hne, if_false]; exact ih
      · exact ih

theorem find_reset : ∀ (l : List Arg), (l.map (·.name)).Nodup → ∀ a ∈ l,
    (l.map reset).find? (fun a' => a'.name == a.name) = some (reset a)
  | [], _, a, ha => by cases ha
  | b :: l, hnd, a, ha => by
    simp only [List.map_cons, List.nodup_cons] at hnd
    rcases List.mem_cons.1 ha with rfl | ha'
    · simp [reset]
    · have hne : b.name ≠ a.name := by
        intro he
        exact hnd.1 (he ▸ List.mem_map.2 ⟨a, ha', rfl⟩)
      have ih := find_reset l hnd.2 a ha'
      simp only [List.map_cons, List.find?_cons]
      have : ((reset b).name == a.name) = false := by simpa [reset] using hne
      rw [this]
      exact ih

theorem checkFields_ok (args : List Arg) (hnd : (args.map (·.name)).Nodup) : ∀ (l : List Arg),
    (∀ a ∈ l, a ∈ args ∧ present a = true) →
    checkFields (args.map reset) (l.map (fun a => (a.name, a.value))) = .ok ()
  | [], _ => rfl
  | a :: l, h => by
    obtain ⟨ha, hp⟩ := h a List.mem_cons_self
    simp only [List.map_cons, checkFields]
    rw [find_reset args hnd a ha]
    have : ((reset a).required && isNone a.value) = false := by
      simp only [present] at hp
      simp only [reset]
      cases h1 : a.required <;> cases h2 : isNone a.value <;> simp_all
    simp only [this, Bool.false_eq_true, if_false]
    exact checkFields_ok args hnd l (fun b hb => h b (List.mem_cons_of_mem _ hb))

theorem checkIds_ok (ids : List Nat) : ∀ l : List Nat, (∀ x ∈ l, x ∈ ids) → checkIds ids l = .ok ()
  | [], _ => rfl
  | x :: xs, h => by
    simp only [checkIds, List.contains_eq_mem, h x List.mem_cons_self, decide_true, if_true]
    exact checkIds_ok ids xs (fun y hy => h y (List.mem_cons_of_mem _ hy))

theorem optList_getD (l : List Nat) : (optList l).getD [] = l := by
  cases l <;> simp [optList]

theorem isNone_eq {v : Val} (h : isNone v = true) : v = .none := by
  cases v <;> simp [isNone] at h ⊢

theorem setFields_reset (args : List Arg) (hnd : (args.map (·.name)).Nodup)
    (hreq : ∀ a ∈ args, a.required = true → a.default = none) :
    setFields (args.map reset) ((args.filter present).map (fun a => (a.name, a.value))) = args := by
  simp only [setFields, List.map_map]
  conv => rhs; rw [← List.map_id args]
  apply List.map_congr_left
  intro a ha
  have hl := lookupV_filter present args hnd a ha
  simp only [Function.comp, id]
  have hname : (reset a).name = a.name := rfl
  rw [hname, hl]
  by_cases hp : present a = true
  · simp only [hp, if_true]
    cases a; rfl
  · simp only [hp, if_false, Bool.false_eq_true]
    simp only [present, Bool.or_eq_true, Bool.not_eq_true', not_or, Bool.not_eq_false] at hp
    have hv := isNone_eq hp.1
    have hd := hreq a ha hp.2
    cases a
    simp only [reset, initVal] at *
    simp [hv, hd]

theorem loadDef_mkDef (fl : Flags) (lib : List Cls) (sg : SGraph) (ids : List Nat) (n : Nat)
    (hok : NodeOk lib sg n) (hs : ∀ m ∈ succAll sg.g n, m ∈ ids) :
    loadDef fl lib ids (mkDef fl lib sg n)
      = .ok { cname := sg.cls n, node := reloadNode fl (sg.g.node n) } := by
  obtain ⟨c, hc, hty, hargs⟩ := hok.cls
  simp only [succAll, List.mem_append] at hs
  have hdec := decFields_enc ids c.data ((sg.g.node n).args.filter present)
    (fun a ha m hm => hs m (Or.inl (Or.inl (Or.inl (mem_argRefs_of_mem (List.mem_filter.1 ha).1 hm)))))
  have hchk := checkFields_ok (sg.g.node n).args hok.names ((sg.g.node n).args.filter present)
    (fun a ha => by simpa using List.mem_filter.1 ha)
  have hset := setFields_reset (sg.g.node n).args hok.names hok.req
  have hids : checkIds ids ((sg.g.node n).preTasks ++
      (if fl.initRestored = true then (sg.g.node n).initTasks else []) ++ optL (sg.g.node n).task) = .ok () := by
    apply checkIds_ok
    intro x hx
    simp only [List.mem_append] at hx
    rcases hx with (hx | hx) | hx
    · exact hs x (Or.inl (Or.inr hx))
    · split at hx
      · exact hs x (Or.inr hx)
      · cases hx
    · exact hs x (Or.inl (Or.inl (Or.inr hx)))
  simp only [loadDef, mkDef, hc, hdec, hargs, hchk, optList_getD, hids, hset, hty]
  simp only [reloadNode]


/-! ### loading a list of definitions -/

/-- the objects `load` produces for the ids `l` -/
def loadedOf (fl : Flags) (sg : SGraph) (l : List Nat) : Loaded :=
  l.map (fun n => (n, { cname := sg.cls n, node := reloadNode fl (sg.g.node n) }))

theorem loadDefs_mkDef (fl : Flags) (lib : List Cls) (sg : SGraph) (ids : List Nat) : ∀ l : List Nat,
    (∀ n ∈ l, NodeOk lib sg n ∧ ∀ m ∈ succAll sg.g n, m ∈ ids) →
    loadDefs fl lib ids (l.map (mkDef fl lib sg)) = .ok (loadedOf fl sg l)
  | [], _ => rfl
  | n :: l, h => by
    obtain ⟨hok, hs⟩ := h n List.mem_cons_self
    simp only [List.map_cons, loadDefs]
    rw [loadDef_mkDef fl lib sg ids n hok hs,
      loadDefs_mkDef fl lib sg ids l (fun m hm => h m (List.mem_cons_of_mem _ hm))]
    rfl

theorem loadedOf_keys (fl : Flags) (sg : SGraph) (l : List Nat) : (loadedOf fl sg l).map (·.1) = l := by
  simp [loadedOf, List.map_map, Function.comp_def]

theorem lookupObj_loadedOf (fl : Flags) (sg : SGraph) (n : Nat) : ∀ l : List Nat, n ∈ l →
    lookupObj n (loadedOf fl sg l) = some { cname := sg.cls n, node := reloadNode fl (sg.g.node n) }
  | [], h => by cases h
  | k :: l, h => by
    simp only [loadedOf, List.map_cons, lookupObj]
    by_cases hk : n = k
    · subst hk; simp
    · simp only [hk, if_false]
      exact lookupObj_loadedOf fl sg n l (by simpa [hk] using h)

theorem serialize_ids (fl : Flags) (lib : List Cls) (sg : SGraph) (roots : List Nat) :
    (serialize fl lib sg roots).map (·.id) = serialOrder sg.g roots := by
  simp [serialize, List.map_map, Function.comp_def, mkDef]

/-- `load` of what was serialised, with the loaded objects given explicitly -/
theorem load_serialize_eq (fl : Flags) (lib : List Cls) (sg : SGraph) (roots : List Nat)
    (hwf : WF sg.g) (hr : ∀ r ∈ roots, r < sg.g.size)
    (hok : ∀ n, Needed sg.g roots n → NodeOk lib sg n) :
    load fl lib (serialize fl lib sg roots) = .ok (loadedOf fl sg (serialOrder sg.g roots)) := by
  obtain ⟨hnd, hiff, _, hcl⟩ := serialOrder_spec sg.g roots hwf hr
  simp only [load, serialize_ids, firstDup_none _ hnd]
  exact loadDefs_mkDef fl lib sg _ _ (fun n hn => ⟨hok n ((hiff n).1 hn), hcl n hn⟩)

/-- main lemma: loading what was serialised gives, at every emitted id, the node as `reloadNode` describes it -/
theorem load_serialize (fl : Flags) (lib : List Cls) (sg : SGraph) (roots : List Nat)
    (hwf : WF sg.g) (hr : ∀ r ∈ roots, r < sg.g.size)
    (hok : ∀ n, Needed sg.g roots n → NodeOk lib sg n) :
    ∃ L, load fl lib (serialize fl lib sg roots) = .ok L ∧
      L.map (·.1) = serialOrder sg.g roots ∧
      ∀ n ∈ serialOrder sg.g roots,
        lookupObj n L = some { cname := sg.cls n, node := reloadNode fl (sg.g.node n) } :=
  ⟨_, load_serialize_eq fl lib sg roots hwf hr hok, loadedOf_keys fl sg _,
    fun n hn => lookupObj_loadedOf fl sg n _ hn⟩

theorem fromParameters_serialize_eq (fl : Flags) (lib : List Cls) (sg : SGraph) (root : Nat)
    (hwf : WF sg.g) (hr : root < sg.g.size)
    (hok : ∀ n, Needed sg.g [root] n → NodeOk lib sg n) :
    fromParameters fl lib (serialize fl lib sg [root])
      = .ok (loadedOf fl sg (serialOrder sg.g [root]), root) := by
  have hl := load_serialize_eq fl lib sg [root] hwf (by simpa using hr) hok
  have hlast : (serialize fl lib sg [root]).getLast? = some (mkDef fl lib sg root) := by
    simp only [serialize, List.getLast?_map, serialOrder_last sg.g root hwf hr, Option.map_some]
  simp only [fromParameters, hlast, hl]
  rfl

theorem fromParameters_serialize (fl : Flags) (lib : List Cls) (sg : SGraph) (root : Nat)
    (hwf : WF sg.g) (hr : root < sg.g.size)
    (hok : ∀ n, Needed sg.g [root] n → NodeOk lib sg n) :
    ∃ L, fromParameters fl lib (serialize fl lib sg [root]) = .ok (L, root) ∧
      L.map (·.1) = serialOrder sg.g [root] ∧
      ∀ n ∈ serialOrder sg.g [root],
        lookupObj n L = some { cname := sg.cls n, node := reloadNode fl (sg.g.node n) } :=
  ⟨_, fromParameters_serialize_eq fl lib sg root hwf hr hok, loadedOf_keys fl sg _,
    fun n hn => lookupObj_loadedOf fl sg n _ hn⟩

theorem fromStateDict_stateDict (fl : Flags) (lib : List Cls) (sg : SGraph) (v : Val)
    (hwf : WF sg.g) (hr : ∀ r ∈ cfgRefs v, r < sg.g.size)
    (hok : ∀ n, Needed sg.g (cfgRefs v) n → NodeOk lib sg n) :
    ∃ L, fromStateDict fl lib (stateDict fl lib sg v) = .ok (L, v) ∧
      L.map (·.1) = serialOrder sg.g (cfgRefs v) ∧
      ∀ n ∈ serialOrder sg.g (cfgRefs v),
        lookupObj n L = some { cname := sg.cls n, node := reloadNode fl (sg.g.node n) } := by
  refine ⟨_, ?_, loadedOf_keys fl sg _, fun n hn => lookupObj_loadedOf fl sg n _ hn⟩
  have hl := load_serialize_eq fl lib sg (cfgRefs v) hwf hr hok
  obtain ⟨_, hiff, _, _⟩ := serialOrder_spec sg.g (cfgRefs v) hwf hr
  have hdec := decJ_encJ (serialOrder sg.g (cfgRefs v)) v
    (fun m hm => (hiff m).2 ⟨m, hm, Reach.refl m⟩)
  simp only [fromStateDict, stateDict, hl, serialize_ids, hdec]
  rfl

/-! ### what `reloadNode` preserves -/

theorem readMeta_writeMeta (fl : Flags) (m : Option Bool)
    (hm : (fl.metaWriteAll = true ∧ fl.metaReadAll = true) ∨ m ≠ some false) :
    readMeta fl (writeMeta fl m) = m := by
  rcases hm with ⟨h1, h2⟩ | hm
  · simp [readMeta, writeMeta, h1, h2]
  · rcases m with _ | _ | _
    · cases h1 : fl.metaWriteAll <;> cases h2 : fl.metaReadAll <;> simp [readMeta, writeMeta, h1, h2]
    · exact absurd rfl hm
    · cases h1 : fl.metaWriteAll <;> cases h2 : fl.metaReadAll <;> simp [readMeta, writeMeta, h1, h2]

/-- when `reloadNode` changes nothing but the `sealed` flag -/
theorem reloadNode_same (fl : Flags) (nd : Node)
    (hm : (fl.metaWriteAll = true ∧ fl.metaReadAll = true) ∨ nd.mflag ≠ some false)
    (hi : fl.initRestored = true ∨ nd.initTasks = []) :
    NodeSame nd (reloadNode fl nd) := by
  refine ⟨rfl, rfl, rfl, ?_, rfl, ?_⟩
  · simp only [reloadNode, readMeta_writeMeta fl nd.mflag hm]
  · simp only [reloadNode]
    rcases hi with hi | hi
    · simp [hi]
    · simp [hi]

/-! ### the reloaded graph -/

theorem toGraph_size (L : Loaded) (size : Nat) : (toGraph L size).size = size := by
  simp [toGraph, Graph.size]

theorem toGraph_node (L : Loaded) (size n : Nat) (hn : n < size) :
    (toGraph L size).node n = (match lookupObj n L with
      | some o => o.node
      | none => { typeId := [], args := [] }) := by
  cases h : lookupObj n L <;>
    simp [toGraph, Graph.node, List.getD_eq_getElem?_getD, hn, h]

/-- the identifier recomputed on the reloaded graph -/
theorem reload_fullId {D : Type} (hc : HC D) (fl : Flags) (lib : List Cls) (sg : SGraph) (root : Nat)
    (hwf : WF sg.g) (hr : root < sg.g.size)
    (hok : ∀ n, Needed sg.g [root] n → NodeOk lib sg n)
    (hm : (fl.metaWriteAll = true ∧ fl.metaReadAll = true) ∨ ∀ n, Needed sg.g [root] n → (sg.g.node n).mflag ≠ some false)
    (hi : fl.initRestored = true ∨ ∀ n, Needed sg.g [root] n → (sg.g.node n).initTasks = [])
    (hdn : DefaultsNeeded sg.g [root]) :
    ∃ L, fromParameters fl lib (serialize fl lib sg [root]) = .ok (L, root) ∧
      fullId hc (toGraph L sg.g.size) root = fullId hc sg.g root := by
  obtain ⟨L, hL, _, hlook⟩ := fromParameters_serialize fl lib sg root hwf hr hok
  obtain ⟨_, hiff, hlt, hcl⟩ := serialOrder_spec sg.g [root] hwf (by simpa using hr)
  refine ⟨L, hL, ?_⟩
  apply fullId_congr_on hc sg.g (toGraph L sg.g.size) (fun n => n ∈ serialOrder sg.g [root])
    (toGraph_size L _).symm hcl (fun n hn m hm => (hiff m).2 (hdn n ((hiff n).1 hn) m hm))
  · intro n hn
    have hN := (hiff n).1 hn
    rw [toGraph_node L _ n (hlt n hn), hlook n hn]
    apply reloadNode_same
    · rcases hm with hm | hm
      · exact Or.inl hm
      · exact Or.inr (hm n hN)
    · rcases hi with hi | hi
      · exact Or.inl hi
      · exact Or.inr (hi n hN)
  · exact (hiff root).2 ⟨root, List.mem_singleton.2 rfl, Reach.refl root⟩

/-- the same when the default objects are *not* written but kept (as the real code does: they live in the
    class library): `g'` holds the loaded object at every needed id, and — up to `sealed` — the original node on
    a set `S` that contains the needed configurations and is closed under references and declared defaults. -/
theorem reload_fullId_defaults_kept {D : Type} (hc : HC D) (fl : Flags) (lib : List Cls) (sg : SGraph) (root : Nat)
    (hwf : WF sg.g) (hr : root < sg.g.size)
    (hok : ∀ n, Needed sg.g [root] n → NodeOk lib sg n)
    (hm : (fl.metaWriteAll = true ∧ fl.metaReadAll = true) ∨ ∀ n, Needed sg.g [root] n → (sg.g.node n).mflag ≠ some false)
    (hi : fl.initRestored = true ∨ ∀ n, Needed sg.g [root] n → (sg.g.node n).initTasks = [])
    (S : Nat → Prop) (hS : ∀ n, Needed sg.g [root] n → S n)
    (hclosed : ∀ n, S n → ∀ m ∈ succAll sg.g n, S m)
    (hdflt : ∀ n, S n → ∀ m ∈ nodeDfltRefs (sg.g.node n), S m) :
    ∃ L, fromParameters fl lib (serialize fl lib sg [root]) = .ok (L, root) ∧
      ∀ g' : Graph, g'.size = sg.g.size →
        (∀ n, Needed sg.g [root] n → g'.node n = (toGraph L sg.g.size).node n) →
        (∀ n, S n → ¬ Needed sg.g [root] n → NodeSame (sg.g.node n) (g'.node n)) →
        fullId hc g' root = fullId hc sg.g root := by
  obtain ⟨L, hL, _, hlook⟩ := fromParameters_serialize fl lib sg root hwf hr hok
  obtain ⟨_, hiff, hlt, _⟩ := serialOrder_spec sg.g [root] hwf (by simpa using hr)
  refine ⟨L, hL, ?_⟩
  intro g' hsz hload hkeep
  classical
  apply fullId_congr_on hc sg.g g' S hsz.symm hclosed hdflt
  · intro n hn
    by_cases hN : Needed sg.g [root] n
    · have hmem := (hiff n).2 hN
      rw [hload n hN, toGraph_node L _ n (hlt n hmem), hlook n hmem]
      apply reloadNode_same
      · rcases hm with hm | hm
        · exact Or.inl hm
        · exact Or.inr (hm n hN)
      · rcases hi with hi | hi
        · exact Or.inl hi
        · exact Or.inr (hi n hN)
    · exact hkeep n hn hN
  · exact hS root ⟨root, List.mem_singleton.2 rfl, Reach.refl root⟩

end XpmVerif.Serial
